#!/bin/bash
# MANIFEST.setup_cmd: offline build of the verification framework (Coq development + harness byte-compile)
here="$(cd "$(dirname "$0")" && pwd)"
export PYTHONPATH="$here/tools:${SF_REPO:-/repo}"
export PYTHONHASHSEED=0
export PYTHONDONTWRITEBYTECODE=1
exec /venv/bin/python -m sfv.setup
