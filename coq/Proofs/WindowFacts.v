(* C13 -- the window loop (with the regenerated index arithmetic) = the anchor enumeration;
   termination within the fuel; what the enumeration contains. *)
Require Import SF.Prelude SF.PySlice Gen.Gen_c13 SF.WindowSpec SF.Window.

Lemma zseq_S a k : zseq a (S k) = a :: zseq (a + 1) k.
Proof. reflexivity. Qed.

Lemma In_zseq : forall k a j, In j (zseq a k) -> a <= j < a + Z.of_nat k.
Proof.
  induction k as [|k IH]; intros a j H; simpl in H; [contradiction|].
  destruct H as [<-|H]; [lia|]. apply IH in H. lia.
Qed.

Lemma zseq_In : forall k a j, a <= j < a + Z.of_nat k -> In j (zseq a k).
Proof.
  induction k as [|k IH]; intros a j H; [lia|]. simpl.
  destruct (Z.eq_dec a j); [left; assumption | right; apply IH; lia].
Qed.

Lemma flat_map_nil {X Y} (g : X -> list Y) l : (forall x, In x l -> g x = []) -> flat_map g l = [].
Proof.
  induction l as [|a t IH]; intro H; [reflexivity|]. simpl. rewrite (H a (or_introl eq_refl)).
  apply IH. intros; apply H; right; assumption.
Qed.

(* the regenerated floor expressions are max(0, .) *)
Lemma left_floor x : w_idx_left_floored x = Z.max 0 x.
Proof. unfold w_idx_left_floored. destruct (x >? 0) eqn:E; lia. Qed.

Lemma stop_floor l r a : w_key_stop l r a (w_idx_right_floored r) = Z.max 0 (r + 1).
Proof. unfold w_key_stop, w_idx_right_floored. destruct (r >? -1) eqn:E; lia. Qed.

Section WindowFacts.
  Context {L A : Type}.
  Implicit Types (rows : list (@wrow L A)) (p : wparams).

  Lemma w_body_item rows p i :
    w_body rows (wp_sized p) (wp_label_shift p) (a_left p i) (a_size p i) = a_item rows p i.
  Proof.
    unfold w_body, a_item, a_window. cbv zeta. unfold w_key_start.
    rewrite !left_floor, !stop_floor. reflexivity.
  Qed.

  Lemma a_count_max_nonneg rows p : 0 <= a_count_max (zlen rows) p.
  Proof. unfold a_count_max, zlen. destruct (wp_start_shift p >=? 0) eqn:E; lia. Qed.

  Lemma count_max_eq rows p :
    w_count_window_max (zlen rows) (wp_start_shift p) = a_count_max (zlen rows) p.
  Proof. unfold w_count_window_max, a_count_max. destruct (wp_start_shift p >=? 0) eqn:E; lia. Qed.

  (* once an anchor after the first is not enumerated, no later one is: the left edge only moves
     right, and a size that has become negative (starting positive) keeps decreasing *)
  Lemma enum_stops n p j1 j2 :
    0 < wp_size p -> 0 <= wp_step p -> 1 <= j1 <= j2 ->
    a_enumerated n p j1 = false -> a_enumerated n p j2 = false.
  Proof.
    unfold a_enumerated, a_left, a_size. intros Hsz Hst Hj H.
    assert (E1 : (j1 =? 0) = false) by lia. assert (E2 : (j2 =? 0) = false) by lia.
    rewrite E1 in H. rewrite E2. simpl orb in *.
    apply andb_false_iff in H. apply andb_false_iff. destruct H as [H|H].
    - left. assert (j1 * wp_step p <= j2 * wp_step p) by (apply Z.mul_le_mono_nonneg_r; lia). lia.
    - right. assert (Hi : wp_incr p < 0).
      { destruct (Z_lt_ge_dec (wp_incr p) 0) as [|Hge]; [assumption|].
        assert (0 <= j1 * wp_incr p) by (apply Z.mul_nonneg_nonneg; lia). lia. }
      assert (j2 * wp_incr p <= j1 * wp_incr p) by (apply Z.mul_le_mono_nonpos_r; lia). lia.
  Qed.

  Lemma w_loop_spec rows p :
    0 < wp_size p -> 0 <= wp_step p ->
    forall fuel i,
      0 <= i <= a_count_max (zlen rows) p ->
      a_count_max (zlen rows) p + 1 - i <= Z.of_nat fuel ->
      a_enumerated (zlen rows) p i = true ->
      w_loop fuel rows (wp_sized p) (wp_step p) (wp_label_shift p) (wp_incr p)
             (a_count_max (zlen rows) p) (a_count_max (zlen rows) p - 1) (a_left p i) (a_size p i) i
      = Ok (flat_map (fun j => if a_enumerated (zlen rows) p j then a_item rows p j else [])
                     (zseq i (Z.to_nat (a_count_max (zlen rows) p + 1 - i)))).
  Proof.
    intros Hsz Hst. set (n := zlen rows). set (cmax := a_count_max n p).
    induction fuel as [|f IH]; intros i Hi Hf He; [lia|].
    cbn [w_loop]. cbv zeta. rewrite w_body_item.
    replace (w_next_left (a_left p i) (wp_step p)) with (a_left p (i + 1)) by (unfold w_next_left, a_left; lia).
    replace (w_next_size (a_size p i) (wp_incr p)) with (a_size p (i + 1)) by (unfold w_next_size, a_size; lia).
    replace (w_next_count i) with (i + 1) by reflexivity.
    replace (Z.to_nat (cmax + 1 - i)) with (S (Z.to_nat (cmax + 1 - (i + 1)))) by lia.
    rewrite zseq_S. cbn [flat_map]. rewrite He.
    destruct (w_break (i + 1) cmax (a_left p (i + 1)) (cmax - 1) (a_size p (i + 1))) eqn:B.
    - f_equal. rewrite flat_map_nil; [rewrite app_nil_r; reflexivity|].
      intros j Hj. apply In_zseq in Hj.
      assert (Hn : a_enumerated n p j = false).
      { unfold w_break in B. destruct (i + 1 >? cmax) eqn:C; [lia|].
        apply (enum_stops n p (i + 1) j); try lia.
        unfold a_enumerated. fold cmax. lia. }
      rewrite Hn. reflexivity.
    - unfold w_break in B. rewrite IH; [reflexivity | lia | lia |].
      unfold a_enumerated. fold cmax. lia.
  Qed.

  (* REFINEMENT: the loop, with the fuel the model passes, returns exactly the anchor enumeration
     -- for every parameter tuple, accepted or rejected; in particular it never runs out of fuel *)
  Theorem windows_exact rows p : M_windows rows p = S_windows rows p.
  Proof.
    unfold M_windows, S_windows, w_reject_size, w_reject_step.
    destruct (wp_size p <=? 0) eqn:E1; [reflexivity|].
    destruct (wp_step p <? 0) eqn:E2; [reflexivity|]. cbn [orb]. cbv zeta.
    rewrite count_max_eq. unfold w_idx_left_max, w_idx_left_init, w_count_init.
    pose proof (a_count_max_nonneg rows p) as Hc.
    assert (H := w_loop_spec rows p ltac:(lia) ltac:(lia)
                   (Z.to_nat (a_count_max (zlen rows) p + 2)) 0 ltac:(lia) ltac:(lia) eq_refl).
    replace (a_left p 0) with (wp_start_shift p) in H by (unfold a_left; lia).
    replace (a_size p 0) with (wp_size p) in H by (unfold a_size; lia).
    rewrite H. replace (a_count_max (zlen rows) p + 1 - 0) with (a_count_max (zlen rows) p + 1) by lia.
    reflexivity.
  Qed.

  Corollary windows_never_out_of_fuel rows p : M_windows rows p <> Err "OutOfFuel".
  Proof.
    rewrite windows_exact. unfold S_windows.
    destruct ((wp_size p <=? 0) || (wp_step p <? 0)); discriminate.
  Qed.

  (* ---- what the enumeration contains ---- *)
  (* every yielded item is an anchor: its label is the row at right+label_shift, its window is the
     contiguous run of existing rows max(0,left) .. right, and with window_sized it has exactly the
     anchor's size *)
  Theorem windows_sound rows p out lab w :
    S_windows rows p = Ok out -> In (lab, w) out ->
    exists i payload,
      0 <= i <= a_count_max (zlen rows) p /\
      0 <= a_label p i /\ nth_z rows (a_label p i) = Some (lab, payload) /\
      w = a_window rows p i /\
      (wp_sized p = true -> zlen w = a_size p i).
  Proof.
    unfold S_windows. destruct ((wp_size p <=? 0) || (wp_step p <? 0)); [discriminate|].
    intro H. injection H as <-. intro Hin.
    apply in_flat_map in Hin as (i & Hi & Hin). apply In_zseq in Hi.
    pose proof (a_count_max_nonneg rows p) as Hc.
    revert Hin. cbv beta.
    match goal with |- context [if ?c then _ else _] => destruct c end; [|simpl; intros []].
    unfold a_item. destruct (a_label p i <? 0) eqn:El; [simpl; intros []|].
    destruct (nth_z rows (a_label p i)) as [[l0 pay]|] eqn:En; [|simpl; intros []].
    destruct (wp_sized p && negb (zlen (a_window rows p i) =? a_size p i)) eqn:Es; [simpl; intros []|].
    intros [Hin|[]]. injection Hin as <- <-.
    exists i, pay. split; [lia|]. split; [lia|]. split; [exact En|]. split; [reflexivity|].
    intro Hs. rewrite Hs in Es. lia.
  Qed.

  (* a window_sized window of positive size lies inside the container: it is exactly rows[left..right] *)
  Theorem window_inside rows p i :
    0 < a_size p i -> zlen (a_window rows p i) = a_size p i ->
    0 <= a_left p i /\ a_right p i < zlen rows /\
    a_window rows p i = window_of rows (a_left p i) (a_right p i + 1).
  Proof.
    unfold a_window, window_of, zlen, a_right. intros Hs H.
    rewrite firstn_length, skipn_length in H.
    assert (H0 : 0 <= a_left p i /\ a_left p i + a_size p i - 1 < Z.of_nat (length rows)) by lia.
    destruct H0 as [H1 H2]. split; [exact H1|]. split; [exact H2|].
    rewrite !Z.max_r by lia. reflexivity.
  Qed.

  (* COMPLETENESS: every anchor whose window lies inside the container and whose label position
     exists is yielded, with exactly the rows left..right -- the loop's exit tests never cut one off *)
  Theorem windows_complete rows p i :
    0 < wp_size p -> 0 < wp_step p -> 0 <= i ->
    0 <= a_left p i -> a_right p i < zlen rows -> 0 < a_size p i ->
    0 <= a_label p i < zlen rows ->
    exists out lab payload,
      S_windows rows p = Ok out /\
      nth_z rows (a_label p i) = Some (lab, payload) /\
      In (lab, window_of rows (a_left p i) (a_right p i + 1)) out.
  Proof.
    intros Hsz Hst Hi Hl Hr Hs Hlab.
    destruct (nth_error rows (Z.to_nat (a_label p i))) as [[lab pay]|] eqn:En.
    2:{ apply nth_error_None in En. unfold zlen in *. lia. }
    assert (Hn : nth_z rows (a_label p i) = Some (lab, pay)).
    { unfold nth_z. replace (a_label p i <? 0) with false by lia. exact En. }
    unfold S_windows. replace ((wp_size p <=? 0) || (wp_step p <? 0)) with false by lia.
    eexists. exists lab, pay. split; [reflexivity|]. split; [exact Hn|].
    apply in_flat_map. exists i.
    assert (Hmul : i <= i * wp_step p) by nia.
    assert (Hlen : zlen (a_window rows p i) = a_size p i).
    { unfold a_window, window_of, zlen, a_right in *. rewrite firstn_length, skipn_length. lia. }
    split.
    - apply zseq_In. unfold a_count_max, a_right, a_left in *.
      destruct (wp_start_shift p >=? 0) eqn:E; lia.
    - assert (He : a_enumerated (zlen rows) p i = true).
      { unfold a_enumerated, a_count_max, a_right in *. destruct (wp_start_shift p >=? 0) eqn:E; lia. }
      rewrite He. unfold a_item. replace (a_label p i <? 0) with false by lia. rewrite Hn.
      rewrite Hlen, Z.eqb_refl. cbn [negb]. rewrite andb_false_r.
      left. f_equal. unfold a_window, a_right in *. rewrite !Z.max_r by lia. reflexivity.
  Qed.
  (* the same two statements about the loop itself *)
  Corollary M_windows_sound rows p out lab w :
    M_windows rows p = Ok out -> In (lab, w) out ->
    exists i payload,
      0 <= i <= a_count_max (zlen rows) p /\
      0 <= a_label p i /\ nth_z rows (a_label p i) = Some (lab, payload) /\
      w = a_window rows p i /\
      (wp_sized p = true -> zlen w = a_size p i).
  Proof. rewrite windows_exact. apply windows_sound. Qed.

  Corollary M_windows_complete rows p i :
    0 < wp_size p -> 0 < wp_step p -> 0 <= i ->
    0 <= a_left p i -> a_right p i < zlen rows -> 0 < a_size p i ->
    0 <= a_label p i < zlen rows ->
    exists out lab payload,
      M_windows rows p = Ok out /\
      nth_z rows (a_label p i) = Some (lab, payload) /\
      In (lab, window_of rows (a_left p i) (a_right p i + 1)) out.
  Proof. rewrite windows_exact. apply windows_complete. Qed.
End WindowFacts.
