(* C16 -- the refinement theorem: on its domain the whole delimited pipeline (layout, csv.writer, static-frame's
   reader-or-bypass, genfromtxt's splitter and column inference, StoreFilter, header rows, index columns,
   Index construction) gives the Frame back, for every delimiter, every depth of index and columns, both
   include_index / include_columns settings and both store filters. *)
Require Import SF.Prelude SF.Value Gen.Gen_c16 SF.Codec.
Require Import Proofs.CodecCsv Proofs.CodecTable Proofs.CodecText Proofs.CodecType.

Lemma labels_eqb_eq : forall a b, labels_eqb a b = true -> a = b.
Proof.
  intros a b H. unfold labels_eqb in H.
  apply (list_eqb_eq (list_eqb val_eqb)); [|exact H].
  intros x y. apply list_eqb_eq. intros u v. split; [apply val_eqb_eq|intros ->; apply val_eqb_refl].
Qed.

Lemma firstn_app_exact {A} (a b : list A) n : length a = n -> firstn n (a ++ b) = a.
Proof. intros <-. rewrite firstn_app, Nat.sub_diag, firstn_all. cbn. apply app_nil_r. Qed.

Lemma skipn_app_exact {A} (a b : list A) n : length a = n -> skipn n (a ++ b) = b.
Proof. intros <-. rewrite skipn_app, Nat.sub_diag, skipn_all. reflexivity. Qed.

(* the default of a transposition does not matter when every row is long enough *)
Lemma cols_of_default {A} (d d' : A) n (X : list (list A)) :
  (forall r, In r X -> (n <= length r)%nat) -> cols_of d n X = cols_of d' n X.
Proof.
  intro H. unfold cols_of. apply map_ext_in. intros j Hj. apply in_seq in Hj.
  apply map_ext_in. intros r Hr. apply nth_indep. specialize (H r Hr). lia.
Qed.

Lemma tframe_eta : forall g, mk_tframe (tf_index g) (tf_columns g) (tf_cols g) = g.
Proof. intros [a b e]. reflexivity. Qed.

Section Roundtrip.
  Variable c : cfg.
  Variable f : tframe.
  Hypothesis Hdom : dom c f = true.

  Let flt := c_filter c.
  Let d := c_delim c.
  Let nr := nrows f.
  Let nc := length (tf_cols f).
  Let X := map snd (tf_cols f).

  (* ---------------- the four parts of the domain ---------------- *)
  Lemma H_shape : dom_shape c f = true.
  Proof. pose proof Hdom as H. unfold dom in H. do 3 (apply andb_true_iff in H as [H ?]). assumption. Qed.
  Lemma H_axes : dom_axes c f = true.
  Proof. pose proof Hdom as H. unfold dom in H. do 3 (apply andb_true_iff in H as [H ?]). assumption. Qed.
  Lemma H_text : dom_text c f = true.
  Proof. pose proof Hdom as H. unfold dom in H. do 3 (apply andb_true_iff in H as [H ?]). assumption. Qed.
  Lemma H_typed : dom_typed c f = true.
  Proof. pose proof Hdom as H. unfold dom in H. do 3 (apply andb_true_iff in H as [H ?]). assumption. Qed.

  Lemma shape_facts :
    (1 <= nr)%nat /\ (1 <= nc)%nat /\ length (tf_columns f) = nc /\
    (forall col, In col (tf_cols f) -> length (snd col) = nr) /\
    (forall lab, In lab (tf_index f) -> length lab = c_di c) /\
    (forall lab, In lab (tf_columns f) -> length lab = c_dc c) /\
    (1 <= c_di c)%nat /\ (1 <= c_dc c)%nat /\ length (c_apex c) = c_di c.
  Proof.
    pose proof H_shape as H. unfold dom_shape in H.
    repeat (apply andb_true_iff in H as [H ?]).
    repeat match goal with
           | h : Nat.leb _ _ = true |- _ => apply Nat.leb_le in h
           | h : Nat.eqb _ _ = true |- _ => apply Nat.eqb_eq in h
           | h : forallb _ _ = true |- _ => rewrite forallb_forall in h
           end.
    repeat split; try assumption.
    - intros col Hc. apply Nat.eqb_eq. auto.
    - intros lab Hl. apply Nat.eqb_eq. auto.
    - intros lab Hl. apply Nat.eqb_eq. auto.
  Qed.

  Lemma text_facts : delim_ok d = true /\ (forall r, In r (M_records c f) -> record_ok d r = true).
  Proof.
    pose proof H_text as H. unfold dom_text in H. apply andb_true_iff in H as [H1 H2].
    rewrite forallb_forall in H2. split; assumption.
  Qed.

  (* ---------------- the records ---------------- *)
  Definition hrec (r : nat) : list text :=
    (if c_inc_index c then map (fun a => match r with O => a | S _ => [] end) (c_apex c) else [])
    ++ map (fun lab => render_val flt (nth r lab VNone)) (tf_columns f).
  Definition brec (i : nat) : list text :=
    (if c_inc_index c then map (render_val flt) (nth i (tf_index f) []) else [])
    ++ map (fun col => render_val flt (nth i (snd col) VNone)) (tf_cols f).
  Definition hdr : list (list text) := if c_inc_columns c then map hrec (seq 0 (c_dc c)) else [].
  Definition bdy : list (list text) := map brec (seq 0 nr).

  Lemma records_split : M_records c f = hdr ++ bdy.
  Proof. reflexivity. Qed.

  Lemma hdr_length : length hdr = eff_dc c.
  Proof. unfold hdr, eff_dc. destruct (c_inc_columns c); [rewrite map_length, seq_length|]; reflexivity. Qed.

  (* ---------------- step A: the text of every record comes back TAB-joined ---------------- *)
  Lemma step_lines : import_lines c (M_export c f) = Ok (map (join native) (M_records c f)).
  Proof.
    unfold import_lines, M_export. rewrite map_map.
    apply res_list_map_ok. intros r Hr. destruct text_facts as [Hd Hrec].
    apply import_export_line; [exact Hd|apply Hrec; exact Hr].
  Qed.

  (* ---------------- step B/C: header lines, body records ---------------- *)
  Lemma step_head : firstn (eff_dc c) (map (join native) (M_records c f)) = map (join native) hdr.
  Proof. rewrite records_split, map_app. apply firstn_app_exact. rewrite map_length. apply hdr_length. Qed.

  Lemma step_body : body_records (eff_dc c) (map (join native) (M_records c f)) = bdy.
  Proof.
    unfold body_records. rewrite records_split, map_app.
    rewrite skipn_app_exact by (rewrite map_length; apply hdr_length).
    rewrite map_map. destruct text_facts as [_ Hrec].
    assert (Hb : forall r, In r bdy -> record_ok d r = true).
    { intros r Hr. apply Hrec. rewrite records_split. apply in_or_app. right. exact Hr. }
    rewrite (map_id_in (fun r => gen_split (join native r))).
    - apply filter_all. rewrite forallb_forall. intros r Hr.
      destruct (record_ok_parts _ _ (Hb r Hr)) as (Hlen & _). destruct r; cbn in Hlen; [lia|reflexivity].
    - intros r Hr. apply (gen_split_join d). apply Hb. exact Hr.
  Qed.

  (* ---------------- step D: the body is rectangular ---------------- *)
  Definition Lp (i : nat) : list text :=
    if c_inc_index c then map (render_val flt) (nth i (tf_index f) []) else [].
  Definition Rp (i : nat) : list text :=
    map (fun col => render_val flt (nth i (snd col) VNone)) (tf_cols f).

  Lemma brec_split : forall i, brec i = Lp i ++ Rp i.
  Proof. reflexivity. Qed.

  Lemma Lp_length : forall i, In i (seq 0 nr) -> length (Lp i) = eff_di c.
  Proof.
    intros i Hi. apply in_seq in Hi. unfold Lp, eff_di. destruct (c_inc_index c); [|reflexivity].
    rewrite map_length. destruct shape_facts as (_ & _ & _ & _ & Hidx & _).
    apply Hidx. apply nth_In. unfold nr, nrows in Hi. lia.
  Qed.

  Lemma Rp_length : forall i, length (Rp i) = nc.
  Proof. intro i. unfold Rp. apply map_length. Qed.

  Lemma brec_length : forall i, In i (seq 0 nr) -> length (brec i) = (eff_di c + nc)%nat.
  Proof. intros i Hi. rewrite brec_split, app_length, (Lp_length i Hi), Rp_length. reflexivity. Qed.

  Lemma bdy_cons : bdy = brec 0 :: map brec (seq 1 (nr - 1)).
  Proof.
    unfold bdy. destruct shape_facts as (Hnr & _). destruct nr as [|k]; [lia|].
    replace (S k - 1)%nat with k by lia. reflexivity.
  Qed.

  Lemma bdy_length : length bdy = nr.
  Proof. unfold bdy. rewrite map_length, seq_length. reflexivity. Qed.

  (* ---------------- step E: the columns of the body, typed ---------------- *)
  Definition levels : list (list val) :=
    if c_inc_index c then cols_of VNone (c_di c) (tf_index f) else [].

  Lemma levels_length : length levels = eff_di c.
  Proof. unfold levels, eff_di. destruct (c_inc_index c); [apply cols_of_length|reflexivity]. Qed.

  Lemma X_length : length X = nc.
  Proof. unfold X. apply map_length. Qed.

  Lemma X_rows : forallb (fun r => Nat.eqb (length r) nr) X = true.
  Proof.
    rewrite forallb_forall. intros r Hr. unfold X in Hr. apply in_map_iff in Hr as [col [<- Hc]].
    apply Nat.eqb_eq. destruct shape_facts as (_ & _ & _ & Hcols & _). apply Hcols. exact Hc.
  Qed.

  Lemma left_columns : cols_of [] (eff_di c) (map Lp (seq 0 nr)) = map (map (render_val flt)) levels.
  Proof.
    unfold Lp, levels, eff_di. destruct (c_inc_index c); [|reflexivity].
    rewrite <- (map_map (fun i => nth i (tf_index f) []) (map (render_val flt))).
    unfold nr, nrows. rewrite map_nth_seq.
    rewrite (cols_of_default [] (render_val flt VNone)).
    - apply cols_of_map.
    - intros r Hr. apply in_map_iff in Hr as [lab [<- Hl]]. rewrite map_length.
      destruct shape_facts as (_ & _ & _ & _ & Hidx & _). rewrite (Hidx lab Hl). lia.
  Qed.

  Lemma right_columns : cols_of [] nc (map Rp (seq 0 nr)) = map (map (render_val flt)) X.
  Proof.
    assert (E : map Rp (seq 0 nr) = map (map (render_val flt)) (cols_of VNone nr X)).
    { unfold cols_of. rewrite map_map. apply map_ext. intro i. unfold Rp, X. rewrite !map_map. reflexivity. }
    rewrite E. rewrite (cols_of_default [] (render_val flt VNone)).
    - rewrite cols_of_map. f_equal. rewrite <- X_length. apply transpose_involutive. exact X_rows.
    - intros r Hr. apply in_map_iff in Hr as [row [<- Hrow]]. rewrite map_length.
      rewrite (cols_of_row_length _ _ _ _ Hrow), X_length. lia.
  Qed.

  Lemma body_columns : cols_of [] (eff_di c + nc) bdy = map (map (render_val flt)) (levels ++ X).
  Proof.
    unfold bdy. rewrite (map_ext brec (fun i => Lp i ++ Rp i) brec_split).
    etransitivity; [exact (cols_of_app [] Lp Rp (seq 0 nr) (eff_di c) nc Lp_length)|].
    rewrite map_app. f_equal; [exact left_columns|exact right_columns].
  Qed.

  Definition levels_typed : list (kind * list val) := map (fun lv => (level_kind lv, lv)) levels.

  Lemma typed_snd : map snd (levels_typed ++ tf_cols f) = levels ++ X.
  Proof.
    rewrite map_app. unfold levels_typed. rewrite map_map. cbn [snd]. rewrite map_id. reflexivity.
  Qed.

  Lemma typed_facts :
    forallb renderable (all_values f) = true /\
    (forall col, In col (levels_typed ++ tf_cols f) -> col_ok flt col = true) /\
    (c_inc_columns c = true -> forall lab v, In lab (tf_columns f) -> In v lab -> label_cell_ok flt (c_dc c) v = true).
  Proof.
    pose proof H_typed as H. unfold dom_typed in H.
    apply andb_true_iff in H as [H H4]. apply andb_true_iff in H as [H H3]. apply andb_true_iff in H as [H1 H2].
    split; [exact H1|]. split.
    - intros col Hc. apply in_app_or in Hc as [Hc|Hc].
      + unfold levels_typed, levels in Hc. destruct (c_inc_index c); [|contradiction].
        cbn [negb orb] in H3. rewrite forallb_forall in H3.
        apply in_map_iff in Hc as [lv [<- Hlv]]. apply (H3 lv Hlv).
      + rewrite forallb_forall in H2. apply H2. exact Hc.
    - intros Hic lab v Hlab Hv. rewrite Hic in H4. cbn [negb orb] in H4.
      rewrite forallb_forall in H4. specialize (H4 lab Hlab). rewrite forallb_forall in H4. apply H4. exact Hv.
  Qed.

  Lemma step_types : type_columns flt (eff_di c + nc) bdy = Ok (levels_typed ++ tf_cols f).
  Proof.
    unfold type_columns. rewrite body_columns, <- typed_snd, !map_map.
    destruct typed_facts as (_ & Hok & _).
    rewrite (res_list_map_ok _ (raw_of flt)).
    - cbn [res_map]. f_equal. rewrite map_map. apply map_id_in.
      intros [k vs] Hc. apply filter_raw. apply Hok. exact Hc.
    - intros [k vs] Hc. cbn [snd]. apply infer_raw. apply Hok. exact Hc.
  Qed.

  (* ---------------- step F: the header rows ---------------- *)
  Definition Ap (r : nat) : list text :=
    if c_inc_index c then map (fun a => match r with O => a | S _ => [] end) (c_apex c) else [].
  Definition Hp (r : nat) : list text :=
    map (fun lab => render_val flt (nth r lab VNone)) (tf_columns f).

  Lemma hrec_split : forall r, hrec r = Ap r ++ Hp r.
  Proof. reflexivity. Qed.

  Lemma Ap_length : forall r, length (Ap r) = eff_di c.
  Proof.
    intro r. unfold Ap, eff_di. destruct (c_inc_index c); [|reflexivity].
    rewrite map_length. destruct shape_facts as (_ & _ & _ & _ & _ & _ & _ & _ & Hap). exact Hap.
  Qed.

  Lemma hrec_length : forall r, length (hrec r) = (eff_di c + nc)%nat.
  Proof.
    intro r. rewrite hrec_split, app_length, Ap_length. unfold Hp. rewrite map_length.
    destruct shape_facts as (_ & _ & Hc & _). rewrite Hc. reflexivity.
  Qed.

  Lemma header_cells : forall r, c_inc_columns c = true -> In r (seq 0 (c_dc c)) ->
    res_list (map infer_cell (Hp r)) = Ok (map (fun lab => raw_label flt (nth r lab VNone)) (tf_columns f)).
  Proof.
    intros r Hic Hr. apply in_seq in Hr. unfold Hp. rewrite map_map.
    apply res_list_map_ok. intros lab Hlab.
    destruct typed_facts as (_ & _ & Hlabs).
    destruct shape_facts as (_ & _ & _ & _ & _ & Hdepth & _).
    assert (Hin : In (nth r lab VNone) lab) by (apply nth_In; rewrite (Hdepth lab Hlab); lia).
    destruct (label_cell_parts _ _ _ (Hlabs Hic lab _ Hlab Hin)) as [E _]. exact E.
  Qed.

  Lemma decoded_label : forall r lab, c_inc_columns c = true -> In r (seq 0 (c_dc c)) -> In lab (tf_columns f) ->
    (if label_filter_on (c_dc c) then decode_label_cell flt (raw_label flt (nth r lab VNone))
     else raw_label flt (nth r lab VNone)) = nth r lab VNone.
  Proof.
    intros r lab Hic Hr Hlab. apply in_seq in Hr.
    destruct typed_facts as (_ & _ & Hlabs).
    destruct shape_facts as (_ & _ & _ & _ & _ & Hdepth & _).
    assert (Hin : In (nth r lab VNone) lab) by (apply nth_In; rewrite (Hdepth lab Hlab); lia).
    destruct (label_cell_parts _ _ _ (Hlabs Hic lab _ Hlab Hin)) as [_ E]. exact E.
  Qed.

  Lemma step_header :
    header_rows flt (eff_di c) (eff_dc c) (eff_di c + nc) (map (join native) hdr) =
    Ok (if c_inc_columns c then cols_of VNone (c_dc c) (tf_columns f) else []).
  Proof.
    unfold header_rows, hdr, eff_dc. destruct (c_inc_columns c) eqn:Hic; [|reflexivity].
    rewrite !map_map.
    rewrite (res_list_map_ok _ (fun r => map (fun lab => raw_label flt (nth r lab VNone)) (tf_columns f))).
    - cbn [res_map]. f_equal. unfold cols_of.
      destruct (label_filter_on (c_dc c)) eqn:E.
      + rewrite map_map. apply map_ext_in. intros r Hr. rewrite map_map. apply map_ext_in. intros lab Hlab.
        pose proof (decoded_label r lab Hic Hr Hlab) as Q. rewrite E in Q. exact Q.
      + apply map_ext_in. intros r Hr. apply map_ext_in. intros lab Hlab.
        pose proof (decoded_label r lab Hic Hr Hlab) as Q. rewrite E in Q. exact Q.
    - intros r Hr. destruct text_facts as [_ Hrec].
      assert (Hok : record_ok d (hrec r) = true).
      { apply Hrec. rewrite records_split. apply in_or_app. left. unfold hdr. rewrite Hic. apply in_map. exact Hr. }
      rewrite (gen_split_join d _ Hok). rewrite hrec_length, Nat.eqb_refl. cbn [negb].
      rewrite hrec_split, (skipn_app_exact _ _ _ (Ap_length r)). apply header_cells; assumption.
  Qed.

  (* ---------------- steps G/H: index, columns, assembly ---------------- *)
  Lemma axes_facts :
    (c_inc_index c = false -> c_di c = 1%nat /\ tf_index f = auto_labels nr) /\
    (c_inc_columns c = false -> c_dc c = 1%nat /\ tf_columns f = auto_labels nc) /\
    labels_valid (c_di c) (tf_index f) = true /\ labels_valid (c_dc c) (tf_columns f) = true.
  Proof.
    pose proof H_axes as H. unfold dom_axes in H.
    apply andb_true_iff in H as [H H4]. apply andb_true_iff in H as [H H3]. apply andb_true_iff in H as [H1 H2].
    split; [|split; [|split; assumption]].
    - intro E. rewrite E in H1. cbn [orb] in H1. apply andb_true_iff in H1 as [A B].
      apply Nat.eqb_eq in A. apply labels_eqb_eq in B. split; assumption.
    - intro E. rewrite E in H2. cbn [orb] in H2. apply andb_true_iff in H2 as [A B].
      apply Nat.eqb_eq in A. apply labels_eqb_eq in B. split; assumption.
  Qed.

  Lemma labels_valid_0_1 : forall l, labels_valid 0 l = labels_valid 1 l.
  Proof. reflexivity. Qed.

  Lemma result_columns :
    (if Nat.eqb (eff_dc c) 0 then auto_labels (eff_di c + nc - eff_di c)
     else cols_of VNone (eff_di c + nc - eff_di c)
            (if c_inc_columns c then cols_of VNone (c_dc c) (tf_columns f) else [])) = tf_columns f.
  Proof.
    replace (eff_di c + nc - eff_di c)%nat with nc by lia.
    destruct shape_facts as (_ & _ & Hc & _ & _ & Hdepth & _ & Hdc & _).
    unfold eff_dc. destruct (c_inc_columns c) eqn:Hic.
    - destruct (Nat.eqb (c_dc c) 0) eqn:E; [apply Nat.eqb_eq in E; lia|].
      rewrite <- Hc. apply transpose_involutive. rewrite forallb_forall. intros lab Hl.
      apply Nat.eqb_eq. apply Hdepth. exact Hl.
    - cbn [Nat.eqb]. destruct axes_facts as (_ & Hauto & _). destruct (Hauto Hic) as [_ E]. symmetry. exact E.
  Qed.

  Lemma result_index :
    (if Nat.eqb (eff_di c) 0 then auto_labels nr
     else rows_of VNone nr (map snd (firstn (eff_di c) (levels_typed ++ tf_cols f)))) = tf_index f.
  Proof.
    destruct shape_facts as (_ & _ & _ & _ & Hidx & _ & Hdi & _).
    rewrite (firstn_app_exact levels_typed (tf_cols f) (eff_di c))
      by (unfold levels_typed; rewrite map_length; apply levels_length).
    unfold levels_typed. rewrite map_map. cbn [snd]. rewrite map_id.
    unfold levels, eff_di. destruct (c_inc_index c) eqn:Hii.
    - destruct (Nat.eqb (c_di c) 0) eqn:E; [apply Nat.eqb_eq in E; lia|].
      rewrite rows_of_is_cols_of. unfold nr, nrows. apply transpose_involutive.
      rewrite forallb_forall. intros lab Hl. apply Nat.eqb_eq. apply Hidx. exact Hl.
    - cbn [Nat.eqb]. destruct axes_facts as (Hauto & _). destruct (Hauto Hii) as [_ E]. symmetry. exact E.
  Qed.

  Lemma result_cols : skipn (eff_di c) (levels_typed ++ tf_cols f) = tf_cols f.
  Proof. apply skipn_app_exact. unfold levels_typed. rewrite map_length. apply levels_length. Qed.

  Lemma valid_columns : labels_valid (eff_dc c) (tf_columns f) = true.
  Proof.
    destruct axes_facts as (_ & Hauto & _ & Hv). unfold eff_dc. destruct (c_inc_columns c) eqn:Hic; [exact Hv|].
    destruct (Hauto eq_refl) as [E _]. rewrite labels_valid_0_1, <- E. exact Hv.
  Qed.

  Lemma valid_index : labels_valid (eff_di c) (tf_index f) = true.
  Proof.
    destruct axes_facts as (Hauto & _ & Hv & _). unfold eff_di. destruct (c_inc_index c) eqn:Hii; [exact Hv|].
    destruct (Hauto eq_refl) as [E _]. rewrite labels_valid_0_1, <- E. exact Hv.
  Qed.

  Lemma hd_bdy : hd [] bdy = brec 0.
  Proof. rewrite bdy_cons. reflexivity. Qed.

  Theorem roundtrip_section : M_roundtrip c f = Ok f.
  Proof.
    unfold M_roundtrip. rewrite (proj1 typed_facts). cbn [negb].
    unfold M_import. rewrite step_lines. cbn [res_bind].
    unfold M_assemble. cbv zeta. rewrite step_head, step_body.
    destruct shape_facts as (Hnr & Hnc & _).
    assert (H0 : In 0%nat (seq 0 nr)) by (apply in_seq; lia).
    rewrite hd_bdy, (brec_length 0 H0), bdy_length.
    destruct (Nat.eqb nr 0) eqn:E0; [apply Nat.eqb_eq in E0; lia|].
    assert (Hrect : forallb (fun r => Nat.eqb (length r) (eff_di c + nc)) bdy = true).
    { rewrite forallb_forall. intros r Hr. unfold bdy in Hr. apply in_map_iff in Hr as [i [<- Hi]].
      apply Nat.eqb_eq. apply brec_length. exact Hi. }
    rewrite Hrect. cbn [negb].
    assert (H2 : Nat.ltb (eff_di c + nc) 2 = false).
    { apply Nat.ltb_ge. destruct text_facts as [_ Hrec].
      assert (Hin : In (brec 0) (M_records c f)).
      { rewrite records_split. apply in_or_app. right. unfold bdy. apply in_map. exact H0. }
      destruct (record_ok_parts _ _ (Hrec _ Hin)) as (Hlen & _). rewrite (brec_length 0 H0) in Hlen. exact Hlen. }
    rewrite H2.
    assert (H3 : Nat.ltb (eff_di c + nc) (S (eff_di c)) = false) by (apply Nat.ltb_ge; lia).
    rewrite H3. change (c_filter c) with flt. rewrite step_types. cbn [res_bind]. rewrite step_header. cbn [res_bind].
    rewrite result_columns, result_index, result_cols, valid_columns, valid_index. cbn [negb].
    f_equal. apply tframe_eta.
  Qed.
End Roundtrip.

(* THE refinement theorem (M = S on the domain): every Frame in the domain comes back. *)
Theorem delimited_roundtrip : forall c f, dom c f = true -> M_roundtrip c f = S_roundtrip c f.
Proof. intros c f H. unfold S_roundtrip. apply roundtrip_section. exact H. Qed.
