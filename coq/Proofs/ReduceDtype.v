(* C15 -- the row-dtype rule of the model (kind_join / row_kind in SF/Reduce.v) against util.resolve_dtype
   REGENERATED from /repo (Gen/Gen_util.v): on every dtype the checks generate they agree. *)
Require Import SF.Prelude SF.Value SF.Dtype SF.PyDyn SF.Reduce Gen.Gen_util.
Local Open Scope Z_scope.

Definition kind_eqb (a b : kind) : bool :=
  match a, b with KB, KB | KI, KI | KF, KF | KO, KO => true | _, _ => false end.

(* bool, int64, int8, int16, uint8, float64, object *)
Definition c15_dtypes : list dtype :=
  [DBool; DInt true 8; DInt true 1; DInt true 2; DInt false 1; DFlt 8; DObj].

Definition kind_join_agrees (d1 d2 : dtype) : bool :=
  match resolve_dtype (PDtype d1) (PDtype d2) with
  | PDtype d => kind_eqb (kind_of d) (kind_join (kind_of d1) (kind_of d2))
  | _ => false
  end.

Theorem kind_join_is_resolve_dtype :
  forallb (fun d1 => forallb (kind_join_agrees d1) c15_dtypes) c15_dtypes = true.
Proof. vm_compute. reflexivity. Qed.
