(* Construction and growth: the from_labels tree builder, IndexLevelGO.append along the last edge and
   IndexLevelGO.extend keep the tree well formed and add exactly the given tuples at the end. *)
Require Import SF.Prelude SF.PySlice SF.Hier Proofs.HierBfs Proofs.HierViews Proofs.HierHloc.

Section GO.
  Variable A : Type.
  Variable eqb : A -> A -> bool.
  Hypothesis eqb_spec : forall x y, eqb x y = true <-> x = y.
  Notation level := (level A).
  Notation idx := (index_of A eqb).
  Notation memx := (mem A eqb).

  (* ---- small facts *)
  Lemma fz_snoc : forall (ks : list level) (ls : list A) c l, length ls = length ks ->
    fz A (ks ++ [c]) (ls ++ [l]) = fz A ks ls ++ map (cons l) (flatten c).
  Proof.
    induction ks as [|k ks IH]; intros ls c l Hlen.
    - destruct ls; [|discriminate]. cbn. rewrite app_nil_r. reflexivity.
    - destruct ls as [|l0 ls]; [discriminate|]. cbn [app fz]. rewrite IH by (cbn in Hlen; lia).
      rewrite app_assoc. reflexivity.
  Qed.

  Lemma fz_app : forall (ks ks2 : list level) (ls ls2 : list A), length ls = length ks ->
    fz A (ks ++ ks2) (ls ++ ls2) = fz A ks ls ++ fz A ks2 ls2.
  Proof.
    induction ks as [|k ks IH]; intros ks2 ls ls2 Hlen.
    - destruct ls; [reflexivity|discriminate].
    - destruct ls as [|l0 ls]; [discriminate|]. cbn [app fz]. rewrite IH by (cbn in Hlen; lia).
      rewrite app_assoc. reflexivity.
  Qed.

  Lemma flatten_set_off o (t : level) : flatten (set_off o t) = flatten t.
  Proof. destruct t; reflexivity. Qed.
  Lemma lv_len_set_off o (t : level) : lv_len (set_off o t) = lv_len t.
  Proof. destruct t; reflexivity. Qed.
  Lemma lv_off_set_off o (t : level) : lv_off (set_off o t) = o.
  Proof. destruct t; reflexivity. Qed.
  Lemma uniform_set_off h o (t : level) : uniform h (set_off o t) = uniform h t.
  Proof. destruct t; reflexivity. Qed.
  Lemma offsets_ok_set_off o (t : level) : offsets_ok (set_off o t) = offsets_ok t.
  Proof. destruct t; reflexivity. Qed.
  Lemma labels_ok_set_off o (t : level) : labels_ok A eqb (set_off o t) = labels_ok A eqb t.
  Proof. destruct t; reflexivity. Qed.
  Lemma lv_depth_set_off o (t : level) : lv_depth (set_off o t) = lv_depth t.
  Proof. destruct t; reflexivity. Qed.

  (* ---- chain *)
  Lemma chain_cons (k k2 : A) (key : list A) : chain (k :: k2 :: key) = Node 0 [k] [chain (k2 :: key)].
  Proof. reflexivity. Qed.

  Lemma chain_facts : forall key : list A, key <> [] ->
    flatten (chain key) = [key] /\ uniform (pred (length key)) (chain key) = true /\
    offsets_ok (chain key) = true /\ labels_ok A eqb (chain key) = true /\ lv_off (chain key) = 0.
  Proof.
    induction key as [|k key IH]; intro Hne; [congruence|].
    destruct key as [|k2 key].
    - cbn. repeat split; reflexivity.
    - rewrite chain_cons. destruct (IH ltac:(discriminate)) as (F & U & O & L & Z0).
      repeat split.
      + rewrite flatten_node. cbn [fz]. rewrite F. reflexivity.
      + cbn [length pred] in *. cbn [uniform length Nat.eqb negb andb forallb]. rewrite U. reflexivity.
      + cbn [offsets_ok offsets_from forallb]. rewrite Z0, O. reflexivity.
      + cbn [labels_ok nodupb forallb]. rewrite L. reflexivity.
  Qed.

  (* ---- mem / nodupb *)
  Lemma eqb_refl' x : eqb x x = true.
  Proof. apply eqb_spec. reflexivity. Qed.

  Lemma idx_app_none : forall l x y, idx x l = None -> idx x (l ++ [y]) = if eqb x y then Some (length l) else None.
  Proof.
    induction l as [|z l IH]; intros x y H.
    - cbn. destruct (eqb x y); reflexivity.
    - cbn [index_of app] in *. destruct (eqb x z); [discriminate|].
      destruct (idx x l) eqn:E; [discriminate|]. rewrite (IH x y E). destruct (eqb x y); reflexivity.
  Qed.

  Lemma idx_app_some : forall l x y i, idx x l = Some i -> idx x (l ++ [y]) = Some i.
  Proof.
    induction l as [|z l IH]; intros x y i H; [discriminate|].
    cbn [index_of app] in *. destruct (eqb x z); [exact H|].
    destruct (idx x l) eqn:E; [|discriminate]. rewrite (IH x y n E). exact H.
  Qed.

  Lemma mem_snoc : forall l x y, memx x (l ++ [y]) = memx x l || eqb x y.
  Proof.
    intros l x y. unfold mem. destruct (idx x l) as [i|] eqn:E.
    - rewrite (idx_app_some _ _ y _ E). reflexivity.
    - rewrite (idx_app_none _ _ y E). destruct (eqb x y); reflexivity.
  Qed.

  Lemma mem_false_all : forall l k, memx k l = false -> forall x, In x l -> eqb x k = false.
  Proof.
    intros l k H x Hin. destruct (eqb x k) eqn:E; [|reflexivity].
    apply eqb_spec in E. subst. exfalso. eapply mem_false_notin; eauto.
  Qed.

  Lemma nodupb_snoc : forall l k, nodupb A eqb l = true -> memx k l = false -> nodupb A eqb (l ++ [k]) = true.
  Proof.
    induction l as [|x l IH]; intros k Hn Hm; [reflexivity|].
    cbn [nodupb app] in *. apply andb_true_iff in Hn as [H1 H2].
    assert (Hm' : memx k l = false).
    { unfold mem in *. cbn [index_of] in Hm. destruct (eqb k x); [discriminate|].
      destruct (idx k l); [discriminate|reflexivity]. }
    rewrite (IH k H2 Hm'), andb_true_r. rewrite mem_snoc.
    destruct (memx x l); [discriminate|]. cbn.
    rewrite (mem_false_all (x :: l) k Hm x (or_introl eq_refl)). reflexivity.
  Qed.

  (* ---- offsets *)
  Lemma offsets_from_snoc : forall (ks : list level) c k,
    offsets_from c ks = true -> lv_off k = c + zsum (map lv_len ks) -> offsets_from c (ks ++ [k]) = true.
  Proof.
    induction ks as [|k0 ks IH]; intros c k Ho Hk.
    - cbn in *. rewrite Hk. replace (c + 0) with c by lia. rewrite Z.eqb_refl. reflexivity.
    - cbn [offsets_from app] in *. apply andb_true_iff in Ho as [H1 H2]. rewrite H1. cbn [andb].
      apply IH; [exact H2|]. rewrite Hk. cbn [map zsum fold_right]. unfold zsum. lia.
  Qed.

  Lemma offsets_from_last : forall (ks0 : list level) c k k',
    offsets_from c (ks0 ++ [k]) = true -> lv_off k' = lv_off k -> offsets_from c (ks0 ++ [k']) = true.
  Proof.
    induction ks0 as [|k0 ks0 IH]; intros c k k' Ho Hk.
    - cbn in *. rewrite Hk. apply andb_true_iff in Ho as [H1 _]. rewrite H1. reflexivity.
    - cbn [offsets_from app] in *. apply andb_true_iff in Ho as [H1 H2]. rewrite H1. cbn [andb].
      eapply IH; eauto.
  Qed.

  (* ---- ins, unfolded *)
  Notation go_last strict key' := (map_last (fun c => ins A eqb strict c key')).

  Lemma map_last_one {B} (f : B -> res B) c : map_last f [c] = match f c with Ok c' => Ok [c'] | Err e => Err e end.
  Proof. reflexivity. Qed.
  Lemma map_last_more {B} (f : B -> res B) c c2 l :
    map_last f (c :: c2 :: l) = match map_last f (c2 :: l) with Ok r => Ok (c :: r) | Err e => Err e end.
  Proof. reflexivity. Qed.

  Definition bad (strict : bool) : string := (if strict then "ErrorInitIndex" else "RuntimeError")%string.

  Lemma ins_node strict o ls ks k k2 key :
    ins A eqb strict (Node o ls ks) (k :: k2 :: key) =
    if memx k ls then
      if negb (last_is A eqb k ls) then Err (bad strict)
      else match go_last strict (k2 :: key) ks with
           | Ok ks' => Ok (Node o ls ks')
           | Err e => Err e
           end
    else Ok (Node o (ls ++ [k]) (ks ++ [set_off (lv_len (Node o ls ks)) (chain (k2 :: key))])).
  Proof. reflexivity. Qed.

  Lemma go_last_spec : forall {B} (f : B -> res B) ks ks',
    map_last f ks = Ok ks' ->
    exists ks0 c c', ks = ks0 ++ [c] /\ f c = Ok c' /\ ks' = ks0 ++ [c'].
  Proof.
    intros B f. induction ks as [|c ks IH]; intros ks' H; [discriminate|].
    destruct ks as [|c2 ks].
    - rewrite map_last_one in H. destruct (f c) as [c'|] eqn:E; [|discriminate]. injection H as <-.
      exists [], c, c'. repeat split; auto.
    - rewrite map_last_more in H. destruct (map_last f (c2 :: ks)) as [r|] eqn:E; [|discriminate]. injection H as <-.
      destruct (IH r eq_refl) as (ks0 & c0 & c' & E1 & E2 & E3).
      exists (c :: ks0), c0, c'. rewrite E1, E3. repeat split; auto.
  Qed.

  Lemma last_is_snoc : forall ls k, last_is A eqb k ls = true -> exists ls0, ls = ls0 ++ [k].
  Proof.
    intros ls k H. unfold last_is in H. destruct (rev ls) as [|l r] eqn:E; [discriminate|].
    apply eqb_spec in H. subst l. exists (rev r).
    rewrite <- (rev_involutive ls), E. reflexivity.
  Qed.

  (* ---- the builder step: adds exactly the new tuple at the end and keeps the tree well formed *)
  Definition wfp (h : nat) (t : level) : Prop :=
    uniform h t = true /\ offsets_ok t = true /\ labels_ok A eqb t = true.

  Lemma forallb_app_true {X} (f : X -> bool) a b : forallb f a = true -> forallb f b = true -> forallb f (a ++ b) = true.
  Proof. intros Ha Hb. rewrite forallb_app, Ha, Hb. reflexivity. Qed.

  Lemma uniform_node_intro h' o (ls : list A) (ks : list level) :
    length ls = length ks -> ks <> [] -> forallb (uniform h') ks = true -> uniform (S h') (Node o ls ks) = true.
  Proof.
    intros Hlen Hne Hk. cbn [uniform]. rewrite Hk, andb_true_r.
    apply andb_true_iff. split; [apply Nat.eqb_eq; exact Hlen|].
    destruct ks; [congruence|reflexivity].
  Qed.

  Lemma ins_strict_ok : forall (t : level) h key t',
    wfp h t -> length key = S h -> ins A eqb true t key = Ok t' ->
    flatten t' = flatten t ++ [key] /\ wfp h t' /\ lv_off t' = lv_off t.
  Proof.
    induction t as [o ls|o ls ks IH] using level_ind'; intros h key t' (Hu & Ho & Hl) Hlen Hi.
    - apply uniform_leaf in Hu as [-> Hne].
      destruct key as [|k [|k2 key]]; try discriminate. cbn [ins] in Hi.
      destruct (memx k ls) eqn:M; [discriminate|]. injection Hi as <-.
      cbn [labels_ok] in Hl. repeat split.
      + cbn [flatten]. rewrite map_app. reflexivity.
      + cbn [uniform]. rewrite app_length. cbn. replace (length ls + 1)%nat with (S (length ls)) by lia. reflexivity.
      + cbn [labels_ok]. apply nodupb_snoc; assumption.
    - pose proof Hu as Hu0.
      apply uniform_node in Hu as (h' & -> & Hlen2 & Hne & Hk).
      destruct key as [|k [|k2 key]]; try discriminate.
      rewrite ins_node in Hi. remember (chain (k2 :: key)) as ch eqn:Ech in Hi.
      remember (lv_len (Node o ls ks)) as nlen eqn:Enl in Hi.
      cbn [offsets_ok] in Ho. apply andb_true_iff in Ho as [Ho1 Ho2].
      cbn [labels_ok] in Hl. apply andb_true_iff in Hl as [Hl1 Hl2].
      destruct (memx k ls) eqn:M.
      + destruct (last_is A eqb k ls) eqn:L; [|discriminate]. cbn [negb] in Hi.
        destruct (go_last true (k2 :: key) ks) as [ks'|] eqn:G; [|discriminate]. injection Hi as <-.
        destruct (go_last_spec _ _ _ G) as (ks0 & c & c' & -> & Hc & ->).
        destruct (last_is_snoc _ _ L) as (ls0 & ->).
        assert (Hl0 : length ls0 = length ks0) by (rewrite !app_length in Hlen2; cbn in Hlen2; lia).
        rewrite Forall_forall in IH. rewrite Forall_forall in Hk.
        rewrite forallb_forall in Ho2, Hl2.
        assert (Hcin : In c (ks0 ++ [c])) by (apply in_or_app; right; left; reflexivity).
        destruct (IH c Hcin h' (k2 :: key) c' (conj (Hk c Hcin) (conj (Ho2 c Hcin) (Hl2 c Hcin)))
                    ltac:(cbn in Hlen |- *; lia) Hc) as (F & (Uc & Oc & Lc) & Zc).
        repeat split.
        * rewrite !flatten_node, !fz_snoc by exact Hl0. rewrite F, map_app, app_assoc. reflexivity.
        * apply uniform_node_intro; [rewrite !app_length; cbn; lia|destruct ks0; discriminate|].
          apply forallb_app_true; [|cbn; rewrite Uc; reflexivity].
          apply forallb_forall. intros x Hx. apply Hk. apply in_or_app. left. exact Hx.
        * cbn [offsets_ok]. apply andb_true_iff. split; [eapply offsets_from_last; eauto|].
          apply forallb_app_true; [|cbn; rewrite Oc; reflexivity].
          apply forallb_forall. intros x Hx. apply Ho2. apply in_or_app. left. exact Hx.
        * cbn [labels_ok]. rewrite Hl1. cbn [andb].
          apply forallb_app_true; [|cbn; rewrite Lc; reflexivity].
          apply forallb_forall. intros x Hx. apply Hl2. apply in_or_app. left. exact Hx.
      + injection Hi as <-.
        destruct (chain_facts (k2 :: key) ltac:(discriminate)) as (F & U & O & L & Z0).
        rewrite <- Ech in F, U, O, L, Z0.
        assert (LN : nlen = zsum (map lv_len ks)).
        { rewrite Enl. destruct ks as [|k0 ks0]; [congruence|]. apply lv_len_node. }
        repeat split.
        * rewrite !flatten_node, fz_snoc by exact Hlen2. rewrite flatten_set_off, F. reflexivity.
        * apply uniform_node_intro; [rewrite !app_length; cbn; lia|destruct ks; discriminate|].
          apply forallb_app_true; [apply forallb_forall; rewrite Forall_forall in Hk; exact Hk|].
          cbn [forallb]. rewrite uniform_set_off, andb_true_r.
          cbn [length pred] in U. cbn in Hlen. replace h' with (length key) by lia. exact U.
        * cbn [offsets_ok]. apply andb_true_iff. split.
          -- apply offsets_from_snoc; [exact Ho1|]. rewrite lv_off_set_off, LN. lia.
          -- apply forallb_app_true; [exact Ho2|]. cbn [forallb]. rewrite offsets_ok_set_off, O. reflexivity.
        * cbn [labels_ok]. rewrite (nodupb_snoc _ _ Hl1 M). cbn [andb].
          apply forallb_app_true; [exact Hl2|]. cbn [forallb]. rewrite labels_ok_set_off, L. reflexivity.
  Qed.

  (* ---- IndexLevelGO.append and the builder run the same rule (since fix 5320f59): what one accepts the
          other accepts with the same result; only the error class of a rejection differs *)
  Lemma append_agrees : forall b1 b2 (t : level) key t',
    ins A eqb b1 t key = Ok t' -> ins A eqb b2 t key = Ok t'.
  Proof.
    intros b1 b2. induction t as [o ls|o ls ks IH] using level_ind'; intros key t' Hi.
    - destruct key as [|k [|k2 key]]; try (destruct b1; discriminate). cbn [ins] in *.
      destruct (memx k ls); [destruct b1; discriminate|exact Hi].
    - destruct key as [|k [|k2 key]]; try (destruct b1; discriminate). rewrite ins_node in *.
      destruct (memx k ls); [|exact Hi].
      destruct (last_is A eqb k ls); [|destruct b1; discriminate]. cbn [negb] in *.
      destruct (go_last b1 (k2 :: key) ks) as [ks'|] eqn:G; [|discriminate].
      assert (G' : go_last b2 (k2 :: key) ks = Ok ks').
      { clear Hi. revert ks' G. induction ks as [|c ks IHks]; intros ks' G; [discriminate|].
        inversion IH; subst. destruct ks as [|c2 ks].
        - rewrite map_last_one in *. destruct (ins A eqb b1 c (k2 :: key)) as [c'|] eqn:E; [|discriminate].
          rewrite (H1 _ _ E). exact G.
        - rewrite map_last_more in *. destruct (go_last b1 (k2 :: key) (c2 :: ks)) as [r|] eqn:E; [|discriminate].
          rewrite (IHks H2 r eq_refl). exact G. }
      rewrite G'. exact Hi.
  Qed.

  (* ---- wf as one Boolean *)
  Lemma wf_split h (t : level) : wf A eqb h t = true <-> lv_off t = 0 /\ wfp h t.
  Proof.
    unfold wf, wfp. split.
    - intro H. apply andb_true_iff in H as [H Hl]. apply andb_true_iff in H as [H Ho].
      apply andb_true_iff in H as [H0 Hu]. apply Z.eqb_eq in H0. auto.
    - intros (H0 & Hu & Ho & Hl). rewrite H0, Hu, Ho, Hl. reflexivity.
  Qed.

  (* ---- IndexHierarchy.from_labels / _from_type_blocks *)
  Definition fl_step (n : nat) (acc : res level) (row : list A) : res level :=
    match acc with
    | Ok t => if Nat.eqb (length row) n then ins A eqb true t row else Err "ErrorInitIndex"
    | Err e => Err e
    end.

  Lemma from_labels_unfold r rest :
    M_from_labels A eqb (r :: rest) =
    if (length r <? 2)%nat then Err "ErrorInitIndex" else fold_left (fl_step (length r)) rest (Ok (chain r)).
  Proof. reflexivity. Qed.

  Lemma fl_fold_err : forall n rest e, fold_left (fl_step n) rest (Err e) = Err e.
  Proof. induction rest as [|a rest IH]; intro e; [reflexivity|]. cbn [fold_left fl_step]. apply IH. Qed.

  Lemma fl_fold : forall rest h t0 t, wfp h t0 -> lv_off t0 = 0 ->
    fold_left (fl_step (S h)) rest (Ok t0) = Ok t ->
    flatten t = flatten t0 ++ rest /\ wfp h t /\ lv_off t = 0.
  Proof.
    induction rest as [|a rest IH]; intros h t0 t Hw H0 Hf.
    - cbn in Hf. injection Hf as <-. rewrite app_nil_r. auto.
    - cbn [fold_left fl_step] in Hf. destruct (Nat.eqb (length a) (S h)) eqn:EL.
      2:{ rewrite fl_fold_err in Hf. discriminate. }
      apply Nat.eqb_eq in EL.
      destruct (ins A eqb true t0 a) as [t1|e] eqn:EI.
      2:{ rewrite fl_fold_err in Hf. discriminate. }
      destruct (ins_strict_ok t0 h a t1 Hw EL EI) as (F1 & W1 & Z1).
      destruct (IH h t1 t W1 ltac:(congruence) Hf) as (F & W & Z0).
      rewrite F, F1, <- app_assoc. auto.
  Qed.

  Theorem from_labels_exact : forall rows t, M_from_labels A eqb rows = Ok t ->
    exists h, wf A eqb h t = true /\ flatten t = rows /\ rows_depth rows = S h /\ (1 <= h)%nat.
  Proof.
    intros [|r rest] t H; [discriminate|]. rewrite from_labels_unfold in H.
    destruct (length r <? 2)%nat eqn:EL; [discriminate|]. apply Nat.ltb_ge in EL.
    assert (Hne : r <> []) by (destruct r; [cbn in EL; lia|discriminate]).
    destruct (chain_facts r Hne) as (F & U & O & L & Z0).
    exists (pred (length r)).
    replace (length r) with (S (pred (length r))) in H by lia.
    destruct (fl_fold rest (pred (length r)) (chain r) t (conj U (conj O L)) Z0 H) as (F' & W & Z1).
    repeat split.
    - apply wf_split. auto.
    - rewrite F', F. reflexivity.
    - cbn [rows_depth]. lia.
    - lia.
  Qed.

  (* ---- IndexHierarchyGO.append *)
  (* every key: an admitted append adds exactly that tuple at the end and keeps the tree well formed; a
     rejected one leaves the state (tree and cache) untouched *)
  Theorem append_exact : forall (t : level) h key,
    wf A eqb h t = true ->
    (forall t', M_append A eqb t key = Ok t' -> flatten t' = flatten t ++ [key] /\ wf A eqb h t' = true) /\
    (forall e (st : ihgo A), g_tree st = t -> M_append A eqb t key = Err e -> go_step A eqb st (OAppend key) = st).
  Proof.
    intros t h key Hw. split.
    - intros t' HM. apply wf_split in Hw as [H0 Hw]. unfold M_append in HM.
      destruct Hw as (Hu & Ho & Hl). rewrite (uniform_depth _ _ _ Hu) in HM.
      destruct (Nat.eqb (length key) (S h)) eqn:EL; [|discriminate]. apply Nat.eqb_eq in EL.
      pose proof (append_agrees false true _ _ _ HM) as Hi.
      destruct (ins_strict_ok t h key t' (conj Hu (conj Ho Hl)) EL Hi) as (F & W & Z0).
      split; [exact F|]. apply wf_split. split; [congruence|exact W].
    - intros e st <- HM. cbn [go_step]. rewrite HM. reflexivity.
  Qed.

  (* ---- IndexHierarchyGO.extend *)
  Lemma fz_reoffset : forall (ks : list level) b ls, fz A (reoffset b ks) ls = fz A ks ls.
  Proof.
    induction ks as [|k ks IH]; intros b ls; [reflexivity|]. destruct ls as [|l ls]; [reflexivity|].
    cbn [reoffset fz]. rewrite flatten_set_off, IH. reflexivity.
  Qed.

  Lemma length_reoffset : forall (ks : list level) b, length (reoffset b ks) = length ks.
  Proof. induction ks as [|k ks IH]; intro b; [reflexivity|]. cbn. rewrite IH. reflexivity. Qed.

  Lemma offsets_from_reoffset : forall (ks : list level) b, offsets_from b (reoffset b ks) = true.
  Proof.
    induction ks as [|k ks IH]; intro b; [reflexivity|]. cbn [reoffset offsets_from].
    rewrite lv_off_set_off, Z.eqb_refl, lv_len_set_off. apply IH.
  Qed.

  Lemma forallb_reoffset (f : level -> bool) : (forall o t, f (set_off o t) = f t) ->
    forall ks b, forallb f (reoffset b ks) = forallb f ks.
  Proof.
    intros Hf. induction ks as [|k ks IH]; intro b; [reflexivity|]. cbn [reoffset forallb]. rewrite Hf, IH. reflexivity.
  Qed.

  Lemma offsets_from_app : forall (a b : list level) c,
    offsets_from c a = true -> offsets_from (c + zsum (map lv_len a)) b = true -> offsets_from c (a ++ b) = true.
  Proof.
    induction a as [|k a IH]; intros b c Ha Hb.
    - cbn in *. replace (c + 0) with c in Hb by lia. exact Hb.
    - cbn [offsets_from app] in *. apply andb_true_iff in Ha as [H1 H2]. rewrite H1. cbn [andb].
      apply IH; [exact H2|]. cbn [map zsum fold_right] in Hb. unfold zsum.
      replace (c + lv_len k + fold_right Z.add 0 (map lv_len a)) with (c + (lv_len k + fold_right Z.add 0 (map lv_len a))) by lia.
      exact Hb.
  Qed.

  Lemma mem_cons_false : forall l x y, memx y (x :: l) = false -> eqb y x = false /\ memx y l = false.
  Proof.
    intros l x y H. unfold mem in *. cbn [index_of] in H. destruct (eqb y x); [discriminate|].
    destruct (idx y l); [discriminate|]. auto.
  Qed.

  Lemma mem_true_in : forall l x, memx x l = true -> In x l.
  Proof.
    intros l x H. unfold mem in H. destruct (idx x l) as [i|] eqn:E; [|discriminate].
    destruct (idx_some A eqb eqb_spec _ _ _ E) as [Hn _]. eapply nth_error_In, Hn.
  Qed.

  Lemma mem_app : forall a b x, memx x (a ++ b) = memx x a || memx x b.
  Proof.
    induction a as [|y a IH]; intros b x; [reflexivity|].
    unfold mem in *. cbn [index_of app]. destruct (eqb x y); [reflexivity|].
    specialize (IH b x). destruct (idx x (a ++ b)), (idx x a), (idx x b); cbn in *; congruence.
  Qed.

  Lemma nodupb_app : forall a b, nodupb A eqb a = true -> nodupb A eqb b = true ->
    existsb (fun l => memx l a) b = false -> nodupb A eqb (a ++ b) = true.
  Proof.
    induction a as [|x a IH]; intros b Ha Hb Hd; [exact Hb|].
    cbn [nodupb app] in *. apply andb_true_iff in Ha as [H1 H2].
    assert (D : forall l, In l b -> memx l (x :: a) = false).
    { intros l Hl. destruct (memx l (x :: a)) eqn:E; [|reflexivity].
      assert (existsb (fun l0 => memx l0 (x :: a)) b = true) by (apply existsb_exists; eauto). congruence. }
    assert (Hd' : existsb (fun l => memx l a) b = false).
    { destruct (existsb (fun l => memx l a) b) eqn:E; [|reflexivity].
      apply existsb_exists in E as (l & Hl & Hm). destruct (mem_cons_false _ _ _ (D l Hl)) as [_ C]. congruence. }
    rewrite (IH b H2 Hb Hd'), andb_true_r. rewrite mem_app.
    destruct (memx x a); [discriminate|]. cbn [orb].
    destruct (memx x b) eqn:E; [|reflexivity].
    apply mem_true_in in E. destruct (mem_cons_false _ _ _ (D x E)) as [C _]. rewrite eqb_refl' in C. discriminate.
  Qed.

  Theorem extend_exact : forall (t u : level) h t',
    wf A eqb h t = true -> wfp h u -> M_extend A eqb t u = Ok t' ->
    flatten t' = flatten t ++ flatten u /\ wf A eqb h t' = true.
  Proof.
    intros t u h t' Hw (Uu & Ou & Lu) He. apply wf_split in Hw as [H0 (Ut & Ot & Lt)].
    destruct t as [o ls|o ls ks]; [discriminate|]. destruct u as [o2 ls2|o2 ls2 ks2]; [discriminate|].
    unfold M_extend in He. remember (lv_len (Node o ls ks)) as nlen eqn:Enl in He.
    destruct (negb (Nat.eqb (lv_depth (Node o ls ks)) (lv_depth (Node o2 ls2 ks2)))); [discriminate|].
    destruct (existsb (fun l => memx l ls) ls2) eqn:EX; [discriminate|]. injection He as <-.
    apply uniform_node in Ut as (h' & -> & Hlen & Hne & Hk).
    apply uniform_node in Uu as (h2 & E & Hlen2 & Hne2 & Hk2). injection E as <-.
    cbn [offsets_ok] in Ot, Ou. apply andb_true_iff in Ot as [Ot1 Ot2]. apply andb_true_iff in Ou as [Ou1 Ou2].
    cbn [labels_ok] in Lt, Lu. apply andb_true_iff in Lt as [Lt1 Lt2]. apply andb_true_iff in Lu as [Lu1 Lu2].
    assert (LN : nlen = zsum (map lv_len ks)).
    { rewrite Enl. destruct ks as [|k0 ks0]; [congruence|]. apply lv_len_node. }
    split.
    - rewrite !flatten_node, fz_app by exact Hlen. rewrite fz_reoffset. reflexivity.
    - apply wf_split. split; [exact H0|]. repeat split.
      + apply uniform_node_intro.
        * rewrite !app_length, length_reoffset. lia.
        * destruct ks; [congruence|discriminate].
        * apply forallb_app_true; [apply forallb_forall; rewrite Forall_forall in Hk; exact Hk|].
          rewrite forallb_reoffset by (intros; apply uniform_set_off).
          apply forallb_forall. rewrite Forall_forall in Hk2. exact Hk2.
      + cbn [offsets_ok]. apply andb_true_iff. split.
        * apply offsets_from_app; [exact Ot1|]. rewrite LN. replace (0 + zsum (map lv_len ks)) with (zsum (map lv_len ks)) by lia.
          apply offsets_from_reoffset.
        * apply forallb_app_true; [exact Ot2|]. rewrite forallb_reoffset by (intros; apply offsets_ok_set_off). exact Ou2.
      + cbn [labels_ok]. rewrite (nodupb_app _ _ Lt1 Lu1 EX). cbn [andb].
        apply forallb_app_true; [exact Lt2|]. rewrite forallb_reoffset by (intros; apply labels_ok_set_off). exact Lu2.
  Qed.

  (* ---- every admitted history: the tree stays well formed, denotes the old tuples followed by the added
          ones, and the lazily refreshed `_blocks` cache is never stale *)
  Definition coherent (st : ihgo A) : Prop :=
    g_cache st = None \/ g_cache st = Some (M_blocks (g_tree st)).

  Lemma go_blocks_coherent (st : ihgo A) : coherent st -> go_blocks st = M_blocks (g_tree st).
  Proof. intros [H|H]; unfold go_blocks; rewrite H; reflexivity. Qed.

  Theorem go_history : forall ops (st : ihgo A) h,
    wf A eqb h (g_tree st) = true -> coherent st -> forallb (op_dom A eqb h) ops = true ->
    wf A eqb h (g_tree (fold_left (go_step A eqb) ops st)) = true /\
    flatten (g_tree (fold_left (go_step A eqb) ops st)) = flatten (g_tree st) ++ hist_rows A eqb st ops /\
    coherent (fold_left (go_step A eqb) ops st).
  Proof.
    induction ops as [|o ops IH]; intros st h Hw Hc Hd.
    - cbn. rewrite app_nil_r. auto.
    - cbn [forallb] in Hd. apply andb_true_iff in Hd as [Ho Hd]. cbn [fold_left hist_rows].
      assert (STEP : wf A eqb h (g_tree (go_step A eqb st o)) = true /\
                     flatten (g_tree (go_step A eqb st o)) = flatten (g_tree st) ++ step_rows A eqb (g_tree st) o /\
                     coherent (go_step A eqb st o)).
      { destruct o as [k|u|]; cbn [op_dom] in Ho; cbn [go_step step_rows].
        - destruct (append_exact (g_tree st) h k Hw) as [HOk _].
          destruct (M_append A eqb (g_tree st) k) as [t'|] eqn:E; cbn [is_ok].
          + destruct (HOk t' eq_refl) as (F & W). cbn [g_tree]. repeat split; auto. left. reflexivity.
          + rewrite app_nil_r. auto.
        - apply andb_true_iff in Ho as [Ho Hl]. apply andb_true_iff in Ho as [Hu Hof].
          destruct (M_extend A eqb (g_tree st) u) as [t'|] eqn:E; cbn [is_ok].
          + destruct (extend_exact _ _ _ _ Hw (conj Hu (conj Hof Hl)) E) as (F & W).
            cbn [g_tree]. repeat split; auto. left. reflexivity.
          + rewrite app_nil_r. auto.
        - rewrite app_nil_r. destruct (g_cache st) eqn:EC.
          + repeat split; auto.
          + cbn [g_tree]. repeat split; auto. right. reflexivity. }
      destruct STEP as (W1 & F1 & C1).
      destruct (IH (go_step A eqb st o) h W1 C1 Hd) as (W & F & C).
      repeat split; auto. rewrite F, F1, app_assoc. reflexivity.
  Qed.
End GO.
