(* hloc_exact: the breadth-first HLoc resolution of IndexLevel.loc_to_iloc (deque, running offsets,
   partial_selection) selects exactly what the nested-loop specification selects on the flat tuples. *)
Require Import SF.Prelude SF.PySlice SF.Hier Proofs.SliceFacts Proofs.HierBfs Proofs.HierViews.

Section Hloc.
  Variable A : Type.
  Variable eqb : A -> A -> bool.
  Hypothesis eqb_spec : forall x y, eqb x y = true <-> x = y.
  Notation level := (level A).
  Notation sel := (sel A).
  Notation idx := (index_of A eqb).

  Lemma eqb_refl x : eqb x x = true.
  Proof. apply eqb_spec. reflexivity. Qed.

  (* ---- index_of *)
  Lemma idx_some : forall l x i, idx x l = Some i -> nth_error l i = Some x /\ (i < length l)%nat.
  Proof.
    induction l as [|y l IH]; intros x i H; [discriminate|]. cbn [index_of] in H.
    destruct (eqb x y) eqn:E.
    - injection H as <-. apply eqb_spec in E. subst. cbn. split; [reflexivity|lia].
    - destruct (idx x l) as [j|] eqn:Ej; [|discriminate]. cbn in H. injection H as <-.
      destruct (IH x j Ej) as [H1 H2]. cbn. split; [exact H1|lia].
  Qed.

  Lemma idx_none : forall l x, idx x l = None -> ~ In x l.
  Proof.
    induction l as [|y l IH]; intros x H Hin; [exact Hin|]. cbn [index_of] in H.
    destruct (eqb x y) eqn:E; [discriminate|].
    destruct (idx x l) eqn:Ej; [discriminate|].
    destruct Hin as [->|Hin]; [rewrite eqb_refl in E; discriminate|exact (IH x Ej Hin)].
  Qed.

  Lemma mem_false_notin : forall l x, mem A eqb x l = false -> ~ In x l.
  Proof. intros l x H. unfold mem in H. destruct (idx x l) eqn:E; [discriminate|]. apply idx_none, E. Qed.

  (* ---- zrange / positions *)
  Lemma map_seq_zrange : forall n b i, map (fun k => b + Z.of_nat k) (seq i n) = zrange (b + Z.of_nat i) n.
  Proof.
    induction n as [|n IH]; intros b i; [reflexivity|]. cbn [seq map zrange]. f_equal.
    rewrite IH. f_equal. lia.
  Qed.

  Lemma range_list_zrange : forall n a, range_list a 1 n = zrange a n.
  Proof.
    intros n a. unfold range_list.
    rewrite (map_ext (fun i => a + Z.of_nat i * 1) (fun i => a + Z.of_nat i)) by (intro; lia).
    rewrite map_seq_zrange. f_equal. lia.
  Qed.

  Lemma positions_closed a b total : 0 <= a <= total -> 0 <= b <= total ->
    positions (mk_slice (Some a) (Some b) None) total = Some (zrange a (Z.to_nat (b - a))).
  Proof.
    intros Ha Hb. unfold positions, slice_indices. cbn [s_step s_start s_stop].
    change (1 =? 0) with false. cbv iota. unfold adj_bound. change (1 <? 0) with false. cbv iota.
    destruct (a <? 0) eqn:E1; [lia|]. destruct (b <? 0) eqn:E2; [lia|].
    assert (Ea : (if a >=? total then total else a) = a) by (destruct (a >=? total) eqn:E; lia).
    assert (Eb : (if b >=? total then total else b) = b) by (destruct (b >=? total) eqn:E; lia).
    rewrite Ea, Eb. f_equal. unfold range_len. change (1 <? 0) with false. cbv iota.
    destruct (a <? b) eqn:E3.
    - rewrite Z.div_1_r. replace (b - a - 1 + 1) with (b - a) by lia. apply range_list_zrange.
    - replace (Z.to_nat (b - a)) with O by lia. reflexivity.
  Qed.

  (* part_flat never fails (step is None) *)
  Definition pflat (total : Z) (p : part) : list Z :=
    match part_flat total p with Ok l => l | Err _ => [] end.
  Lemma part_flat_ok total p : part_flat total p = Ok (pflat total p).
  Proof.
    unfold pflat. destruct p as [z|a b|l|a b k]; try reflexivity.
    cbn [part_flat]. destruct (positions (mk_slice a b (Some k)) total); reflexivity.
  Qed.

  Lemma res_concat_ok : forall total ps,
    res_concat (map (part_flat total) ps) = Ok (flat_map (pflat total) ps).
  Proof.
    induction ps as [|p ps IH]; [reflexivity|]. cbn [map res_concat flat_map].
    rewrite part_flat_ok, IH. reflexivity.
  Qed.

  (* positions selected by a list of yielded parts *)
  Definition Mpos (total : Z) (l : list (option part)) : res (list Z) :=
    if existsb is_none l then Err "KeyError" else Ok (flat_map (pflat total) (somes l)).

  Definition rc2 (a b : res (list Z)) : res (list Z) :=
    match a with
    | Err e => Err e
    | Ok x => match b with Ok y => Ok (x ++ y) | Err e => Err e end
    end.

  Lemma somes_app {B} (a b : list (option B)) : somes (a ++ b) = somes a ++ somes b.
  Proof. unfold somes. apply flat_map_app. Qed.

  Lemma Mpos_app total a b : Mpos total (a ++ b) = rc2 (Mpos total a) (Mpos total b).
  Proof.
    unfold Mpos. rewrite existsb_app, somes_app, flat_map_app.
    destruct (existsb is_none a); [reflexivity|]. destruct (existsb is_none b); reflexivity.
  Qed.

  Lemma Mpos_nil total : Mpos total [] = Ok [].
  Proof. reflexivity. Qed.

  Lemma res_concat_cons (x : res (list Z)) l : res_concat (x :: l) = rc2 x (res_concat l).
  Proof. destruct x; reflexivity. Qed.

  (* ---- list plumbing *)
  Lemma nth_firstn_lt {B} : forall n (l : list B) i d, (i < n)%nat -> nth i (firstn n l) d = nth i l d.
  Proof.
    induction n as [|n IH]; intros l i d H; [lia|]. destruct l as [|x l]; [destruct i; reflexivity|].
    destruct i as [|i]; [reflexivity|]. cbn. apply IH. lia.
  Qed.

  Lemma nth_skipn' {B} : forall m (l : list B) i d, nth i (skipn m l) d = nth (m + i) l d.
  Proof.
    induction m as [|m IH]; intros l i d; [reflexivity|]. destruct l as [|x l]; [destruct i; reflexivity|].
    cbn. apply IH.
  Qed.

  Definition pick_kids (ks : list level) (picked : list nat) : list level :=
    flat_map (fun i => match nth_error ks i with Some k => [k] | None => [] end) picked.

  Lemma skipn_nth_error {B} : forall i (l : list B),
    skipn i l = match nth_error l i with Some x => x :: skipn (S i) l | None => [] end.
  Proof.
    induction i as [|i IH]; intros l; destruct l as [|x l]; try reflexivity. cbn [skipn nth_error]. apply IH.
  Qed.

  Lemma skipn_none {B} : forall i (l : list B), nth_error l i = None -> skipn (S i) l = [].
  Proof.
    intros i l H. apply nth_error_None in H. apply skipn_all2. lia.
  Qed.

  Lemma pick_kids_seq : forall n i ks, pick_kids ks (seq i n) = firstn n (skipn i ks).
  Proof.
    induction n as [|n IH]; intros i ks; [reflexivity|]. unfold pick_kids in *. cbn [seq flat_map].
    rewrite IH. rewrite (skipn_nth_error i ks). destruct (nth_error ks i) eqn:E; [reflexivity|].
    rewrite (skipn_none i ks E). destruct n; reflexivity.
  Qed.

  Lemma nth_kid_nat (ks : list level) i : nth_kid ks (Z.of_nat i + 0) = match nth_error ks i with Some k => [k] | None => [] end.
  Proof.
    unfold nth_kid. destruct (Z.of_nat i + 0 <? 0) eqn:E; [lia|].
    replace (Z.to_nat (Z.of_nat i + 0)) with i by lia. reflexivity.
  Qed.

  Lemma in_skipn' {B} : forall n (l : list B) x, In x (skipn n l) -> In x l.
  Proof.
    induction n as [|n IH]; intros l x H; [exact H|]. destruct l as [|y l]; [exact H|]. right. apply IH, H.
  Qed.
  Lemma in_firstn' {B} : forall n (l : list B) x, In x (firstn n l) -> In x l.
  Proof.
    induction n as [|n IH]; intros l x H; [destruct H|]. destruct l as [|y l]; [exact H|].
    destruct H as [->|H]; [left; reflexivity|right; apply IH, H].
  Qed.

  Lemma select_kids_in : forall (ks : list level) p k, In k (select_kids ks p) -> In k ks.
  Proof.
    intros ks p k H. destruct p as [z|a b|zs|a b st]; cbn [select_kids] in H; [| | |destruct H].
    - unfold nth_kid in H. destruct (z <? 0); [destruct H|].
      destruct (nth_error ks (Z.to_nat z)) eqn:E; [|destruct H].
      destruct H as [<-|[]]. eapply nth_error_In, E.
    - apply in_skipn' in H. apply in_firstn' in H. exact H.
    - apply in_flat_map in H as (z & _ & H). unfold nth_kid in H. destruct (z <? 0); [destruct H|].
      destruct (nth_error ks (Z.to_nat z)) eqn:E; [|destruct H].
      destruct H as [<-|[]]. eapply nth_error_In, E.
  Qed.

  (* ---- one sibling group: what LocMap returns vs what the specification picks *)
  Notation locmap := (M_locmap A eqb).
  Notation spick := (S_pick A eqb).

  Definition not_mask (s : sel) : Prop := match s with SMask _ | SStep _ _ _ => False | _ => True end.

  Lemma flat_map_map {X Y W} (g : X -> Y) (f : Y -> list W) l : flat_map f (map g l) = flat_map (fun x => f (g x)) l.
  Proof. induction l as [|x l IH]; [reflexivity|]. cbn. rewrite IH. reflexivity. Qed.

  Lemma slice_kids (ks : list level) i n m : (m = n + i)%nat \/ ((n = 0)%nat /\ (m <= i)%nat) ->
    skipn i (firstn m ks) = pick_kids ks (seq i n).
  Proof.
    intros H. rewrite pick_kids_seq, skipn_firstn_comm.
    destruct H as [->|[-> H]].
    - replace (n + i - i)%nat with n by lia. reflexivity.
    - replace (m - i)%nat with O by lia. reflexivity.
  Qed.

  Lemma node_pick : forall (ls : list A) (ks : list level) (s : sel) (b : Z),
    length ls = length ks -> not_mask s ->
    match locmap ls s None with
    | Ok p => exists picked, spick false b ls s = Ok picked /\ select_kids ks p = pick_kids ks picked
    | Err e => if String.eqb e "KeyError" then spick false b ls s = Ok [] else spick false b ls s = Err "KeyError"
    end.
  Proof.
    intros ls ks s b Hlen Hnm.
    assert (ALL : select_kids ks (PSlice None None) = pick_kids ks (seq 0 (length ls))).
    { cbn [select_kids]. apply slice_kids. left. lia. }
    destruct s as [|l|want|a c|bs|a c k]; [| | | |destruct Hnm|destruct Hnm].
    - cbn. exists (seq 0 (length ls)). split; [reflexivity|exact ALL].
    - cbn [M_locmap S_pick]. destruct (idx l ls) as [i|] eqn:E.
      + exists [i]. split; [reflexivity|]. cbn [select_kids]. rewrite nth_kid_nat.
        unfold pick_kids. cbn [flat_map]. rewrite app_nil_r. reflexivity.
      + reflexivity.
    - cbn [M_locmap S_pick]. exists (pick_labels A eqb ls want). split; [reflexivity|].
      cbn [select_kids]. rewrite flat_map_map. unfold pick_kids. apply flat_map_ext. intro i. apply nth_kid_nat.
    - destruct a as [x|], c as [y|]; cbn [M_locmap S_pick slice_bound].
      + destruct (idx x ls) as [i|] eqn:Ex; [|reflexivity].
        destruct (idx y ls) as [j|] eqn:Ey; [|reflexivity].
        cbn [option_map]. exists (seq i (S j - i)). split; [reflexivity|].
        cbn [select_kids]. replace (Z.to_nat (Z.of_nat i + 0)) with i by lia.
        replace (Z.to_nat (Z.of_nat j + (0 + 1))) with (S j) by lia.
        apply slice_kids. lia.
      + destruct (idx x ls) as [i|] eqn:Ex; [|reflexivity].
        exists (seq i (length ls - i)). split; [reflexivity|].
        cbn [select_kids]. replace (Z.to_nat (Z.of_nat i + 0)) with i by lia.
        apply slice_kids. lia.
      + destruct (idx y ls) as [j|] eqn:Ey; [|reflexivity].
        cbn [option_map]. exists (seq 0 (S j - 0)). split; [reflexivity|].
        cbn [select_kids]. replace (Z.to_nat (Z.of_nat j + (0 + 1))) with (S j) by lia.
        apply slice_kids. lia.
      + exists (seq 0 (length ls - 0)). split; [reflexivity|].
        replace (length ls - 0)%nat with (length ls) by lia. exact ALL.
  Qed.

  Definition leaf_out (ls : list A) (s : sel) (b : Z) : list (option part) :=
    match locmap ls s (Some b) with
    | Ok p => [Some p]
    | Err e => if String.eqb e "KeyError" then [] else [None]
    end.

  Definition mask_window (ls : list A) (b : Z) (s : sel) : sel :=
    match s with
    | SMask bs => SMask (firstn (Z.to_nat (zlen ls)) (skipn (Z.to_nat b) bs))
    | _ => s
    end.

  Lemma pflat_slice total a c : 0 <= a <= total -> 0 <= c <= total ->
    pflat total (PSlice (Some a) (Some c)) = zrange a (Z.to_nat (c - a)).
  Proof. intros Ha Hc. unfold pflat. cbn [part_flat]. rewrite positions_closed by assumption. reflexivity. Qed.

  Lemma Mpos_one total p : Mpos total [Some p] = Ok (pflat total p).
  Proof. unfold Mpos. cbn. rewrite app_nil_r. reflexivity. Qed.

  (* ---- stepped label slices at a leaf *)
  Lemma positions_step_up s e k total : 0 < k -> 0 <= s <= total -> 0 <= e <= total ->
    positions (mk_slice (Some s) (Some e) (Some k)) total =
    Some (range_list s k (Z.to_nat (if s <? e then (e - s - 1) / k + 1 else 0))).
  Proof.
    intros Hk Hs He. unfold positions, slice_indices. cbn [s_step s_start s_stop].
    assert (K0 : (k =? 0) = false) by lia. assert (K1 : (k <? 0) = false) by lia.
    rewrite K0. unfold adj_bound. rewrite K1.
    destruct (s <? 0) eqn:E1; [lia|]. destruct (e <? 0) eqn:E2; [lia|].
    assert (Ea : (if s >=? total then total else s) = s) by (destruct (s >=? total) eqn:E; lia).
    assert (Eb : (if e >=? total then total else e) = e) by (destruct (e >=? total) eqn:E; lia).
    rewrite Ea, Eb. unfold range_len. rewrite K1. reflexivity.
  Qed.

  Lemma positions_step_down s e k total : k < 0 -> 0 <= s < total -> -1 <= e < total ->
    positions (mk_slice (Some s) (if e <? 0 then None else Some e) (Some k)) total =
    Some (range_list s k (Z.to_nat (if e <? s then (s - e - 1) / (- k) + 1 else 0))).
  Proof.
    intros Hk Hs He. unfold positions, slice_indices. cbn [s_step s_start].
    assert (K0 : (k =? 0) = false) by lia. assert (K1 : (k <? 0) = true) by lia.
    rewrite K0.
    assert (ES : adj_bound (Some s) total k true = s).
    { unfold adj_bound. destruct (s <? 0) eqn:E1; [lia|]. destruct (s >=? total) eqn:E3; [lia|reflexivity]. }
    assert (EE : adj_bound (s_stop (mk_slice (Some s) (if e <? 0 then None else Some e) (Some k))) total k false = e).
    { cbn [s_stop]. destruct (e <? 0) eqn:E2; unfold adj_bound; rewrite ?K1, ?E2; [lia|].
      destruct (e >=? total) eqn:E4; lia. }
    rewrite EE, ES. unfold range_len. rewrite K1. reflexivity.
  Qed.

  Lemma step_list (b i k : Z) (cnt : nat) : (forall t, (t < cnt)%nat -> 0 <= i + Z.of_nat t * k) ->
    range_list (i + b) k cnt = map (fun t => b + Z.of_nat t) (step_idx i k cnt).
  Proof.
    intro H. unfold range_list, step_idx. rewrite map_map. apply map_ext_in. intros t Ht.
    apply in_seq in Ht. rewrite Z2Nat.id by (apply H; lia). lia.
  Qed.

  Lemma Mpos_step total a c k ps : positions (mk_slice a c (Some k)) total = Some ps ->
    Mpos total [Some (PStep a c k)] = Ok ps.
  Proof. intro H. rewrite Mpos_one. unfold pflat. cbn [part_flat]. rewrite H. reflexivity. Qed.

  Lemma step_up_ok total b n i j k s e : 0 < k -> 0 <= b -> b + n <= total -> 0 <= i <= n -> -1 <= j < n ->
    s = i + b -> e = j + b + 1 ->
    Mpos total [Some (PStep (Some s) (Some e) k)]
    = Ok (map (fun t => b + Z.of_nat t) (step_idx i k (if i <=? j then Z.to_nat ((j - i) / k + 1) else O))).
  Proof.
    intros Hk Hb Ht Hi Hj -> ->. apply Mpos_step. rewrite positions_step_up by lia. f_equal.
    replace (j + b + 1 - (i + b) - 1) with (j - i) by lia.
    assert (C : Z.to_nat (if i + b <? j + b + 1 then (j - i) / k + 1 else 0)
                = (if i <=? j then Z.to_nat ((j - i) / k + 1) else O)).
    { destruct (i <=? j) eqn:E1; destruct (i + b <? j + b + 1) eqn:E2; try lia; reflexivity. }
    rewrite C. apply step_list. intros t _. nia.
  Qed.

  Lemma step_down_ok total b n i j k : k < 0 -> 0 <= b -> b + n <= total -> 0 <= i < n -> 0 <= j < n ->
    Mpos total [Some (PStep (Some (i + b)) (if j + b - 1 <? 0 then None else Some (j + b - 1)) k)]
    = Ok (map (fun t => b + Z.of_nat t) (step_idx i k (if j <=? i then Z.to_nat ((i - j) / (- k) + 1) else O))).
  Proof.
    intros Hk Hb Ht Hi Hj. apply Mpos_step. rewrite (positions_step_down (i + b) (j + b - 1) k total) by lia. f_equal.
    replace (i + b - (j + b - 1) - 1) with (i - j) by lia.
    assert (C : Z.to_nat (if j + b - 1 <? i + b then (i - j) / (- k) + 1 else 0)
                = (if j <=? i then Z.to_nat ((i - j) / (- k) + 1) else O)).
    { destruct (j <=? i) eqn:E1; destruct (j + b - 1 <? i + b) eqn:E2; try lia; reflexivity. }
    rewrite C. apply step_list. intros t Ht'.
    destruct (j <=? i) eqn:E1; [|lia].
    pose proof (Z.mul_div_le (i - j) (- k) ltac:(lia)) as D.
    assert (0 <= (i - j) / (- k)) by (apply Z.div_pos; lia).
    assert (Z.of_nat t <= (i - j) / (- k)) by lia. nia.
  Qed.

  Lemma leaf_pick : forall (ls : list A) (s : sel) (b total : Z),
    0 <= b -> b + zlen ls <= total ->
    sel_guard A true (Z.to_nat total) s = true ->
    Mpos total (leaf_out ls (mask_window ls b s) b)
    = match spick true b ls s with Ok picked => Ok (map (fun i => b + Z.of_nat i) picked) | Err e => Err e end.
  Proof.
    intros ls s b total Hb Ht Hg. unfold zlen in *.
    assert (ALL : Mpos total [Some (PSlice (Some b) (Some (Z.of_nat (length ls) + b)))]
                  = Ok (map (fun i => b + Z.of_nat i) (seq 0 (length ls)))).
    { rewrite Mpos_one, pflat_slice by lia. rewrite map_seq_zrange. f_equal. f_equal; lia. }
    destruct s as [|l|want|a c|bs|a c k]; unfold leaf_out, mask_window.
    - cbn [M_locmap S_pick]. unfold zlen. exact ALL.
    - cbn [M_locmap S_pick]. destruct (idx l ls) as [i|] eqn:E.
      + rewrite Mpos_one. cbn. f_equal. f_equal. lia.
      + reflexivity.
    - cbn [M_locmap S_pick]. rewrite Mpos_one. unfold pflat. cbn [part_flat]. f_equal.
      apply map_ext. intro i. lia.
    - destruct a as [x|], c as [y|]; cbn [M_locmap S_pick slice_bound].
      + destruct (idx x ls) as [i|] eqn:Ex; [|reflexivity].
        destruct (idx y ls) as [j|] eqn:Ey; [|reflexivity].
        cbn [option_map]. destruct (idx_some _ _ _ Ex) as [_ Hi]. destruct (idx_some _ _ _ Ey) as [_ Hj].
        rewrite Mpos_one, pflat_slice by lia. rewrite map_seq_zrange. f_equal. f_equal; lia.
      + destruct (idx x ls) as [i|] eqn:Ex; [|reflexivity].
        destruct (idx_some _ _ _ Ex) as [_ Hi]. unfold zlen.
        rewrite Mpos_one, pflat_slice by lia. rewrite map_seq_zrange. f_equal. f_equal; lia.
      + destruct (idx y ls) as [j|] eqn:Ey; [|reflexivity].
        cbn [option_map]. destruct (idx_some _ _ _ Ey) as [_ Hj].
        rewrite Mpos_one, pflat_slice by lia. rewrite map_seq_zrange. f_equal. f_equal; lia.
      + unfold zlen. replace (length ls - 0)%nat with (length ls) by lia. exact ALL.
    - cbn [sel_guard andb] in Hg. apply Nat.eqb_eq in Hg.
      cbn [M_locmap S_pick]. unfold zlen.
      assert (L : length (firstn (Z.to_nat (Z.of_nat (length ls))) (skipn (Z.to_nat b) bs)) = length ls).
      { rewrite firstn_length, skipn_length. lia. }
      rewrite L, Nat.eqb_refl. rewrite Mpos_one. unfold pflat. cbn [part_flat]. f_equal.
      rewrite (filter_ext_in _ (fun i => nth (Z.to_nat (b + Z.of_nat i)) bs false)).
      + apply map_ext. intro i. lia.
      + intros i Hi. apply in_seq in Hi. rewrite nth_firstn_lt by lia. rewrite nth_skipn'. f_equal. lia.
    - cbn [sel_guard andb] in Hg. apply andb_true_iff in Hg as [Hk0 Hg]. apply negb_true_iff in Hk0.
      cbn [M_locmap S_pick negb]. rewrite Hk0. unfold zlen.
      destruct (0 <? k) eqn:Kp.
      + (* walking up: open ends are this leaf's first / last label *)
        destruct a as [x|], c as [y|]; cbn [slice_bound].
        * destruct (idx x ls) as [i|] eqn:Ex; [|reflexivity].
          destruct (idx y ls) as [j|] eqn:Ey; [|reflexivity].
          cbn [option_map]. destruct (idx_some _ _ _ Ex) as [_ Hi]. destruct (idx_some _ _ _ Ey) as [_ Hj].
          apply (step_up_ok total b (Z.of_nat (length ls))); lia.
        * destruct (idx x ls) as [i|] eqn:Ex; [|reflexivity].
          cbn [option_map]. destruct (idx_some _ _ _ Ex) as [_ Hi].
          apply (step_up_ok total b (Z.of_nat (length ls))); lia.
        * destruct (idx y ls) as [j|] eqn:Ey; [|reflexivity].
          cbn [option_map]. destruct (idx_some _ _ _ Ey) as [_ Hj].
          apply (step_up_ok total b (Z.of_nat (length ls))); lia.
        * apply (step_up_ok total b (Z.of_nat (length ls))); lia.
      + (* walking down: closed slices only (guard) *)
        cbn [orb] in Hg. destruct a as [x|], c as [y|]; try discriminate. cbn [slice_bound].
        destruct (idx x ls) as [i|] eqn:Ex; [|reflexivity].
        destruct (idx y ls) as [j|] eqn:Ey; [|reflexivity].
        cbn [option_map]. destruct (idx_some _ _ _ Ex) as [_ Hi]. destruct (idx_some _ _ _ Ey) as [_ Hj].
        apply (step_down_ok total b (Z.of_nat (length ls))); lia.
  Qed.

  (* ---- the flat rows of a node, grouped back into its children *)
  Notation gruns := (group_runs A eqb).

  Lemma gruns_cons h t rows' :
    gruns ((h :: t) :: rows') =
    match gruns rows' with
    | (h', ts) :: gs => if eqb h h' then (h, t :: ts) :: gs else (h, [t]) :: (h', ts) :: gs
    | [] => [(h, [t])]
    end.
  Proof. reflexivity. Qed.

  Lemma gruns_block : forall (l : A) (tails : list (list A)) rest,
    tails <> [] ->
    (match gruns rest with (h', _) :: _ => eqb l h' = false | [] => True end) ->
    gruns (map (cons l) tails ++ rest) = (l, tails) :: gruns rest.
  Proof.
    intros l tails rest Hne Hnext. induction tails as [|t tails IH]; [congruence|].
    destruct tails as [|t2 tails].
    - change (map (cons l) [t] ++ rest) with ((l :: t) :: rest). rewrite gruns_cons.
      destruct (gruns rest) as [|[h' ts] gs]; [reflexivity|]. rewrite Hnext. reflexivity.
    - change (map (cons l) (t :: t2 :: tails) ++ rest) with ((l :: t) :: (map (cons l) (t2 :: tails) ++ rest)).
      rewrite gruns_cons. rewrite IH by discriminate. rewrite eqb_refl. reflexivity.
  Qed.

  Lemma flatten_nonempty : forall (t : level) h, uniform h t = true -> flatten t <> [].
  Proof.
    induction t as [o ls|o ls ks IH] using level_ind'; intros h H.
    - apply uniform_leaf in H as [_ Hne]. destruct ls; [congruence|discriminate].
    - apply uniform_node in H as (h' & -> & Hlen & Hne & Hk). rewrite flatten_node.
      destruct ks as [|k ks]; [congruence|]. destruct ls as [|l ls]; [discriminate|]. cbn [fz].
      inversion IH; subst. inversion Hk; subst. intro E. apply app_eq_nil in E as [E _].
      apply map_eq_nil in E. exact (H1 h' H3 E).
  Qed.

  Lemma nodupb_NoDup : forall l, nodupb A eqb l = true -> NoDup l.
  Proof.
    induction l as [|x l IH]; intro H; [constructor|]. cbn [nodupb] in H.
    apply andb_true_iff in H as [H1 H2]. constructor; [|apply IH, H2].
    apply mem_false_notin. destruct (mem A eqb x l); [discriminate|reflexivity].
  Qed.

  Lemma gruns_fz : forall (ks : list level) (ls : list A) h,
    length ls = length ks -> NoDup ls -> Forall (fun k => uniform h k = true) ks ->
    gruns (fz A ks ls) = combine ls (map flatten ks).
  Proof.
    induction ks as [|k ks IH]; intros ls h Hlen Hnd Hk.
    - destruct ls; reflexivity.
    - destruct ls as [|l ls]; [discriminate|]. cbn [fz map combine].
      inversion Hk; subst. inversion Hnd; subst.
      assert (IH' := IH ls h ltac:(cbn in Hlen; lia) H4 H2).
      rewrite gruns_block.
      + rewrite IH'. reflexivity.
      + eapply flatten_nonempty; eauto.
      + rewrite IH'. destruct ls as [|l2 ls]; [exact I|]. destruct ks as [|k2 ks]; [exact I|].
        cbn [map combine]. destruct (eqb l l2) eqn:E; [|reflexivity].
        apply eqb_spec in E. subst. exfalso. apply H3. left. reflexivity.
  Qed.

  Lemma lv_len_nonneg : forall (t : level) h, uniform h t = true -> 0 <= lv_len t.
  Proof. intros t h H. rewrite (lv_len_flatten _ _ _ H). unfold zlen. lia. Qed.

  Lemma zsum_nonneg : forall (ks : list level) h, Forall (fun k => uniform h k = true) ks -> 0 <= zsum (map lv_len ks).
  Proof.
    induction ks as [|k ks IH]; intros h H; [cbn; lia|]. inversion H; subst.
    cbn [map zsum fold_right]. pose proof (lv_len_nonneg _ _ H2). specialize (IH h H3). unfold zsum in IH. lia.
  Qed.

  Lemma offsets_bounds : forall (ks : list level) c k h, Forall (fun k => uniform h k = true) ks ->
    offsets_from c ks = true -> In k ks -> c <= lv_off k /\ lv_off k + lv_len k <= c + zsum (map lv_len ks).
  Proof.
    induction ks as [|k0 ks IH]; intros c k h Hk Ho Hin; [destruct Hin|].
    inversion Hk; subst. cbn [offsets_from] in Ho. apply andb_true_iff in Ho as [Ho1 Ho2].
    apply Z.eqb_eq in Ho1. cbn [map zsum fold_right].
    pose proof (lv_len_nonneg _ _ H1) as L0. pose proof (zsum_nonneg _ _ H2) as Z0. unfold zsum in Z0.
    destruct Hin as [<-|Hin].
    - lia.
    - destruct (IH _ _ _ H2 Ho2 Hin) as [B1 B2]. unfold zsum in B2. lia.
  Qed.

  Lemma gbases : forall (ks : list level) (ls : list A) h b c base,
    base = b + c -> length ls = length ks -> Forall (fun k => uniform h k = true) ks -> offsets_from c ks = true ->
    group_bases A base (combine ls (map flatten ks)) = map (fun k => b + lv_off k) ks.
  Proof.
    induction ks as [|k ks IH]; intros ls h b c base Hb Hlen Hk Ho.
    - destruct ls; reflexivity.
    - destruct ls as [|l ls]; [discriminate|]. inversion Hk; subst.
      cbn [offsets_from] in Ho. apply andb_true_iff in Ho as [Ho1 Ho2]. apply Z.eqb_eq in Ho1.
      cbn [map combine group_bases snd]. f_equal; [lia|].
      apply (IH ls h b (c + lv_len k)); auto.
      rewrite (lv_len_flatten _ _ _ H1). lia.
  Qed.

  Lemma nth_groups : forall (ks : list level) (ls : list A) b i,
    nth_error (combine (combine ls (map flatten ks)) (map (fun k => b + lv_off k) ks)) i =
    match nth_error ks i, nth_error ls i with
    | Some k, Some l => Some ((l, flatten k), b + lv_off k)
    | _, _ => None
    end.
  Proof.
    induction ks as [|k ks IH]; intros ls b i.
    - destruct ls; destruct i; reflexivity.
    - destruct ls as [|l ls]; [destruct i; cbn; [reflexivity|destruct (nth_error ks i); reflexivity]|].
      destruct i as [|i]; [reflexivity|]. cbn [map combine nth_error]. apply IH.
  Qed.

  Lemma map_fst_combine {X Y} : forall (a : list X) (b : list Y), length a = length b -> map fst (combine a b) = a.
  Proof.
    induction a as [|x a IH]; intros b H; [reflexivity|]. destruct b as [|y b]; [discriminate|].
    cbn. f_equal. apply IH. cbn in H. lia.
  Qed.

  Lemma heads_singletons : forall ls : list A, heads (map (fun l => [l]) ls) = ls.
  Proof. induction ls as [|l ls IH]; [reflexivity|]. cbn. f_equal. exact IH. Qed.

  (* ---- the refinement, subtree by subtree *)
  Variable key : list sel.
  Notation hstep := (hloc_step A eqb key).
  Notation hdfs := (dfs _ _ hstep).

  Definition guard_levels (Dtot : nat) (total : Z) : Prop :=
    forall d', (d' < Dtot)%nat -> sel_guard A (Nat.eqb (S d') Dtot) (Z.to_nat total) (sel_at key d') = true.

  Lemma leaf_step o ls d off :
    fst (hstep (Leaf o ls, d, off)) = leaf_out ls (mask_window ls (off + o) (sel_at key d)) (off + o).
  Proof.
    unfold hloc_step, leaf_out, mask_window. cbn [fst snd lv_off lv_len].
    destruct (sel_at key d);
    match goal with
    | |- fst (match ?X with Ok _ => _ | Err _ => _ end) = match ?Y with Ok _ => _ | Err _ => _ end =>
        change Y with X; destruct X as [p|e]
    end; try reflexivity; destruct (String.eqb e "KeyError"); reflexivity.
  Qed.

  Lemma node_step o ls ks d off : not_mask (sel_at key d) ->
    hstep (Node o ls ks, d, off) =
    match locmap ls (sel_at key d) None with
    | Ok p => ([], map (fun k => (k, S d, off + o)) (select_kids ks p))
    | Err e => if String.eqb e "KeyError" then ([], []) else ([None], [])
    end.
  Proof.
    intro H. unfold hloc_step. cbn [fst snd lv_off]. destruct (sel_at key d); try reflexivity; destruct H.
  Qed.

  Lemma sub_exact : forall (t : level) h,
    uniform h t = true -> offsets_ok t = true -> labels_ok A eqb t = true ->
    forall d off total, guard_levels (d + S h) total ->
      0 <= off + lv_off t -> off + lv_off t + lv_len t <= total ->
      Mpos total (hdfs h (t, d, off)) = S_select A eqb (S h) (flatten t) (off + lv_off t) key d.
  Proof.
    induction t as [o ls|o ls ks IH] using level_ind'; intros h Hu Ho Hl d off total Hg Hb0 Hb1.
    - apply uniform_leaf in Hu as [-> _]. cbn [dfs]. rewrite leaf_step.
      cbn [lv_off lv_len] in *. cbn [S_select flatten]. rewrite heads_singletons.
      apply leaf_pick; [exact Hb0|exact Hb1|].
      specialize (Hg d ltac:(lia)). replace (Nat.eqb (S d) (d + 1)) with true in Hg; [exact Hg|].
      symmetry. apply Nat.eqb_eq. lia.
    - apply uniform_node in Hu as (h' & -> & Hlen & Hne & Hk).
      cbn [offsets_ok] in Ho. apply andb_true_iff in Ho as [Ho1 Ho2].
      cbn [labels_ok] in Hl. apply andb_true_iff in Hl as [Hl1 Hl2].
      cbn [lv_off] in *.
      assert (Hnm : not_mask (sel_at key d)).
      { specialize (Hg d ltac:(lia)). replace (Nat.eqb (S d) (d + S (S h'))) with false in Hg
          by (symmetry; apply Nat.eqb_neq; lia).
        destruct (sel_at key d); try exact I; cbn in Hg; discriminate. }
      cbn [dfs]. rewrite (node_step o ls ks d off Hnm). rewrite flatten_node.
      change (S_select A eqb (S (S h')) (fz A ks ls) (off + o) key d) with
        (let gs := gruns (fz A ks ls) in
         match spick false (off + o) (map fst gs) (sel_at key d) with
         | Err e => Err e
         | Ok picked =>
             res_concat (map (fun i => match nth_error (combine gs (group_bases A (off + o) gs)) i with
                                       | Some (g, b) => S_select A eqb (S h') (snd g) b key (S d)
                                       | None => Ok []
                                       end) picked)
         end).
      cbv zeta.
      rewrite (gruns_fz ks ls h' Hlen (nodupb_NoDup _ Hl1) Hk).
      rewrite map_fst_combine by (rewrite map_length; exact Hlen).
      rewrite (gbases ks ls h' (off + o) 0 (off + o) ltac:(lia) Hlen Hk Ho1).
      pose proof (node_pick ls ks (sel_at key d) (off + o) Hlen Hnm) as NP.
      destruct (locmap ls (sel_at key d) None) as [p|e].
      + destruct NP as (picked & Hs & Hsel). rewrite Hs, Hsel. cbn [fst snd app].
        clear Hs Hsel. induction picked as [|i picked IHp]; [reflexivity|].
        unfold pick_kids. cbn [flat_map map]. rewrite map_app, flat_map_app, Mpos_app, res_concat_cons.
        fold (pick_kids ks picked). rewrite IHp. f_equal.
        rewrite nth_groups. destruct (nth_error ks i) as [k|] eqn:Ek.
        * assert (Hin : In k ks) by (eapply nth_error_In; eauto).
          destruct (nth_error ls i) as [l|] eqn:El.
          2:{ apply nth_error_None in El. assert (i < length ks)%nat by (apply nth_error_Some; congruence). lia. }
          cbn [map flat_map snd]. rewrite app_nil_r.
          rewrite Forall_forall in IH, Hk. rewrite forallb_forall in Ho2, Hl2.
          destruct (offsets_bounds ks 0 k h' ltac:(apply Forall_forall; exact Hk) Ho1 Hin) as [B1 B2].
          assert (LN : lv_len (Node o ls ks) = zsum (map lv_len ks)).
          { destruct ks as [|k0 ks0]; [destruct Hin|]. apply lv_len_node. }
          rewrite LN in Hb1.
          apply (IH k Hin h' (Hk k Hin) (Ho2 k Hin) (Hl2 k Hin) (S d) (off + o) total).
          -- replace (S d + S h')%nat with (d + S (S h'))%nat by lia. exact Hg.
          -- lia.
          -- lia.
        * destruct (nth_error ls i); reflexivity.
      + destruct (String.eqb e "KeyError").
        * rewrite NP. reflexivity.
        * rewrite NP. reflexivity.
  Qed.

  (* ---- the walk itself: the deque resolves level by level *)
  Definition h_ht (x : level * nat * Z) : nat := pred (lv_depth (fst (fst x))).
  Definition h_P (x : level * nat * Z) : Prop := uniform (h_ht x) (fst (fst x)) = true.

  Lemma mask_step o ls ks d off bs : sel_at key d = SMask bs -> hstep (Node o ls ks, d, off) = ([None], []).
  Proof. intro E. unfold hloc_step. cbn [fst snd lv_off]. rewrite E. reflexivity. Qed.

  Lemma leaf_step_snd o ls d off : snd (hstep (Leaf o ls, d, off)) = [].
  Proof.
    unfold hloc_step. cbn [fst snd lv_off lv_len].
    match goal with |- snd (match ?X with Ok _ => _ | Err _ => _ end) = _ => destruct X as [p|e] end;
      [reflexivity|]. destruct (String.eqb e "KeyError"); reflexivity.
  Qed.

  Lemma h_H0 : forall x, h_P x -> h_ht x = O -> snd (hstep x) = [].
  Proof.
    intros [[t d] off] HP H. unfold h_P in HP. rewrite H in HP. cbn [fst] in HP.
    destruct t as [o ls|o ls ks]; [apply leaf_step_snd|]. cbn in HP. discriminate.
  Qed.

  Lemma node_cases o ls ks d off :
    (exists p, hstep (Node o ls ks, d, off) = ([], map (fun k => (k, S d, off + o)) (select_kids ks p))) \/
    hstep (Node o ls ks, d, off) = ([], []) \/ hstep (Node o ls ks, d, off) = ([None], []).
  Proof.
    destruct (sel_at key d) as [|l|want|a c|bs|a c k] eqn:E.
    5:{ right. right. eapply mask_step, E. }
    5:{ right. right. unfold hloc_step. cbn [fst snd lv_off]. rewrite E. reflexivity. }
    all: rewrite node_step by (rewrite E; exact I);
      destruct (locmap ls (sel_at key d) None) as [p|e];
      [left; exists p; reflexivity|destruct (String.eqb e "KeyError"); [right; left|right; right]; reflexivity].
  Qed.

  Lemma h_HS : forall x h, h_P x -> h_ht x = S h -> Forall (fun k => h_P k /\ h_ht k = h) (snd (hstep x)).
  Proof.
    intros [[t d] off] h HP H. unfold h_P in HP. rewrite H in HP. cbn [fst] in HP.
    destruct t as [o ls|o ls ks]; [apply uniform_leaf in HP as [? _]; discriminate|].
    apply uniform_node in HP as (h' & E & Hlen & Hne & Hk). injection E as <-.
    destruct (node_cases o ls ks d off) as [[p ->]|[->| ->]]; cbn [snd]; try constructor.
    apply Forall_forall. intros [[k d'] off'] Hin. apply in_map_iff in Hin as (k' & E & Hin).
    injection E as -> <- <-. apply select_kids_in in Hin. rewrite Forall_forall in Hk. specialize (Hk _ Hin).
    unfold h_P, h_ht. cbn [fst]. rewrite (uniform_depth _ _ _ Hk). cbn [pred]. auto.
  Qed.

  Definition proj_some (o : option part) : list part := match o with Some x => [x] | None => [] end.

  Lemma h_silent : forall x h, h_P x -> h_ht x = S h -> flat_map proj_some (fst (hstep x)) = [].
  Proof.
    intros [[t d] off] h HP H. unfold h_P in HP. rewrite H in HP. cbn [fst] in HP.
    destruct t as [o ls|o ls ks]; [apply uniform_leaf in HP as [? _]; discriminate|].
    destruct (node_cases o ls ks d off) as [[p ->]|[->| ->]]; reflexivity.
  Qed.

  Lemma hloc_walk : forall (t : level) h, uniform h t = true ->
    M_hloc A eqb t key = hloc_finish A (lv_len t) key
                           (lorder _ _ hstep h [(t, O, 0)]).
  Proof.
    intros t h Hu. unfold M_hloc. rewrite (uniform_depth _ _ _ Hu). cbn [pred].
    rewrite (bfs_lorder _ _ hstep h_ht h_P h_H0 h_HS h).
    - reflexivity.
    - constructor; [|constructor]. unfold h_P, h_ht. cbn [fst]. rewrite (uniform_depth _ _ _ Hu). cbn [pred]. auto.
    - cbn [map]. rewrite list_sum_cons. cbn. lia.
  Qed.

  (* hloc_finish only looks at the raised marker and at the parts, both independent of level vs depth order *)
  Lemma finish_order : forall (t : level) h total, uniform h t = true ->
    hloc_finish A total key (lorder _ _ hstep h [(t, O, 0)]) = hloc_finish A total key (hdfs h (t, O, 0)).
  Proof.
    intros t h total Hu.
    assert (Q : Forall (fun x => h_P x /\ h_ht x = h) [(t, O, 0)]).
    { constructor; [|constructor]. unfold h_P, h_ht. cbn [fst]. rewrite (uniform_depth _ _ _ Hu). cbn [pred]. auto. }
    unfold hloc_finish.
    rewrite (existsb_lorder_dfs _ _ hstep is_none h [(t, O, 0)]). cbn [existsb]. rewrite orb_false_r.
    assert (E : somes (lorder _ _ hstep h [(t, O, 0)]) = somes (hdfs h (t, O, 0))).
    { unfold somes. change (fun o : option part => match o with Some x => [x] | None => [] end) with proj_some.
      rewrite (proj_lorder_dfs _ _ hstep h_ht h_P h_HS _ proj_some h_silent h _ Q).
      cbn [flat_map]. apply app_nil_r. }
    rewrite E. reflexivity.
  Qed.

  Lemma finish_Mpos : forall total outs,
    hloc_finish A total key outs =
    match Mpos total outs with
    | Err e => Err e
    | Ok ps => match somes outs with
               | [] => Err "KeyError"
               | parts => Ok (match parts with [PInt _] => negb (existsb (@sel_multiple A) key) | _ => false end, ps)
               end
    end.
  Proof.
    intros total outs. unfold hloc_finish, Mpos. destruct (existsb is_none outs); [reflexivity|].
    destruct (somes outs) as [|p ps] eqn:E; [reflexivity|]. rewrite res_concat_ok. reflexivity.
  Qed.

  (* ---- the single-position flag *)
  Definition is_slice (p : part) : Prop := match p with PSlice _ _ => True | _ => False end.

  Lemma somes_node_silent o ls ks d off : somes (fst (hstep (Node o ls ks, d, off))) = [].
  Proof. destruct (node_cases o ls ks d off) as [[p ->]|[->| ->]]; reflexivity. Qed.

  Lemma somes_flat_map {X} (f : X -> list (option part)) l : somes (flat_map f l) = flat_map (fun x => somes (f x)) l.
  Proof. induction l as [|x l IH]; [reflexivity|]. cbn [flat_map]. rewrite somes_app, IH. reflexivity. Qed.

  Lemma Forall_flat_map_intro {X Y} (Q : Y -> Prop) (f : X -> list Y) l :
    (forall x, In x l -> Forall Q (f x)) -> Forall Q (flat_map f l).
  Proof.
    induction l as [|x l IH]; intros H; cbn [flat_map]; [constructor|].
    apply Forall_app. split; [apply H; left; reflexivity|apply IH; intros y Hy; apply H; right; exact Hy].
  Qed.

  Lemma leaf_all_slices : forall (t : level) h d off, uniform h t = true ->
    sel_at key (d + h) = SAll -> Forall is_slice (somes (hdfs h (t, d, off))).
  Proof.
    induction t as [o ls|o ls ks IH] using level_ind'; intros h d off Hu Hs.
    - apply uniform_leaf in Hu as [-> _]. replace (d + 0)%nat with d in Hs by lia.
      cbn [dfs]. rewrite leaf_step, Hs. cbn. constructor; [exact I|constructor].
    - apply uniform_node in Hu as (h' & -> & Hlen & Hne & Hk). cbn [dfs].
      rewrite somes_app, somes_node_silent. cbn [app]. rewrite somes_flat_map.
      destruct (node_cases o ls ks d off) as [[p ->]|[->| ->]]; cbn [snd flat_map]; try constructor.
      apply Forall_flat_map_intro. intros [[k d'] off'] Hin. apply in_map_iff in Hin as (k' & E & Hin).
      injection E as -> <- <-. apply select_kids_in in Hin. rewrite Forall_forall in IH, Hk.
      apply (IH k Hin h' (S d) (off + o) (Hk k Hin)). replace (S d + h')%nat with (d + S h')%nat by lia. exact Hs.
  Qed.

  Lemma all_one_single : forall (t : level) h d off, uniform h t = true ->
    (forall d', (d <= d' < d + S h)%nat -> exists l, sel_at key d' = SOne l) ->
    somes (hdfs h (t, d, off)) = [] \/ exists z, somes (hdfs h (t, d, off)) = [PInt z].
  Proof.
    induction t as [o ls|o ls ks IH] using level_ind'; intros h d off Hu Hs.
    - apply uniform_leaf in Hu as [-> _]. destruct (Hs d ltac:(lia)) as [l E].
      cbn [dfs]. rewrite leaf_step, E. unfold leaf_out, mask_window. cbn [M_locmap].
      destruct (idx l ls); [right; eexists; reflexivity|left; reflexivity].
    - apply uniform_node in Hu as (h' & -> & Hlen & Hne & Hk). destruct (Hs d ltac:(lia)) as [l E].
      cbn [dfs]. rewrite somes_app, somes_node_silent. cbn [app].
      rewrite node_step by (rewrite E; exact I). rewrite E. cbn [M_locmap].
      destruct (idx l ls) as [i|]; [|left; reflexivity].
      cbn [snd select_kids]. rewrite nth_kid_nat. destruct (nth_error ks i) as [k|] eqn:Ek; [|left; reflexivity].
      cbn [map flat_map]. rewrite app_nil_r.
      assert (Hin : In k ks) by (eapply nth_error_In; eauto).
      rewrite Forall_forall in IH, Hk. apply (IH k Hin h' (S d) (off + o) (Hk k Hin)).
      intros d' Hd. apply Hs. lia.
  Qed.

  Lemma forallb_negb_existsb {X} (f : X -> bool) l : forallb (fun x => negb (f x)) l = negb (existsb f l).
  Proof. induction l as [|x l IH]; [reflexivity|]. cbn. rewrite IH. destruct (f x); reflexivity. Qed.

  Lemma flatten_row_length : forall (t : level) h, uniform h t = true -> Forall (fun r => length r = S h) (flatten t).
  Proof.
    induction t as [o ls|o ls ks IH] using level_ind'; intros h Hu.
    - apply uniform_leaf in Hu as [-> _]. cbn [flatten]. apply Forall_forall. intros r Hin.
      apply in_map_iff in Hin as (l & <- & _). reflexivity.
    - apply uniform_node in Hu as (h' & -> & Hlen & Hne & Hk). rewrite flatten_node. clear Hlen Hne.
      revert ls. induction ks as [|k ks IHks]; intros ls; [destruct ls; constructor|].
      destruct ls as [|l ls]; [constructor|]. cbn [fz]. inversion IH; subst. inversion Hk; subst.
      apply Forall_app. split; [|apply IHks; auto].
      apply Forall_forall. intros r Hin. apply in_map_iff in Hin as (r' & <- & Hin).
      specialize (H1 h' H3). rewrite Forall_forall in H1. cbn [length]. f_equal. apply H1, Hin.
  Qed.

  Lemma rows_depth_flatten : forall (t : level) h, uniform h t = true -> rows_depth (flatten t) = S h.
  Proof.
    intros t h Hu. pose proof (flatten_row_length t h Hu) as F. pose proof (flatten_nonempty t h Hu) as N.
    destruct (flatten t) as [|r rows]; [congruence|]. inversion F; subst. assumption.
  Qed.

  Lemma Mpos_ok_nonempty total outs ps : Mpos total outs = Ok ps -> ps <> [] -> somes outs <> [].
  Proof.
    unfold Mpos. destruct (existsb is_none outs); [discriminate|]. intros E Hne Hs. rewrite Hs in E.
    injection E as <-. apply Hne. reflexivity.
  Qed.

  Lemma flag_eq : forall (t : level) h total ps, uniform h t = true -> (length key <= S h)%nat ->
    Mpos total (hdfs h (t, O, 0)) = Ok ps -> ps <> [] ->
    match somes (hdfs h (t, O, 0)) with [PInt _] => negb (existsb (@sel_multiple A) key) | _ => false end
    = Nat.eqb (length key) (S h) && forallb (fun s => negb (sel_multiple s)) key.
  Proof.
    intros t h total ps Hu Hlen HM Hne. pose proof (Mpos_ok_nonempty _ _ _ HM Hne) as Hs.
    rewrite forallb_negb_existsb. destruct (existsb (@sel_multiple A) key) eqn:EM.
    - rewrite andb_false_r. destruct (somes (hdfs h (t, O, 0))) as [|[z|a c|l|a c st] [|q r]]; reflexivity.
    - cbn [negb]. rewrite andb_true_r. destruct (Nat.eqb (length key) (S h)) eqn:EL.
      + apply Nat.eqb_eq in EL.
        destruct (all_one_single t h O 0 Hu) as [E|[z E]].
        * intros d' Hd. assert (Hin : In (sel_at key d') key) by (apply nth_In; lia).
          assert (F : sel_multiple (sel_at key d') = false).
          { destruct (sel_multiple (sel_at key d')) eqn:F; [|reflexivity].
            assert (existsb (@sel_multiple A) key = true) by (apply existsb_exists; eauto). congruence. }
          destruct (sel_at key d'); try discriminate. eexists; reflexivity.
        * congruence.
        * rewrite E. reflexivity.
      + apply Nat.eqb_neq in EL.
        assert (SA : sel_at key (0 + h) = SAll) by (unfold sel_at; apply nth_overflow; lia).
        pose proof (leaf_all_slices t h O 0 Hu SA) as F.
        destruct (somes (hdfs h (t, O, 0))) as [|[z|a c|l|a c st] [|q r]]; try reflexivity.
        inversion F as [|? ? F1 _]; subst. destruct F1.
  Qed.

  Theorem hloc_exact : forall (t : level) h,
    wf A eqb h t = true -> key_guard A (S h) (Z.to_nat (lv_len t)) key = true ->
    (forall r, S_hloc A eqb (flatten t) key = Ok r -> M_hloc A eqb t key = Ok r) /\
    (forall b ps, M_hloc A eqb t key = Ok (b, ps) -> ps <> [] -> S_hloc A eqb (flatten t) key = Ok (b, ps)) /\
    (forall e, S_select A eqb (S h) (flatten t) 0 key O = Err e -> exists e', M_hloc A eqb t key = Err e').
  Proof.
    intros t h Hwf Hg. unfold wf in Hwf.
    apply andb_true_iff in Hwf as [Hwf Hl]. apply andb_true_iff in Hwf as [Hwf Ho].
    apply andb_true_iff in Hwf as [H0 Hu]. apply Z.eqb_eq in H0.
    unfold key_guard in Hg. apply andb_true_iff in Hg as [Hg Hlen]. apply Nat.leb_le in Hlen.
    assert (G : guard_levels (0 + S h) (lv_len t)).
    { intros d' Hd. rewrite forallb_forall in Hg. apply Hg. apply in_seq. lia. }
    pose proof (sub_exact t h Hu Ho Hl O 0 (lv_len t) G) as SE. rewrite H0 in SE.
    specialize (SE ltac:(lia) ltac:(lia)). change (0 + 0) with 0 in SE.
    rewrite (hloc_walk t h Hu), (finish_order t h _ Hu), finish_Mpos.
    unfold S_hloc. rewrite (rows_depth_flatten t h Hu).
    destruct (S_select A eqb (S h) (flatten t) 0 key O) as [ps|e] eqn:ES; rewrite SE.
    - assert (FL : ps <> [] ->
        match somes (hdfs h (t, O, 0)) with [PInt _] => negb (existsb (@sel_multiple A) key) | _ => false end
        = Nat.eqb (length key) (S h) && forallb (fun s => negb (sel_multiple s)) key)
        by (intro Hne; eapply flag_eq; eauto).
      split; [|split].
      + intros r Hr. destruct ps as [|p ps']; [discriminate|]. injection Hr as <-.
        pose proof (Mpos_ok_nonempty _ _ _ SE ltac:(discriminate)) as Hs.
        destruct (somes (hdfs h (t, O, 0))) as [|q qs] eqn:EQ; [congruence|].
        rewrite <- FL by discriminate. reflexivity.
      + intros b ps' HM Hne.
        destruct (somes (hdfs h (t, O, 0))) as [|q qs] eqn:EQ; [discriminate|].
        injection HM as <- <-. destruct ps as [|p ps']; [congruence|].
        rewrite <- FL by discriminate. reflexivity.
      + intros e He. discriminate.
    - split; [|split].
      + intros r Hr. discriminate.
      + intros b ps HM. discriminate.
      + intros e' _. eexists. reflexivity.
  Qed.
End Hloc.
