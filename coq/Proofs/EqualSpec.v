(* C10 -- the specification S_*_equals is an equivalence on contents; options conjoin. *)
Require Import SF.Prelude SF.Dtype SF.Value SF.Equal.

(* ------------------------------------------------------------------ boolean relations *)
Definition bsym {A} (f : A -> A -> bool) : Prop := forall x y, f x y = f y x.
Definition btrans {A} (f : A -> A -> bool) : Prop :=
  forall x y z, f x y = true -> f y z = true -> f x z = true.

Lemma bsym_of_imp {A} (f : A -> A -> bool) :
  (forall x y, f x y = true -> f y x = true) -> bsym f.
Proof.
  intros H x y. destruct (f x y) eqn:E1, (f y x) eqn:E2; try reflexivity.
  - apply H in E1. congruence.
  - apply H in E2. congruence.
Qed.

Lemma list_eqb_sym {A} (f : A -> A -> bool) : bsym f -> bsym (list_eqb f).
Proof.
  intros H a. induction a as [|x xs IH]; intros [|y ys]; cbn; try reflexivity.
  rewrite (H x y), (IH ys). reflexivity.
Qed.

Lemma list_eqb_trans {A} (f : A -> A -> bool) : btrans f -> btrans (list_eqb f).
Proof.
  intros H a. induction a as [|x xs IH]; intros [|y ys] [|z zs]; cbn; intros E1 E2;
    try reflexivity; try discriminate.
  apply andb_true_iff in E1 as [E1 E1']. apply andb_true_iff in E2 as [E2 E2'].
  apply andb_true_iff; split; [eapply H; eauto | eapply IH; eauto].
Qed.

Lemma list_eqb_refl_on {A} (f : A -> A -> bool) (l : list A) :
  (forall x, In x l -> f x x = true) -> list_eqb f l l = true.
Proof.
  induction l as [|x xs IH]; cbn; intros H; [reflexivity|].
  rewrite (H x (or_introl eq_refl)), IH; [reflexivity|]. intros y Hy. apply H. right. exact Hy.
Qed.

Lemma list_eqb_length {A} (f : A -> A -> bool) a b : list_eqb f a b = true -> length a = length b.
Proof.
  revert b. induction a as [|x xs IH]; intros [|y ys]; cbn; intro E; try reflexivity; try discriminate.
  apply andb_true_iff in E as [_ E]. f_equal. apply IH. exact E.
Qed.

Lemma and_sym {A} (f g : A -> A -> bool) : bsym f -> bsym g -> bsym (fun x y => f x y && g x y).
Proof. intros Hf Hg x y. rewrite (Hf x y), (Hg x y). reflexivity. Qed.

Lemma and_trans {A} (f g : A -> A -> bool) : btrans f -> btrans g -> btrans (fun x y => f x y && g x y).
Proof.
  intros Hf Hg x y z E1 E2.
  apply andb_true_iff in E1 as [E1 E1']. apply andb_true_iff in E2 as [E2 E2'].
  apply andb_true_iff; split; [eapply Hf; eauto | eapply Hg; eauto].
Qed.

Lemma req_sym {A} (flag : bool) (g : A -> A -> bool) : bsym g -> bsym (fun x y => opt_req flag (g x y)).
Proof. intros Hg x y. rewrite (Hg x y). reflexivity. Qed.

Lemma req_trans {A} (flag : bool) (g : A -> A -> bool) : btrans g -> btrans (fun x y => opt_req flag (g x y)).
Proof.
  intros Hg x y z. unfold opt_req. destruct flag; cbn; [apply Hg | reflexivity].
Qed.

Lemma proj_sym {A B} (p : A -> B) (g : B -> B -> bool) : bsym g -> bsym (fun x y => g (p x) (p y)).
Proof. intros Hg x y. apply Hg. Qed.

Lemma proj_trans {A B} (p : A -> B) (g : B -> B -> bool) : btrans g -> btrans (fun x y => g (p x) (p y)).
Proof. intros Hg x y z. apply Hg. Qed.

(* ------------------------------------------------------------------ decidable equalities *)
Lemma tunit_eqb_eq a b : tunit_eqb a b = true -> a = b.
Proof. unfold tunit_eqb. destruct a, b; cbn; intro E; try reflexivity; discriminate. Qed.

Lemma dtype_eqb_eq a b : dtype_eqb a b = true -> a = b.
Proof.
  destruct a, b; cbn; intro E; try reflexivity; try discriminate.
  - apply andb_true_iff in E as [E1 E2]. apply Bool.eqb_prop in E1. apply Z.eqb_eq in E2. congruence.
  - apply Z.eqb_eq in E. congruence.
  - apply Z.eqb_eq in E. congruence.
  - apply Z.eqb_eq in E. congruence.
  - apply Z.eqb_eq in E. congruence.
  - apply tunit_eqb_eq in E. congruence.
  - apply tunit_eqb_eq in E. congruence.
Qed.

Lemma dtype_eqb_refl a : dtype_eqb a a = true.
Proof.
  destruct a; cbn; unfold tunit_eqb; rewrite ?Z.eqb_refl, ?Bool.eqb_reflx; reflexivity.
Qed.

Lemma dtype_eqb_sym : bsym dtype_eqb.
Proof.
  apply bsym_of_imp. intros x y E. apply dtype_eqb_eq in E. subst. apply dtype_eqb_refl.
Qed.

Lemma dtype_eqb_trans : btrans dtype_eqb.
Proof. intros x y z E1 E2. apply dtype_eqb_eq in E1. subst. exact E2. Qed.

Lemma val_eqb_eq : forall a b, val_eqb a b = true -> a = b.
Proof.
  fix IH 1. intros a b. destruct a as [z|b0|s|n d|b0| | | |u z|u z|s|l]; destruct b as [z'|b1|s'|n' d'|b1| | | |u' z'|u' z'|s'|l'];
    cbn; intro E; try reflexivity; try discriminate.
  - apply Z.eqb_eq in E. congruence.
  - apply Bool.eqb_prop in E. congruence.
  - apply String.eqb_eq in E. congruence.
  - apply andb_true_iff in E as [E1 E2]. apply Z.eqb_eq in E1. apply Z.eqb_eq in E2. congruence.
  - apply Bool.eqb_prop in E. congruence.
  - apply andb_true_iff in E as [E1 E2]. apply tunit_eqb_eq in E1. apply Z.eqb_eq in E2. congruence.
  - apply andb_true_iff in E as [E1 E2]. apply tunit_eqb_eq in E1. apply Z.eqb_eq in E2. congruence.
  - apply String.eqb_eq in E. congruence.
  - f_equal. revert l' E. induction l as [|x xs IHl]; intros [|y ys] E; try reflexivity; try discriminate.
    apply andb_true_iff in E as [E1 E2]. apply IH in E1. apply IHl in E2. congruence.
Qed.

Lemma val_eqb_sym : bsym val_eqb.
Proof. apply bsym_of_imp. intros x y E. apply val_eqb_eq in E. subst. apply val_eqb_refl. Qed.

Lemma Zeqb_sym : bsym Z.eqb.
Proof. intros x y. apply Z.eqb_sym. Qed.

Lemma Zeqb_trans : btrans Z.eqb.
Proof. intros x y z E1 E2. apply Z.eqb_eq in E1. subst. exact E2. Qed.

(* ------------------------------------------------------------------ scalars *)
Lemma nanlike_canon v : nanlike (canon v) = nanlike v.
Proof. destruct v as [z|b|s|n d|b| | | |u z|u z|s|l]; cbn; try reflexivity. destruct (d =? 1); reflexivity. Qed.

Lemma py_eq_iff x y : py_eq x y = true <-> nanlike x = false /\ canon x = canon y.
Proof.
  unfold py_eq. rewrite andb_true_iff, negb_true_iff. split; intros [H1 H2]; split; try exact H1.
  - apply val_eqb_eq. exact H2.
  - rewrite H2. apply val_eqb_refl.
Qed.

Lemma py_eq_imp_sym x y : py_eq x y = true -> py_eq y x = true.
Proof.
  rewrite !py_eq_iff. intros [H1 H2]. split; [|congruence].
  rewrite <- nanlike_canon, <- H2, nanlike_canon. exact H1.
Qed.

Lemma py_eq_sym : bsym py_eq.
Proof. apply bsym_of_imp. exact py_eq_imp_sym. Qed.

Lemma py_eq_trans : btrans py_eq.
Proof. intros x y z. rewrite !py_eq_iff. intros [H1 H2] [H3 H4]. split; congruence. Qed.

Lemma py_eq_refl x : nanlike x = false -> py_eq x x = true.
Proof. intro H. apply py_eq_iff. split; [exact H | reflexivity]. Qed.

Lemma py_eq_not_nan_l x y : py_eq x y = true -> nanlike x = false.
Proof. intro H. apply py_eq_iff in H. tauto. Qed.

Lemma py_eq_not_nan_r x y : py_eq x y = true -> nanlike y = false.
Proof. intro H. apply py_eq_imp_sym in H. eapply py_eq_not_nan_l; eauto. Qed.

Lemma py_eq_nan_l x y : nanlike x = true -> py_eq x y = false.
Proof. intro H. unfold py_eq. rewrite H. reflexivity. Qed.

Lemma py_eq_nan_r x y : nanlike y = true -> py_eq x y = false.
Proof.
  intro H. destruct (py_eq x y) eqn:E; [|reflexivity]. apply py_eq_not_nan_r in E. congruence.
Qed.

Lemma cell_eq_sym sk : bsym (cell_eq sk).
Proof.
  intros x y. unfold cell_eq. rewrite (py_eq_sym x y).
  destruct sk, (nanlike x), (nanlike y); reflexivity.
Qed.

Lemma cell_eq_trans sk : btrans (cell_eq sk).
Proof.
  intros x y z. unfold cell_eq. intros E1 E2.
  apply orb_true_iff in E1 as [E1|E1]; apply orb_true_iff in E2 as [E2|E2].
  - rewrite (py_eq_trans _ _ _ E1 E2). reflexivity.
  - apply py_eq_not_nan_r in E1. destruct sk; cbn in E2; [|discriminate].
    rewrite E1 in E2. discriminate.
  - apply py_eq_not_nan_l in E2. destruct sk; cbn in E1; [|discriminate].
    rewrite E2 in E1. rewrite andb_false_r in E1. discriminate.
  - destruct sk; cbn in *; [|discriminate].
    apply andb_true_iff in E1 as [E1 _]. apply andb_true_iff in E2 as [_ E2].
    rewrite E1, E2. apply orb_true_r.
Qed.

Lemma cell_eq_refl sk x : sk = true \/ nanlike x = false -> cell_eq sk x x = true.
Proof.
  unfold cell_eq. intros [->|H].
  - destruct (nanlike x) eqn:E; cbn; [apply orb_true_r | rewrite (py_eq_refl x E); reflexivity].
  - rewrite (py_eq_refl x H). reflexivity.
Qed.

(* ------------------------------------------------------------------ indexes *)
Lemma S_index_content_sym o : bsym (S_index_content o).
Proof.
  unfold S_index_content, labels_eq.
  repeat apply and_sym.
  - apply (proj_sym ei_labels). apply list_eqb_sym. apply cell_eq_sym.
  - apply (req_sym (o_name o) (fun x y => py_eq (ei_name x) (ei_name y))). apply (proj_sym ei_name). apply py_eq_sym.
  - apply (req_sym (o_dtype o) (fun x y => dtype_eqb (ei_dtype x) (ei_dtype y))). apply (proj_sym ei_dtype). apply dtype_eqb_sym.
  - apply (req_sym (o_class o) (fun x y => ei_cls x =? ei_cls y)). apply (proj_sym ei_cls). apply Zeqb_sym.
Qed.

Lemma S_index_content_trans o : btrans (S_index_content o).
Proof.
  unfold S_index_content, labels_eq.
  repeat apply and_trans.
  - apply (proj_trans ei_labels). apply list_eqb_trans. apply cell_eq_trans.
  - apply (req_trans (o_name o) (fun x y => py_eq (ei_name x) (ei_name y))). apply (proj_trans ei_name). apply py_eq_trans.
  - apply (req_trans (o_dtype o) (fun x y => dtype_eqb (ei_dtype x) (ei_dtype y))). apply (proj_trans ei_dtype). apply dtype_eqb_trans.
  - apply (req_trans (o_class o) (fun x y => ei_cls x =? ei_cls y)). apply (proj_trans ei_cls). apply Zeqb_trans.
Qed.

Definition tree_of := eh_tree.
Definition nodes_of (h : ehier) := lvl_nodes (eh_tree h).

Lemma S_hier_content_sym o : bsym (S_hier_content o).
Proof.
  unfold S_hier_content, tuple_eq.
  repeat apply and_sym.
  - apply (proj_sym (fun h => lvl_flat (eh_tree h))). apply list_eqb_sym. apply list_eqb_sym. apply cell_eq_sym.
  - apply (proj_sym hier_depth). apply Zeqb_sym.
  - apply (req_sym (o_name o) (fun a b => py_eq (eh_name a) (eh_name b) &&
        list_eqb py_eq (map ei_name (lvl_nodes (eh_tree a))) (map ei_name (lvl_nodes (eh_tree b))))).
    apply and_sym.
    + apply (proj_sym eh_name). apply py_eq_sym.
    + apply (proj_sym (fun h => map ei_name (lvl_nodes (eh_tree h)))). apply list_eqb_sym. apply py_eq_sym.
  - apply (req_sym (o_dtype o) (fun a b =>
        list_eqb dtype_eqb (map ei_dtype (lvl_nodes (eh_tree a))) (map ei_dtype (lvl_nodes (eh_tree b))))).
    apply (proj_sym (fun h => map ei_dtype (lvl_nodes (eh_tree h)))). apply list_eqb_sym. apply dtype_eqb_sym.
  - apply (req_sym (o_class o) (fun a b => (eh_cls a =? eh_cls b) &&
        list_eqb Z.eqb (map ei_cls (lvl_nodes (eh_tree a))) (map ei_cls (lvl_nodes (eh_tree b))))).
    apply and_sym.
    + apply (proj_sym eh_cls). apply Zeqb_sym.
    + apply (proj_sym (fun h => map ei_cls (lvl_nodes (eh_tree h)))). apply list_eqb_sym. apply Zeqb_sym.
Qed.

Lemma S_hier_content_trans o : btrans (S_hier_content o).
Proof.
  unfold S_hier_content, tuple_eq.
  repeat apply and_trans.
  - apply (proj_trans (fun h => lvl_flat (eh_tree h))). apply list_eqb_trans. apply list_eqb_trans. apply cell_eq_trans.
  - apply (proj_trans hier_depth). apply Zeqb_trans.
  - apply (req_trans (o_name o) (fun a b => py_eq (eh_name a) (eh_name b) &&
        list_eqb py_eq (map ei_name (lvl_nodes (eh_tree a))) (map ei_name (lvl_nodes (eh_tree b))))).
    apply and_trans.
    + apply (proj_trans eh_name). apply py_eq_trans.
    + apply (proj_trans (fun h => map ei_name (lvl_nodes (eh_tree h)))). apply list_eqb_trans. apply py_eq_trans.
  - apply (req_trans (o_dtype o) (fun a b =>
        list_eqb dtype_eqb (map ei_dtype (lvl_nodes (eh_tree a))) (map ei_dtype (lvl_nodes (eh_tree b))))).
    apply (proj_trans (fun h => map ei_dtype (lvl_nodes (eh_tree h)))). apply list_eqb_trans. apply dtype_eqb_trans.
  - apply (req_trans (o_class o) (fun a b => (eh_cls a =? eh_cls b) &&
        list_eqb Z.eqb (map ei_cls (lvl_nodes (eh_tree a))) (map ei_cls (lvl_nodes (eh_tree b))))).
    apply and_trans.
    + apply (proj_trans eh_cls). apply Zeqb_trans.
    + apply (proj_trans (fun h => map ei_cls (lvl_nodes (eh_tree h)))). apply list_eqb_trans. apply Zeqb_trans.
Qed.

Lemma S_axis_content_sym o : bsym (S_axis_content o).
Proof.
  intros [x|x] [y|y]; cbn; try reflexivity; [apply S_index_content_sym | apply S_hier_content_sym].
Qed.

Lemma S_axis_content_trans o : btrans (S_axis_content o).
Proof.
  intros [x|x] [y|y] [z|z]; cbn; intros E1 E2; try discriminate;
    [eapply S_index_content_trans | eapply S_hier_content_trans]; eauto.
Qed.

(* ------------------------------------------------------------------ tables *)
Lemma col_eq_sym sk : bsym (col_eq sk).
Proof. unfold col_eq. apply (proj_sym snd). apply list_eqb_sym. apply cell_eq_sym. Qed.

Lemma col_eq_trans sk : btrans (col_eq sk).
Proof. unfold col_eq. apply (proj_trans snd). apply list_eqb_trans. apply cell_eq_trans. Qed.

Lemma S_cols_content_sym o ra a rb b : S_cols_content o ra a rb b = S_cols_content o rb b ra a.
Proof.
  unfold S_cols_content.
  rewrite (Z.eqb_sym ra rb), (Z.eqb_sym (Z.of_nat (length a))), (list_eqb_sym _ (col_eq_sym (o_skipna o)) a b),
    (list_eqb_sym _ dtype_eqb_sym (map fst a) (map fst b)). reflexivity.
Qed.

Lemma S_cols_content_trans o ra a rb b rc c :
  S_cols_content o ra a rb b = true -> S_cols_content o rb b rc c = true -> S_cols_content o ra a rc c = true.
Proof.
  unfold S_cols_content. intros E1 E2.
  repeat (apply andb_true_iff in E1 as [E1 ?]). repeat (apply andb_true_iff in E2 as [E2 ?]).
  repeat (apply andb_true_iff; split).
  - eapply Zeqb_trans; eauto.
  - eapply Zeqb_trans; eauto.
  - eapply (list_eqb_trans _ (col_eq_trans (o_skipna o))); eauto.
  - revert H H2. unfold opt_req. destruct (o_dtype o); cbn; [|reflexivity].
    intros. eapply (list_eqb_trans _ dtype_eqb_trans); eauto.
Qed.

Lemma S_tb_content_sym o : bsym (S_tb_content o).
Proof. intros a b. apply S_cols_content_sym. Qed.

Lemma S_tb_content_trans o : btrans (S_tb_content o).
Proof. intros a b c. apply S_cols_content_trans. Qed.

(* ------------------------------------------------------------------ series, frame, bus *)
Lemma S_series_content_sym o : bsym (S_series_content o).
Proof.
  unfold S_series_content.
  repeat apply and_sym.
  - apply (proj_sym es_values). apply list_eqb_sym. apply cell_eq_sym.
  - apply (proj_sym es_index). apply S_axis_content_sym.
  - apply (req_sym (o_name o) (fun x y => py_eq (es_name x) (es_name y))). apply (proj_sym es_name). apply py_eq_sym.
  - apply (req_sym (o_dtype o) (fun x y => dtype_eqb (es_dtype x) (es_dtype y))). apply (proj_sym es_dtype). apply dtype_eqb_sym.
  - apply (req_sym (o_class o) (fun x y => es_cls x =? es_cls y)). apply (proj_sym es_cls). apply Zeqb_sym.
Qed.

Lemma S_series_content_trans o : btrans (S_series_content o).
Proof.
  unfold S_series_content.
  repeat apply and_trans.
  - apply (proj_trans es_values). apply list_eqb_trans. apply cell_eq_trans.
  - apply (proj_trans es_index). apply S_axis_content_trans.
  - apply (req_trans (o_name o) (fun x y => py_eq (es_name x) (es_name y))). apply (proj_trans es_name). apply py_eq_trans.
  - apply (req_trans (o_dtype o) (fun x y => dtype_eqb (es_dtype x) (es_dtype y))). apply (proj_trans es_dtype). apply dtype_eqb_trans.
  - apply (req_trans (o_class o) (fun x y => es_cls x =? es_cls y)). apply (proj_trans es_cls). apply Zeqb_trans.
Qed.

Lemma S_frame_content_sym o : bsym (S_frame_content o).
Proof.
  unfold S_frame_content.
  apply and_sym; [apply and_sym; [apply and_sym; [apply and_sym|]|]|].
  - apply (proj_sym ef_blocks). apply S_tb_content_sym.
  - apply (proj_sym ef_index). apply S_axis_content_sym.
  - apply (proj_sym ef_columns). apply S_axis_content_sym.
  - apply (req_sym (o_name o) (fun x y => py_eq (ef_name x) (ef_name y))). apply (proj_sym ef_name). apply py_eq_sym.
  - apply (req_sym (o_class o) (fun x y => ef_cls x =? ef_cls y)). apply (proj_sym ef_cls). apply Zeqb_sym.
Qed.

Lemma S_frame_content_trans o : btrans (S_frame_content o).
Proof.
  unfold S_frame_content.
  apply and_trans; [apply and_trans; [apply and_trans; [apply and_trans|]|]|].
  - apply (proj_trans ef_blocks). apply S_tb_content_trans.
  - apply (proj_trans ef_index). apply S_axis_content_trans.
  - apply (proj_trans ef_columns). apply S_axis_content_trans.
  - apply (req_trans (o_name o) (fun x y => py_eq (ef_name x) (ef_name y))). apply (proj_trans ef_name). apply py_eq_trans.
  - apply (req_trans (o_class o) (fun x y => ef_cls x =? ef_cls y)). apply (proj_trans ef_cls). apply Zeqb_trans.
Qed.

Lemma S_bus_content_sym o : bsym (S_bus_content o).
Proof.
  unfold S_bus_content.
  apply and_sym; [apply and_sym; [apply and_sym|]|].
  - apply (proj_sym eb_index). apply S_axis_content_sym.
  - apply (proj_sym eb_frames). apply list_eqb_sym. apply S_frame_content_sym.
  - apply (req_sym (o_name o) (fun x y => py_eq (eb_name x) (eb_name y))). apply (proj_sym eb_name). apply py_eq_sym.
  - apply (req_sym (o_class o) (fun x y => eb_cls x =? eb_cls y)). apply (proj_sym eb_cls). apply Zeqb_sym.
Qed.

Lemma S_bus_content_trans o : btrans (S_bus_content o).
Proof.
  unfold S_bus_content.
  apply and_trans; [apply and_trans; [apply and_trans|]|].
  - apply (proj_trans eb_index). apply S_axis_content_trans.
  - apply (proj_trans eb_frames). apply list_eqb_trans. apply S_frame_content_trans.
  - apply (req_trans (o_name o) (fun x y => py_eq (eb_name x) (eb_name y))). apply (proj_trans eb_name). apply py_eq_trans.
  - apply (req_trans (o_class o) (fun x y => eb_cls x =? eb_cls y)). apply (proj_trans eb_cls). apply Zeqb_trans.
Qed.

(* with the identity shortcut *)
Lemma S_frame_equals_sym o : bsym (S_frame_equals o).
Proof. intros a b. unfold S_frame_equals. rewrite (Z.eqb_sym (ef_oid a)), (S_frame_content_sym o a b). reflexivity. Qed.

Lemma S_series_equals_sym o : bsym (S_series_equals o).
Proof. intros a b. unfold S_series_equals. rewrite (Z.eqb_sym (es_oid a)), (S_series_content_sym o a b). reflexivity. Qed.

Lemma S_index_equals_sym o : bsym (S_index_equals o).
Proof. intros a b. unfold S_index_equals. rewrite (Z.eqb_sym (ei_oid a)), (S_index_content_sym o a b). reflexivity. Qed.

Lemma S_hier_equals_sym o : bsym (S_hier_equals o).
Proof. intros a b. unfold S_hier_equals. rewrite (Z.eqb_sym (eh_oid a)), (S_hier_content_sym o a b). reflexivity. Qed.

Lemma S_bus_equals_sym o : bsym (S_bus_equals o).
Proof.
  intros a b. unfold S_bus_equals.
  rewrite (Z.eqb_sym (eb_oid a)), (S_axis_content_sym o (eb_index a)), (list_eqb_sym _ (S_frame_equals_sym o) (eb_frames a)),
    (py_eq_sym (eb_name a)), (Z.eqb_sym (eb_cls a)). reflexivity.
Qed.
