(* C17 -- REFINEMENT: on its domain the implementation model of Bus answers every history exactly like the
   specification (eager map + abstract LRU cache). *)
Require Import SF.Prelude SF.PySlice SF.BusSpec SF.Bus Gen.Gen_c17.
Require Import Proofs.BusSpecFacts Proofs.BusResolve Proofs.BusSpecInv Proofs.BusListFacts Proofs.BusCache Proofs.BusRel
               Proofs.BusLoop Proofs.BusUpdate Proofs.BusDerive Proofs.BusSelect Proofs.BusValues.

Section Refine.
Variables L F : Type.
Variable leqb : L -> L -> bool.
Variable lleb : L -> L -> bool.
Variable fkey : F -> Z.
Hypothesis leqb_spec : forall x y, leqb x y = true <-> x = y.

Notation store := (store L F).
Notation mbus := (mbus L F).
Notation sbus := (sbus L).
Notation mem := (mem L leqb).
Notation find_idx := (find_idx L leqb).
Notation eager := (eager L F leqb).
Notation s_coherent := (s_coherent L F).
Notation m_coherent := (m_coherent L F).
Notation isld := (isld L leqb).
Notation slot_of := (slot_of L F leqb).
Notation labels_at := (labels_at L).
Notation resolve := (resolve L leqb).
Notation Rel := (Rel L F leqb).
Notation s_derive := (s_derive L leqb).
Notation mode_ok := (mode_ok L F leqb).
Notation store_ok := (store_ok L F).
Notation m_step := (m_step L F leqb lleb fkey).
Notation s_step := (s_step L F leqb lleb fkey).
Notation m_run := (m_run L F leqb lleb fkey).
Notation s_run := (s_run L F leqb lleb fkey).

Lemma combine_fst {A B} (a : list A) (b : list B) : length b = length a -> map fst (combine a b) = a.
Proof. revert b. induction a as [|x r IH]; intros [|y s] H; cbn in *; try lia; try discriminate; [reflexivity|]. f_equal. apply IH. lia. Qed.

Lemma combine_slot_of labels (slots : list (option F)) : NoDup labels -> length slots = length labels ->
  Forall (fun p => snd p = slot_of labels slots (fst p)) (combine labels slots).
Proof.
  intros N H. rewrite (slots_as_map L F leqb leqb_spec labels slots N H) at 1.
  apply Forall_forall. intros [l s] I. cbn.
  assert (forall (g : L -> option F) ls, In (l, s) (combine ls (map g ls)) -> s = g l) as Hg.
  { intros g ls. induction ls as [|x r IH]; cbn; [contradiction|]. intros [E|I']; [injection E as <- <-; reflexivity | auto]. }
  apply (Hg _ _ I).
Qed.

Lemma map_snd_of_Forall {A} (g : A -> option F) (l : list (A * option F)) :
  Forall (fun p => snd p = g (fst p)) l -> map snd l = map g (map fst l).
Proof. induction 1 as [|p r Hp Hr IH]; cbn; [reflexivity|]. rewrite Hp, IH. reflexivity. Qed.

Lemma find_all_spec ls labels (slots : list (option F)) : NoDup labels -> length slots = length labels ->
  (forallb (fun l => mem l labels) ls = true ->
     exists ps, find_all L leqb ls labels = Some ps /\ slots_at F slots ps = map (slot_of labels slots) ls) /\
  (forallb (fun l => mem l labels) ls = false -> find_all L leqb ls labels = None).
Proof.
  intros N H. induction ls as [|l r [IH1 IH2]]; cbn.
  - split; [intros _; exists []; auto | discriminate].
  - destruct (mem l labels) eqn:Q; cbn.
    + apply (mem_In L leqb leqb_spec) in Q. destruct (find_idx_In L leqb leqb_spec l labels Q) as [i Fi]. rewrite Fi.
      split.
      * intro Hr. destruct (IH1 Hr) as (ps & E1 & E2). rewrite E1. exists (i :: ps). split; [reflexivity|].
        unfold Bus.slots_at in *. cbn. rewrite E2. f_equal.
        unfold BusRel.slot_of. rewrite Fi.
        destruct (nth_error slots i) as [s|] eqn:E; [reflexivity|].
        apply nth_error_None in E. apply (find_idx_lt L leqb leqb_spec) in Fi. lia.
      * intro Hr. rewrite (IH2 Hr). reflexivity.
    + apply (mem_false L leqb leqb_spec) in Q. rewrite (proj2 (find_idx_None L leqb leqb_spec l labels) Q).
      split; [discriminate | reflexivity].
Qed.

(* a file event changes nothing in the Bus; since the LRU dict never holds a label that is not loaded (repaired, commit
   dee625c), the relation survives the file coming back as well *)
Lemma rel_file st m s f : Rel st m s ->
  Rel (mk_store L F (st_content L F st) (st_recorded L F st) f) m s.
Proof. intros [R1 R2 R3 R4 R5 R6 R7 R8 R9 R10 R11]. constructor; auto. Qed.

(* one operation *)
Theorem step_sim st m s o :
  Rel st m s -> store_ok st ->
  let '(x, st1, m', _) := m_step st m o in
  let '(y, st2, s') := s_step st s o in
  x = y /\ st1 = st2 /\ Rel st1 m' s' /\ store_ok st1 /\ mb_mp L F m' = mb_mp L F m /\ st_content L F st1 = st_content L F st.
Proof.
  intros R Sok. pose proof (mode_ok_always L F leqb st (mb_mp L F m)) as Mok.
  destruct repairs_in_place as (_ & _ & Fget & Fiter & Fitems & Fsort).
  pose proof (R_labels _ _ _ _ _ _ R) as El. pose proof (R_nodup _ _ _ _ _ _ R) as Nl. pose proof (R_len _ _ _ _ _ _ R) as Hlen.
  destruct o as [k into| | | | |l| | |k into|ls into|asc into|asc into|f]; cbn [Bus.m_step BusSpec.s_step].
  - (* OSel *)
    pose proof (select_sim L F leqb leqb_spec st m s k into R Sok Mok) as H.
    destruct (m_select L F leqb st m k into) as [[x m'] lg]. destruct (s_select L F leqb st s k into) as [y s'].
    destruct H as (H1 & H2 & H3). auto 10.
  - (* OItems *)
    pose proof (values_sim L F leqb leqb_spec st m s R Sok Mok) as H.
    destruct (m_values L F leqb st m) as [[[e vs] m'] lg]. destruct (s_all L F leqb st s) as [ok s'].
    destruct H as (H1 & H2 & H3 & H4 & H5 & _). subst e. rewrite <- El.
    destruct ok; [|auto 10]. rewrite (H2 eq_refl).
    split; [|auto 10]. f_equal. clear. induction (mb_labels L F m) as [|x r IH]; cbn; [reflexivity | f_equal; exact IH].
  - (* OValues *)
    pose proof (values_sim L F leqb leqb_spec st m s R Sok Mok) as H.
    destruct (m_values L F leqb st m) as [[[e vs] m'] lg]. destruct (s_all L F leqb st s) as [ok s'].
    destruct H as (H1 & H2 & H3 & H4 & H5 & _). subst e. rewrite <- El.
    destruct ok; [|auto 10]. rewrite (H2 eq_refl). auto 10.
  - (* OKeys *) rewrite El. auto 10.
  - (* OStatus *) rewrite <- (rel_flags L F leqb leqb_spec st m s R). auto 10.
  - (* OGet: through _extract_loc (repaired, commit 5b16856) -- the ordinary selection *)
    rewrite <- El.
    destruct (mem l (mb_labels L F m)) eqn:Q.
    + apply (mem_In L leqb leqb_spec) in Q.
      destruct (find_idx_In L leqb leqb_spec l _ Q) as [i Fi]. rewrite Fi, Fget.
      pose proof (select_sim L F leqb leqb_spec st m s (KLabel L l) false R Sok Mok) as H.
      destruct (m_select L F leqb st m (KLabel L l) false) as [[x m'] lg].
      destruct (s_select L F leqb st s (KLabel L l) false) as [y s'].
      destruct H as (H1 & H2 & H3). auto 10.
    + apply (mem_false L leqb leqb_spec) in Q. rewrite (proj2 (find_idx_None L leqb leqb_spec l _) Q). auto 10.
  - (* OIterElem: through self.values (repaired, commit 949c364) *)
    rewrite Fiter.
    pose proof (values_sim L F leqb leqb_spec st m s R Sok Mok) as H.
    destruct (m_values L F leqb st m) as [[[e vs] m'] lg]. destruct (s_all L F leqb st s) as [ok s'].
    destruct H as (H1 & H2 & H3 & H4 & H5 & _). subst e. rewrite <- El.
    destruct ok; [|auto 10]. rewrite (H2 eq_refl). auto 10.
  - (* OIterItems: through self.items() (repaired, commit 949c364) *)
    rewrite Fitems.
    pose proof (values_sim L F leqb leqb_spec st m s R Sok Mok) as H.
    destruct (m_values L F leqb st m) as [[[e vs] m'] lg]. destruct (s_all L F leqb st s) as [ok s'].
    destruct H as (H1 & H2 & H3 & H4 & H5 & _). subst e. rewrite <- El.
    destruct ok; [|auto 10]. rewrite (H2 eq_refl).
    split; [|auto 10]. f_equal. clear. induction (mb_labels L F m) as [|x r IH]; cbn; [reflexivity | f_equal; exact IH].
  - (* ODrop *)
    rewrite <- El. destruct (resolve (mb_labels L F m) k) as [[single ps]|e] eqn:Res; [|auto 10].
    pose proof (complement_ok (length (mb_labels L F m)) ps) as [Nc Fc].
    set (keep := complement (length (mb_labels L F m)) ps) in *.
    set (ls' := labels_at (mb_labels L F m) keep).
    destruct (bus_result_sim L F leqb leqb_spec st m s ls' (slots_at F (mb_slots L F m) keep) into R) as (B1 & B2 & B3).
    { apply labels_at_NoDup; assumption. } { apply labels_at_incl. }
    { apply (slots_at_map L F leqb leqb_spec); assumption. }
    destruct (m_bus_result L F m ls' _ into) as [x m']. destruct (s_bus_result L F leqb s (s_derive s ls') into) as [y s'].
    cbn [fst snd] in *. auto 10.
  - (* OReindex *)
    rewrite <- El. destruct (has_dup L leqb ls) eqn:D; [auto 10|].
    destruct (find_all_spec ls (mb_labels L F m) (mb_slots L F m) Nl Hlen) as [Fa1 Fa2].
    destruct (forallb (fun l => mem l (mb_labels L F m)) ls) eqn:Fb; cbn [negb].
    + destruct (Fa1 eq_refl) as (ps & E1 & E2). rewrite E1.
      destruct (bus_result_sim L F leqb leqb_spec st m s ls (slots_at F (mb_slots L F m) ps) into R) as (B1 & B2 & B3).
      { apply (has_dup_false L leqb leqb_spec), D. }
      { intros x I. rewrite forallb_forall in Fb. apply (mem_In L leqb leqb_spec), Fb, I. }
      { exact E2. }
      destruct (m_bus_result L F m ls _ into) as [x m']. destruct (s_bus_result L F leqb s (s_derive s ls) into) as [y s'].
      cbn [fst snd] in *. auto 10.
    + rewrite (Fa2 eq_refl). auto 10.
  - (* OSortIndex *)
    rewrite <- El. unfold m_sort_labels.
    set (kv := combine (mb_labels L F m) (mb_slots L F m)).
    set (srt := isort (fun x y => lleb (fst x) (fst y)) kv).
    assert (Efst : map fst (if asc then srt else rev srt) = sort_labels L lleb asc (mb_labels L F m)).
    { assert (map fst srt = isort lleb (mb_labels L F m)) as E0.
      { unfold srt. rewrite <- (isort_map fst (fun x y => lleb (fst x) (fst y)) lleb) by reflexivity.
        unfold kv. rewrite combine_fst by exact Hlen. reflexivity. }
      unfold sort_labels. destruct asc; [exact E0 | rewrite map_rev, E0; reflexivity]. }
    assert (Fs : Forall (fun p => snd p = slot_of (mb_labels L F m) (mb_slots L F m) (fst p)) (if asc then srt else rev srt)).
    { assert (Forall (fun p => snd p = slot_of (mb_labels L F m) (mb_slots L F m) (fst p)) srt)
        by (apply isort_Forall, combine_slot_of; assumption).
      destruct asc; [assumption | apply Forall_rev'; assumption]. }
    rewrite (map_snd_of_Forall _ _ Fs), Efst.
    set (ls' := sort_labels L lleb asc (mb_labels L F m)).
    destruct (bus_result_sim L F leqb leqb_spec st m s ls' (map (slot_of (mb_labels L F m) (mb_slots L F m)) ls') into R) as (B1 & B2 & B3).
    { apply sort_labels_NoDup, Nl. }
    { intros x I. unfold ls', sort_labels in I.
      assert (Permutation (isort lleb (mb_labels L F m)) (mb_labels L F m)) as P by apply isort_perm.
      destruct asc; [|apply in_rev in I]; eapply Permutation_in; eauto. }
    { reflexivity. }
    destruct (m_bus_result L F m ls' _ into) as [x m']. destruct (s_bus_result L F leqb s (s_derive s ls') into) as [y s'].
    cbn [fst snd] in *. auto 10.
  - (* OSortValues: the Bus's own Series reindexed in the sorted order (repaired, commit 615b06f): any max_persist *)
    pose proof (values_sim L F leqb leqb_spec st m s R Sok Mok) as H.
    destruct (m_values L F leqb st m) as [[[e vs] m1] lg]. destruct (s_all L F leqb st s) as [ok s1] eqn:Eall.
    destruct H as (H1 & H2 & R1 & El1 & Emp1 & _). subst e.
    destruct ok; cbn [negb]; [|auto 10].
    specialize (H2 eq_refl). rewrite Fsort.
    rewrite <- El.
    set (labels := mb_labels L F m) in *.
    set (kvM := map (fun x : L * option F => (x, match snd x with Some f => fkey f | None => 0 end)) (combine labels vs)).
    set (h := fun p : (L * option F) * Z => (fst (fst p), snd p)).
    assert (EkvS : map (fun l => (l, match eager st l with Some f => fkey f | None => 0 end)) labels = map h kvM).
    { unfold kvM. rewrite map_map. rewrite H2. clear. unfold h. cbn.
      induction labels as [|x r IH]; cbn; [reflexivity | f_equal; exact IH]. }
    assert (Hsort : isort (fun (a0 b : L * Z) => snd a0 <=? snd b) (map h kvM)
                    = map h (isort (fun (a0 b : (L * option F) * Z) => snd a0 <=? snd b) kvM))
      by (apply isort_map; reflexivity).
    assert (Efst : map fst (sort_by_key asc kvM)
                   = sort_by_key asc (map (fun l => (l, match eager st l with Some f => fkey f | None => 0 end)) labels)).
    { unfold sort_by_key. rewrite EkvS, Hsort.
      destruct asc; [|rewrite <- map_rev]; rewrite !map_map; reflexivity. }
    rewrite Efst.
    remember (sort_by_key asc (map (fun l => (l, match eager st l with Some f => fkey f | None => 0 end)) labels)) as ls' eqn:Els'.
    assert (Hperm : Permutation ls' labels).
    { rewrite Els', sort_by_key_perm, map_map. cbn. rewrite map_id. reflexivity. }
    assert (Nls : NoDup ls') by (eapply Permutation_NoDup; [symmetry; exact Hperm | exact Nl]).
    assert (Incl : incl ls' (mb_labels L F m1)) by (intros x I; rewrite El1; eapply Permutation_in; eassumption).
    destruct (bus_result_sim L F leqb leqb_spec st m1 s1 ls' (map (slot_of (mb_labels L F m1) (mb_slots L F m1)) ls') into R1 Nls Incl eq_refl)
      as (B1 & B2 & B3).
    destruct (find_all_spec ls' (mb_labels L F m1) (mb_slots L F m1) (R_nodup _ _ _ _ _ _ R1) (R_len _ _ _ _ _ _ R1)) as [Fa1 _].
    destruct Fa1 as (ps & E1 & E2).
    { apply forallb_forall. intros x I. apply (mem_In L leqb leqb_spec), Incl, I. }
    rewrite E1, E2.
    destruct (m_bus_result L F m1 ls' _ into) as [x m']. unfold s_bus_result in *. cbn [fst snd] in *.
    split; [exact B1|]. split; [reflexivity|]. split; [exact B2|]. split; [exact Sok|]. split; [congruence | reflexivity].
  - (* OFile: touched, rewritten, removed -- or put back *)
    split; [reflexivity|]. split; [reflexivity|]. split; [apply rel_file; assumption|].
    split; [destruct Sok as [r Er]; exists r; exact Er | auto].
Qed.

(* every history *)
Theorem run_sim ops : forall st m s,
  Rel st m s -> store_ok st -> m_run st m ops = s_run st s ops.
Proof.
  induction ops as [|o r IH]; intros st m s R Sok; cbn [Bus.m_run BusSpec.s_run]; [reflexivity|].
  pose proof (step_sim st m s o R Sok) as H.
  destruct (m_step st m o) as [[[x st1] m'] lg]. destruct (s_step st s o) as [[y st2] s'].
  destruct H as (-> & <- & R' & Sok' & Emp & Ec).
  rewrite (rel_flags L F leqb leqb_spec st1 m' s' R'). f_equal.
  apply IH; assumption.
Qed.

Lemma assoc_In_fst {B} l (kv : list (L * B)) : In l (map fst kv) -> exists v, BusSpec.assoc L leqb l kv = Some v.
Proof.
  induction kv as [|[k v] r IH]; cbn; [contradiction|].
  intros [->|I]; [rewrite (proj2 (leqb_spec l l) eq_refl); eauto|].
  destruct (leqb k l); [eauto | apply IH, I].
Qed.

Lemma slot_of_nones labels l : slot_of labels (map (fun _ => None) labels) l = None.
Proof.
  unfold BusRel.slot_of. destruct (find_idx l labels) as [i|]; [|reflexivity].
  rewrite nth_error_map. destruct (nth_error labels i); reflexivity.
Qed.

Lemma loaded_labels_nones labels : loaded_labels L F labels (map (fun _ => None) labels) = [].
Proof. induction labels as [|x r IH]; cbn; auto. Qed.

Lemma count_true_nones (labels : list L) : count_true (map is_some (map (fun _ : L => @None F) labels)) = 0.
Proof. unfold count_true. induction labels as [|x r IH]; cbn; auto. Qed.

(* Bus._from_store: nothing loaded *)
Lemma open_rel (st : store) mp :
  NoDup (map fst (st_content L F st)) -> (forall k, mp = Some k -> 1 <= k) ->
  exists m0, m_open L F st mp = Ok m0 /\ Rel st m0 (s_open L F st mp) /\ mb_mp L F m0 = mp.
Proof.
  intros N K. unfold m_open, m_init. set (labels := map fst (st_content L F st)) in *.
  rewrite count_true_nones.
  assert ((match mp with Some k => k <? 0 | None => false end) = false) as ->.
  { destruct mp as [k|]; [|reflexivity]. specialize (K k eq_refl). lia. }
  eexists. split; [reflexivity|]. split; [|reflexivity].
  assert (Hisld : forall l, isld labels (map is_some (map (fun _ : L => @None F) labels)) l = false).
  { intro l. rewrite (isld_slot_of L F leqb), slot_of_nones. reflexivity. }
  constructor; cbn [mb_labels mb_slots mb_loaded mb_loaded_all mb_la mb_mp sb_labels sb_cache sb_mp s_open].
  - reflexivity.
  - reflexivity.
  - exact N.
  - apply map_length.
  - reflexivity.
  - reflexivity.
  - intros l f E. rewrite slot_of_nones in E. discriminate.
  - intros l I. destruct (assoc_In_fst l _ I) as [[f fd] E]. eauto.
  - split; [constructor|]. destruct mp as [k|]; [|exact I]. specialize (K k eq_refl). cbn. lia.
  - intro l. rewrite Hisld. split; [contradiction | discriminate].
  - intros k E. rewrite E, loaded_labels_nones. split; [constructor|]. split; [reflexivity | intros l []].
Qed.

(* REFINEMENT over EVERY history *)
Theorem bus_refines_spec (st : store) mp ops r :
  NoDup (map fst (st_content L F st)) -> st_recorded L F st = Some r ->
  (forall k, mp = Some k -> 1 <= k) ->
  exists m0, m_open L F st mp = Ok m0 /\ m_run st m0 ops = s_run st (s_open L F st mp) ops.
Proof.
  intros N Er K. destruct (open_rel st mp N K) as (m0 & E & R & Emp).
  exists m0. split; [exact E|]. apply run_sim; [exact R | exists r; exact Er].
Qed.

End Refine.
