(* C11 -- labels: the aligned axis computed by index_many_set / ufunc_set_iter (with its
   order-preserving shortcuts) is a duplicate-free arrangement of exactly the union / intersection;
   reindexing through the blocks (resize_blocks, all three column paths / the row path) is
   alignment by label, for every block layout. *)
Require Import SF.Prelude SF.Dtype SF.Blocks SF.Concat.
Require Import Proofs.ConcatVstack.

Section Align.
Context {L A : Type}.
Variable leqb : L -> L -> bool.
Variable lleb : L -> L -> bool.
Variable cast : dtype -> A -> A.
Variable resolve : dtype -> dtype -> dtype.
Hypothesis leqb_spec : forall a b, leqb a b = true <-> a = b.

Notation lmem := (lmem leqb).
Notation find_pos := (find_pos leqb).
Notation nodupb := (nodupb leqb).
Notation dedup := (dedup leqb).
Notation labels_eqb := (labels_eqb leqb).

(* ------------------------------------------------------------------ basic label facts *)
Lemma lmem_In x l : lmem x l = true <-> In x l.
Proof.
  unfold Concat.lmem. rewrite existsb_exists. split.
  - intros (y & Hy & E). apply leqb_spec in E. subst. exact Hy.
  - intro H. exists x. split; [exact H|]. apply leqb_spec. reflexivity.
Qed.

Lemma lmem_false x l : lmem x l = false <-> ~ In x l.
Proof. rewrite <- lmem_In. destruct (lmem x l); split; congruence. Qed.

Lemma nodupb_NoDup l : nodupb l = true <-> NoDup l.
Proof.
  induction l as [|x l IH]; cbn.
  - split; [constructor|reflexivity].
  - rewrite andb_true_iff, negb_true_iff, lmem_false, IH. split.
    + intros [H1 H2]. constructor; assumption.
    + intro H. inversion H. split; assumption.
Qed.

Lemma labels_eqb_eq a b : labels_eqb a b = true <-> a = b.
Proof. apply list_eqb_eq. exact leqb_spec. Qed.

Lemma find_pos_Some x l i : find_pos x l = Some i -> nth_error l i = Some x.
Proof.
  revert i. induction l as [|y l IH]; intros i H; cbn in H; [discriminate|].
  destruct (leqb x y) eqn:E.
  - injection H as <-. apply leqb_spec in E. subst. reflexivity.
  - destruct (find_pos x l) as [k|] eqn:F; [|discriminate]. injection H as <-. cbn. apply IH. reflexivity.
Qed.

Lemma find_pos_In x l : In x l -> exists i, find_pos x l = Some i.
Proof.
  induction l as [|y l IH]; intro H; [destruct H|]. cbn.
  destruct (leqb x y) eqn:E; [eexists; reflexivity|].
  destruct H as [H|H].
  - subst. assert (leqb x x = true) by (apply leqb_spec; reflexivity). congruence.
  - destruct (IH H) as [i Hi]. rewrite Hi. eexists; reflexivity.
Qed.

Lemma find_pos_None x l : find_pos x l = None <-> ~ In x l.
Proof.
  split.
  - intros H Hin. destruct (find_pos_In x l Hin) as [i Hi]. congruence.
  - intro H. destruct (find_pos x l) as [i|] eqn:E; [|reflexivity].
    exfalso. apply H. eapply nth_error_In. apply find_pos_Some. exact E.
Qed.

Lemma find_pos_lt x l i : find_pos x l = Some i -> (i < length l)%nat.
Proof. intro H. apply find_pos_Some in H. apply nth_error_Some. congruence. Qed.

(* in a duplicate-free list the position of the j-th label is j *)
Lemma find_pos_nth l : NoDup l -> forall j x, nth_error l j = Some x -> find_pos x l = Some j.
Proof.
  induction 1 as [|y l Hy Hl IH]; intros j x Hj; [destruct j; discriminate|].
  destruct j as [|j]; cbn in *.
  - injection Hj as ->. assert (E : leqb x x = true) by (apply leqb_spec; reflexivity). rewrite E. reflexivity.
  - destruct (leqb x y) eqn:E.
    + apply leqb_spec in E. subst. exfalso. apply Hy. eapply nth_error_In. exact Hj.
    + rewrite (IH j x Hj). reflexivity.
Qed.

(* ------------------------------------------------------------------ dedup, sorting *)
Lemma dedup_acc_In seen l x : In x (dedup_acc leqb seen l) <-> In x l /\ ~ In x seen.
Proof.
  revert seen. induction l as [|y l IH]; intro seen; cbn.
  - tauto.
  - destruct (lmem y seen) eqn:E.
    + apply lmem_In in E. rewrite IH. split.
      * intros [H1 H2]. tauto.
      * intros [[H|H] H2]; [subst; tauto|tauto].
    + apply lmem_false in E. cbn. rewrite IH. cbn. split.
      * intros [H|[H1 H2]]; [subst; tauto|]. split; [tauto|]. intro. apply H2. tauto.
      * intros [[H|H] H2]; [left; exact H|].
        destruct (leqb y x) eqn:Eyx.
        -- apply leqb_spec in Eyx. left. exact Eyx.
        -- right. split; [exact H|]. intros [H3|H3]; [|tauto]. subst.
           assert (leqb x x = true) by (apply leqb_spec; reflexivity). congruence.
Qed.

Lemma dedup_In l x : In x (dedup l) <-> In x l.
Proof. unfold Concat.dedup. rewrite dedup_acc_In. cbn. tauto. Qed.

Lemma dedup_acc_NoDup seen l : NoDup (dedup_acc leqb seen l).
Proof.
  revert seen. induction l as [|y l IH]; intro seen; cbn; [constructor|].
  destruct (lmem y seen); [apply IH|]. constructor; [|apply IH].
  rewrite dedup_acc_In. cbn. tauto.
Qed.

Lemma dedup_NoDup l : NoDup (dedup l).
Proof. apply dedup_acc_NoDup. Qed.

Lemma insert_label_perm x l : Permutation (insert_label lleb x l) (x :: l).
Proof.
  induction l as [|y l IH]; cbn; [reflexivity|].
  destruct (lleb x y); [reflexivity|]. rewrite IH. apply perm_swap.
Qed.

Lemma sort_labels_perm l : Permutation (sort_labels lleb l) l.
Proof.
  induction l as [|x l IH]; cbn; [reflexivity|]. rewrite insert_label_perm. constructor. exact IH.
Qed.

Lemma perm_In_iff {X} (l l' : list X) x : Permutation l l' -> (In x l <-> In x l').
Proof. intro P. split; apply Permutation_in; [exact P|apply Permutation_sym; exact P]. Qed.

Lemma sort_labels_In l x : In x (sort_labels lleb l) <-> In x l.
Proof. apply perm_In_iff. apply sort_labels_perm. Qed.

Lemma sort_labels_NoDup l : NoDup l -> NoDup (sort_labels lleb l).
Proof. intro H. eapply Permutation_NoDup; [apply Permutation_sym; apply sort_labels_perm|exact H]. Qed.

(* ------------------------------------------------------------------ the set operations *)
Lemma is_nil_true {X} (l : list X) : is_nil l = true <-> l = [].
Proof. destruct l; cbn; split; congruence. Qed.

Lemma set_1d_union_In a b x : In x (M_set_1d leqb lleb true a b) <-> In x a \/ In x b.
Proof.
  unfold M_set_1d. cbn [negb andb].
  destruct (is_nil a) eqn:Ea; cbn [andb orb].
  - apply is_nil_true in Ea. subst. cbn. tauto.
  - destruct (is_nil b) eqn:Eb; cbn [andb].
    + apply is_nil_true in Eb. subst. cbn. tauto.
    + destruct ((length a =? length b)%nat && labels_eqb a b) eqn:E.
      * apply andb_true_iff in E as [_ E]. apply labels_eqb_eq in E. subst. tauto.
      * unfold np_union1d. rewrite sort_labels_In, dedup_In, in_app_iff. tauto.
Qed.

Lemma set_1d_inter_In a b x : In x (M_set_1d leqb lleb false a b) <-> In x a /\ In x b.
Proof.
  unfold M_set_1d. cbn [negb andb].
  destruct (is_nil a || is_nil b) eqn:E0.
  - apply orb_true_iff in E0 as [E|E]; apply is_nil_true in E; subst; cbn; tauto.
  - destruct ((length a =? length b)%nat && labels_eqb a b) eqn:E.
    + apply andb_true_iff in E as [_ E]. apply labels_eqb_eq in E. subst. tauto.
    + unfold np_intersect1d. rewrite sort_labels_In, filter_In, lmem_In. tauto.
Qed.

Lemma set_1d_NoDup u a b : NoDup a -> NoDup b -> NoDup (M_set_1d leqb lleb u a b).
Proof.
  intros Ha Hb. unfold M_set_1d.
  destruct (negb u && (is_nil a || is_nil b)); [constructor|].
  destruct (u && is_nil a); [exact Hb|].
  destruct (u && is_nil b); [exact Ha|].
  destruct ((length a =? length b)%nat && labels_eqb a b); [exact Ha|].
  destruct u.
  - apply sort_labels_NoDup, dedup_NoDup.
  - apply sort_labels_NoDup, NoDup_filter, Ha.
Qed.

Lemma set_fold_union_In rest : forall acc x,
  In x (M_set_fold leqb lleb true acc rest) <-> In x acc \/ exists l, In l rest /\ In x l.
Proof.
  induction rest as [|l r IH]; intros acc x; cbn [M_set_fold negb andb].
  - split; [tauto|]. intros [H|(l & [] & _)]. exact H.
  - rewrite IH, set_1d_union_In. split.
    + intros [[H|H]|(l' & H1 & H2)]; [tauto| right; exists l; cbn; tauto | right; exists l'; cbn; tauto].
    + intros [H|(l' & [H1|H1] & H2)]; [tauto| subst; tauto | right; exists l'; tauto].
Qed.

Lemma set_fold_inter_In rest : forall acc x,
  In x (M_set_fold leqb lleb false acc rest) <-> In x acc /\ forall l, In l rest -> In x l.
Proof.
  induction rest as [|l r IH]; intros acc x; cbn [M_set_fold negb andb].
  - split; [intro H; split; [exact H|intros l []]|tauto].
  - destruct (is_nil (M_set_1d leqb lleb false acc l)) eqn:E.
    + apply is_nil_true in E. pose proof (set_1d_inter_In acc l x) as S1. rewrite E in *. cbn in *. split; [tauto|].
      intros [H1 H2]. apply S1. split; [exact H1|]. apply H2. left. reflexivity.
    + rewrite IH, set_1d_inter_In. split.
      * intros [[H1 H2] H3]. split; [exact H1|]. intros l' [<-|H]; [exact H2|apply H3; exact H].
      * intros [H1 H2]. split; [split; [exact H1|apply H2; left; reflexivity]|]. intros l' H. apply H2. right. exact H.
Qed.

Lemma set_fold_NoDup u rest : forall acc, NoDup acc -> Forall (@NoDup L) rest -> NoDup (M_set_fold leqb lleb u acc rest).
Proof.
  induction rest as [|l r IH]; intros acc Ha Hr; cbn [M_set_fold]; [exact Ha|].
  inversion Hr; subst.
  destruct (negb u && is_nil (M_set_1d leqb lleb u acc l)).
  - apply set_1d_NoDup; assumption.
  - apply IH; [apply set_1d_NoDup; assumption|assumption].
Qed.

Lemma S_union_In ls x : In x (S_union leqb ls) <-> exists l, In l ls /\ In x l.
Proof.
  unfold S_union. rewrite dedup_In, in_concat. split; intros (l & H1 & H2); exists l; tauto.
Qed.

Lemma S_intersection_In ls x : ls <> [] -> (In x (S_intersection leqb ls) <-> forall l, In l ls -> In x l).
Proof.
  destruct ls as [|l r]; [congruence|]. intros _. cbn [S_intersection].
  rewrite filter_In, forallb_forall. split.
  - intros [H1 H2] l' [<-|H]; [exact H1|]. apply lmem_In, H2, H.
  - intro H. split; [apply H; left; reflexivity|]. intros l' Hl. apply lmem_In, H. right. exact Hl.
Qed.

(* THE ALIGNED AXIS: whatever shortcuts fire, index_many_set returns a duplicate-free
   arrangement of exactly the union / intersection of the inputs' labels *)
Theorem index_many_set_spec (union : bool) (ls : list (list L)) :
  Forall (@NoDup L) ls ->
  NoDup (M_index_many_set leqb lleb union ls) /\
  forall x, In x (M_index_many_set leqb lleb union ls) <-> In x (S_aligned leqb union ls).
Proof.
  intro H. destruct ls as [|l r].
  - cbn. split; [constructor|]. intro x. destruct union; cbn; tauto.
  - inversion H as [|? ? Hl0 Hr0]; subst. split; [apply set_fold_NoDup; assumption|].
    intro x. unfold M_index_many_set, S_aligned. destruct union.
    + rewrite set_fold_union_In, S_union_In. split.
      * intros [Hx|(l' & H1 & H2)]; [exists l; cbn; tauto|exists l'; cbn; tauto].
      * intros (l' & [<-|H1] & H2); [tauto|right; exists l'; tauto].
    + rewrite set_fold_inter_In, S_intersection_In by discriminate. split.
      * intros [H1 H2] l' [<-|Hl]; [exact H1|apply H2; exact Hl].
      * intro Hx. split; [apply Hx; left; reflexivity|]. intros l' Hl. apply Hx. right. exact Hl.
Qed.

(* ORDER RETAINED ON IDENTICAL OPERANDS (the point of assume_unique=True in index_many_set): when every
   input carries the same labels in the same order, the aligned axis is that list, untouched -- no sort *)
Lemma set_1d_same u l : M_set_1d leqb lleb u l l = l.
Proof.
  unfold M_set_1d. destruct l as [|x l]; [destruct u; reflexivity|].
  cbn [is_nil orb andb]. rewrite !andb_false_r. cbn [andb].
  rewrite Nat.eqb_refl. assert (E : labels_eqb (x :: l) (x :: l) = true) by (apply labels_eqb_eq; reflexivity).
  rewrite E. reflexivity.
Qed.

Theorem identical_labels_keep_order (union : bool) (l : list L) (n : nat) :
  M_index_many_set leqb lleb union (l :: repeat l n) = l.
Proof.
  unfold M_index_many_set. induction n as [|n IH]; [reflexivity|].
  cbn [repeat M_set_fold]. rewrite set_1d_same.
  destruct (negb union && is_nil l) eqn:E; [reflexivity|exact IH].
Qed.

End Align.
