(* The FIFO lemma: a deque walk over entries of uniform height visits the leaves in depth-first order.
   Generic in the entry type; instantiated for __iter__, the *_at_depth walks and the HLoc resolution. *)
Require Import SF.Prelude SF.Hier.

Section BfsDfs.
  Variables (N R : Type).
  Variable step : N -> list R * list N.
  Variable ht : N -> nat.
  Variable P : N -> Prop.
  Hypothesis H0 : forall x, P x -> ht x = O -> snd (step x) = [].
  Hypothesis HS : forall x h, P x -> ht x = S h ->
                    fst (step x) = [] /\ Forall (fun k => P k /\ ht k = h) (snd (step x)).

  Fixpoint dfs (h : nat) (x : N) : list R :=
    match h with
    | O => fst (step x)
    | S h' => flat_map (dfs h') (snd (step x))
    end.

  Fixpoint cost (h : nat) (x : N) : nat :=
    match h with
    | O => 1
    | S h' => S (list_sum (map (cost h') (snd (step x))))
    end.

  Lemma bfs_leaves : forall q fuel,
    Forall (fun x => P x /\ ht x = O) q -> (length q <= fuel)%nat ->
    bfs step fuel q = Ok (flat_map (dfs O) q).
  Proof.
    induction q as [|x q IH]; intros fuel Hq Hf; [destruct fuel; reflexivity|].
    inversion Hq as [|? ? [Px Hx] Hq']; subst.
    destruct fuel as [|f]; [cbn in Hf; lia|].
    cbn [bfs]. rewrite (H0 x Px Hx), app_nil_r.
    rewrite (IH f Hq') by (cbn in Hf; lia). reflexivity.
  Qed.

  Lemma bfs_nodes_prefix : forall h q1 q2 fuel,
    Forall (fun x => P x /\ ht x = S h) q1 ->
    bfs step (length q1 + fuel) (q1 ++ q2) = bfs step fuel (q2 ++ flat_map (fun x => snd (step x)) q1).
  Proof.
    induction q1 as [|x q1 IH]; intros q2 fuel Hq.
    - cbn. rewrite app_nil_r. reflexivity.
    - inversion Hq as [|? ? [Px Hx] Hq']; subst.
      destruct (HS x h Px Hx) as [Hout _].
      cbn [length Nat.add app bfs]. rewrite Hout. rewrite <- app_assoc.
      rewrite (IH (q2 ++ snd (step x)) fuel Hq').
      cbn [flat_map]. rewrite <- app_assoc.
      destruct (bfs step fuel (q2 ++ snd (step x) ++ flat_map (fun x0 => snd (step x0)) q1)); reflexivity.
  Qed.

  Lemma cost_sum_S : forall h q,
    list_sum (map (cost (S h)) q) = (length q + list_sum (map (cost h) (flat_map (fun x => snd (step x)) q)))%nat.
  Proof.
    induction q as [|x q IH]; [reflexivity|].
    cbn [map length flat_map]. rewrite map_app, list_sum_app.
    change (list_sum (cost (S h) x :: map (cost (S h)) q)) with (cost (S h) x + list_sum (map (cost (S h)) q))%nat.
    rewrite IH. cbn [cost]. lia.
  Qed.

  Lemma flat_map_flat_map : forall (f : N -> list N) (g : N -> list R) q,
    flat_map g (flat_map f q) = flat_map (fun x => flat_map g (f x)) q.
  Proof.
    induction q as [|x q IH]; [reflexivity|]. cbn. rewrite flat_map_app, IH. reflexivity.
  Qed.

  Theorem bfs_dfs : forall h q fuel,
    Forall (fun x => P x /\ ht x = h) q ->
    (list_sum (map (cost h) q) <= fuel)%nat ->
    bfs step fuel q = Ok (flat_map (dfs h) q).
  Proof.
    induction h as [|h IH]; intros q fuel Hq Hf.
    - apply bfs_leaves; [exact Hq|].
      assert (E : list_sum (map (cost O) q) = length q).
      { clear. induction q as [|x q IHq]; [reflexivity|]. cbn [map length].
        change (list_sum (cost O x :: map (cost O) q)) with (cost O x + list_sum (map (cost O) q))%nat.
        rewrite IHq. reflexivity. }
      lia.
    - rewrite cost_sum_S in Hf.
      pose proof (bfs_nodes_prefix h q [] (fuel - length q) Hq) as E.
      rewrite app_nil_r in E. cbn [app] in E.
      replace (length q + (fuel - length q))%nat with fuel in E by lia.
      rewrite E.
      rewrite IH.
      + rewrite flat_map_flat_map. reflexivity.
      + clear -Hq HS. induction q as [|x q IHq]; [constructor|].
        inversion Hq as [|? ? [Px Hx] Hq']; subst. cbn [flat_map].
        apply Forall_app. split; [|apply IHq; exact Hq'].
        destruct (HS x h Px Hx) as [_ Hk]. exact Hk.
      + lia.
  Qed.
End BfsDfs.
