(* The FIFO lemma: a deque walk over entries of uniform height pops them level by level, each level in the
   order their parents were popped; hence the leaves are visited in depth-first order.
   Generic in the entry type; instantiated for __iter__, the *_at_depth walks and the HLoc resolution. *)
Require Import SF.Prelude SF.Hier.

Lemma list_sum_cons a l : list_sum (a :: l) = (a + list_sum l)%nat.
Proof. reflexivity. Qed.

Section BfsLevels.
  Variables (N R : Type).
  Variable step : N -> list R * list N.
  Variable ht : N -> nat.
  Variable P : N -> Prop.
  Hypothesis H0 : forall x, P x -> ht x = O -> snd (step x) = [].
  Hypothesis HS : forall x h, P x -> ht x = S h -> Forall (fun k => P k /\ ht k = h) (snd (step x)).

  Definition outs (q : list N) : list R := flat_map (fun x => fst (step x)) q.
  Definition kids (q : list N) : list N := flat_map (fun x => snd (step x)) q.

  (* level order: everything this level yields, then the next level *)
  Fixpoint lorder (h : nat) (q : list N) : list R :=
    match h with
    | O => outs q
    | S h' => outs q ++ lorder h' (kids q)
    end.

  (* depth-first order *)
  Fixpoint dfs (h : nat) (x : N) : list R :=
    match h with
    | O => fst (step x)
    | S h' => fst (step x) ++ flat_map (dfs h') (snd (step x))
    end.

  Lemma dfs_S h x : dfs (S h) x = fst (step x) ++ flat_map (dfs h) (snd (step x)).
  Proof. reflexivity. Qed.

  Lemma bfs_leaves : forall q fuel,
    Forall (fun x => P x /\ ht x = O) q -> (length q <= fuel)%nat ->
    bfs step fuel q = Ok (outs q).
  Proof.
    induction q as [|x q IH]; intros fuel Hq Hf; [destruct fuel; reflexivity|].
    inversion Hq as [|? ? [Px Hx] Hq']; subst.
    destruct fuel as [|f]; [cbn in Hf; lia|].
    cbn [bfs]. rewrite (H0 x Px Hx), app_nil_r.
    rewrite (IH f Hq') by (cbn in Hf; lia). reflexivity.
  Qed.

  Lemma bfs_level_prefix : forall q1 q2 fuel,
    bfs step (length q1 + fuel) (q1 ++ q2) =
    match bfs step fuel (q2 ++ kids q1) with Ok r => Ok (outs q1 ++ r) | Err e => Err e end.
  Proof.
    induction q1 as [|x q1 IH]; intros q2 fuel.
    - cbn. rewrite app_nil_r. destruct (bfs step fuel q2); reflexivity.
    - cbn [length Nat.add app bfs]. rewrite <- app_assoc.
      rewrite (IH (q2 ++ snd (step x)) fuel).
      unfold kids, outs. cbn [flat_map]. rewrite <- (app_assoc q2).
      destruct (bfs step fuel (q2 ++ snd (step x) ++ flat_map (fun x0 => snd (step x0)) q1));
        [rewrite <- app_assoc|]; reflexivity.
  Qed.

  Lemma cost_sum_O : forall q, list_sum (map (bfs_cost step O) q) = length q.
  Proof.
    induction q as [|x q IH]; [reflexivity|]. cbn [map length]. rewrite list_sum_cons, IH. reflexivity.
  Qed.

  Lemma cost_sum_S : forall h q,
    list_sum (map (bfs_cost step (S h)) q) = (length q + list_sum (map (bfs_cost step h) (kids q)))%nat.
  Proof.
    induction q as [|x q IH]; [reflexivity|].
    unfold kids in *. cbn [map length flat_map]. rewrite map_app, list_sum_app, list_sum_cons, IH.
    cbn [bfs_cost]. lia.
  Qed.

  Lemma kids_forall : forall h q, Forall (fun x => P x /\ ht x = S h) q -> Forall (fun x => P x /\ ht x = h) (kids q).
  Proof.
    intros h q Hq. induction q as [|x q IHq]; [constructor|].
    inversion Hq as [|? ? [Px Hx] Hq']; subst. unfold kids. cbn [flat_map].
    apply Forall_app. split; [exact (HS x h Px Hx)|apply IHq; exact Hq'].
  Qed.

  Theorem bfs_lorder : forall h q fuel,
    Forall (fun x => P x /\ ht x = h) q ->
    (list_sum (map (bfs_cost step h) q) <= fuel)%nat ->
    bfs step fuel q = Ok (lorder h q).
  Proof.
    induction h as [|h IH]; intros q fuel Hq Hf.
    - apply bfs_leaves; [exact Hq|]. rewrite cost_sum_O in Hf. exact Hf.
    - rewrite cost_sum_S in Hf.
      pose proof (bfs_level_prefix q [] (fuel - length q)) as E.
      rewrite app_nil_r in E. cbn [app] in E.
      replace (length q + (fuel - length q))%nat with fuel in E by lia.
      rewrite E. rewrite (IH (kids q) (fuel - length q)%nat (kids_forall h q Hq)) by lia.
      reflexivity.
  Qed.

  Lemma flat_map_flat_map : forall (X B C : Type) (f : X -> list B) (g : B -> list C) q,
    flat_map g (flat_map f q) = flat_map (fun x => flat_map g (f x)) q.
  Proof.
    induction q as [|x q IH]; [reflexivity|]. cbn. rewrite flat_map_app, IH. reflexivity.
  Qed.

  (* a projection of the yielded items that inner entries never produce (all items, when inner entries
     yield nothing; or the non-error items) is the same in level order and in depth-first order *)
  Section Proj.
    Variable C : Type.
    Variable proj : R -> list C.
    Hypothesis inner_silent : forall x h, P x -> ht x = S h -> flat_map proj (fst (step x)) = [].

    Lemma outs_silent : forall h q, Forall (fun x => P x /\ ht x = S h) q -> flat_map proj (outs q) = [].
    Proof.
      intros h q Hq. induction q as [|y q IHq]; [reflexivity|].
      inversion Hq as [|? ? [Py Hy] Hq']; subst. unfold outs in *. cbn [flat_map]. rewrite flat_map_app.
      rewrite (inner_silent y h Py Hy), (IHq Hq'). reflexivity.
    Qed.

    Lemma proj_lorder_dfs : forall h q, Forall (fun x => P x /\ ht x = h) q ->
      flat_map proj (lorder h q) = flat_map (fun x => flat_map proj (dfs h x)) q.
    Proof.
      induction h as [|h IH]; intros q Hq.
      - cbn [lorder dfs]. unfold outs. apply flat_map_flat_map.
      - cbn [lorder]. rewrite flat_map_app. rewrite (outs_silent h q Hq). cbn [app].
        rewrite (IH (kids q) (kids_forall h q Hq)).
        clear IH. induction q as [|x q IHq]; [reflexivity|].
        inversion Hq as [|? ? [Px Hx] Hq']; subst.
        unfold kids in *. cbn [flat_map dfs]. rewrite !flat_map_app.
        rewrite (inner_silent x h Px Hx). cbn [app].
        f_equal; [symmetry; apply flat_map_flat_map|]. apply IHq. exact Hq'.
    Qed.
  End Proj.

  (* a Boolean test over the yielded items is order independent *)
  Lemma existsb_flat_map : forall (X B : Type) (p : B -> bool) (f : X -> list B) l,
    existsb p (flat_map f l) = existsb (fun x => existsb p (f x)) l.
  Proof.
    induction l as [|x l IH]; [reflexivity|]. cbn. rewrite existsb_app, IH. reflexivity.
  Qed.

  Lemma existsb_dfs_S : forall (p : R -> bool) h x,
    existsb p (dfs (S h) x) = existsb p (fst (step x)) || existsb (fun y => existsb p (dfs h y)) (snd (step x)).
  Proof. intros. cbn [dfs]. rewrite existsb_app, existsb_flat_map. reflexivity. Qed.

  Lemma existsb_lorder_dfs : forall (p : R -> bool) h q,
    existsb p (lorder h q) = existsb (fun x => existsb p (dfs h x)) q.
  Proof.
    induction h as [|h IH]; intros q.
    - cbn [lorder dfs]. unfold outs. apply existsb_flat_map.
    - cbn [lorder]. rewrite existsb_app, IH. unfold outs, kids. rewrite !existsb_flat_map.
      induction q as [|x q IHq]; [reflexivity|]. cbn [existsb].
      rewrite existsb_dfs_S. rewrite <- IHq.
      destruct (existsb p (fst (step x))), (existsb (fun y => existsb p (dfs h y)) (snd (step x)));
        cbn; rewrite ?orb_true_r; reflexivity.
  Qed.

  Lemma flat_map_single : forall (B : Type) (l : list B), flat_map (fun r => [r]) l = l.
  Proof. induction l as [|x l IH]; [reflexivity|]. cbn. rewrite IH. reflexivity. Qed.

  (* the classic form: inner entries yield nothing => the walk yields the depth-first sequence *)
  Theorem bfs_dfs : forall h q fuel,
    (forall x h', P x -> ht x = S h' -> fst (step x) = []) ->
    Forall (fun x => P x /\ ht x = h) q ->
    (list_sum (map (bfs_cost step h) q) <= fuel)%nat ->
    bfs step fuel q = Ok (flat_map (dfs h) q).
  Proof.
    intros h q fuel Hsil Hq Hf. rewrite (bfs_lorder h q fuel Hq Hf). f_equal.
    rewrite <- (flat_map_single _ (lorder h q)).
    rewrite (proj_lorder_dfs R (fun r => [r])).
    - apply flat_map_ext. intro x. apply flat_map_single.
    - intros x h' Px Hx. rewrite (Hsil x h' Px Hx). reflexivity.
    - exact Hq.
  Qed.
End BfsLevels.
