(* Operation-level statements: an observation that the implementation model accepts for an element-meets-column
   plan or an n-ary merge plan satisfies the specification, for every arrangement and number of cells. *)
Require Import SF.Prelude SF.Dtype SF.Coerce Proofs.CoerceHolds Proofs.CoercePlans.
Local Open Scope Z_scope.

Definition fill_cell_ok (d : dtype) (e : elem) (dr : dtype) (s : src) : Prop :=
  (exists v, s = FromArr d v /\ holds d v = true /\ time_fits dr v = true /\ to_object_ok d v = true) \/
  (s = FromElem e /\ time_fits dr (elem_val e) = true).

Lemma fill_cells_survive d e cells :
  wf_dtype d = true -> wf_elem e = true -> lossy_pair d (elem_dtype e) = false ->
  (forall s, In s cells -> fill_cell_ok d e (resolve d (elem_dtype e)) s) ->
  forall s, In s cells -> survives (resolve d (elem_dtype e)) s = true.
Proof.
  intros Wd We L Hc s Hs. destruct (fill_no_loss d e Wd We L) as [HA HE].
  destruct (Hc s Hs) as [(v & -> & Hv & Ht & Ho)|(-> & Ht)]; auto.
Qed.

(* reindex / shift / assignment / insertion of ONE element e into a column of dtype d (util.full_for_fill and the
   assignment sites): whatever cells of the column are kept and wherever the element is placed *)
Theorem fill_operation_lossless d e cells od obs :
  wf_dtype d = true -> wf_elem e = true -> lossy_pair d (elem_dtype e) = false ->
  (forall s, In s cells -> fill_cell_ok d e (resolve d (elem_dtype e)) s) ->
  M_check (PFill d e) cells od obs = true ->
  S_cells cells obs = true /\ od = resolve d (elem_dtype e).
Proof.
  intros Wd We L Hc HM.
  apply (model_sound (PFill d e) cells od obs (resolve d (elem_dtype e)));
    [reflexivity | apply fill_cells_survive; assumption | exact HM].
Qed.

(* the sites that call resolve_dtype(dtype_from_element(e), d) (fillna, IndexGO.append): same statement *)
Theorem fillr_operation_lossless d e cells od obs :
  wf_dtype d = true -> wf_elem e = true -> lossy_pair d (elem_dtype e) = false ->
  (forall s, In s cells -> fill_cell_ok d e (resolve d (elem_dtype e)) s) ->
  M_check (PFillR d e) cells od obs = true ->
  S_cells cells obs = true /\ od = resolve d (elem_dtype e).
Proof.
  intros Wd We L Hc HM.
  apply (model_sound (PFillR d e) cells od obs (resolve d (elem_dtype e)));
    [cbn [plan_dtype]; rewrite resolve_comm; reflexivity | apply fill_cells_survive; assumption | exact HM].
Qed.

(* n arrays / n blocks: concatenation (util.concat_resolved) and row consolidation (util.resolve_dtype_iter) *)
Definition merge_cell_ok (d : dtype) (ds : list dtype) (s : src) : Prop :=
  exists d' v, s = FromArr d' v /\ In d' (d :: ds) /\ holds d' v = true /\ fold_fits d ds v = true /\
               (resolve_all d ds = DObj -> to_object_ok d' v = true).

Lemma merge_cells_survive d ds cells :
  wf_dtype d = true -> Forall (fun x => wf_dtype x = true) ds -> fold_ok d ds = true ->
  (forall s, In s cells -> merge_cell_ok d ds s) ->
  forall s, In s cells -> survives (resolve_all d ds) s = true.
Proof.
  intros Wd Wds Ok Hc s Hs. destruct (Hc s Hs) as (d' & v & -> & Hin & Hv & Hf & Ho).
  cbn [survives]. unfold holds_arr.
  assert (Hr : holds (resolve_all d ds) v = true).
  { apply resolve_all_holds; auto. destruct Hin as [->|Hin]; [left; exact Hv|].
    right. apply Exists_exists. exists d'. split; assumption. }
  destruct (resolve_all d ds); auto.
Qed.

Theorem concat_operation_lossless d ds cells od obs :
  wf_dtype d = true -> Forall (fun x => wf_dtype x = true) ds -> fold_ok d ds = true ->
  (forall s, In s cells -> merge_cell_ok d ds s) ->
  M_check (PConcat d ds) cells od obs = true ->
  S_cells cells obs = true /\ od = resolve_all d ds.
Proof.
  intros Wd Wds Ok Hc HM.
  apply (model_sound (PConcat d ds) cells od obs (resolve_all d ds));
    [cbn [plan_dtype]; rewrite concat_loop_spec; reflexivity | apply merge_cells_survive; assumption | exact HM].
Qed.

Theorem row_operation_lossless d ds cells od obs :
  wf_dtype d = true -> Forall (fun x => wf_dtype x = true) ds -> fold_ok d ds = true ->
  (forall s, In s cells -> merge_cell_ok d ds s) ->
  M_check (PIterDt d ds) cells od obs = true ->
  S_cells cells obs = true /\ od = resolve_all d ds.
Proof.
  intros Wd Wds Ok Hc HM.
  apply (model_sound (PIterDt d ds) cells od obs (resolve_all d ds));
    [cbn [plan_dtype]; rewrite resolve_iter_loop_spec; reflexivity | apply merge_cells_survive; assumption | exact HM].
Qed.

(* a table grown block by block (FrameGO setitem / extend): the cached row dtype is the common dtype when all blocks
   agree and object otherwise, for every number of appended blocks *)
Lemma grown_loop_obj ds : grown_loop DObj ds = DObj.
Proof.
  unfold grown_loop. induction ds as [|x ds IH]; [reflexivity|]. cbn [fold_left].
  replace (grown_step DObj x) with DObj; [exact IH|]. unfold grown_step. destruct (dtype_eqb x DObj); reflexivity.
Qed.

Lemma grown_loop_spec ds : forall d,
  grown_loop d ds = if forallb (fun x => dtype_eqb x d) ds then d else DObj.
Proof.
  induction ds as [|x ds IH]; intros d; [reflexivity|].
  unfold grown_loop in *. cbn [fold_left forallb]. unfold grown_step at 2.
  destruct (dtype_eqb x d) eqn:E; cbn [andb]; [apply IH|].
  apply (grown_loop_obj ds).
Qed.

Theorem grown_row_no_loss d ds d' v :
  In d' (d :: ds) -> holds d' v = true -> to_object_ok d' v = true ->
  survives (grown_loop d ds) (FromArr d' v) = true.
Proof.
  intros Hin Hv Ho. rewrite grown_loop_spec. cbn [survives]. unfold holds_arr.
  destruct (forallb (fun x => dtype_eqb x d) ds) eqn:A; [|exact Ho].
  assert (d' = d).
  { destruct Hin as [->|Hin]; [reflexivity|]. rewrite forallb_forall in A. apply dtype_eqb_eq. apply A. exact Hin. }
  subst d'. destruct d; auto.
Qed.

(* the guards are satisfiable: an int32 column reindexed with the fill value 2**40 and a str column with a longer str *)
Example fill_operation_example :
  M_check (PFill (DInt true 4) (EPy (XInt (2 ^ 40)))) [FromArr (DInt true 4) (XInt 7); FromElem (EPy (XInt (2 ^ 40)))]
          (DInt true 8) [XInt 7; XInt (2 ^ 40)] = true /\
  M_check (PFill (DStr 1) (EPy (XStr "abcdefgh"))) [FromArr (DStr 1) (XStr "a"); FromElem (EPy (XStr "abcdefgh"))]
          (DStr 8) [XStr "a"; XStr "abcdefgh"] = true.
Proof. vm_compute. auto. Qed.
