(* C15 -- THE refinement theorem: the model of TypeBlocks.ufunc_axis_skipna, driven by the table regenerated
   from container.py, equals the per-line specification for every block layout inside the guard. *)
Require Import SF.Prelude SF.Value SF.Dtype SF.Reduce Gen.Gen_c15_table.
Require Import Proofs.ReduceFold Proofs.ReduceRefine Proofs.ReduceBool.
From Coq Require Import QArith.
Local Open Scope Z_scope.

Lemma store_bool_logical : forall f skipna ddof l, is_logical f = true ->
  store_bool (S_line f skipna ddof l) = S_line f skipna ddof l.
Proof.
  intros f skipna ddof l H. unfold S_line. destruct f; try discriminate;
    (destruct (has_missing l && negb skipna); [reflexivity|]); cbn [S_present store_bool];
    rewrite qnonzero_qbool; reflexivity.
Qed.

(* ------------------------------------------------------------------ THE refinement *)
Theorem M_frame_refines : forall f axis skipna ddof r bs,
  wf_frame r bs = true -> (axis = 0 \/ axis = 1) ->
  dom c15_table f axis skipna r bs = true ->
  M_frame c15_table f axis skipna ddof r bs = S_frame f axis skipna ddof r (frame_cells bs).
Proof.
  intros f axis skipna ddof r bs Hwf Hax Hdom. unfold S_frame.
  destruct bs as [|b [|b2 bs]].
  - discriminate.
  - cbn [M_frame]. unfold frame_cells, flatten. cbn [map flat_map]. rewrite app_nil_r. reflexivity.
  - cbn [M_frame].
    assert (Hm : multi (b :: b2 :: bs) = true) by reflexivity.
    revert Hwf Hdom Hm. generalize (b :: b2 :: bs). clear b b2 bs. intros bs Hwf Hdom Hm.
    unfold dom in Hdom. rewrite Hm in Hdom. cbn [andb] in Hdom.
    apply andb_true_iff in Hdom as [_ Hd2].
    unfold M_multi. destruct Hax as [-> | ->].
    + (* axis 0 *)
      cbn [Z.eqb] in *. rewrite andb_true_l in Hd2.
      apply negb_true_iff in Hd2. rewrite Hd2.
      rewrite M_axis0_flatten. unfold lines. cbn [Z.eqb]. unfold frame_cells.
      f_equal. apply map_ext_in. intros c Hc.
      destruct (out_is_bool (c15_table f) (row_kind (frame_kinds bs)) f) eqn:Eo; [|reflexivity].
      destruct (is_logical f) eqn:El; [apply store_bool_logical; exact El|].
      assert (Hne : bs <> []) by (intro E; subst bs; discriminate Hm).
      destruct f; try discriminate El; cbn in Eo; try discriminate Eo;
        (destruct (row_kind (frame_kinds bs)) eqn:Hk; try discriminate Eo);
        (apply store_bool_bool_column; [tauto|]);
        pose proof (bool_frame_cells r bs Hwf Hne Hk) as Hall; rewrite Forall_forall in Hall;
        apply Hall; exact Hc.
    + (* axis 1 *)
      change (1 =? 0) with false. cbv iota. unfold lines. change (1 =? 0) with false. cbv iota.
      destruct f; cbn [c15_table fl_composable fl_unity];
        try (rewrite M_axis1_cons_rows; reflexivity).
      * (* min *)
        f_equal. apply (comp_path Fmin skipna ddof (lift skipna qminl) None (fun c => c) out_of_num);
          [apply lift_assoc, qminl_assoc | apply inj_out_num | intros; apply S_line_min_fold; assumption | assumption].
      * (* max *)
        f_equal. apply (comp_path Fmax skipna ddof (lift skipna qmaxl) None (fun c => c) out_of_num);
          [apply lift_assoc, qmaxl_assoc | apply inj_out_num | intros; apply S_line_max_fold; assumption | assumption].
      * (* all *)
        f_equal. destruct skipna.
        -- apply (comp_path Fall true ddof andb true g_all_skip out_of_bool);
             [intros; symmetry; apply andb_assoc | apply inj_out_bool
             | intros; apply S_line_all_skip_fold; assumption | assumption].
        -- apply (comp_path Fall false ddof (lift_prop andb) None g_logic out_of_obool);
             [apply lift_prop_assoc; intros; symmetry; apply andb_assoc | apply inj_out_obool
             | intros; apply S_line_all_prop_fold; assumption | assumption].
      * (* any *)
        f_equal. destruct skipna.
        -- apply (comp_path Fany true ddof orb false g_any_skip out_of_bool);
             [intros; symmetry; apply orb_assoc | apply inj_out_bool_any
             | intros; apply S_line_any_skip_fold; assumption | assumption].
        -- apply (comp_path Fany false ddof (lift_prop orb) None g_logic out_of_obool);
             [apply lift_prop_assoc; intros; symmetry; apply orb_assoc | apply inj_out_obool
             | intros; apply S_line_any_prop_fold; assumption | assumption].
Qed.
