(* C05 -- the statements exported to Properties/C05.v, assembled from the topic files. *)
Require Import SF.Prelude SF.PySlice SF.Hier.
Require Import Gen.Gen_c05.
Require Import Proofs.HierBfs Proofs.HierViews Proofs.HierHloc Proofs.HierCols Proofs.HierLookup Proofs.HierGO Proofs.HierSpec.

Section All.
  Variable A : Type.
  Variable eqb : A -> A -> bool.
  Hypothesis eqb_spec : forall x y, eqb x y = true <-> x = y.

  Lemma wf_parts h (t : level A) : wf A eqb h t = true ->
    lv_off t = 0 /\ uniform h t = true /\ offsets_ok t = true /\ labels_ok A eqb t = true.
  Proof.
    intro H. apply (wf_split A eqb) in H as (H0 & Hu & Ho & Hl). auto.
  Qed.

  (* every view computed from the tree (deque walks, stored offsets, label maps) describes the one sequence
     of tuples flatten t *)
  Theorem views_agree : forall (t : level A) h, wf A eqb h t = true ->
    M_iter t = Ok (flatten t) /\
    lv_len t = Z.of_nat (length (flatten t)) /\
    lv_depth t = S h /\
    Forall (fun r => length r = S h) (flatten t) /\
    (forall d, M_values_at_depth t d = Ok (S_column (flatten t) d)) /\
    (forall d, M_labels_at_depth t d = Ok (S_column (flatten t) d)) /\
    M_blocks t = Ok (map (S_column (flatten t)) (seq 0 (S h))) /\
    (forall key, M_contains A eqb key t = S_contains A eqb (flatten t) key) /\
    (forall key, M_leaf_loc A eqb key t 0 = S_lookup A eqb (flatten t) key).
  Proof.
    intros t h Hw. destruct (wf_parts h t Hw) as (H0 & Hu & Ho & Hl).
    split; [eapply iter_is_flatten; eauto|].
    split; [apply (lv_len_flatten A t h Hu)|].
    split; [apply (uniform_depth A t h Hu)|].
    split; [apply (flatten_row_length A t h Hu)|].
    split; [intro d; apply (values_at_depth_exact A t h d Hu Ho)|].
    split; [intro d; apply (labels_at_depth_exact A t h d Hu Ho)|].
    split; [apply (blocks_exact A t h Hu Ho)|].
    split; [intro key; apply (contains_exact A eqb eqb_spec t h Hu Ho Hl key)|].
    intro key. apply (lookup_exact A eqb eqb_spec t h Hu Ho Hl key).
  Qed.

  (* after every admitted history of append / extend / read, what values_at_depth answers (through the cache)
     is the columns of: the initial tuples followed by the added tuples *)
  Theorem history_blocks : forall ops (st : ihgo A) h,
    wf A eqb h (g_tree st) = true -> coherent A st -> forallb (op_dom A eqb h) ops = true ->
    go_blocks (fold_left (go_step A eqb) ops st) =
    Ok (map (S_column (flatten (g_tree st) ++ hist_rows A eqb st ops)) (seq 0 (S h))).
  Proof.
    intros ops st h Hw Hc Hd.
    destruct (go_history A eqb eqb_spec ops st h Hw Hc Hd) as (W & F & C).
    rewrite (go_blocks_coherent A _ C). destruct (wf_parts h _ W) as (_ & Hu & Ho & _).
    rewrite (blocks_exact A _ h Hu Ho), F. reflexivity.
  Qed.

  (* a new index derived from the grown object at any point of any history has the same tuples and, through its
     own (possibly inherited) cache, the columns of exactly those tuples: no stale table *)
  Theorem derive_no_stale_table : forall ops (st : ihgo A) h,
    wf A eqb h (g_tree st) = true -> coherent A st -> forallb (op_dom A eqb h) ops = true ->
    let d := M_derive A (fold_left (go_step A eqb) ops st) in
    flatten (g_tree d) = flatten (g_tree st) ++ hist_rows A eqb st ops /\
    coherent A d /\
    go_blocks d = Ok (map (S_column (flatten (g_tree st) ++ hist_rows A eqb st ops)) (seq 0 (S h))).
  Proof.
    intros ops st h Hw Hc Hd d.
    destruct (go_history A eqb eqb_spec ops st h Hw Hc Hd) as (W & F & C).
    pose proof (history_blocks ops st h Hw Hc Hd) as B.
    subst d. unfold M_derive, go_blocks, coherent in *. cbn [g_tree g_cache]. auto.
  Qed.
End All.


Section Exactly.
  Variable A : Type.
  Variable eqb : A -> A -> bool.
  Hypothesis eqb_spec : forall x y, eqb x y = true <-> x = y.

  (* In the words of the property: for selectors `:` / label / list of labels at every depth, HLoc resolution
     returns exactly the positions whose tuple matches every level selector. *)
  Theorem hloc_selects_matching : forall (key : list (sel A)) (t : level A) h,
    wf A eqb h t = true -> (length key <= S h)%nat ->
    (forall d, (d <= h)%nat -> simple A (sel_at key d) = true) ->
    forall b ps, M_hloc A eqb t key = Ok (b, ps) ->
    forall p, In p ps <->
      exists i row, nth_error (flatten t) i = Some row /\ p = Z.of_nat i /\ row_match A eqb key 0 row = true.
  Proof.
    intros key t h Hw Hlen Hs b ps HM p.
    destruct (wf_parts A eqb h t Hw) as (H0 & Hu & Ho & Hl).
    assert (G : key_guard A (S h) (Z.to_nat (lv_len t)) key = true).
    { unfold key_guard. apply andb_true_iff. split; [|apply Nat.leb_le; exact Hlen].
      apply forallb_forall. intros d Hd. apply in_seq in Hd.
      specialize (Hs d ltac:(lia)). destruct (sel_at key d); try discriminate; reflexivity. }
    destruct (hloc_exact A eqb eqb_spec key t h Hw G) as (E1 & E2 & _).
    destruct (S_select_char A eqb eqb_spec key t h Hu Hl 0 O ltac:(intros d' Hd; apply Hs; lia)) as (ps0 & ES & C).
    assert (EQ : ps = ps0).
    { unfold S_hloc in E1, E2. rewrite (rows_depth_flatten A t h Hu), ES in E1, E2.
      destruct ps0 as [|q qs].
      - destruct ps as [|q' qs']; [reflexivity|]. specialize (E2 b (q' :: qs') HM ltac:(discriminate)). discriminate.
      - specialize (E1 _ eq_refl). rewrite HM in E1. injection E1 as _ <-. reflexivity. }
    subst ps0. rewrite C. split; intros (i & row & Hn & -> & Hm); exists i, row; repeat split; auto.
  Qed.
End Exactly.

(* ---- the hypotheses of the theorems are satisfiable by non-trivial instances (ragged tree of depth 3 with
        repeated inner labels; a key with a list selector, `:` and an innermost Boolean array; a history with
        appends, a read that materialises the cache in between, and an extend) *)
Definition ex_tree : level Z :=
  Node 0 [1; 2] [Node 0 [1] [Leaf 0 [7; 8]]; Node 2 [1; 3] [Leaf 0 [9]; Leaf 1 [7; 8]]].
Definition ex_key : list (sel Z) := [SList [2; 1]; SAll; SMask [true; false; false; true; false]].

Example ex_guards_hold :
  wf Z Z.eqb 2 ex_tree = true /\
  key_guard Z 3 (Z.to_nat (lv_len ex_tree)) ex_key = true /\
  S_hloc Z Z.eqb (flatten ex_tree) ex_key = Ok (false, [3; 0]) /\
  M_hloc Z Z.eqb ex_tree ex_key = Ok (false, [3; 0]).
Proof. vm_compute. repeat split; reflexivity. Qed.

Example ex_history_admitted :
  let st := mk_ihgo (Node 0 [1; 2] [Leaf 0 [1]; Leaf 1 [1]]) None in
  let ops := [OAppend [2; 2]; ORead; OAppend [1; 9]; OAppend [3; 1]; OExtend (Node 0 [7] [Leaf 0 [4; 5]]); ORead] in
  wf Z Z.eqb 1 (g_tree st) = true /\ forallb (op_dom Z Z.eqb 1) ops = true /\
  hist_rows Z Z.eqb st ops = [[2; 2]; [3; 1]; [7; 4]; [7; 5]] /\
  M_iter (g_tree (fold_left (go_step Z Z.eqb) ops st)) = Ok [[1; 1]; [2; 1]; [2; 2]; [3; 1]; [7; 4]; [7; 5]].
Proof. vm_compute. repeat split; reflexivity. Qed.

(* ---- the source facts the implementation model is written against, re-extracted from the AST of /repo on
        every run (tools/sfv/props/c05.py:generate): the running offset is offset + level.offset; both LocMap
        lookups of the HLoc branch use partial_selection=True, only the leaf lookup receives the running
        offset; exactly two `except KeyError: pass`; a missing HLoc component defaults to the null slice;
        KEY_MULTIPLE_TYPES; the GO append descends targets[-1], gives the new subtree the offset node.__len__() and
        rejects a present label that is not the last of its level (5320f59); LocMap bounds open slice ends when an
        offset applies (cc33791); __contains__ requires the key to end at the leaf (248eb88); append/extend set
        _recache. *)
Lemma source_shape_ok :
  gen_hloc_next_offset_is_sum = true /\
  gen_hloc_leaf_lookup_partial = true /\
  gen_hloc_leaf_lookup_offset = "next_offset"%string /\
  gen_hloc_node_lookup_partial = true /\
  gen_hloc_keyerror_pass_count = 2 /\
  gen_hloc_default_selector_is_null_slice = true /\
  gen_key_multiple_types = ["slice"%string; "list"%string; "ndarray"%string] /\
  gen_go_append_descends_last_edge = true /\
  gen_go_append_new_offset_is_len = true /\
  gen_go_append_rejects_non_last_label = true /\
  gen_locmap_open_slice_ends_bounded = true /\
  gen_contains_requires_key_end = true /\
  gen_ih_init_hands_over_blocks_only_if_fresh = true /\
  gen_index_loc_refreshes_cache_for_every_key = true /\
  gen_ih_values_at_depth_refreshes_iff_recache = true /\
  gen_ih_every_cache_refresh_guarded_by_recache = true /\
  gen_ih_methods_refreshing_cache =
    ["IndexHierarchy.__copy__"%string; "IndexHierarchy.__deepcopy__"%string; "IndexHierarchy.__reversed__"%string; "IndexHierarchy._drop_iloc"%string; "IndexHierarchy._extract_iloc"%string; "IndexHierarchy._sample_and_key"%string; "IndexHierarchy._to_frame"%string; "IndexHierarchy._ufunc_axis_skipna"%string; "IndexHierarchy._ufunc_binary_operator"%string; "IndexHierarchy._ufunc_set"%string; "IndexHierarchy._ufunc_unary_operator"%string; "IndexHierarchy.display"%string; "IndexHierarchy.dtypes"%string; "IndexHierarchy.fillna"%string; "IndexHierarchy.isin"%string; "IndexHierarchy.mloc"%string; "IndexHierarchy.nbytes"%string; "IndexHierarchy.rehierarch"%string; "IndexHierarchy.relabel"%string; "IndexHierarchy.roll"%string; "IndexHierarchy.sort"%string; "IndexHierarchy.to_pandas"%string; "IndexHierarchy.values"%string; "IndexHierarchy.values_at_depth"%string; "IndexHierarchy.via_dt"%string; "IndexHierarchy.via_str"%string; "IndexHierarchyAsType.__call__"%string; "IndexHierarchyGO.__copy__"%string] /\
  gen_go_append_sets_recache = true /\
  gen_go_extend_sets_recache = true.
Proof. repeat split; reflexivity. Qed.
