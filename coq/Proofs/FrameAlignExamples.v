(* C06 -- computed instances of the Frame.reindex theorems: two block layouts of the same columns,
   re-indexed on both axes, flatten to the same labelled lookup (labels and cells in Z, fill -1,
   "coercion" marks kept cells by adding 1000). *)
Require Import SF.Prelude SF.Dtype SF.SetAlg SF.LabelAlign SF.FrameAlign.

Definition zreindex := M_frame_reindex_g Z Z Z.eqb Z.leb (fun _ => true) (-1) (fun _ v => v + 1000)
                         (fun _ => DFlt 8) (DFlt 8) false false.
Definition zspec := S_frame_reindex Z Z Z.eqb (-1) (fun _ v => v + 1000) (fun _ => DFlt 8) (DFlt 8).

Definition index0 := [1; 2].
Definition columns0 := [10; 20; 30].
(* the same three columns: one 2-D block, or a 1-D block followed by a 2-D block *)
Definition layout_a := [mk_blk Z (DInt true 8) false [[11; 12]; [21; 22]; [31; 32]]].
Definition layout_b := [mk_blk Z (DInt true 8) true [[11; 12]]; mk_blk Z (DInt true 8) false [[21; 22]; [31; 32]]].

Example layouts_same_columns : flatten Z layout_a = flatten Z layout_b.
Proof. reflexivity. Qed.

Definition expected : list (col Z) :=
  [(DFlt 8, [1032; -1]); (DFlt 8, [1012; -1]); (DFlt 8, [-1; -1])].

Example reindex_layout_a :
  res_map (flatten Z) (zreindex index0 columns0 layout_a (Some [2; 3]) (Some [30; 10; 40])) = Ok expected.
Proof. vm_compute. reflexivity. Qed.
Example reindex_layout_b :
  res_map (flatten Z) (zreindex index0 columns0 layout_b (Some [2; 3]) (Some [30; 10; 40])) = Ok expected.
Proof. vm_compute. reflexivity. Qed.
Example reindex_spec :
  zspec index0 columns0 (flatten Z layout_a) (Some [2; 3]) (Some [30; 10; 40]) = expected.
Proof. vm_compute. reflexivity. Qed.

(* unified block, both axes a reordering (the fancy-selection shortcut): dtype and cells unchanged *)
Example reindex_unified_subset :
  res_map (flatten Z) (zreindex index0 columns0 layout_a (Some [2; 1]) (Some [30; 10])) =
  Ok [(DInt true 8, [32; 31]); (DInt true 8, [12; 11])].
Proof. vm_compute. reflexivity. Qed.

(* no common row label, a kept column (the case repaired by fix 658b4ce): every layout gives fill cells *)
Example no_common_rows_layout_a :
  res_map (flatten Z) (zreindex index0 columns0 layout_a (Some [7; 8]) (Some [30; 40])) =
  Ok [(DFlt 8, [-1; -1]); (DFlt 8, [-1; -1])].
Proof. vm_compute. reflexivity. Qed.
Example no_common_rows_layout_b :
  res_map (flatten Z) (zreindex index0 columns0 layout_b (Some [7; 8]) (Some [30; 40])) =
  Ok [(DFlt 8, [-1; -1]); (DFlt 8, [-1; -1])].
Proof. vm_compute. reflexivity. Qed.
(* no column label in common, common rows *)
Example no_common_columns :
  res_map (flatten Z) (zreindex index0 columns0 layout_b (Some [2; 3]) (Some [40])) = Ok [(DFlt 8, [-1; -1])].
Proof. vm_compute. reflexivity. Qed.

(* operator between two layouts that are neither block- nor reblock-compatible ([2-D int,int | float] vs
   [int | 2-D float,float]): column by column, the same as between any other layouts of these columns *)
Definition tb_a := [mk_blk Z (DInt true 8) false [[1; 2]; [3; 4]]; mk_blk Z (DFlt 8) true [[5; 6]]].
Definition tb_b := [mk_blk Z (DInt true 8) true [[10; 20]]; mk_blk Z (DFlt 8) false [[30; 40]; [50; 60]]].
Example tb_binop_incompatible_layouts :
  block_compatible Z tb_a tb_b = false /\ reblock_compatible Z tb_a tb_b = false /\
  M_tb_binop_g Z Z Z.add tb_a tb_b = Ok [[11; 22]; [33; 44]; [55; 66]].
Proof. vm_compute. repeat split; reflexivity. Qed.
Example tb_binop_reblock_path :
  block_compatible Z tb_a [mk_blk Z (DInt true 8) true [[10; 20]]; mk_blk Z (DInt true 8) true [[30; 40]]; mk_blk Z (DFlt 8) false [[50; 60]]] = false /\
  M_tb_binop_g Z Z Z.add tb_a [mk_blk Z (DInt true 8) true [[10; 20]]; mk_blk Z (DInt true 8) true [[30; 40]]; mk_blk Z (DFlt 8) false [[50; 60]]]
  = Ok [[11; 22]; [33; 44]; [55; 66]].
Proof. vm_compute. split; reflexivity. Qed.
