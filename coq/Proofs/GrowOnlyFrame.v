(* C09 -- FrameGO: laws of the specification and refinement of the implementation model
   (__setitem__, extend_items, extend) for every history inside the guard. *)
Require Import SF.Prelude SF.Dtype SF.GrowOnly Proofs.GrowOnlyIndex Proofs.GrowOnlyBlocks.

Section FrameProofs.
Variable L : Type.
Variable V : Type.
Variable leq : L -> L -> bool.
Variable as_pos : L -> option Z.
Variable cast : dtype -> V -> V.
Variable resolve : dtype -> dtype -> dtype.
Hypothesis leq_refl : forall a, leq a a = true.
Hypothesis leq_sym : forall a b, leq a b = leq b a.
Hypothesis pos_eq : forall a b x y, as_pos a = Some x -> as_pos b = Some y -> leq a b = (x =? y).

Notation mem := (mem L leq).
Notation nodupb := (nodupb L leq).
Notation fresh_all := (fresh_all L leq).
Notation lookup := (lookup L V leq).
Notation covers := (covers L leq).
Notation align := (align L V leq cast resolve).
Notation blk_align := (blk_align L V leq cast resolve).
Notation block_of := (block_of L V leq cast resolve).
Notation S_set := (S_set L V leq cast resolve).
Notation S_items_go := (S_items_go L V leq cast resolve).
Notation S_step := (S_step L V leq cast resolve).
Notation S_run := (S_run L V leq cast resolve).
Notation M_set := (M_set L V leq as_pos cast resolve).
Notation M_items := (M_items L V leq as_pos cast resolve).
Notation M_step := (M_step L V leq as_pos cast resolve).
Notation M_run := (M_run L V leq as_pos cast resolve).
Notation M_ext_assert := (M_ext_assert L V).
Notation M_append := (M_append L leq as_pos).
Notation M_extend := (M_extend L leq as_pos).
Notation M_contains := (M_contains L leq as_pos).
Notation M_contains_state := (M_contains_state L as_pos).
Notation ext_safe := (ext_safe L leq as_pos).
Notation dom_items := (dom_items L V leq as_pos cast resolve).
Notation dom_gop := (dom_gop L V leq as_pos cast resolve).
Notation dom_run := (dom_run L V leq as_pos cast resolve).
Notation abs_fgo := (abs_fgo L V).
Notation igo_wf := (igo_wf L leq as_pos).
Notation tb_wf := (tb_wf V).
Notation blk_ok := (blk_ok V).
Notation sfr := (sfr L V).
Notation fgo := (fgo L V).
Notation gop := (gop L V).
Notation gvalue := (gvalue L V).
Notation value_wfb := (value_wfb L V).
Notation extframe_wfb := (extframe_wfb L V).
Notation S_append := (S_append L leq).
Notation S_extend := (S_extend L leq).

Local Arguments GrowOnly.mem : simpl never.

(* ------------------------------------------------------------------ alignment produces full columns *)
Lemma list_eqb_length : forall A (eqb : A -> A -> bool) a b, list_eqb eqb a b = true -> length a = length b.
Proof.
  induction a as [|x xs IH]; intros [|y ys] H; cbn in *; try discriminate; auto.
  apply andb_true_iff in H as [_ H]. f_equal. now apply IH.
Qed.

Lemma lookup_some : forall r (sidx : list L) (vals : list V),
  length vals = length sidx -> mem r sidx = true -> exists x, lookup r sidx vals = Some x.
Proof.
  induction sidx as [|l lr IH]; intros [|x xr] Hlen Hm; cbn in *; try discriminate.
  rewrite (mem_cons L leq) in Hm. destruct (leq r l) eqn:E.
  - eauto.
  - cbn in Hm. apply IH; [lia | exact Hm].
Qed.

Lemma align_length : forall rows sidx dt vals fill fdt,
  length vals = length sidx ->
  length (snd (align rows sidx dt vals fill fdt)) = length rows.
Proof.
  intros rows sidx dt vals fill fdt Hlen. unfold GrowOnly.align.
  destruct (list_eqb leq rows sidx) eqn:E1.
  - cbn. apply list_eqb_length in E1. congruence.
  - destruct (covers rows sidx) eqn:E2; cbn.
    + unfold GrowOnly.covers in E2. clear E1. induction rows as [|r rs IH]; cbn in *; auto.
      apply andb_true_iff in E2 as [Hr Hrs].
      destruct (lookup_some r sidx vals Hlen Hr) as [x Hx]. rewrite Hx. cbn. f_equal. now apply IH.
    + now rewrite !map_length.
Qed.

Lemma block_of_length : forall rows value fill fdt dt vals,
  value_wfb value = true -> block_of rows value fill fdt = Ok (dt, vals) -> zlen vals = zlen rows.
Proof.
  intros rows [d vs| |d vs|d v|sidx d vs|] fill fdt dt vals Hwf; cbn in *; try discriminate.
  - destruct (zlen vs =? zlen rows) eqn:E; [|discriminate]. intros H. injection H as <- <-. lia.
  - destruct (zlen vs =? zlen rows) eqn:E; [|discriminate]. intros H. injection H as <- <-. lia.
  - intros H. injection H as <- <-. unfold zlen. now rewrite repeat_length.
  - intros H. unfold zlen in *.
    pose proof (align_length rows sidx d vs fill fdt ltac:(lia)) as Hl. injection H as H. rewrite H in Hl. cbn in Hl. lia.
Qed.

(* ------------------------------------------------------------------ laws of the specification *)
Definition extends (a b : sfr) : Prop :=
  s_rows b = s_rows a /\ (exists t, s_labels b = s_labels a ++ t) /\ (exists t, s_cols b = s_cols a ++ t).

Lemma extends_refl : forall a, extends a a.
Proof. intros a. split; [reflexivity|]. split; exists []; now rewrite app_nil_r. Qed.

Lemma extends_trans : forall a b c, extends a b -> extends b c -> extends a c.
Proof.
  intros a b c (R1 & [t1 L1] & [u1 C1]) (R2 & [t2 L2] & [u2 C2]). split; [congruence|]. split.
  - exists (t1 ++ t2). now rewrite L2, L1, app_assoc.
  - exists (u1 ++ u2). now rewrite C2, C1, app_assoc.
Qed.

Lemma S_set_extends : forall a k v fill fdt, extends a (fst (S_set a k v fill fdt)).
Proof.
  intros. unfold GrowOnly.S_set. destruct (mem k (s_labels a)); [apply extends_refl|].
  destruct (block_of (s_rows a) v fill fdt) as [c|e]; [|apply extends_refl].
  cbn. split; [reflexivity|]. split; [exists [k] | exists [c]]; reflexivity.
Qed.

Lemma S_items_extends : forall pairs a fill fdt, extends a (fst (S_items_go a pairs fill fdt)).
Proof.
  induction pairs as [|[k v] r IH]; intros a fill fdt; cbn; [apply extends_refl|].
  pose proof (S_set_extends a k v fill fdt) as H1.
  destruct (GrowOnly.S_set L V leq cast resolve a k v fill fdt) as [a1 o]. cbn in H1. destruct o.
  - eapply extends_trans; [exact H1 | apply IH].
  - exact H1.
Qed.

(* APPEND-ONLY, one call: every label, position, value and dtype present before is still there, at the
   same position; all-or-nothing: a rejected call changes nothing *)
Lemma S_step_extends : forall a op, extends a (fst (S_step a op)).
Proof.
  intros a [k v fill fdt|pairs fill fdt|name sidx dt vals fill fdt|fidx fcols blocks fill fdt| |]; cbn;
    try apply extends_refl.
  - apply S_set_extends.
  - pose proof (S_items_extends pairs a fill fdt) as H.
    destruct (GrowOnly.S_items_go L V leq cast resolve a pairs fill fdt) as [a1 o]. cbn in H.
    destruct (is_ok o); [exact H | apply extends_refl].
  - destruct (mem name (s_labels a)); [apply extends_refl|]. cbn. split; [reflexivity|].
    split; eexists; reflexivity.
  - destruct (fresh_all (s_labels a) fcols); [|apply extends_refl]. cbn. split; [reflexivity|].
    split; eexists; reflexivity.
Qed.

Lemma S_step_all_or_nothing : forall a op, is_ok (snd (S_step a op)) = false -> fst (S_step a op) = a.
Proof.
  intros a [k v fill fdt|pairs fill fdt|name sidx dt vals fill fdt|fidx fcols blocks fill fdt| |]; cbn; auto.
  - unfold GrowOnly.S_set. destruct (mem k (s_labels a)); auto.
    destruct (block_of (s_rows a) v fill fdt); cbn; auto. discriminate.
  - destruct (GrowOnly.S_items_go L V leq cast resolve a pairs fill fdt) as [a1 o]. cbn.
    destruct (is_ok o) eqn:E; cbn; auto. congruence.
  - destruct (mem name (s_labels a)); cbn; auto. discriminate.
  - destruct (fresh_all (s_labels a) fcols); cbn; auto. discriminate.
Qed.

Theorem S_run_extends : forall ops a, extends a (fst (S_run a ops)).
Proof.
  induction ops as [|op r IH]; intros a; cbn; [apply extends_refl|].
  pose proof (S_step_extends a op) as H1.
  destruct (GrowOnly.S_step L V leq cast resolve a op) as [a1 o]. cbn in H1.
  specialize (IH a1). destruct (GrowOnly.S_run L V leq cast resolve a1 r) as [a2 os]. cbn in *.
  eapply extends_trans; eauto.
Qed.

(* ------------------------------------------------------------------ the implementation model *)
Definition fgo_wf (f : fgo) : Prop :=
  igo_wf (f_cols f) /\ tb_wf (f_tb f) /\
  t_ncols (f_tb f) = g_cnt (f_cols f) /\ t_rows (f_tb f) = zlen (f_rows f).

Definition fstep_refines (r : fgo * outcome) (r' : sfr * outcome) : Prop :=
  fgo_wf (fst r) /\ abs_fgo (fst r) = fst r' /\ is_ok (snd r) = is_ok (snd r').

Lemma abs_eq : forall rows c t c' t',
  g_lm c' = g_lm c -> tb_flat t' = tb_flat t ->
  abs_fgo (mk_fgo rows c' t') = abs_fgo (mk_fgo rows c t).
Proof. intros. unfold GrowOnly.abs_fgo; cbn. congruence. Qed.

Lemma fgo_wf_cols : forall rows c c' t,
  fgo_wf (mk_fgo rows c t) -> igo_wf c' -> g_cnt c' = g_cnt c -> fgo_wf (mk_fgo rows c' t).
Proof. intros rows c c' t (H1 & H2 & H3 & H4) Hw Hc. unfold fgo_wf; cbn in *. intuition congruence. Qed.

Lemma col_blk_ok : forall dt (vals : list V), blk_ok (mk_blk dt false (zlen vals) [vals]).
Proof. intros. split; cbn; auto. Qed.

(* appending one full column to well-formed blocks succeeds *)
Lemma tb_append_col : forall t dt (vals : list V),
  tb_wf t -> zlen vals = t_rows t ->
  exists t', GrowOnly.M_tb_append V t (mk_blk dt false (zlen vals) [vals]) = Ok t' /\ tb_wf t' /\
             tb_flat t' = tb_flat t ++ [(dt, vals)] /\ t_rows t' = t_rows t /\ t_ncols t' = t_ncols t + 1.
Proof.
  intros t dt vals Hwf Hlen.
  destruct (GrowOnly.M_tb_append V t (mk_blk dt false (zlen vals) [vals])) as [t'|e] eqn:E.
  - destruct (tb_append_ok V _ _ _ Hwf (col_blk_ok dt vals) E) as (Hw & Hf & Hr & _).
    exists t'. refine (conj eq_refl (conj Hw (conj Hf (conj Hr _)))).
    destruct Hw as (_ & _ & _ & Hn). destruct Hwf as (_ & _ & _ & Hn0).
    rewrite Hn, Hn0, Hf. unfold zlen. rewrite app_length. cbn. lia.
  - apply tb_append_err in E as [E _]. cbn in E. contradiction.
Qed.

Lemma wf_arr_len : forall c, igo_wf c -> zlen (g_arr (M_refresh c)) = g_cnt c.
Proof. intros c H. pose proof (wf_len_refresh L leq as_pos c H) as E. exact E. Qed.

(* __setitem__ *)
Lemma M_set_refines : forall f k v fill fdt,
  fgo_wf f -> value_wfb v = true ->
  fstep_refines (M_set f k v fill fdt) (S_set (abs_fgo f) k v fill fdt).
Proof.
  intros [rows c t] k v fill fdt Hwf Hv. pose proof Hwf as (Hc & Ht & Hn & Hr). cbn in Hc, Ht, Hn, Hr.
  unfold GrowOnly.M_set, GrowOnly.S_set. cbn [f_cols f_rows f_tb GrowOnly.abs_fgo s_labels s_rows s_cols].
  pose proof (contains_state_wf L leq as_pos c k Hc) as Hc1.
  pose proof (contains_state_lm L as_pos c k) as Hl1.
  pose proof (contains_state_cnt L as_pos c k) as Hn1.
  assert (Hsame : forall e e', fstep_refines (mk_fgo rows (M_contains_state c k) t, Err e)
                                (GrowOnly.abs_fgo L V (mk_fgo rows c t), Err e')).
  { intros e e'. split; [|split]; cbn; auto.
    - apply (fgo_wf_cols rows c); auto.
    - unfold GrowOnly.abs_fgo; cbn. now rewrite Hl1. }
  pose proof (M_append_refines L leq as_pos leq_refl leq_sym pos_eq c k Hc) as (Hw2 & Hl2 & Ho2).
  pose proof (M_append_ok_iff L leq as_pos leq_refl leq_sym pos_eq c k Hc) as Hok.
  (* when __contains__ answers True the label is a member; when it answers False it may still be one
     (a non-int label on a loc_is_iloc index), and then _columns.append rejects it *)
  assert (Hcont : M_contains c k = true -> mem k (g_lm c) = true).
  { intros Hct. destruct (mem k (g_lm c)) eqn:Hm; auto.
    try rewrite Hm in Hok. cbn in Hok. unfold GrowOnly.M_append in Hok. rewrite Hct in Hok. discriminate. }
  destruct (M_contains c k) eqn:Hct.
  - rewrite (Hcont eq_refl). apply Hsame.
  - destruct (mem k (g_lm c)) eqn:Hm.
    + (* rejected by _columns.append *)
      destruct (block_of rows v fill fdt) as [[dt vals]|e] eqn:Eb; [|apply Hsame].
      unfold GrowOnly.S_append in Hl2. try rewrite Hm in Hl2. try rewrite Hm in Hok. cbn in Hl2, Hok.
      destruct (GrowOnly.M_append L leq as_pos c k) as [c2 o] eqn:Ea. cbn in Hw2, Hl2, Hok.
      destruct o as [u|e]; [discriminate|]. split; [|split]; cbn; auto.
      * apply (fgo_wf_cols rows c); auto.
        destruct Hw2 as (Hcnt & _). destruct Hc as (Hcnt0 & _). rewrite Hcnt, Hcnt0, Hl2. reflexivity.
      * unfold GrowOnly.abs_fgo; cbn. now rewrite Hl2.
    + destruct (block_of rows v fill fdt) as [[dt vals]|e] eqn:Eb; [|apply Hsame].
      pose proof (block_of_length _ _ _ _ _ _ Hv Eb) as Hlen.
      unfold GrowOnly.S_append in Hl2, Ho2. try rewrite Hm in Hl2. try rewrite Hm in Ho2. cbn in Hl2, Ho2.
      destruct (GrowOnly.M_append L leq as_pos c k) as [c2 o] eqn:Ea. cbn in Hw2, Hl2, Ho2.
      destruct o as [u|e]; [|discriminate].
      destruct (tb_append_col t dt vals Ht ltac:(congruence)) as (t2 & Et & Hwt & Hft & Hrt & Hnt).
      rewrite Et. split; [|split]; cbn; auto.
      * unfold fgo_wf; cbn. refine (conj Hw2 (conj Hwt (conj _ _))); [|congruence].
        destruct Hw2 as (Hcnt & _). destruct Hc as (Hcnt0 & _).
        rewrite Hnt, Hn, Hcnt, Hcnt0, Hl2, app_length. cbn. lia.
      * unfold GrowOnly.abs_fgo; cbn. now rewrite Hl2, Hft.
Qed.

Lemma S_set_err_same : forall a k v fill fdt,
  is_ok (snd (S_set a k v fill fdt)) = false -> fst (S_set a k v fill fdt) = a.
Proof.
  intros a k v fill fdt. unfold GrowOnly.S_set. destruct (mem k (s_labels a)); auto.
  destruct (block_of (s_rows a) v fill fdt); cbn; auto. discriminate.
Qed.

(* extend_items when no failure is allowed *)
Lemma M_items_all : forall pairs f fill fdt,
  fgo_wf f -> dom_items f pairs fill fdt false = true ->
  fstep_refines (M_items f pairs fill fdt) (S_items_go (abs_fgo f) pairs fill fdt) /\
  is_ok (snd (M_items f pairs fill fdt)) = true.
Proof.
  induction pairs as [|[k v] r IH]; intros f fill fdt Hwf Hd; cbn in *.
  - split; [split; [|split]|]; auto.
  - apply andb_true_iff in Hd as [Hdv Hd2].
    pose proof (M_set_refines f k v fill fdt Hwf Hdv) as (Hw1 & Ha1 & Ho1).
    destruct (GrowOnly.M_set L V leq as_pos cast resolve f k v fill fdt) as [f1 o] eqn:E1.
    destruct (GrowOnly.S_set L V leq cast resolve (GrowOnly.abs_fgo L V f) k v fill fdt) as [a1 o'] eqn:E2.
    cbn in *. destruct o as [u|e]; [|discriminate].
    destruct o' as [u'|e']; [|discriminate]. subst a1.
    apply (IH f1 fill fdt Hw1 Hd2).
Qed.

Lemma M_items_refines : forall pairs f fill fdt,
  fgo_wf f -> dom_items f pairs fill fdt true = true ->
  fstep_refines (M_items f pairs fill fdt) (S_step (abs_fgo f) (OItems pairs fill fdt)).
Proof.
  intros [|[k v] r] f fill fdt Hwf Hd; cbn in *.
  - split; [|split]; auto.
  - apply andb_true_iff in Hd as [Hdv Hd2].
    pose proof (M_set_refines f k v fill fdt Hwf Hdv) as (Hw1 & Ha1 & Ho1).
    pose proof (S_set_err_same (GrowOnly.abs_fgo L V f) k v fill fdt) as Hsame.
    destruct (GrowOnly.M_set L V leq as_pos cast resolve f k v fill fdt) as [f1 o] eqn:E1.
    destruct (GrowOnly.S_set L V leq cast resolve (GrowOnly.abs_fgo L V f) k v fill fdt) as [a1 o'] eqn:E2.
    cbn in *. destruct o as [u|e]; destruct o' as [u'|e']; try discriminate.
    + subst a1. destruct (M_items_all r f1 fill fdt Hw1 Hd2) as ((Hw2 & Ha2 & Ho2) & Hok).
      destruct (GrowOnly.S_items_go L V leq cast resolve (GrowOnly.abs_fgo L V f1) r fill fdt) as [a2 o2] eqn:E3.
      cbn in *. rewrite Hok in Ho2. rewrite <- Ho2. split; [|split]; cbn; auto; congruence.
    + cbn. specialize (Hsame eq_refl). subst a1. split; [|split]; cbn; auto.
Qed.

(* aligned blocks of the frame given to extend *)
Lemma blk_align_ok : forall rows fidx fill fdt (b : blk V),
  blk_wfb V (zlen fidx) b = true ->
  (list_eqb leq rows fidx = true -> True) ->
  blk_ok (blk_align rows fidx fill fdt b) /\
  (b_rows (blk_align rows fidx fill fdt b) = zlen rows) /\
  length (blk_flat (blk_align rows fidx fill fdt b)) = length (blk_flat b).
Proof.
  intros rows fidx fill fdt b Hb _. unfold GrowOnly.blk_wfb in Hb.
  apply andb_true_iff in Hb as [Hb Hcols]. apply andb_true_iff in Hb as [Hrows H1d].
  apply Z.eqb_eq in Hrows. rewrite forallb_forall in Hcols.
  unfold GrowOnly.blk_align. destruct (list_eqb leq rows fidx) eqn:E.
  - apply list_eqb_length in E. split; [|split]; auto.
    + split.
      * intros H2. rewrite H2 in H1d. cbn in H1d. unfold zlen in *. lia.
      * apply Forall_forall. intros c Hc. specialize (Hcols c Hc). unfold zlen in *. lia.
    + unfold zlen in *. lia.
  - split; [|split]; cbn.
    + split; cbn.
      * intros H2. rewrite H2 in H1d. cbn in H1d. rewrite !map_length. unfold zlen in *. lia.
      * apply Forall_forall. intros c Hc. apply in_map_iff in Hc as [x [<- Hx]].
        apply in_map_iff in Hx as [c0 [<- Hc0]]. specialize (Hcols c0 Hc0).
        unfold zlen in *. rewrite align_length; [reflexivity | lia].
    + reflexivity.
    + unfold blk_flat; cbn. now rewrite !map_length.
Qed.

Lemma flat_map_map : forall A B C (g : A -> B) (f : B -> list C) l,
  flat_map f (map g l) = flat_map (fun x => f (g x)) l.
Proof. induction l; cbn; congruence. Qed.

Lemma flat_map_length_eq : forall A B (f g : A -> list B) l,
  (forall x, In x l -> length (f x) = length (g x)) -> length (flat_map f l) = length (flat_map g l).
Proof.
  induction l as [|x xs IH]; intros H; cbn; auto. rewrite !app_length, IH, (H x); auto.
  - now left.
  - intros y Hy. apply H. now right.
Qed.

(* one growth call inside the guard *)
Lemma M_step_refines : forall f op, fgo_wf f -> dom_gop f op = true ->
  fstep_refines (M_step f op) (S_step (abs_fgo f) op).
Proof.
  intros f [k v fill fdt|pairs fill fdt|name sidx dt vals fill fdt|fidx fcols blocks fill fdt| |] Hwf Hd.
  - cbn in Hd. now apply M_set_refines.
  - now apply M_items_refines.
  - (* extend(Series) *)
    destruct f as [rows c t]. pose proof Hwf as (Hc & Ht & Hn & Hr). cbn in Hc, Ht, Hn, Hr, Hd.
    rename Hd into Hlen. apply Z.eqb_eq in Hlen.
    cbn [GrowOnly.M_step GrowOnly.S_step f_cols f_rows f_tb GrowOnly.abs_fgo s_labels s_rows s_cols].
    pose proof (align_length rows sidx dt vals fill fdt ltac:(unfold zlen in *; lia)) as Hal.
    destruct (align rows sidx dt vals fill fdt) as [d vs] eqn:Eal. cbn in Hal.
    pose proof (M_append_refines L leq as_pos leq_refl leq_sym pos_eq c name Hc) as (Hw2 & Hl2 & Ho2).
    unfold GrowOnly.S_append in Hl2, Ho2.
    destruct (GrowOnly.M_append L leq as_pos c name) as [c2 o] eqn:Ea. cbn in Hw2, Hl2, Ho2.
    destruct (mem name (g_lm c)) eqn:Hm; cbn in Hl2, Ho2.
    + destruct o as [u|e]; [cbn in Ho2; discriminate|]. split; [|split]; cbn; auto.
      * unfold fgo_wf; cbn. refine (conj Hw2 (conj Ht (conj _ Hr))).
        destruct Hw2 as (Hcnt & _). destruct Hc as (Hcnt0 & _). rewrite Hn, Hcnt, Hcnt0, Hl2. reflexivity.
      * unfold GrowOnly.abs_fgo; cbn. now rewrite Hl2.
    + destruct o as [u|e]; [|cbn in Ho2; discriminate].
      destruct (tb_append_col t d vs Ht ltac:(unfold zlen in *; lia)) as (t2 & Et & Hwt & Hft & Hrt & Hnt).
      rewrite Et. unfold GrowOnly.M_ext_assert. cbn [f_cols f_rows f_tb].
      assert (Hcnt2 : g_cnt c2 = g_cnt c + 1).
      { destruct Hw2 as (Hcnt & _). destruct Hc as (Hcnt0 & _). rewrite Hcnt, Hcnt0, Hl2, app_length. cbn. lia. }
      rewrite (wf_arr_len c2 Hw2), Hnt, Hn, Hcnt2, Z.eqb_refl.
      split; [|split]; cbn; auto.
      * unfold fgo_wf; cbn. refine (conj (wf_refresh L leq as_pos c2 Hw2) (conj Hwt (conj _ _))).
        -- rewrite (refresh_cnt L c2). lia.
        -- congruence.
      * unfold GrowOnly.abs_fgo; cbn. now rewrite (refresh_lm L c2), Hl2, Hft.
  - (* extend(Frame) *)
    destruct f as [rows c t]. pose proof Hwf as (Hc & Ht & Hn & Hr). cbn in Hc, Ht, Hn, Hr, Hd.
    apply andb_true_iff in Hd as [Hx Hd]. unfold GrowOnly.extframe_wfb in Hx.
    apply andb_true_iff in Hx as [Hblocks Hwidth]. apply Z.eqb_eq in Hwidth.
    rewrite forallb_forall in Hblocks.
    assert (Hflen : length (flat_map (fun b => blk_flat (blk_align rows fidx fill fdt b)) blocks) = length fcols).
    { unfold zlen in Hwidth. rewrite (flat_map_length_eq _ _ _ blk_flat); [lia|].
      intros b Hb. now destruct (blk_align_ok rows fidx fill fdt b (Hblocks b Hb) (fun _ => I)) as (_ & _ & H). }
    cbn [GrowOnly.M_step GrowOnly.S_step f_cols f_rows f_tb GrowOnly.abs_fgo s_labels s_rows s_cols].
    destruct fcols as [|fc fr].
    + (* nothing to add *)
      cbn [GrowOnly.fresh_all]. rewrite app_nil_r.
      destruct (flat_map (fun b => blk_flat (blk_align rows fidx fill fdt b)) blocks); [|discriminate].
      rewrite app_nil_r. split; [|split]; cbn; auto.
    + cbv iota. remember (fc :: fr) as fcols eqn:Efc.
      pose proof (M_extend_refines L leq as_pos leq_refl leq_sym pos_eq fcols c Hc Hd) as (Hw2 & Hl2 & Ho2).
      unfold GrowOnly.S_extend in Hl2, Ho2.
      destruct (GrowOnly.M_extend L leq as_pos c fcols) as [c2 o] eqn:Ea. cbn in Hw2, Hl2, Ho2.
      destruct (fresh_all (g_lm c) fcols) eqn:Hf; cbn in Hl2, Ho2.
      * destruct o as [u|e]; [|cbn in Ho2; discriminate].
        unfold GrowOnly.M_tb_extend. rewrite Hr, Z.eqb_refl, andb_false_r.
        destruct (tb_append_all_ok V (map (blk_align rows fidx fill fdt) blocks) t Ht) as (t2 & Et & Hwt & Hft & Hrt).
        { apply Forall_forall. intros b' Hb'. apply in_map_iff in Hb' as [b [<- Hb]].
          destruct (blk_align_ok rows fidx fill fdt b (Hblocks b Hb) (fun _ => I)) as (H1 & H2 & _).
          split; [exact H1 | congruence]. }
        rewrite Et. unfold GrowOnly.M_ext_assert. cbn [f_cols f_rows f_tb].
        rewrite flat_map_map in Hft.
        assert (Hcnt2 : g_cnt c2 = g_cnt c + zlen fcols).
        { destruct Hw2 as (Hcnt & _). destruct Hc as (Hcnt0 & _). rewrite Hcnt, Hcnt0, Hl2, app_length. unfold zlen. lia. }
        assert (Hnt : t_ncols t2 = t_ncols t + zlen fcols).
        { destruct Hwt as (_ & _ & _ & Hn2). destruct Ht as (_ & _ & _ & Hn0).
          rewrite Hn2, Hn0, Hft. unfold zlen. rewrite app_length, Hflen. lia. }
        rewrite (wf_arr_len c2 Hw2), Hnt, Hn, Hcnt2, Z.eqb_refl.
        split; [|split]; cbn; auto.
        -- unfold fgo_wf; cbn. refine (conj (wf_refresh L leq as_pos c2 Hw2) (conj Hwt (conj _ _))).
           ++ rewrite (refresh_cnt L c2). lia.
           ++ congruence.
        -- unfold GrowOnly.abs_fgo; cbn. now rewrite (refresh_lm L c2), Hl2, Hft.
      * destruct o as [u|e]; [cbn in Ho2; discriminate|]. split; [|split]; cbn; auto.
        -- unfold fgo_wf; cbn. refine (conj Hw2 (conj Ht (conj _ Hr))).
           destruct Hw2 as (Hcnt & _). destruct Hc as (Hcnt0 & _). rewrite Hn, Hcnt, Hcnt0, Hl2. reflexivity.
        -- unfold GrowOnly.abs_fgo; cbn. now rewrite Hl2.
  - split; [|split]; cbn; auto.
  - destruct f as [rows c t]. pose proof Hwf as (Hc & Ht & Hn & Hr). cbn in Hc, Ht, Hn, Hr.
    split; [|split]; cbn; auto.
    + unfold fgo_wf; cbn. refine (conj (wf_refresh L leq as_pos c Hc) (conj Ht (conj _ Hr))).
      now rewrite (refresh_cnt L c).
    + unfold GrowOnly.abs_fgo; cbn. now rewrite (refresh_lm L c).
Qed.

(* FrameGO.extend(Frame) is all-or-nothing, with NO guard when the columns have a map (every frame built
   with explicit column labels, or grown at least once with a label that is not the next integer) *)
Theorem fgo_extend_frame_atomic : forall f fidx fcols blocks fill fdt,
  fgo_wf f -> g_map (f_cols f) <> None -> extframe_wfb fidx fcols blocks = true ->
  let r := M_step f (OExtFrame fidx fcols blocks fill fdt) in
  fstep_refines r (S_step (abs_fgo f) (OExtFrame fidx fcols blocks fill fdt)) /\
  (is_ok (snd r) = false -> abs_fgo (fst r) = abs_fgo f).
Proof.
  intros f fidx fcols blocks fill fdt Hwf Hm Hx.
  assert (Hd : dom_gop f (OExtFrame fidx fcols blocks fill fdt) = true).
  { cbn. rewrite Hx. unfold GrowOnly.ext_safe. destruct (g_map (f_cols f)); [reflexivity | congruence]. }
  pose proof (M_step_refines f _ Hwf Hd) as Href. split; [exact Href|].
  intros Hf. destruct Href as (_ & Ha & Ho). rewrite Ha. apply S_step_all_or_nothing. congruence.
Qed.

(* REFINEMENT over every history inside the guard *)
Theorem fgo_refines : forall ops f, fgo_wf f -> dom_run f ops = true ->
  fgo_wf (fst (M_run f ops)) /\
  abs_fgo (fst (M_run f ops)) = fst (S_run (abs_fgo f) ops) /\
  map is_ok (snd (M_run f ops)) = map is_ok (snd (S_run (abs_fgo f) ops)).
Proof.
  induction ops as [|op r IH]; intros f Hwf Hd; cbn in *; auto.
  apply andb_true_iff in Hd as [Hd1 Hd2].
  pose proof (M_step_refines f op Hwf Hd1) as (Hw1 & Ha1 & Ho1).
  destruct (GrowOnly.M_step L V leq as_pos cast resolve f op) as [f1 o] eqn:E1.
  destruct (GrowOnly.S_step L V leq cast resolve (GrowOnly.abs_fgo L V f) op) as [a1 o'] eqn:E2. cbn in *.
  destruct (IH f1 Hw1 Hd2) as (Hw2 & Ha2 & Ho2). subst a1.
  destruct (GrowOnly.M_run L V leq as_pos cast resolve f1 r) as [f2 os].
  destruct (GrowOnly.S_run L V leq cast resolve (GrowOnly.abs_fgo L V f1) r) as [a2 os']. cbn in *.
  refine (conj Hw2 (conj Ha2 _)). now rewrite Ho1, Ho2.
Qed.

(* lock-step, for every history inside the guard: as many labels as data columns, every column of
   the frame's height *)
Corollary fgo_lockstep : forall ops f, fgo_wf f -> dom_run f ops = true ->
  let f' := fst (M_run f ops) in
  zlen (g_lm (f_cols f')) = zlen (tb_flat (f_tb f')) /\ t_ncols (f_tb f') = zlen (g_lm (f_cols f')) /\
  f_rows f' = f_rows f.
Proof.
  intros ops f Hwf Hd. destruct (fgo_refines ops f Hwf Hd) as ((Hc & Ht & Hn & Hr) & Ha & _).
  pose proof (S_run_extends ops (GrowOnly.abs_fgo L V f)) as (Hrows & _). rewrite <- Ha in Hrows. cbn in Hrows.
  destruct Hc as (Hcnt & _). destruct Ht as (_ & _ & _ & Hn2). cbn.
  unfold zlen in *. repeat split; congruence.
Qed.

(* ------------------------------------------------------------------ what a reader sees *)
Lemma collect_znth : forall A (rest pre : list A),
  flat_map (fun j => match znth (pre ++ rest) j with Some x => [x] | None => [] end)
           (zrange_from (zlen pre) (length rest)) = rest.
Proof.
  induction rest as [|x r IH]; intros pre; [reflexivity|].
  cbn [length zrange_from flat_map].
  rewrite (znth_app A pre (x :: r)) by (unfold zlen; lia).
  replace (zlen pre <? zlen pre) with false by lia. replace (zlen pre - zlen pre) with 0 by lia.
  cbn [znth Z.ltb Z.compare Z.to_nat nth_error app]. f_equal.
  specialize (IH (pre ++ [x])). rewrite <- app_assoc in IH. cbn [app] in IH.
  replace (zlen (pre ++ [x])) with (zlen pre + 1) in IH by (unfold zlen; rewrite app_length; cbn; lia).
  exact IH.
Qed.

Lemma map_true_zrange : forall A (l : list A) n k,
  (forall j, k <= j < k + Z.of_nat n -> exists x, znth l j = Some x) ->
  map (fun j => is_some (znth l j)) (zrange_from k n) = map (fun _ => true) (zrange_from k n).
Proof.
  induction n as [|n IH]; intros k H; [reflexivity|].
  cbn [zrange_from map]. destruct (H k ltac:(lia)) as [x Hx]. rewrite Hx. cbn. f_equal.
  apply IH. intros j Hj. apply H. lia.
Qed.

Lemma map_const : forall A B C (a : list A) (b : list B) (c : C),
  length a = length b -> map (fun _ => c) a = map (fun _ => c) b.
Proof.
  induction a as [|x xs IH]; intros [|y ys] c H; cbn in *; try discriminate; auto. f_equal. apply IH. lia.
Qed.

Lemma znth_some : forall A (l : list A) j, 0 <= j < zlen l -> exists x, znth l j = Some x.
Proof.
  intros A l j Hj. unfold zlen in Hj. rewrite znth_nonneg by lia.
  destruct (nth_error l (Z.to_nat j)) eqn:E; eauto. apply nth_error_None in E. lia.
Qed.

(* for a well-formed FrameGO state the reader sees exactly the specification's frame: the labels, as
   many positions, the columns in order, the shape, and EVERY label leads to a data column *)
Theorem fgo_observe : forall f, fgo_wf f ->
  M_fobserve L V leq as_pos f = S_fobserve L V (abs_fgo f).
Proof.
  intros [rows c t] (Hc & Ht & Hn & Hr). cbn in Hc, Ht, Hn, Hr.
  pose proof (igo_observe L leq as_pos leq_refl leq_sym pos_eq c Hc) as Hobs.
  unfold GrowOnly.M_iobserve, GrowOnly.S_iobserve in Hobs. injection Hobs as Harr Hnpos Hlocs.
  unfold GrowOnly.M_fobserve, GrowOnly.S_fobserve. cbn [f_cols f_tb f_rows GrowOnly.abs_fgo s_labels s_rows s_cols].
  pose proof Ht as (_ & _ & _ & Hn2).
  assert (Hlen : zlen (tb_flat t) = zlen (g_lm c)).
  { destruct Hc as (Hcnt & _). unfold zlen in *. congruence. }
  f_equal; auto.
  - rewrite (flat_map_ext _ (fun j => match znth (tb_flat t) j with Some x => [x] | None => [] end)).
    + rewrite Hn2. unfold zrange, zlen. rewrite Nat2Z.id.
      exact (collect_znth _ (tb_flat t) []).
    + intros j. now rewrite (tb_column_correct V t j Ht).
  - congruence.
  - rewrite Harr.
    rewrite <- (map_map (GrowOnly.M_lookup L leq as_pos (M_refresh c))
                        (fun o => match o with Some j => is_some (GrowOnly.M_tb_column V t j) | None => false end)).
    rewrite <- Harr at 1. rewrite Hlocs, map_map.
    rewrite (map_ext _ (fun j => is_some (znth (tb_flat t) j))) by (intros j; now rewrite (tb_column_correct V t j Ht)).
    unfold zrange. rewrite Nat2Z.id. rewrite map_true_zrange.
    + apply map_const. now rewrite zrange_from_length.
    + intros j Hj. apply znth_some. unfold zlen in *. lia.
Qed.

End FrameProofs.
