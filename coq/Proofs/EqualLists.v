(* C10 -- list lemmas about map2 / firstn / skipn / list_eqb used by the refinement proofs. *)
Require Import SF.Prelude SF.Dtype SF.Value SF.Equal.

Lemma map2_app {A B C} (f : A -> B -> C) a1 a2 b1 b2 :
  length a1 = length b1 -> map2 f (a1 ++ a2) (b1 ++ b2) = map2 f a1 b1 ++ map2 f a2 b2.
Proof.
  revert b1. induction a1 as [|x xs IH]; intros [|y ys] H; cbn in *; try discriminate; [reflexivity|].
  f_equal. apply IH. congruence.
Qed.

Lemma map2_app_l {A B C} (f : A -> B -> C) a1 a2 m :
  map2 f (a1 ++ a2) m = map2 f a1 (firstn (length a1) m) ++ map2 f a2 (skipn (length a1) m).
Proof.
  revert m. induction a1 as [|x xs IH]; intros m; cbn.
  - reflexivity.
  - destruct m as [|y ys]; cbn.
    + destruct a2; reflexivity.
    + f_equal. apply IH.
Qed.

Lemma map2_length {A B C} (f : A -> B -> C) a b : length a = length b -> length (map2 f a b) = length a.
Proof.
  revert b. induction a as [|x xs IH]; intros [|y ys] H; cbn in *; try discriminate; [reflexivity|].
  f_equal. apply IH. congruence.
Qed.

Lemma map2_ext_in {A B C} (f g : A -> B -> C) a b :
  (forall x y, In x a -> In y b -> f x y = g x y) -> map2 f a b = map2 g a b.
Proof.
  revert b. induction a as [|x xs IH]; intros [|y ys] H; cbn; try reflexivity.
  f_equal; [apply H; left; reflexivity | apply IH]. intros u v Hu Hv. apply H; right; assumption.
Qed.

Lemma map2_map_l {A A' B C} (f : A' -> B -> C) (g : A -> A') a b :
  map2 f (map g a) b = map2 (fun x y => f (g x) y) a b.
Proof. revert b. induction a as [|x xs IH]; intros [|y ys]; cbn; try reflexivity. f_equal. apply IH. Qed.

Lemma map2_map_r {A B B' C} (f : A -> B' -> C) (g : B -> B') a b :
  map2 f a (map g b) = map2 (fun x y => f x (g y)) a b.
Proof. revert b. induction a as [|x xs IH]; intros [|y ys]; cbn; try reflexivity. f_equal. apply IH. Qed.

Lemma map2_same_l {A B C} (f : A -> A -> C) (a : list A) (b : list B) :
  length a = length b -> map2 f a a = map2 (fun x (_ : B) => f x x) a b.
Proof.
  revert b. induction a as [|x xs IH]; intros [|y ys] H; cbn in *; try discriminate; [reflexivity|].
  f_equal. apply IH. congruence.
Qed.

Lemma map2_same_r {A B C} (f : B -> B -> C) (a : list A) (b : list B) :
  length a = length b -> map2 f b b = map2 (fun (_ : A) y => f y y) a b.
Proof.
  revert b. induction a as [|x xs IH]; intros [|y ys] H; cbn in *; try discriminate; [reflexivity|].
  f_equal. apply IH. congruence.
Qed.

Lemma map2_swap {A B C} (f : A -> B -> C) a b : map2 f a b = map2 (fun y x => f x y) b a.
Proof. revert b. induction a as [|x xs IH]; intros [|y ys]; cbn; try reflexivity. f_equal. apply IH. Qed.

(* combining two map2 over the same pair of lists *)
Lemma map2_map2 {A B C D E} (h : C -> D -> E) (f : A -> B -> C) (g : A -> B -> D) a b :
  map2 h (map2 f a b) (map2 g a b) = map2 (fun x y => h (f x y) (g x y)) a b.
Proof. revert b. induction a as [|x xs IH]; intros [|y ys]; cbn; try reflexivity. f_equal. apply IH. Qed.

Lemma all_true_map2 {A} (f : A -> A -> bool) a b :
  length a = length b -> all_true (map2 f a b) = list_eqb f a b.
Proof.
  revert b. induction a as [|x xs IH]; intros [|y ys] H; cbn in *; try discriminate; [reflexivity|].
  f_equal. apply IH. congruence.
Qed.

Lemma forallb_all_true_map2 {A} (f : A -> A -> bool) (a b : list (list A)) :
  length a = length b ->
  (forall n, length (nth n a []) = length (nth n b [])) ->
  forallb all_true (map2 (map2 f) a b) = list_eqb (list_eqb f) a b.
Proof.
  revert b. induction a as [|x xs IH]; intros [|y ys] H Hn; cbn in *; try discriminate; [reflexivity|].
  rewrite all_true_map2 by (apply (Hn O)). f_equal. apply IH; [congruence|].
  intro n. apply (Hn (S n)).
Qed.

Lemma list_eqb_ext_in {A} (f g : A -> A -> bool) a b :
  (forall x y, In x a -> In y b -> f x y = g x y) -> list_eqb f a b = list_eqb g a b.
Proof.
  revert b. induction a as [|x xs IH]; intros [|y ys] H; cbn; try reflexivity.
  f_equal; [apply H; left; reflexivity | apply IH]. intros u v Hu Hv. apply H; right; assumption.
Qed.

Lemma list_eqb_map {A B} (f : B -> B -> bool) (g : A -> B) a b :
  list_eqb f (map g a) (map g b) = list_eqb (fun x y => f (g x) (g y)) a b.
Proof. revert b. induction a as [|x xs IH]; intros [|y ys]; cbn; try reflexivity. f_equal. apply IH. Qed.

Lemma list_eqb_false_length {A} (f : A -> A -> bool) a b : length a <> length b -> list_eqb f a b = false.
Proof.
  revert b. induction a as [|x xs IH]; intros [|y ys] H; cbn in *; try reflexivity; try congruence.
  rewrite IH by congruence. apply andb_false_r.
Qed.

Lemma skipn_add {A} n m (l : list A) : skipn (n + m) l = skipn m (skipn n l).
Proof.
  revert l. induction n as [|n IH]; intros l; cbn; [reflexivity|].
  destruct l as [|x xs]; [destruct m; reflexivity | apply IH].
Qed.

Lemma list_Z_eqb_eq a b : list_Z_eqb a b = true -> a = b.
Proof. apply list_eqb_eq. intros x y. apply Z.eqb_eq. Qed.

Lemma Zlen_inj {A B} (a : list A) (b : list B) : Z.of_nat (length a) = Z.of_nat (length b) -> length a = length b.
Proof. apply Nat2Z.inj. Qed.
