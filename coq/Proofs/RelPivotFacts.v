(* C20 -- Frame.pivot: the code's per-group shortcuts (aggregate only when an index value repeats
   inside a column group; never call the function on one row) give the relational definition exactly
   for functions with f [v] = v; shape: one row per distinct index key, one column per distinct
   column key x data field x function. *)
Require Import SF.Prelude SF.RelStack SF.RelPivot Proofs.RelListFacts.

Section PivotFacts.
Context {I C A F : Type}.
Variable ieqb : I -> I -> bool.
Variable ceqb : C -> C -> bool.
Variable isort : list I -> list I.
Variable csort : list C -> list C.
Variable apply : F -> list A -> A.
Hypothesis ieqb_spec : forall a b, ieqb a b = true <-> a = b.
Hypothesis ceqb_spec : forall a b, ceqb a b = true <-> a = b.

Notation prow := (prow I C A).

Lemma filter_filter {X} (p q : X -> bool) (l : list X) :
  filter p (filter q l) = filter (fun x => p x && q x) l.
Proof.
  induction l as [|x l IH]; cbn; [reflexivity|].
  destruct (q x); cbn; [destruct (p x); cbn; rewrite IH; reflexivity|rewrite andb_false_r; assumption].
Qed.

(* no repeated index key: the rows with key i are the one that `find` returns, or none *)
Lemma filter_find_nodup : forall (sub : list prow) i, has_dup ieqb (map p_i sub) = false ->
  filter (fun r => ieqb i (p_i r)) sub =
  match find (fun r => ieqb i (p_i r)) sub with Some r => [r] | None => [] end.
Proof.
  induction sub as [|r sub IH]; intros i H; cbn in *; [reflexivity|].
  apply orb_false_iff in H as [H1 H2].
  destruct (ieqb i (p_i r)) eqn:E.
  - f_equal. apply ieqb_spec in E. subst i.
    clear IH H2. induction sub as [|r' sub IHs]; cbn in *; [reflexivity|].
    apply orb_false_iff in H1 as [Ha Hb]. rewrite Ha. apply IHs. assumption.
  - apply IH. assumption.
Qed.

(* pivot_cells: the implementation's cell is the relational cell -- unconditionally once neither shortcut is in
   the source, for functions with f [v] = v while one of them is *)
Definition shortcut_guard (bypass raw : bool) (fn : F) : Prop := (bypass = true \/ raw = true) -> singleton_idem apply fn.

Theorem pivot_cell_refines : forall bypass raw fill (rows : list prow) i c k fn, shortcut_guard bypass raw fn ->
  M_pivot_cell ieqb ceqb apply bypass raw fill rows i c k fn = S_pivot_cell ieqb ceqb apply fill rows i c k fn.
Proof.
  intros bypass raw fill rows i c k fn Hid. unfold M_pivot_cell, S_pivot_cell.
  rewrite <- (filter_filter (fun r : prow => ieqb i (p_i r)) (fun r => ceqb c (p_c r))).
  set (sub := filter (fun r : prow => ceqb c (p_c r)) rows).
  assert (Hagg : agg_or_single apply bypass fill fn (field_values k fill (filter (fun r : prow => ieqb i (p_i r)) sub)) =
                 match field_values k fill (filter (fun r : prow => ieqb i (p_i r)) sub) with [] => fill | _ :: _ => apply fn (field_values k fill (filter (fun r : prow => ieqb i (p_i r)) sub)) end).
  { unfold agg_or_single.
    destruct (field_values k fill (filter (fun r : prow => ieqb i (p_i r)) sub)) as [|v [|w vs]]; try reflexivity.
    destruct bypass eqn:Eb; [|reflexivity]. symmetry. apply Hid. left. reflexivity. }
  destruct (negb raw || has_dup ieqb (map p_i sub)) eqn:Hd.
  - rewrite Hagg. destruct (field_values k fill (filter (fun r : prow => ieqb i (p_i r)) sub)); reflexivity.
  - apply orb_false_iff in Hd as [Hr Hd]. apply negb_false_iff in Hr.
    rewrite (filter_find_nodup sub i Hd).
    destruct (find (fun r : prow => ieqb i (p_i r)) sub); cbn; [symmetry; apply Hid; right; assumption|reflexivity].
Qed.

Theorem pivot0_cell_refines : forall bypass raw fill (rows : list prow) i k fn, shortcut_guard bypass raw fn ->
  M_pivot0_cell ieqb apply bypass fill rows i k fn = S_pivot0_cell ieqb apply fill rows i k fn.
Proof.
  intros bypass raw fill rows i k fn Hid. unfold M_pivot0_cell, S_pivot0_cell, agg_or_single.
  destruct (field_values k fill (filter (fun r : prow => ieqb i (p_i r)) rows)) as [|v [|w vs]]; try reflexivity.
  destruct bypass eqn:Eb; [|reflexivity]. symmetry. apply Hid. left. reflexivity.
Qed.

(* the whole frame: M_pivot is the relational cell map tabulated over the sorted distinct keys *)
Lemma tab_ext_in {X Y} (rows : list X) (cols : list Y) (g h : X -> Y -> A) :
  (forall r c, In r rows -> In c cols -> g r c = h r c) -> tab rows cols g = tab rows cols h.
Proof.
  intros H. unfold tab. apply map_ext_in. intros r Hr. apply map_ext_in. intros c Hc. apply H; assumption.
Qed.

Theorem pivot_refines : forall bypass raw fill nd funcs (rows : list prow),
  (forall fn, In fn funcs -> shortcut_guard bypass raw fn) ->
  M_pivot ieqb ceqb isort csort apply bypass raw fill nd funcs rows =
  mk_sframe (isort (index_keys ieqb rows)) (pivot_columns ceqb csort rows nd funcs)
    (tab (isort (index_keys ieqb rows)) (pivot_columns ceqb csort rows nd funcs)
         (fun i ckf => S_pivot_cell ieqb ceqb apply fill rows i (fst ckf) (fst (snd ckf)) (snd (snd ckf)))).
Proof.
  intros bypass raw fill nd funcs rows H. unfold M_pivot. f_equal. apply tab_ext_in.
  intros i [c [k fn]] _ Hc. cbn. apply pivot_cell_refines. apply H.
  unfold pivot_columns in Hc. apply in_product in Hc as [_ Hc]. apply in_product in Hc as [_ Hc]. exact Hc.
Qed.

(* pivot_shape: one row per distinct index-field value, one column per distinct column-field value
   x data field x function -- whatever order the sort puts them in *)
Theorem pivot_shape : forall bypass raw fill nd funcs (rows : list prow),
  (forall l, Permutation (isort l) l) -> (forall l, Permutation (csort l) l) ->
  let m := M_pivot ieqb ceqb isort csort apply bypass raw fill nd funcs rows in
  NoDup (sf_rows m) /\ (forall i, In i (sf_rows m) <-> exists r, In r rows /\ p_i r = i) /\
  (NoDup funcs -> NoDup (sf_cols m)) /\
  (forall c k fn, In (c, (k, fn)) (sf_cols m) <-> (exists r, In r rows /\ p_c r = c) /\ (k < nd)%nat /\ In fn funcs).
Proof.
  intros bypass raw fill nd funcs rows Hi Hc m. unfold m, M_pivot. cbn [sf_rows sf_cols].
  repeat split.
  - eapply Permutation_NoDup; [apply Permutation_sym; apply Hi|]. apply NoDup_uniq. exact ieqb_spec.
  - intros H. eapply Permutation_in in H; [|apply Hi]. unfold index_keys in H.
    rewrite (in_uniq ieqb ieqb_spec) in H. apply in_map_iff in H as (r & E & Hr). exists r. auto.
  - intros (r & Hr & E). eapply Permutation_in; [apply Permutation_sym; apply Hi|].
    unfold index_keys. rewrite (in_uniq ieqb ieqb_spec). subst i. apply in_map. assumption.
  - intros Hf. unfold pivot_columns. apply NoDup_product.
    + eapply Permutation_NoDup; [apply Permutation_sym; apply Hc|]. apply NoDup_uniq. exact ceqb_spec.
    + apply NoDup_product; [apply seq_NoDup|assumption].
  - unfold pivot_columns in H. apply in_product in H as [H _].
    eapply Permutation_in in H; [|apply Hc]. unfold column_keys in H. rewrite (in_uniq ceqb ceqb_spec) in H.
    apply in_map_iff in H as (r & E & Hr). exists r. auto.
  - unfold pivot_columns in H. apply in_product in H as [_ H]. apply in_product in H as [H _].
    apply in_seq in H. lia.
  - unfold pivot_columns in H. apply in_product in H as [_ H]. apply in_product in H as [_ H]. exact H.
  - intros ((r & Hr & E) & Hk & Hf). unfold pivot_columns. apply in_product. split.
    + eapply Permutation_in; [apply Permutation_sym; apply Hc|]. unfold column_keys. rewrite (in_uniq ceqb ceqb_spec).
      subst c. apply in_map. assumption.
    + apply in_product. split; [apply in_seq; lia|assumption].
Qed.

(* the relational cell, against membership: which source rows feed a cell, in source order *)
Theorem pivot_cell_sources : forall (rows : list prow) i c r,
  In r (filter (fun r => ieqb i (p_i r) && ceqb c (p_c r)) rows) <-> In r rows /\ p_i r = i /\ p_c r = c.
Proof.
  intros. rewrite filter_In, andb_true_iff, ieqb_spec, ceqb_spec. intuition congruence.
Qed.

End PivotFacts.
