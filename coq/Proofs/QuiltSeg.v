(* C19 -- the 1-D heart of Quilt selection: selecting ascending positions through the axis map,
   member by member with Boolean sub-masks, equals selecting them from the concatenation. *)
Require Import SF.Prelude SF.PySlice SF.Value SF.Quilt.

Local Open Scope nat_scope.

Definition memb (i : nat) (ps : list nat) : bool := existsb (Nat.eqb i) ps.

(* ------------------------------------------------------------------ small list facts *)
Lemma mask_select_all_false {Y} (xs : list Y) (m : list bool) :
  (forall c, In c m -> c = false) -> mask_select xs m = [].
Proof.
  revert m; induction xs as [|x xs IH]; intros [|c m] H; cbn; try reflexivity.
  rewrite (H c (or_introl eq_refl)). apply IH. intros c' Hc. apply H. right. exact Hc.
Qed.

Lemma take_nat_nil {Y} (l : list Y) : take_nat l [] = [].
Proof. reflexivity. Qed.

Lemma take_nat_cons {Y} (l : list Y) p ps :
  take_nat l (p :: ps) = (match nth_error l p with Some y => [y] | None => [] end) ++ take_nat l ps.
Proof. reflexivity. Qed.

Lemma take_nat_app {Y} (l : list Y) ps qs : take_nat l (ps ++ qs) = take_nat l ps ++ take_nat l qs.
Proof. unfold take_nat. apply flat_map_app. Qed.

Lemma take_nat_map {Y Z} (f : Y -> Z) (l : list Y) ps : take_nat (map f l) ps = map f (take_nat l ps).
Proof.
  induction ps as [|p ps IH]; [reflexivity|]. rewrite !take_nat_cons, map_app, IH. f_equal.
  rewrite nth_error_map. destruct (nth_error l p); reflexivity.
Qed.

Lemma take_nat_left {Y} (l r : list Y) ps :
  (forall p, In p ps -> p < length l) -> take_nat (l ++ r) ps = take_nat l ps.
Proof.
  induction ps as [|p ps IH]; intros H; [reflexivity|]. rewrite !take_nat_cons, IH.
  - rewrite nth_error_app1 by (apply H; left; reflexivity). reflexivity.
  - intros q Hq. apply H. right. exact Hq.
Qed.

Lemma take_nat_right {Y} (l r : list Y) ps :
  (forall p, In p ps -> length l <= p) ->
  take_nat (l ++ r) ps = take_nat r (map (fun p => p - length l) ps).
Proof.
  induction ps as [|p ps IH]; intros H; [reflexivity|]. cbn [map]. rewrite !take_nat_cons, IH.
  - rewrite nth_error_app2 by (apply H; left; reflexivity). reflexivity.
  - intros q Hq. apply H. right. exact Hq.
Qed.

Lemma memb_In i ps : memb i ps = true <-> In i ps.
Proof.
  unfold memb. rewrite existsb_exists. split.
  - intros [x [Hx E]]. apply Nat.eqb_eq in E. subst. exact Hx.
  - intros H. exists i. split; [exact H | apply Nat.eqb_refl].
Qed.

Lemma memb_false i ps : memb i ps = false <-> ~ In i ps.
Proof. rewrite <- memb_In. destruct (memb i ps); split; intros H; congruence. Qed.

(* ascending lists *)
Lemma asc_nat_cons x y r : asc_nat (x :: y :: r) = (x <? y) && asc_nat (y :: r).
Proof. reflexivity. Qed.

Lemma asc_nat_tail x r : asc_nat (x :: r) = true -> asc_nat r = true.
Proof. destruct r as [|y r]; [reflexivity|]. rewrite asc_nat_cons. intros H. apply andb_true_iff in H. tauto. Qed.

Lemma asc_nat_head_lt x r : asc_nat (x :: r) = true -> forall p, In p r -> x < p.
Proof.
  revert x; induction r as [|y r IH]; intros x H p Hp; [destruct Hp|].
  rewrite asc_nat_cons in H. apply andb_true_iff in H as [H1 H2]. apply Nat.ltb_lt in H1.
  destruct Hp as [->|Hp]; [exact H1|]. specialize (IH y H2 p Hp). lia.
Qed.

Lemma asc_nat_nodup ps : asc_nat ps = true -> nodup_nat ps = true.
Proof.
  induction ps as [|x r IH]; intros H; [reflexivity|]. cbn [nodup_nat].
  rewrite IH by (eapply asc_nat_tail; eauto). rewrite andb_true_r. apply negb_true_iff.
  apply memb_false. intros Hin. pose proof (asc_nat_head_lt _ _ H _ Hin). lia.
Qed.

Lemma asc_nat_map_sub k ps : asc_nat ps = true -> (forall p, In p ps -> k <= p) ->
  asc_nat (map (fun p => p - k) ps) = true.
Proof.
  induction ps as [|x r IH]; intros H Hk; [reflexivity|].
  destruct r as [|y r]; [reflexivity|]. cbn [map]. rewrite asc_nat_cons.
  rewrite asc_nat_cons in H. apply andb_true_iff in H as [H1 H2]. apply Nat.ltb_lt in H1.
  apply andb_true_iff; split.
  - apply Nat.ltb_lt. pose proof (Hk x (or_introl eq_refl)). lia.
  - apply (IH H2). intros p Hp. apply Hk. right. exact Hp.
Qed.

(* an ascending list splits at any threshold *)
Lemma asc_split k ps : asc_nat ps = true ->
  exists ps1 ps2, ps = ps1 ++ ps2 /\ (forall p, In p ps1 -> p < k) /\ (forall p, In p ps2 -> k <= p) /\
                  asc_nat ps1 = true /\ asc_nat ps2 = true.
Proof.
  induction ps as [|x r IH]; intros H.
  - exists [], []. split; [reflexivity|]. split; [intros p []|]. split; [intros p []|]. split; reflexivity.
  - destruct (Nat.ltb_spec x k) as [Hlt|Hge].
    + destruct (IH (asc_nat_tail _ _ H)) as (a & b & E & Ha & Hb & Aa & Ab).
      exists (x :: a), b. subst r. split; [reflexivity|]. split; [|split; [exact Hb|split; [|exact Ab]]].
      * intros p [<-|Hp]; [exact Hlt | apply Ha; exact Hp].
      * destruct a as [|y a]; [reflexivity|]. rewrite asc_nat_cons. cbn [app] in H. rewrite asc_nat_cons in H.
        apply andb_true_iff in H as [H1 _]. rewrite H1. exact Aa.
    + exists [], (x :: r). split; [reflexivity|]. split; [intros p []|]. split; [|split; [reflexivity|exact H]].
      intros p [<-|Hp]; [exact Hge|]. pose proof (asc_nat_head_lt _ _ H _ Hp). lia.
Qed.

Lemma memb_cons i p ps : memb i (p :: ps) = (i =? p) || memb i ps.
Proof. reflexivity. Qed.

Lemma memb_shift i ps : (forall q, In q ps -> 1 <= q) -> memb i (map (fun q => q - 1) ps) = memb (S i) ps.
Proof.
  intros H. destruct (memb (S i) ps) eqn:E.
  - apply memb_In. apply memb_In in E. apply in_map_iff. exists (S i). split; [lia | exact E].
  - apply memb_false. apply memb_false in E. intros Hin. apply E. apply in_map_iff in Hin as [q [E' Hq]].
    pose proof (H q Hq). replace (S i) with q by lia. exact Hq.
Qed.

(* the sorted-mask lemma: a mask built from ascending in-range positions selects them in order *)
Lemma mask_select_sorted {Y} (xs : list Y) : forall (g : nat -> bool) ps,
  asc_nat ps = true -> (forall p, In p ps -> p < length xs) ->
  (forall i, i < length xs -> g i = memb i ps) ->
  mask_select xs (map g (seq 0 (length xs))) = take_nat xs ps.
Proof.
  induction xs as [|x xs IH]; intros g ps Hasc Hr Hg.
  - destruct ps as [|p ps]; [reflexivity|]. specialize (Hr p (or_introl eq_refl)). cbn in Hr. lia.
  - cbn [length seq map]. rewrite <- seq_shift, map_map. cbn [mask_select].
    destruct ps as [|p ps].
    + rewrite Hg by (cbn; lia). cbn [memb existsb].
      rewrite mask_select_all_false; [reflexivity|].
      intros c Hc. apply in_map_iff in Hc as [i [<- Hi]]. apply in_seq in Hi. rewrite Hg by (cbn; lia). reflexivity.
    + assert (Hlen : forall i, i < length xs -> S i < length (x :: xs)) by (intros; cbn; lia).
      destruct p as [|p].
      * (* head selected *)
        rewrite Hg by (cbn; lia). rewrite memb_cons. cbn [Nat.eqb orb].
        rewrite take_nat_cons. cbn [nth_error app]. f_equal.
        assert (Hps : forall q, In q ps -> 1 <= q) by (intros q Hq; pose proof (asc_nat_head_lt _ _ Hasc _ Hq); lia).
        rewrite (IH (fun i => g (S i)) (map (fun q => q - 1) ps)).
        -- change (x :: xs) with ([x] ++ xs). rewrite (take_nat_right [x] xs ps); [reflexivity|exact Hps].
        -- apply asc_nat_map_sub; [eapply asc_nat_tail; eauto | exact Hps].
        -- intros q Hq. apply in_map_iff in Hq as [q' [<- Hq']]. pose proof (Hr q' (or_intror Hq')) as Hb. pose proof (Hps q' Hq'). cbn in Hb. lia.
        -- intros i Hi. rewrite Hg by (apply Hlen; exact Hi). rewrite memb_cons, memb_shift by exact Hps. reflexivity.
      * (* head not selected *)
        assert (Hps : forall q, In q (S p :: ps) -> 1 <= q).
        { intros q [<-|Hq]; [lia|]. pose proof (asc_nat_head_lt _ _ Hasc _ Hq). lia. }
        rewrite Hg by (cbn; lia).
        replace (memb 0 (S p :: ps)) with false.
        2:{ symmetry. apply memb_false. intros Hin. specialize (Hps 0 Hin). lia. }
        rewrite (IH (fun i => g (S i)) (map (fun q => q - 1) (S p :: ps))).
        -- change (x :: xs) with ([x] ++ xs). rewrite (take_nat_right [x] xs (S p :: ps)); [reflexivity|exact Hps].
        -- apply asc_nat_map_sub; [exact Hasc | exact Hps].
        -- intros q Hq. apply in_map_iff in Hq as [q' [<- Hq']]. pose proof (Hr q' Hq') as Hb. pose proof (Hps q' Hq'). cbn in Hb. lia.
        -- intros i Hi. rewrite Hg by (apply Hlen; exact Hi). rewrite memb_shift by exact Hps. reflexivity.
Qed.

Lemma flat_map_ext_In {Y Z} (f g : Y -> list Z) l : (forall y, In y l -> f y = g y) -> flat_map f l = flat_map g l.
Proof.
  induction l as [|y l IH]; intros H; [reflexivity|]. cbn [flat_map].
  rewrite (H y (or_introl eq_refl)), IH; [reflexivity|]. intros z Hz. apply H. right. exact Hz.
Qed.

Lemma seq_off off len : seq off len = map (fun i => off + i) (seq 0 len).
Proof.
  induction off as [|off IH]; [symmetry; apply map_id|].
  rewrite <- seq_shift, IH, map_map. reflexivity.
Qed.

Lemma find_all_shift {Y} (f : Y -> bool) l i : find_all f l i = map (fun j => i + j) (find_all f l 0).
Proof.
  revert i; induction l as [|x r IH]; intros i; [reflexivity|]. cbn [find_all].
  rewrite (IH (S i)), (IH 1). destruct (f x); cbn [map]; rewrite ?map_map; [f_equal; [lia|]|];
    apply map_ext; intros; lia.
Qed.

Lemma find_all_app {Y} (f : Y -> bool) l r i :
  find_all f (l ++ r) i = find_all f l i ++ find_all f r (i + length l).
Proof.
  revert i; induction l as [|x l IH]; intros i; cbn [app find_all length].
  - rewrite Nat.add_0_r. reflexivity.
  - rewrite IH. replace (S i + length l) with (i + S (length l)) by lia. destruct (f x); reflexivity.
Qed.

Lemma find_all_none {Y} (f : Y -> bool) l i : (forall x, In x l -> f x = false) -> find_all f l i = [].
Proof.
  revert i; induction l as [|x r IH]; intros i H; [reflexivity|]. cbn [find_all].
  rewrite (H x (or_introl eq_refl)). apply IH. intros y Hy. apply H. right. exact Hy.
Qed.

Lemma find_all_every {Y} (f : Y -> bool) l i : (forall x, In x l -> f x = true) -> find_all f l i = seq i (length l).
Proof.
  revert i; induction l as [|x r IH]; intros i H; [reflexivity|]. cbn [find_all length seq].
  rewrite (H x (or_introl eq_refl)). f_equal. apply IH. intros y Hy. apply H. right. exact Hy.
Qed.

(* ------------------------------------------------------------------ the segmented sequence *)
Section SegFacts.
  Variables (B X : Type) (beqb : B -> B -> bool).
  Hypothesis beqb_spec : forall x y, beqb x y = true <-> x = y.

  Lemma beqb_refl x : beqb x x = true.
  Proof. apply beqb_spec. reflexivity. Qed.

  Lemma beqb_neq x y : x <> y -> beqb x y = false.
  Proof. intros H. destruct (beqb x y) eqn:E; [apply beqb_spec in E; contradiction | reflexivity]. Qed.

  Notation sbus := (sbus B X).

  Lemma axis_map_cons b xs (q : sbus) : axis_map ((b, xs) :: q) = map (pair b) xs ++ axis_map q.
  Proof. reflexivity. Qed.

  Lemma owners_cons b xs (q : sbus) : owners ((b, xs) :: q) = map (fun _ => b) xs ++ owners q.
  Proof. unfold owners. rewrite axis_map_cons, map_app, map_map. reflexivity. Qed.

  Lemma owners_in_labels (q : sbus) b : In b (owners q) -> In b (map fst q).
  Proof.
    induction q as [|[b' xs] q IH]; [intros []|]. rewrite owners_cons. intros H. apply in_app_or in H as [H|H].
    - apply in_map_iff in H as [_ [<- _]]. left. reflexivity.
    - right. apply IH. exact H.
  Qed.

  Lemma axis_map_length (q : sbus) : length (axis_map q) = length (owners q).
  Proof. unfold owners. rewrite map_length. reflexivity. Qed.

  (* component with the mask given as a predicate over global positions, member offsets explicit *)
  Definition componentP (q : sbus) (selp : nat -> bool) (b : B) (off : nat) : list X :=
    match bus_loc beqb q b with
    | Some xs => mask_select xs (map selp (find_all (beqb b) (owners q) off))
    | None => []
    end.

  Lemma nth_mask_of n ps i : i < n -> nth i (mask_of n ps) false = memb i ps.
  Proof.
    intros H. unfold mask_of.
    rewrite (nth_indep _ false (existsb (Nat.eqb 0) ps)) by (rewrite map_length, seq_length; exact H).
    rewrite (map_nth (fun i => existsb (Nat.eqb i) ps) (seq 0 n) 0 i), seq_nth by exact H. reflexivity.
  Qed.

  Lemma find_all_bound {Y} (f : Y -> bool) l i p : In p (find_all f l i) -> i <= p < i + length l.
  Proof.
    revert i; induction l as [|x r IH]; intros i H; [destruct H|]. cbn [find_all length] in *.
    destruct (f x).
    - destruct H as [<-|H]; [lia|]. specialize (IH _ H). lia.
    - specialize (IH _ H). lia.
  Qed.

  Lemma component_as_P (q : sbus) ps b :
    component beqb q (mask_of (length (axis_map q)) ps) b = componentP q (fun i => memb i ps) b 0.
  Proof.
    unfold component, componentP. destruct (bus_loc beqb q b); [|reflexivity]. f_equal.
    apply map_ext_in. intros i Hi. apply find_all_bound in Hi. apply nth_mask_of.
    rewrite axis_map_length. lia.
  Qed.

  Lemma componentP_head b xs (q : sbus) selp off : ~ In b (map fst q) ->
    componentP ((b, xs) :: q) selp b off = mask_select xs (map selp (seq off (length xs))).
  Proof.
    intros Hn. unfold componentP. cbn [bus_loc]. rewrite beqb_refl, owners_cons, find_all_app.
    rewrite find_all_every by (intros y Hy; apply in_map_iff in Hy as [_ [<- _]]; apply beqb_refl).
    rewrite find_all_none, app_nil_r, map_length; [reflexivity|].
    intros y Hy. apply beqb_neq. intros <-. apply Hn. apply owners_in_labels. exact Hy.
  Qed.

  Lemma componentP_tail b1 xs (q : sbus) selp b off : b <> b1 ->
    componentP ((b1, xs) :: q) selp b off = componentP q selp b (off + length xs).
  Proof.
    intros Hn. unfold componentP. cbn [bus_loc]. rewrite (beqb_neq b1 b) by congruence.
    rewrite owners_cons, find_all_app, map_length.
    rewrite find_all_none; [reflexivity|].
    intros y Hy. apply in_map_iff in Hy as [_ [<- _]]. apply beqb_neq. exact Hn.
  Qed.

  (* duplicate_filter over a run followed by other labels *)
  Lemma dup_filter_from_in last l b : In b (dup_filter_from beqb last l) -> In b l.
  Proof.
    revert last; induction l as [|v r IH]; intros last H; [destruct H|]. cbn [dup_filter_from] in H.
    destruct (beqb v last).
    - right. eapply IH. exact H.
    - destruct H as [<-|H]; [left; reflexivity | right; eapply IH; exact H].
  Qed.

  Lemma dup_filter_in l b : In b (dup_filter beqb l) -> In b l.
  Proof.
    destruct l as [|v r]; [intros []|]. cbn [dup_filter]. intros [<-|H]; [left; reflexivity|].
    right. eapply dup_filter_from_in. exact H.
  Qed.

  Lemma dup_filter_from_run b k l : dup_filter_from beqb b (repeat b k ++ l) = dup_filter_from beqb b l.
  Proof. induction k as [|k IH]; [reflexivity|]. cbn [repeat app dup_filter_from]. rewrite beqb_refl. exact IH. Qed.

  Lemma dup_filter_from_other b l : ~ In b l -> dup_filter_from beqb b l = dup_filter beqb l.
  Proof.
    destruct l as [|v r]; [reflexivity|]. intros H. cbn [dup_filter_from dup_filter].
    rewrite beqb_neq; [reflexivity|]. intros ->. apply H. left. reflexivity.
  Qed.

  Lemma dup_filter_run b k l : ~ In b l ->
    dup_filter beqb (repeat b k ++ l) = (match k with 0 => [] | S _ => [b] end) ++ dup_filter beqb l.
  Proof.
    intros H. destruct k as [|k]; [reflexivity|]. cbn [repeat app dup_filter].
    rewrite dup_filter_from_run, dup_filter_from_other by exact H. reflexivity.
  Qed.

  Lemma take_nat_const {Y} (y : Y) (xs : list X) ps : (forall p, In p ps -> p < length xs) ->
    take_nat (map (fun _ => y) xs) ps = repeat y (length ps).
  Proof.
    induction ps as [|p ps IH]; intros H; [reflexivity|]. rewrite take_nat_cons, IH by (intros; apply H; right; assumption).
    rewrite nth_error_map. destruct (nth_error xs p) eqn:E; [reflexivity|].
    apply nth_error_None in E. specialize (H p (or_introl eq_refl)). lia.
  Qed.

  Lemma take_nat_in {Y} (l : list Y) ps y : In y (take_nat l ps) -> In y l.
  Proof.
    induction ps as [|p ps IH]; [intros []|]. rewrite take_nat_cons. intros H. apply in_app_or in H as [H|H]; [|apply IH; exact H].
    destruct (nth_error l p) eqn:E; [|destruct H]. destruct H as [<-|[]]. eapply nth_error_In. exact E.
  Qed.

  (* ---- the main lemma, by induction over the members from the front ---- *)
  Lemma parts_ascending : forall (q : sbus) off selp ps,
    NoDup (map fst q) -> asc_nat ps = true -> (forall p, In p ps -> p < length (axis_map q)) ->
    (forall i, i < length (axis_map q) -> selp (off + i) = memb i ps) ->
    flat_map (fun b => map (pair b) (componentP q selp b off)) (dup_filter beqb (take_nat (owners q) ps))
    = take_nat (axis_map q) ps.
  Proof.
    induction q as [|[b1 xs] q IH]; intros off selp ps Hnd Hasc Hr Hsel.
    - destruct ps as [|p ps]; [reflexivity|]. specialize (Hr p (or_introl eq_refl)). cbn in Hr. lia.
    - inversion Hnd as [|? ? Hnot Hnd']; subst. cbn [map fst] in Hnot.
      destruct (asc_split (length xs) ps Hasc) as (ps1 & ps2 & -> & H1 & H2 & A1 & A2).
      set (ps2' := map (fun p => p - length xs) ps2).
      assert (Hlen : length (axis_map ((b1, xs) :: q)) = length xs + length (axis_map q)).
      { rewrite axis_map_cons, app_length, map_length. reflexivity. }
      assert (Hr2 : forall p, In p ps2' -> p < length (axis_map q)).
      { intros p Hp. apply in_map_iff in Hp as [p' [<- Hp']]. specialize (Hr p' (in_or_app _ _ _ (or_intror Hp'))). specialize (H2 p' Hp'). lia. }
      assert (Eown : take_nat (owners ((b1, xs) :: q)) (ps1 ++ ps2) = repeat b1 (length ps1) ++ take_nat (owners q) ps2').
      { rewrite owners_cons, take_nat_app. f_equal.
        - rewrite take_nat_left by (intros p Hp; rewrite map_length; apply H1; exact Hp). apply take_nat_const. exact H1.
        - rewrite take_nat_right by (intros p Hp; rewrite map_length; apply H2; exact Hp). rewrite map_length. reflexivity. }
      assert (Hnot' : ~ In b1 (take_nat (owners q) ps2')).
      { intros Hin. apply Hnot. apply owners_in_labels. eapply take_nat_in. exact Hin. }
      rewrite Eown, dup_filter_run by exact Hnot'. rewrite flat_map_app.
      rewrite axis_map_cons, take_nat_app. f_equal.
      + (* the head member *)
        rewrite take_nat_left by (intros p Hp; rewrite map_length; apply H1; exact Hp).
        rewrite take_nat_map.
        destruct ps1 as [|p1 ps1]; [reflexivity|]. cbn [length flat_map]. rewrite app_nil_r. f_equal.
        rewrite componentP_head by exact Hnot.
        rewrite (seq_off off), map_map. apply mask_select_sorted; [exact A1 | exact H1 |].
        intros i Hi. rewrite Hsel by lia.
        destruct (memb i (p1 :: ps1)) eqn:E.
        * apply memb_In. apply in_or_app. left. apply memb_In. exact E.
        * apply memb_false. intros Hin. apply in_app_or in Hin as [Hin|Hin].
          -- apply memb_In in Hin. congruence.
          -- specialize (H2 i Hin). lia.
      + (* the remaining members *)
        rewrite take_nat_right by (intros p Hp; rewrite map_length; apply H2; exact Hp). rewrite map_length. fold ps2'.
        rewrite <- (IH (off + length xs) selp ps2' Hnd').
        * apply flat_map_ext_In. intros b Hb. f_equal. apply componentP_tail.
          intros ->. apply Hnot'. apply dup_filter_in. exact Hb.
        * apply asc_nat_map_sub; assumption.
        * exact Hr2.
        * intros i Hi. rewrite <- Nat.add_assoc, Hsel by lia.
          destruct (memb i ps2') eqn:E.
          -- apply memb_In. apply memb_In in E. apply in_map_iff in E as [p [E Hp]]. apply in_or_app. right.
             specialize (H2 p Hp). replace (length xs + i) with p by lia. exact Hp.
          -- apply memb_false. intros Hin. apply in_app_or in Hin as [Hin|Hin].
             ++ specialize (H1 _ Hin). lia.
             ++ assert (In i ps2') by (apply in_map_iff; exists (length xs + i); split; [lia | exact Hin]).
                apply memb_In in H. congruence.
  Qed.
End SegFacts.
