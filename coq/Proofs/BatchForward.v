(* C19 -- facts about the dispatch tables regenerated from batch.py / quilt.py on every run (Gen/Gen_c19.v). *)
Require Import SF.Prelude Gen.Gen_c19.
Local Open Scope string_scope.

(* a forwarding Batch method hands every keyword argument on unchanged, to the attribute of its own name (T is transpose) *)
Definition forwards_identically (e : string * string * list (string * string)) : bool :=
  (String.eqb (fst (fst e)) (snd (fst e)) || (String.eqb (fst (fst e)) "T" && String.eqb (snd (fst e)) "transpose")) && forallb (fun kv => String.eqb (fst kv) (snd kv)) (snd e).

Lemma batch_forwarding_identity : forallb forwards_identically batch_forward = true.
Proof. vm_compute. reflexivity. Qed.

(* the reductions are among them, with the `composable` decision handed on *)
Lemma batch_reductions_forward_composable :
  existsb (fun e => String.eqb (fst (fst e)) "_ufunc_axis_skipna" && existsb (fun kv => String.eqb (fst kv) "composable") (snd e)) batch_forward = true.
Proof. vm_compute. reflexivity. Qed.

(* Quilt._extract_array joins parts only with the dtype-resolving concatenation *)
Lemma quilt_array_joins_resolved :
  forallb (fun f => String.eqb f "concat_resolved" || String.eqb f "extractor") quilt_array_returns = true /\
  existsb (String.eqb "concat_resolved") quilt_array_returns = true.
Proof. split; vm_compute; reflexivity. Qed.
