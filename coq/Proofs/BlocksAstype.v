(* C08 -- REFINEMENT: TypeBlocks._astype_blocks converts, for EVERY block layout, exactly the addressed columns
   and leaves every other column (dtype and cells) as it was. *)
Require Import SF.Prelude SF.PySlice SF.Dtype SF.Blocks SF.UpdateSpec SF.BlocksUpdate.
Require Import Proofs.SliceFacts Proofs.BlocksSelect Proofs.UpdateLists Proofs.BlocksWalk Proofs.BlocksSegments.
Require Import Proofs.BlocksUpdateKey Proofs.BlocksDrop.

Lemma tunit_eqb_true a b : tunit_eqb a b = true -> a = b.
Proof. destruct a, b; vm_compute; intros H; try discriminate; reflexivity. Qed.

Lemma dtype_eqb_true a b : dtype_eqb a b = true -> a = b.
Proof.
  destruct a, b; cbn; intros H; try discriminate; try reflexivity;
    try (apply andb_true_iff in H as [H1 H2]; apply Bool.eqb_prop in H1; apply Z.eqb_eq in H2; subst; reflexivity);
    try (apply Z.eqb_eq in H; subst; reflexivity);
    try (apply tunit_eqb_true in H; subst; reflexivity).
Qed.

Section AsType.
Context {A : Type}.
Notation block := (block A).
Notation tb := (tb A).
Notation column := (dtype * list A)%type.
Variable dt : dtype.
Variable conv : dtype -> list A -> list A.
Variable int_key : bool.
Hypothesis conv_same : forall c, conv dt c = c.       (* astype to the dtype a column already has changes nothing *)

Definition convC (x : column) : column := (dt, conv (fst x) (snd x)).
Definition astypeF (qs : list Z) (j : Z) (x : column) : list column := [if memz j qs then convC x else x].

Lemma astype_block_columns (b : block) : block_columns (astype_block dt conv int_key b) = map convC (block_columns b).
Proof. unfold block_columns, astype_block, convC. cbn [b_dtype b_cols]. rewrite !map_map. reflexivity. Qed.

Fixpoint apieces (b : block) (psl : Z) (rs : list (Z * nat)) : list block :=
  match rs with
  | [] => []
  | (a, m) :: rs' => (if a >? psl then [gap b psl a] else []) ++
                     astype_block dt conv int_key (gap b a (a + Z.of_nat m)) :: apieces b (a + Z.of_nat m) rs'
  end.

Lemma astype_inner_same (b : block) (k : Z) rest : dtype_eqb dt (b_dtype b) = true -> other_block k rest ->
  forall rs psl, astype_inner dt conv int_key b k (targets k rs ++ rest) psl = Ok (rest, [], psl).
Proof.
  intros Heq Hrest. induction rs as [|[a m] rs IH]; intros psl.
  - cbn [targets map app]. destruct rest as [|[tbi sl] rest']; [reflexivity|].
    cbn in Hrest. cbn [astype_inner]. replace (k =? tbi) with false by lia. reflexivity.
  - unfold targets. cbn [map app]. change (target_of (run_bundle k (a, m))) with (k, cols_to_slice_t (range_list a 1 m)).
    cbn [astype_inner]. rewrite Z.eqb_refl, Heq. cbn [negb]. apply IH.
Qed.

Lemma astype_inner_steady (b : block) (k : Z) rest : b_1d b = false -> dtype_eqb dt (b_dtype b) = false ->
  other_block k rest ->
  forall rs psl, runs_wf psl rs (width b) -> 0 <= psl ->
  astype_inner dt conv int_key b k (targets k rs ++ rest) psl = Ok (rest, apieces b psl rs, runs_end psl rs).
Proof.
  intros H1d Hne Hrest. induction rs as [|[a m] rs IH]; intros psl Hwf Hp.
  - cbn [targets map app apieces runs_end]. destruct rest as [|[tbi sl] rest']; [reflexivity|].
    cbn in Hrest. cbn [astype_inner]. replace (k =? tbi) with false by lia. reflexivity.
  - cbn in Hwf. destruct Hwf as (Ha & Hm & Hend & Hwf).
    unfold targets. cbn [map app]. rewrite target_of_run by assumption. cbn [astype_inner].
    rewrite Z.eqb_refl, H1d, Hne. cbn [negb s_start s_stop]. fold (targets k rs).
    rewrite cols_slice_gap by lia.
    assert (Hwf' : runs_wf (a + Z.of_nat m) rs (width b)) by (eapply runs_wf_weaken; [|exact Hwf]; lia).
    rewrite IH by (assumption || lia). cbn [apieces runs_end].
    destruct (a >? psl) eqn:E; [rewrite cols_slice_gap by lia|]; reflexivity.
Qed.

Lemma apieces_pieces (b : block) rs : forall psl qs, runs_wf psl rs (width b) -> 0 <= psl ->
  (forall j, In j (runs_elems rs) -> In j qs) ->
  flat_map block_columns (apieces b psl rs) = pieces (astypeF qs) (block_columns b) psl rs.
Proof.
  assert (Hlen : length (block_columns b) = length (b_cols b)) by (unfold block_columns; apply map_length).
  induction rs as [|[a m] rs IH]; intros psl qs Hwf Hp Hin; [reflexivity|].
  cbn in Hwf. destruct Hwf as (Ha & Hm & Hend & Hwf).
  cbn [apieces pieces]. rewrite flat_map_app. f_equal.
  - destruct (a >? psl) eqn:E.
    + cbn [flat_map]. rewrite app_nil_r. apply gap_columns.
    + assert (a = psl) by lia. subst. unfold seg. rewrite Z.sub_diag. reflexivity.
  - cbn [flat_map]. f_equal.
    + rewrite astype_block_columns, gap_columns.
      rewrite (upd_from_ext _ (fun _ x => [convC x])).
      * symmetry. apply upd_from_map_const.
      * intros j x Hj. rewrite seg_length in Hj by (rewrite ?Hlen; unfold width in *; lia).
        unfold astypeF. replace (memz j qs) with true; [reflexivity|]. symmetry. apply memz_In. apply Hin.
        unfold runs_elems. cbn [flat_map]. apply in_or_app. left. apply run_elems_In. lia.
    + apply IH; [eapply runs_wf_weaken; [|exact Hwf]; lia|lia|].
      intros j Hj. apply Hin. unfold runs_elems. cbn [flat_map]. apply in_or_app. right. assumption.
Qed.

Lemma astypeF_keep qs j (x : column) : ~ In j qs -> astypeF qs j x = [x].
Proof. intros H. unfold astypeF. apply memz_false in H. now rewrite H. Qed.

Definition astype_out (b : block) (parts : list block) (psl : Z) : list block :=
  let parts' := if negb (b_1d b) && (psl <? width b)
                then match cols_slice b (mk_slice (Some psl) None None) with
                     | Some p => parts ++ [p]
                     | None => parts
                     end
                else parts in
  if is_nil parts' then [b] else parts'.

Lemma astype_out_2d (b : block) parts psl : b_1d b = false -> 0 <= psl <= width b ->
  (psl = width b -> parts <> []) ->
  flat_map block_columns (astype_out b parts psl) =
  flat_map block_columns parts ++ skipn (Z.to_nat psl) (block_columns b).
Proof.
  intros E1d Hp Hne.
  assert (Hlen : length (block_columns b) = length (b_cols b)) by (unfold block_columns; apply map_length).
  unfold astype_out. rewrite E1d. cbn [negb andb].
  destruct (psl <? width b) eqn:Elt.
  - rewrite cols_slice_tail by lia.
    destruct (parts ++ [gap b psl (width b)]) eqn:Eg; [destruct parts; discriminate|].
    cbn [is_nil]. rewrite <- Eg, flat_map_app. cbn [flat_map]. rewrite app_nil_r, gap_columns.
    f_equal. unfold seg. rewrite firstn_all2; [reflexivity|]. rewrite skipn_length, Hlen. unfold width. lia.
  - assert (Ee : psl = width b) by lia. specialize (Hne Ee).
    rewrite Ee. unfold width. rewrite Nat2Z.id, <- Hlen, skipn_all, app_nil_r.
    destruct parts; [congruence|]. reflexivity.
Qed.

Lemma astype_block_correct (b : block) (k : Z) rest rs : wf_block b -> other_block k rest ->
  runs_wf 0 rs (width b) ->
  exists parts psl,
    astype_inner dt conv int_key b k (targets k rs ++ rest) 0 = Ok (rest, parts, psl) /\
    flat_map block_columns (astype_out b parts psl) = upd_from (astypeF (runs_elems rs)) 0 (block_columns b).
Proof.
  intros [Hw H1d] Hrest Hwf.
  assert (Hlen : length (block_columns b) = length (b_cols b)) by (unfold block_columns; apply map_length).
  destruct (dtype_eqb dt (b_dtype b)) eqn:Heq.
  - (* the block already has the dtype: nothing happens, and the specification agrees *)
    exists [], 0. split; [apply astype_inner_same; assumption|].
    apply dtype_eqb_true in Heq.
    assert (Esame : upd_from (astypeF (runs_elems rs)) 0 (block_columns b) = block_columns b).
    { rewrite (upd_from_ext_in _ (fun _ x => [x])); [apply upd_from_keep|].
      intros j x Hx _. unfold astypeF. destruct (memz j (runs_elems rs)); [|reflexivity].
      unfold block_columns in Hx. apply in_map_iff in Hx as (c & <- & _).
      unfold convC. cbn [fst snd]. rewrite <- Heq, conv_same. reflexivity. }
    rewrite Esame. destruct (b_1d b) eqn:E1d.
    + unfold astype_out. rewrite E1d. cbn. now rewrite app_nil_r.
    + rewrite astype_out_2d; [reflexivity|assumption|unfold width; lia|unfold width; lia].
  - destruct (b_1d b) eqn:E1d.
    + specialize (H1d eq_refl). assert (Hw1 : width b = 1) by (unfold width; lia).
      rewrite Hw1 in Hwf. destruct (runs_wf_one _ Hwf) as [->| ->].
      * exists [], 0. split.
        -- cbn [targets map app]. destruct rest as [|[tbi sl] rest']; [reflexivity|].
           cbn in Hrest. cbn [astype_inner]. replace (k =? tbi) with false by lia. reflexivity.
        -- unfold astype_out. rewrite E1d. cbn [negb andb is_nil flat_map]. rewrite app_nil_r.
           rewrite (upd_from_ext _ (fun _ x => [x])); [now rewrite upd_from_keep|].
           intros j x _. apply astypeF_keep. intros [].
      * exists [astype_block dt conv int_key b], 1. split.
        -- unfold targets. cbn [map app]. rewrite target_of_run by lia. cbn [astype_inner].
           rewrite Z.eqb_refl, Heq, E1d. reflexivity.
        -- unfold astype_out. rewrite E1d. cbn [negb andb is_nil flat_map]. rewrite app_nil_r, astype_block_columns.
           unfold block_columns. destruct (b_cols b) as [|c [|? ?]]; try (cbn in H1d; lia). reflexivity.
    + exists (apieces b 0 rs), (runs_end 0 rs). split; [apply astype_inner_steady; try assumption; lia|].
      pose proof (runs_end_bounds rs _ _ Hwf ltac:(unfold width; lia)) as Hb.
      rewrite astype_out_2d; [|assumption|lia|].
      * rewrite (apieces_pieces b rs 0 (runs_elems rs) Hwf ltac:(lia) (fun j H => H)).
        pose proof (segments_block (astypeF (runs_elems rs)) (block_columns b) rs) as Hseg.
        rewrite Hlen in Hseg. apply Hseg; [exact Hwf|]. intros. apply astypeF_keep. assumption.
      * intros Ee. destruct rs as [|[a m] rs']; [cbn in Ee; unfold width in Ee; lia|].
        cbn [apieces]. destruct (a >? 0); discriminate.
Qed.

Lemma astype_walk_correct (t : tb) : wf_tb t -> forall k rss,
  Forall2 (fun b rs => runs_wf 0 rs (width b)) t rss ->
  exists bs, astype_walk dt conv int_key k t (map target_of (bundles_of k rss)) = Ok bs /\
             (t <> [] -> bs <> []) /\
             flat_map block_columns bs = by_runs astypeF t rss.
Proof.
  induction 1 as [|b r Hb _ IH]; intros k rss Hrss.
  - exists []. split; [reflexivity|]. split; [congruence|reflexivity].
  - inversion Hrss as [|? rs ? rss' Hrs Hrest]; subst.
    destruct (IH (k + 1) rss' Hrest) as (bs & Ebs & _ & Efl).
    destruct (astype_block_correct b k (map target_of (bundles_of (k + 1) rss')) rs Hb
                (other_block_bundles k rss') Hrs) as (parts & psl & Ein & Eout).
    exists (astype_out b parts psl ++ bs). split; [|split].
    + rewrite targets_bundles. cbn [astype_walk]. rewrite Ein. fold (astype_out b parts psl). rewrite Ebs. reflexivity.
    + intros _ E. apply app_eq_nil in E as [E _]. unfold astype_out in E.
      destruct (is_nil _) eqn:En; [discriminate|]. rewrite E in En. discriminate.
    + rewrite flat_map_app, Eout, Efl. reflexivity.
Qed.

Theorem astype_blocks_refines (t : tb) (k : ckey) : wf_tb t -> t <> [] ->
  walk_dom k (Z.of_nat (length (flatten t))) = true ->
  forall ps, key_positions k (Z.of_nat (length (flatten t))) = Ok ps ->
  res_map flatten (M_astype_blocks dt conv int_key t k) = S_astype_columns (flatten t) k dt conv.
Proof.
  intros Hwf Hne Hdom ps Ek. unfold M_astype_blocks, S_astype_columns, block_slices_for, Gen.Gen_c08.retain_key_order_astype_blocks. rewrite Ek.
  destruct (block_slices_asc_runs t k ps Hwf Hdom Ek) as (ps' & Hinc & Hsame & Hrange & Ets).
  rewrite Ets.
  destruct (astype_walk_correct t Hwf 0 (block_runs t ps') (block_runs_wf t ps' Hinc Hrange)) as (bs & Ebs & Hbs & Efl).
  rewrite Ebs. unfold from_blocks_strict.
  destruct bs as [|b0 bs0]; [exfalso; apply (Hbs Hne); reflexivity|]. cbn [is_nil res_map].
  rewrite from_blocks_flatten, Efl. f_equal.
  rewrite (S_set_at_ext _ _ ps ps') by (intros i; symmetry; apply Hsame).
  unfold S_set_at.
  rewrite (upd_flatten_split (fun m x => [if m then (dt, conv (fst x) (snd x)) else x]) t ps'). reflexivity.
Qed.

End AsType.
