(* C17 -- the abstract cache of the specification IS least-recently-used: after any sequence of uses it holds
   exactly the min(max_persist, #distinct) most recently used labels, in order of last use. *)
Require Import SF.Prelude SF.PySlice SF.BusSpec.
Require Import Proofs.BusSpecFacts Proofs.BusCache.

Lemma NoDup_app_inv {A} (a b : list A) : NoDup (a ++ b) ->
  NoDup a /\ NoDup b /\ (forall y, In y a -> In y b -> False).
Proof.
  induction a as [|x r IH]; cbn; intro N; [split; [constructor | split; [exact N | intros y []]]|].
  inversion N as [|? ? Hx Nr]; subst. destruct (IH Nr) as (Na & Nb & D).
  split; [constructor; [rewrite in_app_iff in Hx; tauto | exact Na]|]. split; [exact Nb|].
  intros y [<-|Hy] Hb; [apply Hx, in_app_iff; auto | exact (D y Hy Hb)].
Qed.

Section LRU.
Variable L : Type.
Variable leqb : L -> L -> bool.
Hypothesis leqb_spec : forall x y, leqb x y = true <-> x = y.

Notation mem := (mem L leqb).
Notation la_remove := (la_remove L leqb).
Notation la_touch := (la_touch L leqb).
Notation s_touch := (s_touch L leqb).
Notation dedup_last := (dedup_last L leqb).

Lemma mem_app l a b : mem l (a ++ b) = mem l a || mem l b.
Proof. induction a as [|x r IH]; cbn; [reflexivity|]. rewrite IH, orb_assoc. reflexivity. Qed.

Lemma la_remove_app l a b : la_remove l (a ++ b) = la_remove l a ++ la_remove l b.
Proof. apply filter_app. Qed.

Lemma la_remove_idem l c : la_remove l (la_remove l c) = la_remove l c.
Proof.
  apply (la_remove_notin L leqb leqb_spec). intro H. apply (la_remove_In L leqb leqb_spec) in H. tauto.
Qed.

Lemma dedup_last_In w x : In x (dedup_last w) <-> In x w.
Proof.
  induction w as [|y r IH]; cbn; [tauto|].
  destruct (mem y r) eqn:Q; cbn; rewrite IH; [|tauto].
  apply (mem_In L leqb leqb_spec) in Q. split; [auto | intros [->|?]; auto].
Qed.

Lemma dedup_last_NoDup w : NoDup (dedup_last w).
Proof.
  induction w as [|y r IH]; cbn; [constructor|].
  destruct (mem y r) eqn:Q; [exact IH|]. constructor; [|exact IH].
  rewrite dedup_last_In. apply (mem_false L leqb leqb_spec), Q.
Qed.

Lemma dedup_last_snoc w x : dedup_last (w ++ [x]) = la_touch x (dedup_last w).
Proof.
  unfold BusSpec.la_touch. induction w as [|y r IH]; cbn; [reflexivity|].
  rewrite mem_app. cbn. rewrite orb_false_r.
  destruct (leqb x y) eqn:Q.
  - apply leqb_spec in Q. subst y. rewrite orb_true_r, IH.
    destruct (mem x r); [reflexivity|]. cbn. rewrite (proj2 (leqb_spec x x) eq_refl). reflexivity.
  - rewrite orb_false_r. destruct (mem y r); [exact IH|]. cbn.
    assert (leqb y x = false) as ->.
    { destruct (leqb y x) eqn:Q'; [|reflexivity]. apply leqb_spec in Q'. subst. rewrite (proj2 (leqb_spec x x) eq_refl) in Q. discriminate. }
    cbn. rewrite IH. reflexivity.
Qed.

(* the cache is the suffix of length min(k, .) of the distinct uses in last-use order *)
Definition is_lru (k : nat) (w c : list L) : Prop :=
  exists pre, dedup_last w = pre ++ c /\ length c = Nat.min k (length (dedup_last w)).

Lemma lru_step k w c x : (1 <= k)%nat -> is_lru k w c -> is_lru k (w ++ [x]) (s_touch (Some (Z.of_nat k)) x c).
Proof.
  intros K (pre & E & Hlen). unfold is_lru. rewrite dedup_last_snoc.
  pose proof (dedup_last_NoDup w) as N. rewrite E in N.
  destruct (NoDup_app_inv pre c N) as (Npre & Nc & Disj).
  assert (ED : la_touch x (dedup_last w) = la_remove x pre ++ la_touch x c).
  { rewrite E. unfold BusSpec.la_touch. rewrite la_remove_app, app_assoc. reflexivity. }
  rewrite ED. rewrite E, app_length in Hlen. unfold BusSpec.s_touch, s_trim.
  destruct (mem x c) eqn:Qc; [apply (mem_In L leqb leqb_spec) in Qc; rename Qc into Ic | apply (mem_false L leqb leqb_spec) in Qc; rename Qc into Ic].
  - (* a hit *)
    rewrite (la_remove_notin L leqb leqb_spec x pre) by (intro H; exact (Disj x H Ic)).
    pose proof (la_touch_length_in L leqb leqb_spec x c Nc Ic) as Hl. rewrite Hl.
    destruct (Z.of_nat (length c) >? Z.of_nat k) eqn:G; [lia|].
    exists pre. split; [reflexivity|]. rewrite app_length, Hl. lia.
  - assert (Ec : la_touch x c = c ++ [x]) by (unfold BusSpec.la_touch; rewrite (la_remove_notin L leqb leqb_spec x c Ic); reflexivity).
    rewrite Ec, app_length. cbn [length].
    destruct (Z.of_nat (length c + 1) >? Z.of_nat k) eqn:G.
    + (* the least recently used label goes *)
      assert (length c = k) by lia.
      destruct c as [|h t]; [cbn in *; lia|]. cbn [tl app].
      exists (la_remove x pre ++ [h]). split; [rewrite <- app_assoc; reflexivity|].
      rewrite !app_length. cbn [length] in *. rewrite app_length. cbn [length]. lia.
    + (* room left: nothing was ever evicted, so pre is empty *)
      assert (length pre = 0%nat) by lia. destruct pre; [|discriminate]. cbn [la_remove BusSpec.la_remove filter app].
      exists []. split; [reflexivity|]. rewrite app_length. cbn [length]. lia.
Qed.

(* LRU over every sequence of uses of a freshly opened Bus with max_persist = k >= 1 *)
Theorem lru_characterisation k w : (1 <= k)%nat ->
  is_lru k w (fold_left (fun c l => s_touch (Some (Z.of_nat k)) l c) w []).
Proof.
  intro K. induction w as [|x r IH] using rev_ind.
  - exists []. cbn. rewrite Nat.min_0_r. auto.
  - rewrite fold_left_app. cbn [fold_left]. apply lru_step; assumption.
Qed.

(* without max_persist nothing is ever dropped *)
Theorem no_limit_keeps_all w :
  fold_left (fun c l => s_touch None l c) w [] = dedup_last w.
Proof.
  induction w as [|x r IH] using rev_ind; [reflexivity|].
  rewrite fold_left_app. cbn [fold_left]. rewrite IH, dedup_last_snoc. reflexivity.
Qed.

End LRU.
