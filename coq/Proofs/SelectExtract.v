(* C04 -- Frame._extract over the block manager equals the 2-D specification on the flattened frame,
   for every block layout, every row key and every column key. *)
Require Import SF.Prelude SF.PySlice SF.Dtype SF.Blocks SF.Select
  Proofs.SliceFacts Proofs.BlocksSelect Proofs.SelectFacts Proofs.SelectBundles.

Section Extract.
Context {A L : Type}.
Variable leqb : L -> L -> bool.
Variable rdt : list dtype -> dtype.

Notation mframe := (mframe A L).
Notation M_extract := (M_extract leqb rdt).
Notation S_extract := (S_extract leqb rdt).
Notation S_extract_sel := (S_extract_sel leqb rdt).

(* the frame invariant (established by the Frame constructor): aligned blocks, one label per row and
   per column, unique labels on both axes *)
Definition wf_mframe (f : mframe) : Prop :=
  wf_tb (mf_blocks f) /\
  0 <= mf_rows f /\
  Forall (fun c => Z.of_nat (length (snd c)) = mf_rows f) (flatten (mf_blocks f)) /\
  Z.of_nat (length (mf_index f)) = mf_rows f /\
  length (mf_columns f) = length (flatten (mf_blocks f)) /\
  nodupb leqb (mf_index f) = true /\
  nodupb leqb (mf_columns f) = true.

(* ---------- blocks after column selection ---------- *)
Lemma slice_blocks_1d (t : tb A) pairs t' : slice_blocks t pairs = Some t' ->
  forall b', In b' t' -> b_1d b' = true -> In b' t.
Proof.
  unfold slice_blocks. revert t'. induction pairs as [|[bi slc] pairs IH]; intros t'; cbn [map opt_all].
  - intros E. injection E as <-. intros b' [].
  - cbn [fst snd]. destruct (nth_z t bi) as [b|] eqn:Eb; [|discriminate].
    destruct (slice_block b slc) as [b1|] eqn:Es; [|discriminate].
    destruct (opt_all _) as [rest|] eqn:Er; [|discriminate].
    intros E. injection E as <-. intros b' [<-|Hin] H1.
    + unfold slice_block in Es. destruct (b_1d b) eqn:Hb.
      * injection Es as <-. unfold nth_z in Eb. destruct (bi <? 0); [discriminate|].
        eapply nth_error_In; eassumption.
      * destruct (slice_list (b_cols b) slc); [|discriminate]. injection Es as <-. discriminate.
    + eapply IH; [reflexivity|eassumption|assumption].
Qed.

Lemma select_columns_1d (t : tb A) k t' : M_select_columns_dir t k = Ok t' ->
  forall b', In b' t' -> b_1d b' = true -> In b' t.
Proof.
  unfold M_select_columns_dir. destruct (key_to_block_slices_dir t k) as [pairs|]; [|discriminate].
  destruct (slice_blocks t pairs) as [t1|] eqn:E; [|discriminate].
  intros E'. injection E' as <-. eapply slice_blocks_1d. eassumption.
Qed.

Lemma in_flatten (t : tb A) b c : In b t -> In c (b_cols b) -> In (b_dtype b, c) (flatten t).
Proof.
  intros Hb Hc. unfold flatten. apply in_flat_map. exists b. split; [assumption|].
  unfold block_columns. apply in_map. assumption.
Qed.

Lemma blocks_ok_after_select (t t' : tb A) n k cols ps : wf_tb t ->
  Forall (fun c => Z.of_nat (length (snd c)) = n) (flatten t) ->
  M_select_columns_dir t k = Ok t' -> flatten t' = cols -> take_positions (flatten t) ps = Some cols ->
  Forall (block_ok n) t'.
Proof.
  intros Hwf Hlen HM Hf Htake. apply Forall_forall. intros b' Hb'. split.
  - intros H1. pose proof (select_columns_1d t k t' HM b' Hb' H1) as Hin.
    unfold wf_tb in Hwf. rewrite Forall_forall in Hwf. destruct (Hwf b' Hin) as [_ Hone].
    specialize (Hone H1). destruct (b_cols b') as [|c [|? ?]]; try discriminate. eexists; reflexivity.
  - apply Forall_forall. intros c Hc.
    pose proof (in_flatten t' b' c Hb' Hc) as Hin. rewrite Hf in Hin.
    pose proof (take_positions_In _ _ _ _ Htake Hin) as Hin'.
    rewrite Forall_forall in Hlen. exact (Hlen _ Hin').
Qed.

(* ---------- rows applied to every block ---------- *)
Lemma take_rows_block (b b' : block A) rp :
  b_dtype b' = b_dtype b ->
  opt_all (map (fun c => take_positions c rp) (b_cols b)) = Some (b_cols b') ->
  opt_all (map (take_rows rp) (block_columns b)) = Some (block_columns b').
Proof.
  intros Hd. unfold block_columns. rewrite Hd.
  generalize (b_cols b') as out. generalize (b_cols b) as cols.
  induction cols as [|c cols IH]; intros out; cbn [map opt_all].
  - intros E. injection E as <-. reflexivity.
  - unfold take_rows at 1. cbn [fst snd].
    destruct (take_positions c rp) as [v|]; [|discriminate].
    destruct (opt_all (map (fun c0 => take_positions c0 rp) cols)) as [vs|] eqn:Ev; [|discriminate].
    intros E. injection E as <-. rewrite (IH vs eq_refl). reflexivity.
Qed.

Lemma rows_apply_all (t' : tb A) rk n rp : 0 <= n -> Forall (block_ok n) t' ->
  key_positions rk n = Ok rp ->
  exists bs, res_all (map (row_apply rk (Z.of_nat (length rp) =? 1) n) t') = Ok bs /\
             opt_all (map (take_rows rp) (flatten t')) = Some (flatten bs) /\
             Forall (fun b => Forall (fun c => length c = length rp) (b_cols b)) bs.
Proof.
  intros Hn Hok Hk. induction Hok as [|b t' Hb _ IH].
  - exists []. repeat split; constructor.
  - destruct IH as (bs & Er & Ef & Hl).
    destruct (row_apply_ok rk n rp b Hn Hb Hk) as (b' & Eb & Ed & Ec).
    exists (b' :: bs). cbn [map res_all]. rewrite Eb, Er. split; [reflexivity|]. split.
    + cbn [flatten flat_map]. fold (flatten t'). fold (flatten bs). rewrite map_app.
      apply opt_all_app; [|exact Ef]. apply take_rows_block; assumption.
    + constructor; [|exact Hl]. apply Forall_forall. intros c Hc.
      apply opt_all_Some in Ec.
      assert (Hin : In (Some c) (map Some (b_cols b'))) by (apply in_map; exact Hc).
      rewrite <- Ec in Hin. apply in_map_iff in Hin as (c0 & E0 & _).
      eapply take_positions_length. eassumption.
Qed.

(* ---------- from_blocks ---------- *)
Definition tbr_ok (t : tbr A) (data : list (dtype * list A)) (rows : Z) : Prop :=
  flatten (tbr_blocks t) = data /\ tbr_ncols t = Z.of_nat (length data) /\ tbr_rows t = rows /\
  Forall (fun b => b_cols b <> []) (tbr_blocks t).

Lemma flatten_filter_width (bs : tb A) :
  flatten (filter (fun b => negb (width b =? 0)) bs) = flatten bs.
Proof.
  induction bs as [|b bs IH]; [reflexivity|]. cbn [filter].
  destruct (width b =? 0) eqn:E; cbn [negb].
  - rewrite IH. cbn [flatten flat_map]. unfold width in E.
    destruct (b_cols b) eqn:Ec; [|cbn in E; lia]. unfold block_columns. rewrite Ec. reflexivity.
  - cbn [flatten flat_map]. fold (flatten bs). fold (flatten (filter (fun b0 => negb (width b0 =? 0)) bs)).
    rewrite IH. reflexivity.
Qed.

Lemma filter_width_nonempty (bs : tb A) :
  Forall (fun b => b_cols b <> []) (filter (fun b => negb (width b =? 0)) bs).
Proof.
  apply Forall_forall. intros b Hb. apply filter_In in Hb as [_ Hw].
  unfold width in Hw. destruct (b_cols b); [cbn in Hw; discriminate|discriminate].
Qed.

Lemma from_blocks_ok (bs : tb A) (r : nat) ref :
  Forall (fun b => Forall (fun c => length c = r) (b_cols b)) bs ->
  exists t, from_blocks bs ref = Ok t /\
            tbr_ok t (flatten bs) (match flatten bs with [] => ref | _ => Z.of_nat r end).
Proof.
  intros Hl. unfold from_blocks.
  pose proof (flatten_filter_width bs) as Hf. pose proof (filter_width_nonempty bs) as Hne.
  assert (Hl' : Forall (fun b => Forall (fun c => length c = r) (b_cols b)) (filter (fun b => negb (width b =? 0)) bs)).
  { apply Forall_forall. intros b Hb. apply filter_In in Hb as [Hb _].
    rewrite Forall_forall in Hl. exact (Hl b Hb). }
  set (bs' := filter (fun b => negb (width b =? 0)) bs) in *. clearbody bs'.
  destruct bs' as [|b rest].
  - cbn in Hf. rewrite <- Hf. eexists. split; [reflexivity|]. repeat split. constructor.
  - assert (Hrows : forall b0, In b0 (b :: rest) -> block_rows b0 = Z.of_nat r).
    { intros b0 Hb0. rewrite Forall_forall in Hne, Hl'. specialize (Hne b0 Hb0). specialize (Hl' b0 Hb0).
      unfold block_rows, mat_rows. destruct (b_cols b0) as [|c cs]; [congruence|].
      inversion Hl'; subst. reflexivity. }
    assert (Hall : forallb (fun b' => block_rows b' =? block_rows b) rest = true).
    { apply forallb_forall. intros b0 Hb0. rewrite (Hrows b0) by (right; assumption).
      rewrite (Hrows b) by (left; reflexivity). lia. }
    rewrite Hall. eexists. split; [reflexivity|].
    unfold tbr_ok. cbn [tbr_blocks tbr_ncols tbr_rows]. rewrite Hf.
    split; [reflexivity|]. split; [reflexivity|]. split; [|exact Hne].
    rewrite <- Hf. inversion Hne as [|? ? Hb _]; subst.
    cbn [flatten flat_map]. unfold block_columns at 1. destruct (b_cols b) as [|c cs] eqn:Ec; [congruence|].
    cbn [map app]. rewrite (Hrows b) by (left; reflexivity). reflexivity.
Qed.

Lemma first_block_1d_hd (t : tbr A) data rows : tbr_ok t data rows ->
  first_block_1d t = match data with c :: _ => c | [] => (DFlt 8, []) end.
Proof.
  intros (Hf & _ & _ & Hne). unfold first_block_1d. rewrite <- Hf.
  destruct (tbr_blocks t) as [|b bs]; [reflexivity|].
  inversion Hne as [|? ? Hb _]; subst. cbn [flatten flat_map]. unfold block_columns.
  destruct (b_cols b) as [|c cs]; [congruence|]. reflexivity.
Qed.

Lemma one_column_ok d (v : list A) : tbr_ok (one_column d v) [(d, v)] (Z.of_nat (length v)).
Proof. unfold tbr_ok, one_column. cbn. repeat split. constructor; [discriminate|constructor]. Qed.

(* ---------- the index side ---------- *)
Lemma axis_extract_spec labels k s ls d : nodupb leqb labels = true ->
  ckey_sel k (Z.of_nat (length labels)) = Ok s ->
  take_positions labels (sel_positions s) = Some ls ->
  axis_extract leqb labels k =
    match s with
    | SOne _ => Ok (AxOne (hd d ls))
    | SMany _ => ls' <- new_index leqb ls;; Ok (AxMany ls')
    end.
Proof.
  intros Hnd Hs Ht. unfold axis_extract.
  destruct k as [|i|sl|l|m];
    try (pose proof (ckey_sel_positions _ _ _ Hs) as Hp; rewrite Hp;
         unfold ckey_sel in Hs; rewrite Hp in Hs; injection Hs as <-; cbn [sel_positions] in *;
         cbn [res_bind]; rewrite Ht; reflexivity).
  - (* all: the index object itself; its labels are unique already *)
    unfold ckey_sel in Hs. cbn [key_positions] in Hs. injection Hs as <-. cbn [sel_positions] in Ht.
    rewrite Nat2Z.id, take_positions_all in Ht. injection Ht as <-.
    unfold new_index. rewrite Hnd. reflexivity.
  - unfold ckey_sel in Hs. rewrite py_nth_norm.
    destruct (norm_index i (Z.of_nat (length labels))) as [j|]; [|discriminate]. injection Hs as <-.
    cbn [sel_positions take_positions] in Ht. destruct (nth_z labels j) as [x|]; [|discriminate].
    injection Ht as <-. reflexivity.
Qed.

Lemma axis_extract_err labels k e :
  ckey_sel k (Z.of_nat (length labels)) = Err e -> axis_extract leqb labels k = Err e.
Proof.
  intros Hs. pose proof (ckey_sel_err _ _ _ Hs) as Hk. unfold axis_extract.
  destruct k as [|i|sl|l|m]; try (rewrite Hk; reflexivity).
  - discriminate.
  - cbn [key_positions] in Hk. rewrite py_nth_norm.
    destruct (norm_index i (Z.of_nat (length labels))); [discriminate|]. injection Hk as <-. reflexivity.
Qed.

(* ---------- TypeBlocks._extract ---------- *)
Lemma take_positions_single {B} (l : list B) j out : take_positions l [j] = Some out ->
  exists x, nth_z l j = Some x /\ out = [x].
Proof.
  cbn. destruct (nth_z l j) as [x|]; [|discriminate]. intros E. injection E as <-. eexists; split; reflexivity.
Qed.

Lemma index_lookup (t : tb A) p : wf_tb t -> 0 <= p < Z.of_nat (length (flatten t)) ->
  exists bi j b col, nth_z (tb_index t) p = Some (bi, j) /\ nth_z t bi = Some b /\
    (if b_1d b then nth_z (b_cols b) 0 else nth_z (b_cols b) j) = Some col /\
    nth_z (flatten t) p = Some (b_dtype b, col).
Proof.
  intros Hwf Hp. unfold tb_index.
  destruct (nth_z_in_range (index_from 0 t) p) as [[bi j] E]; [rewrite index_from_length; exact Hp|].
  destruct (index_from_spec t 0 p bi j ltac:(lia) E) as (_ & Hf & b & Hb & Hj).
  rewrite Z.sub_0_r in *. unfold col_at in Hf. rewrite Hb in Hf.
  destruct (nth_z_in_range (b_cols b) j) as [col Ecol]; [unfold width in Hj; exact Hj|].
  rewrite Ecol in Hf. exists bi, j, b, col. repeat split; try assumption.
  destruct (b_1d b) eqn:E1; [|exact Ecol].
  unfold wf_tb in Hwf. rewrite Forall_forall in Hwf.
  assert (Hin : In b t).
  { unfold nth_z in Hb. destruct (bi <? 0); [discriminate|]. eapply nth_error_In; eassumption. }
  destruct (Hwf b Hin) as [_ Hone]. specialize (Hone E1). unfold width in Hj.
  assert (j = 0) by lia. subst j. exact Ecol.
Qed.

Definition walk (t : tb A) (n : Z) (rk ck : ckey) : res (tb_or_elem A) :=
  match M_select_columns_dir t ck with
  | Err e => Err e
  | Ok t' =>
      sr <- single_row rk n;;
      bs <- res_all (map (row_apply rk sr n) t');;
      ref <- match rk with
             | CAll | CInt _ => Ok n
             | _ => rp <- key_positions rk n;; Ok (Z.of_nat (length rp))
             end;;
      r <- from_blocks bs ref;;
      Ok (TBlocks r)
  end.

Lemma M_tb_extract_walk (t : tb A) n rk ck : is_int ck = false -> M_tb_extract t n rk ck = walk t n rk ck.
Proof. destruct ck; try reflexivity. discriminate. Qed.

Lemma is_int_true ck : is_int ck = true -> exists c, ck = CInt c.
Proof. destruct ck; try discriminate. eexists; reflexivity. Qed.

(* the blocks (or element) TypeBlocks._extract returns, for well-formed keys *)
(* the row count of the extracted TypeBlocks: the selected rows; with a scalar row key and no column, the
   unselected count (never looked at: Frame._extract returns the empty Series) *)
Definition rows_of (rs : sel) (data : list (dtype * list A)) (n : Z) : Z :=
  match rs with
  | SOne _ => match data with [] => n | _ => 1 end
  | SMany rp => Z.of_nat (length rp)
  end.

Lemma ref_rows rk n rs : 0 <= n -> ckey_sel rk n = Ok rs ->
  match rk with
  | CAll | CInt _ => Ok n
  | _ => rp <- key_positions rk n;; Ok (Z.of_nat (length rp))
  end = Ok (match rs with SOne _ => n | SMany rp => Z.of_nat (length rp) end).
Proof.
  intros Hn Hs. pose proof (ckey_sel_positions _ _ _ Hs) as Hp.
  destruct rk as [|i|sl|l|m];
    try (rewrite Hp; cbn [res_bind]; unfold ckey_sel in Hs; rewrite Hp in Hs; injection Hs as <-; reflexivity).
  - unfold ckey_sel in Hs. cbn [key_positions] in Hs. injection Hs as <-.
    rewrite map_length, seq_length, Z2Nat.id by lia. reflexivity.
  - unfold ckey_sel in Hs. destruct (norm_index i n); [|discriminate]. injection Hs as <-. reflexivity.
Qed.

Lemma tb_extract_spec (t : tb A) n rk ck rs cs cols data : wf_tb t -> 0 <= n ->
  Forall (fun c => Z.of_nat (length (snd c)) = n) (flatten t) ->
  ckey_sel ck (Z.of_nat (length (flatten t))) = Ok cs ->
  ckey_sel rk n = Ok rs ->
  take_positions (flatten t) (sel_positions cs) = Some cols ->
  opt_all (map (take_rows (sel_positions rs)) cols) = Some data ->
  match rs, cs with
  | SOne _, SOne _ => exists d a, data = [(d, [a])] /\ M_tb_extract t n rk ck = Ok (TElem a)
  | _, _ => exists t', M_tb_extract t n rk ck = Ok (TBlocks t') /\ tbr_ok t' data (rows_of rs data n)
  end.
Proof.
  intros Hwf Hn Hlen Hcs Hrs Hcols Hdata.
  pose proof (ckey_sel_range _ _ _ Hn Hrs) as Hrr.
  pose proof (ckey_sel_positions _ _ _ Hrs) as Hrp.
  destruct (is_int ck) eqn:Eint.
  { (* integer column key *)
    destruct (is_int_true _ Eint) as [c ->].
    unfold ckey_sel in Hcs. destruct (norm_index c _) as [p|] eqn:Ep; [|discriminate]. injection Hcs as <-.
    cbn [sel_positions] in *.
    destruct (index_lookup t p Hwf (norm_index_range _ _ _ Ep)) as (bi & j & b & col & Ei & Eb & Ecol & Ef).
    destruct (take_positions_single _ _ _ Hcols) as (x & Ex & ->). rewrite Ef in Ex. injection Ex as <-.
    assert (Hcl : Z.of_nat (length col) = n).
    { rewrite Forall_forall in Hlen. apply (Hlen (b_dtype b, col)).
      unfold nth_z in Ef. destruct (p <? 0); [discriminate|]. eapply nth_error_In; eassumption. }
    cbn [map opt_all] in Hdata. unfold take_rows in Hdata. cbn [fst snd] in Hdata.
    destruct (take_positions col (sel_positions rs)) as [v|] eqn:Ev; [|discriminate]. injection Hdata as <-.
    assert (Epy : py_nth (tb_index t) c = Some (bi, j)).
    { rewrite py_nth_norm. unfold tb_index at 1. rewrite index_from_length, Ep. exact Ei. }
    unfold M_tb_extract. rewrite Epy, Eb, Ecol.
    destruct rs as [i|rp]; cbn [sel_positions] in *.
    - (* element *)
      unfold ckey_sel in Hrs. destruct rk as [|r|s|l|m];
        try (destruct (key_positions _ n); discriminate).
      destruct (norm_index r n) as [i'|] eqn:Er; [|discriminate]. injection Hrs as <-.
      destruct (take_positions_single _ _ _ Ev) as (a & Ea & ->).
      exists (b_dtype b), a. split; [reflexivity|].
      rewrite py_nth_norm, Hcl, Er, Ea. reflexivity.
    - pose proof (take_positions_length _ _ _ Ev) as Hvl.
      destruct rk as [|r|s|l|m].
      + cbn [key_positions] in Hrp. injection Hrp as <-.
        rewrite (take_all_col col n Hcl) in Ev. injection Ev as <-.
        eexists. split; [reflexivity|]. unfold rows_of. rewrite <- Hvl. apply one_column_ok.
      + unfold ckey_sel in Hrs. destruct (norm_index r n); discriminate.
      + rewrite Hrp. cbn [res_bind]. rewrite Ev. eexists. split; [reflexivity|]. unfold rows_of. rewrite <- Hvl. apply one_column_ok.
      + rewrite Hrp. cbn [res_bind]. rewrite Ev. eexists. split; [reflexivity|]. unfold rows_of. rewrite <- Hvl. apply one_column_ok.
      + rewrite Hrp. cbn [res_bind]. rewrite Ev. eexists. split; [reflexivity|]. unfold rows_of. rewrite <- Hvl. apply one_column_ok. }
  (* walk over the blocks *)
  assert (Hcp : key_positions ck (Z.of_nat (length (flatten t))) = Ok (sel_positions cs))
    by (apply ckey_sel_positions; exact Hcs).
  assert (Hmany : exists cp, cs = SMany cp).
  { pose proof (ckey_sel_is_int _ _ _ Hcs) as H. rewrite Eint in H. destruct cs; [discriminate|eexists; reflexivity]. }
  destruct Hmany as [cp ->]. cbn [sel_positions] in *.
  pose proof (select_columns_dir_refines t ck Hwf) as Href.
  unfold S_select_columns in Href. rewrite Hcp, Hcols in Href.
  destruct (M_select_columns_dir t ck) as [t'|] eqn:EM; [|discriminate].
  cbn [res_map] in Href. injection Href as Hft'.
  pose proof (blocks_ok_after_select t t' n ck cols cp Hwf Hlen EM Hft' Hcols) as Hok.
  destruct (rows_apply_all t' rk n (sel_positions rs) Hn Hok Hrp) as (bs & Ebs & Efl & Hbl).
  rewrite Hft', Hdata in Efl. injection Efl as Efl.
  set (ref := match rs with SOne _ => n | SMany rp => Z.of_nat (length rp) end).
  destruct (from_blocks_ok bs (length (sel_positions rs)) ref Hbl) as (tr & Etr & Htr).
  rewrite <- Efl in Htr.
  assert (EMt : M_tb_extract t n rk ck = Ok (TBlocks tr)).
  { rewrite M_tb_extract_walk by exact Eint. unfold walk. rewrite EM.
    rewrite (single_row_spec rk n _ Hn Hrp). cbn [res_bind]. rewrite Ebs. cbn [res_bind].
    rewrite (ref_rows rk n rs Hn Hrs). cbn [res_bind]. fold ref. rewrite Etr. reflexivity. }
  assert (Hrows : match data with [] => ref | _ :: _ => Z.of_nat (length (sel_positions rs)) end = rows_of rs data n).
  { unfold rows_of, ref. destruct rs, data; reflexivity. }
  rewrite Hrows in Htr.
  destruct rs; (eexists; split; [exact EMt|exact Htr]).
Qed.

(* ---------- the decision tree of Frame._extract ---------- *)
Lemma ifs_frame (r c : Z) (X : res (xres A L)) :
  (if (r =? 0) || (c =? 0) then X
   else if (r =? 1) && (c =? 1) then X
   else if r =? 1 then X
   else if c =? 1 then X else X) = X.
Proof. destruct ((r =? 0) || (c =? 0)), ((r =? 1) && (c =? 1)), (r =? 1), (c =? 1); reflexivity. Qed.

Lemma concat_firstn1 (data : list (dtype * list A)) :
  Forall (fun c => length (snd c) = 1%nat) data ->
  concat (map (fun c => firstn 1 (snd c)) data) = concat (map snd data).
Proof.
  induction 1 as [|c data Hc _ IH]; [reflexivity|]. cbn [map concat]. rewrite IH, firstn_1_len1 by exact Hc. reflexivity.
Qed.

Lemma concat_len1 (data : list (dtype * list A)) :
  Forall (fun c => length (snd c) = 1%nat) data -> length (concat (map snd data)) = length data.
Proof.
  induction 1 as [|c data Hc _ IH]; [reflexivity|]. cbn [map concat length]. rewrite app_length, IH, Hc. reflexivity.
Qed.

Lemma take_rows_all_length rp (cols data : list (dtype * list A)) :
  opt_all (map (take_rows rp) cols) = Some data ->
  length data = length cols /\ Forall (fun c => length (snd c) = length rp) data.
Proof.
  revert data. induction cols as [|c cols IH]; intros data; cbn [map opt_all].
  - intros E. injection E as <-. split; [reflexivity|constructor].
  - unfold take_rows at 1. destruct (take_positions (snd c) rp) as [v|] eqn:Ev; [|discriminate].
    destruct (opt_all (map (take_rows rp) cols)) as [vs|] eqn:Evs; [|discriminate].
    intros E. injection E as <-. destruct (IH vs eq_refl) as [Hl Hf]. split; [cbn; congruence|].
    constructor; [cbn; eapply take_positions_length; eassumption|exact Hf].
Qed.

Lemma new_index_ok (l l' : list L) : new_index leqb l = Ok l' -> l' = l.
Proof. unfold new_index. destruct (nodupb leqb l); [|discriminate]. intros E. injection E as <-. reflexivity. Qed.

Lemma take_rows_total rp (cols : list (dtype * list A)) n :
  Forall (fun c => Z.of_nat (length (snd c)) = n) cols -> (forall p, In p rp -> 0 <= p < n) ->
  exists data, opt_all (map (take_rows rp) cols) = Some data.
Proof.
  induction 1 as [|c cols Hc _ IH]; intros Hr; [eexists; reflexivity|].
  destruct (IH Hr) as [data Ed].
  destruct (take_positions_total (snd c) rp) as [v Ev]; [intros p Hp; specialize (Hr p Hp); lia|].
  cbn [map opt_all]. unfold take_rows at 1. rewrite Ev, Ed. eexists; reflexivity.
Qed.

(* the decision tree written out as the nested conditionals of frame.py:3823-3860 *)
Definition M_extract_ifs (f : mframe) (rk ck : ckey) : res (xres A L) :=
  te <- M_tb_extract (mf_blocks f) (mf_rows f) rk ck;;
  match te with
  | TElem a => Ok (XElem a)
  | TBlocks t =>
      ri <- axis_extract leqb (mf_index f) rk;;
      ci <- axis_extract leqb (mf_columns f) ck;;
      let name_row := ax_name ri (mf_name f) in
      let name_column := ax_name ci (mf_name f) in
      let nm0 := is_int rk in
      let nm1 := is_int ck in
      let frame := mk_frame t ri ci (mf_name f) in
      if (tbr_rows t =? 0) || (tbr_ncols t =? 0) then
        if nm0 then mk_series (first_block_1d t) ci name_row
        else if nm1 then mk_series (first_block_1d t) ri name_column
        else frame
      else if (tbr_rows t =? 1) && (tbr_ncols t =? 1) then
        if nm0 then mk_series (values_row0 rdt t) ci name_row
        else if nm1 then mk_series (values_row0 rdt t) ri name_column
        else frame
      else if tbr_rows t =? 1 then
        if nm0 then mk_series (values_row0 rdt t) ci name_row else frame
      else if tbr_ncols t =? 1 then
        if nm1 then mk_series (first_block_1d t) ri name_column else frame
      else frame
  end.

Lemma M_extract_ifs_eq f rk ck : M_extract f rk ck = M_extract_ifs f rk ck.
Proof.
  unfold Select.M_extract, M_extract_ifs.
  destruct (M_tb_extract (mf_blocks f) (mf_rows f) rk ck) as [[a|t]|e]; cbn [res_bind]; try reflexivity.
  destruct (axis_extract leqb (mf_index f) rk) as [ri|e]; cbn [res_bind]; [|reflexivity].
  destruct (axis_extract leqb (mf_columns f) ck) as [ci|e]; cbn [res_bind]; [|reflexivity].
  unfold extract_decision.
  destruct ((tbr_rows t =? 0) || (tbr_ncols t =? 0)), ((tbr_rows t =? 1) && (tbr_ncols t =? 1)),
    (tbr_rows t =? 1), (tbr_ncols t =? 1), (is_int rk), (is_int ck); reflexivity.
Qed.

(* ==================== THE REFINEMENT ==================== *)
Theorem extract_refines (f : mframe) (rk ck : ckey) : wf_mframe f ->
  M_extract f rk ck = S_extract (abs_frame f) rk ck.
Proof.
  intros (Hwf & Hn & Hlen & Hidx & Hcols & Hndi & Hndc).
  unfold Select.S_extract. cbn [abs_frame sf_cols sf_index]. rewrite Hidx.
  set (t := mf_blocks f) in *. set (n := mf_rows f) in *. set (m := Z.of_nat (length (flatten t))) in *.
  assert (Hm : Z.of_nat (length (mf_columns f)) = m) by (unfold m; rewrite Hcols; reflexivity).
  destruct (ckey_sel ck m) as [cs|e] eqn:Ecs; cbn [res_bind].
  2: { (* malformed column key *)
    rewrite M_extract_ifs_eq. unfold M_extract_ifs. fold t. fold n.
    destruct (is_int ck) eqn:Eint.
    - destruct (is_int_true _ Eint) as [c ->]. unfold M_tb_extract.
      unfold ckey_sel in Ecs. rewrite py_nth_norm. unfold tb_index at 1. rewrite index_from_length. fold m.
      destruct (norm_index c m); [discriminate|]. injection Ecs as <-. reflexivity.
    - rewrite M_tb_extract_walk by exact Eint. unfold walk.
      pose proof (select_columns_dir_refines t ck Hwf) as Href.
      unfold S_select_columns in Href. fold m in Href. rewrite (ckey_sel_err _ _ _ Ecs) in Href.
      destruct (M_select_columns_dir t ck); [discriminate|]. cbn [res_map] in Href. injection Href as ->.
      reflexivity. }
  assert (Hm0 : 0 <= m) by (unfold m; lia).
  assert (Hcr := ckey_sel_range _ _ _ Hm0 Ecs).
  destruct (take_positions_total (flatten t) (sel_positions cs) Hcr) as [cols Ecols].
  destruct (take_positions_total (mf_columns f) (sel_positions cs)) as [cidx Ecidx];
    [intros p Hp; specialize (Hcr p Hp); lia|].
  destruct (ckey_sel rk n) as [rs|e] eqn:Ers; cbn [res_bind].
  2: { (* malformed row key *)
    pose proof (ckey_sel_err _ _ _ Ers) as Hrk.
    rewrite M_extract_ifs_eq. unfold M_extract_ifs. fold t. fold n.
    destruct (is_int ck) eqn:Eint.
    - destruct (is_int_true _ Eint) as [c ->]. unfold M_tb_extract.
      unfold ckey_sel in Ecs. destruct (norm_index c m) as [p|] eqn:Ep; [|discriminate].
      destruct (index_lookup t p Hwf (norm_index_range _ _ _ Ep)) as (bi & j & b & col & Ei & Eb & Ecol & Ef).
      assert (Hcl : Z.of_nat (length col) = n).
      { rewrite Forall_forall in Hlen. apply (Hlen (b_dtype b, col)).
        unfold nth_z in Ef. destruct (p <? 0); [discriminate|]. eapply nth_error_In; eassumption. }
      rewrite py_nth_norm. unfold tb_index at 1. rewrite index_from_length. fold m. rewrite Ep, Ei, Eb, Ecol.
      destruct rk as [|r|s|l|mk]; try (rewrite Hrk; reflexivity).
      + discriminate.
      + cbn [key_positions] in Hrk. rewrite py_nth_norm, Hcl.
        destruct (norm_index r n); [discriminate|]. injection Hrk as <-. reflexivity.
    - rewrite M_tb_extract_walk by exact Eint. unfold walk.
      pose proof (select_columns_dir_refines t ck Hwf) as Href.
      unfold S_select_columns in Href. fold m in Href.
      rewrite (ckey_sel_positions _ _ _ Ecs), Ecols in Href.
      destruct (M_select_columns_dir t ck) as [t'|] eqn:EM; [|discriminate].
      cbn [res_map] in Href. injection Href as Hft'.
      pose proof (blocks_ok_after_select t t' n ck cols _ Hwf Hlen EM Hft' Ecols) as Hok.
      destruct (single_row_err rk n e Hrk) as [Hsr|[sr Hsr]]; rewrite Hsr; cbn [res_bind]; [reflexivity|].
      destruct t' as [|b t'].
      + cbn [map res_all res_bind].
        (* no block: the row key fails when its rows are counted (or, for an integer, at the index) *)
        destruct rk as [|r|sl|l|mk]; try (rewrite Hrk; reflexivity); [discriminate|].
        cbn [res_bind from_blocks filter]. rewrite <- Hidx in Ers.
        rewrite (axis_extract_err _ _ _ Ers). reflexivity.
      + cbn [map res_all]. inversion Hok as [|? ? Hb _]; subst.
        rewrite (row_apply_err rk n e sr b Hb Hrk). reflexivity. }
  (* both keys are well formed *)
  assert (Hrr := ckey_sel_range _ _ _ Hn Ers).
  destruct (take_positions_total (mf_index f) (sel_positions rs)) as [ridx Eridx];
    [intros p Hp; rewrite Hidx; auto|].
  assert (Hcolslen : Forall (fun c => Z.of_nat (length (snd c)) = n) cols).
  { apply Forall_forall. intros c Hc. rewrite Forall_forall in Hlen. apply Hlen.
    eapply take_positions_In; eassumption. }
  destruct (take_rows_total (sel_positions rs) cols n Hcolslen Hrr) as [data Edata].
  unfold Select.S_extract_sel. cbn [abs_frame sf_index sf_columns sf_cols sf_name]. fold t.
  rewrite Eridx, Ecidx, Ecols, Edata.
  pose proof (tb_extract_spec t n rk ck rs cs cols data Hwf Hn Hlen Ecs Ers Ecols Edata) as Hspec.
  assert (Hri := axis_extract_spec (mf_index f) rk rs ridx (mf_name f) Hndi ltac:(rewrite Hidx; exact Ers) Eridx).
  assert (Hci := axis_extract_spec (mf_columns f) ck cs cidx (mf_name f) Hndc ltac:(rewrite Hm; exact Ecs) Ecidx).
  pose proof (ckey_sel_is_int _ _ _ Ers) as Hnm0. pose proof (ckey_sel_is_int _ _ _ Ecs) as Hnm1.
  destruct (take_rows_all_length _ _ _ Edata) as [Hdl Hdr].
  pose proof (take_positions_length _ _ _ Ecols) as Hcl.
  pose proof (take_positions_length _ _ _ Ecidx) as Hcil.
  pose proof (take_positions_length _ _ _ Eridx) as Hril.
  rewrite M_extract_ifs_eq. unfold M_extract_ifs. fold t. fold n.
  destruct rs as [i|rp], cs as [j|cp]; cbn [sel_positions] in *.
  - (* element *)
    destruct Hspec as (d & a & -> & ->). reflexivity.
  - (* one row: a Series over the selected columns *)
    destruct Hspec as (t' & -> & Hok). cbn [res_bind]. rewrite Hri, Hci, Hnm0, Hnm1. cbn [res_bind].
    destruct (new_index leqb cidx) as [cidx'|e] eqn:Eni; cbn [res_bind]; [|reflexivity].
    apply new_index_ok in Eni. subst cidx'.
    pose proof (first_block_1d_hd _ _ _ Hok) as Hfb.
    destruct Hok as (Hf & Hnc & Hr & Hne). unfold rows_of in Hr. cbn [ax_name].
    destruct data as [|c0 data0].
    + rewrite Hnc. cbn [length Z.of_nat Z.eqb orb]. rewrite Bool.orb_true_r. rewrite Hfb.
      assert (cidx = []) by (destruct cidx; [reflexivity|cbn in *; lia]). subst cidx. reflexivity.
    + rewrite Hr, Hnc. cbn [length] in Hdr |- *.
      replace (1 =? 0) with false by reflexivity.
      replace (Z.of_nat (S (length data0)) =? 0) with false by lia. cbn [orb].
      replace (1 =? 1) with true by reflexivity. cbn [andb].
      assert (Hv : values_row0 rdt t' = (row_dtype rdt (map fst (c0 :: data0)), concat (map snd (c0 :: data0)))).
      { unfold values_row0. rewrite Hf, concat_firstn1 by exact Hdr. reflexivity. }
      assert (Hms : mk_series (values_row0 rdt t') (AxMany cidx) (hd (mf_name f) ridx) =
                    Ok (XSeries cidx (concat (map snd (c0 :: data0))) (row_dtype rdt (map fst (c0 :: data0))) (hd (mf_name f) ridx))).
      { rewrite Hv. unfold mk_series. cbn [fst snd]. rewrite concat_len1 by exact Hdr.
        replace (length (c0 :: data0) =? length cidx)%nat with true; [reflexivity|].
        symmetry. apply Nat.eqb_eq. congruence. }
      destruct (Z.of_nat (S (length data0)) =? 1); exact Hms.
  - (* one column: a Series over the selected rows *)
    destruct Hspec as (t' & -> & Hok). cbn [res_bind]. rewrite Hri, Hci, Hnm0, Hnm1. cbn [res_bind].
    destruct (new_index leqb ridx) as [ridx'|e] eqn:Eni; cbn [res_bind]; [|reflexivity].
    apply new_index_ok in Eni. subst ridx'.
    pose proof (first_block_1d_hd _ _ _ Hok) as Hfb.
    destruct Hok as (Hf & Hnc & Hr & Hne). unfold rows_of in Hr. cbn [ax_name].
    destruct (take_positions_single _ _ _ Ecols) as (c0 & _ & ->).
    destruct data as [|[d v] [|? ?]]; try (cbn in Hdl; discriminate).
    inversion Hdr as [|? ? Hvl _]; subst. cbn [snd] in Hvl.
    rewrite Hr, Hnc, Hfb. cbn [length Z.of_nat Pos.of_succ_nat Z.eqb Pos.eqb orb andb].
    rewrite Bool.orb_false_r, Bool.andb_true_r.
    assert (Hms : mk_series (d, v) (AxMany ridx) (hd (mf_name f) cidx) = Ok (XSeries ridx v d (hd (mf_name f) cidx))).
    { unfold mk_series. cbn [fst snd]. replace (length v =? length ridx)%nat with true; [reflexivity|].
      symmetry. apply Nat.eqb_eq. congruence. }
    destruct (Z.of_nat (length rp) =? 0) eqn:H0; [exact Hms|].
    destruct (Z.of_nat (length rp) =? 1) eqn:H1; [|exact Hms].
    unfold values_row0. rewrite Hf. cbn [map fst snd concat row_dtype]. rewrite app_nil_r.
    rewrite firstn_1_len1 by lia. exact Hms.
  - (* a Frame *)
    destruct Hspec as (t' & -> & Hok). cbn [res_bind]. rewrite Hri, Hci, Hnm0, Hnm1. cbn [res_bind].
    destruct (new_index leqb ridx) as [ridx'|e] eqn:Eni; cbn [res_bind]; [|reflexivity].
    apply new_index_ok in Eni. subst ridx'.
    destruct (new_index leqb cidx) as [cidx'|e] eqn:Enc; cbn [res_bind]; [|reflexivity].
    apply new_index_ok in Enc. subst cidx'.
    rewrite ifs_frame. destruct Hok as (Hf & Hnc & Hr & Hne).
    unfold mk_frame. rewrite Hf, Hnc, Hr.
    replace (Z.of_nat (length cidx) =? Z.of_nat (length data)) with true by (symmetry; apply Z.eqb_eq; congruence).
    rewrite Bool.andb_true_r.
    assert (Hrows : Z.of_nat (length ridx) = rows_of (SMany rp) data n) by (unfold rows_of; congruence).
    rewrite Hrows, Z.eqb_refl. reflexivity.
Qed.

End Extract.

(* the guard is satisfiable and the theorem is not vacuous: a 2 x 3 frame in the layout [2-D(2) | 1-D] *)
Example extract_refines_instance :
  let f := mk_mframe [1; 2] [10; 20; 30]
             [mk_block (DInt true 8) false [[1; 2]; [3; 4]]; mk_block (DInt true 8) true [[5; 6]]] 2 0 in
  M_extract Z.eqb (fun _ => DObj) f (CMask [false; true]) (CSlice (mk_slice (Some 2) None (Some (-2))))
  = Ok (XFrame [2] [30; 10] [(DInt true 8, [6]); (DInt true 8, [2])] 0).
Proof. vm_compute. reflexivity. Qed.

