(* C17 -- list lemmas used by the refinement proof (positional arrays, insertion sort). *)
Require Import SF.Prelude SF.PySlice SF.BusSpec SF.Bus.

Lemma set_nth_length {A} n (x : A) l : length (set_nth n x l) = length l.
Proof. revert n. induction l as [|y r IH]; intros [|n]; cbn; auto. Qed.

Lemma nth_error_set_nth_eq {A} n (x : A) l : (n < length l)%nat -> nth_error (set_nth n x l) n = Some x.
Proof. revert n. induction l as [|y r IH]; intros [|n] H; cbn in *; try lia; auto. apply IH. lia. Qed.

Lemma nth_error_set_nth_ne {A} n i (x : A) l : i <> n -> nth_error (set_nth n x l) i = nth_error l i.
Proof.
  revert n i. induction l as [|y r IH]; intros [|n] [|i] H; cbn; auto; try congruence.
Qed.

Lemma nth_set_nth_eq {A} n (x d : A) l : (n < length l)%nat -> nth n (set_nth n x l) d = x.
Proof. revert n. induction l as [|y r IH]; intros [|n] H; cbn in *; try lia; auto. apply IH. lia. Qed.

Lemma nth_set_nth_ne {A} n i (x d : A) l : i <> n -> nth i (set_nth n x l) d = nth i l d.
Proof. revert n i. induction l as [|y r IH]; intros [|n] [|i] H; cbn; auto; try congruence. Qed.

Lemma map_set_nth {A B} (f : A -> B) n x l : map f (set_nth n x l) = set_nth n (f x) (map f l).
Proof. revert n. induction l as [|y r IH]; intros [|n]; cbn; auto. f_equal. apply IH. Qed.

Lemma nth_error_nth_false (l : list bool) i : nth i l false = true <-> nth_error l i = Some true.
Proof.
  revert i. induction l as [|b r IH]; intros [|i]; cbn; try (split; discriminate).
  - split; [intros ->; reflexivity | intro H; injection H; auto].
  - apply IH.
Qed.

(* insertion sort commutes with a map that preserves the order *)
Lemma insert_by_map {A B} (g : A -> B) (leA : A -> A -> bool) (leB : B -> B -> bool) :
  (forall x y, leB (g x) (g y) = leA x y) ->
  forall x l, insert_by leB (g x) (map g l) = map g (insert_by leA x l).
Proof.
  intros H x l. induction l as [|y r IH]; cbn; [reflexivity|].
  rewrite H. destruct (leA x y); cbn; [reflexivity|]. rewrite IH. reflexivity.
Qed.

Lemma isort_map {A B} (g : A -> B) (leA : A -> A -> bool) (leB : B -> B -> bool) :
  (forall x y, leB (g x) (g y) = leA x y) ->
  forall l, isort leB (map g l) = map g (isort leA l).
Proof.
  intros H l. unfold isort. induction l as [|x r IH]; cbn; [reflexivity|].
  rewrite IH. apply insert_by_map, H.
Qed.

Lemma insert_by_Forall {A} (P : A -> Prop) le x l : P x -> Forall P l -> Forall P (insert_by le x l).
Proof.
  intros Hx Hl. induction Hl as [|y r Hy Hr IH]; cbn; [repeat constructor; auto|].
  destruct (le x y); repeat constructor; auto.
Qed.

Lemma isort_Forall {A} (P : A -> Prop) le l : Forall P l -> Forall P (isort le l).
Proof. unfold isort. induction 1; cbn; [constructor | apply insert_by_Forall; auto]. Qed.

Lemma Forall_rev' {A} (P : A -> Prop) l : Forall P l -> Forall P (rev l).
Proof. intro H. apply Forall_forall. intros x I. apply in_rev in I. rewrite Forall_forall in H. auto. Qed.

Lemma all_true_map_true {A} (l : list A) : all_true (map (fun _ => true) l) = true.
Proof. induction l; cbn; auto. Qed.

Lemma all_true_spec bs : all_true bs = true <-> forall i, (i < length bs)%nat -> nth i bs false = true.
Proof.
  unfold all_true. induction bs as [|b r IH]; cbn; [split; [intros _ i H; lia | auto]|].
  rewrite andb_true_iff, IH. split.
  - intros [-> H] [|i] Hi; [reflexivity | apply H; lia].
  - intro H. split; [apply (H O); lia | intros i Hi; apply (H (S i)); lia].
Qed.
