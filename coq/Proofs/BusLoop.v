(* C17 -- the loop of Bus._update_series_cache_iloc simulates the abstract LRU cache, target by target. *)
Require Import SF.Prelude SF.PySlice SF.BusSpec SF.Bus Gen.Gen_c17.
Require Import Proofs.BusSpecFacts Proofs.BusResolve Proofs.BusSpecInv Proofs.BusListFacts Proofs.BusCache Proofs.BusRel.

Section Loop.
Variables L F : Type.
Variable leqb : L -> L -> bool.
Hypothesis leqb_spec : forall x y, leqb x y = true <-> x = y.

Notation store := (store L F).
Notation mem := (mem L leqb).
Notation find_idx := (find_idx L leqb).
Notation la_touch := (la_touch L leqb).
Notation s_touch := (s_touch L leqb).
Notation s_access_all := (s_access_all L leqb).
Notation eager := (eager L F leqb).
Notation m_coherent := (m_coherent L F).
Notation cache_ok := (cache_ok L).
Notation isld := (isld L leqb).
Notation slot_of := (slot_of L F leqb).
Notation loopst := (loopst L F).
Notation loop_body := (loop_body L F leqb).
Notation run_loop := (run_loop L F leqb).
Notation store_read := (store_read L F leqb).

Variable st : store.
Variable labels : list L.
Hypothesis Nl : NoDup labels.
Variable mp : option Z.

Lemma slot_of_set_nth slots p lp v x :
  nth_error labels p = Some lp -> (p < length slots)%nat ->
  slot_of labels (set_nth p v slots) x = if leqb lp x then v else slot_of labels slots x.
Proof.
  intros E Hp. unfold BusRel.slot_of.
  destruct (leqb lp x) eqn:Q.
  - apply leqb_spec in Q. subst x. rewrite (find_idx_nth L leqb leqb_spec labels Nl p lp E).
    rewrite nth_error_set_nth_eq; auto.
  - destruct (find_idx x labels) as [i|] eqn:Fi; [|reflexivity].
    rewrite nth_error_set_nth_ne; [reflexivity|]. intro; subst i.
    apply (find_idx_Some L leqb leqb_spec) in Fi. rewrite Fi in E. injection E as ->.
    rewrite (proj2 (leqb_spec lp lp) eq_refl) in Q. discriminate.
Qed.

Lemma leqb_refl' x : leqb x x = true.
Proof. apply leqb_spec. reflexivity. Qed.

Lemma leqb_neq x y : x <> y -> leqb x y = false.
Proof. intro H. destruct (leqb x y) eqn:Q; [apply leqb_spec in Q; contradiction | reflexivity]. Qed.

(* ---------------- invariant of the loop while the store is coherent ---------------- *)
Record LI (s : loopst) (c : list L) : Prop := mkLI {
  LI_len : length (ls_array L F s) = length labels;
  LI_loaded : ls_loaded L F s = map is_some (ls_array L F s);
  LI_eager : forall l f, slot_of labels (ls_array L F s) l = Some f -> eager st l = Some f;
  LI_ok : cache_ok mp c;
  LI_cache : forall l, In l c <-> isld labels (ls_loaded L F s) l = true;
  LI_la : forall k, mp = Some k -> ls_la L F s = c /\ ls_count L F s = Z.of_nat (length c)
}.

Lemma LI_in_labels s c l : LI s c -> In l c -> In l labels.
Proof. intros H I. apply (LI_cache _ _ H) in I. eapply isld_In; [exact leqb_spec | exact I]. Qed.

Lemma loop_body_coh s c l snap :
  m_coherent st = true -> LI s c -> In l labels ->
  (forall f, snap = Some f -> eager st l = Some f) ->
  (snap = None -> exists mode rest f, ls_pending L F s = (l, mode) :: rest /\ store_read st mode l = Ok f /\ eager st l = Some f) ->
  exists s', loop_body st labels mp s (l, snap) = (None, s') /\ LI s' (s_touch mp l c) /\
             ls_pending L F s' = match snap with None => tl (ls_pending L F s) | Some _ => ls_pending L F s end.
Proof.
  intros Coh H Il Hsome Hnone.
  destruct (find_idx_In L leqb leqb_spec l labels Il) as [idx Fi].
  pose proof (find_idx_Some L leqb leqb_spec l labels idx Fi) as Ei.
  pose proof (find_idx_lt L leqb leqb_spec l labels idx Fi) as Hidx.
  destruct s as [array loaded la count pending]. destruct H as [H1 H2 H3 H4 H5 H6].
  cbn [ls_array ls_loaded ls_la ls_count ls_pending] in *.
  assert (Hlenl : length loaded = length labels) by (rewrite H2, map_length; exact H1).
  assert (Eld : isld labels loaded l = nth idx loaded false) by (unfold BusRel.isld; rewrite Fi; reflexivity).
  (* the frame obtained and the reader afterwards *)
  assert (exists f pending', eager st l = Some f /\
            (match snap with
             | Some f0 => Ok (f0, pending)
             | None => match pending with
                       | [] => Err "StopIteration"
                       | (l', mode) :: rest => if m_coherent st then res_map (fun f1 => (f1, rest)) (store_read st mode l')
                                               else Err "StoreFileMutation"
                       end
             end) = Ok (f, pending') /\
            pending' = match snap with None => tl pending | Some _ => pending end) as (f & pending' & Ef & Egot & Epend).
  { destruct snap as [f0|].
    - exists f0, pending. auto.
    - destruct (Hnone eq_refl) as (mode & rest & f & -> & Er & Ef). exists f, rest. rewrite Coh, Er. cbn. auto. }
  unfold Bus.loop_body. rewrite Fi. cbn [ls_la ls_pending ls_array ls_loaded ls_count]. rewrite Egot.
  set (fresh := negb (nth idx loaded false)).
  set (array2 := if fresh then set_nth idx (Some f) array else array).
  set (loaded2 := if fresh then set_nth idx true loaded else loaded).
  set (count2 := if fresh then count + 1 else count).
  set (c1 := la_touch l c).
  (* facts about the arrays after the (possible) load *)
  assert (A1 : length array2 = length labels) by (unfold array2; destruct fresh; [rewrite set_nth_length|]; exact H1).
  assert (A2 : loaded2 = map is_some array2).
  { unfold loaded2, array2. destruct fresh; [|exact H2]. rewrite map_set_nth, <- H2. reflexivity. }
  assert (A3 : forall x g, slot_of labels array2 x = Some g -> eager st x = Some g).
  { intros x g. unfold array2. destruct fresh; [|apply H3].
    rewrite (slot_of_set_nth array idx l (Some f) x Ei) by lia.
    destruct (leqb l x) eqn:Q; [|apply H3]. apply leqb_spec in Q. subst x. intro E. injection E as <-. exact Ef. }
  assert (A5 : forall x, In x c1 <-> isld labels loaded2 x = true).
  { intro x. unfold c1. rewrite (la_touch_In L leqb leqb_spec). unfold loaded2.
    destruct fresh eqn:Fr.
    - rewrite (isld_set_nth L leqb leqb_spec labels loaded idx l true x Nl Ei) by lia.
      destruct (leqb l x) eqn:Q.
      + apply leqb_spec in Q. subst. tauto.
      + rewrite <- H5. split; [intros [->|?]; [rewrite leqb_refl' in Q; discriminate | assumption] | auto].
    - rewrite <- H5. split; [intros [->|?]; [|assumption] | auto].
      apply H5. rewrite Eld. unfold fresh in Fr. apply negb_false_iff in Fr. exact Fr. }
  assert (A4 : cache_ok mp (s_touch mp l c)) by (apply (s_touch_ok L leqb leqb_spec), H4).
  assert (Alen : Z.of_nat (length c1) = if fresh then Z.of_nat (length c) + 1 else Z.of_nat (length c)).
  { unfold c1. destruct fresh eqn:Fr.
    - rewrite (la_touch_length_notin L leqb leqb_spec); [lia|].
      intro I. apply H5 in I. rewrite Eld in I. unfold fresh in Fr. rewrite I in Fr. discriminate.
    - rewrite (la_touch_length_in L leqb leqb_spec); [lia | apply H4|].
      apply H5. rewrite Eld. unfold fresh in Fr. apply negb_false_iff in Fr. exact Fr. }
  destruct mp as [k|] eqn:Emp.
  - destruct (H6 k eq_refl) as [Hla Hcount]. subst la.
    assert (Ecount2 : count2 = Z.of_nat (length c1)) by (unfold count2; rewrite Alen, Hcount; destruct fresh; reflexivity).
    fold c1. unfold BusSpec.s_touch, s_trim in *. fold c1 in A4 |- *. rewrite Ecount2.
    destruct (Z.of_nat (length c1) >? k) eqn:G.
    + (* eviction of the oldest key *)
      destruct c1 as [|lr la3] eqn:Ec1; [cbn in G; destruct H4 as [_ [K _]]; lia|].
      assert (Ilr : In lr labels).
      { eapply isld_In; [exact leqb_spec|]. apply A5. left. reflexivity. }
      destruct (find_idx_In L leqb leqb_spec lr labels Ilr) as [ir Fr].
      pose proof (find_idx_Some L leqb leqb_spec lr labels ir Fr) as Er.
      pose proof (find_idx_lt L leqb leqb_spec lr labels ir Fr) as Hir.
      rewrite Fr. eexists. split; [reflexivity|]. split; [|exact Epend].
      assert (Nc1 : NoDup (lr :: la3)) by (rewrite <- Ec1; apply (la_touch_NoDup L leqb leqb_spec), H4).
      inversion Nc1 as [|? ? Hlr Nla3]; subst.
      constructor; cbn [ls_array ls_loaded ls_la ls_count ls_pending].
      * rewrite set_nth_length. exact A1.
      * rewrite map_set_nth, <- A2. reflexivity.
      * intros x g. rewrite (slot_of_set_nth array2 ir lr None x Er) by lia.
        destruct (leqb lr x); [discriminate | apply A3].
      * rewrite Emp. exact A4.
      * intro x. assert (Hl2 : (ir < length loaded2)%nat) by (rewrite A2, map_length; lia).
        rewrite (isld_set_nth L leqb leqb_spec labels loaded2 ir lr false x Nl Er Hl2).
        destruct (leqb lr x) eqn:Q.
        -- apply leqb_spec in Q. subst x. split; [contradiction | discriminate].
        -- rewrite <- A5. cbn. split; [auto|]. intros [->|?]; [rewrite leqb_refl' in Q; discriminate | assumption].
      * intros k' E'. rewrite Emp in E'. injection E' as <-. split; [reflexivity|]. cbn [length tl] in *. lia.
    + eexists. split; [reflexivity|]. split; [|exact Epend].
      constructor; cbn [ls_array ls_loaded ls_la ls_count ls_pending];
        [exact A1 | exact A2 | exact A3 | rewrite Emp; exact A4 | exact A5|].
      intros k' E'. rewrite Emp in E'. injection E' as <-. auto.
  - eexists. split; [reflexivity|]. split; [|exact Epend].
    unfold BusSpec.s_touch, s_trim in *. fold c1 in A4 |- *.
    constructor; cbn [ls_array ls_loaded ls_la ls_count ls_pending];
      [exact A1 | exact A2 | exact A3 | rewrite Emp; exact A4 | exact A5|].
    intros k' E'. rewrite Emp in E'. discriminate.
Qed.

(* what the reader will deliver matches the targets that are still deferred *)
Fixpoint aligned (ts : list (L * option F)) (pending : list (L * cfgmode)) : Prop :=
  match ts with
  | [] => True
  | (l, Some f) :: r => In l labels /\ eager st l = Some f /\ aligned r pending
  | (l, None) :: r => In l labels /\ exists mode rest f, pending = (l, mode) :: rest /\ store_read st mode l = Ok f /\
                                                       eager st l = Some f /\ aligned r rest
  end.

Lemma run_loop_coh : m_coherent st = true -> forall ts s c, LI s c -> aligned ts (ls_pending L F s) ->
  exists s', run_loop st labels mp s ts = (None, s') /\
             LI s' (fold_left (fun c l => s_touch mp l c) (map fst ts) c).
Proof.
  intro Coh. induction ts as [|[l snap] r IH]; intros s c H A; cbn [Bus.run_loop map fold_left fst].
  - exists s. auto.
  - assert (exists s', loop_body st labels mp s (l, snap) = (None, s') /\ LI s' (s_touch mp l c) /\ aligned r (ls_pending L F s'))
      as (s' & E & H' & A').
    { destruct snap as [f|]; cbn [aligned] in A.
      - destruct A as (Il & Ef & A).
        destruct (loop_body_coh s c l (Some f) Coh H Il) as (s' & E & H' & P); [intros f0 E0; injection E0 as <-; exact Ef | discriminate|].
        exists s'. rewrite P. auto.
      - destruct A as (Il & mode & rest & f & Ep & Er & Ef & A).
        destruct (loop_body_coh s c l None Coh H Il) as (s' & E & H' & P); [discriminate | intros _; exists mode, rest, f; auto|].
        exists s'. rewrite P, Ep. auto. }
    rewrite E. apply IH; assumption.
Qed.

End Loop.

(* ---------------- the loop when the store is stale: nothing is loaded, the first deferred target raises --------------- *)
Section LoopStale.
Variables L F : Type.
Variable leqb : L -> L -> bool.
Hypothesis leqb_spec : forall x y, leqb x y = true <-> x = y.

Notation store := (store L F).
Notation mem := (mem L leqb).
Notation find_idx := (find_idx L leqb).
Notation la_touch := (la_touch L leqb).
Notation s_touch := (s_touch L leqb).
Notation s_access_all := (s_access_all L leqb).
Notation m_coherent := (m_coherent L F).
Notation cache_ok := (cache_ok L).
Notation isld := (isld L leqb).
Notation slot_of := (slot_of L F leqb).
Notation run_loop := (run_loop L F leqb).

Variable st : store.
Variable labels : list L.
Hypothesis Nl : NoDup labels.

Definition stale_result (mp : option Z) (c : list L) (ts : list (L * option F)) : option string :=
  if fst (s_access_all false mp c (map fst ts)) then None else Some "StoreFileMutation"%string.

Lemma run_loop_stale_some k : m_coherent st = false ->
  forall array loaded count pending, loaded = map is_some array ->
  forall ts la c,
    cache_ok (Some k) c ->
    (forall l, In l c <-> isld labels loaded l = true) ->
    count = Z.of_nat (length c) -> NoDup la -> filter (isld labels loaded) la = c ->
    (forall l, In l la -> isld labels loaded l = true) ->
    Forall (fun t => In (fst t) labels /\ snd t = slot_of labels array (fst t)) ts ->
    (deferred_of L F ts <> [] -> pending <> []) ->
    exists la',
      run_loop st labels (Some k) (mk_loopst L F array loaded la count pending) ts =
        (stale_result (Some k) c ts, mk_loopst L F array loaded la' count pending) /\
      let c' := snd (s_access_all false (Some k) c (map fst ts)) in
      cache_ok (Some k) c' /\ (forall l, In l c' <-> isld labels loaded l = true) /\
      NoDup la' /\ filter (isld labels loaded) la' = c' /\
      (forall l, In l la' -> isld labels loaded l = true).
Proof.
  intros Stale array loaded count pending Eld. subst loaded. unfold stale_result.
  induction ts as [|[l snap] r IH]; intros la c Ck Hc Ecount N Fl Hph Hts Hp; cbn [Bus.run_loop map fst BusSpec.s_access_all].
  - exists la. cbn. auto 10.
  - apply Forall_cons_iff in Hts as [[Il Esnap] Hr]. cbn [fst snd] in Il, Esnap. subst snap.
    destruct (find_idx_In L leqb leqb_spec l labels Il) as [idx Fi].
    assert (Eisld : isld labels (map is_some array) l = nth idx (map is_some array) false)
      by (unfold BusRel.isld; rewrite Fi; reflexivity).
    unfold Bus.loop_body. rewrite Fi. cbn [ls_la ls_pending ls_array ls_loaded ls_count].
    destruct (slot_of labels array l) as [f|] eqn:Eslot.
    + (* a target that is loaded: only the LRU position moves *)
      assert (Ild : isld labels (map is_some array) l = true) by (rewrite (isld_slot_of L F leqb), Eslot; reflexivity).
      assert (Ic : In l c) by (apply Hc, Ild).
      rewrite (proj2 (mem_In L leqb leqb_spec l c) Ic). cbn [orb].
      rewrite <- Eisld, Ild. cbn [negb].
      destruct Ck as [Nc [K B]].
      destruct (count >? k) eqn:G; [lia|].
      assert (Ck : cache_ok (Some k) c) by (split; auto).
      rewrite (s_touch_hit L leqb leqb_spec (Some k) l c Ck Ic).
      destruct (IH (la_touch l la) (la_touch l c)) as (la' & E & Hres).
      * rewrite <- (s_touch_hit L leqb leqb_spec (Some k) l c Ck Ic). apply (s_touch_ok L leqb leqb_spec), Ck.
      * intro x. rewrite (la_touch_In L leqb leqb_spec), <- Hc. split; [intros [->|?]; assumption | auto].
      * rewrite (la_touch_length_in L leqb leqb_spec l c Nc Ic). exact Ecount.
      * apply (la_touch_NoDup L leqb leqb_spec), N.
      * rewrite (filter_la_touch_true L leqb leqb_spec _ l la Ild), Fl. reflexivity.
      * intros x Hx. apply (la_touch_In L leqb leqb_spec) in Hx as [->|Hx]; [exact Ild | apply Hph, Hx].
      * exact Hr.
      * intro D. apply Hp. cbn. exact D.
      * exists la'. split; [exact E | exact Hres].
    + (* the first deferred target: the reader refuses *)
      assert (Ild : isld labels (map is_some array) l = false) by (rewrite (isld_slot_of L F leqb), Eslot; reflexivity).
      assert (Ic : ~ In l c) by (intro I; apply Hc in I; congruence).
      rewrite (proj2 (mem_false L leqb leqb_spec l c) Ic). cbn [orb fst snd].
      destruct pending as [|[l' mode] rest]; [exfalso; apply Hp; [cbn; discriminate | reflexivity]|].
      rewrite Stale, lru_after_read.
      (* the LRU position is only updated after a successful read (repaired, commit dee625c): the dict is untouched *)
      exists la. split; [reflexivity|]. split; [exact Ck|]. split; [exact Hc|]. split; [exact N|]. split; [exact Fl | exact Hph].
Qed.

Lemma run_loop_stale_none : m_coherent st = false ->
  forall array loaded count pending la, loaded = map is_some array ->
  forall ts c,
    cache_ok None c ->
    (forall l, In l c <-> isld labels loaded l = true) ->
    Forall (fun t => In (fst t) labels /\ snd t = slot_of labels array (fst t)) ts ->
    (deferred_of L F ts <> [] -> pending <> []) ->
      run_loop st labels None (mk_loopst L F array loaded la count pending) ts =
        (stale_result None c ts, mk_loopst L F array loaded la count pending) /\
      let c' := snd (s_access_all false None c (map fst ts)) in
      cache_ok None c' /\ (forall l, In l c' <-> isld labels loaded l = true).
Proof.
  intros Stale array loaded count pending la Eld. subst loaded. unfold stale_result.
  induction ts as [|[l snap] r IH]; intros c Ck Hc Hts Hp; cbn [Bus.run_loop map fst BusSpec.s_access_all].
  - cbn. auto.
  - apply Forall_cons_iff in Hts as [[Il Esnap] Hr]. cbn [fst snd] in Il, Esnap. subst snap.
    destruct (find_idx_In L leqb leqb_spec l labels Il) as [idx Fi].
    assert (Eisld : isld labels (map is_some array) l = nth idx (map is_some array) false)
      by (unfold BusRel.isld; rewrite Fi; reflexivity).
    unfold Bus.loop_body. rewrite Fi. cbn [ls_la ls_pending ls_array ls_loaded ls_count].
    destruct (slot_of labels array l) as [f|] eqn:Eslot.
    + assert (Ild : isld labels (map is_some array) l = true) by (rewrite (isld_slot_of L F leqb), Eslot; reflexivity).
      assert (Ic : In l c) by (apply Hc, Ild).
      rewrite (proj2 (mem_In L leqb leqb_spec l c) Ic). cbn [orb].
      rewrite <- Eisld, Ild. cbn [negb].
      rewrite (s_touch_hit L leqb leqb_spec None l c Ck Ic).
      apply IH.
      * rewrite <- (s_touch_hit L leqb leqb_spec None l c Ck Ic). apply (s_touch_ok L leqb leqb_spec), Ck.
      * intro x. rewrite (la_touch_In L leqb leqb_spec), <- Hc. split; [intros [->|?]; assumption | auto].
      * exact Hr.
      * intro D. apply Hp. cbn. exact D.
    + assert (Ild : isld labels (map is_some array) l = false) by (rewrite (isld_slot_of L F leqb), Eslot; reflexivity).
      assert (Ic : ~ In l c) by (intro I; apply Hc in I; congruence).
      rewrite (proj2 (mem_false L leqb leqb_spec l c) Ic). cbn [orb fst snd].
      destruct pending as [|[l' mode] rest]; [exfalso; apply Hp; [cbn; discriminate | reflexivity]|].
      rewrite Stale. destruct lru_update_after_read; auto.
Qed.

End LoopStale.
