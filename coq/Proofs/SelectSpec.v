(* C04 -- what the specification S_extract_sel says, cell by cell: every returned value is the cell at the
   addressed (row position, column position), paired with the labels of exactly that row and column,
   in key order; a scalar key on an axis removes that axis. *)
Require Import SF.Prelude SF.PySlice SF.Dtype SF.Value SF.Blocks SF.Select SF.SelectDt
  Proofs.SliceFacts Proofs.BlocksSelect Proofs.SelectFacts Proofs.SelectExtract Proofs.SelectLoc.

Section Spec.
Context {A L : Type}.
Variable leqb : L -> L -> bool.
Variable rdt : list dtype -> dtype.
Notation S_extract_sel := (S_extract_sel (A := A) leqb rdt).

Lemma take_positions_nth {B} (l : list B) ps out : take_positions l ps = Some out ->
  forall i p, nth_error ps i = Some p -> nth_error out i = nth_z l p /\ nth_z l p <> None.
Proof.
  revert out. induction ps as [|q ps IH]; intros out; cbn [take_positions].
  - intros _ i p H. destruct i; discriminate.
  - destruct (nth_z l q) as [x|] eqn:Ex; [|discriminate].
    destruct (take_positions l ps) as [xs|]; [|discriminate]. intros E. injection E as <-.
    intros [|i] p H; cbn in H |- *.
    + injection H as <-. rewrite Ex. split; [reflexivity|discriminate].
    + exact (IH xs eq_refl i p H).
Qed.

Lemma take_rows_nth rp (cols data : list (dtype * list A)) : opt_all (map (take_rows rp) cols) = Some data ->
  forall j c, nth_error cols j = Some c ->
  exists v, nth_error data j = Some (fst c, v) /\ take_positions (snd c) rp = Some v.
Proof.
  revert data. induction cols as [|c0 cols IH]; intros data; cbn [map opt_all].
  - intros _ j c H. destruct j; discriminate.
  - unfold take_rows at 1. destruct (take_positions (snd c0) rp) as [v|] eqn:Ev; [|discriminate].
    destruct (opt_all (map (take_rows rp) cols)) as [vs|]; [|discriminate]. intros E. injection E as <-.
    intros [|j] c H; cbn in H |- *.
    + injection H as <-. exists v. split; [reflexivity|exact Ev].
    + exact (IH vs eq_refl j c H).
Qed.

Lemma new_index_id (l l' : list L) : new_index leqb l = Ok l' -> l' = l.
Proof. unfold new_index. destruct (nodupb leqb l); [|discriminate]. intros E. injection E as <-. reflexivity. Qed.

(* the cell of the frame at (row position p, column position q) *)
Definition cell (f : sframe A L) (p q : Z) : option A :=
  match nth_z (sf_cols f) q with Some (_, col) => nth_z col p | None => None end.

(* ---- a Frame: both keys non-scalar ---- *)
Theorem extract_exact (f : sframe A L) (rp cp : list Z) r :
  S_extract_sel f (SMany rp) (SMany cp) = Ok r ->
  exists ridx cidx data,
    r = XFrame ridx cidx data (sf_name f) /\
    length ridx = length rp /\ length cidx = length cp /\ length data = length cp /\
    (forall i p, nth_error rp i = Some p -> nth_error ridx i = nth_z (sf_index f) p /\ nth_z (sf_index f) p <> None) /\
    (forall j q, nth_error cp j = Some q ->
       nth_error cidx j = nth_z (sf_columns f) q /\ nth_z (sf_columns f) q <> None /\
       exists d col v, nth_z (sf_cols f) q = Some (d, col) /\ nth_error data j = Some (d, v) /\
                       length v = length rp /\
                       forall i p, nth_error rp i = Some p -> nth_error v i = cell f p q /\ cell f p q <> None).
Proof.
  unfold Select.S_extract_sel. cbn [sel_positions].
  destruct (take_positions (sf_index f) rp) as [ridx|] eqn:Er; [|discriminate].
  destruct (take_positions (sf_columns f) cp) as [cidx|] eqn:Ec; [|discriminate].
  destruct (take_positions (sf_cols f) cp) as [cols|] eqn:Ek; [|discriminate].
  destruct (opt_all (map (take_rows rp) cols)) as [data|] eqn:Ed; [|discriminate].
  destruct (new_index leqb ridx) as [ridx'|] eqn:E1; [|discriminate]. cbn [res_bind].
  destruct (new_index leqb cidx) as [cidx'|] eqn:E2; [|discriminate]. cbn [res_bind].
  apply new_index_id in E1. apply new_index_id in E2. subst ridx' cidx'.
  intros E. injection E as <-. exists ridx, cidx, data. split; [reflexivity|].
  split; [eapply take_positions_length; eassumption|].
  split; [eapply take_positions_length; eassumption|].
  destruct (take_rows_all_length rp cols data) as [Hdl _]; [exact Ed|].
  split; [rewrite Hdl; eapply take_positions_length; eassumption|].
  split; [exact (take_positions_nth _ _ _ Er)|].
  intros j q Hq. destruct (take_positions_nth _ _ _ Ec j q Hq) as [H1 H2]. split; [exact H1|]. split; [exact H2|].
  destruct (take_positions_nth _ _ _ Ek j q Hq) as [H3 H4].
  destruct (nth_z (sf_cols f) q) as [[d col]|] eqn:Eq; [|congruence].
  destruct (take_rows_nth rp cols data Ed j (d, col) H3) as (v & Hv & Htv). cbn [fst snd] in *.
  exists d, col, v. split; [reflexivity|]. split; [exact Hv|].
  split; [eapply take_positions_length; eassumption|].
  intros i p Hp. unfold cell. rewrite Eq. exact (take_positions_nth _ _ _ Htv i p Hp).
Qed.

(* ---- scalar keys reduce the dimension ---- *)
Theorem scalar_reduces (f : sframe A L) (i j : Z) (rp cp : list Z) :
  (* both scalar: the element *)
  (forall r, S_extract_sel f (SOne i) (SOne j) = Ok r -> exists a, r = XElem a /\ cell f i j = Some a) /\
  (* scalar row: a Series over the selected columns, named by the row's label *)
  (forall r, S_extract_sel f (SOne i) (SMany cp) = Ok r ->
     exists cidx vals dt name, r = XSeries cidx vals dt name /\ nth_z (sf_index f) i = Some name /\
       length cidx = length cp /\ length vals = length cp /\
       forall k q, nth_error cp k = Some q ->
         nth_error cidx k = nth_z (sf_columns f) q /\ nth_error vals k = cell f i q /\ cell f i q <> None) /\
  (* scalar column: a Series over the selected rows, named by the column's label, with the column's dtype *)
  (forall r, S_extract_sel f (SMany rp) (SOne j) = Ok r ->
     exists ridx vals dt name col, r = XSeries ridx vals dt name /\ nth_z (sf_columns f) j = Some name /\
       nth_z (sf_cols f) j = Some (dt, col) /\ length ridx = length rp /\ length vals = length rp /\
       forall k p, nth_error rp k = Some p ->
         nth_error ridx k = nth_z (sf_index f) p /\ nth_error vals k = cell f p j /\ cell f p j <> None).
Proof.
  unfold Select.S_extract_sel. cbn [sel_positions]. repeat split.
  - intros r.
    destruct (take_positions (sf_index f) [i]) as [ridx|]; [|discriminate].
    destruct (take_positions (sf_columns f) [j]) as [cidx|]; [|discriminate].
    destruct (take_positions (sf_cols f) [j]) as [cols|] eqn:Ek; [|discriminate].
    destruct (opt_all (map (take_rows [i]) cols)) as [data|] eqn:Ed; [|discriminate].
    cbn [take_positions] in Ek. destruct (nth_z (sf_cols f) j) as [[d col]|] eqn:Eq; [|discriminate].
    injection Ek as <-. cbn [map opt_all] in Ed. unfold take_rows in Ed. cbn [fst snd take_positions] in Ed.
    destruct (nth_z col i) as [a|] eqn:Ea; [|discriminate]. injection Ed as <-.
    intros E. injection E as <-. exists a. split; [reflexivity|]. unfold cell. rewrite Eq. exact Ea.
  - intros r.
    destruct (take_positions (sf_index f) [i]) as [ridx|] eqn:Er; [|discriminate].
    destruct (take_positions (sf_columns f) cp) as [cidx|] eqn:Ec; [|discriminate].
    destruct (take_positions (sf_cols f) cp) as [cols|] eqn:Ek; [|discriminate].
    destruct (opt_all (map (take_rows [i]) cols)) as [data|] eqn:Ed; [|discriminate].
    destruct (new_index leqb cidx) as [cidx'|] eqn:E2; [|discriminate]. cbn [res_bind].
    apply new_index_id in E2. subst cidx'. intros E. injection E as <-.
    cbn [take_positions] in Er. destruct (nth_z (sf_index f) i) as [name|] eqn:En; [|discriminate]. injection Er as <-.
    destruct (take_rows_all_length [i] cols data Ed) as [Hdl Hdr]. cbn [length] in Hdr.
    eexists _, _, _, _. split; [reflexivity|]. cbn [hd]. split; [reflexivity|].
    split; [eapply take_positions_length; eassumption|].
    split; [rewrite concat_len1 by exact Hdr; rewrite Hdl; eapply take_positions_length; eassumption|].
    intros k q Hq. destruct (take_positions_nth _ _ _ Ec k q Hq) as [H1 _]. split; [exact H1|].
    destruct (take_positions_nth _ _ _ Ek k q Hq) as [H3 H4].
    destruct (nth_z (sf_cols f) q) as [[d col]|] eqn:Eq; [|congruence].
    destruct (take_rows_nth [i] cols data Ed k (d, col) H3) as (v & Hv & Htv). cbn [fst snd] in *.
    cbn [take_positions] in Htv. destruct (nth_z col i) as [a|] eqn:Ea; [|discriminate]. injection Htv as <-.
    unfold cell. rewrite Eq, Ea. split; [|discriminate].
    (* position k of the concatenation of one-cell columns is the cell of column k *)
    clear - Hv Hdr. revert k Hv. induction Hdr as [|c0 data0 Hc _ IH]; intros k Hv; [destruct k; discriminate|].
    cbn [map concat]. destruct c0 as [d0 [|x [|? ?]]]; try discriminate. cbn [snd app].
    destruct k as [|k]; cbn in Hv |- *; [injection Hv as _ <-; reflexivity|exact (IH k Hv)].
  - intros r.
    destruct (take_positions (sf_index f) rp) as [ridx|] eqn:Er; [|discriminate].
    destruct (take_positions (sf_columns f) [j]) as [cidx|] eqn:Ec; [|discriminate].
    destruct (take_positions (sf_cols f) [j]) as [cols|] eqn:Ek; [|discriminate].
    destruct (opt_all (map (take_rows rp) cols)) as [data|] eqn:Ed; [|discriminate].
    destruct (new_index leqb ridx) as [ridx'|] eqn:E1; [|discriminate]. cbn [res_bind].
    apply new_index_id in E1. subst ridx'.
    cbn [take_positions] in Ek, Ec. destruct (nth_z (sf_cols f) j) as [[d col]|] eqn:Eq; [|discriminate].
    injection Ek as <-. destruct (nth_z (sf_columns f) j) as [name|] eqn:En; [|discriminate]. injection Ec as <-.
    cbn [map opt_all] in Ed. unfold take_rows in Ed. cbn [fst snd] in Ed.
    destruct (take_positions col rp) as [v|] eqn:Ev; [|discriminate]. injection Ed as <-.
    intros E. injection E as <-. exists ridx, v, d, name, col. cbn [hd].
    split; [reflexivity|]. split; [reflexivity|]. split; [reflexivity|].
    split; [eapply take_positions_length; eassumption|]. split; [eapply take_positions_length; eassumption|].
    intros k p Hp. destruct (take_positions_nth _ _ _ Er k p Hp) as [H1 _]. split; [exact H1|].
    unfold cell. rewrite Eq. exact (take_positions_nth _ _ _ Ev k p Hp).
Qed.

End Spec.

(* ---- datetime periods: a key of a coarser unit selects every label inside that period, and only those ---- *)
Theorem period_select (labels : list val) (u : tunit) (c : Z) :
  exists ps, S_loc_dt labels (DPeriod u c) = Ok (SMany ps) /\
    (forall i, In i ps <-> exists l, nth_z labels i = Some l /\ in_period u c l = true) /\
    increasing ps.
Proof.
  eexists. split; [reflexivity|]. split.
  - intros i. rewrite mask_positions_map_spec, Z.sub_0_r. split.
    + intros (l & Hn & Hv & _). exists l. split; assumption.
    + intros (l & Hn & Hv). exists l. split; [assumption|]. split; [assumption|]. apply nth_z_Some in Hn. lia.
  - generalize (map (in_period u c) labels) as m. generalize 0 as i.
    intros i m. revert i. induction m as [|[|] m IH]; intros i; cbn [mask_positions]; [constructor| |apply IH].
    constructor; [apply IH|]. apply Forall_forall. intros x Hx. apply mask_positions_spec in Hx. lia.
Qed.
