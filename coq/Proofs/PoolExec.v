(* C18 -- the executor machine delivers the sequential answer under EVERY completion schedule,
   worker count and chunk size. *)
Require Import SF.Prelude SF.Pool.

(* ------------------------------------------------------------------ seq_map algebra *)
Section SeqFacts.
  Context {A B : Type}.
  Variable f : A -> res B.

  Lemma seq_map_app xs ys :
    seq_map f (xs ++ ys) =
    match seq_map f xs with
    | Err e => Err e
    | Ok a => match seq_map f ys with Ok b => Ok (a ++ b) | Err e => Err e end
    end.
  Proof.
    induction xs as [|x t IH]; cbn.
    - destruct (seq_map f ys); reflexivity.
    - destruct (f x) as [y|e]; [|reflexivity]. rewrite IH.
      destruct (seq_map f t) as [a|e]; [|reflexivity].
      destruct (seq_map f ys); reflexivity.
  Qed.

  Lemma seq_map_ok_length xs ys : seq_map f xs = Ok ys -> length ys = length xs.
  Proof.
    revert ys; induction xs as [|x t IH]; cbn; intros ys H.
    - injection H as <-. reflexivity.
    - destruct (f x) as [y|e]; [|discriminate]. destruct (seq_map f t) as [r|e]; [|discriminate].
      injection H as <-. cbn. f_equal. apply IH. reflexivity.
  Qed.

  Lemma seq_map_ok_nth xs ys : seq_map f xs = Ok ys ->
    forall i x, nth_error xs i = Some x -> exists y, f x = Ok y /\ nth_error ys i = Some y.
  Proof.
    revert ys; induction xs as [|x0 t IH]; cbn; intros ys H i x Hi.
    - destruct i; discriminate.
    - destruct (f x0) as [y0|e] eqn:E0; [|discriminate].
      destruct (seq_map f t) as [r|e]; [|discriminate]. injection H as <-.
      destruct i as [|i]; cbn in *.
      + injection Hi as <-. eauto.
      + eapply IH; eauto.
  Qed.

  (* the exception delivered is the one of the FIRST failing argument *)
  Lemma seq_map_err_first xs e : seq_map f xs = Err e <->
    exists pre x post, xs = pre ++ x :: post /\ f x = Err e /\ (forall a, In a pre -> exists b, f a = Ok b).
  Proof.
    split.
    - induction xs as [|x t IH]; cbn; [discriminate|].
      destruct (f x) as [y|e0] eqn:E0.
      + destruct (seq_map f t) as [r|e1]; [discriminate|]. intros H. injection H as ->.
        destruct (IH eq_refl) as (pre & x1 & post & -> & Hx & Hpre).
        exists (x :: pre), x1, post. repeat split; auto.
        intros a [<-|Ha]; eauto.
      + intros H. injection H as ->. exists [], x, t. repeat split; auto. intros a [].
    - intros (pre & x & post & -> & Hx & Hpre).
      induction pre as [|p pre IH]; cbn.
      + rewrite Hx. reflexivity.
      + destruct (Hpre p (or_introl eq_refl)) as [b Hb]. rewrite Hb.
        rewrite IH; [reflexivity|]. intros a Ha. apply Hpre. right. exact Ha.
  Qed.

  Lemma seq_map_all_ok xs : (forall a, In a xs -> exists b, f a = Ok b) -> exists ys, seq_map f xs = Ok ys.
  Proof.
    induction xs as [|x t IH]; cbn; intros H; [eauto|].
    destruct (H x (or_introl eq_refl)) as [b ->].
    destruct IH as [ys ->]; [intros; apply H; right; assumption|]. eauto.
  Qed.
End SeqFacts.

(* ------------------------------------------------------------------ chunking *)
Section Chunks.
  Context {A : Type}.

  Lemma get_chunks_concat fuel c (xs : list A) :
    (1 <= c)%nat -> (length xs <= fuel)%nat -> concat (get_chunks fuel c xs) = xs.
  Proof.
    revert xs; induction fuel as [|fu IH]; intros xs Hc Hl.
    - destruct xs; [reflexivity|cbn in Hl; lia].
    - destruct xs as [|x t]; [reflexivity|].
      change (get_chunks (S fu) c (x :: t)) with (firstn c (x :: t) :: get_chunks fu c (skipn c (x :: t))).
      cbn [concat]. rewrite IH; [apply firstn_skipn|exact Hc|].
      rewrite skipn_length. cbn [length] in *. lia.
  Qed.

  Lemma get_chunks_nonempty fuel c (xs : list A) :
    (1 <= c)%nat -> forall ch, In ch (get_chunks fuel c xs) -> ch <> [] /\ (length ch <= c)%nat.
  Proof.
    revert xs; induction fuel as [|fu IH]; intros xs Hc ch Hin; [destruct Hin|].
    destruct xs as [|x t]; [destruct Hin|].
    change (get_chunks (S fu) c (x :: t)) with (firstn c (x :: t) :: get_chunks fu c (skipn c (x :: t))) in Hin.
    destruct Hin as [<-|Hin].
    - split; [destruct c; [lia|cbn [firstn]; intros E; discriminate E]|apply firstn_le_length].
    - eapply IH; eauto.
  Qed.

  Lemma singletons_concat (xs : list A) : concat (map (fun x => [x]) xs) = xs.
  Proof. induction xs; cbn; congruence. Qed.

  Lemma number_fst {X} n (l : list X) : map fst (number n l) = seq n (length l).
  Proof. revert n; induction l; intros n; cbn; [reflexivity|]. f_equal. apply IHl. Qed.

  Lemma number_snd {X} n (l : list X) : map snd (number n l) = l.
  Proof. revert n; induction l; intros n; cbn; [reflexivity|]. f_equal. apply IHl. Qed.

  Lemma number_length {X} n (l : list X) : length (number n l) = length l.
  Proof. revert n; induction l; intros n; cbn; [reflexivity|]. f_equal. apply IHl. Qed.
End Chunks.

(* ------------------------------------------------------------------ the scheduler *)
Section Machine.
  Context {A B : Type}.
  Variable f : A -> res B.

  Lemma pick_perm {X} i (l : list X) x r : pick i l = Some (x, r) -> Permutation l (x :: r).
  Proof.
    revert i x r; induction l as [|a t IH]; intros i x r H; [discriminate|].
    destruct i as [|j]; cbn in H.
    - injection H as <- <-. reflexivity.
    - destruct (pick j t) as [[y r']|] eqn:E; [|discriminate]. injection H as <- <-.
      rewrite (IH _ _ _ E). apply perm_swap.
  Qed.

  Lemma pick_some {X} i (l : list X) : (i < length l)%nat -> exists x r, pick i l = Some (x, r).
  Proof.
    revert i; induction l as [|a t IH]; intros i H; [cbn in H; lia|].
    destruct i as [|j]; cbn; [eauto|].
    destruct (IH j) as (x & r & ->); [cbn in H; lia|]. eauto.
  Qed.

  Lemma pick_length {X} i (l : list X) x r : pick i l = Some (x, r) -> length l = S (length r).
  Proof. intros H. apply pick_perm in H. apply Permutation_length in H. exact H. Qed.

  (* what has been submitted is, at every moment, queued, running or done -- nothing is lost,
     duplicated or altered, whatever the schedule *)
  Lemma run_invariant fuel k pi st :
    Permutation (map (run_task f) (ps_queue (run f fuel k pi st) ++ ps_running (run f fuel k pi st))
                 ++ ps_done (run f fuel k pi st))
                (map (run_task f) (ps_queue st ++ ps_running st) ++ ps_done st).
  Proof.
    revert pi st; induction fuel as [|fu IH]; intros pi st; [reflexivity|].
    cbn [run]. unfold refill.
    set (room := (k - length (ps_running st))%nat).
    set (q := skipn room (ps_queue st)). set (r := ps_running st ++ firstn room (ps_queue st)).
    assert (Hqr : Permutation (q ++ r) (ps_queue st ++ ps_running st)).
    { subst q r.
      transitivity ((firstn room (ps_queue st) ++ skipn room (ps_queue st)) ++ ps_running st);
        [|rewrite firstn_skipn; reflexivity].
      rewrite (Permutation_app_comm (skipn room (ps_queue st))). rewrite <- !app_assoc.
      rewrite (Permutation_app_comm (ps_running st)). rewrite <- app_assoc. reflexivity. }
    destruct (pick (Nat.modulo (hd 0%nat pi) (length r)) r) as [[t r']|] eqn:E.
    - rewrite IH. cbn [ps_queue ps_running ps_done].
      rewrite <- Hqr. apply pick_perm in E.
      rewrite !map_app. rewrite E. cbn [map]. rewrite <- !app_assoc. apply Permutation_app_head.
      cbn [app]. rewrite app_assoc. symmetry. apply Permutation_cons_append.
    - cbn [ps_queue ps_running ps_done]. rewrite Hqr. reflexivity.
  Qed.

  (* with at least one worker, |queue|+|running| steps empty the pool: every future completes *)
  Lemma run_finishes fuel k pi st : (1 <= k)%nat ->
    (length (ps_queue st) + length (ps_running st) <= fuel)%nat ->
    ps_queue (run f fuel k pi st) = [] /\ ps_running (run f fuel k pi st) = [].
  Proof.
    intros Hk. revert pi st; induction fuel as [|fu IH]; intros pi st Hl.
    - cbn. destruct (ps_queue st), (ps_running st); cbn in Hl; try lia. auto.
    - cbn [run]. unfold refill.
      set (room := (k - length (ps_running st))%nat).
      set (q := skipn room (ps_queue st)). set (r := ps_running st ++ firstn room (ps_queue st)).
      assert (Hlen : (length q + length r = length (ps_queue st) + length (ps_running st))%nat).
      { subst q r. rewrite app_length, skipn_length, firstn_length. lia. }
      destruct r as [|r0 rt] eqn:Er.
      + (* nothing can run: then nothing was queued either *)
        cbn. assert (length (ps_running st) = 0%nat /\ length (firstn room (ps_queue st)) = 0%nat) as [H1 H2].
        { assert (H := f_equal (@length _) Er). subst r. rewrite app_length in H. cbn in H. lia. }
        rewrite firstn_length in H2. subst room. rewrite H1 in H2.
        assert (length (ps_queue st) = 0%nat) by lia.
        subst q. split; [|reflexivity].
        destruct (ps_queue st); [destruct (k - _)%nat; reflexivity|cbn in *; lia].
      + destruct (pick_some (Nat.modulo (hd 0%nat pi) (length (r0 :: rt))) (r0 :: rt)) as (t & r' & E).
        { apply Nat.mod_upper_bound. cbn. lia. }
        rewrite E. apply IH. cbn [ps_queue ps_running].
        apply pick_length in E. cbn [length] in *. lia.
  Qed.

  Lemma lookup_in {X} (l : list (nat * X)) i x :
    NoDup (map fst l) -> In (i, x) l -> lookup i l = Some x.
  Proof.
    induction l as [|[j y] t IH]; intros Hnd Hin; [destruct Hin|].
    cbn in *. inversion Hnd as [|? ? Hnot Hnd']; subst.
    destruct Hin as [E|Hin].
    - injection E as -> ->. rewrite Nat.eqb_refl. reflexivity.
    - destruct (Nat.eqb i j) eqn:Eij.
      + apply Nat.eqb_eq in Eij. subst. exfalso. apply Hnot.
        change j with (fst (j, x)). apply in_map. exact Hin.
      + apply IH; assumption.
  Qed.

  (* after the run, the completion store holds, for every submitted future, exactly its own outcome *)
  Lemma run_complete k pi tasks : (1 <= k)%nat -> NoDup (map fst tasks) ->
    forall t, In t tasks ->
      lookup (fst t) (ps_done (run f (length tasks) k pi (mk_pstate tasks [] []))) = Some (seq_map f (snd t)).
  Proof.
    intros Hk Hnd t Hin.
    set (st := run f (length tasks) k pi (mk_pstate tasks [] [])).
    pose proof (run_invariant (length tasks) k pi (mk_pstate tasks [] [])) as Hinv.
    destruct (run_finishes (length tasks) k pi (mk_pstate tasks [] []) Hk) as [Hq Hr].
    { cbn. rewrite Nat.add_0_r. apply Nat.le_refl. }
    fold st in Hinv, Hq, Hr. rewrite Hq, Hr in Hinv. cbn in Hinv. rewrite !app_nil_r in Hinv.
    apply lookup_in.
    - apply (Permutation_map fst) in Hinv.
      eapply Permutation_NoDup; [symmetry; exact Hinv|].
      rewrite map_map. cbn. exact Hnd.
    - eapply Permutation_in; [symmetry; exact Hinv|].
      change (fst t, seq_map f (snd t)) with (run_task f t). apply in_map. exact Hin.
  Qed.

  Lemma collect_spec done (l : list (@task A)) :
    (forall t, In t l -> lookup (fst t) done = Some (seq_map f (snd t))) ->
    collect (map fst l) done = seq_map f (concat (map snd l)).
  Proof.
    induction l as [|t l IH]; intros H; [reflexivity|].
    cbn [map collect concat]. rewrite (H t (or_introl eq_refl)). rewrite seq_map_app.
    destruct (seq_map f (snd t)) as [ys|e]; [|reflexivity].
    rewrite IH; [reflexivity|]. intros t' Ht'. apply H. right. exact Ht'.
  Qed.

  Lemma submit_nodup kind c (xs : list A) : NoDup (map fst (submit kind c xs)).
  Proof. destruct kind; cbn; rewrite number_fst; apply seq_NoDup. Qed.

  Lemma submit_concat kind c (xs : list A) :
    (kind = Procs -> (1 <= c)%nat) -> concat (map snd (submit kind c xs)) = xs.
  Proof.
    intros Hc. destruct kind; cbn; rewrite number_snd.
    - apply singletons_concat.
    - apply get_chunks_concat; [apply Hc; reflexivity|lia].
  Qed.

  (* THE ORACLE THEOREM: Executor.map = the sequential list comprehension, for every schedule *)
  Theorem exec_map_eq_seq kind k c pi (xs : list A) :
    1 <= k -> (kind = Procs -> 1 <= c) ->
    exec_map f kind k c pi xs = seq_map f xs.
  Proof.
    intros Hk Hc. unfold exec_map.
    replace (k <=? 0) with false by lia.
    replace (match kind with Procs => c <? 1 | Threads => false end) with false
      by (destruct kind; [reflexivity|specialize (Hc eq_refl); lia]).
    rewrite collect_spec.
    - rewrite submit_concat; [reflexivity|]. intros E. specialize (Hc E). lia.
    - apply run_complete; [lia|apply submit_nodup].
  Qed.

  Lemma exec_map_bad_workers kind k c pi (xs : list A) : k <= 0 -> exec_map f kind k c pi xs = Err "ValueError".
  Proof. intros H. unfold exec_map. replace (k <=? 0) with true by lia. reflexivity. Qed.

  Lemma exec_map_bad_chunksize k c pi (xs : list A) : c < 1 -> exec_map f Procs k c pi xs = Err "ValueError".
  Proof.
    intros H. unfold exec_map. destruct (k <=? 0); [reflexivity|].
    replace (c <? 1) with true by lia. reflexivity.
  Qed.

  (* submit-per-item + result() per future: each future's own outcome, in submission order *)
  Theorem exec_submit_all_eq k pi (xs : list A) : 1 <= k ->
    exec_submit_all f k pi xs = Ok (map f xs).
  Proof.
    intros Hk. unfold exec_submit_all. replace (k <=? 0) with false by lia.
    set (tasks := submit Threads 1 xs).
    assert (Hdone : forall t, In t tasks ->
              lookup (fst t) (ps_done (run f (length tasks) (Z.to_nat k) pi (mk_pstate tasks [] []))) = Some (seq_map f (snd t))).
    { apply run_complete; [lia|apply submit_nodup]. }
    revert Hdone. generalize (ps_done (run f (length tasks) (Z.to_nat k) pi (mk_pstate tasks [] []))).
    subst tasks. cbn [submit]. generalize 0%nat.
    induction xs as [|x t IH]; intros n done Hdone; [reflexivity|].
    cbn [map number seq_map fst].
    pose proof (Hdone (n, [x]) (or_introl eq_refl)) as H0. cbn [fst snd seq_map] in H0.
    rewrite H0.
    assert (IH' := IH (S n) done (fun t' Ht' => Hdone t' (or_intror Ht'))).
    destruct (f x) as [y|e]; cbn; rewrite IH'; reflexivity.
  Qed.
End Machine.
