(* C20 -- pivot_stack / pivot_unstack at the level of label-keyed cell maps: what each result cell is,
   and stack followed by unstack of the new depth restores the original cells. *)
Require Import SF.Prelude SF.RelStack Proofs.RelListFacts.

(* ---- uniq over products ---- *)
Section UniqProduct.
Context {X : Type}.
Variable eqb : X -> X -> bool.
Hypothesis eqb_spec : forall a b, eqb a b = true <-> a = b.

Lemma uniq_notin_filter : forall (l : list X) x, ~ In x l -> filter (fun y => negb (eqb x y)) (uniq eqb l) = uniq eqb l.
Proof.
  intros l x H. apply filter_all_true. intros y Hy. rewrite (in_uniq eqb eqb_spec) in Hy.
  apply negb_true_iff. apply (eqb_false' eqb eqb_spec). intros ->. contradiction.
Qed.

(* a block of copies of x in front of a list without x *)
Lemma uniq_block : forall (a b : list X) x, a <> [] -> (forall y, In y a -> y = x) -> ~ In x b ->
  uniq eqb (a ++ b) = x :: uniq eqb b.
Proof.
  induction a as [|y a IH]; intros b x Hne Ha Hb; [contradiction|].
  assert (y = x) by (apply Ha; left; reflexivity). subst y. cbn. f_equal.
  destruct a as [|z a].
  - cbn. apply uniq_notin_filter. assumption.
  - rewrite (IH b x); [|discriminate|intros w Hw; apply Ha; right; assumption|assumption].
    cbn. rewrite (eqb_refl' eqb eqb_spec). cbn. apply uniq_notin_filter. assumption.
Qed.

Lemma filter_negb_eqb_notin : forall (l : list X) x, ~ In x l -> filter (fun y => negb (eqb x y)) l = l.
Proof.
  intros l x H. apply filter_all_true. intros y Hy. apply negb_true_iff. apply (eqb_false' eqb eqb_spec).
  intros ->. contradiction.
Qed.

Lemma uniq_prefix : forall (ys l : list X), NoDup ys ->
  uniq eqb (ys ++ l) = ys ++ filter (fun x => negb (existsb (eqb x) ys)) (uniq eqb l).
Proof.
  induction ys as [|y ys IH]; intros l H; cbn.
  - symmetry. apply filter_all_true. reflexivity.
  - inversion H as [|? ? Hy Hys]; subst. f_equal. rewrite IH by assumption.
    rewrite filter_app, (filter_negb_eqb_notin ys y Hy). f_equal.
    rewrite filter_filter'. apply filter_ext. intros x.
    destruct (eqb x y) eqn:E1.
    + apply eqb_spec in E1. subst. rewrite (eqb_refl' eqb eqb_spec). reflexivity.
    + assert (E2 : eqb y x = false) by (apply (eqb_false' eqb eqb_spec); intros ->; rewrite (eqb_refl' eqb eqb_spec) in E1; discriminate).
      rewrite E2. cbn. reflexivity.
Qed.

Lemma uniq_prefix_absorb : forall (ys l : list X), NoDup ys -> (forall x, In x l -> In x ys) -> uniq eqb (ys ++ l) = ys.
Proof.
  intros ys l H Hl. rewrite uniq_prefix by assumption. rewrite filter_all_false'; [apply app_nil_r|].
  intros x Hx. rewrite (in_uniq eqb eqb_spec) in Hx. apply negb_false_iff.
  apply (existsb_eqb_In eqb eqb_spec). apply Hl. assumption.
Qed.

End UniqProduct.

Section ProductUniq.
Context {X Y : Type}.
Variable xeqb : X -> X -> bool.
Variable yeqb : Y -> Y -> bool.
Hypothesis xeqb_spec : forall a b, xeqb a b = true <-> a = b.
Hypothesis yeqb_spec : forall a b, yeqb a b = true <-> a = b.

Lemma map_fst_product_cons : forall (x : X) (xs : list X) (ys : list Y),
  map fst (product (x :: xs) ys) = map (fun _ => x) ys ++ map fst (product xs ys).
Proof. intros. unfold product. cbn. rewrite map_app, map_map. reflexivity. Qed.

Lemma uniq_fst_product : forall (xs : list X) (ys : list Y), ys <> [] -> NoDup xs ->
  uniq xeqb (map fst (product xs ys)) = xs.
Proof.
  intros xs ys Hy H. induction H as [|x xs Hx Hxs IH]; [reflexivity|].
  rewrite map_fst_product_cons. rewrite (uniq_block xeqb xeqb_spec _ _ x).
  - rewrite IH. reflexivity.
  - destruct ys; [contradiction|discriminate].
  - intros y Hy'. apply in_map_iff in Hy' as (? & <- & _). reflexivity.
  - intros H. apply in_map_iff in H as ([x' y'] & E & H). cbn in E. subst x'.
    apply in_product in H as [H _]. contradiction.
Qed.

Lemma map_snd_product_cons : forall (x : X) (xs : list X) (ys : list Y),
  map snd (product (x :: xs) ys) = ys ++ map snd (product xs ys).
Proof. intros. unfold product. cbn. rewrite map_app, map_map. cbn. rewrite map_id. reflexivity. Qed.

Lemma uniq_snd_product : forall (xs : list X) (ys : list Y), xs <> [] -> NoDup ys ->
  uniq yeqb (map snd (product xs ys)) = ys.
Proof.
  intros [|x xs] ys Hx H; [contradiction|]. rewrite map_snd_product_cons.
  apply (uniq_prefix_absorb yeqb yeqb_spec); [assumption|].
  intros y Hy. apply in_map_iff in Hy as ([x' y'] & E & Hy). cbn in E. subst y'.
  apply in_product in Hy as [_ Hy]. assumption.
Qed.

End ProductUniq.

Section StackFacts.
Context {R G T A : Type}.
Variable reqb : R -> R -> bool.
Variable geqb : G -> G -> bool.
Variable teqb : T -> T -> bool.
Hypothesis reqb_spec : forall a b, reqb a b = true <-> a = b.
Hypothesis geqb_spec : forall a b, geqb a b = true <-> a = b.
Hypothesis teqb_spec : forall a b, teqb a b = true <-> a = b.

Lemma pair_eqb_spec {P Q} (p : P -> P -> bool) (q : Q -> Q -> bool) :
  (forall a b, p a b = true <-> a = b) -> (forall a b, q a b = true <-> a = b) ->
  forall a b : P * Q, p (fst a) (fst b) && q (snd a) (snd b) = true <-> a = b.
Proof.
  intros Hp Hq [a1 a2] [b1 b2]. cbn. rewrite andb_true_iff, Hp, Hq.
  split; [intros [-> ->]; reflexivity|intros E; injection E; auto].
Qed.

Lemma gt_eqb_spec : forall a b : G * T, gt_eqb geqb teqb a b = true <-> a = b.
Proof. apply pair_eqb_spec; assumption. Qed.
Lemma rt_eqb_spec : forall a b : R * T, gt_eqb reqb teqb a b = true <-> a = b.
Proof. apply pair_eqb_spec; assumption. Qed.

Definition targets_of (f : sframe A R (G * T)) : list T := uniq teqb (map snd (sf_cols f)).
Definition groups_of (f : sframe A R (G * T)) : list G := uniq geqb (map fst (sf_cols f)).

(* stack_shape *)
Theorem stack_shape : forall fill (f : sframe A R (G * T)),
  sf_rows (S_stack reqb geqb teqb fill f) = product (sf_rows f) (targets_of f) /\
  sf_cols (S_stack reqb geqb teqb fill f) = groups_of f /\
  NoDup (groups_of f) /\ NoDup (targets_of f) /\
  (forall g, In g (groups_of f) <-> exists t, In (g, t) (sf_cols f)) /\
  (forall t, In t (targets_of f) <-> exists g, In (g, t) (sf_cols f)).
Proof.
  intros fill f. unfold groups_of, targets_of. repeat split.
  - apply NoDup_uniq. exact geqb_spec.
  - apply NoDup_uniq. exact teqb_spec.
  - rewrite (in_uniq geqb geqb_spec). intros H. apply in_map_iff in H as ([g' t] & E & H). cbn in E. subst. eauto.
  - intros (t & H). rewrite (in_uniq geqb geqb_spec). apply in_map_iff. exists (g, t). auto.
  - rewrite (in_uniq teqb teqb_spec). intros H. apply in_map_iff in H as ([g t'] & E & H). cbn in E. subst. eauto.
  - intros (g & H). rewrite (in_uniq teqb teqb_spec). apply in_map_iff. exists (g, t). auto.
Qed.

(* stack_cells: the cell at (row ++ target, group) is the source cell at (row, (group, target)),
   the fill value where the source has no such column *)
Theorem stack_cells : forall fill (f : sframe A R (G * T)) r t g,
  In r (sf_rows f) -> In t (targets_of f) -> In g (groups_of f) ->
  get_of (gt_eqb reqb teqb) geqb (S_stack reqb geqb teqb fill f) fill (r, t) g =
  if existsb (gt_eqb geqb teqb (g, t)) (sf_cols f) then get_of reqb (gt_eqb geqb teqb) f fill r (g, t) else fill.
Proof.
  intros fill f r t g Hr Ht Hg. unfold S_stack.
  rewrite (get_tab (gt_eqb reqb teqb) geqb rt_eqb_spec geqb_spec); [reflexivity| |exact Hg].
  apply in_product. split; assumption.
Qed.

End StackFacts.

Section UnstackFacts.
Context {G T C A : Type}.
Variable geqb : G -> G -> bool.
Variable teqb : T -> T -> bool.
Variable ceqb : C -> C -> bool.
Hypothesis geqb_spec : forall a b, geqb a b = true <-> a = b.
Hypothesis teqb_spec : forall a b, teqb a b = true <-> a = b.
Hypothesis ceqb_spec : forall a b, ceqb a b = true <-> a = b.

Theorem unstack_cells : forall fill (f : sframe A (G * T) C) g c t,
  In g (uniq geqb (map fst (sf_rows f))) -> In c (sf_cols f) -> In t (uniq teqb (map snd (sf_rows f))) ->
  get_of geqb (ct_eqb teqb ceqb) (S_unstack geqb teqb ceqb fill f) fill g (c, t) =
  if existsb (gt_eqb' geqb teqb (g, t)) (sf_rows f) then get_of (gt_eqb' geqb teqb) ceqb f fill (g, t) c else fill.
Proof.
  intros fill f g c t Hg Hc Ht. unfold S_unstack.
  rewrite (get_tab geqb (ct_eqb teqb ceqb) geqb_spec (pair_eqb_spec ceqb teqb ceqb_spec teqb_spec)); [reflexivity|exact Hg|].
  apply in_product. split; assumption.
Qed.

End UnstackFacts.

(* ================================================================== the round trip *)
Section RoundTrip.
Context {R G T A : Type}.
Variable reqb : R -> R -> bool.
Variable geqb : G -> G -> bool.
Variable teqb : T -> T -> bool.
Hypothesis reqb_spec : forall a b, reqb a b = true <-> a = b.
Hypothesis geqb_spec : forall a b, geqb a b = true <-> a = b.
Hypothesis teqb_spec : forall a b, teqb a b = true <-> a = b.

(* pivot_unstack of the depth that pivot_stack moved: rows are split (row label, target), columns are the groups *)
Definition unstack_stack (fill : A) (f : sframe A R (G * T)) : sframe A R (G * T) :=
  S_unstack reqb teqb geqb fill (S_stack reqb geqb teqb fill f).

Theorem stack_unstack_roundtrip : forall fill (f : sframe A R (G * T)),
  NoDup (sf_rows f) -> sf_rows f <> [] -> sf_cols f <> [] ->
  let h := unstack_stack fill f in
  sf_rows h = sf_rows f /\
  sf_cols h = product (groups_of geqb f) (targets_of teqb f) /\
  (forall r g t, In r (sf_rows f) -> In (g, t) (sf_cols f) ->
     get_of reqb (gt_eqb geqb teqb) h fill r (g, t) = get_of reqb (gt_eqb geqb teqb) f fill r (g, t)) /\
  (forall r g t, In r (sf_rows f) -> In (g, t) (sf_cols h) -> ~ In (g, t) (sf_cols f) ->
     get_of reqb (gt_eqb geqb teqb) h fill r (g, t) = fill).
Proof.
  intros fill f Hrows Hrne Hcne h.
  assert (Htne : targets_of teqb f <> []).
  { unfold targets_of. destruct (sf_cols f) as [|c cs]; [contradiction|]. cbn. discriminate. }
  assert (NDt : NoDup (targets_of teqb f)) by (apply NoDup_uniq; exact teqb_spec).
  assert (Hr : uniq reqb (map fst (product (sf_rows f) (targets_of teqb f))) = sf_rows f)
    by (apply (uniq_fst_product reqb reqb_spec); assumption).
  assert (Ht : uniq teqb (map snd (product (sf_rows f) (targets_of teqb f))) = targets_of teqb f)
    by (apply (uniq_snd_product teqb teqb_spec); assumption).
  pose proof Hr as Hr'. pose proof Ht as Ht'. unfold targets_of in Hr', Ht'.
  assert (Hcell : forall r g t, In r (sf_rows f) -> In g (groups_of geqb f) -> In t (targets_of teqb f) ->
     get_of reqb (gt_eqb geqb teqb) h fill r (g, t) =
     if existsb (gt_eqb geqb teqb (g, t)) (sf_cols f) then get_of reqb (gt_eqb geqb teqb) f fill r (g, t) else fill).
  { intros r g t Hin Hg Htt. unfold h, unstack_stack. unfold targets_of, groups_of in *.
    pose proof (unstack_cells reqb teqb geqb reqb_spec teqb_spec geqb_spec fill (S_stack reqb geqb teqb fill f) r g t) as U.
    cbn [sf_rows sf_cols S_stack] in U. rewrite Hr', Ht' in U.
    unfold ct_eqb in U. unfold gt_eqb. rewrite (U Hin Hg Htt). clear U.
    assert (Hex : existsb (gt_eqb' reqb teqb (r, t)) (product (sf_rows f) (uniq teqb (map snd (sf_cols f)))) = true).
    { apply existsb_exists. exists (r, t). split; [apply in_product; split; assumption|].
      apply (pair_eqb_spec reqb teqb reqb_spec teqb_spec). reflexivity. }
    rewrite Hex.
    exact (stack_cells reqb geqb teqb reqb_spec geqb_spec teqb_spec fill f r t g Hin Htt Hg). }
  unfold h, unstack_stack. cbn [sf_rows sf_cols S_unstack S_stack]. rewrite Hr', Ht'.
  repeat split.
  - intros r g t Hin Hc. fold (unstack_stack fill f). fold h.
    assert (Hg : In g (groups_of geqb f)).
    { unfold groups_of. rewrite (in_uniq geqb geqb_spec). apply in_map_iff. exists (g, t). auto. }
    assert (Htt : In t (targets_of teqb f)).
    { unfold targets_of. rewrite (in_uniq teqb teqb_spec). apply in_map_iff. exists (g, t). auto. }
    rewrite (Hcell r g t Hin Hg Htt).
    assert (E : existsb (gt_eqb geqb teqb (g, t)) (sf_cols f) = true).
    { apply (existsb_eqb_In (gt_eqb geqb teqb) (gt_eqb_spec geqb teqb geqb_spec teqb_spec)). assumption. }
    rewrite E. reflexivity.
  - intros r g t Hin Hc Hn. fold (unstack_stack fill f). fold h.
    apply in_product in Hc as [Hg Htt].
    rewrite (Hcell r g t Hin Hg Htt).
    destruct (existsb (gt_eqb geqb teqb (g, t)) (sf_cols f)) eqn:E; [|reflexivity].
    apply (existsb_eqb_In (gt_eqb geqb teqb) (gt_eqb_spec geqb teqb geqb_spec teqb_spec)) in E. contradiction.
Qed.

End RoundTrip.
