(* Facts about Python slices: range lists, reversal, bounds. *)
Require Import SF.Prelude SF.PySlice.

Lemma range_list_length a st c : length (range_list a st c) = c.
Proof. unfold range_list. now rewrite map_length, seq_length. Qed.

Lemma range_list_nth a st c i : (i < c)%nat ->
  nth_error (range_list a st c) i = Some (a + Z.of_nat i * st).
Proof.
  intros H. unfold range_list.
  rewrite nth_error_map, nth_error_nth' with (d := 0%nat) by (now rewrite seq_length).
  rewrite seq_nth by assumption. reflexivity.
Qed.

Lemma range_list_S a st c : range_list a st (S c) = a :: range_list (a + st) st c.
Proof.
  unfold range_list. cbn [seq map]. f_equal; [lia|].
  rewrite <- seq_shift, map_map. apply map_ext. intros i. lia.
Qed.

Lemma range_list_snoc a st c : range_list a st (S c) = range_list a st c ++ [a + Z.of_nat c * st].
Proof.
  unfold range_list. rewrite seq_S, map_app. reflexivity.
Qed.

Lemma rev_range_list a st c :
  rev (range_list a st c) = range_list (a + (Z.of_nat c - 1) * st) (- st) c.
Proof.
  revert a. induction c as [|c IH]; intros a; [reflexivity|].
  rewrite range_list_snoc, rev_app_distr. cbn [rev app].
  rewrite range_list_S. f_equal; [lia|].
  rewrite IH. f_equal. lia.
Qed.

Lemma range_list_In a st c x :
  In x (range_list a st c) <-> exists i, (i < c)%nat /\ x = a + Z.of_nat i * st.
Proof.
  unfold range_list. rewrite in_map_iff. split.
  - intros (i & <- & Hi). apply in_seq in Hi. exists i. split; [lia|reflexivity].
  - intros (i & Hi & ->). exists i. split; [reflexivity|]. apply in_seq. lia.
Qed.

(* strictly increasing lists of integers *)
Definition increasing (l : list Z) : Prop := StronglySorted Z.lt l.

Lemma range_list_increasing a st c : 0 < st -> increasing (range_list a st c).
Proof.
  intros Hst. revert a. induction c as [|c IH]; intros a.
  - constructor.
  - rewrite range_list_S. constructor; [apply IH|].
    apply Forall_forall. intros x Hx. apply range_list_In in Hx as (i & _ & ->). nia.
Qed.

Lemma increasing_NoDup l : increasing l -> NoDup l.
Proof.
  induction 1 as [|x l Hs IH Hf]; constructor; [|assumption].
  intros Hin. rewrite Forall_forall in Hf. specialize (Hf _ Hin). lia.
Qed.

(* every position selected by a slice lies inside [0, len) *)
Lemma positions_in_range s len ps x : 0 <= len ->
  positions s len = Some ps -> In x ps -> 0 <= x < len.
Proof.
  intros Hlen. unfold positions, slice_indices.
  destruct (_ =? 0) eqn:Hz; [discriminate|].
  set (st := match s_step s with Some v => v | None => 1 end) in *.
  intros E Hin. injection E as <-.
  apply range_list_In in Hin as (i & Hi & ->).
  revert Hi. unfold range_len, adj_bound.
  destruct (s_start s) as [a|], (s_stop s) as [b|];
    repeat match goal with |- context [if ?c then _ else _] => destruct c eqn:? end; nia.
Qed.
