(* C01: REFINEMENT.  On every guarded history the implementation model M (copy only when the argument is
   writeable, keep read-only arguments, views and exposed arrays shared) is observationally equal to the
   value-semantics specification S (every container slot and every exposed array is a private frozen copy):
   same outcome of every step, same content and flags of every container slot and of every caller array,
   after every step. *)
Require Import SF.Prelude SF.Heap Proofs.HeapFrozen.
Local Open Scope nat_scope.

(* ---------- list helpers ---------- *)
Lemma Forall2_nth_error {A B} (P : A -> B -> Prop) l1 l2 k :
  Forall2 P l1 l2 ->
  match nth_error l1 k, nth_error l2 k with
  | Some a, Some b => P a b
  | None, None => True
  | _, _ => False
  end.
Proof.
  intros H; revert k; induction H; intros [|k]; cbn; auto. apply IHForall2.
Qed.

Lemma Forall2_upd {A B} (P : A -> B -> Prop) l1 l2 k x y :
  Forall2 P l1 l2 -> P x y -> Forall2 P (upd l1 k x) (upd l2 k y).
Proof.
  intros H Hxy; revert k; induction H; intros [|k]; cbn; constructor; auto.
Qed.

Lemma Forall2_snoc {A B} (P : A -> B -> Prop) l1 l2 x y :
  Forall2 P l1 l2 -> P x y -> Forall2 P (l1 ++ [x]) (l2 ++ [y]).
Proof. intros H Hxy. apply Forall2_app; auto. Qed.

Lemma Forall2_impl {A B} (P Q : A -> B -> Prop) l1 l2 :
  (forall a b, P a b -> Q a b) -> Forall2 P l1 l2 -> Forall2 Q l1 l2.
Proof. intros H F; induction F; constructor; auto. Qed.

Lemma Forall2_concat {A B} (P : A -> B -> Prop) l1 l2 :
  Forall2 (Forall2 P) l1 l2 -> Forall2 P (concat l1) (concat l2).
Proof. intros H; induction H; cbn; [constructor|apply Forall2_app; auto]. Qed.

Lemma Forall2_length' {A B} (P : A -> B -> Prop) l1 l2 : Forall2 P l1 l2 -> length l1 = length l2.
Proof. intros H; induction H; cbn; auto. Qed.

Lemma map_nth_seq {A} (l : list A) d : map (fun i => nth i l d) (seq 0 (length l)) = l.
Proof.
  induction l as [|a t IH]; cbn; auto. f_equal.
  rewrite <- seq_shift, map_map. cbn. exact IH.
Qed.

Lemma nth_app_len {A} (l : list A) x ext d : nth (length l) (l ++ x :: ext) d = x.
Proof. rewrite app_nth2 by lia. rewrite Nat.sub_diag. reflexivity. Qed.

(* content of a freshly allocated handle, whatever is allocated later *)
Lemma h_content_fresh bs vs ext w :
  h_content (bs ++ vs :: ext) (mk_handle (length bs) (seq 0 (length vs)) w) = vs.
Proof.
  unfold h_content, buf_get; cbn. rewrite nth_app_len. apply map_nth_seq.
Qed.

Lemma h_content_app bs ext h : h_buf h < length bs -> h_content (bs ++ ext) h = h_content bs h.
Proof. intros H. apply h_content_ext. apply buf_get_app; auto. Qed.

Lemma sel_ok_spec n sel : sel_ok n sel = true -> forall i, In i sel -> i < n.
Proof.
  unfold sel_ok. rewrite forallb_forall. intros H i Hi. apply H in Hi. apply Nat.ltb_lt; auto.
Qed.

(* the content of a view is the selection of the content of its base *)
Lemma h_content_view bs h sel :
  sel_ok (length (h_sel h)) sel = true ->
  h_content bs (h_view h sel) = map (fun i => nth i (h_content bs h) 0%Z) sel.
Proof.
  intros Hok. unfold h_content, h_view; cbn. rewrite map_map.
  apply map_ext_in. intros i Hi. pose proof (sel_ok_spec _ _ Hok i Hi) as Hlt.
  set (f := fun j => nth j (buf_get bs (h_buf h)) 0%Z).
  change (f (nth i (h_sel h) 0) = nth i (map f (h_sel h)) 0%Z).
  rewrite (nth_indep (map f (h_sel h)) 0%Z (f 0)) by (rewrite map_length; exact Hlt).
  rewrite map_nth. reflexivity.
Qed.

Lemma h_content_length bs h : length (h_content bs h) = length (h_sel h).
Proof. unfold h_content. apply map_length. Qed.

(* ---------- how handles come into being ---------- *)
(* every handle of the new state is an old one, or read-only, or on a buffer allocated since, or inherits
   buffer and flag from an old one *)
Definition spawn (n : nat) (old new : list handle) : Prop :=
  forall h', In h' new ->
    In h' old \/ h_w h' = false \/ n <= h_buf h' \/
    (exists h, In h old /\ h_buf h = h_buf h' /\ h_w h = h_w h').

Definition fb (hs : list handle) (b : nat) : Prop := forall h, In h hs -> h_buf h = b -> h_w h = false.

Lemma fb_stable n old new b :
  (forall h, In h old -> h_buf h < n) -> spawn n old new -> b < n -> fb old b -> fb new b.
Proof.
  intros Hwf Hsp Hb Hfb h' Hin Hb'.
  destruct (Hsp h' Hin) as [Ho|[Hf|[Hn|[h [Ho [E1 E2]]]]]]; auto.
  - lia.
  - rewrite <- E2. apply Hfb; auto. congruence.
Qed.

Lemma spawn_refl n l : spawn n l l.
Proof. intros h H; auto. Qed.

Lemma spawn_incl n old new new' : spawn n old new -> (forall h, In h new' -> In h new) -> spawn n old new'.
Proof. intros H I h Hh. apply H. auto. Qed.

(* ---------- the simulation relation (over flat states) ---------- *)
Section Rel.
  Variables (bm : list (list Z)) (cm chm : list handle) (bs : list (list Z)) (cs chs : list handle).

  (* both read-only, on buffers nobody can write, same content *)
  Definition frel (hm hs : handle) : Prop :=
    h_w hm = false /\ h_w hs = false /\ fb (cm ++ chm) (h_buf hm) /\ fb (cs ++ chs) (h_buf hs) /\
    h_buf hm < length bm /\ h_buf hs < length bs /\ h_content bm hm = h_content bs hs.
  (* the very same handle on a buffer that has the same content in both worlds *)
  Definition srel (hm hs : handle) : Prop :=
    hm = hs /\ h_buf hm < length bm /\ buf_get bm (h_buf hm) = buf_get bs (h_buf hm).
  Definition hrel (hm hs : handle) : Prop := srel hm hs \/ frel hm hs.

  Definition R3 : Prop :=
    length bm = length bs /\ WF3 bm cm chm /\ WF3 bs cs chs /\ Forall2 hrel cm cs /\ Forall2 frel chm chs.
End Rel.

Lemma hrel_obs bm cm chm bs cs chs hm hs :
  hrel bm cm chm bs cs chs hm hs -> h_content bm hm = h_content bs hs /\ h_w hm = h_w hs.
Proof.
  intros [[-> [_ E]]|(W1 & W2 & _ & _ & _ & _ & C)].
  - split; auto. apply h_content_ext. auto.
  - split; congruence.
Qed.

(* append-only transitions keep every established pair *)
Lemma lift_frel bm cm chm bs cs chs em es cm' chm' cs' chs' hm hs :
  WF3 bm cm chm -> WF3 bs cs chs ->
  spawn (length bm) (cm ++ chm) (cm' ++ chm') -> spawn (length bs) (cs ++ chs) (cs' ++ chs') ->
  frel bm cm chm bs cs chs hm hs ->
  frel (bm ++ em) cm' chm' (bs ++ es) cs' chs' hm hs.
Proof.
  intros Wm Ws Sm Ss (W1 & W2 & F1 & F2 & L1 & L2 & C).
  repeat split; auto.
  - apply (fb_stable (length bm) (cm ++ chm) (cm' ++ chm') (h_buf hm) Wm Sm L1 F1).
  - apply (fb_stable (length bs) (cs ++ chs) (cs' ++ chs') (h_buf hs) Ws Ss L2 F2).
  - rewrite app_length; lia.
  - rewrite app_length; lia.
  - rewrite !h_content_app by auto. exact C.
Qed.

Lemma lift_srel bm bs em es hm hs :
  length bm = length bs ->
  srel bm bs hm hs -> srel (bm ++ em) (bs ++ es) hm hs.
Proof.
  intros L (-> & Lb & E). repeat split; auto.
  - rewrite app_length; lia.
  - rewrite !buf_get_app by lia. exact E.
Qed.

Lemma lift_hrel bm cm chm bs cs chs em es cm' chm' cs' chs' hm hs :
  length bm = length bs -> WF3 bm cm chm -> WF3 bs cs chs ->
  spawn (length bm) (cm ++ chm) (cm' ++ chm') -> spawn (length bs) (cs ++ chs) (cs' ++ chs') ->
  hrel bm cm chm bs cs chs hm hs ->
  hrel (bm ++ em) cm' chm' (bs ++ es) cs' chs' hm hs.
Proof.
  intros L Wm Ws Sm Ss [H|H]; [left; eapply lift_srel; eauto|right; eapply lift_frel; eauto].
Qed.

(* a fresh frozen slot on each side, same content *)
Lemma frel_fresh bm bs vm vs_ em es cm' chm' cs' chs' :
  length bm = length bs -> vm = vs_ ->
  (forall h, In h (cm' ++ chm') -> h_buf h = length bm -> h_w h = false) ->
  (forall h, In h (cs' ++ chs') -> h_buf h = length bs -> h_w h = false) ->
  frel (bm ++ vm :: em) cm' chm' (bs ++ vs_ :: es) cs' chs'
       (mk_handle (length bm) (seq 0 (length vm)) false) (mk_handle (length bs) (seq 0 (length vs_)) false).
Proof.
  intros L -> Fm Fs. unfold frel. cbn [h_buf h_w].
  split; [reflexivity|]. split; [reflexivity|]. split; [exact Fm|]. split; [exact Fs|].
  split; [rewrite app_length; cbn; lia|]. split; [rewrite app_length; cbn; lia|].
  rewrite !h_content_fresh. reflexivity.
Qed.

(* ---------- building blocks of the simulation ---------- *)
Ltac in_split H :=
  repeat match type of H with
         | In _ (_ ++ _) => apply in_app_or in H as [H|H]
         | In _ [_] => destruct H as [H|[]]
         | In _ (_ :: _) => destruct H as [H|H]
         end.

Lemma R3_lift bm cm chm bs cs chs em es cm' chm' cs' chs' :
  R3 bm cm chm bs cs chs ->
  spawn (length bm) (cm ++ chm) (cm' ++ chm') -> spawn (length bs) (cs ++ chs) (cs' ++ chs') ->
  Forall2 (hrel (bm ++ em) cm' chm' (bs ++ es) cs' chs') cm cs /\
  Forall2 (frel (bm ++ em) cm' chm' (bs ++ es) cs' chs') chm chs.
Proof.
  intros (L & Wm & Ws & Fc & Fk) Sm Ss. split.
  - eapply Forall2_impl; [|exact Fc]. intros a b H. eapply lift_hrel; eauto.
  - eapply Forall2_impl; [|exact Fk]. intros a b H. eapply lift_frel; eauto.
Qed.

(* both sides allocate a fresh frozen slot with the same content *)
Lemma R3_fresh_both bm cm chm bs cs chs v :
  R3 bm cm chm bs cs chs ->
  R3 (bm ++ [v]) cm (chm ++ [mk_handle (length bm) (seq 0 (length v)) false])
     (bs ++ [v]) cs (chs ++ [mk_handle (length bs) (seq 0 (length v)) false]).
Proof.
  intros HR. pose proof HR as (L & Wm & Ws & Fc & Fk).
  set (hm := mk_handle (length bm) (seq 0 (length v)) false).
  set (hs := mk_handle (length bs) (seq 0 (length v)) false).
  assert (Sm : spawn (length bm) (cm ++ chm) (cm ++ chm ++ [hm])).
  { intros h H. in_split H; [left; apply in_or_app; auto|left; apply in_or_app; auto|].
    subst h. right; right; left. cbn. lia. }
  assert (Ss : spawn (length bs) (cs ++ chs) (cs ++ chs ++ [hs])).
  { intros h H. in_split H; [left; apply in_or_app; auto|left; apply in_or_app; auto|].
    subst h. right; right; left. cbn. lia. }
  destruct (R3_lift _ _ _ _ _ _ [v] [v] _ _ _ _ HR Sm Ss) as [Fc' Fk'].
  split; [rewrite !app_length; cbn; lia|].
  split; [|split; [|split; [exact Fc'|]]].
  - intros h H. rewrite app_length; cbn. in_split H.
    + assert (In h (cm ++ chm)) by (apply in_or_app; auto). apply Wm in H0. lia.
    + assert (In h (cm ++ chm)) by (apply in_or_app; auto). apply Wm in H0. lia.
    + subst h. cbn. lia.
  - intros h H. rewrite app_length; cbn. in_split H.
    + assert (In h (cs ++ chs)) by (apply in_or_app; auto). apply Ws in H0. lia.
    + assert (In h (cs ++ chs)) by (apply in_or_app; auto). apply Ws in H0. lia.
    + subst h. cbn. lia.
  - apply Forall2_snoc; auto. apply frel_fresh; auto.
    + intros h H E. in_split H.
      * assert (In h (cm ++ chm)) by (apply in_or_app; auto). apply Wm in H0. lia.
      * assert (In h (cm ++ chm)) by (apply in_or_app; auto). apply Wm in H0. lia.
      * subst h. reflexivity.
    + intros h H E. in_split H.
      * assert (In h (cs ++ chs)) by (apply in_or_app; auto). apply Ws in H0. lia.
      * assert (In h (cs ++ chs)) by (apply in_or_app; auto). apply Ws in H0. lia.
      * subst h. reflexivity.
Qed.

(* M keeps a read-only handle on a buffer nobody can write; S takes a private copy of its content *)
Lemma R3_share_fresh bm cm chm bs cs chs hm v :
  R3 bm cm chm bs cs chs ->
  h_w hm = false -> fb (cm ++ chm) (h_buf hm) -> h_buf hm < length bm -> h_content bm hm = v ->
  R3 (dummy bm) cm (chm ++ [hm]) (bs ++ [v]) cs (chs ++ [mk_handle (length bs) (seq 0 (length v)) false]).
Proof.
  intros HR Hw Hfb Hlt Hc. pose proof HR as (L & Wm & Ws & Fc & Fk).
  set (hs := mk_handle (length bs) (seq 0 (length v)) false).
  assert (Sm : spawn (length bm) (cm ++ chm) (cm ++ chm ++ [hm])).
  { intros h H. in_split H; [left; apply in_or_app; auto|left; apply in_or_app; auto|].
    subst h. auto. }
  assert (Ss : spawn (length bs) (cs ++ chs) (cs ++ chs ++ [hs])).
  { intros h H. in_split H; [left; apply in_or_app; auto|left; apply in_or_app; auto|].
    subst h. right; right; left. cbn. lia. }
  destruct (R3_lift _ _ _ _ _ _ [[]] [v] _ _ _ _ HR Sm Ss) as [Fc' Fk'].
  unfold dummy.
  split; [rewrite !app_length; cbn; lia|].
  split; [|split; [|split; [exact Fc'|]]].
  - intros h H. rewrite app_length; cbn. in_split H.
    + assert (In h (cm ++ chm)) by (apply in_or_app; auto). apply Wm in H0. lia.
    + assert (In h (cm ++ chm)) by (apply in_or_app; auto). apply Wm in H0. lia.
    + subst h. lia.
  - intros h H. rewrite app_length; cbn. in_split H.
    + assert (In h (cs ++ chs)) by (apply in_or_app; auto). apply Ws in H0. lia.
    + assert (In h (cs ++ chs)) by (apply in_or_app; auto). apply Ws in H0. lia.
    + subst h. cbn. lia.
  - apply Forall2_snoc; auto. unfold frel. cbn [h_buf h_w].
    split; [exact Hw|]. split; [reflexivity|]. split; [|split].
    + apply (fb_stable (length bm) (cm ++ chm) _ (h_buf hm) Wm Sm Hlt Hfb).
    + intros h H E. unfold hs in E; cbn in E. in_split H.
      * assert (In h (cs ++ chs)) by (apply in_or_app; auto). apply Ws in H0. lia.
      * assert (In h (cs ++ chs)) by (apply in_or_app; auto). apply Ws in H0. lia.
      * subst h. reflexivity.
    + split; [rewrite app_length; cbn; lia|]. split; [rewrite app_length; cbn; lia|].
      rewrite h_content_app by auto. rewrite Hc. unfold hs. rewrite h_content_fresh. reflexivity.
Qed.

Lemma set_w_false_id h : h_w h = false -> set_w h false = h.
Proof. destruct h as [b s w]; cbn; intros ->; reflexivity. Qed.

Lemma h_content_set_w bs h w : h_content bs (set_w h w) = h_content bs h.
Proof. reflexivity. Qed.

Lemma hrel_set_w_false bm cm chm bs cs chs hm hs :
  hrel bm cm chm bs cs chs hm hs -> hrel bm cm chm bs cs chs (set_w hm false) (set_w hs false).
Proof.
  intros [(-> & L & E)|H].
  - left. repeat split; auto.
  - right. destruct H as (W1 & W2 & R). rewrite !set_w_false_id by auto. repeat split; auto; apply R.
Qed.

(* SFreeze / the caller side of ROwn: the flag of caller k drops on both sides *)
Lemma spawn_upd_false n cs ch k x extra :
  h_w x = false -> (forall h, In h extra -> h_w h = false \/ n <= h_buf h) ->
  spawn n (cs ++ ch) (upd cs k x ++ ch ++ extra).
Proof.
  intros Hx He h H. in_split H.
  - apply In_upd in H as [->|[k' [_ Hn]]]; auto. left. apply in_or_app; left. eapply nth_error_In; eauto.
  - left. apply in_or_app; auto.
  - destruct (He h H); auto.
Qed.

Lemma WF3_upd_set_w bs cs ch k h b extra n' :
  WF3 bs cs ch -> nth_error cs k = Some h -> length bs <= n' ->
  (forall x, In x extra -> h_buf x < n') ->
  forall x, In x (upd cs k (set_w h b) ++ ch ++ extra) -> h_buf x < n'.
Proof.
  intros W Hk Hn He x H. in_split H.
  - apply In_upd in H as [->|[k' [_ Hn']]].
    + cbn. assert (In h (cs ++ ch)) by (apply in_or_app; left; eapply nth_error_In; eauto). apply W in H. lia.
    + assert (In x (cs ++ ch)) by (apply in_or_app; left; eapply nth_error_In; eauto). apply W in H. lia.
  - assert (In x (cs ++ ch)) by (apply in_or_app; auto). apply W in H0. lia.
  - auto.
Qed.

Lemma R3_own bm cm chm bs cs chs conts k hk hsk :
  chm = concat conts ->
  R3 bm cm chm bs cs chs ->
  nth_error cm k = Some hk -> nth_error cs k = Some hsk ->
  others_frozen_b cm k (h_buf hk) = true -> buf_frozen_b [] conts (h_buf hk) = true ->
  R3 (dummy bm) (upd cm k (set_w hk false)) (chm ++ [set_w hk false])
     (bs ++ [h_content bs hsk]) (upd cs k (set_w hsk false))
     (chs ++ [mk_handle (length bs) (seq 0 (length (h_content bs hsk))) false]).
Proof.
  intros -> HR Hk Hks Ho Hc. pose proof HR as (L & Wm & Ws & Fc & Fk).
  set (chm := concat conts) in *.
  set (x := set_w hk false). set (y := set_w hsk false).
  set (v := h_content bs hsk).
  set (hs := mk_handle (length bs) (seq 0 (length v)) false).
  pose proof (Forall2_nth_error _ _ _ k Fc) as Hrel. rewrite Hk, Hks in Hrel.
  assert (Sm : spawn (length bm) (cm ++ chm) (upd cm k x ++ chm ++ [x])).
  { apply spawn_upd_false; [reflexivity|]. intros h [<-|[]]. left; reflexivity. }
  assert (Ss : spawn (length bs) (cs ++ chs) (upd cs k y ++ chs ++ [hs])).
  { apply spawn_upd_false; [reflexivity|]. intros h [<-|[]]. right; cbn; lia. }
  destruct (R3_lift _ _ _ _ _ _ [[]] [v] _ _ _ _ HR Sm Ss) as [Fc' Fk'].
  assert (Hkb : h_buf hk < length bm).
  { apply Wm. apply in_or_app; left. eapply nth_error_In; eauto. }
  unfold dummy.
  split; [rewrite !app_length; cbn; lia|].
  split; [|split; [|split]].
  - intros h H. rewrite app_length; cbn.
    apply (WF3_upd_set_w bm cm chm k hk false [x] (length bm + 1) Wm Hk); auto; [lia|].
    intros z [<-|[]]. cbn. lia.
  - intros h H. rewrite app_length; cbn.
    apply (WF3_upd_set_w bs cs chs k hsk false [hs] (length bs + 1) Ws Hks); auto; [lia|].
    intros z [<-|[]]. cbn. lia.
  - apply Forall2_upd; auto. apply hrel_set_w_false.
    eapply lift_hrel; eauto.
  - apply Forall2_snoc; auto. unfold frel. cbn [h_buf h_w x hs set_w].
    split; [reflexivity|]. split; [reflexivity|]. split; [|split].
    + (* nobody can write the owned buffer any more *)
      pose proof (others_frozen_b_spec _ _ _ Ho) as Hoth.
      pose proof (buf_frozen_b_spec [] conts (h_buf hk) Hc) as Hcont. cbn in Hcont.
      intros h H E. in_split H.
      * apply In_upd in H as [->|[k' [Hne Hn]]]; [reflexivity|]. eapply Hoth; eauto.
      * apply Hcont; auto.
      * subst h. reflexivity.
    + intros h H E. cbn in E. in_split H.
      * apply In_upd in H as [->|[k' [Hne Hn]]]; [reflexivity|].
        assert (In h (cs ++ chs)) by (apply in_or_app; left; eapply nth_error_In; eauto). apply Ws in H. lia.
      * assert (In h (cs ++ chs)) by (apply in_or_app; auto). apply Ws in H0. lia.
      * subst h. reflexivity.
    + split; [rewrite app_length; cbn; lia|]. split; [rewrite app_length; cbn; lia|].
      change (h_content (bm ++ [[]]) (set_w hk false)) with (h_content (bm ++ [[]]) hk).
      rewrite h_content_app by auto. unfold hs. rewrite h_content_fresh.
      unfold v. apply (hrel_obs _ _ _ _ _ _ _ _ Hrel).
Qed.

(* SNew: the same fresh writeable array on both sides *)
Lemma R3_new_caller bm cm chm bs cs chs v :
  R3 bm cm chm bs cs chs ->
  R3 (bm ++ [v]) (cm ++ [mk_handle (length bm) (seq 0 (length v)) true]) chm
     (bs ++ [v]) (cs ++ [mk_handle (length bs) (seq 0 (length v)) true]) chs.
Proof.
  intros HR. pose proof HR as (L & Wm & Ws & Fc & Fk).
  set (hm := mk_handle (length bm) (seq 0 (length v)) true).
  set (hs := mk_handle (length bs) (seq 0 (length v)) true).
  assert (Sm : spawn (length bm) (cm ++ chm) ((cm ++ [hm]) ++ chm)).
  { intros h H. in_split H; [left; apply in_or_app; auto| |left; apply in_or_app; auto].
    subst h. right; right; left. cbn. lia. }
  assert (Ss : spawn (length bs) (cs ++ chs) ((cs ++ [hs]) ++ chs)).
  { intros h H. in_split H; [left; apply in_or_app; auto| |left; apply in_or_app; auto].
    subst h. right; right; left. cbn. lia. }
  destruct (R3_lift _ _ _ _ _ _ [v] [v] _ _ _ _ HR Sm Ss) as [Fc' Fk'].
  split; [rewrite !app_length; cbn; lia|].
  split; [|split; [|split; [|exact Fk']]].
  - intros h H. rewrite app_length; cbn. in_split H.
    + assert (In h (cm ++ chm)) by (apply in_or_app; auto). apply Wm in H0. lia.
    + subst h. cbn. lia.
    + assert (In h (cm ++ chm)) by (apply in_or_app; auto). apply Wm in H0. lia.
  - intros h H. rewrite app_length; cbn. in_split H.
    + assert (In h (cs ++ chs)) by (apply in_or_app; auto). apply Ws in H0. lia.
    + subst h. cbn. lia.
    + assert (In h (cs ++ chs)) by (apply in_or_app; auto). apply Ws in H0. lia.
  - apply Forall2_snoc; auto. left. unfold srel, hm, hs. rewrite L. cbn [h_buf].
    split; [reflexivity|]. split; [rewrite app_length; cbn; lia|].
    unfold buf_get. rewrite <- L at 1. rewrite !nth_app_len. reflexivity.
Qed.

Lemma R3_nil_ext bm cm chm bs cs chs :
  R3 (bm ++ []) cm chm (bs ++ []) cs chs -> R3 bm cm chm bs cs chs.
Proof. rewrite !app_nil_r. auto. Qed.

(* SView: the caller takes a view of its array k *)
Lemma hrel_sel_len bm cm chm bs cs chs hm hs :
  hrel bm cm chm bs cs chs hm hs -> length (h_sel hm) = length (h_sel hs).
Proof.
  intros H. destruct (hrel_obs _ _ _ _ _ _ _ _ H) as [C _].
  rewrite <- !(h_content_length bm hm), C. apply h_content_length.
Qed.

Lemma R3_view_caller bm cm chm bs cs chs k hk hsk sel :
  R3 bm cm chm bs cs chs ->
  nth_error cm k = Some hk -> nth_error cs k = Some hsk ->
  sel_ok (length (h_sel hk)) sel = true ->
  R3 bm (cm ++ [h_view hk sel]) chm bs (cs ++ [h_view hsk sel]) chs.
Proof.
  intros HR Hk Hks Hok. pose proof HR as (L & Wm & Ws & Fc & Fk).
  pose proof (Forall2_nth_error _ _ _ k Fc) as Hrel. rewrite Hk, Hks in Hrel.
  assert (Hkin : In hk (cm ++ chm)) by (apply in_or_app; left; eapply nth_error_In; eauto).
  assert (Hksin : In hsk (cs ++ chs)) by (apply in_or_app; left; eapply nth_error_In; eauto).
  assert (Sm : spawn (length bm) (cm ++ chm) ((cm ++ [h_view hk sel]) ++ chm)).
  { intros h H. in_split H; [left; apply in_or_app; auto| |left; apply in_or_app; auto].
    subst h. right; right; right. exists hk. auto. }
  assert (Ss : spawn (length bs) (cs ++ chs) ((cs ++ [h_view hsk sel]) ++ chs)).
  { intros h H. in_split H; [left; apply in_or_app; auto| |left; apply in_or_app; auto].
    subst h. right; right; right. exists hsk. auto. }
  destruct (R3_lift _ _ _ _ _ _ [] [] _ _ _ _ HR Sm Ss) as [Fc' Fk'].
  apply R3_nil_ext.
  split; [rewrite !app_nil_r; auto|].
  split; [|split; [|split; [|exact Fk']]].
  - rewrite app_nil_r. intros h H. in_split H.
    + apply Wm. apply in_or_app; auto.
    + subst h. cbn. apply Wm; auto.
    + apply Wm. apply in_or_app; auto.
  - rewrite app_nil_r. intros h H. in_split H.
    + apply Ws. apply in_or_app; auto.
    + subst h. cbn. apply Ws; auto.
    + apply Ws. apply in_or_app; auto.
  - apply Forall2_snoc; auto.
    pose proof (hrel_sel_len _ _ _ _ _ _ _ _ Hrel) as Hlen.
    assert (Hrel' : hrel (bm ++ []) (cm ++ [h_view hk sel]) chm (bs ++ []) (cs ++ [h_view hsk sel]) chs hk hsk).
    { eapply lift_hrel; eauto. }
    destruct Hrel' as [(-> & Lb & E)|(W1 & W2 & F1 & F2 & L1 & L2 & C)].
    + left. repeat split; auto.
    + right. unfold frel. cbn [h_view h_buf h_w].
      split; [exact W1|]. split; [exact W2|]. split; [exact F1|]. split; [exact F2|].
      split; [exact L1|]. split; [exact L2|].
      rewrite !h_content_view; [rewrite C; reflexivity| rewrite <- Hlen; exact Hok | exact Hok].
Qed.

(* SFreeze *)
Lemma R3_freeze bm cm chm bs cs chs k hk hsk :
  R3 bm cm chm bs cs chs ->
  nth_error cm k = Some hk -> nth_error cs k = Some hsk ->
  R3 bm (upd cm k (set_w hk false)) chm bs (upd cs k (set_w hsk false)) chs.
Proof.
  intros HR Hk Hks. pose proof HR as (L & Wm & Ws & Fc & Fk).
  pose proof (Forall2_nth_error _ _ _ k Fc) as Hrel. rewrite Hk, Hks in Hrel.
  assert (Sm : spawn (length bm) (cm ++ chm) (upd cm k (set_w hk false) ++ chm ++ [])).
  { apply spawn_upd_false; [reflexivity|]. intros h []. }
  assert (Ss : spawn (length bs) (cs ++ chs) (upd cs k (set_w hsk false) ++ chs ++ [])).
  { apply spawn_upd_false; [reflexivity|]. intros h []. }
  rewrite !app_nil_r in Sm, Ss.
  destruct (R3_lift _ _ _ _ _ _ [] [] _ _ _ _ HR Sm Ss) as [Fc' Fk'].
  apply R3_nil_ext.
  split; [rewrite !app_nil_r; auto|].
  split; [|split; [|split; [|exact Fk']]].
  - rewrite app_nil_r. intros h H.
    apply (WF3_upd_set_w bm cm chm k hk false [] (length bm) Wm Hk); auto.
    + intros x [].
    + rewrite app_nil_r. exact H.
  - rewrite app_nil_r. intros h H.
    apply (WF3_upd_set_w bs cs chs k hsk false [] (length bs) Ws Hks); auto.
    + intros x [].
    + rewrite app_nil_r. exact H.
  - apply Forall2_upd; auto. apply hrel_set_w_false. eapply lift_hrel; eauto.
Qed.

(* SExpose: M hands out the container's own handle, S a private frozen copy *)
Lemma R3_expose bm cm chm bs cs chs hm hs :
  R3 bm cm chm bs cs chs ->
  In hm chm -> frel bm cm chm bs cs chs hm hs ->
  R3 (dummy bm) (cm ++ [hm]) chm
     (bs ++ [h_content bs hs]) (cs ++ [mk_handle (length bs) (seq 0 (length (h_content bs hs))) false]) chs.
Proof.
  intros HR Hin Hf. pose proof HR as (L & Wm & Ws & Fc & Fk).
  set (v := h_content bs hs). set (y := mk_handle (length bs) (seq 0 (length v)) false).
  assert (Sm : spawn (length bm) (cm ++ chm) ((cm ++ [hm]) ++ chm)).
  { intros h H. in_split H; [left; apply in_or_app; auto| |left; apply in_or_app; auto].
    subst h. left. apply in_or_app; auto. }
  assert (Ss : spawn (length bs) (cs ++ chs) ((cs ++ [y]) ++ chs)).
  { intros h H. in_split H; [left; apply in_or_app; auto| |left; apply in_or_app; auto].
    subst h. right; right; left. cbn. lia. }
  destruct (R3_lift _ _ _ _ _ _ [[]] [v] _ _ _ _ HR Sm Ss) as [Fc' Fk'].
  unfold dummy.
  split; [rewrite !app_length; cbn; lia|].
  split; [|split; [|split; [|exact Fk']]].
  - intros h H. rewrite app_length; cbn. in_split H.
    + assert (In h (cm ++ chm)) by (apply in_or_app; auto). apply Wm in H0. lia.
    + subst h. assert (In hm (cm ++ chm)) by (apply in_or_app; auto). apply Wm in H. lia.
    + assert (In h (cm ++ chm)) by (apply in_or_app; auto). apply Wm in H0. lia.
  - intros h H. rewrite app_length; cbn. in_split H.
    + assert (In h (cs ++ chs)) by (apply in_or_app; auto). apply Ws in H0. lia.
    + subst h. cbn. lia.
    + assert (In h (cs ++ chs)) by (apply in_or_app; auto). apply Ws in H0. lia.
  - apply Forall2_snoc; auto. right.
    destruct Hf as (W1 & W2 & F1 & F2 & L1 & L2 & C).
    unfold frel. cbn [h_buf h_w y].
    split; [exact W1|]. split; [reflexivity|]. split; [|split].
    + apply (fb_stable (length bm) (cm ++ chm) _ (h_buf hm) Wm Sm L1 F1).
    + intros h H E. cbn in E. in_split H.
      * assert (In h (cs ++ chs)) by (apply in_or_app; auto). apply Ws in H0. lia.
      * subst h. reflexivity.
      * assert (In h (cs ++ chs)) by (apply in_or_app; auto). apply Ws in H0. lia.
    + split; [rewrite app_length; cbn; lia|]. split; [rewrite app_length; cbn; lia|].
      rewrite h_content_app by auto. unfold y. rewrite h_content_fresh. unfold v. exact C.
Qed.

Lemma nth_upd_same {A} (l : list A) k x d : k < length l -> nth k (upd l k x) d = x.
Proof. revert k; induction l as [|a t IH]; intros [|k] H; cbn in *; try lia; auto. apply IH. lia. Qed.

(* SWrite through a writeable caller array: the same cell of the same buffer changes on both sides *)
Lemma R3_write bm cm chm bs cs chs k hk hsk i v :
  R3 bm cm chm bs cs chs ->
  nth_error cm k = Some hk -> nth_error cs k = Some hsk -> h_w hk = true ->
  hk = hsk /\ R3 (write_buf bm hk i v) cm chm (write_buf bs hsk i v) cs chs.
Proof.
  intros HR Hk Hks Hw. pose proof HR as (L & Wm & Ws & Fc & Fk).
  pose proof (Forall2_nth_error _ _ _ k Fc) as Hrel. rewrite Hk, Hks in Hrel.
  destruct Hrel as [(E0 & Lb & Eb)|(W1 & _)]; [|congruence]. subst hsk. split; [reflexivity|].
  assert (Hkm : In hk (cm ++ chm)) by (apply in_or_app; left; eapply nth_error_In; eauto).
  assert (Hks' : In hk (cs ++ chs)) by (apply in_or_app; left; eapply nth_error_In; eauto).
  set (b := h_buf hk) in *. set (pos := nth i (h_sel hk) 0).
  assert (Hsame : buf_get (write_buf bm hk i v) b = buf_get (write_buf bs hk i v) b).
  { unfold write_buf, buf_get. fold b. rewrite !nth_upd_same by lia. unfold buf_get in Eb. rewrite Eb. reflexivity. }
  assert (Hother_m : forall b', b' <> b -> buf_get (write_buf bm hk i v) b' = buf_get bm b').
  { intros b' Hne. unfold write_buf, buf_get. fold b. apply nth_upd_other. auto. }
  assert (Hother_s : forall b', b' <> b -> buf_get (write_buf bs hk i v) b' = buf_get bs b').
  { intros b' Hne. unfold write_buf, buf_get. fold b. apply nth_upd_other. auto. }
  assert (Hlen_m : length (write_buf bm hk i v) = length bm) by (unfold write_buf; apply upd_length).
  assert (Hlen_s : length (write_buf bs hk i v) = length bs) by (unfold write_buf; apply upd_length).
  assert (Hf : forall hm hs, frel bm cm chm bs cs chs hm hs ->
            frel (write_buf bm hk i v) cm chm (write_buf bs hk i v) cs chs hm hs).
  { intros hm hs (W1 & W2 & F1 & F2 & L1 & L2 & C).
    assert (N1 : h_buf hm <> b). { intros E. specialize (F1 hk Hkm (eq_sym E)). congruence. }
    assert (N2 : h_buf hs <> b). { intros E. specialize (F2 hk Hks' (eq_sym E)). congruence. }
    unfold frel. rewrite Hlen_m, Hlen_s. repeat split; auto.
    rewrite (h_content_ext bm _ hm (Hother_m _ N1)), (h_content_ext bs _ hs (Hother_s _ N2)). exact C. }
  split; [congruence|]. split; [|split; [|split]].
  - intros h H. rewrite Hlen_m. apply Wm; auto.
  - intros h H. rewrite Hlen_s. apply Ws; auto.
  - eapply Forall2_impl; [|exact Fc]. intros hm hs [(-> & Lb' & Eb')|H]; [left|right; auto].
    unfold srel. rewrite Hlen_m. repeat split; auto.
    destruct (Nat.eq_dec (h_buf hs) b) as [E|N].
    + rewrite E. exact Hsame.
    + rewrite Hother_m, Hother_s by auto. exact Eb'.
  - eapply Forall2_impl; [|exact Fk]. auto.
Qed.

(* ---------- the slots of a parent container inside the flat list of container handles ---------- *)
Definition linked (chm chs pm ps : list handle) : Prop :=
  forall j, match nth_error pm j, nth_error ps j with
            | Some a, Some b => exists p, nth_error chm p = Some a /\ nth_error chs p = Some b
            | None, None => True
            | _, _ => False
            end.

Lemma linked_app chm chs pm ps x y : linked chm chs pm ps -> linked (chm ++ x) (chs ++ y) pm ps.
Proof.
  intros H j. specialize (H j). destruct (nth_error pm j), (nth_error ps j); auto.
  destruct H as [p [A B]]. exists p. split; rewrite nth_error_app1; auto; apply nth_error_Some; congruence.
Qed.

Lemma linked_world (km ks : list container) :
  Forall2 (fun a b => length a = length b) km ks ->
  forall c pm ps, nth_error km c = Some pm -> nth_error ks c = Some ps ->
  linked (concat km) (concat ks) pm ps.
Proof.
  induction 1 as [|a b ta tb Hab Ht IH]; intros c pm ps Hm Hs.
  - destruct c; discriminate.
  - destruct c as [|c]; cbn in Hm, Hs.
    + injection Hm as <-. injection Hs as <-. intros j. cbn.
      destruct (nth_error a j) eqn:Ea, (nth_error b j) eqn:Eb; auto.
      * exists j. split; rewrite nth_error_app1; auto; apply nth_error_Some; congruence.
      * apply nth_error_None in Eb. assert (j < length a) by (apply nth_error_Some; congruence). lia.
      * apply nth_error_None in Ea. assert (j < length b) by (apply nth_error_Some; congruence). lia.
    + intros j. specialize (IH c pm ps Hm Hs j). cbn.
      destruct (nth_error pm j), (nth_error ps j); auto.
      destruct IH as [p [A B]]. exists (length a + p). split.
      * rewrite nth_error_app2 by lia. replace (length a + p - length a) with p by lia. exact A.
      * rewrite nth_error_app2 by lia. replace (length a + p - length b) with p by lia. exact B.
Qed.

Lemma linked_frel bm cm chm bs cs chs pm ps j a b :
  Forall2 (frel bm cm chm bs cs chs) chm chs -> linked chm chs pm ps ->
  nth_error pm j = Some a -> nth_error ps j = Some b ->
  frel bm cm chm bs cs chs a b /\ In a chm.
Proof.
  intros F Hl Ha Hb. specialize (Hl j). rewrite Ha, Hb in Hl. destruct Hl as [p [A B]].
  pose proof (Forall2_nth_error _ _ _ p F) as H. rewrite A, B in H. split; auto.
  eapply nth_error_In; eauto.
Qed.

Lemma frel_sel_len bm cm chm bs cs chs hm hs :
  frel bm cm chm bs cs chs hm hs -> length (h_sel hm) = length (h_sel hs).
Proof. intros H. apply (hrel_sel_len bm cm chm bs cs chs). right; auto. Qed.

(* ---------- one array slot of a constructor ---------- *)
Definition res_match {A B} (P : A -> B -> Prop) (a : res A) (b : res B) : Prop :=
  match a, b with
  | Ok x, Ok y => P x y
  | Err _, Err _ => True
  | _, _ => False
  end.

Lemma sim_src bm cm conts bs cs chs s :
  R3 bm cm (concat conts) bs cs chs ->
  src_ok cm conts s = true ->
  res_match (fun '(bm1, cm1, hm) '(bs1, cs1, hs) =>
               R3 bm1 cm1 (concat conts ++ [hm]) bs1 cs1 (chs ++ [hs]))
            (m_src bm cm s) (s_src bs cs s).
Proof.
  intros HR Hok. pose proof HR as (L & Wm & Ws & Fc & Fk).
  destruct s as [r k|vs]; cbn [m_src s_src].
  2:{ cbn. apply R3_fresh_both; auto. }
  pose proof (Forall2_nth_error _ _ _ k Fc) as Hrel.
  destruct (nth_error cm k) as [hk|] eqn:Hk, (nth_error cs k) as [hsk|] eqn:Hks; try contradiction; cbn; auto.
  destruct (hrel_obs _ _ _ _ _ _ _ _ Hrel) as [Hc Hw].
  cbn in Hok. rewrite Hk in Hok.
  assert (Hkb : h_buf hk < length bm).
  { apply Wm. apply in_or_app; left. eapply nth_error_In; eauto. }
  destruct r.
  - (* RFilter *)
    destruct (h_w hk) eqn:Hwk.
    + cbn. rewrite Hc. apply R3_fresh_both; auto.
    + cbn. apply R3_share_fresh; auto.
      destruct Hrel as [(-> & _ & _)|(_ & _ & F1 & _)]; [|exact F1].
      cbn in Hok. intros h H E. eapply buf_frozen_b_spec; eauto.
  - (* ROwn *)
    cbn. apply andb_true_iff in Hok as [Ho Hcn].
    apply (R3_own bm cm (concat conts) bs cs chs conts k hk hsk); auto.
Qed.

Lemma sim_srcs srcs : forall bm cm conts bs cs chs,
  R3 bm cm (concat conts) bs cs chs ->
  srcs_ok bm cm conts srcs = true ->
  res_match (fun '(bm2, cm2, hms) '(bs2, cs2, hss) =>
               R3 bm2 cm2 (concat conts ++ hms) bs2 cs2 (chs ++ hss) /\ length hms = length hss)
            (m_srcs bm cm srcs) (s_srcs bs cs srcs).
Proof.
  induction srcs as [|s t IH]; intros bm cm conts bs cs chs HR Hok.
  - cbn. rewrite !app_nil_r. auto.
  - cbn in Hok. apply andb_true_iff in Hok as [Hs Ht].
    pose proof (sim_src _ _ _ _ _ _ s HR Hs) as H1.
    cbn [m_srcs s_srcs].
    destruct (m_src bm cm s) as [[[bm1 cm1] hm]|e1], (s_src bs cs s) as [[[bs1 cs1] hs]|e2]; cbn in H1; try contradiction; cbn; auto.
    rewrite <- concat_snoc in H1.
    specialize (IH _ _ _ _ _ _ H1 Ht).
    destruct (m_srcs bm1 cm1 t) as [[[bm2 cm2] hms]|e1], (s_srcs bs1 cs1 t) as [[[bs2 cs2] hss]|e2]; cbn in IH; try contradiction; cbn; auto.
    destruct IH as [IH Hlen]. rewrite concat_snoc in IH. rewrite <- !app_assoc in IH. cbn in IH.
    split; [exact IH|]. cbn. lia.
Qed.

(* ---------- one array slot of a derived container ---------- *)
Lemma sim_dsrc bm cm chm bs cs chs pm ps d :
  R3 bm cm chm bs cs chs -> linked chm chs pm ps -> dsrc_ok d = true ->
  res_match (fun '(bm1, hm) '(bs1, hs) => R3 bm1 cm (chm ++ [hm]) bs1 cs (chs ++ [hs]))
            (m_dsrc bm pm d) (s_dsrc bs ps d).
Proof.
  intros HR Hl Hok. pose proof HR as (L & Wm & Ws & Fc & Fk).
  destruct d as [j sel|j sel|vs|j|j rf]; cbn [m_dsrc s_dsrc].
  3:{ cbn. apply R3_fresh_both; auto. }
  all: pose proof (Hl j) as Hj;
       destruct (nth_error pm j) as [a|] eqn:Ha, (nth_error ps j) as [b|] eqn:Hb; try contradiction;
       [|cbn; auto];
       destruct (linked_frel _ _ _ _ _ _ _ _ _ _ _ Fk Hl Ha Hb) as [Hf Hin];
       pose proof (frel_sel_len _ _ _ _ _ _ _ _ Hf) as Hlen;
       pose proof Hf as (W1 & W2 & F1 & F2 & L1 & L2 & C).
  - (* DView *)
    rewrite <- Hlen. destruct (sel_ok (length (h_sel a)) sel) eqn:Hs; [|cbn; auto].
    assert (Hcv : h_content bm (h_view a sel) = h_content bs (h_view b sel)).
    { rewrite !h_content_view; [rewrite C; reflexivity|rewrite <- Hlen; exact Hs|exact Hs]. }
    unfold fresh, res_match. apply R3_share_fresh; auto.
  - (* DCopy *)
    rewrite <- Hlen. destruct (sel_ok (length (h_sel a)) sel) eqn:Hs; [|cbn; auto].
    assert (Hcv : h_content bm (h_view a sel) = h_content bs (h_view b sel)).
    { rewrite !h_content_view; [rewrite C; reflexivity|rewrite <- Hlen; exact Hs|exact Hs]. }
    rewrite Hcv. unfold fresh, res_match. apply R3_fresh_both; auto.
  - (* DDeep *)
    rewrite W1, C. unfold fresh, res_match. apply R3_fresh_both; auto.
  - (* DPickle *)
    cbn in Hok. subst rf. rewrite C. unfold fresh, res_match. cbn [negb]. apply R3_fresh_both; auto.
Qed.

Lemma sim_dsrcs ds : forall bm cm chm bs cs chs pm ps,
  R3 bm cm chm bs cs chs -> linked chm chs pm ps -> forallb dsrc_ok ds = true ->
  res_match (fun '(bm2, hms) '(bs2, hss) =>
               R3 bm2 cm (chm ++ hms) bs2 cs (chs ++ hss) /\ length hms = length hss)
            (m_dsrcs bm pm ds) (s_dsrcs bs ps ds).
Proof.
  induction ds as [|d t IH]; intros bm cm chm bs cs chs pm ps HR Hl Hok.
  - cbn. rewrite !app_nil_r. auto.
  - cbn in Hok. apply andb_true_iff in Hok as [Hd Ht].
    pose proof (sim_dsrc _ _ _ _ _ _ _ _ d HR Hl Hd) as H1.
    cbn [m_dsrcs s_dsrcs].
    destruct (m_dsrc bm pm d) as [[bm1 hm]|e1], (s_dsrc bs ps d) as [[bs1 hs]|e2]; cbn in H1; try contradiction; cbn; auto.
    specialize (IH _ _ _ _ _ _ pm ps H1 (linked_app _ _ _ _ [hm] [hs] Hl) Ht).
    destruct (m_dsrcs bm1 pm t) as [[bm2 hms]|e1], (s_dsrcs bs1 ps t) as [[bs2 hss]|e2]; cbn in IH; try contradiction; cbn; auto.
    destruct IH as [IH Hlen]. rewrite <- !app_assoc in IH. cbn in IH.
    split; [exact IH|]. cbn. lia.
Qed.

(* ---------- worlds ---------- *)
Definition shape_eq (km ks : list container) : Prop := Forall2 (fun a b => length a = length b) km ks.

Definition Rw (wm ws : world) : Prop :=
  R3 (w_bufs wm) (w_callers wm) (concat (w_conts wm)) (w_bufs ws) (w_callers ws) (concat (w_conts ws)) /\
  shape_eq (w_conts wm) (w_conts ws).

Lemma Rw_w0 : Rw w0 w0.
Proof.
  split; [|constructor]. cbn. split; auto. split; [intros h []|]. split; [intros h []|]. split; constructor.
Qed.

Lemma Forall2_app_split {A B} (P : A -> B -> Prop) l1 : forall l2 m1 m2,
  length l1 = length m1 -> Forall2 P (l1 ++ l2) (m1 ++ m2) -> Forall2 P l1 m1 /\ Forall2 P l2 m2.
Proof.
  induction l1 as [|a t IH]; intros l2 [|b m1] m2 Hl H; cbn in *; try discriminate.
  - split; [constructor|exact H].
  - assert (E : length t = length m1) by lia.
    inversion H as [|? ? ? ? Hab Hrest]; subst.
    destruct (IH _ _ _ E Hrest) as [A1 A2]. split; [constructor; auto|auto].
Qed.

Lemma Forall2_unconcat {A B} (P : A -> B -> Prop) (km : list (list A)) (ks : list (list B)) :
  Forall2 (fun a b => length a = length b) km ks -> Forall2 P (concat km) (concat ks) ->
  Forall2 (Forall2 P) km ks.
Proof.
  induction 1 as [|a b ta tb Hab Ht IH]; cbn; intros H; [constructor|].
  destruct (Forall2_app_split P a (concat ta) b (concat tb) Hab H) as [H1 H2].
  constructor; auto.
Qed.

Lemma Forall2_map_eq {A B C} (f : A -> C) (g : B -> C) (P : A -> B -> Prop) l1 l2 :
  (forall a b, P a b -> f a = g b) -> Forall2 P l1 l2 -> map f l1 = map g l2.
Proof. intros H F; induction F; cbn; auto. f_equal; auto. Qed.

Lemma Rw_obs wm ws : Rw wm ws -> obs wm = obs ws.
Proof.
  intros [(L & Wm & Ws & Fc & Fk) Hs]. unfold obs. f_equal.
  - unfold conts_obs.
    apply (Forall2_map_eq _ _ (Forall2 (frel (w_bufs wm) (w_callers wm) (concat (w_conts wm))
                                              (w_bufs ws) (w_callers ws) (concat (w_conts ws))))).
    + intros a b F. eapply Forall2_map_eq; [|exact F].
      intros hm hs Hf. destruct (hrel_obs _ _ _ _ _ _ hm hs (or_intror Hf)) as [C W]. congruence.
    + apply Forall2_unconcat; auto.
  - unfold callers_obs. eapply Forall2_map_eq; [|exact Fc].
    intros hm hs Hh. destruct (hrel_obs _ _ _ _ _ _ hm hs Hh) as [C W]. congruence.
Qed.

Lemma shape_nth km ks c :
  shape_eq km ks ->
  match nth_error km c, nth_error ks c with
  | Some a, Some b => length a = length b
  | None, None => True
  | _, _ => False
  end.
Proof. intros H. apply (Forall2_nth_error _ _ _ c H). Qed.

Lemma sim_step wm ws s :
  Rw wm ws -> step_ok wm s = true -> res_match Rw (M_step wm s) (S_step ws s).
Proof.
  intros [HR Hs] Hok. pose proof HR as (L & Wm & Ws & Fc & Fk).
  destruct wm as [bm cm km], ws as [bs cs ks]. cbn [w_bufs w_callers w_conts] in *.
  destruct s as [vs|k sel|k|k i v|srcs|c ds|c j|].
  - (* SNew *)
    cbn. split; auto. cbn [w_bufs w_callers w_conts]. apply R3_new_caller; auto.
  - (* SView *)
    cbn [M_step S_step caller_step w_callers w_bufs w_conts].
    pose proof (Forall2_nth_error _ _ _ k Fc) as Hrel.
    destruct (nth_error cm k) as [hk|] eqn:Hk, (nth_error cs k) as [hsk|] eqn:Hks; try contradiction; [|cbn; auto].
    rewrite <- (hrel_sel_len _ _ _ _ _ _ _ _ Hrel).
    destruct (sel_ok (length (h_sel hk)) sel) eqn:Hsel; [|cbn; auto].
    cbn. split; auto. cbn [w_bufs w_callers w_conts]. eapply R3_view_caller; eauto.
  - (* SFreeze *)
    cbn [M_step S_step caller_step w_callers w_bufs w_conts].
    pose proof (Forall2_nth_error _ _ _ k Fc) as Hrel.
    destruct (nth_error cm k) as [hk|] eqn:Hk, (nth_error cs k) as [hsk|] eqn:Hks; try contradiction; [|cbn; auto].
    cbn. split; auto. cbn [w_bufs w_callers w_conts]. eapply R3_freeze; eauto.
  - (* SWrite *)
    cbn [M_step S_step caller_step w_callers w_bufs w_conts].
    pose proof (Forall2_nth_error _ _ _ k Fc) as Hrel.
    destruct (nth_error cm k) as [hk|] eqn:Hk, (nth_error cs k) as [hsk|] eqn:Hks; try contradiction; [|cbn; auto].
    destruct (hrel_obs _ _ _ _ _ _ _ _ Hrel) as [_ Hw]. rewrite <- Hw.
    rewrite <- (hrel_sel_len _ _ _ _ _ _ _ _ Hrel).
    destruct (h_w hk) eqn:Hwk; cbn [negb]; [|cbn; auto].
    destruct (i <? length (h_sel hk)); [|cbn; auto].
    destruct (R3_write _ _ _ _ _ _ k hk hsk i v HR Hk Hks Hwk) as [_ HR'].
    cbn. split; auto.
  - (* SConstruct *)
    cbn [M_step S_step w_callers w_bufs w_conts]. cbn in Hok.
    pose proof (sim_srcs srcs _ _ _ _ _ _ HR Hok) as H.
    destruct (m_srcs bm cm srcs) as [[[bm2 cm2] hms]|e1], (s_srcs bs cs srcs) as [[[bs2 cs2] hss]|e2]; cbn in H; try contradiction; cbn; auto.
    destruct H as [HR' Hlen]. split; cbn [w_bufs w_callers w_conts].
    + rewrite !(@concat_snoc handle). exact HR'.
    + apply Forall2_snoc; auto.
  - (* SDerive *)
    cbn [M_step S_step w_callers w_bufs w_conts]. cbn in Hok.
    pose proof (shape_nth _ _ c Hs) as Hc.
    destruct (nth_error km c) as [pm|] eqn:Hpm, (nth_error ks c) as [ps|] eqn:Hps; try contradiction; [|cbn; auto].
    pose proof (linked_world _ _ Hs c pm ps Hpm Hps) as Hl.
    pose proof (sim_dsrcs ds _ _ _ _ _ _ pm ps HR Hl Hok) as H.
    destruct (m_dsrcs bm pm ds) as [[bm2 hms]|e1], (s_dsrcs bs ps ds) as [[bs2 hss]|e2]; cbn in H; try contradiction; cbn; auto.
    destruct H as [HR' Hlen]. split; cbn [w_bufs w_callers w_conts].
    + rewrite !(@concat_snoc handle). exact HR'.
    + apply Forall2_snoc; auto.
  - (* SExpose *)
    cbn [M_step S_step w_callers w_bufs w_conts].
    pose proof (shape_nth _ _ c Hs) as Hc.
    destruct (nth_error km c) as [pm|] eqn:Hpm, (nth_error ks c) as [ps|] eqn:Hps; try contradiction; [|cbn; auto].
    pose proof (linked_world _ _ Hs c pm ps Hpm Hps) as Hl.
    pose proof (Hl j) as Hj.
    destruct (nth_error pm j) as [a|] eqn:Ha, (nth_error ps j) as [b|] eqn:Hb; try contradiction; [|cbn; auto].
    destruct (linked_frel _ _ _ _ _ _ _ _ _ _ _ Fk Hl Ha Hb) as [Hf Hin].
    unfold fresh, res_match. split; auto. cbn [w_bufs w_callers w_conts].
    apply R3_expose; auto.
  - cbn. auto.
Qed.

Lemma sim_trace hist : forall wm ws,
  Rw wm ws -> guarded wm hist = true ->
  trace M_step wm hist = trace S_step ws hist /\ Rw (M_run wm hist) (S_run ws hist).
Proof.
  induction hist as [|s t IH]; intros wm ws HR Hg; cbn in *; auto.
  apply andb_true_iff in Hg as [Hs Ht].
  pose proof (sim_step wm ws s HR Hs) as H.
  unfold next in *.
  destruct (M_step wm s) as [wm'|e1] eqn:Em, (S_step ws s) as [ws'|e2] eqn:Es; cbn in H; try contradiction.
  - destruct (IH wm' ws' H Ht) as [A B]. split; [|exact B].
    rewrite (Rw_obs _ _ H), A. reflexivity.
  - destruct (IH wm ws HR Ht) as [A B]. split; [|exact B].
    rewrite (Rw_obs _ _ HR), A. reflexivity.
Qed.

(* ===== REFINEMENT ===== *)
Theorem refinement : forall hist, guarded w0 hist = true ->
  trace M_step w0 hist = trace S_step w0 hist /\ obs (M_run w0 hist) = obs (S_run w0 hist).
Proof.
  intros hist Hg. destruct (sim_trace hist w0 w0 Rw_w0 Hg) as [A B]. split; auto. apply Rw_obs; auto.
Qed.
