(* C08 -- what the ascending block walks consume: for an INCREASING list of column positions, the targets that
   _key_to_block_slices produces (directory lookup + _indices_to_contiguous_pairs + _cols_to_slice) are, block by
   block, the maximal runs of consecutive positions inside that block, as slices (start, start+len).
   Shared by the drop / mask / astype / assign refinements. *)
Require Import SF.Prelude SF.PySlice SF.Dtype SF.Blocks SF.UpdateSpec SF.BlocksUpdate.
Require Import Proofs.SliceFacts Proofs.BlocksSelect Proofs.UpdateLists.

(* ---------- maximal runs of an increasing list ---------- *)
Fixpoint runs_go (a : Z) (m : nat) (rest : list Z) : list (Z * nat) :=
  match rest with
  | [] => [(a, m)]
  | c :: rest' => if c =? a + Z.of_nat m then runs_go a (S m) rest' else (a, m) :: runs_go c 1 rest'
  end.

Definition runs (l : list Z) : list (Z * nat) :=
  match l with [] => [] | c :: r => runs_go c 1 r end.

Definition run_elems (r : Z * nat) : list Z := range_list (fst r) 1 (snd r).
Definition runs_elems (rs : list (Z * nat)) : list Z := flat_map run_elems rs.

(* runs lie in [lo, w], are non-empty and SEPARATED (a gap of at least one position between two runs) *)
Fixpoint runs_wf (lo : Z) (rs : list (Z * nat)) (w : Z) : Prop :=
  match rs with
  | [] => True
  | (a, m) :: rs' => lo <= a /\ (1 <= m)%nat /\ a + Z.of_nat m <= w /\ runs_wf (a + Z.of_nat m + 1) rs' w
  end.

Lemma increasing_cons x l : increasing (x :: l) -> increasing l /\ forall y, In y l -> x < y.
Proof. intros H. inversion H as [|? ? Hs Hf]; subst. split; [assumption|]. now apply Forall_forall. Qed.

Lemma runs_go_elems rest : forall a m, runs_elems (runs_go a m rest) = range_list a 1 m ++ rest.
Proof.
  induction rest as [|c rest IH]; intros a m; cbn [runs_go].
  - unfold runs_elems, run_elems. cbn [flat_map fst snd]. reflexivity.
  - destruct (c =? a + Z.of_nat m) eqn:E.
    + rewrite IH, range_list_snoc, <- app_assoc. cbn [app]. do 2 f_equal. lia.
    + unfold runs_elems in *. cbn [flat_map]. rewrite IH. unfold run_elems at 1. cbn [fst snd].
      f_equal. unfold range_list. cbn [seq map app]. f_equal. lia.
Qed.

Lemma runs_elems_eq l : runs_elems (runs l) = l.
Proof.
  destruct l as [|c r]; [reflexivity|]. unfold runs. rewrite runs_go_elems.
  unfold range_list. cbn. f_equal. lia.
Qed.

Lemma runs_go_wf rest : forall a m lo w, (1 <= m)%nat -> lo <= a -> a + Z.of_nat m <= w ->
  increasing rest -> (forall c, In c rest -> a + Z.of_nat m - 1 < c < w) ->
  runs_wf lo (runs_go a m rest) w.
Proof.
  induction rest as [|c rest IH]; intros a m lo w Hm Hlo Hw Hinc Hin; cbn [runs_go].
  - cbn. repeat split; try assumption.
  - apply increasing_cons in Hinc as [Hinc Hlt].
    assert (Hc : a + Z.of_nat m - 1 < c < w) by (apply Hin; left; reflexivity).
    destruct (c =? a + Z.of_nat m) eqn:E.
    + apply IH; try assumption; try lia.
      intros y Hy. specialize (Hlt y Hy). specialize (Hin y (or_intror Hy)). lia.
    + cbn [runs_wf]. repeat split; try assumption.
      apply IH; try assumption; try lia.
      intros y Hy. specialize (Hlt y Hy). specialize (Hin y (or_intror Hy)). lia.
Qed.

Lemma runs_wf_of l w : increasing l -> (forall c, In c l -> 0 <= c < w) -> runs_wf 0 (runs l) w.
Proof.
  intros Hinc Hin. destruct l as [|c r]; [exact I|]. unfold runs.
  apply increasing_cons in Hinc as [Hinc Hlt].
  assert (0 <= c < w) by (apply Hin; left; reflexivity).
  apply runs_go_wf; try assumption; try lia.
  intros y Hy. specialize (Hlt y Hy). specialize (Hin y (or_intror Hy)). lia.
Qed.

Lemma runs_wf_weaken rs : forall lo lo' w, lo' <= lo -> runs_wf lo rs w -> runs_wf lo' rs w.
Proof. destruct rs as [|[a m] rs]; intros lo lo' w H; cbn; [trivial|]. intros (H1 & H2 & H3 & H4). repeat split; try assumption; lia. Qed.

Lemma runs_wf_In rs : forall lo w r, runs_wf lo rs w -> In r rs ->
  lo <= fst r /\ (1 <= snd r)%nat /\ fst r + Z.of_nat (snd r) <= w.
Proof.
  induction rs as [|[a m] rs IH]; intros lo w r Hwf Hr; [destruct Hr|].
  cbn in Hwf. destruct Hwf as (H1 & H2 & H3 & H4). destruct Hr as [<-|Hr]; [cbn; lia|].
  specialize (IH _ _ _ H4 Hr). lia.
Qed.

(* membership in the elements of well-formed runs *)
Lemma run_elems_In a m x : In x (run_elems (a, m)) <-> a <= x < a + Z.of_nat m.
Proof.
  unfold run_elems. cbn [fst snd]. rewrite range_list_In. split.
  - intros (i & Hi & ->). lia.
  - intros H. exists (Z.to_nat (x - a)). split; lia.
Qed.

Lemma runs_wf_elems_ge rs : forall lo w x, runs_wf lo rs w -> In x (runs_elems rs) -> lo <= x < w.
Proof.
  induction rs as [|[a m] rs IH]; intros lo w x Hwf Hx; [destruct Hx|].
  cbn in Hwf. destruct Hwf as (H1 & H2 & H3 & H4).
  unfold runs_elems in Hx. cbn [flat_map] in Hx. apply in_app_or in Hx as [Hx|Hx].
  - apply run_elems_In in Hx. lia.
  - apply (IH _ _ _ H4) in Hx. lia.
Qed.

(* ---------- _cols_to_slice of an ascending run ---------- *)
Lemma cols_to_slice_t_run a m : (1 <= m)%nat ->
  cols_to_slice_t (range_list a 1 m) = mk_slice (Some a) (Some (a + Z.of_nat m)) None.
Proof.
  intros Hm. destruct m as [|m]; [lia|].
  pose proof (range_list_length a 1 (S m)) as Hlen.
  pose proof (range_list_last a 1 m) as Hlast.
  pose proof (range_list_S a 1 m) as EL.
  unfold cols_to_slice_t. rewrite EL at 1. rewrite Hlen. cbv zeta.
  destruct (Z.of_nat (S m) =? 1) eqn:E1.
  - f_equal. f_equal. lia.
  - rewrite Hlast. replace (a + Z.of_nat m * 1 >? a) with true by lia. f_equal. f_equal. lia.
Qed.

(* ---------- numpy slicing of a column list by plain bounds ---------- *)
Lemma take_positions_range {B} (l : list B) : forall (a : nat) (m : nat), (a + m <= length l)%nat ->
  take_positions l (range_list (Z.of_nat a) 1 m) = Some (firstn m (skipn a l)).
Proof.
  intros a m. revert a. induction m as [|m IH]; intros a H; [reflexivity|].
  rewrite range_list_S. cbn [take_positions]. rewrite nth_z_nat.
  replace (Z.of_nat a + 1) with (Z.of_nat (S a)) by lia. rewrite IH by lia.
  destruct (nth_error l a) as [x|] eqn:E; [|apply nth_error_None in E; lia].
  f_equal. destruct (skipn a l) as [|y r] eqn:Es.
  - apply (f_equal (@length B)) in Es. rewrite skipn_length in Es. cbn in Es. lia.
  - assert (Ey : y = x /\ r = skipn (S a) l).
    { pose proof (nth_error_split l a E) as (l1 & l2 & El & Ea). subst l. subst a.
      rewrite skipn_app, Nat.sub_diag, skipn_all in Es. cbn in Es. injection Es as <- <-.
      split; [reflexivity|]. replace (S (length l1)) with (length (l1 ++ [x])) by (rewrite app_length; cbn; lia).
      replace (l1 ++ x :: l2) with ((l1 ++ [x]) ++ l2) by (rewrite <- app_assoc; reflexivity).
      rewrite skipn_app, Nat.sub_diag, skipn_all. reflexivity. }
    destruct Ey as [-> ->]. reflexivity.
Qed.

Lemma slice_list_range {B} (l : list B) a b : 0 <= a <= b -> b <= Z.of_nat (length l) ->
  slice_list l (mk_slice (Some a) (Some b) None) = Some (firstn (Z.to_nat (b - a)) (skipn (Z.to_nat a) l)).
Proof.
  intros Hab Hb. unfold slice_list, positions, slice_indices, adj_bound, range_len.
  cbn [s_step s_start s_stop Z.eqb Z.ltb Z.compare].
  set (n := Z.of_nat (length l)) in *.
  replace (a <? 0) with false by lia. replace (b <? 0) with false by lia.
  destruct (a >=? n) eqn:Ea.
  - assert (a = n /\ b = n) as [-> ->] by lia. replace (n >=? n) with true by lia. rewrite Z.ltb_irrefl.
    rewrite Z.sub_diag. reflexivity.
  - destruct (b >=? n) eqn:Eb.
    + assert (b = n) by lia. subst b. replace (a <? n) with true by lia. rewrite Z.div_1_r.
      replace (Z.to_nat (n - a - 1 + 1)) with (Z.to_nat (n - a)) by lia.
      replace a with (Z.of_nat (Z.to_nat a)) at 1 by lia. apply take_positions_range. lia.
    + destruct (a <? b) eqn:Elt.
      * rewrite Z.div_1_r. replace (Z.to_nat (b - a - 1 + 1)) with (Z.to_nat (b - a)) by lia.
        replace a with (Z.of_nat (Z.to_nat a)) at 1 by lia. apply take_positions_range. lia.
      * assert (a = b) by lia. subst. rewrite Z.sub_diag. reflexivity.
Qed.

Lemma slice_list_from {B} (l : list B) a : 0 <= a <= Z.of_nat (length l) ->
  slice_list l (mk_slice (Some a) None None) = Some (skipn (Z.to_nat a) l).
Proof.
  intros Ha. unfold slice_list, positions, slice_indices, adj_bound, range_len.
  cbn [s_step s_start s_stop Z.eqb Z.ltb Z.compare].
  set (n := Z.of_nat (length l)) in *.
  replace (a <? 0) with false by lia.
  destruct (a >=? n) eqn:Ea.
  - assert (a = n) by lia. subst a. rewrite Z.ltb_irrefl. unfold n. rewrite Nat2Z.id, skipn_all. reflexivity.
  - replace (a <? n) with true by lia. rewrite Z.div_1_r.
    replace (Z.to_nat (n - a - 1 + 1)) with (Z.to_nat (n - a)) by lia.
    replace a with (Z.of_nat (Z.to_nat a)) at 1 by lia. rewrite take_positions_range by lia.
    f_equal. apply firstn_all2. rewrite skipn_length. lia.
Qed.

(* ---------- bundling the pairs of one block followed by pairs of other blocks ---------- *)
Section Bundling.

Definition run_bundle (k : Z) (r : Z * nat) : Z * list Z := (k, run_elems r).

Lemma contiguous_go_runs (k : Z) (Q : list (Z * Z)) : (match Q with [] => True | q :: _ => fst q <> k end) ->
  forall J a m, (1 <= m)%nat -> increasing J -> (forall c, In c J -> a + Z.of_nat m - 1 < c) ->
  contiguous_go k (a + Z.of_nat m - 1) (rev (range_list a 1 m)) (map (pair k) J ++ Q) =
  map (run_bundle k) (runs_go a m J) ++ contiguous_bundles Q.
Proof.
  intros HQ. induction J as [|c J IH]; intros a m Hm Hinc Hin.
  - cbn [map app runs_go]. destruct Q as [|[bi col] Q']; cbn [contiguous_go].
    + rewrite rev_involutive. reflexivity.
    + cbn in HQ. replace (k =? bi) with false by lia. cbn [andb]. rewrite rev_involutive. reflexivity.
  - apply increasing_cons in Hinc as [Hinc Hlt].
    assert (Hc : a + Z.of_nat m - 1 < c) by (apply Hin; left; reflexivity).
    cbn [map app contiguous_go runs_go]. rewrite Z.eqb_refl. cbn [andb].
    destruct (c =? a + Z.of_nat m) eqn:E.
    + replace (Z.abs (c - (a + Z.of_nat m - 1)) =? 1) with true by lia.
      replace c with (a + Z.of_nat (S m) - 1) at 1 by lia.
      replace (c :: rev (range_list a 1 m)) with (rev (range_list a 1 (S m))).
      2: { rewrite range_list_snoc, rev_app_distr. cbn. f_equal. lia. }
      apply IH; try assumption; try lia; try (intros y Hy; specialize (Hlt y Hy); lia).
    + replace (Z.abs (c - (a + Z.of_nat m - 1)) =? 1) with false by lia.
      rewrite rev_involutive. cbn [map app]. f_equal.
      replace c with (c + Z.of_nat 1 - 1) at 1 by lia.
      replace [c] with (rev (range_list c 1 1)) by (unfold range_list; cbn; f_equal; lia).
      apply IH; try assumption; try lia; try (intros y Hy; specialize (Hlt y Hy); lia).
Qed.

Lemma contiguous_bundles_runs (k : Z) (J : list Z) (Q : list (Z * Z)) :
  (match Q with [] => True | q :: _ => fst q <> k end) -> increasing J ->
  contiguous_bundles (map (pair k) J ++ Q) = map (run_bundle k) (runs J) ++ contiguous_bundles Q.
Proof.
  intros HQ Hinc. destruct J as [|c J]; [reflexivity|].
  apply increasing_cons in Hinc as [Hinc Hlt].
  cbn [map app contiguous_bundles runs].
  replace c with (c + Z.of_nat 1 - 1) at 1 by lia.
  replace [c] with (rev (range_list c 1 1)) by (unfold range_list; cbn; f_equal; lia).
  apply contiguous_go_runs; try assumption; try lia; try (intros y Hy; specialize (Hlt y Hy); lia).
Qed.

End Bundling.

(* ---------- the per-block runs of a list of positions, and the targets they stand for ---------- *)
Section Targets.
Context {A : Type}.
Notation block := (block A).
Notation tb := (tb A).

Fixpoint block_runs (t : tb) (ps : list Z) : list (list (Z * nat)) :=
  match t with
  | [] => []
  | b :: r =>
      runs (filter (fun p => p <? width b) ps)
      :: block_runs r (map (fun p => p - width b) (filter (fun p => width b <=? p) ps))
  end.

Fixpoint bundles_of (k : Z) (rss : list (list (Z * nat))) : list (Z * list Z) :=
  match rss with
  | [] => []
  | rs :: r => map (run_bundle k) rs ++ bundles_of (k + 1) r
  end.

Definition target_of (p : Z * list Z) : Z * slice := (fst p, cols_to_slice_t (snd p)).

Lemma bundles_of_fst_ge rss : forall k p, In p (bundles_of k rss) -> k <= fst p.
Proof.
  induction rss as [|rs r IH]; intros k p Hp; [destruct Hp|].
  cbn in Hp. apply in_app_or in Hp as [Hp|Hp].
  - apply in_map_iff in Hp as (x & <- & _). cbn. lia.
  - apply IH in Hp. lia.
Qed.

(* an increasing list splits at any threshold into its filter-below and filter-above parts *)
Lemma increasing_split l w : increasing l ->
  l = filter (fun p => p <? w) l ++ filter (fun p => w <=? p) l.
Proof.
  induction l as [|x l IH]; intros Hinc; [reflexivity|].
  apply increasing_cons in Hinc as [Hinc Hlt]. cbn [filter].
  destruct (x <? w) eqn:E.
  - replace (w <=? x) with false by lia. cbn [app]. f_equal. apply IH. assumption.
  - replace (w <=? x) with true by lia.
    assert (Hnone : filter (fun p => p <? w) l = []).
    { clear IH. induction l as [|y l IHl]; [reflexivity|]. cbn.
      assert (x < y) by (apply Hlt; left; reflexivity). replace (y <? w) with false by lia.
      apply IHl; [now apply increasing_cons in Hinc|]. intros z Hz. apply Hlt. right. assumption. }
    assert (Hall : filter (fun p => w <=? p) l = l).
    { clear IH Hnone. induction l as [|y l IHl]; [reflexivity|]. cbn.
      assert (x < y) by (apply Hlt; left; reflexivity). replace (w <=? y) with true by lia.
      f_equal. apply IHl; [now apply increasing_cons in Hinc|]. intros z Hz. apply Hlt. right. assumption. }
    rewrite Hnone, Hall. reflexivity.
Qed.

Lemma increasing_filter (f : Z -> bool) l : increasing l -> increasing (filter f l).
Proof.
  induction l as [|x l IH]; intros Hinc; [constructor|].
  apply increasing_cons in Hinc as [Hinc Hlt]. cbn. destruct (f x); [|apply IH; assumption].
  constructor; [apply IH; assumption|]. apply Forall_forall. intros y Hy. apply filter_In in Hy as [Hy _].
  apply Hlt. assumption.
Qed.

Lemma increasing_map_sub l w : increasing l -> increasing (map (fun p => p - w) l).
Proof.
  induction l as [|x l IH]; intros Hinc; [constructor|].
  apply increasing_cons in Hinc as [Hinc Hlt]. cbn. constructor; [apply IH; assumption|].
  apply Forall_forall. intros y Hy. apply in_map_iff in Hy as (z & <- & Hz). specialize (Hlt z Hz). lia.
Qed.

(* T1: directory lookup + bundling of increasing positions = the per-block runs *)
Lemma bundles_of_positions (t : tb) : forall k ps, increasing ps ->
  (forall p, In p ps -> 0 <= p < Z.of_nat (length (flatten t))) ->
  exists pairs, opt_all (map (nth_z (index_from k t)) ps) = Some pairs /\
                contiguous_bundles pairs = bundles_of k (block_runs t ps) /\
                (forall q, In q pairs -> k <= fst q).
Proof.
  induction t as [|b r IH]; intros k ps Hinc Hin.
  - destruct ps as [|p ps]; [exists []; repeat split; intros q []|].
    exfalso. specialize (Hin p (or_introl eq_refl)). cbn in Hin. lia.
  - cbn [block_runs bundles_of index_from].
    set (w := width b).
    set (ps1 := filter (fun p => p <? w) ps). set (ps2 := filter (fun p => w <=? p) ps).
    assert (Eps : ps = ps1 ++ ps2) by (apply increasing_split; assumption).
    assert (Hlen : length (flatten (b :: r)) = (length (b_cols b) + length (flatten r))%nat).
    { cbn [flatten flat_map]. rewrite app_length. unfold block_columns. rewrite map_length. reflexivity. }
    (* the second part, shifted, lives in the remaining blocks *)
    destruct (IH (k + 1) (map (fun p => p - w) ps2)) as (pairs2 & E2 & B2 & G2).
    { apply increasing_map_sub, increasing_filter. assumption. }
    { intros p Hp. apply in_map_iff in Hp as (z & <- & Hz). apply filter_In in Hz as [Hz Hzw].
      specialize (Hin z Hz). rewrite Hlen in Hin. unfold w, width in *. lia. }
    exists (map (pair k) ps1 ++ pairs2). split; [|split].
    + rewrite Eps at 1. rewrite map_app. apply opt_all_app.
      * apply opt_all_Some. rewrite !map_map. apply map_ext_in. intros p Hp.
        apply filter_In in Hp as [Hp Hpw]. specialize (Hin p Hp).
        rewrite nth_z_app_l by (rewrite map_length, seq_length; unfold w, width in *; lia).
        replace p with (Z.of_nat (Z.to_nat p)) at 1 by lia. rewrite nth_z_nat, nth_error_map.
        rewrite nth_error_nth' with (d := 0%nat) by (rewrite seq_length; unfold w, width in *; lia).
        rewrite seq_nth by (unfold w, width in *; lia). cbn. f_equal. f_equal. lia.
      * rewrite <- E2. f_equal. rewrite map_map. apply map_ext_in. intros p Hp.
        apply filter_In in Hp as [Hp Hpw].
        rewrite nth_z_app_r by (rewrite map_length, seq_length; unfold w, width in *; lia).
        rewrite map_length, seq_length. reflexivity.
    + rewrite contiguous_bundles_runs.
      * rewrite B2. reflexivity.
      * destruct pairs2 as [|q ?]; [exact I|]. specialize (G2 q (or_introl eq_refl)). lia.
      * apply increasing_filter. assumption.
    + intros q Hq. apply in_app_or in Hq as [Hq|Hq].
      * apply in_map_iff in Hq as (x & <- & _). cbn. lia.
      * apply G2 in Hq. lia.
Qed.

(* the runs of each block are well formed within that block *)
Lemma block_runs_wf (t : tb) : forall ps, increasing ps ->
  (forall p, In p ps -> 0 <= p < Z.of_nat (length (flatten t))) ->
  Forall2 (fun b rs => runs_wf 0 rs (width b)) t (block_runs t ps).
Proof.
  induction t as [|b r IH]; intros ps Hinc Hin; cbn [block_runs]; constructor.
  - apply runs_wf_of; [apply increasing_filter; assumption|].
    intros c Hc. apply filter_In in Hc as [Hc Hcw]. specialize (Hin c Hc). lia.
  - apply IH; [apply increasing_map_sub, increasing_filter; assumption|].
    intros p Hp. apply in_map_iff in Hp as (z & <- & Hz). apply filter_In in Hz as [Hz Hzw].
    specialize (Hin z Hz). cbn [flatten flat_map] in Hin. rewrite app_length in Hin.
    unfold block_columns at 1 in Hin. rewrite map_length in Hin. unfold flatten, width in *. lia.
Qed.

(* whole-frame key: one (0, width) target per block = the runs of all positions *)
Lemma all_block_slices_from (t : tb) : wf_tb t -> forall kn : nat,
  map (fun kb => (fst kb, mk_slice (Some 0) (Some (width (snd kb))) None))
      (combine (map Z.of_nat (seq kn (length t))) t) =
  map target_of (bundles_of (Z.of_nat kn) (map (fun b => [(0, length (b_cols b))]) t)).
Proof.
  induction 1 as [|b r [Hw _] _ IH]; intros kn; [reflexivity|].
  cbn [length seq map combine bundles_of fst snd app].
  f_equal.
  - unfold target_of, run_bundle, run_elems. cbn [fst snd]. rewrite cols_to_slice_t_run by lia.
    unfold width. rewrite Z.add_0_l. reflexivity.
  - replace (Z.of_nat kn + 1) with (Z.of_nat (S kn)) by lia. apply IH.
Qed.

End Targets.
