(* C02 -- grow-only flat index: every append/extend history keeps the bijection (under the explicit
   guard go_dom), labels = initial labels followed by the accepted values in order. *)
Require Import SF.Prelude SF.PySlice Gen.Gen_c02 SF.IndexBij Proofs.IndexBijFacts Proofs.IndexBijMain.

Section GO.
  Set Default Proof Using "All".
  Variable C : Type.
  Variable ceqb : C -> C -> bool.
  Variable of_Z : Z -> C.
  Variable to_Z : C -> option Z.
  Hypothesis ceqb_spec : forall x y, ceqb x y = true <-> x = y.
  Hypothesis to_of : forall z, to_Z (of_Z z) = Some z.
  Hypothesis of_to : forall c z, to_Z c = Some z -> c = of_Z z.

  Notation memb_In := (memb_In C ceqb ceqb_spec).
  Notation index_of_auto := (index_of_auto C ceqb of_Z to_Z ceqb_spec to_of of_to).
  Notation index_of_not_int := (index_of_not_int C ceqb of_Z to_Z ceqb_spec to_of of_to).

  Definition go_wf (g : go C) : Prop :=
    NoDup (g_mut g) /\ g_count g = zlen (g_mut g) /\
    match g_map g with
    | Some m => amwf C m /\ map fst m = g_mut g
    | None => g_mut g = map of_Z (iota (length (g_mut g)))
    end /\
    (g_recache g = false -> g_labels g = g_mut g /\ g_npos g = g_count g).

  Lemma go_wf_init l g : M_go_init ceqb l = Ok g -> go_wf g /\ g_mut g = l.
  Proof.
    unfold M_go_init. destruct (am_build ceqb l) as [m|e] eqn:E; [|discriminate].
    intros H. injection H as <-. apply (am_build_ok C ceqb ceqb_spec) in E. destruct E as (ND & W & F).
    unfold go_wf. cbn. auto 10.
  Qed.

  Lemma go_wf_auto n : go_wf (M_go_auto of_Z n) /\ g_mut (M_go_auto of_Z n) = map of_Z (iota n).
  Proof.
    unfold go_wf, M_go_auto. cbn. split; [|reflexivity].
    split; [apply (auto_labels_NoDup C ceqb of_Z to_Z ceqb_spec to_of of_to)|].
    split; [reflexivity|]. split; [|auto].
    rewrite map_length, iota_length. reflexivity.
  Qed.

  Lemma recache_same (g : go C) : let g' := M_go_recache g in
    g_mut g' = g_mut g /\ g_map g' = g_map g /\ g_count g' = g_count g.
  Proof. unfold M_go_recache. destruct (g_recache g); cbn; auto. Qed.

  Lemma recache_wf (g : go C) : go_wf g -> go_wf (M_go_recache g) /\ g_recache (M_go_recache g) = false.
  Proof.
    intros (ND & Cn & Mp & Rc). unfold M_go_recache. destruct (g_recache g) eqn:R.
    - unfold go_wf. cbn. auto 10.
    - split; [|exact R]. unfold go_wf. auto.
  Qed.

  Lemma go_len_wf (g : go C) : go_wf g -> M_go_len g = zlen (g_mut g).
  Proof.
    intros (ND & Cn & Mp & Rc). unfold M_go_len, M_go_recache. destruct (g_recache g) eqn:R; cbn.
    - reflexivity.
    - destruct (Rc eq_refl) as [-> _]. reflexivity.
  Qed.

  Lemma touch_same (g : go C) (k : key C) : let g' := M_go_touch_contains to_Z g k in
    g_mut g' = g_mut g /\ g_map g' = g_map g /\ g_count g' = g_count g /\ (go_wf g -> go_wf g').
  Proof.
    unfold M_go_touch_contains. destruct (g_map g) eqn:M; [cbn; auto|].
    destruct (key_int to_Z k) as [z|]; [|cbn; auto]. destruct (0 <=? z); [|cbn; auto].
    pose proof (recache_same g) as (A & B & D). cbn in A, B, D. cbn.
    split; [exact A|]. split; [rewrite B; exact M|]. split; [exact D|]. intros W. apply recache_wf. exact W.
  Qed.

  Notation go_key_ok := (go_key_ok ceqb).

  Lemma go_contains_wf g k : go_wf g -> go_key_ok g k = true ->
    M_go_contains ceqb to_Z g k = memb ceqb (fst k) (g_mut g).
  Proof.
    intros W G. pose proof (go_len_wf g W) as L. destruct W as (ND & Cn & Mp & Rc).
    unfold M_go_contains, go_key_ok in *. destruct (g_map g) as [m|].
    - destruct Mp as [W F]. rewrite (am_get_index C ceqb ceqb_spec m (fst k) W), F, (index_of_memb C ceqb ceqb_spec). reflexivity.
    - rewrite L. unfold zlen. set (n := length (g_mut g)) in *. rewrite Mp in *.
      rewrite (index_of_memb C ceqb ceqb_spec) in *. unfold key_int, int_typed in *.
      destruct k as [c t]. cbn [fst snd] in *.
      assert (IT : forall b : bool, b = true ->
                (if b then to_Z c else None) = to_Z c) by (intros b ->; reflexivity).
      destruct t; cbn [orb negb] in G |- *.
      1,2: destruct (to_Z c) as [z|] eqn:Ez;
           [ apply of_to in Ez; subst c; rewrite index_of_auto;
             destruct ((0 <=? z) && (z <? Z.of_nat n)); reflexivity
           | rewrite (index_of_not_int _ c Ez); reflexivity ].
      1,2: destruct (index_of ceqb c (map of_Z (iota n))); [discriminate|reflexivity].
  Qed.

  Lemma snoc_NoDup (l : list C) x : NoDup l -> ~ In x l -> NoDup (l ++ [x]).
  Proof.
    intros ND H. apply (Permutation_NoDup (Permutation_cons_append l x)). constructor; assumption.
  Qed.

  Lemma zlen_snoc (l : list C) x : zlen (l ++ [x]) = zlen l + 1.
  Proof. unfold zlen. rewrite app_length. cbn. lia. Qed.

  (* one append: state stays a bijection and behaves like the specification list *)
  Lemma go_append_refines_plain g k : go_wf g -> go_key_ok g k = true ->
    go_wf (fst (M_go_append ceqb to_Z g k)) /\
    (g_mut (fst (M_go_append ceqb to_Z g k)), is_ok (snd (M_go_append ceqb to_Z g k))) = S_go_append ceqb (g_mut g) k.
  Proof.
    intros W G. unfold M_go_append, S_go_append.
    rewrite (go_contains_wf g k W G).
    pose proof (touch_same g k) as (Tm & Tp & Tc & Tw). cbn in Tm, Tp, Tc, Tw. specialize (Tw W).
    remember (M_go_touch_contains to_Z g k) as g1 eqn:Hg1. clear Hg1.
    destruct (memb ceqb (fst k) (g_mut g)) eqn:Mb.
    - cbn [fst snd is_ok]. rewrite Tm. auto.
    - apply (memb_false C ceqb ceqb_spec) in Mb.
      destruct Tw as (ND & Cn & Mp & Rc). rewrite Tm in *.
      assert (ND' : NoDup (g_mut g ++ [fst k])) by (apply snoc_NoDup; assumption).
      destruct (g_map g1) as [m|] eqn:Mg.
      + destruct Mp as [Wm F]. unfold am_add. rewrite (am_get_index C ceqb ceqb_spec m (fst k) Wm), F.
        rewrite (proj2 (index_of_None C ceqb ceqb_spec (fst k) (g_mut g)) Mb).
        cbn. split; [|reflexivity]. unfold go_wf. cbn.
        split; [exact ND'|]. split; [rewrite zlen_snoc; lia|]. split; [|discriminate].
        split; [apply (amwf_snoc C ceqb ceqb_spec); exact Wm | rewrite map_app, F; reflexivity].
      + destruct (match key_int to_Z k with Some z => z =? g_count g1 | None => false end) eqn:KA.
        * cbn. split; [|reflexivity]. unfold go_wf. cbn.
          split; [exact ND'|]. split; [rewrite zlen_snoc; lia|]. split; [|discriminate].
          unfold key_int in KA. destruct (int_typed k); [|discriminate].
          destruct (to_Z (fst k)) as [z|] eqn:Ez; [|discriminate]. apply Z.eqb_eq in KA. apply of_to in Ez.
          rewrite app_length. cbn [length]. replace (length (g_mut g) + 1)%nat with (S (length (g_mut g))) by lia.
          fold (iota (S (Datatypes.length (g_mut g)))). rewrite iota_S, map_app, <- Mp. cbn [map]. rewrite Ez, KA, Cn. reflexivity.
        * destruct (am_build_NoDup C ceqb ceqb_spec _ ND') as [m Hm]. rewrite Hm.
          apply (am_build_ok C ceqb ceqb_spec) in Hm. destruct Hm as (_ & Wm & F).
          cbn. split; [|reflexivity]. unfold go_wf. cbn.
          split; [exact ND'|]. split; [rewrite zlen_snoc; lia|]. split; [|discriminate]. auto.
  Qed.

  (* the remaining keys: a non-integer-typed key equal to a held position of a map-less index.  It is
     not "contained", takes the promotion path, and AutoMap(labels + [value]) finds the duplicate BEFORE
     any state is changed (fix feb832d; gen_go_push_before_map = false is re-read from the source, this
     proof breaks if the push moves in front of the map again) *)
  Lemma go_append_refines_alias g k : go_wf g -> go_key_ok g k = false ->
    go_wf (fst (M_go_append ceqb to_Z g k)) /\
    (g_mut (fst (M_go_append ceqb to_Z g k)), is_ok (snd (M_go_append ceqb to_Z g k))) = S_go_append ceqb (g_mut g) k.
  Proof.
    intros W G. unfold go_key_ok in G.
    pose proof (touch_same g k) as (Tm & Tp & Tc & Tw). cbn in Tm, Tp, Tc, Tw. specialize (Tw W).
    destruct (g_map g) as [m|] eqn:Mg; [discriminate|].
    apply orb_false_iff in G. destruct G as [Gi Gm]. apply negb_false_iff in Gm.
    unfold M_go_append, S_go_append. rewrite Gm.
    assert (Ki : key_int to_Z k = None) by (unfold key_int; rewrite Gi; reflexivity).
    assert (Cf : M_go_contains ceqb to_Z g k = false) by (unfold M_go_contains; rewrite Mg, Ki; reflexivity).
    rewrite Cf. remember (M_go_touch_contains to_Z g k) as g1 eqn:Hg1. clear Hg1.
    rewrite Tp, Ki.
    assert (Dup : ~ NoDup (g_mut g1 ++ [fst k])).
    { intros N. apply NoDup_remove_2 in N. rewrite app_nil_r in N. apply N. rewrite Tm.
      apply memb_In. exact Gm. }
    rewrite (am_build_dup C ceqb ceqb_spec _ Dup).
    unfold Gen_c02.gen_go_push_before_map. cbn [fst snd is_ok]. split; [|rewrite Tm; reflexivity].
    destruct Tw as (ND & Cn & Mp & Rc). rewrite Tp in Mp. unfold go_wf. cbn. auto.
  Qed.

  Lemma go_append_refines g k : go_wf g ->
    go_wf (fst (M_go_append ceqb to_Z g k)) /\
    (g_mut (fst (M_go_append ceqb to_Z g k)), is_ok (snd (M_go_append ceqb to_Z g k))) = S_go_append ceqb (g_mut g) k.
  Proof.
    intros W. destruct (go_key_ok g k) eqn:G.
    - apply go_append_refines_plain; assumption.
    - apply go_append_refines_alias; assumption.
  Qed.

  (* ---- extend: validation first (fix c675c22), then the appends ---- *)
  Lemma touch_fold_same ks : forall (g : go C), go_wf g ->
    let g' := fold_left (M_go_touch_contains to_Z) ks g in
    go_wf g' /\ g_mut g' = g_mut g.
  Proof.
    induction ks as [|k ks IH]; intros g W; cbn [fold_left]; [auto|].
    pose proof (touch_same g k) as (Tm & _ & _ & Tw). cbn in Tm, Tw.
    destruct (IH _ (Tw W)) as [W' M']. cbn in W', M'. split; [exact W' | congruence].
  Qed.

  Lemma validate_refines ks : forall (g : go C) seen, go_wf g -> forallb (go_key_ok g) ks = true ->
    M_ext_validate ceqb to_Z g seen ks = S_ext_validate ceqb (g_mut g) seen ks.
  Proof.
    induction ks as [|k ks IH]; intros g seen W G; [reflexivity|].
    cbn [forallb] in G. apply andb_true_iff in G as [G1 G2].
    cbn [M_ext_validate S_ext_validate]. rewrite (go_contains_wf g k W G1), (IH g _ W G2). reflexivity.
  Qed.

  Lemma S_validate_ext ks : forall (l s l' s' : list C),
    (forall y, memb ceqb y l || memb ceqb y s = memb ceqb y l' || memb ceqb y s') ->
    S_ext_validate ceqb l s ks = S_ext_validate ceqb l' s' ks.
  Proof.
    induction ks as [|k ks IH]; intros l s l' s' H; [reflexivity|].
    cbn [S_ext_validate]. rewrite (H (fst k)). destruct (memb ceqb (fst k) l' || memb ceqb (fst k) s'); [reflexivity|].
    apply IH. intros y. cbn [memb]. specialize (H y).
    destruct (ceqb y (fst k)), (memb ceqb y l), (memb ceqb y s), (memb ceqb y l'), (memb ceqb y s'); cbn in *; congruence.
  Qed.

  Lemma S_validate_shift l x s ks :
    S_ext_validate ceqb l (x :: s) ks = S_ext_validate ceqb (l ++ [x]) s ks.
  Proof.
    apply S_validate_ext. intros y. rewrite (memb_app C ceqb ceqb_spec). cbn [memb].
    destruct (memb ceqb y l), (ceqb y x), (memb ceqb y s); reflexivity.
  Qed.

  (* validated values are all appended *)
  Lemma extend_seq_ok ks : forall (g : go C) seen, go_wf g -> S_ext_validate ceqb (g_mut g) seen ks = true ->
    go_wf (fst (M_go_extend_seq ceqb to_Z g ks)) /\
    g_mut (fst (M_go_extend_seq ceqb to_Z g ks)) = g_mut g ++ map fst ks /\
    is_ok (snd (M_go_extend_seq ceqb to_Z g ks)) = true.
  Proof.
    induction ks as [|k ks IH]; intros g seen W V; cbn [M_go_extend_seq map].
    - cbn. rewrite app_nil_r. auto.
    - cbn [S_ext_validate] in V.
      destruct (memb ceqb (fst k) (g_mut g)) eqn:Mb; [discriminate|].
      destruct (memb ceqb (fst k) seen) eqn:Ms; [discriminate|]. cbn [orb] in V.
      pose proof (go_append_refines g k W) as [W1 E1]. unfold S_go_append in E1. rewrite Mb in E1.
      destruct (M_go_append ceqb to_Z g k) as [g1 r]. cbn [fst snd] in *. injection E1 as Em Er.
      destruct r as [u|e]; [|discriminate].
      rewrite S_validate_shift, <- Em in V. destruct (IH g1 seen W1 V) as (W2 & M2 & O2).
      split; [exact W2|]. split; [|exact O2]. rewrite M2, Em, <- app_assoc. reflexivity.
  Qed.

  Lemma go_extend_refines ks (g : go C) : go_wf g -> forallb (go_key_ok g) ks = true ->
    go_wf (fst (M_go_extend ceqb to_Z g ks)) /\
    (g_mut (fst (M_go_extend ceqb to_Z g ks)), is_ok (snd (M_go_extend ceqb to_Z g ks))) = S_go_extend ceqb (g_mut g) ks.
  Proof.
    intros W G. unfold M_go_extend, S_go_extend, Gen_c02.gen_extend_validates_first. cbv iota.
    rewrite (validate_refines ks g [] W G).
    destruct (touch_fold_same ks g W) as [W1 M1]. cbn in W1, M1.
    destruct (S_ext_validate ceqb (g_mut g) [] ks) eqn:V.
    - rewrite <- M1 in V. destruct (extend_seq_ok ks _ [] W1 V) as (W2 & M2 & O2).
      split; [exact W2|]. rewrite M2, O2, M1. reflexivity.
    - cbn [fst snd is_ok]. split; [exact W1|]. rewrite M1. reflexivity.
  Qed.

  Lemma go_step_refines g o : go_wf g -> go_step_dom ceqb g o = true ->
    go_wf (fst (M_go_step ceqb to_Z g o)) /\
    (g_mut (fst (M_go_step ceqb to_Z g o)), is_ok (snd (M_go_step ceqb to_Z g o))) = S_go_step ceqb (g_mut g) o.
  Proof.
    intros W G. destruct o as [k|ks|]; cbn [M_go_step S_go_step go_step_dom] in *.
    - apply go_append_refines; assumption.
    - apply go_extend_refines; assumption.
    - cbn. split; [apply recache_wf; exact W|]. pose proof (recache_same g) as (A & _). cbn in A. rewrite A. reflexivity.
  Qed.

  (* every history: the implementation state abstracts to the specification list, outcome by outcome *)
  Theorem go_run_refines ops : forall g, go_wf g -> go_dom ceqb to_Z g ops = true ->
    go_wf (fst (M_go_run ceqb to_Z g ops)) /\
    (g_mut (fst (M_go_run ceqb to_Z g ops)), map is_ok (snd (M_go_run ceqb to_Z g ops))) = S_go_run ceqb (g_mut g) ops.
  Proof.
    induction ops as [|o ops IH]; intros g W G; cbn [M_go_run S_go_run go_dom] in *.
    - cbn. auto.
    - apply andb_true_iff in G as [G1 G2].
      pose proof (go_step_refines g o W G1) as [W1 E1].
      destruct (M_go_step ceqb to_Z g o) as [g1 r] eqn:Es. cbn [fst snd] in *.
      specialize (IH g1 W1 G2). destruct IH as [W2 E2].
      destruct (M_go_run ceqb to_Z g1 ops) as [g2 rs] eqn:Er. cbn [fst snd] in *.
      rewrite <- E1. rewrite <- E2. cbn. auto.
  Qed.

  (* ---- laws of the specification history: what "grow-only index" means ---- *)
  Lemma S_go_append_laws l k : NoDup l ->
    let '(l', ok) := S_go_append ceqb l k in
    NoDup l' /\ (ok = true -> l' = l ++ [fst k] /\ ~ In (fst k) l) /\ (ok = false -> l' = l /\ In (fst k) l).
  Proof.
    intros ND. unfold S_go_append. destruct (memb ceqb (fst k) l) eqn:E.
    - apply memb_In in E. split; [exact ND|]. split; [discriminate | auto].
    - apply (memb_false C ceqb ceqb_spec) in E. split; [apply snoc_NoDup; assumption|]. split; [auto | discriminate].
  Qed.

  Lemma S_validate_facts ks : forall (l s : list C), S_ext_validate ceqb l s ks = true ->
    NoDup (map fst ks) /\ forall x, In x (map fst ks) -> ~ In x l /\ ~ In x s.
  Proof.
    induction ks as [|k ks IH]; intros l s V; cbn [map]; [split; [constructor | contradiction]|].
    cbn [S_ext_validate] in V.
    destruct (memb ceqb (fst k) l) eqn:Ml; [discriminate|]. destruct (memb ceqb (fst k) s) eqn:Ms; [discriminate|].
    cbn [orb] in V. apply (memb_false C ceqb ceqb_spec) in Ml, Ms.
    destruct (IH l (fst k :: s) V) as [ND H]. split.
    - constructor; [|exact ND]. intros Hin. destruct (H _ Hin) as [_ Hs]. apply Hs. left. reflexivity.
    - intros x [<-|Hin]; [auto|]. destruct (H _ Hin) as [Hl Hs]. split; [exact Hl|]. intros N. apply Hs. right. exact N.
  Qed.

  Lemma NoDup_app_mk (a b : list C) : NoDup a -> NoDup b -> (forall x, In x b -> ~ In x a) -> NoDup (a ++ b).
  Proof.
    induction a as [|x a IH]; intros Ha Hb H; [exact Hb|]. cbn. inversion Ha; subst. constructor.
    - intros Hin. apply in_app_or in Hin. destruct Hin as [Hin|Hin]; [contradiction|]. apply (H x Hin). left. reflexivity.
    - apply IH; [assumption | assumption |]. intros y Hy N. apply (H y Hy). right. exact N.
  Qed.

  (* an accepted extend appends exactly its values, in order; a rejected one changes nothing *)
  Lemma S_go_extend_laws ks : forall l, NoDup l ->
    NoDup (fst (S_go_extend ceqb l ks)) /\ exists added, fst (S_go_extend ceqb l ks) = l ++ added /\
      (forall x, In x added -> In x (map fst ks)).
  Proof.
    intros l ND. unfold S_go_extend. destruct (S_ext_validate ceqb l [] ks) eqn:V; cbn [fst].
    - split.
      + destruct (S_validate_facts ks l [] V) as [NDk H]. apply NoDup_app_mk; [exact ND | exact NDk |].
        intros x Hx. apply (H x Hx).
      + exists (map fst ks). auto.
    - split; [exact ND|]. exists []. rewrite app_nil_r. split; [reflexivity | contradiction].
  Qed.

  (* the labels after any history: duplicate-free, the initial labels as a prefix, nothing lost *)
  Theorem S_go_run_laws ops : forall l, NoDup l ->
    NoDup (fst (S_go_run ceqb l ops)) /\ exists added, fst (S_go_run ceqb l ops) = l ++ added.
  Proof.
    induction ops as [|o ops IH]; intros l ND; cbn [S_go_run].
    - cbn. split; [exact ND|]. exists []. rewrite app_nil_r. reflexivity.
    - assert (S1 : NoDup (fst (S_go_step ceqb l o)) /\ exists a1, fst (S_go_step ceqb l o) = l ++ a1).
      { destruct o as [k|ks|]; cbn [S_go_step].
        - pose proof (S_go_append_laws l k ND) as L. destruct (S_go_append ceqb l k) as [l1 ok].
          destruct L as (ND1 & Ht & Hf). cbn. split; [exact ND1|]. destruct ok.
          + destruct (Ht eq_refl) as [-> _]. eexists. reflexivity.
          + destruct (Hf eq_refl) as [-> _]. exists []. rewrite app_nil_r. reflexivity.
        - destruct (S_go_extend_laws ks l ND) as (ND1 & added & E & _). split; [exact ND1|]. exists added. exact E.
        - cbn. split; [exact ND|]. exists []. rewrite app_nil_r. reflexivity. }
      destruct (S_go_step ceqb l o) as [l1 r]. cbn [fst] in S1. destruct S1 as (ND1 & a1 & E1).
      destruct (IH l1 ND1) as (ND2 & a2 & E2).
      destruct (S_go_run ceqb l1 ops) as [l2 rs]. cbn [fst] in *.
      split; [exact ND2|]. exists (a1 ++ a2). rewrite E2, E1, app_assoc. reflexivity.
  Qed.

  (* ---- observation of a grown index ---- *)
  Definition go_probe_ok (g : go C) (k : key C) : bool :=
    match g_map g with
    | Some _ => true
    | None => auto_key_ok C to_Z (length (g_mut g)) k
    end.

  Theorem go_observe_refines g probes : go_wf g ->
    forallb (go_probe_ok g) probes = true ->
    M_go_observe ceqb to_Z g probes = S_observe ceqb (g_mut g) probes.
  Proof.
    intros W G. pose proof (recache_wf g W) as [(ND' & Cn' & Mp' & Rc') R'].
    pose proof (recache_same g) as (Sm & Sp & Sc). cbn in Sm, Sp, Sc.
    pose proof (go_len_wf g W) as L.
    destruct (Rc' R') as [El En].
    unfold M_go_observe, S_observe. rewrite El, En, Sm, Sc.
    destruct W as (ND & Cn & Mp & Rc). rewrite Cn. unfold zlen at 2. rewrite Nat2Z.id. f_equal.
    - apply map_ext_in. intros k Hk. rewrite forallb_forall in G. specialize (G k Hk).
      unfold M_go_lookup, go_probe_ok, S_lookup in *. destruct (g_map g) as [m|].
      + destruct Mp as [Wm F]. rewrite (am_get_index C ceqb ceqb_spec m (fst k) Wm), F. reflexivity.
      + (* the cached positions are refreshed before they are read (fix 41fcfc5;
           gen_loc_to_iloc_recaches = true is re-read from the source) *)
        unfold Gen_c02.gen_loc_to_iloc_recaches. cbv iota.
        rewrite Cn.
        pose proof (auto_lookup_refines C ceqb of_Z to_Z ceqb_spec to_of of_to (length (g_mut g)) k G) as A.
        unfold M_loc_to_iloc, S_lookup, M_index_auto in A. cbn [ix_map ix_labels] in A.
        unfold zlen in A at 1. rewrite map_length, iota_length in A. rewrite <- Mp in A. exact A.
    - apply map_ext_in. intros k Hk. rewrite forallb_forall in G. specialize (G k Hk).
      unfold M_go_contains, go_probe_ok, S_contains in *. rewrite L. destruct (g_map g) as [m|].
      + destruct Mp as [Wm F]. rewrite (am_get_index C ceqb ceqb_spec m (fst k) Wm), F, (index_of_memb C ceqb ceqb_spec). reflexivity.
      + pose proof (auto_contains_refines C ceqb of_Z to_Z ceqb_spec to_of of_to (length (g_mut g)) k G) as A.
        unfold M_contains, S_contains, M_index_auto in A. cbn [ix_map ix_labels] in A.
        unfold zlen in A. rewrite map_length, iota_length in A. rewrite <- Mp in A. exact A.
  Qed.

End GO.
