(* C16 -- integers: f'{z}' then genfromtxt's int64 converter is the identity on every int64 (negative, large),
   and such a text is never taken for a Boolean -- so an int column of any length is always unambiguous. *)
Require Import SF.Prelude SF.Value Gen.Gen_c16 SF.Codec Proofs.CodecTable Proofs.CodecType.
From Coq Require DecimalString DecimalZ DecimalPos DecimalFacts.

Local Open Scope char_scope.

(* facts about single characters, by exhaustion over the 256 of them *)
Lemma digit_char_facts : forall c, (is_digit c || Ascii.eqb c "-") = true ->
  Ascii.eqb c ch_sp = false /\ Ascii.eqb (upper c) "T" = false /\ Ascii.eqb (upper c) "F" = false /\
  Ascii.eqb c "+" = false /\ Ascii.eqb c "." = false.
Proof.
  intros [b0 b1 b2 b3 b4 b5 b6 b7].
  destruct b0, b1, b2, b3, b4, b5, b6, b7; vm_compute; intro H; try discriminate H; repeat split; reflexivity.
Qed.

Lemma digit_not_minus : forall c, is_digit c = true -> Ascii.eqb c "-" = false.
Proof.
  intros [b0 b1 b2 b3 b4 b5 b6 b7].
  destruct b0, b1, b2, b3, b4, b5, b6, b7; vm_compute; intro H; try discriminate H; reflexivity.
Qed.

Local Close Scope char_scope.

Lemma digits_of_uint : forall u, forallb is_digit (tx (DecimalString.NilEmpty.string_of_uint u)) = true.
Proof. unfold tx. induction u; cbn [DecimalString.NilEmpty.string_of_uint list_ascii_of_string forallb]; try reflexivity; rewrite IHu; reflexivity. Qed.

Lemma digits_of_uint_zero : forall u, forallb is_digit (tx (DecimalString.NilZero.string_of_uint u)) = true.
Proof. intro u. destruct u; try apply digits_of_uint. reflexivity. Qed.

Lemma nilzero_nonempty : forall u, tx (DecimalString.NilZero.string_of_uint u) <> [].
Proof. intro u. destruct u; cbn; discriminate. Qed.

Lemma span_all_digits : forall l, forallb is_digit l = true -> span_digits l = (l, []).
Proof.
  induction l as [|c l IH]; cbn [forallb span_digits]; intro H; [reflexivity|].
  apply andb_true_iff in H as [Hc Hl]. rewrite Hc, (IH Hl). reflexivity.
Qed.

Lemma lstrip_sp_id : forall c l, Ascii.eqb c ch_sp = false -> lstrip_sp (c :: l) = c :: l.
Proof. intros c l H. cbn. rewrite H. reflexivity. Qed.

(* a text of digits, possibly after a minus sign, has no space at either end *)
Definition numchar (c : ascii) : bool := is_digit c || Ascii.eqb c "-"%char.

Lemma numchar_nonspace : forall c, numchar c = true -> Ascii.eqb c ch_sp = false.
Proof. intros c H. destruct (digit_char_facts c H) as (A & _). exact A. Qed.

Lemma trim_numchars : forall l, l <> [] -> forallb numchar l = true -> trim l = l.
Proof.
  intros l Hne H. unfold trim.
  destruct l as [|c r]; [congruence|].
  cbn [forallb] in H. apply andb_true_iff in H as [Hc Hr].
  rewrite (lstrip_sp_id c r (numchar_nonspace c Hc)).
  assert (Hrev : forallb numchar (rev (c :: r)) = true).
  { rewrite forallb_forall. intros x Hx. apply in_rev in Hx.
    assert (Hall : forallb numchar (c :: r) = true) by (cbn; rewrite Hc, Hr; reflexivity).
    rewrite forallb_forall in Hall. apply Hall. exact Hx. }
  destruct (rev (c :: r)) as [|x xs] eqn:E.
  - apply (f_equal (@length ascii)) in E. rewrite rev_length in E. cbn in E. discriminate.
  - cbn [forallb] in Hrev. apply andb_true_iff in Hrev as [Hx _].
    rewrite (lstrip_sp_id x xs (numchar_nonspace x Hx)). rewrite <- E. apply rev_involutive.
Qed.

Lemma digits_are_numchars : forall l, forallb is_digit l = true -> forallb numchar l = true.
Proof.
  intros l H. rewrite forallb_forall in *. intros x Hx. unfold numchar. rewrite (H x Hx). reflexivity.
Qed.

Lemma digits_value : forall u,
  digits_to_Z (tx (DecimalString.NilZero.string_of_uint u)) = Z.of_uint u.
Proof.
  intro u. unfold digits_to_Z. rewrite st_tx.
  destruct u; try (cbn [DecimalString.NilZero.string_of_uint]; rewrite DecimalString.NilEmpty.usu; reflexivity).
  reflexivity.
Qed.

(* parse_num of an unsigned / negative decimal *)
Lemma parse_num_unsigned : forall u,
  parse_num (tx (DecimalString.NilZero.string_of_uint u)) =
  Some (false, tx (DecimalString.NilZero.string_of_uint u), None).
Proof.
  intro u. pose proof (digits_of_uint_zero u) as Hd. pose proof (nilzero_nonempty u) as Hne.
  unfold parse_num. rewrite (trim_numchars _ Hne (digits_are_numchars _ Hd)).
  destruct (tx (DecimalString.NilZero.string_of_uint u)) as [|c r] eqn:E; [congruence|].
  cbn [forallb] in Hd. apply andb_true_iff in Hd as [Hc Hr].
  assert (Hn : numchar c = true) by (unfold numchar; rewrite Hc; reflexivity).
  destruct (digit_char_facts c Hn) as (_ & _ & _ & Hplus & _).
  rewrite (digit_not_minus c Hc), Hplus.
  assert (Hall : forallb is_digit (c :: r) = true) by (cbn; rewrite Hc, Hr; reflexivity).
  rewrite (span_all_digits _ Hall). reflexivity.
Qed.

Lemma parse_num_negative : forall u,
  parse_num ("-"%char :: tx (DecimalString.NilZero.string_of_uint u)) =
  Some (true, tx (DecimalString.NilZero.string_of_uint u), None).
Proof.
  intro u. pose proof (digits_of_uint_zero u) as Hd. pose proof (nilzero_nonempty u) as Hne.
  unfold parse_num.
  rewrite trim_numchars; [|discriminate|cbn [forallb]; rewrite (digits_are_numchars _ Hd); reflexivity].
  rewrite Ascii.eqb_refl. rewrite (span_all_digits _ Hd).
  destruct (tx (DecimalString.NilZero.string_of_uint u)) as [|c r] eqn:E; [congruence|]. reflexivity.
Qed.

Lemma render_Z_cases : forall z,
  (exists u, render_Z z = tx (DecimalString.NilZero.string_of_uint u) /\ Z.of_uint u = z) \/
  (exists u, render_Z z = "-"%char :: tx (DecimalString.NilZero.string_of_uint u) /\ - Z.of_uint u = z).
Proof.
  intro z. pose proof (DecimalZ.of_to z) as E. unfold render_Z.
  destruct (Z.to_int z) as [u|u] eqn:Ez; cbn [DecimalString.NilZero.string_of_int].
  - left. exists u. split; [reflexivity|exact E].
  - right. exists u. split; [reflexivity|exact E].
Qed.

Lemma blank_numtext : forall c r, numchar c = true -> blank (c :: r) = false.
Proof. intros c r H. cbn. rewrite (numchar_nonspace c H). reflexivity. Qed.

Lemma parse_bool_numtext : forall c r, numchar c = true -> parse_bool (c :: r) = None.
Proof.
  intros c r H. destruct (digit_char_facts c H) as (_ & HT & HF & _).
  unfold parse_bool. cbn [map tx list_ascii_of_string text_eqb list_eqb]. rewrite HT, HF. reflexivity.
Qed.

(* THE integer lemma *)
Theorem int_text_roundtrip : forall z, in_int64 z = true ->
  conv_int (render_Z z) = Some (Ok (VInt z)) /\ conv_bool (render_Z z) = None.
Proof.
  intros z Hz. destruct (render_Z_cases z) as [[u [E V]]|[u [E V]]]; rewrite E.
  - pose proof (digits_of_uint_zero u) as Hd. pose proof (nilzero_nonempty u) as Hne.
    destruct (tx (DecimalString.NilZero.string_of_uint u)) as [|c r] eqn:Et; [congruence|].
    assert (Hn : numchar c = true).
    { cbn [forallb] in Hd. apply andb_true_iff in Hd as [Hc _]. unfold numchar. rewrite Hc. reflexivity. }
    split.
    + unfold conv_int. rewrite (blank_numtext c r Hn). unfold parse_int.
      rewrite <- Et, parse_num_unsigned, digits_value, V, Hz. reflexivity.
    + unfold conv_bool. rewrite (blank_numtext c r Hn), (parse_bool_numtext c r Hn). reflexivity.
  - assert (Hn : numchar "-"%char = true) by reflexivity.
    split.
    + unfold conv_int. rewrite (blank_numtext _ _ Hn). unfold parse_int.
      rewrite parse_num_negative, digits_value, V, Hz. reflexivity.
    + unfold conv_bool. rewrite (blank_numtext _ _ Hn), (parse_bool_numtext _ _ Hn). reflexivity.
Qed.

(* every non-empty column of int64 values is unambiguous, under any store filter *)
Theorem int_column_ok : forall flt vs, vs <> [] ->
  forallb (fun v => match v with VInt z => in_int64 z | _ => false end) vs = true ->
  col_ok flt (KInt, vs) = true.
Proof.
  intros flt vs Hne H. rewrite forallb_forall in H.
  assert (Hcell : forall v, In v vs -> cell_ok flt KInt v = true /\ witness KInt (render_val flt v) = true).
  { intros v Hv. specialize (H v Hv). destruct v; try discriminate.
    destruct (int_text_roundtrip z H) as [A B]. unfold cell_ok, witness. cbn [render_val renderable].
    rewrite A, B. cbn. rewrite Z.eqb_refl. split; reflexivity. }
  unfold col_ok. apply andb_true_iff. split; [apply andb_true_iff; split|reflexivity].
  - destruct vs as [|v r]; [congruence|]. cbn [existsb]. destruct (Hcell v (or_introl eq_refl)) as [_ W]. rewrite W. reflexivity.
  - rewrite forallb_forall. intros v Hv. apply Hcell. exact Hv.
Qed.

(* Boolean columns likewise *)
Theorem bool_column_ok : forall flt vs, vs <> [] ->
  forallb (fun v => match v with VBool _ => true | _ => false end) vs = true ->
  col_ok flt (KBool, vs) = true.
Proof.
  intros flt vs Hne H. rewrite forallb_forall in H.
  assert (Hcell : forall v, In v vs -> cell_ok flt KBool v = true /\ witness KBool (render_val flt v) = true).
  { intros v Hv. specialize (H v Hv). destruct v as [|b| | | | | | | | | |]; try discriminate. destruct b; vm_compute; split; reflexivity. }
  unfold col_ok. apply andb_true_iff. split; [apply andb_true_iff; split|reflexivity].
  - destruct vs as [|v r]; [congruence|]. cbn [existsb]. destruct (Hcell v (or_introl eq_refl)) as [_ W]. rewrite W. reflexivity.
  - rewrite forallb_forall. intros v Hv. apply Hcell. exact Hv.
Qed.
