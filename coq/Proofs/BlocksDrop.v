(* C08 -- REFINEMENT: TypeBlocks._drop_blocks (the ascending walk with part_start_last / drop_block / parts)
   yields, for EVERY block layout, exactly the columns that the key does not address, in order. *)
Require Import SF.Prelude SF.PySlice SF.Dtype SF.Blocks SF.UpdateSpec SF.BlocksUpdate.
Require Import Proofs.SliceFacts Proofs.BlocksSelect Proofs.UpdateLists Proofs.BlocksWalk Proofs.BlocksSegments.
Require Import Proofs.BlocksUpdateKey.

Section Drop.
Context {A : Type}.
Notation block := (block A).
Notation tb := (tb A).
Notation column := (dtype * list A)%type.

Definition dropF (qs : list Z) (j : Z) (x : column) : list column := if memz j qs then [] else [x].

(* b[:, p:q] *)
Definition gap (b : block) (p q : Z) : block :=
  mk_block (b_dtype b) false (firstn (Z.to_nat (q - p)) (skipn (Z.to_nat p) (b_cols b))).

Lemma gap_columns b p q : block_columns (gap b p q) = seg (block_columns b) p q.
Proof. unfold gap, seg, block_columns. cbn [b_dtype b_cols]. now rewrite skipn_map, firstn_map. Qed.

Lemma cols_slice_gap b p q : 0 <= p <= q -> q <= width b ->
  cols_slice b (mk_slice (Some p) (Some q) None) = Some (gap b p q).
Proof. intros H1 H2. unfold cols_slice. rewrite slice_list_range by (unfold width in H2; lia). reflexivity. Qed.

Lemma cols_slice_tail b p : 0 <= p <= width b ->
  cols_slice b (mk_slice (Some p) None None) = Some (gap b p (width b)).
Proof.
  intros H. unfold cols_slice. rewrite slice_list_from by (unfold width in H; lia). unfold gap. f_equal. f_equal.
  symmetry. apply firstn_all2. rewrite skipn_length. unfold width. lia.
Qed.

Fixpoint gaps (b : block) (psl : Z) (rs : list (Z * nat)) : list block :=
  match rs with
  | [] => []
  | (a, m) :: rs' => (if a >? psl then [gap b psl a] else []) ++ gaps b (a + Z.of_nat m) rs'
  end.

Definition targets (k : Z) (rs : list (Z * nat)) : list (Z * slice) := map target_of (map (run_bundle k) rs).

Definition other_block (k : Z) (rest : list (Z * slice)) : Prop :=
  match rest with [] => True | q :: _ => fst q <> k end.

Lemma target_of_run k a m : (1 <= m)%nat ->
  target_of (run_bundle k (a, m)) = (k, mk_slice (Some a) (Some (a + Z.of_nat m)) None).
Proof. intros H. unfold target_of, run_bundle, run_elems. cbn [fst snd]. now rewrite cols_to_slice_t_run. Qed.

(* the loop on a 2-D block of width >= 2, away from the "whole block" test *)
Lemma drop_inner_steady (b : block) (k : Z) rest : b_1d b = false -> 2 <= width b -> other_block k rest ->
  forall rs psl drop, runs_wf psl rs (width b) -> 0 <= psl ->
  (forall r, In r rs -> fst r <> 0) ->
  drop_inner b k (targets k rs ++ rest) drop psl = Ok (rest, gaps b psl rs, drop, runs_end psl rs).
Proof.
  intros H1d Hw Hrest. induction rs as [|[a m] rs IH]; intros psl drop Hwf Hp Hnz.
  - cbn [targets map app gaps runs_end]. destruct rest as [|[tbi sl] rest']; [reflexivity|].
    cbn in Hrest. cbn [drop_inner]. replace (k =? tbi) with false by lia. reflexivity.
  - cbn in Hwf. destruct Hwf as (Ha & Hm & Hend & Hwf).
    assert (Ha0 : a <> 0) by (apply (Hnz (a, m)); left; reflexivity).
    unfold targets. cbn [map app]. rewrite target_of_run by assumption. cbn [drop_inner].
    rewrite Z.eqb_refl, H1d. cbn [negb orb s_start s_stop].
    replace (width b =? 1) with false by lia. replace (a =? 0) with false by lia. cbn [andb].
    assert (Hwf' : runs_wf (a + Z.of_nat m) rs (width b)) by (eapply runs_wf_weaken; [|exact Hwf]; lia).
    fold (targets k rs). cbn [gaps runs_end].
    destruct (a >? psl) eqn:Egt.
    + rewrite cols_slice_gap by lia. rewrite IH; [reflexivity|assumption|lia|].
      intros r Hr. apply Hnz. right. assumption.
    + rewrite IH; [reflexivity|assumption|lia|].
      intros r Hr. apply Hnz. right. assumption.
Qed.

(* the gaps are the pieces of the positional walk that drops the run elements *)
Lemma gaps_pieces (b : block) rs : forall psl qs, runs_wf psl rs (width b) -> 0 <= psl ->
  (forall j, In j (runs_elems rs) -> In j qs) ->
  flat_map block_columns (gaps b psl rs) = pieces (dropF qs) (block_columns b) psl rs.
Proof.
  induction rs as [|[a m] rs IH]; intros psl qs Hwf Hp Hin; [reflexivity|].
  cbn in Hwf. destruct Hwf as (Ha & Hm & Hend & Hwf).
  cbn [gaps pieces]. rewrite flat_map_app. f_equal.
  - destruct (a >? psl) eqn:E.
    + cbn [flat_map]. rewrite app_nil_r. apply gap_columns.
    + assert (a = psl) by lia. subst. unfold seg. rewrite Z.sub_diag. reflexivity.
  - rewrite (upd_from_ext _ (fun _ _ => [])).
    + rewrite upd_from_none. cbn [app]. apply IH; [eapply runs_wf_weaken; [|exact Hwf]; lia|lia|].
      intros j Hj. apply Hin. unfold runs_elems. cbn [flat_map]. apply in_or_app. right. assumption.
    + intros j x Hj. unfold dropF.
      assert (Hlen : length (block_columns b) = length (b_cols b)) by (unfold block_columns; apply map_length).
      rewrite seg_length in Hj by (rewrite ?Hlen; unfold width in *; lia).
      replace (memz j qs) with true; [reflexivity|]. symmetry. apply memz_In. apply Hin.
      unfold runs_elems. cbn [flat_map]. apply in_or_app. left. apply run_elems_In. lia.
Qed.

Lemma dropF_keep qs j (x : column) : ~ In j qs -> dropF qs j x = [x].
Proof. intros H. unfold dropF. apply memz_false in H. now rewrite H. Qed.

(* one block: what the walk yields for it *)
Definition block_out (b : block) (parts : list block) (drop : bool) (psl : Z) : list block :=
  let parts' := if negb (b_1d b) && (0 <? psl) && (psl <? width b)
                then match cols_slice b (mk_slice (Some psl) None None) with
                     | Some p => parts ++ [p]
                     | None => parts
                     end
                else parts in
  if is_nil parts' then (if drop then [] else [b]) else parts'.

Lemma block_out_2d (b : block) parts drop psl : b_1d b = false -> 0 < psl <= width b ->
  (psl = width b -> parts <> []) ->
  flat_map block_columns (block_out b parts drop psl) =
  flat_map block_columns parts ++ skipn (Z.to_nat psl) (block_columns b).
Proof.
  intros E1d Hp Hne.
  assert (Hlen : length (block_columns b) = length (b_cols b)) by (unfold block_columns; apply map_length).
  unfold block_out. rewrite E1d. cbn [negb andb]. replace (0 <? psl) with true by lia. cbn [andb].
  destruct (psl <? width b) eqn:Elt.
  - rewrite cols_slice_tail by lia.
    destruct (parts ++ [gap b psl (width b)]) eqn:Eg; [destruct parts; discriminate|].
    cbn [is_nil]. rewrite <- Eg, flat_map_app. cbn [flat_map]. rewrite app_nil_r, gap_columns.
    f_equal. unfold seg. rewrite firstn_all2; [reflexivity|]. rewrite skipn_length, Hlen. unfold width. lia.
  - assert (Ee : psl = width b) by lia. specialize (Hne Ee).
    rewrite Ee. unfold width. rewrite Nat2Z.id, <- Hlen, skipn_all, app_nil_r.
    destruct parts; [congruence|]. reflexivity.
Qed.

Lemma runs_wf_one rs : runs_wf 0 rs 1 -> rs = [] \/ rs = [(0, 1%nat)].
Proof.
  destruct rs as [|[a m] rs]; [left; reflexivity|]. cbn. intros (H1 & H2 & H3 & H4). right.
  assert (a = 0) by lia. assert (m = 1%nat) by lia. subst. f_equal.
  destruct rs as [|[a' m'] rs]; [reflexivity|]. cbn in H4. lia.
Qed.

Lemma drop_block_correct (b : block) (k : Z) rest rs : wf_block b -> other_block k rest ->
  runs_wf 0 rs (width b) ->
  exists parts drop psl,
    drop_inner b k (targets k rs ++ rest) false 0 = Ok (rest, parts, drop, psl) /\
    flat_map block_columns (block_out b parts drop psl) = upd_from (dropF (runs_elems rs)) 0 (block_columns b).
Proof.
  intros [Hw H1d] Hrest Hwf.
  assert (Hlen : length (block_columns b) = length (b_cols b)) by (unfold block_columns; apply map_length).
  destruct rs as [|[a m] rs].
  - (* no target in this block *)
    exists [], false, 0. split.
    + cbn [targets map app]. destruct rest as [|[tbi sl] rest']; [reflexivity|].
      cbn in Hrest. cbn [drop_inner]. replace (k =? tbi) with false by lia. reflexivity.
    + unfold block_out. rewrite Z.ltb_irrefl, andb_false_r. cbn [andb is_nil flat_map]. rewrite app_nil_r.
      rewrite (upd_from_ext _ (fun _ x => [x])); [now rewrite upd_from_keep|].
      intros j x _. apply dropF_keep. intros [].
  - destruct (b_1d b || (width b =? 1)) eqn:Ecol.
    + (* a single column: the block goes *)
      assert (Hw1 : width b = 1).
      { apply orb_true_iff in Ecol as [E|E]; [specialize (H1d E); unfold width; lia|lia]. }
      rewrite Hw1 in Hwf. destruct (runs_wf_one _ Hwf) as [E|E]; [discriminate|]. injection E as -> -> ->.
      exists [], true, 1. split.
      * unfold targets. cbn [map app]. rewrite target_of_run by lia. cbn [drop_inner].
        rewrite Z.eqb_refl. cbn [negb]. rewrite Ecol. reflexivity.
      * unfold block_out. rewrite Hw1, Z.ltb_irrefl, andb_false_r. cbn [is_nil flat_map].
        unfold block_columns. unfold width in Hw1. destruct (b_cols b) as [|c [|? ?]]; try (cbn in Hw1; lia).
        cbn. reflexivity.
    + apply orb_false_iff in Ecol as [E1d Ew1].
      assert (Hw2 : 2 <= width b) by (unfold width in *; lia).
      cbn in Hwf. destruct Hwf as (Ha & Hm & Hend & Hwf).
      assert (Hwf' : runs_wf (a + Z.of_nat m) rs (width b)) by (eapply runs_wf_weaken; [|exact Hwf]; lia).
      assert (Hnz : forall r, In r rs -> fst r <> 0).
      { intros r Hr. pose proof (runs_wf_In rs _ _ r Hwf Hr). lia. }
      assert (Hsub : forall j, In j (runs_elems rs) -> In j (runs_elems ((a, m) :: rs))).
      { intros j Hj. unfold runs_elems. cbn [flat_map]. apply in_or_app. right. assumption. }
      destruct (Z.eq_dec a 0) as [->|Ha0].
      * (* the first target starts at column 0 *)
        destruct (Z.eq_dec (Z.of_nat m) (width b)) as [Em|Em].
        -- (* ... and covers the whole block *)
           assert (rs = []).
           { destruct rs as [|[a' m'] rs']; [reflexivity|]. cbn in Hwf. lia. }
           subst rs. exists [], true, (width b). split.
           ++ unfold targets. cbn [map app]. rewrite target_of_run by assumption. cbn [drop_inner].
              rewrite Z.eqb_refl, E1d, Ew1. cbn [negb orb s_start s_stop].
              rewrite Z.eqb_refl. replace (0 + Z.of_nat m =? width b) with true by lia. cbn [andb].
              replace (0 + Z.of_nat m) with (width b) by lia.
              destruct rest as [|[tbi sl] rest']; [reflexivity|].
              cbn in Hrest. cbn [drop_inner]. replace (k =? tbi) with false by lia. reflexivity.
           ++ unfold block_out. rewrite Z.ltb_irrefl, andb_false_r. cbn [is_nil flat_map].
              rewrite (upd_from_ext _ (fun _ _ => [])); [now rewrite upd_from_none|].
              intros j x Hj. unfold dropF. replace (memz j (runs_elems [(0, m)])) with true; [reflexivity|].
              symmetry. apply memz_In. unfold runs_elems. cbn [flat_map]. rewrite app_nil_r.
              apply run_elems_In. rewrite Hlen in Hj. unfold width in Em. lia.
        -- (* ... and stops before the end: steady state from psl = m *)
           exists (gaps b (Z.of_nat m) rs), false, (runs_end (Z.of_nat m) rs). split.
           ++ unfold targets. cbn [map app]. rewrite target_of_run by assumption. cbn [drop_inner].
              rewrite Z.eqb_refl, E1d, Ew1. cbn [negb orb s_start s_stop].
              rewrite Z.eqb_refl. replace (0 + Z.of_nat m =? width b) with false by lia. cbn [andb].
              replace (0 >? 0) with false by lia. rewrite Z.add_0_l in *.
              apply (drop_inner_steady b k rest E1d Hw2 Hrest rs); [assumption|lia|assumption].
           ++ pose proof (runs_end_bounds rs _ _ Hwf' ltac:(lia)) as Hb. rewrite Z.add_0_l in *.
              pose proof (segments_block (dropF (runs_elems ((0, m) :: rs))) (block_columns b) ((0, m) :: rs)) as Hseg.
              rewrite Hlen in Hseg. fold (width b) in Hseg.
              assert (Hwf0 : runs_wf 0 ((0, m) :: rs) (width b))
                by (cbn [runs_wf]; rewrite Z.add_0_l; repeat split; try assumption; lia).
              specialize (Hseg Hwf0 ltac:(intros; apply dropF_keep; assumption)).
              rewrite <- Hseg. cbn [pieces runs_end]. rewrite Z.add_0_l.
              unfold seg at 1. rewrite Z.sub_diag. cbn [Z.to_nat firstn app].
              rewrite (upd_from_ext _ (fun _ _ => [])).
              2: { intros j x Hj. rewrite seg_length in Hj by (rewrite ?Hlen; unfold width in *; lia).
                   unfold dropF. replace (memz j (runs_elems ((0, m) :: rs))) with true; [reflexivity|].
                   symmetry. apply memz_In. unfold runs_elems. cbn [flat_map]. apply in_or_app. left.
                   apply run_elems_In. lia. }
              rewrite upd_from_none. cbn [app].
              rewrite <- (gaps_pieces b rs (Z.of_nat m) _ Hwf' ltac:(lia) Hsub).
              apply block_out_2d; [assumption|lia|].
              intros Ee. destruct rs as [|[a' m'] rs']; [cbn in Ee; lia|].
              cbn in Hwf. cbn [gaps]. replace (a' >? Z.of_nat m) with true by lia. discriminate.
      * (* the first target starts after column 0: a gap comes first *)
        exists (gaps b 0 ((a, m) :: rs)), false, (runs_end 0 ((a, m) :: rs)). split.
        -- apply (drop_inner_steady b k rest E1d Hw2 Hrest ((a, m) :: rs)); [|lia|].
           ++ cbn. repeat split; try assumption.
           ++ intros r [<-|Hr]; [assumption|apply Hnz; assumption].
        -- assert (Hwf0 : runs_wf 0 ((a, m) :: rs) (width b)) by (cbn; repeat split; assumption).
           pose proof (runs_end_bounds _ _ _ Hwf0 ltac:(lia)) as Hb.
           pose proof (segments_block (dropF (runs_elems ((a, m) :: rs))) (block_columns b) ((a, m) :: rs)) as Hseg.
           rewrite Hlen in Hseg. fold (width b) in Hseg.
           specialize (Hseg Hwf0 ltac:(intros; apply dropF_keep; assumption)).
           rewrite <- Hseg.
           rewrite <- (gaps_pieces b ((a, m) :: rs) 0 _ Hwf0 ltac:(lia) (fun j H => H)).
           assert (Hpos : 0 < runs_end 0 ((a, m) :: rs)).
           { cbn [runs_end]. pose proof (runs_end_bounds rs _ _ Hwf' ltac:(lia)). lia. }
           apply block_out_2d; [assumption|lia|].
           intros _. cbn [gaps]. replace (a >? 0) with true by lia. discriminate.
Qed.

(* ---------- all blocks ---------- *)
Lemma targets_bundles k rs rss :
  map target_of (bundles_of k (rs :: rss)) = targets k rs ++ map target_of (bundles_of (k + 1) rss).
Proof. cbn [bundles_of]. rewrite map_app. reflexivity. Qed.

Lemma other_block_bundles k rss : other_block k (map target_of (bundles_of (k + 1) rss)).
Proof.
  unfold other_block. destruct (map target_of (bundles_of (k + 1) rss)) as [|q l] eqn:E; [exact I|].
  assert (Hin : In q (map target_of (bundles_of (k + 1) rss))) by (rewrite E; left; reflexivity).
  apply in_map_iff in Hin as (p & <- & Hp). apply bundles_of_fst_ge in Hp. cbn. lia.
Qed.

Lemma drop_walk_correct (t : tb) : wf_tb t -> forall k rss,
  Forall2 (fun b rs => runs_wf 0 rs (width b)) t rss ->
  exists bs, drop_walk k t (map target_of (bundles_of k rss)) = Ok bs /\
             flat_map block_columns bs = by_runs dropF t rss.
Proof.
  induction 1 as [|b r Hb _ IH]; intros k rss Hrss.
  - exists []. split; reflexivity.
  - inversion Hrss as [|? rs ? rss' Hrs Hrest]; subst.
    destruct (IH (k + 1) rss' Hrest) as (bs & Ebs & Efl).
    destruct (drop_block_correct b k (map target_of (bundles_of (k + 1) rss')) rs Hb
                (other_block_bundles k rss') Hrs) as (parts & drop & psl & Ein & Eout).
    exists (block_out b parts drop psl ++ bs). split.
    + rewrite targets_bundles. cbn [drop_walk]. rewrite Ein. fold (block_out b parts drop psl). rewrite Ebs. reflexivity.
    + rewrite flat_map_app, Eout, Efl. reflexivity.
Qed.

(* ---------- THE REFINEMENT ---------- *)
Lemma from_blocks_flatten (bs : list block) : flatten (from_blocks bs) = flat_map block_columns bs.
Proof.
  unfold from_blocks, flatten. induction bs as [|b bs IH]; [reflexivity|]. cbn [filter flat_map].
  destruct (0 <? width b) eqn:E; cbn [flat_map]; rewrite IH; [reflexivity|].
  unfold block_columns at 2. unfold width in E. destruct (b_cols b); [reflexivity|cbn in E; lia].
Qed.

Lemma map_rows_columns (f : list A -> list A) (bs : list block) :
  flat_map block_columns (map (block_map_rows f) bs) = map (fun c => (fst c, f (snd c))) (flat_map block_columns bs).
Proof.
  induction bs as [|b bs IH]; [reflexivity|]. cbn [map flat_map]. rewrite map_app, IH. f_equal.
  unfold block_columns, block_map_rows. cbn [b_dtype b_cols]. rewrite !map_map. reflexivity.
Qed.

Theorem drop_blocks_refines (t : tb) (ck : option ckey) (rowf : list A -> list A) : wf_tb t ->
  t <> [] -> (match ck with Some k => walk_dom k (Z.of_nat (length (flatten t))) = true | None => True end) ->
  res_map flatten (M_drop_blocks t ck rowf) =
  res_map (map (fun c => (fst c, rowf (snd c)))) (S_drop_columns (flatten t) ck).
Proof.
  intros Hwf Hne Hdom. unfold M_drop_blocks, S_drop_columns, block_slices_for, Gen.Gen_c08.retain_key_order_drop_blocks.
  destruct ck as [k|]; cbn [drop_positions].
  - destruct t as [|b0 t0]; [congruence|]. cbn [is_nil]. set (t := b0 :: t0) in *.
    destruct (key_positions k (Z.of_nat (length (flatten t)))) as [ps|e] eqn:Ek.
    + destruct (block_slices_asc_runs t k ps Hwf Hdom Ek) as (ps' & Hinc & Hsame & Hrange & Ets).
      rewrite Ets.
      destruct (drop_walk_correct t Hwf 0 (block_runs t ps') (block_runs_wf t ps' Hinc Hrange)) as (bs & Ebs & Efl).
      rewrite Ebs. cbn [res_map]. rewrite from_blocks_flatten, map_rows_columns, Efl. do 2 f_equal.
      rewrite (S_drop_at_ext _ ps ps') by (intros i; symmetry; apply Hsame).
      unfold S_drop_at. rewrite (upd_flatten_split (fun m x => if m then [] else [x]) t ps'). reflexivity.
    + (* the key is invalid on this axis: both sides raise *)
      rewrite (block_slices_asc_err t k e Hdom Ek). reflexivity.
  - (* no column key: every block is yielded *)
    destruct (drop_walk_correct t Hwf 0 (map (fun _ => []) t)) as (bs & Ebs & Efl).
    { clear. induction t; constructor; [exact I|assumption]. }
    assert (Eb : bundles_of 0 (map (fun _ : block => @nil (Z * nat)) t) = []).
    { generalize 0. clear. induction t as [|b t IH]; intros k; [reflexivity|]. cbn. apply IH. }
    rewrite Eb in Ebs. cbn [map] in Ebs. rewrite Ebs. cbn [res_map].
    rewrite from_blocks_flatten, map_rows_columns, Efl. do 2 f_equal.
    rewrite S_drop_at_nil. clear. induction t as [|b t IH]; [reflexivity|].
    cbn [map by_runs flatten flat_map]. fold (flatten t). rewrite IH. f_equal.
    rewrite (upd_from_ext _ (fun _ x => [x])); [now rewrite upd_from_keep|].
    intros j x _. apply dropF_keep. intros [].
Qed.

End Drop.
