(* C08 -- the hypotheses of the refinement theorems are satisfiable and the theorems say something: concrete,
   non-trivial instances (mixed 1-D / 2-D layout, negative-step slice key, list key) evaluated through the MODEL,
   and the same answer obtained from the theorem's right-hand side. *)
Require Import SF.Prelude SF.PySlice SF.Dtype SF.Blocks SF.UpdateSpec SF.BlocksUpdate.
Require Import Proofs.BlocksDrop Proofs.BlocksMask Proofs.BlocksAssign.

Definition ex_tb : tb Z :=
  [mk_block (DInt true 8) false [[1; 2]; [3; 4]; [5; 6]];      (* a 2-D block of three columns *)
   mk_block (DFlt 8) true [[7; 8]];                             (* a 1-D block *)
   mk_block (DInt true 8) false [[9; 10]; [11; 12]]].          (* a 2-D block of two columns *)

Lemma ex_tb_wf : wf_tb ex_tb.
Proof. repeat constructor; cbn; try lia; intros; try discriminate; reflexivity. Qed.

(* drop the columns at positions 5, 3, 1 (slice -1::-2): columns 0, 2, 4 remain, in order, with their dtypes *)
Example ex_drop :
  res_map flatten (M_drop_blocks ex_tb (Some (CSlice (mk_slice (Some (-1)) None (Some (-2))))) (fun c => c)) =
  Ok [(DInt true 8, [1; 2]); (DInt true 8, [5; 6]); (DInt true 8, [9; 10])].
Proof.
  rewrite (drop_blocks_refines ex_tb (Some (CSlice (mk_slice (Some (-1)) None (Some (-2))))) _ ex_tb_wf ltac:(discriminate) eq_refl).
  vm_compute. reflexivity.
Qed.

(* mask with a list key given in any order, negative positions included (-3 is column 3) *)
Example ex_mask :
  res_map flatten (M_mask_blocks ex_tb (CList [4; 0; -3]) [1; 1] [0; 0]) =
  Ok [(DBool, [1; 1]); (DBool, [0; 0]); (DBool, [0; 0]); (DBool, [1; 1]); (DBool, [1; 1]); (DBool, [0; 0])].
Proof.
  rewrite (mask_blocks_refines [1; 1] [0; 0] ex_tb (CList [4; 0; -3]) ex_tb_wf ltac:(discriminate) eq_refl). vm_compute. reflexivity.
Qed.

(* assign value columns 100, 101, 102 (cells replaced entirely) to the columns addressed by the list key [4; -5; 2] (-5 is column 1) *)
Example ex_assign :
  res_map flatten (M_assign_unit_blocks true true (fun _ => DObj) (fun v _ => [100 + v; 100 + v]) ex_tb
                     (ascending_key (CList [4; -5; 2]) (Z.of_nat (length (flatten ex_tb))) false)) =
  Ok [(DInt true 8, [1; 2]); (DObj, [100; 100]); (DObj, [101; 101]); (DFlt 8, [7; 8]); (DObj, [102; 102]); (DInt true 8, [11; 12])].
Proof.
  pose proof (assign_unit_blocks_refines true true (fun _ => DObj) (fun v (_ : list Z) => [100 + v; 100 + v])
                ex_tb (CList [4; -5; 2]) false [4; 1; 2] ex_tb_wf ltac:(discriminate) eq_refl (or_introl eq_refl) eq_refl) as H.
  rewrite H. vm_compute. reflexivity.
Qed.
