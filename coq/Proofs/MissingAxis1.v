(* C14 -- axis-1 directional fill: the block-wise algorithm of TypeBlocks._fillna_directional_axis_1, with its bridging
   state carried from block to block, equals the per-row specification for EVERY partition of the row into blocks.
   Invariant: the bridging state (value, count, isna) is the carry (last, run) of S_ffill_go at the block boundary. *)
Require Import SF.Prelude SF.Value SF.Missing Proofs.MissingSpec Proofs.MissingKernel.

Lemma exists_last_or_nil {X} (l : list X) : l = [] \/ exists l0 a, l = l0 ++ [a].
Proof.
  destruct l as [|b t]; [left; reflexivity|right].
  destruct (exists_last (l := b :: t)) as (l0 & a & E); [discriminate|]. eauto.
Qed.

Lemma last_app_cons {X} (l1 : list X) a l2 d : last (l1 ++ a :: l2) d = last (a :: l2) d.
Proof.
  induction l1 as [|b t IH]; [reflexivity|]. cbn [app]. rewrite <- IH.
  destruct (t ++ a :: l2) eqn:E; [destruct t; discriminate | reflexivity].
Qed.

Lemma last_snoc {X} (l : list X) a d : last (l ++ [a]) d = a.
Proof. rewrite last_app_cons. reflexivity. Qed.

Lemma last_repeat {X} (a : X) k d : last (repeat a (S k)) d = a.
Proof. induction k as [|k IH]; [reflexivity|]. cbn [repeat last] in *. exact IH. Qed.

Lemma last_app_nonempty {X} (l1 l2 : list X) d : l2 <> [] -> last (l1 ++ l2) d = last l2 d.
Proof. intros H. destruct l2 as [|a t]; [congruence|]. apply last_app_cons. Qed.

Lemma nonzero_go_falses k : forall off r, nonzero_go off (repeat false k ++ r) = nonzero_go (off + Z.of_nat k) r.
Proof.
  induction k as [|k IH]; intros off r.
  - cbn [repeat app]. f_equal. lia.
  - cbn [repeat app nonzero_go]. rewrite IH. f_equal. lia.
Qed.

Lemma last_opt_snoc {X} (l : list X) a : last_opt (l ++ [a]) = Some a.
Proof.
  destruct l as [|b t]; [reflexivity|]. cbn [app last_opt]. f_equal.
  change (last (t ++ [a]) b = a). apply last_snoc.
Qed.

Lemma range_len_simple a b n : 0 <= a -> a <= b -> b <= n -> range_len a b n = b - a.
Proof. intros. unfold range_len. lia. Qed.

Lemma nonzero_go_app (l1 : list bool) : forall l2 off, nonzero_go off (l1 ++ l2) = nonzero_go off l1 ++ nonzero_go (off + zlen l1) l2.
Proof.
  induction l1 as [|b t IH]; intros l2 off.
  - cbn [app nonzero_go]. rewrite zlen_nil. f_equal. lia.
  - cbn [app nonzero_go]. rewrite IH, zlen_cons, <- app_assoc. do 3 f_equal. lia.
Qed.

Lemma hd_app_nonempty {X} (l1 l2 : list X) d : l1 <> [] -> hd d (l1 ++ l2) = hd d l1.
Proof. destruct l1; [congruence|reflexivity]. Qed.

Lemma hd_repeat {X} (a : X) k d : hd d (repeat a (S k)) = a.
Proof. reflexivity. Qed.

Lemma sided_slice_all_missing k : sided_slice false (repeat true k) = (0, Z.of_nat k).
Proof.
  unfold sided_slice, nonzero. replace (map negb (repeat true k)) with (repeat false k ++ []).
  2:{ rewrite app_nil_r. induction k; cbn; congruence. }
  rewrite nonzero_go_falses. cbn [nonzero_go]. rewrite zlen_repeat. reflexivity.
Qed.

Lemma sided_slice_after_present (p : list bool) k :
  sided_slice false (p ++ [false] ++ repeat true k) = (zlen p + 1, zlen p + 1 + Z.of_nat k).
Proof.
  unfold sided_slice, nonzero. rewrite !map_app. cbn [map negb].
  replace (map negb (repeat true k)) with (repeat false k ++ []) by (rewrite app_nil_r; induction k; cbn; congruence).
  rewrite nonzero_go_app. cbn [app nonzero_go]. rewrite nonzero_go_falses. cbn [nonzero_go app].
  rewrite zlen_map.
  destruct (nonzero_go 0 (map negb p) ++ [0 + zlen p]) as [|t0 ts] eqn:E.
  - destruct (nonzero_go 0 (map negb p)); discriminate.
  - rewrite <- E, last_snoc. unfold zlen. rewrite app_length. cbn [length]. rewrite repeat_length. f_equal; lia.
Qed.

Lemma last_cons_same {X} (a : X) l : last l a = last (a :: l) a.
Proof. destruct l; reflexivity. Qed.

Ltac fin := cbn [bv bc bna is_missing fst snd]; repeat split; auto; try lia;
            try (left; lia); try (right; cbn [bv bc bna]; lia); try (left; reflexivity).

Section Axis1.
Context {A : Type}.
Variable cf : bool.   (* which slice gives the backward bridging count: see SF/Missing.v M_dir_block2 *)
Implicit Types (l cs : list (option A)) (gs : list (A * nat)) (st : option (bridge A)) (bs : list (rblock A)).

(* S never fills again before the next present cell *)
Definition dead (limit : Z) (last : option A) (run : Z) : Prop := last = None \/ (0 < limit /\ limit <= run).

(* the bridging state of the code vs the carry of the specification *)
Definition R (limit : Z) st (last : option A) (run : Z) : Prop :=
  0 <= run /\
  match st with
  | None => last = None
  | Some s =>
      bna s = is_missing (bv s) /\
      match bv s with
      | Some v => last = Some v /\ (limit = 0 \/ bc s = run)
      | None => dead limit last run
      end
  end.

(* what S does on a run of k missing cells from carry (last, run) *)
Definition bridge_part (limit : Z) (last : option A) (run : Z) (k : nat) : list (option A) :=
  match last with
  | Some v => repeat (Some v) (reach limit run k) ++ nones (k - reach limit run k)
  | None => nones k
  end.

Lemma S_ffill_go_run limit last run k : 0 <= limit -> 0 <= run ->
  S_ffill_go limit last run (nones k) = bridge_part limit last run k.
Proof.
  intros Hl Hr. destruct last as [v|]; cbn [bridge_part].
  - apply S_ffill_go_nones; assumption.
  - apply S_ffill_go_nones_dead.
Qed.

Lemma bridge_part_dead limit last run k : 0 <= limit -> 0 <= run -> dead limit last run -> bridge_part limit last run k = nones k.
Proof.
  intros Hl Hr [->|[H1 H2]]; [reflexivity|]. destruct last as [v|]; [|reflexivity]. cbn [bridge_part].
  unfold reach. replace (limit =? 0) with false by lia.
  replace (Nat.min k (Z.to_nat (limit - run))) with 0%nat by lia. cbn [repeat app]. f_equal. lia.
Qed.

Lemma bridge_part_length limit last run k : length (bridge_part limit last run k) = k.
Proof.
  destruct last as [v|]; cbn [bridge_part]; unfold nones; rewrite ?app_length, !repeat_length; [|reflexivity].
  pose proof (reach_le limit run k). lia.
Qed.

Lemma S_on_block limit last run k gs : 0 <= limit -> 0 <= run ->
  S_ffill_go limit last run (nones k ++ flat gs) = bridge_part limit last run k ++ S_groups limit gs.
Proof.
  intros Hl Hr. rewrite S_ffill_go_app, S_ffill_go_run, S_ffill_go_flat by assumption. reflexivity.
Qed.

(* ---------------------------------------------------------------- 1-D block (both directions) *)
Lemma block1_ok limit st last run anyna c out st' : 0 <= limit ->
  R limit st last run -> rb_ok (RB1 anyna c) = true ->
  M_dir_block1 limit st anyna c = (out, st') ->
  out = S_ffill_go limit last run [c] /\ R limit st' (fst (S_carry last run [c])) (snd (S_carry last run [c])).
Proof.
  intros Hl [Hr HR] Hok HM. unfold M_dir_block1 in HM. cbn [rb_ok] in Hok.
  destruct anyna; cbn [negb] in HM.
  - (* some row of the block has a missing cell *)
    destruct st as [s|].
    + destruct HR as [Hna HR]. destruct c as [x|]; cbn [is_missing andb] in HM.
      * (* present cell *)
        replace (if lim_reached limit (bc s) then false else false) with false in HM by (destruct (lim_reached limit (bc s)); reflexivity).
        injection HM as <- <-. cbn [S_ffill_go S_carry fst snd R bv bc bna is_missing]. repeat split; auto; lia.
      * (* missing cell *)
        rewrite Hna in HM. cbn [S_ffill_go S_carry fst snd].
        destruct (bv s) as [v|] eqn:Ebv; cbn [is_missing negb andb] in HM.
        -- destruct HR as [-> Hc]. unfold lim_reached in HM. unfold within.
           destruct (limit =? 0) eqn:E0; cbn [negb andb orb] in HM |- *.
           ++ injection HM as <- <-. unfold R. fin.
           ++ assert (bc s = run) by (destruct Hc; lia).
              destruct (limit <=? bc s) eqn:E1; injection HM as <- <-.
              ** replace (run <? limit) with false by lia. unfold R, dead. fin.
              ** replace (run <? limit) with true by lia. unfold R. fin.
        -- replace (if lim_reached limit (bc s) then false else false) with false in HM by (destruct (lim_reached limit (bc s)); reflexivity).
           injection HM as <- <-.
           assert (Hd : (match last with Some v => if within limit run then Some v else None | None => None end) = @None A).
           { destruct HR as [->|[H1 H2]]; [reflexivity|]. destruct last; [|reflexivity].
             unfold within. replace (limit =? 0) with false by lia. replace (run <? limit) with false by lia. reflexivity. }
           rewrite Hd. cbn [R bv bc bna is_missing]. repeat split; auto; try lia.
           destruct HR as [->|[H1 H2]]; [left; reflexivity | right; lia].
    + (* first block *)
      subst last. injection HM as <- <-. destruct c as [x|]; cbn [S_ffill_go S_carry fst snd R bv bc bna is_missing]; repeat split; auto; try lia.
      left. reflexivity.
  - (* whole block without missing cell *)
    cbn [orb] in Hok. destruct c as [x|]; [|discriminate]. injection HM as <- <-.
    cbn [S_ffill_go S_carry fst snd R bv bc bna is_missing]. repeat split; auto; lia.
Qed.

(* ---------------------------------------------------------------- helpers about the shape of a decomposed block *)
Lemma negb_sel_nones k : map negb (sel_of (@nones A k)) = repeat false k.
Proof. rewrite sel_nones. induction k; cbn; congruence. Qed.

(* the leading missing run located by the "sided" computation *)
Lemma sided_slice_leading k gs : sided_slice true (sel_of (nones k ++ flat gs)) = (0, Z.of_nat k).
Proof.
  unfold sided_slice, nonzero. rewrite sel_app, map_app, negb_sel_nones, nonzero_go_falses.
  destruct gs as [|[x j] gs].
  - cbn [flat flat_map sel_of map nonzero_go]. rewrite app_nil_r. fold (sel_of (@nones A k)). rewrite zlen_sel, zlen_nones. reflexivity.
  - cbn [flat flat_map group fst snd app sel_of map is_missing negb nonzero_go]. reflexivity.
Qed.

Lemma hd_sel_block k gs : hd false (sel_of (nones k ++ flat gs)) = (0 <? Z.of_nat k).
Proof.
  rewrite sel_app, sel_nones. destruct k; cbn [repeat app hd].
  - apply hd_sel_flat.
  - reflexivity.
Qed.

Lemma slices_fwd_app limit gs1 : forall gs2 off,
  slices_fwd (A := A) limit off (gs1 ++ gs2) = slices_fwd limit off gs1 ++ slices_fwd limit (off + zlen (flat gs1)) gs2.
Proof.
  induction gs1 as [|[x k] gs1 IH]; intros gs2 off.
  - cbn [app slices_fwd flat flat_map]. rewrite zlen_nil. f_equal. lia.
  - cbn [app slices_fwd fst snd flat flat_map]. fold (flat gs1). rewrite IH, <- app_assoc. do 3 f_equal.
    rewrite zlen_app, zlen_group. cbn [snd]. lia.
Qed.

Lemma flat_app gs1 gs2 : flat (gs1 ++ gs2) = flat gs1 ++ flat gs2.
Proof. apply flat_map_app. Qed.

Lemma S_groups_app limit gs1 gs2 : S_groups limit (gs1 ++ gs2) = S_groups limit gs1 ++ S_groups limit gs2.
Proof. apply flat_map_app. Qed.

(* ---------------------------------------------------------------- 2-D block, forward *)
(* the bridging assignment of the code = what S does on the leading run *)
Lemma bridge_assign limit v run k gs : 0 <= limit -> 0 <= run ->
  let cs := nones k ++ flat gs in
  let len := zlen cs in
  (if lim_reached limit run then cs
   else let '(a', b') := if lim_reached limit (run + Z.of_nat k)
                         then (0, Z.of_nat k - (run + Z.of_nat k - limit)) else (0, Z.of_nat k) in
        assign_slice a' b' (Some v) cs)
  = bridge_part limit (Some v) run k ++ flat gs.
Proof.
  intros Hl Hr cs len. cbn [bridge_part]. unfold lim_reached, reach.
  destruct (limit =? 0) eqn:E0; cbn [negb andb].
  - unfold cs, assign_slice. rewrite assign_go_app. unfold nones at 1.
    replace (Z.of_nat k) with (0 + Z.of_nat k) at 1 by lia. rewrite assign_go_repeat by lia.
    rewrite assign_go_after by (zl; lia). replace (k - k)%nat with 0%nat by lia. cbn [repeat nones]. rewrite app_nil_r. reflexivity.
  - destruct (limit <=? run) eqn:E1.
    + replace (Nat.min k (Z.to_nat (limit - run))) with 0%nat by lia. cbn [repeat app]. replace (k - 0)%nat with k by lia. reflexivity.
    + set (m := Nat.min k (Z.to_nat (limit - run))).
      assert (Hm : (m <= k)%nat) by lia.
      assert (Hgo : assign_slice 0 (Z.of_nat m) (Some v) cs = (repeat (Some v) m ++ nones (k - m)) ++ flat gs).
      { unfold cs, assign_slice. rewrite assign_go_app. unfold nones at 1.
        replace (Z.of_nat m) with (0 + Z.of_nat m) at 1 by lia. rewrite assign_go_repeat by lia.
        rewrite assign_go_after by (zl; lia). reflexivity. }
      destruct (limit <=? run + Z.of_nat k) eqn:E2.
      * replace (Z.of_nat k - (run + Z.of_nat k - limit)) with (Z.of_nat m) by lia. exact Hgo.
      * replace (Z.of_nat k) with (Z.of_nat m) at 1 by lia. exact Hgo.
Qed.

Lemma block2_fwd_ok limit st last run anyna cs out st' : 0 <= limit ->
  R limit st last run -> rb_ok (RB2 anyna cs) = true ->
  M_dir_block2 cf true limit st anyna cs = (out, st') ->
  out = S_ffill_go limit last run cs /\ R limit st' (fst (S_carry last run cs)) (snd (S_carry last run cs)).
Proof.
  intros Hl [Hr HR] Hok HM. cbn [rb_ok] in Hok. apply andb_true_iff in Hok as [Hne Hflag].
  destruct (decompose cs) as (k & gs & Hd).
  assert (Hcs : cs <> []) by (destruct cs; [discriminate|congruence]).
  subst cs.
  rewrite S_carry_app, S_carry_nones. cbn [fst snd]. rewrite S_on_block by assumption.
  unfold M_dir_block2 in HM. fold (sel_of (nones k ++ flat gs)) in HM.
  assert (Hb0 : bridge_part limit last run 0 = []) by (destruct last; unfold bridge_part, reach; destruct (limit =? 0); reflexivity).
  destruct anyna; cbn [negb] in HM.
  2:{ (* no missing cell in the whole block *)
    cbn [orb] in Hflag. apply negb_true_iff in Hflag.
    assert (E : existsb (fun b => b) (sel_of (nones k ++ flat gs)) = false).
    { unfold sel_of. rewrite <- Hflag. generalize (nones k ++ flat gs). clear. intros l. induction l as [|c t IH]; cbn; congruence. }
    destruct (existsb_sel_false _ E k gs eq_refl) as [-> Hz].
    injection HM as <- <-. cbn [nones repeat app] in *.
    rewrite Hb0, S_groups_no_missing by assumption. cbn [app]. split; [reflexivity|].
    destruct (exists_last_or_nil gs) as [-> | (gs0 & [x j] & ->)]; [exfalso; apply Hcs; reflexivity|].
    assert (j = 0%nat) by (apply (Hz (x, j)); apply in_or_app; right; left; reflexivity). subst j.
    rewrite flat_app, S_carry_app. cbn [flat flat_map]. rewrite app_nil_r, S_carry_group. cbn [fst snd].
    unfold group. cbn [fst snd nones repeat]. rewrite last_snoc.
    unfold R. fin. }
  (* the general path *)
  set (cs := nones k ++ flat gs) in *.
  set (sel := sel_of cs) in *.
  set (len := zlen cs) in *.
  (* 1. bridging *)
  set (br := match st with
             | None => (cs, 0)
             | Some s =>
                 if hd false sel && negb (bna s) then
                   let '(a, b) := sided_slice true sel in
                   let sided_len := range_len a b len in
                   if lim_reached limit (bc s) then (cs, bc s + sided_len)
                   else let '(a', b') := if lim_reached limit (bc s + sided_len)
                                         then (a, b - (bc s + sided_len - limit)) else (a, b) in
                        (assign_slice a' b' (bv s) cs, bc s + sided_len)
                 else (cs, bc s)
             end) in *.
  assert (Hbr : fst br = bridge_part limit last run k ++ flat gs /\
                (forall v, (exists s, st = Some s /\ bv s = Some v) -> (0 < k)%nat -> limit = 0 \/ snd br = run + Z.of_nat k)).
  { unfold br. destruct st as [s|].
    - destruct HR as [Hna HR]. unfold sel, len, cs. rewrite hd_sel_block, sided_slice_leading.
      rewrite (range_len_simple 0 (Z.of_nat k)) by (zl; pose proof (zlen_nonneg (flat gs)); lia).
      replace (Z.of_nat k - 0) with (Z.of_nat k) by lia.
      destruct (0 <? Z.of_nat k) eqn:Ek; cbn [andb].
      + rewrite Hna. destruct (bv s) as [v|] eqn:Ebv; cbn [is_missing negb].
        * destruct HR as [-> Hc]. split.
          -- destruct Hc as [E0 | Hc].
             ++ unfold lim_reached. replace (limit =? 0) with true by lia. cbn [negb andb fst].
                pose proof (bridge_assign limit v run k gs Hl Hr) as H. cbv zeta in H. unfold lim_reached in H.
                replace (limit =? 0) with true in H by lia. cbn [negb andb] in H. exact H.
             ++ rewrite Hc. pose proof (bridge_assign limit v run k gs Hl Hr) as H. cbv zeta in H.
                destruct (lim_reached limit run); [exact H|].
                destruct (lim_reached limit (run + Z.of_nat k)); exact H.
          -- intros v' _ _. destruct Hc as [E0|Hc]; [left; assumption|right]. rewrite Hc.
             destruct (lim_reached limit run); [reflexivity|].
             destruct (lim_reached limit (run + Z.of_nat k)); reflexivity.
        * cbn [fst snd]. split.
          -- rewrite bridge_part_dead by assumption. reflexivity.
          -- intros v' (s' & Es & Ev). injection Es as <-. congruence.
      + assert (k = 0%nat) by lia. subst k. cbn [fst snd]. split.
        * rewrite Hb0. reflexivity.
        * intros; lia.
    - subst last. cbn [fst snd bridge_part]. split; [reflexivity|].
      intros v (s & Es & _). discriminate. }
  (* 2. the in-block directional fill *)
  set (T := M_binary_transition sel) in *.
  set (sl := M_slices_from_targets T (map (znth None cs) T) len true limit (znth false sel)) in *.
  assert (Hsl_nil : T = [] -> sl = []) by (intros E; unfold sl; rewrite E; reflexivity).
  assert (Huni : out = apply_slices sl (fst br) /\
                 st' = Some (mk_bridge (List.last out None)
                           (if negb (List.last sel false) || is_missing (List.last out None) then 0
                            else match last_opt sl with Some s3 => range_len (fst (fst s3)) (snd (fst s3)) len | None => snd br end)
                           (is_missing (List.last out None)))).
  { destruct br as [assigned bc1]. cbn [fst snd]. destruct T as [|t0 T'].
    - rewrite (Hsl_nil eq_refl) in *. cbn [apply_slices fold_left last_opt]. injection HM as <- <-. split; reflexivity.
    - injection HM as <- <-. split; reflexivity. }
  clear HM. destruct Huni as [Hout Hst'].
  assert (Hout' : out = bridge_part limit last run k ++ S_groups limit gs).
  { rewrite Hout, (proj1 Hbr). unfold sl, T, sel, len, cs.
    apply (fwd_kernel limit k gs (bridge_part limit last run k) Hl). apply bridge_part_length. }
  split; [exact Hout'|].
  (* 3. the state after the block *)
  rewrite Hst'. clear Hst'.
  destruct (exists_last_or_nil gs) as [-> | (gs0 & [x j] & ->)].
  - (* the whole row of the block is missing *)
    cbn [flat flat_map S_groups S_carry fst snd] in *. rewrite app_nil_r in *.
    destruct k as [|k]; [exfalso; apply Hcs; reflexivity|].
    assert (Hlastsel : List.last sel false = true).
    { unfold sel, cs. rewrite app_nil_r, sel_nones. apply last_repeat. }
    rewrite Hlastsel. cbn [negb orb].
    assert (Hsl : sl = []).
    { unfold sl, T, sel, cs, M_slices_from_targets, M_binary_transition. rewrite app_nil_r, sel_nones.
      rewrite <- (app_nil_r (repeat true (S k))), bt_go_trues. reflexivity. }
    rewrite Hsl. cbn [last_opt]. rewrite Hout'.
    split; [lia|]. cbn [bv bc bna]. split; [reflexivity|].
    destruct last as [v|]; cbn [bridge_part].
    + (* S carries v *)
      destruct (Nat.eq_dec (reach limit run (S k)) (S k)) as [Hall|Hnot].
      * rewrite Hall. replace (S k - S k)%nat with 0%nat by lia. change (@nones A 0) with (@nil (option A)). rewrite app_nil_r, last_repeat.
        cbn [is_missing]. split; [reflexivity|].
        destruct st as [s|]; [|discriminate HR]. destruct HR as [Hna HR].
        destruct (bv s) as [v'|] eqn:Ebv.
        -- destruct HR as [Hv Hc]. injection Hv as ->.
           destruct (proj2 Hbr v' (ex_intro _ s (conj eq_refl Ebv)) ltac:(lia)) as [E0|Eb]; [left; assumption|right; lia].
        -- (* dead but S fills everything: impossible *)
           exfalso. destruct HR as [HR|[H1 H2]]; [discriminate|].
           unfold reach in Hall. replace (limit =? 0) with false in Hall by lia. lia.
      * pose proof (reach_le limit run (S k)).
        replace (S k - reach limit run (S k))%nat with (S (k - reach limit run (S k)))%nat by lia.
        rewrite last_app_nonempty by discriminate. unfold nones. rewrite last_repeat. cbn [is_missing].
        right. unfold reach in Hnot. destruct (limit =? 0) eqn:E0; [lia|]. lia.
    + unfold nones. rewrite last_repeat. cbn [is_missing]. left. reflexivity.
  - (* the row has present cells; the last group decides *)
    rewrite flat_app, S_carry_app. cbn [flat flat_map]. rewrite app_nil_r, S_carry_group. cbn [fst snd].
    rewrite Hout', S_groups_app. cbn [S_groups flat_map]. rewrite app_nil_r.
    rewrite !app_assoc, last_app_nonempty by (unfold filled; discriminate).
    assert (Hlastsel : List.last sel false = (0 <? Z.of_nat j)).
    { unfold sel, cs. rewrite flat_app. cbn [flat flat_map]. rewrite app_nil_r, !sel_app.
      rewrite !app_assoc, last_app_nonempty by (unfold group; discriminate).
      unfold group. cbn [fst snd]. change (sel_of (Some x :: nones j)) with (false :: sel_of (@nones A j)).
      rewrite sel_nones. destruct j; [reflexivity|]. change (false :: repeat true (S j)) with ([false] ++ repeat true (S j)).
      rewrite last_app_nonempty by discriminate. rewrite last_repeat. reflexivity. }
    rewrite Hlastsel. split; [lia|]. cbn [bv bc bna]. split; [reflexivity|].
    unfold filled. cbn [fst snd]. destruct j as [|j].
    + (* the block ends with a present cell *)
      unfold reach. replace (if limit =? 0 then 0%nat else Nat.min 0 (Z.to_nat (limit - 0))) with 0%nat by (destruct (limit =? 0); reflexivity).
      cbn [repeat nones app List.last is_missing]. replace (0 <? Z.of_nat 0) with false by lia. cbn [negb orb].
      split; [reflexivity|right; lia].
    + replace (0 <? Z.of_nat (S j)) with true by lia. cbn [negb orb].
      destruct (Nat.eq_dec (reach limit 0 (S j)) (S j)) as [Hall|Hnot].
      * rewrite Hall. replace (S j - S j)%nat with 0%nat by lia. change (@nones A 0) with (@nil (option A)). rewrite app_nil_r.
        change (Some x :: repeat (Some x) (S j)) with (repeat (Some x) (S (S j))). rewrite last_repeat.
        cbn [is_missing]. split; [reflexivity|]. right.
        (* the last yielded slice is the one of the last group *)
        assert (Hsl : sl = slices_fwd limit (Z.of_nat k) (gs0 ++ [(x, S j)])).
        { unfold sl, T, sel, len, cs, M_slices_from_targets.
          assert (HT : M_binary_transition (sel_of (nones k ++ flat (gs0 ++ [(x, S j)])))
                       = Tg (0 <? Z.of_nat k) (zlen (@nones A k)) (gs0 ++ [(x, S j)])).
          { unfold M_binary_transition. rewrite sel_app, sel_nones, bt_go_trues, bt_flat, zlen_nones.
            destruct (0 <? Z.of_nat k); reflexivity. }
          rewrite HT, (sft_fwd_flat limit (gs0 ++ [(x, S j)]) Hl (nones k) _ _ _ eq_refl eq_refl), zlen_nones. reflexivity. }
        rewrite Hsl, slices_fwd_app. cbn [slices_fwd fst snd]. replace (0 <? Z.of_nat (S j)) with true by lia.
        rewrite app_nil_r, last_opt_snoc. cbn [fst snd]. rewrite Hall.
        rewrite range_len_simple; [lia| pose proof (zlen_nonneg (flat gs0)); lia | lia |].
        unfold len, cs. rewrite flat_app. cbn [flat flat_map]. rewrite app_nil_r. zl. cbn [snd]. lia.
      * pose proof (reach_le limit 0 (S j)).
        replace (S j - reach limit 0 (S j))%nat with (S (j - reach limit 0 (S j)))%nat by lia.
        change (Some x :: repeat (Some x) (reach limit 0 (S j)) ++ nones (S (j - reach limit 0 (S j))))
          with ((Some x :: repeat (Some x) (reach limit 0 (S j))) ++ nones (S (j - reach limit 0 (S j)))).
        rewrite last_app_nonempty by discriminate. unfold nones. rewrite last_repeat. cbn [is_missing].
        right. unfold reach in Hnot. destruct (limit =? 0) eqn:E0; lia.
Qed.


(* ---------------------------------------------------------------- rows and frames, forward *)
Lemma block_fwd_ok limit st last run b out st' : 0 <= limit ->
  R limit st last run -> rb_ok b = true ->
  M_dir_block cf true limit st b = (out, st') ->
  out = S_ffill_go limit last run (rb_cells b) /\
  R limit st' (fst (S_carry last run (rb_cells b))) (snd (S_carry last run (rb_cells b))).
Proof. destruct b; [apply block1_ok | apply block2_fwd_ok]. Qed.

Lemma row_fwd_go limit bs : 0 <= limit -> forall st last run, R limit st last run -> row_ok bs = true ->
  concat (M_dir_row_go cf true limit st bs) = S_ffill_go limit last run (row_cells bs).
Proof.
  intros Hl. induction bs as [|b t IH]; intros st last run HR Hok; [reflexivity|].
  cbn [row_ok forallb] in Hok. apply andb_true_iff in Hok as [Hb Ht].
  cbn [M_dir_row_go]. destruct (M_dir_block cf true limit st b) as [o st'] eqn:E.
  destruct (block_fwd_ok _ _ _ _ _ _ _ Hl HR Hb E) as [-> HR'].
  unfold row_cells. cbn [map concat]. rewrite S_ffill_go_app. f_equal. apply IH; assumption.
Qed.

Theorem dir_row_forward limit bs : 0 <= limit -> row_ok bs = true ->
  M_dir_row cf true limit bs = S_ffill limit (row_cells bs).
Proof.
  intros Hl Hok. unfold M_dir_row, S_ffill. apply row_fwd_go; try assumption. unfold R. split; [lia|reflexivity].
Qed.

Lemma rblock_at_ok nrows (b : block A) i : block_wf nrows b = true -> (i < nrows)%nat -> rb_ok (rblock_at i b) = true.
Proof.
  intros Hwf Hi. destruct b as [col|rows]; cbn [block_wf rblock_at rb_ok block_anyna] in *.
  - apply Nat.eqb_eq in Hwf. destruct (existsb is_missing col) eqn:E; [reflexivity|]. cbn [orb].
    rewrite (existsb_nth is_missing col None) by (try lia; assumption). reflexivity.
  - apply andb_true_iff in Hwf as [Hlen Hne]. apply Nat.eqb_eq in Hlen.
    rewrite forallb_forall in Hne. rewrite (Hne (nth i rows [])) by (apply nth_In; lia). cbn [andb].
    destruct (existsb (existsb is_missing) rows) eqn:E; [reflexivity|]. cbn [orb].
    rewrite (existsb_nth (existsb is_missing) rows []) by (try lia; assumption). reflexivity.
Qed.

Lemma row_at_ok nrows (blocks : list (block A)) i : frame_wf nrows blocks = true -> (i < nrows)%nat ->
  row_ok (map (rblock_at i) blocks) = true.
Proof.
  intros Hwf Hi. unfold frame_wf in Hwf. unfold row_ok.
  induction blocks as [|b t IH]; [reflexivity|]. cbn [forallb map] in *. apply andb_true_iff in Hwf as [Hb Ht].
  rewrite (rblock_at_ok nrows b i Hb Hi), IH by assumption. reflexivity.
Qed.

Lemma row_cells_at (blocks : list (block A)) i : row_cells (map (rblock_at i) blocks) = frame_row blocks i.
Proof. unfold row_cells, frame_row. rewrite map_map. reflexivity. Qed.

Theorem dir_axis1_forward limit nrows (blocks : list (block A)) : 0 <= limit -> frame_wf nrows blocks = true ->
  M_dir_axis1 cf true limit nrows blocks = map (S_ffill limit) (frame_rows nrows blocks).
Proof.
  intros Hl Hwf. unfold M_dir_axis1, frame_rows. rewrite map_map. apply map_ext_in. intros i Hi.
  apply in_seq in Hi. rewrite dir_row_forward, row_cells_at; [reflexivity|assumption|].
  apply (row_at_ok nrows); [assumption|lia].
Qed.


(* ---------------------------------------------------------------- 2-D block, backward *)
Lemma flatb_app gs1 gs2 : flatb (gs1 ++ gs2) = flatb gs1 ++ flatb gs2.
Proof. apply flat_map_app. Qed.

Lemma rev_flatb gs : rev (flatb gs) = flat (rev gs).
Proof. rewrite <- (rev_involutive (flat (rev gs))), rev_flat, rev_involutive. reflexivity. Qed.

Lemma rev_S_groupsb limit gs : rev (S_groupsb limit gs) = S_groups limit (rev gs).
Proof. rewrite <- (rev_involutive (S_groups limit (rev gs))), rev_S_groups, rev_involutive. reflexivity. Qed.

Lemma rev_nones k : rev (@nones A k) = nones k.
Proof. apply rev_repeat. Qed.

(* the trailing missing run located by the "sided" computation *)
Lemma sided_slice_trailing gs kend :
  sided_slice false (sel_of (flatb gs ++ nones kend)) = (zlen (flatb gs), zlen (flatb gs) + Z.of_nat kend).
Proof.
  destruct (exists_last_or_nil gs) as [-> | (gs0 & [x j] & ->)].
  - cbn [flatb flat_map app]. rewrite sel_nones, sided_slice_all_missing. reflexivity.
  - assert (E : sel_of (flatb (gs0 ++ [(x, j)]) ++ nones kend) = sel_of (flatb gs0 ++ nones j) ++ [false] ++ repeat true kend).
    { rewrite flatb_app. cbn [flatb flat_map]. rewrite app_nil_r. unfold groupb. cbn [fst snd].
      rewrite !sel_app, !sel_nones. cbn [sel_of map is_missing app]. rewrite <- !app_assoc. reflexivity. }
    rewrite E, sided_slice_after_present, zlen_sel. f_equal.
    + rewrite flatb_app. cbn [flatb flat_map]. rewrite app_nil_r. unfold groupb. cbn [fst snd]. zl. lia.
    + rewrite flatb_app. cbn [flatb flat_map]. rewrite app_nil_r. unfold groupb. cbn [fst snd]. zl. lia.
Qed.

Lemma last_sel_block_b gs kend : flatb gs ++ nones kend <> [] ->
  List.last (sel_of (flatb gs ++ nones kend)) false = (0 <? Z.of_nat kend).
Proof.
  intros Hne. rewrite sel_app, sel_nones. destruct kend as [|kend].
  - cbn [repeat]. rewrite app_nil_r.
    destruct (exists_last_or_nil gs) as [-> | (gs0 & [x j] & ->)]; [exfalso; apply Hne; reflexivity|].
    rewrite flatb_app. cbn [flatb flat_map]. rewrite app_nil_r. unfold groupb. cbn [fst snd].
    rewrite !sel_app. cbn [sel_of map is_missing]. rewrite !app_assoc, last_snoc. reflexivity.
  - rewrite last_app_nonempty by discriminate. rewrite last_repeat. reflexivity.
Qed.

Definition bridge_part_b (limit : Z) (last : option A) (run : Z) (k : nat) : list (option A) :=
  rev (bridge_part limit last run k).

Lemma bridge_part_b_some limit v run k :
  bridge_part_b limit (Some v) run k = nones (k - reach limit run k) ++ repeat (Some v) (reach limit run k).
Proof. unfold bridge_part_b, bridge_part. rewrite rev_app_distr, rev_nones, rev_repeat. reflexivity. Qed.

Lemma bridge_assign_b limit v run gs kend : 0 <= limit -> 0 <= run ->
  let cs := flatb gs ++ nones kend in
  let a := zlen (flatb gs) in
  let b := zlen (flatb gs) + Z.of_nat kend in
  (if lim_reached limit run then cs
   else let '(a', b') := if lim_reached limit (run + Z.of_nat kend)
                         then (a + (run + Z.of_nat kend - limit), b) else (a, b) in
        assign_slice a' b' (Some v) cs)
  = flatb gs ++ bridge_part_b limit (Some v) run kend.
Proof.
  intros Hl Hr cs a b. rewrite bridge_part_b_some.
  set (m := reach limit run kend).
  assert (Hm : (m <= kend)%nat) by apply reach_le.
  assert (Hgo : assign_slice (a + Z.of_nat (kend - m)) b (Some v) cs = flatb gs ++ nones (kend - m) ++ repeat (Some v) m).
  { unfold cs, assign_slice, a, b. rewrite assign_go_app, assign_go_before by lia. f_equal.
    unfold nones at 1. replace (0 + zlen (flatb gs)) with (zlen (flatb gs)) by lia.
    apply assign_go_repeat_suffix. assumption. }
  unfold lim_reached. unfold m, reach in *.
  destruct (limit =? 0) eqn:E0; cbn [negb andb].
  - replace (kend - kend)%nat with 0%nat in * by lia. replace (a + Z.of_nat 0) with a in Hgo by lia. exact Hgo.
  - destruct (limit <=? run) eqn:E1.
    + replace (Nat.min kend (Z.to_nat (limit - run))) with 0%nat by lia. cbn [repeat]. rewrite app_nil_r.
      replace (kend - 0)%nat with kend by lia. reflexivity.
    + destruct (limit <=? run + Z.of_nat kend) eqn:E2.
      * replace (a + (run + Z.of_nat kend - limit)) with (a + Z.of_nat (kend - Nat.min kend (Z.to_nat (limit - run)))) by lia.
        exact Hgo.
      * replace a with (a + Z.of_nat (kend - Nat.min kend (Z.to_nat (limit - run)))) at 1 by lia. exact Hgo.
Qed.

Lemma first_len_slices_bwd limit x k gs n : (0 < k)%nat ->
  zlen (flatb ((x, k) :: gs)) <= n ->
  match slices_bwd (A := A) limit 0 ((x, k) :: gs) with
  | [] => False
  | s0 :: _ => range_len (fst (fst s0)) (snd (fst s0)) n = Z.of_nat (reach limit 0 k)
  end.
Proof.
  intros Hk Hn. cbn [slices_bwd fst snd]. replace (0 <? Z.of_nat k) with true by lia. cbn [app fst snd].
  pose proof (reach_le limit 0 k).
  assert (Hn' : Z.of_nat k + 1 <= n).
  { unfold zlen in Hn. cbn [flatb flat_map] in Hn. rewrite app_length in Hn. unfold groupb at 1 in Hn. cbn [fst snd] in Hn.
    rewrite app_length in Hn. unfold nones in Hn. rewrite repeat_length in Hn. cbn [length] in Hn. lia. }
  rewrite range_len_simple; lia.
Qed.

Lemma block2_bwd_ok limit st last run anyna cs out st' : 0 <= limit ->
  R limit st last run -> rb_ok (RB2 anyna cs) = true -> bwd_block_dom cf limit (RB2 anyna cs) = true ->
  M_dir_block2 cf false limit st anyna cs = (out, st') ->
  rev out = S_ffill_go limit last run (rev cs) /\
  R limit st' (fst (S_carry last run (rev cs))) (snd (S_carry last run (rev cs))).
Proof.
  intros Hl [Hr HR] Hok Hdom HM. cbn [rb_ok] in Hok. apply andb_true_iff in Hok as [Hne Hflag].
  destruct (decompose_b cs) as (gs & kend & Hd).
  assert (Hcs : cs <> []) by (destruct cs; [discriminate|congruence]).
  subst cs.
  rewrite rev_app_distr, rev_nones, rev_flatb.
  rewrite S_carry_app, S_carry_nones. cbn [fst snd]. rewrite S_on_block by assumption.
  unfold M_dir_block2 in HM. fold (sel_of (flatb gs ++ nones kend)) in HM.
  unfold bwd_block_dom in Hdom. fold (sel_of (flatb gs ++ nones kend)) in Hdom.
  assert (Hb0 : bridge_part limit last run 0 = []) by (destruct last; unfold bridge_part, reach; destruct (limit =? 0); reflexivity).
  destruct anyna; cbn [negb] in HM.
  2:{ (* no missing cell in the whole block *)
    cbn [orb] in Hflag. apply negb_true_iff in Hflag.
    assert (E : existsb (fun b => b) (sel_of (flatb gs ++ nones kend)) = false).
    { unfold sel_of. rewrite <- Hflag. generalize (flatb gs ++ nones kend). clear. intros l. induction l as [|c t IH]; cbn; congruence. }
    destruct (existsb_sel_false_b _ E gs kend eq_refl) as [-> Hz].
    injection HM as <- <-. cbn [nones repeat] in *. rewrite app_nil_r in *.
    rewrite Hb0, rev_flatb. cbn [app].
    rewrite S_groups_no_missing by (intros g Hg; apply Hz; apply in_rev; assumption). split; [reflexivity|].
    destruct gs as [|[x j] gs']; [exfalso; apply Hcs; reflexivity|].
    assert (j = 0%nat) by (apply (Hz (x, j)); left; reflexivity). subst j.
    cbn [rev]. rewrite flat_app, S_carry_app. cbn [flat flat_map]. rewrite app_nil_r, S_carry_group. cbn [fst snd].
    cbn [flatb flat_map groupb fst snd nones repeat app hd].
    unfold R. fin. }
  (* the general path *)
  set (cs := flatb gs ++ nones kend) in *.
  set (sel := sel_of cs) in *.
  set (len := zlen cs) in *.
  set (br := match st with
             | None => (cs, 0)
             | Some s =>
                 if List.last sel false && negb (bna s) then
                   let '(a, b) := sided_slice false sel in
                   let sided_len := range_len a b len in
                   if lim_reached limit (bc s) then (cs, bc s + sided_len)
                   else let '(a', b') := if lim_reached limit (bc s + sided_len)
                                         then (a + (bc s + sided_len - limit), b) else (a, b) in
                        (assign_slice a' b' (bv s) cs, bc s + sided_len)
                 else (cs, bc s)
             end) in *.
  assert (Hlen : len = zlen (flatb gs) + Z.of_nat kend) by (unfold len, cs; zl; reflexivity).
  assert (Hbr : fst br = flatb gs ++ bridge_part_b limit last run kend /\
                (forall v, (exists s, st = Some s /\ bv s = Some v) -> (0 < kend)%nat -> limit = 0 \/ snd br = run + Z.of_nat kend)).
  { unfold br. destruct st as [s|].
    - destruct HR as [Hna HR]. unfold sel, cs. rewrite last_sel_block_b by exact Hcs. rewrite sided_slice_trailing.
      rewrite (range_len_simple (zlen (flatb gs))) by (pose proof (zlen_nonneg (flatb gs)); lia).
      replace (zlen (flatb gs) + Z.of_nat kend - zlen (flatb gs)) with (Z.of_nat kend) by lia.
      destruct (0 <? Z.of_nat kend) eqn:Ek; cbn [andb].
      + rewrite Hna. destruct (bv s) as [v|] eqn:Ebv; cbn [is_missing negb].
        * destruct HR as [-> Hc]. split.
          -- destruct Hc as [E0 | Hc].
             ++ unfold lim_reached. replace (limit =? 0) with true by lia. cbn [negb andb fst].
                pose proof (bridge_assign_b limit v run gs kend Hl Hr) as H. cbv zeta in H. unfold lim_reached in H.
                replace (limit =? 0) with true in H by lia. cbn [negb andb] in H. exact H.
             ++ rewrite Hc. pose proof (bridge_assign_b limit v run gs kend Hl Hr) as H. cbv zeta in H.
                destruct (lim_reached limit run); [exact H|].
                destruct (lim_reached limit (run + Z.of_nat kend)); exact H.
          -- intros v' _ _. destruct Hc as [E0|Hc]; [left; assumption|right]. rewrite Hc.
             destruct (lim_reached limit run); [reflexivity|].
             destruct (lim_reached limit (run + Z.of_nat kend)); reflexivity.
        * cbn [fst snd]. split.
          -- unfold bridge_part_b. rewrite bridge_part_dead, rev_nones by assumption. reflexivity.
          -- intros v' (s' & Es & Ev). injection Es as <-. congruence.
      + assert (kend = 0%nat) by lia. subst kend. cbn [fst snd]. split.
        * unfold bridge_part_b. rewrite Hb0. reflexivity.
        * intros; lia.
    - subst last. cbn [fst snd]. unfold bridge_part_b. cbn [bridge_part]. rewrite rev_nones. split; [reflexivity|].
      intros v (s & Es & _). discriminate. }
  set (T := M_binary_transition sel) in *.
  set (sl := M_slices_from_targets T (map (znth None cs) T) len false limit (znth false sel)) in *.
  assert (Hsl_nil : T = [] -> sl = []) by (intros E; unfold sl; rewrite E; reflexivity).
  assert (Huni : out = apply_slices sl (fst br) /\
                 st' = Some (mk_bridge (hd None out)
                           (if negb (hd false sel) || is_missing (hd None out) then 0
                            else match (if negb cf then last_opt sl else hd_opt sl) with Some s3 => range_len (fst (fst s3)) (snd (fst s3)) len | None => snd br end)
                           (is_missing (hd None out)))).
  { destruct br as [assigned bc1]. cbn [fst snd]. destruct T as [|t0 T'].
    - rewrite (Hsl_nil eq_refl) in *. cbn [apply_slices fold_left last_opt hd_opt]. injection HM as <- <-.
      split; [reflexivity|]. destruct cf; reflexivity.
    - injection HM as <- <-. split; reflexivity. }
  clear HM. destruct Huni as [Hout Hst'].
  assert (Hslb : sl = slices_bwd limit 0 gs).
  { unfold sl, T, sel, len, cs, M_slices_from_targets, M_binary_transition. rewrite bt_flatb.
    apply (sft_bwd_flat limit kend gs Hl [] 0 (flatb gs ++ nones kend) _ eq_refl eq_refl). left. reflexivity. }
  assert (Hout' : out = S_groupsb limit gs ++ bridge_part_b limit last run kend).
  { rewrite Hout, (proj1 Hbr). unfold sl, T, sel, len, cs.
    apply (bwd_kernel limit gs kend (bridge_part_b limit last run kend) Hl). }
  split.
  { rewrite Hout', rev_app_distr. unfold bridge_part_b. rewrite rev_involutive, rev_S_groupsb. reflexivity. }
  (* the state after the block *)
  rewrite Hst'. clear Hst'.
  destruct gs as [|[x j] gs'].
  - (* the whole row of the block is missing *)
    cbn [rev flat flat_map S_groups S_carry fst snd flatb S_groupsb] in *. cbn [app] in *.
    destruct kend as [|kend]; [exfalso; apply Hcs; reflexivity|].
    assert (Hhdsel : hd false sel = true) by (unfold sel, cs; cbn [flatb flat_map app]; rewrite sel_nones; reflexivity).
    rewrite Hhdsel. cbn [negb orb]. rewrite Hslb. cbn [slices_bwd last_opt hd_opt].
    replace (if negb cf then @None (Z * Z * option A) else None) with (@None (Z * Z * option A)) by (destruct cf; reflexivity).
    rewrite Hout'.
    split; [lia|]. cbn [bv bc bna]. split; [reflexivity|].
    destruct last as [v|].
    + rewrite bridge_part_b_some.
      destruct (Nat.eq_dec (reach limit run (S kend)) (S kend)) as [Hall|Hnot].
      * rewrite Hall. replace (S kend - S kend)%nat with 0%nat by lia. cbn [nones repeat app hd is_missing].
        split; [reflexivity|].
        destruct st as [s|]; [|discriminate HR]. destruct HR as [Hna HR].
        destruct (bv s) as [v'|] eqn:Ebv.
        -- destruct HR as [Hv Hc]. injection Hv as ->.
           destruct (proj2 Hbr v' (ex_intro _ s (conj eq_refl Ebv)) ltac:(lia)) as [E0|Eb]; [left; assumption|right; lia].
        -- exfalso. destruct HR as [HR|[H1 H2]]; [discriminate|].
           unfold reach in Hall. replace (limit =? 0) with false in Hall by lia. lia.
      * pose proof (reach_le limit run (S kend)).
        replace (S kend - reach limit run (S kend))%nat with (S (kend - reach limit run (S kend)))%nat by lia.
        cbn [nones repeat app hd is_missing].
        right. unfold reach in Hnot. destruct (limit =? 0) eqn:E0; [lia|]. lia.
    + unfold bridge_part_b. cbn [bridge_part]. rewrite rev_nones. cbn [nones repeat hd is_missing]. left. reflexivity.
  - (* the first group decides *)
    cbn [rev]. rewrite flat_app, S_carry_app. cbn [flat flat_map]. rewrite app_nil_r, S_carry_group. cbn [fst snd].
    rewrite Hout'. cbn [S_groupsb flat_map]. fold (S_groupsb limit gs').
    assert (Hhdsel : hd false sel = (0 <? Z.of_nat j)).
    { unfold sel, cs. rewrite hd_sel_flatb. reflexivity. }
    rewrite Hhdsel. split; [lia|]. cbn [bv bc bna]. split; [reflexivity|].
    unfold filledb. cbn [fst snd]. destruct j as [|j].
    + unfold reach. replace (if limit =? 0 then 0%nat else Nat.min 0 (Z.to_nat (limit - 0))) with 0%nat by (destruct (limit =? 0); reflexivity).
      cbn [repeat nones app hd is_missing Nat.sub]. replace (0 <? Z.of_nat 0) with false by lia. cbn [negb orb].
      split; [reflexivity|right; lia].
    + replace (0 <? Z.of_nat (S j)) with true by lia. cbn [negb orb].
      destruct (Nat.eq_dec (reach limit 0 (S j)) (S j)) as [Hall|Hnot].
      * rewrite Hall. replace (S j - S j)%nat with 0%nat by lia. cbn [nones repeat app hd is_missing].
        split; [reflexivity|].
        pose proof (first_len_slices_bwd limit x (S j) gs' len ltac:(lia)) as Hfirst.
        rewrite <- Hslb in Hfirst.
        destruct cf; cbn [negb orb] in Hdom |- *.
        -- (* repaired code: the first yielded slice *)
           right. destruct sl as [|s0 sl'] eqn:Esl.
           ++ exfalso. apply Hfirst. unfold cs in Hlen. rewrite Hlen. lia.
           ++ cbn [hd_opt]. rewrite Hfirst by (rewrite Hlen; lia). rewrite Hall. reflexivity.
        -- (* pinned code: the last yielded slice; guard: first and last equally long (or no limit) *)
           apply orb_true_iff in Hdom as [E0 | Hdom]; [left; lia|].
           fold sel in Hdom. rewrite Hhdsel in Hdom. replace (0 <? Z.of_nat (S j)) with true in Hdom by lia. cbn [negb orb] in Hdom.
           fold cs in Hdom. fold len in Hdom. fold T in Hdom. fold sl in Hdom.
           right. destruct sl as [|s0 sl'] eqn:Esl.
           ++ exfalso. apply Hfirst. unfold cs in Hlen. rewrite Hlen. lia.
           ++ cbn [last_opt]. rewrite last_cons_same. apply Z.eqb_eq in Hdom. rewrite <- Hdom, Hfirst by (rewrite Hlen; lia). rewrite Hall. reflexivity.
      * pose proof (reach_le limit 0 (S j)).
        replace (S j - reach limit 0 (S j))%nat with (S (j - reach limit 0 (S j)))%nat by lia.
        cbn [nones repeat app hd is_missing].
        right. unfold reach in Hnot. destruct (limit =? 0) eqn:E0; lia.
Qed.

End Axis1.
