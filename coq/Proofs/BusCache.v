(* C17 -- ordered-dict / cache lemmas shared by the refinement proof. *)
Require Import SF.Prelude SF.PySlice SF.BusSpec.
Require Import Proofs.BusSpecFacts.

Section Cache.
Variable L : Type.
Variable leqb : L -> L -> bool.
Hypothesis leqb_spec : forall x y, leqb x y = true <-> x = y.

Notation mem := (mem L leqb).
Notation la_remove := (la_remove L leqb).
Notation la_touch := (la_touch L leqb).
Notation s_touch := (s_touch L leqb).
Notation s_access_all := (s_access_all L leqb).
Notation cache_ok := (cache_ok L).

Lemma la_touch_In l c x : In x (la_touch l c) <-> x = l \/ In x c.
Proof.
  unfold BusSpec.la_touch. rewrite in_app_iff, (la_remove_In L leqb leqb_spec). cbn.
  destruct (leqb x l) eqn:Q.
  - apply leqb_spec in Q. subst. tauto.
  - assert (x <> l) by (intro; subst; rewrite (proj2 (leqb_spec l l) eq_refl) in Q; discriminate).
    split; [intros [[? ?]|[?|[]]]; auto | intros [?|?]; [contradiction | auto]].
Qed.

Lemma la_remove_length_in l c : NoDup c -> In l c -> S (length (la_remove l c)) = length c.
Proof.
  unfold BusSpec.la_remove. induction 1 as [|x r Hx N IH]; intros I; [contradiction|]. cbn.
  destruct (leqb x l) eqn:Q; cbn.
  - apply leqb_spec in Q. subst.
    f_equal. f_equal. apply (la_remove_notin L leqb leqb_spec), Hx.
  - f_equal. apply IH. destruct I as [->|I]; [|exact I].
    rewrite (proj2 (leqb_spec l l) eq_refl) in Q. discriminate.
Qed.

Lemma la_touch_length_in l c : NoDup c -> In l c -> length (la_touch l c) = length c.
Proof.
  intros N I. unfold BusSpec.la_touch. rewrite app_length. cbn.
  pose proof (la_remove_length_in l c N I). lia.
Qed.

Lemma la_touch_length_notin l c : ~ In l c -> length (la_touch l c) = S (length c).
Proof.
  intro H. unfold BusSpec.la_touch. rewrite (la_remove_notin L leqb leqb_spec l c H), app_length. cbn. lia.
Qed.

Lemma s_touch_hit mp l c : cache_ok mp c -> In l c -> s_touch mp l c = la_touch l c.
Proof.
  intros [N B] I. unfold BusSpec.s_touch, s_trim. destruct mp as [k|]; [|reflexivity].
  rewrite (la_touch_length_in l c N I). destruct B as [_ B].
  destruct (Z.of_nat (length c) >? k) eqn:G; [lia | reflexivity].
Qed.

Lemma s_access_all_hits coh mp ls : forall c, cache_ok mp c -> (forall l, In l ls -> In l c) ->
  s_access_all coh mp c ls = (true, fold_left (fun c l => la_touch l c) ls c).
Proof.
  induction ls as [|l r IH]; intros c Ck H; cbn; [reflexivity|].
  assert (In l c) as Il by (apply H; left; reflexivity).
  rewrite (proj2 (mem_In L leqb leqb_spec l c) Il). cbn.
  rewrite (s_touch_hit mp l c Ck Il).
  apply IH.
  - rewrite <- (s_touch_hit mp l c Ck Il). apply (s_touch_ok L leqb leqb_spec), Ck.
  - intros x Hx. apply la_touch_In. right. apply H. right. exact Hx.
Qed.

Lemma s_access_all_coh mp ls : forall c,
  s_access_all true mp c ls = (true, fold_left (fun c l => s_touch mp l c) ls c).
Proof.
  induction ls as [|l r IH]; intros c; cbn; [reflexivity|].
  rewrite orb_true_r. apply IH.
Qed.

(* the label just used survives the trim (max_persist >= 1) *)
Lemma s_touch_In_self mp l c : cache_ok mp c -> In l (s_touch mp l c).
Proof.
  intros [N B]. unfold BusSpec.s_touch, s_trim.
  assert (In l (la_touch l c)) as I by (apply la_touch_In; left; reflexivity).
  destruct mp as [k|]; [|exact I]. destruct B as [K B].
  destruct (Z.of_nat (length (la_touch l c)) >? k) eqn:G; [|exact I].
  unfold BusSpec.la_touch in *.
  destruct (la_remove l c) as [|y r] eqn:E; cbn in *; [lia|].
  apply in_app_iff. right. left. reflexivity.
Qed.

(* filtering an ordered dict by a predicate that holds of l commutes with touching l *)
Lemma filter_la_touch_true (p : L -> bool) l la : p l = true ->
  filter p (la_touch l la) = la_touch l (filter p la).
Proof.
  intro H. unfold BusSpec.la_touch, BusSpec.la_remove. rewrite filter_app. cbn. rewrite H. f_equal.
  induction la as [|x r IH]; cbn; [reflexivity|].
  destruct (leqb x l) eqn:Q; cbn.
  - apply leqb_spec in Q. subst. rewrite H. cbn. rewrite (proj2 (leqb_spec l l) eq_refl). cbn. exact IH.
  - destruct (p x); cbn; [rewrite Q; cbn; f_equal; exact IH | exact IH].
Qed.

Lemma filter_la_touch_false (p : L -> bool) l la : p l = false ->
  filter p (la_touch l la) = filter p la.
Proof.
  intro H. unfold BusSpec.la_touch, BusSpec.la_remove. rewrite filter_app. cbn. rewrite H, app_nil_r.
  induction la as [|x r IH]; cbn; [reflexivity|].
  destruct (leqb x l) eqn:Q; cbn.
  - apply leqb_spec in Q. subst. rewrite H. exact IH.
  - destruct (p x); [f_equal|]; exact IH.
Qed.

Lemma filter_all_true {A} (p : A -> bool) l : (forall x, In x l -> p x = true) -> filter p l = l.
Proof.
  induction l as [|x r IH]; intro H; cbn; [reflexivity|].
  rewrite (H x (or_introl eq_refl)). f_equal. apply IH. intros y Hy. apply H. right. exact Hy.
Qed.

End Cache.
