(* TypeBlocks._cols_to_slice regenerated from source (Gen.Gen_type_blocks.cols_to_slice) equals the
   typed function SF.Blocks.cols_to_slice_t the block-selection theorems are about. *)
Require Import SF.Prelude SF.PySlice SF.Dtype SF.PyDyn SF.Blocks Gen.Gen_type_blocks.

Lemma py_nth_first {B} (a : B) l : py_nth (a :: l) 0 = Some a.
Proof.
  unfold py_nth, norm_index. cbn [length].
  replace ((0 <=? 0) && (0 <? Z.of_nat (S (length l)))) with true by lia. reflexivity.
Qed.

Lemma nth_error_last {B} (l : list B) (a d : B) :
  nth_error (a :: l) (length l) = Some (last (a :: l) d).
Proof.
  revert a. induction l as [|b l IH]; intros a; [reflexivity|].
  cbn [length nth_error]. rewrite IH. destruct l; reflexivity.
Qed.

Lemma py_nth_last {B} (a : B) l : py_nth (a :: l) (-1) = Some (last (a :: l) a).
Proof.
  unfold py_nth, norm_index. cbn [length].
  replace ((0 <=? -1) && (-1 <? Z.of_nat (S (length l)))) with false by lia.
  replace ((-1 <? 0) && (0 <=? -1 + Z.of_nat (S (length l)))) with true by lia.
  unfold nth_z. replace (-1 + Z.of_nat (S (length l)) <? 0) with false by lia.
  replace (Z.to_nat (-1 + Z.of_nat (S (length l)))) with (length l) by lia.
  apply nth_error_last.
Qed.

Lemma py_index_first a l : py_index (of_zlist (a :: l)) (PInt 0) = PInt a.
Proof.
  unfold py_index, of_zlist. cbn [first_err as_int map]. rewrite py_nth_first. reflexivity.
Qed.

Lemma last_map' {B C} (f : B -> C) l d : last (map f l) (f d) = f (last l d).
Proof. induction l as [|x l IH]; [reflexivity|]. destruct l as [|y l]; [reflexivity|]. exact IH. Qed.

Lemma py_index_last a l : py_index (of_zlist (a :: l)) (PInt (-1)) = PInt (last (a :: l) a).
Proof.
  unfold py_index, of_zlist. cbn [first_err as_int map]. rewrite py_nth_last.
  change (PInt a :: map PInt l) with (map PInt (a :: l)). apply last_map'.
Qed.

Lemma py_len_zlist l : py_len (of_zlist l) = PInt (Z.of_nat (length l)).
Proof. unfold py_len, of_zlist. now rewrite map_length. Qed.

Require Import SF.PyDynTac.
Local Opaque py_slice_indices Z.mul Z.div Z.add Z.sub Z.min Z.max Z.abs Z.opp Z.modulo Z.gtb Z.eqb Z.ltb Z.leb Z.geb adj_bound.
Local Opaque py_index py_len of_zlist.

Lemma cols_to_slice_refines (l : list Z) : l <> [] ->
  cols_to_slice (of_zlist l) = of_slice (cols_to_slice_t l).
Proof.
  destruct l as [|a l]; [congruence|]. intros _.
  unfold cols_to_slice, cols_to_slice_t.
  rewrite py_index_first, py_index_last, py_len_zlist.
  set (n := Z.of_nat (length (a :: l))). set (z := last (a :: l) a).
  clearbody n z.
  dyn_refine.
Qed.
