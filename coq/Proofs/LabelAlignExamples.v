(* C06 -- non-trivial instances of the alignment theorems' hypotheses and conclusions, by computation
   (labels and values in Z; the operator is subtraction on option Z with None as the missing marker). *)
Require Import SF.Prelude SF.SetAlg SF.LabelAlign.

Definition zsub (x y : option Z) : option Z :=
  match x, y with Some a, Some b => Some (a - b) | _, _ => None end.

Definition zbinop := M_series_binop Z (option Z) Z.eqb Z.leb (fun _ => true) (option Z) zsub true false None
                       (fun v => v) (fun v => v).

(* overlapping, differently ordered operands: union of labels (sorted by the NumPy path), a - b where both
   have the label, the missing marker elsewhere *)
Example binop_overlap :
  zbinop [3; 1; 7] [Some 30; Some 10; Some 70] [7; 5; 3] [Some 1; Some 2; Some 3] =
  Some ([1; 3; 5; 7], [None; Some 27; None; Some 69]).
Proof. vm_compute. reflexivity. Qed.

(* permuting both operands (values moving with labels) gives the same label -> value map *)
Example binop_permuted :
  zbinop [7; 1; 3] [Some 70; Some 10; Some 30] [3; 7; 5] [Some 3; Some 1; Some 2] =
  Some ([1; 3; 5; 7], [None; Some 27; None; Some 69]).
Proof. vm_compute. reflexivity. Qed.

(* equal indices keep their (unsorted) order *)
Example binop_equal_index :
  zbinop [3; 1; 7] [Some 30; Some 10; Some 70] [3; 1; 7] [Some 1; Some 2; Some 3] =
  Some ([3; 1; 7], [Some 29; Some 8; Some 67]).
Proof. vm_compute. reflexivity. Qed.

(* the three outcomes of from_correspondence: subset (reordering), partial, nothing in common *)
Example reindex_subset :
  M_series_reindex Z Z Z.eqb Z.leb (fun _ => true) false false [3; 1; 7] [30; 10; 70] [7; 3] 0 (fun v => v + 1000)
  = Some [70; 30].
Proof. vm_compute. reflexivity. Qed.
Example reindex_partial :
  M_series_reindex Z Z Z.eqb Z.leb (fun _ => true) false false [3; 1; 7] [30; 10; 70] [7; 4; 3] 0 (fun v => v + 1000)
  = Some [1070; 0; 1030].
Proof. vm_compute. reflexivity. Qed.
Example reindex_disjoint :
  M_series_reindex Z Z Z.eqb Z.leb (fun _ => true) false false [3; 1; 7] [30; 10; 70] [4; 5] 0 (fun v => v + 1000)
  = Some [0; 0].
Proof. vm_compute. reflexivity. Qed.

(* set operations: every shortcut and both general paths *)
Example union_numpy_path :
  M_index_set Z Z.eqb Z.leb (fun _ => true) OpUnion OperandIndex true false [3; 1; 2] [2; 5; 1] = (true, [1; 2; 3; 5]).
Proof. vm_compute. reflexivity. Qed.
Example union_identical_keeps_order :
  M_index_set Z Z.eqb Z.leb (fun _ => true) OpUnion OperandIndex false false [3; 1; 2] [3; 1; 2] = (true, [3; 1; 2]).
Proof. vm_compute. reflexivity. Qed.
Example diff_keeps_left_order :
  M_index_set Z Z.eqb Z.leb (fun _ => true) OpDiff OperandIndex true false [3; 1; 2] [1] = (true, [3; 2]).
Proof. vm_compute. reflexivity. Qed.
Example inter_unsortable_object_path :
  M_index_set Z Z.eqb Z.leb (fun _ => false) OpInter OperandIndex true true [3; 1; 2] [2; 3; 9] = (false, [3; 2]).
Proof. vm_compute. reflexivity. Qed.
