(* Tree view = table view: the deque walks of IndexLevel compute the depth-first flattening. *)
Require Import SF.Prelude SF.Hier Proofs.HierBfs.

Section LevelInd.
  Variable A : Type.
  Variable P : level A -> Prop.
  Hypothesis HL : forall o ls, P (Leaf o ls).
  Hypothesis HN : forall o ls ks, Forall P ks -> P (Node o ls ks).
  Fixpoint level_ind' (t : level A) : P t :=
    match t with
    | Leaf o ls => HL o ls
    | Node o ls ks =>
        HN o ls ks ((fix go (l : list (level A)) : Forall P l :=
                       match l with
                       | [] => Forall_nil _
                       | k :: l' => Forall_cons _ (level_ind' k) (go l')
                       end) ks)
    end.
End LevelInd.

Section Views.
  Variable A : Type.
  Notation level := (level A).

  (* ---- unfolding the nested fixpoints *)
  Fixpoint fz (ks : list level) (ls : list A) : list (list A) :=
    match ks, ls with
    | k :: ks', l :: ls' => map (cons l) (flatten k) ++ fz ks' ls'
    | _, _ => []
    end.
  Lemma flatten_node o ls ks : flatten (Node o ls ks) = fz ks ls.
  Proof. reflexivity. Qed.

  Lemma node_count_node o ls (ks : list level) :
    node_count (Node o ls ks) = S (list_sum (map node_count ks)).
  Proof.
    cbn [node_count]. f_equal. induction ks as [|k ks IH]; [reflexivity|].
    cbn [map]. change (list_sum (node_count k :: map node_count ks)) with (node_count k + list_sum (map node_count ks))%nat.
    rewrite <- IH. reflexivity.
  Qed.

  Definition zsum (l : list Z) : Z := fold_right Z.add 0 l.
  Lemma zsum_app a b : zsum (a ++ b) = zsum a + zsum b.
  Proof. unfold zsum. induction a as [|x a IH]; cbn [app fold_right]; [lia|]. rewrite IH. lia. Qed.

  Lemma lv_len_node o ls (k : level) ks :
    lv_len (Node o ls (k :: ks)) = zsum (map lv_len (k :: ks)).
  Proof.
    cbn [lv_len map zsum fold_right]. f_equal.
    induction ks as [|x l IH]; [reflexivity|].
    cbn [map zsum fold_right]. rewrite IH. reflexivity.
  Qed.

  Lemma uniform_leaf h o (ls : list A) : uniform h (Leaf o ls) = true -> h = O /\ ls <> [].
  Proof.
    intro H. cbn [uniform] in H. apply andb_true_iff in H as [H1 H2]. apply Nat.eqb_eq in H1.
    split; [exact H1|]. destruct ls; [discriminate|discriminate].
  Qed.

  Lemma uniform_node h o (ls : list A) ks : uniform h (Node o ls ks) = true ->
    exists h', h = S h' /\ length ls = length ks /\ ks <> [] /\ Forall (fun k => uniform h' k = true) ks.
  Proof.
    destruct h as [|h']; [discriminate|]. cbn [uniform]. intro H.
    apply andb_true_iff in H as [H H3]. apply andb_true_iff in H as [H1 H2].
    exists h'. split; [reflexivity|]. apply Nat.eqb_eq in H1. split; [exact H1|].
    split; [destruct ks; [discriminate|discriminate]|].
    apply Forall_forall. intros k Hk. rewrite forallb_forall in H3. apply H3, Hk.
  Qed.

  Lemma uniform_depth : forall (t : level) h, uniform h t = true -> lv_depth t = S h.
  Proof.
    induction t as [o ls|o ls ks IH] using level_ind'; intros h H.
    - apply uniform_leaf in H as [-> _]. reflexivity.
    - apply uniform_node in H as (h' & -> & _ & Hne & Hk).
      destruct ks as [|k ks]; [congruence|]. cbn [lv_depth]. f_equal.
      inversion IH; subst. inversion Hk; subst. auto.
  Qed.

  (* length of the flattening = len (needs no offsets) *)
  Lemma lv_len_flatten : forall (t : level) h, uniform h t = true -> lv_len t = zlen (flatten t).
  Proof.
    induction t as [o ls|o ls ks IH] using level_ind'; intros h H.
    - cbn. unfold zlen. rewrite map_length. reflexivity.
    - apply uniform_node in H as (h' & -> & Hlen & Hne & Hk).
      destruct ks as [|k0 ks0]; [congruence|]. rewrite lv_len_node, flatten_node.
      remember (k0 :: ks0) as ks eqn:E. clear E Hne k0 ks0.
      revert ls Hlen. induction ks as [|k ks IHks]; intros ls Hlen.
      + destruct ls; reflexivity.
      + destruct ls as [|l ls]; [discriminate|]. cbn [map zsum fold_right fz].
        inversion IH; subst. inversion Hk; subst.
        unfold zlen. rewrite app_length, map_length, Nat2Z.inj_add.
        rewrite (H1 h' H3). unfold zlen. f_equal.
        apply IHks; auto.
  Qed.

  (* ---- __iter__ *)
  Definition it_ht (x : level * list A) : nat := pred (lv_depth (fst x)).
  Definition it_P (x : level * list A) : Prop := uniform (it_ht x) (fst x) = true.

  Lemma it_H0 : forall x, it_P x -> it_ht x = O -> snd (iter_step x) = [].
  Proof.
    intros [t pre] HP H. unfold it_P in HP. rewrite H in HP. cbn [fst] in HP.
    destruct t; [reflexivity|discriminate].
  Qed.

  Lemma it_HS : forall x h, it_P x -> it_ht x = S h ->
    Forall (fun k => it_P k /\ it_ht k = h) (snd (iter_step x)).
  Proof.
    intros [t pre] h HP H. unfold it_P in HP. rewrite H in HP. cbn [fst] in HP.
    destruct t as [o ls|o ls ks]; [apply uniform_leaf in HP as [? _]; discriminate|].
    apply uniform_node in HP as (h' & E & Hlen & Hne & Hk). injection E as <-.
    unfold iter_step. cbn [fst snd].
    apply Forall_forall. intros [k pre'] Hin. apply in_map_iff in Hin as ([l k'] & E & Hin).
    injection E as -> <-. apply in_combine_r in Hin.
    rewrite Forall_forall in Hk. specialize (Hk _ Hin).
    unfold it_P, it_ht. cbn [fst]. rewrite (uniform_depth _ _ Hk). cbn [pred]. auto.
  Qed.

  Lemma it_silent : forall x h, it_P x -> it_ht x = S h -> fst (iter_step x) = [].
  Proof.
    intros [t pre] h HP H. unfold it_P in HP. rewrite H in HP. cbn [fst] in HP.
    destruct t as [o ls|o ls ks]; [apply uniform_leaf in HP as [? _]; discriminate|reflexivity].
  Qed.

  Lemma it_dfs : forall (t : level) h pre, uniform h t = true ->
    dfs _ _ iter_step h (t, pre) = map (app pre) (flatten t).
  Proof.
    induction t as [o ls|o ls ks IH] using level_ind'; intros h pre H.
    - apply uniform_leaf in H as [-> _]. cbn. rewrite map_map. reflexivity.
    - apply uniform_node in H as (h' & -> & Hlen & _ & Hk). rewrite flatten_node.
      cbn [dfs iter_step fst snd app]. clear Hlen.
      revert ls. induction ks as [|k ks IHks]; intros ls.
      + destruct ls; reflexivity.
      + destruct ls as [|l ls]; [reflexivity|]. cbn [combine map flat_map fz fst snd].
        inversion IH; subst. inversion Hk; subst.
        rewrite map_app. f_equal.
        * rewrite (H1 h' (pre ++ [l]) H3). rewrite map_map. apply map_ext. intro r. rewrite <- app_assoc. reflexivity.
        * apply IHks; auto.
  Qed.

  Theorem iter_is_flatten : forall (t : level) h, uniform h t = true -> M_iter t = Ok (flatten t).
  Proof.
    intros t h H. unfold M_iter. rewrite (uniform_depth _ _ H). cbn [pred].
    rewrite (bfs_dfs _ _ iter_step it_ht it_P it_H0 it_HS h).
    - cbn [flat_map]. rewrite app_nil_r, (it_dfs t h [] H). f_equal.
      rewrite <- (map_id (flatten t)) at 2. apply map_ext. reflexivity.
    - exact it_silent.
    - constructor; [|constructor]. unfold it_P, it_ht. cbn [fst].
      rewrite (uniform_depth _ _ H). cbn [pred]. auto.
    - cbn [map]. rewrite list_sum_cons. cbn. lia.
  Qed.
End Views.
