(* C18 -- refinement of static-frame's pool forms to the sequential forms:
   IterNodeDelegate.apply_pool (node_iter.py) and Batch (batch.py). *)
Require Import SF.Prelude SF.Pool Proofs.PoolExec.

Section ApplyPoolFacts.
  Context {K V A B : Type}.
  Variable mk_arg : K -> V -> A.
  Variable f : A -> res B.

  Definition arg_of (kv : K * V) : A := mk_arg (fst kv) (snd kv).

  (* the side-effect key list and the argument stream stay in step *)
  Lemma arg_gen_from ks args (items : list (K * V)) :
    fold_left (arg_gen_step mk_arg) items (ks, args) = (ks ++ map fst items, args ++ map arg_of items).
  Proof.
    revert ks args; induction items as [|kv t IH]; intros ks args; cbn.
    - rewrite !app_nil_r. reflexivity.
    - unfold arg_gen_step at 2. cbn [fst snd]. rewrite IH. rewrite <- !app_assoc. reflexivity.
  Qed.

  Lemma arg_gen_eq (items : list (K * V)) : arg_gen mk_arg items = (map fst items, map arg_of items).
  Proof. unfold arg_gen. rewrite arg_gen_from. reflexivity. Qed.

  Lemma S_apply_as_seq (items : list (K * V)) :
    S_apply mk_arg f items = res_map (combine (map fst items)) (seq_map f (map arg_of items)).
  Proof.
    induction items as [|[k v] t IH]; [reflexivity|].
    cbn [S_apply map seq_map fst]. unfold arg_of at 1. cbn [fst snd].
    destruct (f (mk_arg k v)) as [y|e]; [|reflexivity].
    rewrite IH. destruct (seq_map f (map arg_of t)); reflexivity.
  Qed.

  (* pool_eq_sequential *)
  Theorem apply_pool_eq_sequential kind k c pi (items : list (K * V)) :
    1 <= k -> (kind = Procs -> 1 <= c) ->
    M_apply_pool mk_arg f kind k c pi items = S_apply mk_arg f items.
  Proof.
    intros Hk Hc. unfold M_apply_pool, M_apply_pool_gen. rewrite arg_gen_eq.
    rewrite exec_map_eq_seq by assumption. symmetry. apply S_apply_as_seq.
  Qed.

  (* what the sequential form is, stated independently of the recursion *)
  Lemma S_apply_ok (items : list (K * V)) out : S_apply mk_arg f items = Ok out ->
    map fst out = map fst items /\
    length out = length items /\
    forall i kv, nth_error items i = Some kv ->
      exists y, f (arg_of kv) = Ok y /\ nth_error out i = Some (fst kv, y).
  Proof.
    rewrite S_apply_as_seq.
    destruct (seq_map f (map arg_of items)) as [ys|e] eqn:E; cbn; [|discriminate].
    intros H. injection H as <-.
    pose proof (seq_map_ok_length f _ _ E) as Hl. rewrite map_length in Hl.
    repeat split.
    - clear E. revert ys Hl. induction items as [|kv t IH]; intros [|y ys] Hl; cbn in *; try lia; try reflexivity.
      f_equal. apply IH. lia.
    - rewrite combine_length, map_length. lia.
    - intros i kv Hi.
      destruct (seq_map_ok_nth f _ _ E i (arg_of kv)) as (y & Hy & Hn).
      { rewrite nth_error_map, Hi. reflexivity. }
      exists y. split; [exact Hy|].
      clear E Hy. revert ys i Hl Hi Hn. induction items as [|kv0 t IH]; intros ys i Hl Hi Hn.
      + destruct i; discriminate.
      + destruct ys as [|y0 ys]; [cbn in Hl; lia|].
        destruct i as [|i]; cbn in *.
        * injection Hi as ->. injection Hn as ->. reflexivity.
        * eapply IH; eauto.
  Qed.

  (* keys_aligned: every result sits next to the key of the input it was computed from *)
  Theorem apply_pool_keys_aligned kind k c pi (items : list (K * V)) out :
    1 <= k -> (kind = Procs -> 1 <= c) ->
    M_apply_pool mk_arg f kind k c pi items = Ok out ->
    map fst out = map fst items /\
    length out = length items /\
    forall i kv, nth_error items i = Some kv ->
      exists y, f (arg_of kv) = Ok y /\ nth_error out i = Some (fst kv, y).
  Proof. intros Hk Hc. rewrite apply_pool_eq_sequential by assumption. apply S_apply_ok. Qed.

  (* failure_surfaces: one failing task anywhere => an error (the first one in input order), never a
     shorter or shifted result *)
  Theorem apply_pool_failure_surfaces kind k c pi (items : list (K * V)) :
    1 <= k -> (kind = Procs -> 1 <= c) ->
    (exists kv e, In kv items /\ f (arg_of kv) = Err e) ->
    exists pre kv post e, items = pre ++ kv :: post /\ f (arg_of kv) = Err e /\
      (forall p, In p pre -> exists y, f (arg_of p) = Ok y) /\
      M_apply_pool mk_arg f kind k c pi items = Err e.
  Proof.
    intros Hk Hc (kv & e & Hin & He).
    rewrite apply_pool_eq_sequential by assumption. rewrite S_apply_as_seq.
    destruct (seq_map f (map arg_of items)) as [ys|e1] eqn:E.
    - exfalso. apply In_nth_error in Hin as [i Hi].
      destruct (seq_map_ok_nth f _ _ E i (arg_of kv)) as (y & Hy & _).
      { rewrite nth_error_map, Hi. reflexivity. }
      congruence.
    - apply seq_map_err_first in E as (pre & x & post & Hsplit & Hx & Hpre).
      apply map_eq_app in Hsplit as (pre' & rest & -> & <- & Hrest).
      apply map_eq_cons in Hrest as (kv' & post' & -> & <- & <-).
      exists pre', kv', post', e1. repeat split; auto.
      intros p Hp. apply Hpre. apply in_map. exact Hp.
  Qed.

  Theorem apply_pool_all_ok kind k c pi (items : list (K * V)) :
    1 <= k -> (kind = Procs -> 1 <= c) ->
    (forall kv, In kv items -> exists y, f (arg_of kv) = Ok y) ->
    exists out, M_apply_pool mk_arg f kind k c pi items = Ok out.
  Proof.
    intros Hk Hc Hall. rewrite apply_pool_eq_sequential by assumption. rewrite S_apply_as_seq.
    destruct (seq_map_all_ok f (map arg_of items)) as [ys ->]; [|cbn; eauto].
    intros a Ha. apply in_map_iff in Ha as (kv & <- & Hkv). apply Hall. exact Hkv.
  Qed.

  (* the eager-consumption clause of the oracle is load-bearing: under a lazy map() the very same
     code returns the EMPTY result for every input -- silently *)
  Theorem apply_pool_lazy_map_loses_everything kind k c pi (items : list (K * V)) :
    1 <= k -> M_apply_pool_gen mk_arg f false kind k c pi items = Ok [].
  Proof.
    intros Hk. unfold M_apply_pool_gen. rewrite arg_gen_eq. replace (k <=? 0) with false by lia. reflexivity.
  Qed.
End ApplyPoolFacts.

(* ------------------------------------------------------------------ Batch *)
Section BatchFacts.
  Context {L F R : Type}.
  Variable f : (L * F) -> res R.
  Variable listed : string -> bool.

  Theorem batch_pool_eq_sequential kind k c pi (items : list (L * F)) :
    1 <= k -> (kind = Procs -> 1 <= c) ->
    M_batch_pool f kind k c pi items = S_batch_apply f items.
  Proof. intros. unfold M_batch_pool, S_batch_apply. apply apply_pool_eq_sequential; assumption. Qed.

  Lemma except_filter_spec (items : list (L * F)) :
    except_filter listed (combine (map fst items) (map f (map (arg_of (fun l x => (l, x))) items)))
    = S_batch_apply_except f listed items.
  Proof.
    induction items as [|[l x] t IH]; [reflexivity|].
    cbn [map combine fst S_batch_apply_except]. unfold arg_of at 1. cbn [fst snd].
    destruct (f (l, x)) as [y|e]; cbn [except_filter]; rewrite IH; reflexivity.
  Qed.

  Theorem batch_pool_except_eq_sequential accepted k pi (items : list (L * F)) :
    1 <= k ->
    M_batch_pool_except f listed accepted k accepted pi items = S_batch_apply_except f listed items.
  Proof.
    intros Hk. unfold M_batch_pool_except. rewrite Z.eqb_refl. cbn [negb].
    rewrite arg_gen_eq. rewrite exec_submit_all_eq by assumption.
    apply except_filter_spec.
  Qed.

  Theorem batch_pool_except_chunksize accepted k c pi (items : list (L * F)) :
    c <> accepted -> M_batch_pool_except f listed accepted k c pi items = Err "NotImplementedError".
  Proof. intros H. unfold M_batch_pool_except. replace (c =? accepted) with false by lia. reflexivity. Qed.

  (* except_skips_exactly_failing: when every raised exception is of the listed class, the result is
     exactly the successful items, in order, each with its own label -- nothing else disappears *)
  Fixpoint successes (items : list (L * F)) : list (L * R) :=
    match items with
    | [] => []
    | (l, x) :: t => match f (l, x) with Ok y => (l, y) :: successes t | Err _ => successes t end
    end.

  Theorem batch_pool_except_skips_exactly_failing accepted k pi (items : list (L * F)) :
    1 <= k ->
    (forall p e, In p items -> f p = Err e -> listed e = true) ->
    M_batch_pool_except f listed accepted k accepted pi items = Ok (successes items).
  Proof.
    intros Hk Hall. rewrite batch_pool_except_eq_sequential by assumption.
    induction items as [|[l x] t IH]; [reflexivity|].
    cbn [S_batch_apply_except successes].
    destruct (f (l, x)) as [y|e] eqn:E.
    - rewrite IH; [reflexivity|]. intros p e Hp. apply Hall. right. exact Hp.
    - rewrite (Hall (l, x) e (or_introl eq_refl) E). apply IH. intros p e' Hp. apply Hall. right. exact Hp.
  Qed.

  (* an exception outside the listed class is never swallowed *)
  Theorem batch_pool_except_unlisted_surfaces accepted k pi (items : list (L * F)) p e :
    1 <= k -> In p items -> f p = Err e -> listed e = false ->
    exists e', M_batch_pool_except f listed accepted k accepted pi items = Err e' /\ listed e' = false.
  Proof.
    intros Hk Hin He Hl. rewrite batch_pool_except_eq_sequential by assumption.
    induction items as [|[l x] t IH]; [destruct Hin|].
    cbn [S_batch_apply_except].
    destruct (f (l, x)) as [y|e0] eqn:E.
    - destruct Hin as [<-|Hin]; [congruence|].
      destruct (IH Hin) as (e' & -> & Hl'). eauto.
    - destruct (listed e0) eqn:El.
      + destruct Hin as [<-|Hin]; [congruence|]. apply IH. exact Hin.
      + eauto.
  Qed.
End BatchFacts.

(* ------------------------------------------------------------------ FRAME_ELEMENTS constructor *)
Section CtorElementsFacts.
  Context {K B : Type}.
  Variable keqb : K -> K -> bool.
  Hypothesis keqb_spec : forall a b, keqb a b = true <-> a = b.
  Variable outer_of : K * K -> K.
  Variable mk_key : K -> K -> K * K.
  Hypothesis outer_mk : forall o i, outer_of (mk_key o i) = o.

  Definition row_items (o : K) (inner : list K) (row : list B) : list ((K * K) * B) :=
    map (fun ib => (mk_key o (fst ib), snd ib)) (combine inner row).

  Lemma keqb_refl a : keqb a a = true.
  Proof. apply keqb_spec. reflexivity. Qed.

  Lemma keqb_neq a b : a <> b -> keqb a b = false.
  Proof. intros H. destruct (keqb a b) eqn:E; [apply keqb_spec in E; contradiction|reflexivity]. Qed.

  (* the items of one row all carry the row's outer key: they extend the current record *)
  Lemma records_from_row cur (acc : list B) (inner : list K) (row : list B) rest : length row = length inner ->
    records_from keqb outer_of cur acc (row_items cur inner row ++ rest)
    = records_from keqb outer_of cur (rev row ++ acc) rest.
  Proof.
    revert acc row; induction inner as [|i inner IH]; intros acc [|v row] Hl; cbn in Hl; try lia; [reflexivity|].
    unfold row_items. cbn [combine map app records_from fst snd].
    rewrite outer_mk, keqb_refl. fold (row_items cur inner row).
    rewrite IH by lia. cbn [rev]. rewrite <- app_assoc. reflexivity.
  Qed.

  Lemma relabel_cons o os inner (r : list B) rs :
    relabel mk_key (o :: os) inner (r :: rs) = row_items o inner r ++ relabel mk_key os inner rs.
  Proof. reflexivity. Qed.

  (* run segmentation recovers exactly the rows of a stream delivered in container order *)
  Lemma records_from_stream cur (acc : list B) (os inner : list K) (rs : list (list B)) :
    inner <> [] -> ~ In cur os -> NoDup os -> length rs = length os ->
    Forall (fun r => length r = length inner) rs ->
    records_from keqb outer_of cur acc (relabel mk_key os inner rs) = rev acc :: rs.
  Proof.
    intros Hin. revert cur acc rs; induction os as [|o os IH]; intros cur acc [|r rs] Hnot Hnd Hl Hall; cbn in Hl; try lia.
    - reflexivity.
    - rewrite relabel_cons. inversion Hall as [|? ? Hr Hrs]; subst. inversion Hnd as [|? ? Ho Hnd']; subst.
      destruct inner as [|i inner]; [contradiction|]. destruct r as [|v r]; [cbn in Hr; lia|].
      unfold row_items at 1. cbn [combine map app records_from fst snd].
      rewrite outer_mk. rewrite keqb_neq by (intros ->; apply Hnot; left; reflexivity).
      fold (row_items o inner r). f_equal.
      rewrite records_from_row by (cbn in Hr; lia).
      rewrite IH; [|exact Ho|exact Hnd'|lia|exact Hrs].
      rewrite rev_app_distr, rev_involutive. reflexivity.
  Qed.

  Theorem ctor_elements_container_order (outer inner : list K) (recs : list (list B)) :
    outer <> [] -> inner <> [] -> NoDup outer -> length recs = length outer ->
    Forall (fun r => length r = length inner) recs ->
    ctor_elements keqb outer_of mk_key outer inner (relabel mk_key outer inner recs)
    = Ok (relabel mk_key outer inner recs).
  Proof.
    intros Ho Hi Hnd Hl Hall. unfold ctor_elements.
    destruct outer as [|o os]; [contradiction|]. destruct recs as [|r rs]; [cbn in Hl; lia|].
    inversion Hall as [|? ? Hr Hrs]; subst. inversion Hnd as [|? ? Hnot Hnd']; subst.
    destruct inner as [|i inner]; [contradiction|]. destruct r as [|v r]; [cbn in Hr; lia|].
    assert (Hrec : records keqb outer_of (relabel mk_key (o :: os) (i :: inner) ((v :: r) :: rs)) = Ok ((v :: r) :: rs)).
    { rewrite relabel_cons. unfold row_items at 1. cbn [combine map app records fst snd].
      rewrite outer_mk. f_equal. fold (row_items o inner r).
      rewrite records_from_row by (cbn in Hr; lia).
      rewrite records_from_stream; [|discriminate|exact Hnot|exact Hnd'|cbn in Hl; lia|exact Hrs].
      rewrite rev_app_distr, rev_involutive. reflexivity. }
    rewrite Hrec.
    replace (Nat.eqb (length ((v :: r) :: rs)) (length (o :: os))) with true by (symmetry; apply Nat.eqb_eq; exact Hl).
    replace (forallb (fun r0 => Nat.eqb (length r0) (length (i :: inner))) ((v :: r) :: rs)) with true; [reflexivity|].
    symmetry. apply forallb_forall. intros x Hx. apply Nat.eqb_eq.
    rewrite Forall_forall in Hall. apply Hall. exact Hx.
  Qed.
End CtorElementsFacts.
