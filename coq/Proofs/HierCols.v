(* Table views computed from the tree: values_at_depth (through label widths, i.e. through the stored
   offsets) and the `_blocks` cache equal the columns of the tuple sequence. *)
Require Import SF.Prelude SF.Hier Proofs.HierBfs Proofs.HierViews.

Section Cols.
  Variable A : Type.
  Notation level := (level A).

  (* ---- the *_at_depth deque walks yield, in depth-first order, what `emit` gives at relative depth d *)
  Section AtDepth.
    Variable R : Type.
    Variable emit : level -> list R.

    Fixpoint at_level (n : nat) (t : level) : list R :=
      match n with
      | O => emit t
      | S n' => match t with Leaf _ _ => [] | Node _ _ ks => flat_map (at_level n') ks end
      end.

    Variable d : nat.
    Definition ad_ht (x : level * nat) : nat := (d - snd x)%nat.
    Definition ad_P (x : level * nat) : Prop := (snd x <= d)%nat.
    Notation astep := (at_depth_step emit d).

    Lemma ad_H0 : forall x, ad_P x -> ad_ht x = O -> snd (astep x) = [].
    Proof.
      intros [t dd] HP H. unfold ad_P, ad_ht in *. cbn [snd] in *. unfold at_depth_step. cbn [fst snd].
      replace (Nat.eqb dd d) with true by (symmetry; apply Nat.eqb_eq; lia). reflexivity.
    Qed.

    Lemma ad_HS : forall x h, ad_P x -> ad_ht x = S h -> Forall (fun k => ad_P k /\ ad_ht k = h) (snd (astep x)).
    Proof.
      intros [t dd] h HP H. unfold ad_P, ad_ht in *. cbn [snd] in *. unfold at_depth_step. cbn [fst snd].
      replace (Nat.eqb dd d) with false by (symmetry; apply Nat.eqb_neq; lia).
      destruct t as [o ls|o ls ks]; cbn [snd]; [constructor|].
      apply Forall_forall. intros [k dd'] Hin. apply in_map_iff in Hin as (k' & E & _). injection E as -> <-.
      unfold ad_P, ad_ht. cbn [snd]. lia.
    Qed.

    Lemma ad_silent : forall x h, ad_P x -> ad_ht x = S h -> fst (astep x) = [].
    Proof.
      intros [t dd] h HP H. unfold ad_P, ad_ht in *. cbn [snd] in *. unfold at_depth_step. cbn [fst snd].
      replace (Nat.eqb dd d) with false by (symmetry; apply Nat.eqb_neq; lia).
      destruct t; reflexivity.
    Qed.

    Lemma fmm {X Y W} (g : X -> Y) (f : Y -> list W) l : flat_map f (map g l) = flat_map (fun x => f (g x)) l.
    Proof. induction l as [|x l IH]; [reflexivity|]. cbn. rewrite IH. reflexivity. Qed.

    Lemma astep_hit t dd : Nat.eqb dd d = true -> astep (t, dd) = (emit t, []).
    Proof. intro H. unfold at_depth_step. cbn [fst snd]. rewrite H. reflexivity. Qed.
    Lemma astep_leaf o ls dd : Nat.eqb dd d = false -> astep (Leaf o ls, dd) = ([], []).
    Proof. intro H. unfold at_depth_step. cbn [fst snd]. rewrite H. reflexivity. Qed.
    Lemma astep_node o ls ks dd : Nat.eqb dd d = false -> astep (Node o ls ks, dd) = ([], map (fun k => (k, S dd)) ks).
    Proof. intro H. unfold at_depth_step. cbn [fst snd]. rewrite H. reflexivity. Qed.

    Lemma ad_dfs : forall n (t : level) dd, (dd + n = d)%nat -> dfs _ _ astep n (t, dd) = at_level n t.
    Proof.
      induction n as [|n IH]; intros t dd H.
      - cbn [dfs at_level]. rewrite astep_hit by (apply Nat.eqb_eq; lia). reflexivity.
      - rewrite dfs_S. cbn [at_level].
        assert (E : Nat.eqb dd d = false) by (apply Nat.eqb_neq; lia).
        destruct t as [o ls|o ls ks].
        + rewrite astep_leaf by exact E. reflexivity.
        + rewrite astep_node by exact E. cbn [fst snd app].
          rewrite fmm. apply flat_map_ext. intro k. apply IH. lia.
    Qed.

    Theorem walk_at_depth_exact : forall t : level, walk_at_depth emit t d = Ok (at_level d t).
    Proof.
      intro t. unfold walk_at_depth.
      rewrite (bfs_dfs _ _ astep ad_ht ad_P ad_H0 ad_HS d).
      - cbn [flat_map]. rewrite app_nil_r, ad_dfs by lia. reflexivity.
      - exact ad_silent.
      - constructor; [|constructor]. unfold ad_P, ad_ht. cbn [snd]. split; lia.
      - cbn [map]. rewrite list_sum_cons. change (list_sum []) with O. lia.
    Qed.
  End AtDepth.

  (* ---- columns of the flattening *)
  Lemma S_column_app (a b : list (list A)) d : S_column (a ++ b) d = S_column a d ++ S_column b d.
  Proof. unfold S_column. apply flat_map_app. Qed.

  Lemma S_column_cons_S (l : A) (rows : list (list A)) d : S_column (map (cons l) rows) (S d) = S_column rows d.
  Proof.
    unfold S_column. induction rows as [|r rows IH]; [reflexivity|]. cbn [map flat_map].
    change (nth_error (l :: r) (S d)) with (nth_error r d). rewrite IH. reflexivity.
  Qed.

  Lemma S_column_cons_O (l : A) (rows : list (list A)) : S_column (map (cons l) rows) 0 = repeat l (length rows).
  Proof.
    unfold S_column. induction rows as [|r rows IH]; [reflexivity|]. cbn [map flat_map length repeat].
    change (nth_error (l :: r) 0) with (Some l). cbn [app]. rewrite IH. reflexivity.
  Qed.

  Lemma S_column_fz_S : forall (ks : list level) (ls : list A) d, length ls = length ks ->
    S_column (fz A ks ls) (S d) = flat_map (fun k => S_column (flatten k) d) ks.
  Proof.
    induction ks as [|k ks IH]; intros ls d Hlen; [destruct ls; reflexivity|].
    destruct ls as [|l ls]; [discriminate|]. cbn [fz flat_map]. rewrite S_column_app, S_column_cons_S, IH by (cbn in Hlen; lia).
    reflexivity.
  Qed.

  Lemma S_column_singletons_O : forall ls : list A, S_column (map (fun l => [l]) ls) 0 = ls.
  Proof.
    unfold S_column. induction ls as [|l ls IH]; [reflexivity|]. cbn [map flat_map].
    change (nth_error [l] 0) with (Some l). cbn [app]. f_equal. exact IH.
  Qed.

  Lemma S_column_singletons_S : forall (ls : list A) d, S_column (map (fun l => [l]) ls) (S d) = [].
  Proof.
    unfold S_column. intros ls d. induction ls as [|l ls IH]; [reflexivity|]. cbn [map flat_map].
    change (nth_error [l] (S d)) with (nth_error (@nil A) d). destruct d; cbn [nth_error app]; exact IH.
  Qed.

  (* ---- innermost depth: concatenation of the leaf index arrays *)
  Lemma leaf_arrays : forall (t : level) h, uniform h t = true ->
    concat (at_level _ (fun n => [lv_labels n]) h t) = S_column (flatten t) h.
  Proof.
    induction t as [o ls|o ls ks IH] using level_ind'; intros h Hu.
    - apply uniform_leaf in Hu as [-> _]. cbn [at_level concat lv_labels flatten]. rewrite app_nil_r.
      symmetry. apply S_column_singletons_O.
    - apply uniform_node in Hu as (h' & -> & Hlen & _ & Hk). cbn [at_level]. rewrite flatten_node, S_column_fz_S by exact Hlen.
      clear Hlen. induction ks as [|k ks IHks]; [reflexivity|]. inversion IH; subst. inversion Hk; subst.
      cbn [flat_map]. rewrite concat_app, (H1 h' H3), IHks by assumption. reflexivity.
  Qed.

  (* ---- outer depths: label widths derived from the offsets of the next sibling *)
  Definition expand (ws : list (A * Z)) : list A := flat_map (fun lw => repeat (fst lw) (Z.to_nat (snd lw))) ws.

  Lemma expand_ones : forall ls : list A, expand (map (fun l => (l, 1)) ls) = ls.
  Proof.
    unfold expand. induction ls as [|l ls IH]; [reflexivity|]. cbn [map flat_map fst snd].
    change (Z.to_nat 1) with 1%nat. cbn [repeat app]. f_equal. exact IH.
  Qed.

  Lemma widths_go_ok : forall (ks : list level) (ls : list A) c,
    length ls = length ks -> offsets_from c ks = true ->
    widths_go ls ks c = combine ls (map lv_len ks).
  Proof.
    induction ks as [|k ks IH]; intros ls c Hlen Ho; [destruct ls; reflexivity|].
    destruct ls as [|l ls]; [discriminate|]. cbn [offsets_from] in Ho. apply andb_true_iff in Ho as [Ho1 Ho2].
    apply Z.eqb_eq in Ho1. cbn [widths_go map combine]. destruct ks as [|k2 ks].
    - destruct ls; [reflexivity|discriminate].
    - pose proof Ho2 as Ho2'. cbn [offsets_from] in Ho2'. apply andb_true_iff in Ho2' as [Hk2 _]. apply Z.eqb_eq in Hk2.
      assert (D : (if lv_off k2 >? 0 then lv_off k2 - c else lv_len k) = lv_len k).
      { destruct (lv_off k2 >? 0); lia. }
      rewrite D. f_equal. apply IH; [cbn in Hlen |- *; lia|exact Ho2].
  Qed.

  Lemma expand_widths_node : forall (ks : list level) (ls : list A) h, length ls = length ks ->
    Forall (fun k => uniform h k = true) ks ->
    expand (combine ls (map lv_len ks)) = S_column (fz A ks ls) 0.
  Proof.
    induction ks as [|k ks IH]; intros ls h Hlen Hk; [destruct ls; reflexivity|].
    destruct ls as [|l ls]; [discriminate|]. inversion Hk; subst.
    unfold expand in *. cbn [map combine flat_map fst snd fz]. rewrite S_column_app, S_column_cons_O.
    rewrite (lv_len_flatten _ _ _ H1). unfold zlen. rewrite Nat2Z.id. f_equal.
    apply (IH ls h); [cbn in Hlen; lia|assumption].
  Qed.

  Lemma widths_exact : forall d (t : level) h, uniform h t = true -> offsets_ok t = true ->
    expand (at_level _ get_widths d t) = S_column (flatten t) d.
  Proof.
    induction d as [|d IHd]; intros t h Hu Ho.
    - cbn [at_level]. destruct t as [o ls|o ls ks].
      + cbn [get_widths flatten]. rewrite S_column_singletons_O. apply expand_ones.
      + apply uniform_node in Hu as (h' & -> & Hlen & _ & Hk).
        cbn [offsets_ok] in Ho. apply andb_true_iff in Ho as [Ho1 _].
        cbn [get_widths]. rewrite (widths_go_ok ks ls 0 Hlen Ho1), flatten_node.
        apply (expand_widths_node ks ls h' Hlen Hk).
    - cbn [at_level]. destruct t as [o ls|o ls ks].
      + cbn [flatten]. rewrite S_column_singletons_S. reflexivity.
      + apply uniform_node in Hu as (h' & -> & Hlen & _ & Hk).
        cbn [offsets_ok] in Ho. apply andb_true_iff in Ho as [_ Ho2].
        rewrite flatten_node, S_column_fz_S by exact Hlen. clear Hlen.
        induction ks as [|k ks IHks]; [reflexivity|]. inversion Hk; subst.
        cbn [forallb] in Ho2. apply andb_true_iff in Ho2 as [Hok Ho2].
        cbn [flat_map]. unfold expand in *. rewrite flat_map_app. rewrite (IHd k h' H1 Hok). f_equal.
        apply IHks; assumption.
  Qed.

  Theorem values_at_depth_exact : forall (t : level) h d, uniform h t = true -> offsets_ok t = true ->
    M_values_at_depth t d = Ok (S_column (flatten t) d).
  Proof.
    intros t h d Hu Ho. unfold M_values_at_depth. rewrite (uniform_depth _ _ _ Hu).
    destruct (Nat.eqb (S d) (S h)) eqn:E.
    - apply Nat.eqb_eq in E. injection E as ->. rewrite walk_at_depth_exact. f_equal. apply leaf_arrays, Hu.
    - unfold M_widths. rewrite walk_at_depth_exact. f_equal. apply (widths_exact d t h Hu Ho).
  Qed.

  (* labels_at_depth (iter_label before the table is built): the same widths, expanded in place *)
  Lemma at_level_labels : forall d (t : level), at_level _ get_labels d t = expand (at_level _ get_widths d t).
  Proof.
    induction d as [|d IH]; intro t; [reflexivity|]. cbn [at_level]. destruct t as [o ls|o ls ks]; [reflexivity|].
    unfold expand. rewrite flat_map_flat_map. apply flat_map_ext. intro k. apply IH.
  Qed.

  Theorem labels_at_depth_exact : forall (t : level) h d, uniform h t = true -> offsets_ok t = true ->
    M_labels_at_depth t d = Ok (S_column (flatten t) d).
  Proof.
    intros t h d Hu Ho. unfold M_labels_at_depth. rewrite walk_at_depth_exact, at_level_labels.
    f_equal. apply (widths_exact d t h Hu Ho).
  Qed.

  Lemma res_all_ok {B C} (f : B -> res C) (g : B -> C) : forall l, (forall x, In x l -> f x = Ok (g x)) ->
    res_all (map f l) = Ok (map g l).
  Proof.
    induction l as [|x l IH]; intro H; [reflexivity|]. cbn [map res_all].
    rewrite (H x (or_introl eq_refl)), IH by (intros y Hy; apply H; right; exact Hy). reflexivity.
  Qed.

  (* the `_blocks` cache content *)
  Theorem blocks_exact : forall (t : level) h, uniform h t = true -> offsets_ok t = true ->
    M_blocks t = Ok (map (S_column (flatten t)) (seq 0 (S h))).
  Proof.
    intros t h Hu Ho. unfold M_blocks. rewrite (uniform_depth _ _ _ Hu).
    apply res_all_ok. intros d _. apply (values_at_depth_exact t h d Hu Ho).
  Qed.
End Cols.
