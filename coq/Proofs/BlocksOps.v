(* C03: refinement of the block-walking operations of SF/BlocksOps.v to their specifications on the
   flattened column list, for EVERY block layout.  Part 1: read routes through the directory, per-block
   cellwise maps, consolidation, append/extend. *)
Require Import SF.Prelude SF.PySlice SF.Dtype SF.Blocks SF.BlocksOps Proofs.SliceFacts Proofs.BlocksSelect.

(* ---------- dtype_eqb decides equality ---------- *)
Lemma tunit_eqb_eq a b : tunit_eqb a b = true -> a = b.
Proof. destruct a, b; cbn; intros H; try reflexivity; discriminate. Qed.

Lemma dtype_eqb_eq a b : dtype_eqb a b = true -> a = b.
Proof.
  destruct a, b; cbn; intros H; try reflexivity; try discriminate.
  - apply andb_true_iff in H as [H1 H2]. apply Bool.eqb_prop in H1. apply Z.eqb_eq in H2. congruence.
  - apply Z.eqb_eq in H. congruence.
  - apply Z.eqb_eq in H. congruence.
  - apply Z.eqb_eq in H. congruence.
  - apply Z.eqb_eq in H. congruence.
  - apply tunit_eqb_eq in H. congruence.
  - apply tunit_eqb_eq in H. congruence.
Qed.

Lemma dtype_eqb_refl a : dtype_eqb a a = true.
Proof.
  destruct a; cbn; rewrite ?Bool.eqb_reflx, ?Z.eqb_refl; try reflexivity; unfold tunit_eqb; apply Z.eqb_refl.
Qed.

Lemma dtype_eqb_neq a b : dtype_eqb a b = false -> a <> b.
Proof. intros H E. subst. rewrite dtype_eqb_refl in H. discriminate. Qed.

Section OpsProofs.
Context {A : Type}.
Notation block := (block A).
Notation tb := (tb A).
Notation column := (dtype * list A)%type.

(* ---------- generic ---------- *)
Lemma res_all_app {X} (l1 l2 : list (res X)) :
  res_all (l1 ++ l2) = match res_all l1 with
                       | Err e => Err e
                       | Ok a => match res_all l2 with Err e => Err e | Ok b => Ok (a ++ b) end
                       end.
Proof.
  induction l1 as [|r l1 IH]; cbn.
  - destruct (res_all l2); reflexivity.
  - destruct r as [a|e]; [|reflexivity]. rewrite IH.
    destruct (res_all l1); [|reflexivity]. destruct (res_all l2); reflexivity.
Qed.

Lemma res_all_map_Ok {X Y} (f : X -> Y) (l : list X) : res_all (map (fun x => Ok (f x)) l) = Ok (map f l).
Proof. induction l as [|x l IH]; cbn; [reflexivity|]. rewrite IH. reflexivity. Qed.

Lemma flatten_cons (b : block) (t : tb) : flatten (b :: t) = block_columns b ++ flatten t.
Proof. reflexivity. Qed.

Lemma flatten_app (t1 t2 : tb) : flatten (t1 ++ t2) = flatten t1 ++ flatten t2.
Proof. unfold flatten. apply flat_map_app. Qed.

Lemma block_columns_length (b : block) : length (block_columns b) = length (b_cols b).
Proof. unfold block_columns. apply map_length. Qed.

(* =============================== 2. per-block cellwise maps =============================== *)
Lemma map_block_columns {B} (f : cellfun B) (b : block) : wf_block b ->
  res_map (@block_columns B) (map_block f b) = res_all (map (map_column f) (block_columns b)).
Proof.
  intros [Hw _]. unfold map_block, block_columns, map_column.
  rewrite map_map. cbn [fst snd].
  destruct (f (b_dtype b)) as [[d g]|e] eqn:Ef.
  - cbn [res_map b_dtype b_cols]. rewrite map_map.
    rewrite (res_all_map_Ok (fun x => (d, map g x))). reflexivity.
  - cbn [res_map]. destruct (b_cols b) as [|c cs]; [cbn in Hw; lia|]. reflexivity.
Qed.

Lemma res_all_length {X} (l : list (res X)) out : res_all l = Ok out -> length out = length l.
Proof.
  revert out. induction l as [|r l IH]; intros out H; cbn in H.
  - injection H as <-. reflexivity.
  - destruct r as [a|e]; [|discriminate]. destruct (res_all l) as [xs|e]; [|discriminate].
    injection H as <-. cbn. f_equal. apply IH. reflexivity.
Qed.

Lemma map_blocks_gen {B} (f : cellfun B) (t : tb) : t <> [] ->
  M_map_blocks f t = res_all (map (map_block f) t).
Proof.
  intros Hne. unfold M_map_blocks. destruct (res_all (map (map_block f) t)) as [bs|e] eqn:E; [|reflexivity].
  apply res_all_length in E. rewrite map_length in E.
  destruct bs as [|b bs]; [|reflexivity]. destruct t; [congruence|discriminate].
Qed.

Theorem map_blocks_refines {B} (f : cellfun B) (t : tb) : wf_tb t -> t <> [] ->
  res_map (@flatten B) (M_map_blocks f t) = S_map_columns f (flatten t).
Proof.
  intros Hwf Hne. rewrite (map_blocks_gen f t Hne). clear Hne.
  unfold S_map_columns. induction Hwf as [|b t Hb _ IH]; [reflexivity|].
  rewrite flatten_cons, map_app, res_all_app. rewrite <- (map_block_columns f b Hb), <- IH.
  cbn [map res_all]. destruct (map_block f b) as [b'|e]; [|reflexivity]. cbn [res_map].
  destruct (res_all (map (map_block f) t)) as [t'|e]; reflexivity.
Qed.

(* the result has the block shape of the input: same widths, same dimensionalities *)
Lemma map_blocks_shape {B} (f : cellfun B) (t : tb) t' : M_map_blocks f t = Ok t' ->
  map (fun b => (b_1d b, length (b_cols b))) t' = map (fun b => (b_1d b, length (b_cols b))) t.
Proof.
  unfold M_map_blocks. destruct (res_all (map (map_block f) t)) as [bs|e] eqn:E; [|discriminate].
  intros H. assert (bs = t') by (destruct bs; [discriminate|injection H as <-; reflexivity]). subst bs. clear H.
  revert t' E. induction t as [|b t IH]; intros t' H; cbn in H.
  - injection H as <-. reflexivity.
  - unfold map_block in H at 1. destruct (f (b_dtype b)) as [[d g]|e]; [|discriminate].
    destruct (res_all (map (map_block f) t)) as [r|e]; [|discriminate]. injection H as <-.
    cbn. rewrite map_length. f_equal. apply IH. reflexivity.
Qed.

Corollary map_blocks_layout_independent {B} (f : cellfun B) (t1 t2 : tb) : wf_tb t1 -> wf_tb t2 ->
  flatten t1 = flatten t2 ->
  res_map (@flatten B) (M_map_blocks f t1) = res_map (@flatten B) (M_map_blocks f t2).
Proof.
  intros H1 H2 E. destruct t1 as [|b1 r1], t2 as [|b2 r2]; [reflexivity| | |].
  - exfalso. inversion H2 as [|? ? [Hw _] _]; subst. rewrite flatten_cons in E.
    destruct (b_cols b2) eqn:Ec; [cbn in Hw; lia|]. unfold block_columns in E. rewrite Ec in E. discriminate.
  - exfalso. inversion H1 as [|? ? [Hw _] _]; subst. rewrite flatten_cons in E.
    destruct (b_cols b1) eqn:Ec; [cbn in Hw; lia|]. unfold block_columns in E. rewrite Ec in E. discriminate.
  - rewrite !map_blocks_refines by (assumption || discriminate). now rewrite E.
Qed.

(* =============================== 1. read routes through the directory =============================== *)
Lemma dir_column_col_at (t : tb) bi j b : nth_z t bi = Some b -> wf_block b -> 0 <= j < width b ->
  dir_column t (bi, j) = col_at t bi j.
Proof.
  intros Hb [Hw H1] Hj. unfold dir_column, col_at, block_column. cbn [fst snd]. rewrite Hb.
  destruct (b_1d b) eqn:E1; [|reflexivity].
  specialize (H1 eq_refl). unfold width in Hj. rewrite H1 in Hj. replace j with 0 by lia. reflexivity.
Qed.

Lemma nth_z_In {B} (l : list B) i x : nth_z l i = Some x -> In x l.
Proof. unfold nth_z. destruct (i <? 0); [discriminate|]. apply nth_error_In. Qed.

(* position p of the directory reads column p of the flattened view *)
Lemma dir_column_spec (t : tb) p q : wf_tb t -> nth_z (tb_index t) p = Some q ->
  dir_column t q = nth_z (flatten t) p.
Proof.
  intros Hwf H. destruct q as [bi j].
  destruct (index_from_spec t 0 p bi j ltac:(lia) H) as (_ & Hf & b & Hb & Hj).
  rewrite Z.sub_0_r in *. rewrite Hf. apply dir_column_col_at with b; try assumption.
  unfold wf_tb in Hwf. rewrite Forall_forall in Hwf. apply Hwf. eapply nth_z_In; eassumption.
Qed.

Lemma nth_z_seq_all {B} (l : list B) : map (nth_z l) (map Z.of_nat (seq 0 (length l))) = map Some l.
Proof.
  pose proof (take_positions_all l) as H. apply take_positions_Some in H. exact H.
Qed.

Lemma map_nth_self {B} (l : list B) : map (fun x => x) l = l.
Proof. apply map_id. Qed.

Lemma list_eq_nth_z {B} (l1 l2 : list B) : length l1 = length l2 ->
  (forall p, 0 <= p < Z.of_nat (length l1) -> nth_z l1 p = nth_z l2 p) -> l1 = l2.
Proof.
  revert l2. induction l1 as [|x l1 IH]; intros [|y l2] Hl Hn; try discriminate; [reflexivity|].
  cbn in Hl. injection Hl as Hl.
  pose proof (Hn 0 ltac:(cbn [length]; lia)) as H0. cbn in H0. injection H0 as ->. f_equal.
  apply IH; [assumption|]. intros p Hp. specialize (Hn (p + 1) ltac:(cbn [length]; lia)).
  unfold nth_z in *. replace (p + 1 <? 0) with false in Hn by lia. replace (p <? 0) with false by lia.
  replace (Z.to_nat (p + 1)) with (S (Z.to_nat p)) in Hn by lia. exact Hn.
Qed.

Lemma nth_z_map {B C} (f : B -> C) (l : list B) p : nth_z (map f l) p = option_map f (nth_z l p).
Proof.
  unfold nth_z. destruct (p <? 0); [reflexivity|]. rewrite nth_error_map. reflexivity.
Qed.

Lemma map_dir_column_index (t : tb) : wf_tb t -> map (dir_column t) (tb_index t) = map Some (flatten t).
Proof.
  intros Hwf. apply list_eq_nth_z.
  - rewrite !map_length. unfold tb_index. apply index_from_length.
  - intros p Hp. rewrite map_length in Hp. rewrite !nth_z_map.
    destruct (nth_z (tb_index t) p) as [q|] eqn:Eq.
    + cbn [option_map]. rewrite (dir_column_spec t p q Hwf Eq).
      destruct (nth_z (flatten t) p) as [c|] eqn:Ec; [reflexivity|].
      exfalso. unfold nth_z in Ec. replace (p <? 0) with false in Ec by lia.
      apply nth_error_None in Ec. unfold tb_index in Hp. rewrite index_from_length in Hp. lia.
    + exfalso. unfold nth_z in Eq. replace (p <? 0) with false in Eq by lia.
      apply nth_error_None in Eq. lia.
Qed.

Theorem axis_values0_refines (t : tb) (reverse : bool) : wf_tb t ->
  M_axis_values0 t reverse = Some (S_axis_values0 (flatten t) reverse).
Proof.
  intros Hwf. unfold M_axis_values0, S_axis_values0. apply opt_all_Some.
  destruct reverse; [|apply map_dir_column_index; assumption].
  rewrite !map_rev. f_equal. apply map_dir_column_index. assumption.
Qed.

Theorem column_refines (t : tb) (j : Z) : wf_tb t -> M_column t j = S_column (flatten t) j.
Proof.
  intros Hwf. unfold M_column, S_column.
  assert (Hl : length (tb_index t) = length (flatten t)) by apply index_from_length.
  unfold py_nth. rewrite Hl.
  destruct (norm_index j (Z.of_nat (length (flatten t)))) as [k|] eqn:Ek; [|reflexivity].
  destruct (nth_z (tb_index t) k) as [q|] eqn:Eq.
  - rewrite (dir_column_spec t k q Hwf Eq). destruct (nth_z (flatten t) k) as [c|] eqn:Ec; [reflexivity|].
    exfalso. apply nth_z_Some in Eq. unfold nth_z in Ec. replace (k <? 0) with false in Ec by lia.
    apply nth_error_None in Ec. lia.
  - destruct (nth_z (flatten t) k) as [c|] eqn:Ec; [|reflexivity].
    exfalso. apply nth_z_Some in Ec. unfold nth_z in Eq. replace (k <? 0) with false in Eq by lia.
    apply nth_error_None in Eq. lia.
Qed.

Theorem element_refines (t : tb) (i j : Z) : wf_tb t -> M_element t i j = S_element (flatten t) i j.
Proof.
  intros Hwf. unfold M_element, S_element. rewrite (column_refines t j Hwf). unfold S_column.
  destruct (py_nth (flatten t) j) as [[d c]|]; reflexivity.
Qed.

(* _dtypes and _shape[1] describe the flattened view *)
Lemma tb_dtypes_spec (t : tb) : tb_dtypes t = map fst (flatten t).
Proof.
  induction t as [|b t IH]; [reflexivity|]. cbn [tb_dtypes]. rewrite flatten_cons, map_app, IH. f_equal.
  unfold block_columns. rewrite map_map. cbn [fst]. induction (b_cols b); cbn; congruence.
Qed.

Lemma tb_column_count_spec (t : tb) : tb_column_count t = Z.of_nat (length (flatten t)).
Proof.
  induction t as [|b t IH]; [reflexivity|]. cbn [tb_column_count]. rewrite flatten_cons, app_length, block_columns_length, IH.
  unfold width. lia.
Qed.

(* =============================== 3. consolidation =============================== *)
Lemma emit_group_columns gd (g : list block) : g <> [] -> Forall (fun b => b_dtype b = gd) g ->
  block_columns (emit_group gd g) = flatten g.
Proof.
  intros Hne Hd. destruct g as [|b [|b2 g]]; [congruence| |].
  - cbn. now rewrite app_nil_r.
  - unfold emit_group, concat_group, block_columns. cbn [b_dtype b_cols].
    remember (b :: b2 :: g) as G eqn:EG. clear EG Hne. induction Hd as [|x G Hx _ IH]; [reflexivity|].
    cbn [flat_map]. rewrite map_app, IH. unfold flatten. cbn [flat_map]. unfold block_columns at 2. now rewrite Hx.
Qed.

Lemma consolidate_go_flatten (rest : tb) : forall gd grev, grev <> [] -> Forall (fun b => b_dtype b = gd) grev ->
  flatten (consolidate_go gd grev rest) = flatten (rev grev) ++ flatten rest.
Proof.
  induction rest as [|b r IH]; intros gd grev Hne Hd; cbn [consolidate_go].
  - rewrite flatten_cons. cbn [flatten flat_map]. rewrite !app_nil_r. apply emit_group_columns.
    + intros E. apply (f_equal (@rev block)) in E. rewrite rev_involutive in E. cbn in E. congruence.
    + apply Forall_rev. assumption.
  - destruct (dtype_eqb (b_dtype b) gd) eqn:Ed.
    + apply dtype_eqb_eq in Ed. rewrite IH; [|discriminate|constructor; assumption].
      cbn [rev]. rewrite flatten_app, flatten_cons. cbn [flatten flat_map]. rewrite app_nil_r, <- app_assoc. reflexivity.
    + rewrite flatten_cons, IH; [|discriminate|constructor; [reflexivity|constructor]].
      rewrite emit_group_columns.
      * cbn [rev app]. rewrite (flatten_cons b r). cbn [flatten flat_map]. rewrite app_nil_r. reflexivity.
      * intros E. apply (f_equal (@rev block)) in E. rewrite rev_involutive in E. cbn in E. congruence.
      * apply Forall_rev. assumption.
Qed.

Theorem consolidate_flatten (t : tb) : flatten (consolidate_blocks t) = flatten t.
Proof.
  destruct t as [|b r]; [reflexivity|]. unfold consolidate_blocks.
  rewrite consolidate_go_flatten; [|discriminate|constructor; [reflexivity|constructor]].
  cbn [rev app]. rewrite (flatten_cons b r). cbn [flatten flat_map]. now rewrite app_nil_r.
Qed.

(* the consolidated blocks are exactly the maximal runs of equal dtype of the column list *)
Lemma group_go_run gd (cs : list (list A)) : forall acc rest,
  group_go gd acc (map (pair gd) cs ++ rest) = group_go gd (rev cs ++ acc) rest.
Proof.
  induction cs as [|c cs IH]; intros acc rest; [reflexivity|].
  cbn [map app group_go fst snd]. rewrite dtype_eqb_refl, IH. cbn [rev]. rewrite <- app_assoc. reflexivity.
Qed.

Lemma emit_group_sig gd (g : list block) : g <> [] -> Forall (fun b => b_dtype b = gd) g ->
  block_sig (emit_group gd g) = (gd, flat_map b_cols g).
Proof.
  intros Hne Hd. destruct g as [|b [|b2 g]]; [congruence| |reflexivity].
  unfold emit_group, block_sig. cbn [flat_map]. rewrite app_nil_r. inversion Hd; subst. reflexivity.
Qed.

Lemma rev_flat_map_cols (g : list block) : rev (flat_map (fun b => rev (b_cols b)) g) = flat_map b_cols (rev g).
Proof.
  induction g as [|b g IH]; [reflexivity|]. cbn [flat_map rev]. rewrite rev_app_distr, rev_involutive, IH.
  rewrite flat_map_app. cbn [flat_map]. now rewrite app_nil_r.
Qed.

Lemma consolidate_go_sig (rest : tb) : wf_tb rest -> forall gd grev, grev <> [] -> Forall (fun b => b_dtype b = gd) grev ->
  map block_sig (consolidate_go gd grev rest)
  = group_go gd (flat_map (fun b => rev (b_cols b)) grev) (flatten rest).
Proof.
  induction 1 as [|b r Hb _ IH]; intros gd grev Hne Hd; cbn [consolidate_go].
  - cbn [map flatten flat_map group_go]. rewrite emit_group_sig.
    + rewrite rev_flat_map_cols. reflexivity.
    + intros E. apply (f_equal (@rev block)) in E. rewrite rev_involutive in E. cbn in E. congruence.
    + apply Forall_rev. assumption.
  - rewrite flatten_cons. unfold block_columns at 1.
    destruct (dtype_eqb (b_dtype b) gd) eqn:Ed.
    + pose proof (dtype_eqb_eq _ _ Ed) as Egd. rewrite IH; [|discriminate|constructor; assumption].
      rewrite Egd, group_go_run. cbn [flat_map]. reflexivity.
    + destruct Hb as [Hw _]. destruct (b_cols b) as [|c cs] eqn:Ecs; [cbn in Hw; lia|].
      cbn [map app group_go fst snd]. rewrite Ed. cbn [map]. f_equal.
      * rewrite emit_group_sig.
        -- rewrite rev_flat_map_cols. reflexivity.
        -- intros E. apply (f_equal (@rev block)) in E. rewrite rev_involutive in E. cbn in E. congruence.
        -- apply Forall_rev. assumption.
      * rewrite IH; [|discriminate|constructor; [reflexivity|constructor]].
        rewrite group_go_run. cbn [flat_map]. rewrite Ecs, app_nil_r. cbn [rev]. reflexivity.
Qed.

Theorem consolidate_groups (t : tb) : wf_tb t ->
  map block_sig (consolidate_blocks t) = S_group_columns (flatten t).
Proof.
  intros Hwf. destruct t as [|b r]; [reflexivity|]. inversion Hwf as [|? ? Hb Hr]; subst.
  unfold consolidate_blocks. rewrite consolidate_go_sig; [|assumption|discriminate|constructor; [reflexivity|constructor]].
  rewrite flatten_cons. unfold block_columns at 1. unfold S_group_columns.
  destruct Hb as [Hw _]. destruct (b_cols b) as [|c cs] eqn:Ecs; [cbn in Hw; lia|].
  cbn [map app fst snd flat_map]. rewrite group_go_run. rewrite app_nil_r, ?Ecs. cbn [rev]. reflexivity.
Qed.

(* consolidation is a canonical form: two layouts of the same columns consolidate to the same blocks
   (dtype and columns of every block; only the dimensionality flag of a one-column group may differ) *)
Corollary consolidate_canonical (t1 t2 : tb) : wf_tb t1 -> wf_tb t2 -> flatten t1 = flatten t2 ->
  map block_sig (consolidate_blocks t1) = map block_sig (consolidate_blocks t2).
Proof. intros H1 H2 E. rewrite !consolidate_groups by assumption. now rewrite E. Qed.

(* the groups are maximal: neighbouring consolidated blocks differ in dtype *)
Lemma group_go_adjacent (rest : list column) : forall gd acc,
  adjacent_distinct (map fst (group_go gd acc rest)).
Proof.
  induction rest as [|c r IH]; intros gd acc; cbn [group_go]; [exact I|].
  destruct (dtype_eqb (fst c) gd) eqn:Ed; [apply IH|].
  specialize (IH (fst c) [snd c]). cbn [map fst].
  destruct (group_go (fst c) [snd c] r) as [|[d2 g2] gs] eqn:Eg; [exact I|].
  cbn [map fst adjacent_distinct] in *. split; [|exact IH].
  assert (d2 = fst c).
  { destruct r as [|c2 r2]; cbn [group_go] in Eg.
    - injection Eg as <- _ _. reflexivity.
    - destruct (dtype_eqb (fst c2) (fst c)).
      + clear IH. revert Eg. generalize (snd c2 :: [snd c]). revert d2 g2 gs.
        induction r2 as [|c3 r3 IHr]; intros d2 g2 gs acc0 Eg; cbn [group_go] in Eg.
        * injection Eg as <- _ _. reflexivity.
        * destruct (dtype_eqb (fst c3) (fst c)); [eapply IHr; eassumption|]. injection Eg as <- _ _. reflexivity.
      + injection Eg as <- _ _. reflexivity. }
  subst d2. intros E. apply dtype_eqb_neq in Ed. congruence.
Qed.

Theorem consolidate_maximal (t : tb) : wf_tb t -> adjacent_distinct (map b_dtype (consolidate_blocks t)).
Proof.
  intros Hwf.
  replace (map b_dtype (consolidate_blocks t)) with (map fst (map block_sig (consolidate_blocks t)))
    by (rewrite map_map; reflexivity).
  rewrite consolidate_groups by assumption. unfold S_group_columns.
  destruct (flatten t) as [|c r]; [exact I|]. apply group_go_adjacent.
Qed.

(* consolidation keeps the blocks well formed *)
Lemma emit_group_wf gd (g : list block) : g <> [] -> Forall wf_block g -> wf_block (emit_group gd g).
Proof.
  intros Hne Hwf. destruct g as [|b [|b2 g]]; [congruence| |].
  - inversion Hwf; assumption.
  - unfold emit_group, concat_group, wf_block. cbn [b_cols b_1d]. split; [|discriminate].
    inversion Hwf as [|? ? [Hb _] _]; subst. cbn [flat_map]. rewrite app_length. lia.
Qed.

Lemma consolidate_go_wf (rest : tb) : wf_tb rest -> forall gd grev, grev <> [] -> Forall wf_block grev ->
  wf_tb (consolidate_go gd grev rest).
Proof.
  assert (Hrev : forall g : list block, g <> [] -> rev g <> []).
  { intros g Hg E. apply (f_equal (@rev block)) in E. rewrite rev_involutive in E. cbn in E. congruence. }
  induction 1 as [|b r Hb _ IH]; intros gd grev Hne Hd; cbn [consolidate_go].
  - constructor; [|constructor]. apply emit_group_wf; [apply Hrev; assumption|apply Forall_rev; assumption].
  - destruct (dtype_eqb (b_dtype b) gd).
    + apply IH; [discriminate|constructor; assumption].
    + constructor.
      * apply emit_group_wf; [apply Hrev; assumption|apply Forall_rev; assumption].
      * apply IH; [discriminate|constructor; [assumption|constructor]].
Qed.

Theorem consolidate_wf (t : tb) : wf_tb t -> wf_tb (consolidate_blocks t).
Proof.
  intros Hwf. destruct t as [|b r]; [constructor|]. inversion Hwf; subst.
  apply consolidate_go_wf; [assumption|discriminate|constructor; [assumption|constructor]].
Qed.

Theorem consolidate_refines (t : tb) : res_map (@flatten A) (M_consolidate t) =
  match t with [] => Err "ErrorInitTypeBlocks"%string | _ => Ok (flatten t) end.
Proof. destruct t as [|b r]; [reflexivity|]. unfold M_consolidate. cbn [res_map]. now rewrite consolidate_flatten. Qed.

(* =============================== 6. append / extend =============================== *)
Lemma index_from_app (t1 t2 : tb) k : index_from k (t1 ++ t2) = index_from k t1 ++ index_from (k + Z.of_nat (length t1)) t2.
Proof.
  revert k. induction t1 as [|b t1 IH]; intros k; cbn [app index_from length].
  - now rewrite Z.add_0_r.
  - rewrite IH, <- app_assoc. f_equal. f_equal. f_equal. lia.
Qed.

Lemma tb_dtypes_app (t1 t2 : tb) : tb_dtypes (t1 ++ t2) = tb_dtypes t1 ++ tb_dtypes t2.
Proof. induction t1 as [|b t1 IH]; [reflexivity|]. cbn [app tb_dtypes]. now rewrite IH, app_assoc. Qed.

Lemma tb_column_count_app (t1 t2 : tb) : tb_column_count (t1 ++ t2) = tb_column_count t1 + tb_column_count t2.
Proof. induction t1 as [|b t1 IH]; [reflexivity|]. cbn [app tb_column_count]. rewrite IH. lia. Qed.

Lemma append_state (t : tb) (b : block) :
  M_append (state_of t) b = state_of (if nonempty_block b then t ++ [b] else t).
Proof.
  unfold M_append, nonempty_block. cbn [st_blocks st_index st_dtypes st_columns state_of].
  destruct (width b =? 0) eqn:Ew; cbn [negb]; [reflexivity|].
  unfold state_of, tb_index. rewrite index_from_app, tb_dtypes_app, tb_column_count_app.
  cbn [index_from tb_dtypes tb_column_count]. rewrite !app_nil_r, Z.add_0_r, Z.add_0_l. reflexivity.
Qed.

(* for EVERY history of append/extend calls the incrementally maintained directory, dtype list and column
   count are the ones from_blocks computes from scratch for the accepted blocks *)
Theorem extend_state (bs : list block) : forall t,
  M_extend (state_of t) bs = state_of (t ++ filter nonempty_block bs).
Proof.
  unfold M_extend. induction bs as [|b bs IH]; intros t; cbn [fold_left filter].
  - now rewrite app_nil_r.
  - rewrite append_state. destruct (nonempty_block b).
    + rewrite IH, <- app_assoc. reflexivity.
    + apply IH.
Qed.

Corollary extend_flatten (bs : list block) (t : tb) :
  flatten (st_blocks (M_extend (state_of t) bs)) = flatten t ++ flatten bs.
Proof.
  rewrite extend_state. cbn [st_blocks state_of]. rewrite flatten_app. f_equal.
  induction bs as [|b bs IH]; [reflexivity|]. cbn [filter]. unfold nonempty_block at 1.
  destruct (width b =? 0) eqn:Ew; cbn [negb].
  - rewrite flatten_cons, IH. unfold block_columns, width in *.
    destruct (b_cols b); [reflexivity|cbn in Ew; lia].
  - rewrite !flatten_cons, IH. reflexivity.
Qed.

End OpsProofs.
