(* C11 -- no cell lost, duplicated or moved, as a statement about the WHOLE result column: column c of
   the specified vertical concatenation is exactly the inputs' aligned columns c laid end to end --
   the segment belonging to input k (rows off k .. off k + rows k) is input k's column (stored in the
   result dtype), the segments are contiguous and their lengths add up to the length of the column.
   Hence the map  (input k, row i) |-> result row off k + i  is a bijection onto the result rows. *)
Require Import SF.Prelude SF.Dtype SF.Blocks SF.Concat.
Require Import Proofs.ConcatVstack Proofs.ConcatAlign Proofs.ConcatCells.

Lemma segment_of_concat {X} (ls : list (list X)) : forall k l,
  nth_error ls k = Some l -> firstn (length l) (skipn (off ls k) (concat ls)) = l.
Proof.
  induction ls as [|l0 r IH]; intros k l Hk; [destruct k; discriminate|].
  destruct k as [|k]; cbn in *.
  - injection Hk as ->. rewrite firstn_app, Nat.sub_diag, firstn_all. cbn. apply app_nil_r.
  - rewrite skipn_app. rewrite skipn_all2 by lia. cbn [app].
    replace (length l0 + off r k - length l0)%nat with (off r k) by lia. apply IH. exact Hk.
Qed.

Lemma concat_length_sum {X} (ls : list (list X)) : length (concat ls) = fold_right (fun l n => (length l + n)%nat) O ls.
Proof. induction ls as [|l r IH]; [reflexivity|]. cbn. rewrite app_length, IH. reflexivity. Qed.

Section Segments.
Context {L A : Type}.
Variable leqb : L -> L -> bool.
Variable cast : dtype -> A -> A.
Variable resolve : dtype -> dtype -> dtype.

Definition result_column filldt fill (fs : list (frame L A)) (c : L) : column :=
  S_stack_col cast resolve (map (fun f => S_aligned_col leqb filldt fill f c) fs).

(* the column of label c in the specified result is result_column c *)
Lemma concat0_column filldt fill (fs : list (frame L A)) (cols : list L) j c :
  nth_error cols j = Some c ->
  nth_error (S_concat0_cols leqb cast resolve filldt fill fs cols) j = Some (result_column filldt fill fs c).
Proof. intro H. unfold S_concat0_cols. rewrite nth_error_map, H. reflexivity. Qed.

Lemma result_column_concat filldt fill (fs : list (frame L A)) c :
  snd (result_column filldt fill fs c) =
  concat (map (fun f => map (cast (fst (result_column filldt fill fs c))) (snd (S_aligned_col leqb filldt fill f c))) fs).
Proof.
  unfold result_column, S_stack_col, stack_col_with. cbn [fst snd].
  rewrite flat_map_concat_map, map_map. reflexivity.
Qed.

(* THE SEGMENTS *)
Theorem concat0_segments filldt fill (fs : list (frame L A)) c k f :
  Forall (@wf_cells L A) fs -> nth_error fs k = Some f ->
  let col := result_column filldt fill fs c in
  firstn (f_rows f) (skipn (off (map (@f_index L A) fs) k) (snd col)) =
  map (cast (fst col)) (snd (S_aligned_col leqb filldt fill f c)).
Proof.
  intros Hwf Hk col. unfold col. rewrite result_column_concat.
  set (d := fst (result_column filldt fill fs c)).
  rewrite (off_map_eq (@f_index L A) (fun f0 => map (cast d) (snd (S_aligned_col leqb filldt fill f0 c))) fs).
  2:{ intros f' Hf'. rewrite map_length, (aligned_col_length leqb); [reflexivity|].
      rewrite Forall_forall in Hwf. apply Hwf. exact Hf'. }
  assert (Hl : f_rows f = length (map (cast d) (snd (S_aligned_col leqb filldt fill f c)))).
  { rewrite map_length, (aligned_col_length leqb); [reflexivity|].
    rewrite Forall_forall in Hwf. apply Hwf. eapply nth_error_In. exact Hk. }
  rewrite Hl. apply segment_of_concat. rewrite nth_error_map, Hk. reflexivity.
Qed.

(* ... and nothing else: the column has exactly one cell per input row *)
Theorem concat0_column_length filldt fill (fs : list (frame L A)) c :
  Forall (@wf_cells L A) fs ->
  length (snd (result_column filldt fill fs c)) = sum_rows fs.
Proof.
  intro Hwf. rewrite result_column_concat, concat_length_sum. unfold sum_rows.
  generalize (fst (result_column filldt fill fs c)). intro d.
  induction fs as [|f fs IH]; [reflexivity|]. inversion Hwf; subst. cbn [map fold_right].
  rewrite map_length, (aligned_col_length leqb) by assumption. f_equal. apply IH. assumption.
Qed.

End Segments.
