(* C11 -- Frame.from_concat as a whole: the implementation model (set operations with shortcuts,
   reindex through the blocks, three vstack strategies / block chaining, from_blocks) produces the
   table the label-level specification describes, for every block layout of every input; duplicate
   labels along the axis make it fail; and the specification's cells are the inputs' cells, found
   by label. *)
Require Import SF.Prelude SF.Dtype SF.Blocks SF.Concat.
Require Import Proofs.ConcatVstack Proofs.ConcatAlign Proofs.ConcatReindex.

Lemma transpose_map_map {X Y Z} (g : X -> Y -> Z) (fs : list X) (cols : list Y) :
  transpose (length cols) (map (fun f => map (g f) cols) fs) = map (fun c => map (fun f => g f c) fs) cols.
Proof.
  induction cols as [|c cols IH]; [reflexivity|].
  cbn [length transpose map].
  rewrite (heads_cons_map (fun f => g f c) (fun f => map (g f) cols)).
  rewrite (tl_cons_map (fun f => g f c) (fun f => map (g f) cols)). rewrite IH. reflexivity.
Qed.

Section Frame.
Context {L A : Type}.
Variable leqb : L -> L -> bool.
Variable lleb : L -> L -> bool.
Variable cast : dtype -> A -> A.
Variable resolve : dtype -> dtype -> dtype.
Variable auto : Z -> L.
Hypothesis leqb_spec : forall a b, leqb a b = true <-> a = b.
Hypothesis resolve_obj : forall d, resolve d DObj = DObj.

Notation wf_frame := (@wf_frame L A).
Notation M_concat0 := (M_concat0 leqb lleb cast resolve auto).
Notation M_concat1 := (M_concat1 leqb lleb cast resolve auto).
Notation S_concat0_cols := (S_concat0_cols leqb cast resolve).
Notation S_concat1_cols := (S_concat1_cols leqb cast resolve).

Lemma from_blocks_flatten (t t' : tb A) : M_from_blocks t = Ok t' -> flatten t' = flatten t.
Proof.
  unfold M_from_blocks. destruct (drop_empty t) eqn:E; [discriminate|]. intro H. injection H as <-.
  rewrite <- E. apply flatten_drop_empty.
Qed.

(* what the labels of a successful result are *)
Definition along_ok (arg : ixarg L) (ls : list (list L)) (n : nat) (got : list L) : Prop :=
  match arg with
  | IxNone => got = concat ls /\ NoDup got
  | IxAuto => got = auto_labels auto n
  | IxGiven l => got = l /\ length l = n
  end.
Definition aligned_ok (arg : ixarg L) (union : bool) (ls : list (list L)) (got : list L) : Prop :=
  match arg with
  | IxNone => NoDup got /\ forall x, In x got <-> In x (S_aligned leqb union ls)
  | IxAuto => False
  | IxGiven l => got = l
  end.
Definition arg_wf (arg : ixarg L) : Prop := match arg with IxGiven l => NoDup l | _ => True end.

Lemma concat_labels_ok arg ls n got : M_concat_labels leqb auto arg ls n = Ok got -> along_ok arg ls n got.
Proof.
  unfold M_concat_labels, along_ok. destruct arg as [| |l].
  - destruct (nodupb leqb (concat ls)) eqn:E; [|discriminate]. intro H. injection H as <-.
    split; [reflexivity|]. apply (nodupb_NoDup leqb leqb_spec). exact E.
  - intro H. injection H as <-. reflexivity.
  - destruct (length l =? n)%nat eqn:E; [|discriminate]. intro H. injection H as <-.
    apply Nat.eqb_eq in E. tauto.
Qed.

Lemma aligned_labels_ok arg union ls got : Forall (@NoDup L) ls -> arg_wf arg ->
  M_aligned_labels leqb lleb arg union ls = Ok got -> aligned_ok arg union ls got /\ NoDup got.
Proof.
  intros Hls Harg. unfold M_aligned_labels, aligned_ok. destruct arg as [| |l]; [|discriminate|].
  - intro H. injection H as <-. pose proof (index_many_set_spec leqb lleb leqb_spec union ls Hls) as [H1 H2]. tauto.
  - intro H. injection H as <-. cbn in Harg. tauto.
Qed.

(* AXIS 0, the whole pipeline *)
Theorem concat0_refines union ixa cola filldt fill (fs : list (frame L A)) r :
  fs <> [] -> Forall wf_frame fs -> arg_wf cola ->
  M_concat0 union ixa cola filldt fill fs = Ok r ->
  f_cols r = S_concat0_cols filldt fill fs (f_columns r) /\
  aligned_ok cola union (map (@f_columns L A) fs) (f_columns r) /\
  along_ok ixa (map (@f_index L A) fs) (sum_rows fs) (f_index r).
Proof.
  intros Hne Hwf Harg. unfold Concat.M_concat0. destruct fs as [|f0 fr]; [congruence|].
  set (fs := f0 :: fr) in *.
  destruct (match ixa with
            | IxNone => if nodupb leqb (concat (map (@f_index L A) fs)) then Ok tt else Err "ErrorInitFrame"
            | _ => Ok tt end) as [[]|e]; cbn [res_bind]; [|discriminate].
  destruct (M_aligned_labels leqb lleb cola union (map (@f_columns L A) fs)) as [cols|e] eqn:Ecols; cbn [res_bind]; [|discriminate].
  assert (Hcn : Forall (@NoDup L) (map (@f_columns L A) fs)).
  { rewrite Forall_map. eapply Forall_impl; [|exact Hwf]. intros f (_ & H & _). exact H. }
  destruct (aligned_labels_ok _ _ _ _ Hcn Harg Ecols) as [Hal Hnd].
  destruct (M_from_blocks _) as [t|e] eqn:Et; cbn [res_bind]; [|discriminate].
  destruct (M_concat_labels leqb auto ixa (map (@f_index L A) fs) (sum_rows fs)) as [idx|e] eqn:Eidx; cbn [res_bind]; [|discriminate].
  intro H. injection H as <-. cbn [f_index f_columns f_blocks]. unfold f_cols at 1. cbn [f_blocks].
  split; [|split; [exact Hal|apply concat_labels_ok; exact Eidx]].
  rewrite (from_blocks_flatten _ _ Et).
  rewrite (vstack_refines cast resolve resolve_obj).
  2:{ unfold fs. discriminate. }
  2:{ rewrite !Forall_map. eapply Forall_impl; [|exact Hwf]. intros f Hf.
      apply (reindex_columns_refines leqb cast resolve leqb_spec filldt fill f cols Hf Hnd). }
  rewrite !map_map.
  assert (Hfl : map (fun f : frame L A => flatten (f_blocks (M_reindex_columns leqb filldt fill f cols))) fs =
                map (fun f => map (S_aligned_col leqb filldt fill f) cols) fs).
  { apply map_ext_in. intros f Hf. rewrite Forall_forall in Hwf.
    apply (reindex_columns_refines leqb cast resolve leqb_spec filldt fill f cols (Hwf f Hf) Hnd). }
  rewrite Hfl.
  assert (Hw : total_width (hd [] (map (fun f : frame L A => f_blocks (M_reindex_columns leqb filldt fill f cols)) fs)) = length cols).
  { unfold fs. cbn [map hd]. unfold total_width.
    assert (Hf0 : wf_frame f0) by (inversion Hwf; assumption).
    pose proof (proj1 (reindex_columns_refines leqb cast resolve leqb_spec filldt fill f0 cols Hf0 Hnd)) as E.
    unfold f_cols in E. rewrite E. unfold S_reindex_columns. apply map_length. }
  rewrite <- (map_map (fun f : frame L A => M_reindex_columns leqb filldt fill f cols) (@f_blocks L A)) in Hw.
  rewrite map_map in Hw. rewrite Hw.
  unfold S_vstack. rewrite transpose_map_map, map_map. reflexivity.
Qed.

(* AXIS 1, the whole pipeline *)
Theorem concat1_refines union ixa cola filldt fill (fs : list (frame L A)) r :
  fs <> [] -> Forall (fun f => NoDup (f_index f)) fs -> arg_wf ixa ->
  M_concat1 union ixa cola filldt fill fs = Ok r ->
  f_cols r = S_concat1_cols filldt fill fs (f_index r) /\
  aligned_ok ixa union (map (@f_index L A) fs) (f_index r) /\
  along_ok cola (map (@f_columns L A) fs) (length (f_cols r)) (f_columns r).
Proof.
  intros Hne Hwf Harg. unfold Concat.M_concat1. destruct fs as [|f0 fr]; [congruence|].
  set (fs := f0 :: fr) in *.
  destruct (match cola with
            | IxNone => if nodupb leqb (concat (map (@f_columns L A) fs)) then Ok tt else Err "ErrorInitFrame"
            | _ => Ok tt end) as [[]|e]; cbn [res_bind]; [|discriminate].
  destruct (M_aligned_labels leqb lleb ixa union (map (@f_index L A) fs)) as [idx|e] eqn:Eidx; cbn [res_bind]; [|discriminate].
  assert (Hcn : Forall (@NoDup L) (map (@f_index L A) fs)) by (rewrite Forall_map; exact Hwf).
  destruct (aligned_labels_ok _ _ _ _ Hcn Harg Eidx) as [Hal Hnd].
  destruct (M_from_blocks _) as [t|e] eqn:Et; cbn [res_bind]; [|discriminate].
  destruct (M_concat_labels leqb auto cola (map (@f_columns L A) fs) (length (flatten t))) as [cols|e] eqn:Ecols; cbn [res_bind]; [|discriminate].
  intro H. injection H as <-. cbn [f_index f_columns f_blocks]. unfold f_cols. cbn [f_blocks].
  split; [|split; [exact Hal|apply concat_labels_ok; exact Ecols]].
  rewrite (from_blocks_flatten _ _ Et). unfold Concat.S_concat1_cols.
  generalize fs. intro l. induction l as [|f l IH]; [reflexivity|].
  cbn [map flat_map]. rewrite flatten_app, IH. f_equal.
  apply (reindex_rows_refines leqb cast resolve).
Qed.

(* duplicate labels along the axis and no replacement: construction fails (both axes) *)
Theorem concat_duplicates_fail union arg filldt fill (fs : list (frame L A)) :
  fs <> [] ->
  (~ NoDup (concat (map (@f_index L A) fs)) -> exists e, M_concat0 union IxNone arg filldt fill fs = Err e) /\
  (~ NoDup (concat (map (@f_columns L A) fs)) -> exists e, M_concat1 union arg IxNone filldt fill fs = Err e).
Proof.
  intro Hne. destruct fs as [|f0 fr]; [congruence|]. split; intro H.
  - unfold Concat.M_concat0. destruct (nodupb leqb (concat (map (@f_index L A) (f0 :: fr)))) eqn:E.
    + apply (nodupb_NoDup leqb leqb_spec) in E. contradiction.
    + cbn [res_bind]. eexists. reflexivity.
  - unfold Concat.M_concat1. destruct (nodupb leqb (concat (map (@f_columns L A) (f0 :: fr)))) eqn:E.
    + apply (nodupb_NoDup leqb leqb_spec) in E. contradiction.
    + cbn [res_bind]. eexists. reflexivity.
Qed.

End Frame.
