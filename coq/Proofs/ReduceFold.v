(* C15 -- generic facts: folds over semigroups, the two liftings of a missing value, block-wise
   reduction = reduction of the whole line for every block layout. *)
Require Import SF.Prelude SF.Value SF.Dtype SF.Reduce.
From Coq Require Import QArith.
Local Open Scope Z_scope.

(* ------------------------------------------------------------------ semigroup folds *)
Section Semigroup.
  Context {Mo : Type}.
  Variable op : Mo -> Mo -> Mo.
  Hypothesis op_assoc : forall a b c, op (op a b) c = op a (op b c).
  Variable d : Mo.

  Lemma fold_left_op_assoc : forall t x y, fold_left op t (op x y) = op x (fold_left op t y).
  Proof.
    induction t as [|z t IH]; intros x y; cbn; [reflexivity|].
    rewrite op_assoc. apply IH.
  Qed.

  Lemma fold1_cons : forall x t, t <> [] -> fold1 op d (x :: t) = op x (fold1 op d t).
  Proof.
    intros x [|y t] H; [congruence|]. cbn. apply fold_left_op_assoc.
  Qed.

  Lemma fold1_app : forall l1 l2, l1 <> [] -> l2 <> [] ->
    fold1 op d (l1 ++ l2) = op (fold1 op d l1) (fold1 op d l2).
  Proof.
    induction l1 as [|x l1 IH]; intros l2 H1 H2; [congruence|].
    destruct l1 as [|y l1].
    - cbn [app]. rewrite fold1_cons by assumption. reflexivity.
    - change ((x :: y :: l1) ++ l2) with (x :: ((y :: l1) ++ l2)).
      rewrite fold1_cons by (cbn; discriminate).
      rewrite IH by (assumption || discriminate).
      rewrite (fold1_cons x (y :: l1)) by discriminate.
      symmetry. apply op_assoc.
  Qed.

  (* reducing every non-empty part and then the partial results = reducing the concatenation:
     for EVERY partition of the line into non-empty parts *)
  Theorem fold1_concat : forall ls, Forall (fun l => l <> []) ls ->
    fold1 op d (map (fold1 op d) ls) = fold1 op d (concat ls).
  Proof.
    induction ls as [|l ls IH]; intros H; [reflexivity|].
    inversion H as [|? ? Hl Hls]; subst.
    destruct ls as [|l2 ls].
    - cbn. rewrite app_nil_r. destruct l; reflexivity.
    - change (map (fold1 op d) (l :: l2 :: ls)) with (fold1 op d l :: map (fold1 op d) (l2 :: ls)).
      rewrite fold1_cons by (cbn; discriminate).
      rewrite IH by assumption.
      change (concat (l :: l2 :: ls)) with (l ++ concat (l2 :: ls)).
      rewrite fold1_app; [reflexivity|assumption|].
      inversion Hls; subst. cbn. destruct l2; [congruence|discriminate].
  Qed.
End Semigroup.

(* the two liftings of a semigroup to "value or missing" are semigroups again *)
Lemma lift_skip_assoc {X} (op : X -> X -> X) :
  (forall a b c, op (op a b) c = op a (op b c)) ->
  forall a b c, lift_skip op (lift_skip op a b) c = lift_skip op a (lift_skip op b c).
Proof. intros H [a|] [b|] [c|]; cbn; rewrite ?H; reflexivity. Qed.

Lemma lift_prop_assoc {X} (op : X -> X -> X) :
  (forall a b c, op (op a b) c = op a (op b c)) ->
  forall a b c, lift_prop op (lift_prop op a b) c = lift_prop op a (lift_prop op b c).
Proof. intros H [a|] [b|] [c|]; cbn; rewrite ?H; reflexivity. Qed.

(* leftmost minimum over a total preorder is associative *)
Section LeftMin.
  Context {X : Type}.
  Variable le : X -> X -> bool.
  Hypothesis le_total : forall a b, le a b = true \/ le b a = true.
  Hypothesis le_trans : forall a b c, le a b = true -> le b c = true -> le a c = true.
  Definition minl (a b : X) : X := if le a b then a else b.
  Lemma minl_assoc : forall a b c, minl (minl a b) c = minl a (minl b c).
  Proof.
    intros a b c. unfold minl.
    destruct (le a b) eqn:Hab; destruct (le b c) eqn:Hbc; rewrite ?Hab; try reflexivity.
    - rewrite (le_trans a b c Hab Hbc). reflexivity.
    - destruct (le a c) eqn:Hac; [|reflexivity].
      destruct (le_total b c) as [H|H]; [congruence|].
      rewrite (le_trans a c b Hac H) in Hab. discriminate.
  Qed.
End LeftMin.

Lemma Qle_bool_total : forall a b, Qle_bool a b = true \/ Qle_bool b a = true.
Proof.
  intros a b. destruct (Qlt_le_dec a b) as [H|H].
  - left. apply Qle_bool_iff. apply Qlt_le_weak. exact H.
  - right. apply Qle_bool_iff. exact H.
Qed.
Lemma Qle_bool_trans : forall a b c, Qle_bool a b = true -> Qle_bool b c = true -> Qle_bool a c = true.
Proof. intros a b c H1 H2. apply Qle_bool_iff in H1, H2. apply Qle_bool_iff. eapply Qle_trans; eassumption. Qed.

Lemma qminl_assoc : forall a b c, qminl (qminl a b) c = qminl a (qminl b c).
Proof. exact (minl_assoc Qle_bool Qle_bool_total Qle_bool_trans). Qed.

(* leftmost maximum: the same scan for the reversed order *)
Lemma qmaxl_assoc : forall a b c, qmaxl (qmaxl a b) c = qmaxl a (qmaxl b c).
Proof.
  exact (minl_assoc (fun a b => Qle_bool b a) (fun a b => Qle_bool_total b a)
           (fun a b c H1 H2 => Qle_bool_trans c b a H2 H1)).
Qed.

(* ------------------------------------------------------------------ lines of a block list *)
Section Structure.
  Context {A R : Type}.
  Variable dflt : A.

  Lemma row_at_app : forall i (c1 c2 : list (list A)),
    row_at dflt i (c1 ++ c2) = row_at dflt i c1 ++ row_at dflt i c2.
  Proof. intros. unfold row_at. apply map_app. Qed.

  Lemma row_at_flatten : forall i (bs : list (blk A)),
    row_at dflt i (flatten bs) = concat (map (fun b => row_at dflt i (blk_cols b)) bs).
  Proof.
    induction bs as [|b bs IH]; [reflexivity|].
    unfold flatten in *. cbn [flat_map map concat]. rewrite row_at_app, IH. reflexivity.
  Qed.

  (* consolidation (_blocks_to_array) builds exactly the rows of the flattened columns *)
  Lemma consolidated_row_flatten : forall i (bs : list (blk A)),
    consolidated_row dflt i bs = row_at dflt i (flatten bs).
  Proof.
    intros. rewrite row_at_flatten. unfold consolidated_row. rewrite flat_map_concat_map.
    f_equal. apply map_ext. intros [c|cs]; reflexivity.
  Qed.

  Variable red : list A -> R.

  (* axis 0: per block into out[pos:end] = per column of the flattened columns, for every layout *)
  Theorem M_axis0_flatten : forall (store : R -> R) (bs : list (blk A)),
    M_axis0 red store bs = map (fun c => store (red c)) (flatten bs).
  Proof.
    intros. unfold M_axis0, flatten. induction bs as [|b bs IH]; [reflexivity|].
    cbn [flat_map]. rewrite map_app, IH. reflexivity.
  Qed.

  (* axis 1, not composable: consolidate then reduce = reduce every row of the flattened columns *)
  Theorem M_axis1_cons_rows : forall r (bs : list (blk A)),
    M_axis1_cons dflt red r bs = map red (rows_of dflt r (flatten bs)).
  Proof.
    intros. unfold M_axis1_cons, rows_of. rewrite map_map. apply map_ext.
    intros i. rewrite consolidated_row_flatten. reflexivity.
  Qed.
End Structure.

(* ------------------------------------------------------------------ axis 1, composable *)
Section Composable.
  Context {A R Mo : Type}.
  Variable dflt : A.
  Variable op : Mo -> Mo -> Mo.
  Hypothesis op_assoc : forall a b c, op (op a b) c = op a (op b c).
  Variable d : Mo.
  Variable g : A -> Mo.              (* what a cell contributes *)
  Variable out_of : Mo -> R.         (* the line result of a fold *)
  Variable inj : R -> A.             (* a partial result stored in `out`, read back as a cell *)
  Hypothesis inj_ok : forall m, g (inj (out_of m)) = m.
  Variable red : list A -> R.
  Hypothesis red_fold : forall l, l <> [] -> red l = out_of (fold1 op d (map g l)).
  Variable short : bool.

  (* blocks whose 1-D members were transformed cell-wise without changing what the cells contribute *)
  Definition blk_geq (b' b : blk A) : Prop :=
    match b', b with
    | B1 c', B1 c => map g c' = map g c
    | B2 cs', B2 cs => cs' = cs
    | _, _ => False
    end.

  Lemma comp_cell_contrib : forall i b' b, blk_geq b' b -> blk_cols b <> [] ->
    (short = true -> blk_single b <> None -> i = 0%nat) ->
    g (comp_cell dflt red inj short i b') = fold1 op d (map g (row_at dflt i (blk_cols b))).
  Proof.
    intros i b' b Hg Hne Hs. destruct b' as [c'|cs']; destruct b as [c|cs]; cbn in Hg; try contradiction.
    - cbn. rewrite <- (map_nth g c'), Hg, (map_nth g c). reflexivity.
    - subst cs'. cbn [comp_cell blk_cols].
      destruct (if short then blk_single (B2 cs) else None) as [x|] eqn:E.
      + destruct short; [|discriminate]. rewrite (Hs eq_refl) by (rewrite E; discriminate).
        cbn in E. destruct cs as [|[|y [|? ?]] [|? ?]]; try discriminate.
        injection E as ->. reflexivity.
      + rewrite red_fold, inj_ok; [reflexivity|].
        cbn in Hne. destruct cs; [congruence|discriminate].
  Qed.

  (* THE layout theorem: reduce every block to one column, then reduce the columns again
     = reduce the whole row -- for every semigroup and every partition of the columns into blocks *)
  Theorem M_axis1_comp_rows : forall r (bs' bs : list (blk A)),
    Forall2 blk_geq bs' bs ->
    Forall (fun b => blk_cols b <> []) bs ->
    Forall (fun b => short = true -> blk_single b <> None -> (r <= 1)%nat) bs ->
    M_axis1_comp dflt red inj short r bs' = map red (rows_of dflt r (flatten bs)).
  Proof.
    intros r bs' bs Hg Hne Hs. unfold M_axis1_comp, rows_of. rewrite map_map.
    apply map_ext_in. intros i Hi. apply in_seq in Hi.
    assert (Hi0 : Forall (fun b => short = true -> blk_single b <> None -> i = 0%nat) bs).
    { eapply Forall_impl; [|exact Hs]. cbn. intros b H E1 E2. specialize (H E1 E2). lia. }
    clear Hs.
    destruct bs as [|b0 bs0].
    { inversion Hg; subst. reflexivity. }
    assert (Hrow : row_at dflt i (flatten (b0 :: bs0)) <> []).
    { rewrite row_at_flatten. cbn [map concat]. inversion Hne; subst.
      destruct (blk_cols b0); [congruence|]. discriminate. }
    assert (Hne' : map (comp_cell dflt red inj short i) bs' <> []).
    { inversion Hg; subst. discriminate. }
    rewrite (red_fold _ Hne'), (red_fold _ Hrow).
    set (bs := b0 :: bs0) in *. clearbody bs. clear Hrow Hne'.
    f_equal. rewrite map_map.
    rewrite row_at_flatten, concat_map, map_map.
    rewrite <- fold1_concat with (ls := map (fun b => map g (row_at dflt i (blk_cols b))) bs); try assumption.
    - rewrite map_map. f_equal.
      induction Hg as [|b' b bs' bs Hb Hg IH]; [reflexivity|].
      inversion Hne; subst. inversion Hi0; subst. cbn [map]. f_equal; [|apply IH; assumption].
      apply comp_cell_contrib; assumption.
    - apply Forall_forall. intros l Hl. apply in_map_iff in Hl as [b [<- Hb]].
      rewrite Forall_forall in Hne. specialize (Hne b Hb).
      destruct (blk_cols b); [congruence|]. discriminate.
  Qed.
End Composable.
