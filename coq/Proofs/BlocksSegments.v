(* C08 -- one block under an ascending walk: the columns are cut into [gap][target][gap][target]...[tail];
   whatever the walk emits for the targets, the concatenation is the positional walk of the specification.
   Also: the specification over the flattened frame splits block by block along the per-block runs. *)
Require Import SF.Prelude SF.PySlice SF.Dtype SF.Blocks SF.UpdateSpec SF.BlocksUpdate.
Require Import Proofs.SliceFacts Proofs.BlocksSelect Proofs.UpdateLists Proofs.BlocksWalk.

Fixpoint runs_end (psl : Z) (rs : list (Z * nat)) : Z :=
  match rs with
  | [] => psl
  | (a, m) :: rs' => runs_end (a + Z.of_nat m) rs'
  end.

Lemma runs_end_bounds rs : forall psl w, runs_wf psl rs w -> psl <= w -> psl <= runs_end psl rs <= w.
Proof.
  induction rs as [|[a m] rs IH]; intros psl w Hwf Hp; cbn; [lia|].
  cbn in Hwf. destruct Hwf as (H1 & H2 & H3 & H4).
  assert (H4' : runs_wf (a + Z.of_nat m) rs w) by (eapply runs_wf_weaken; [|exact H4]; lia).
  specialize (IH (a + Z.of_nat m) w H4' H3). lia.
Qed.

Section Segments.
Context {X : Type}.

Definition seg (L : list X) (p q : Z) : list X := firstn (Z.to_nat (q - p)) (skipn (Z.to_nat p) L).

Lemma seg_length L p q : 0 <= p <= q -> q <= Z.of_nat (length L) -> length (seg L p q) = Z.to_nat (q - p).
Proof. intros. unfold seg. rewrite firstn_length, skipn_length. lia. Qed.

Lemma skipn_skipn' (L : list X) : forall a b, skipn a (skipn b L) = skipn (b + a) L.
Proof.
  induction L as [|x L IH]; intros a b; [now rewrite !skipn_nil|].
  destruct b as [|b]; [reflexivity|]. cbn [plus skipn]. apply IH.
Qed.

Lemma skipn_seg L p q : 0 <= p <= q -> skipn (Z.to_nat p) L = seg L p q ++ skipn (Z.to_nat q) L.
Proof.
  intros H. unfold seg. rewrite <- (firstn_skipn (Z.to_nat (q - p)) (skipn (Z.to_nat p) L)) at 1.
  f_equal. rewrite skipn_skipn'. f_equal. lia.
Qed.

(* what comes out of one block: gap, walked target, gap, walked target, ... *)
Fixpoint pieces (F : Z -> X -> list X) (L : list X) (psl : Z) (rs : list (Z * nat)) : list X :=
  match rs with
  | [] => []
  | (a, m) :: rs' => seg L psl a ++ upd_from F a (seg L a (a + Z.of_nat m)) ++ pieces F L (a + Z.of_nat m) rs'
  end.

Lemma segments (F : Z -> X -> list X) (L : list X) rs : forall psl,
  runs_wf psl rs (Z.of_nat (length L)) -> 0 <= psl ->
  (forall j x, psl <= j -> ~ In j (runs_elems rs) -> F j x = [x]) ->
  pieces F L psl rs ++ skipn (Z.to_nat (runs_end psl rs)) L = upd_from F psl (skipn (Z.to_nat psl) L).
Proof.
  induction rs as [|[a m] rs IH]; intros psl Hwf Hp HF; cbn [pieces runs_end app].
  - rewrite (upd_from_ext F (fun _ x => [x])); [now rewrite upd_from_keep|].
    intros j x Hj. apply HF; [lia|intros []].
  - cbn in Hwf. destruct Hwf as (H1 & H2 & H3 & H4).
    rewrite (skipn_seg L psl a) by lia. rewrite (skipn_seg L a (a + Z.of_nat m)) by lia.
    rewrite !upd_from_app, !seg_length by lia. rewrite <- !app_assoc.
    replace (psl + Z.of_nat (Z.to_nat (a - psl))) with a by lia.
    replace (a + Z.of_nat (Z.to_nat (a + Z.of_nat m - a))) with (a + Z.of_nat m) by lia.
    f_equal; [|f_equal].
    + (* the gap is kept as it is *)
      rewrite (upd_from_ext F (fun _ x => [x])); [now rewrite upd_from_keep|].
      intros j x Hj. rewrite seg_length in Hj by lia. apply HF; [lia|].
      intros Hin. apply (runs_wf_elems_ge ((a, m) :: rs) a (Z.of_nat (length L)) j) in Hin; [lia|].
      cbn. repeat split; try assumption; lia.
    + apply IH; [eapply runs_wf_weaken; [|exact H4]; lia | lia |].
      intros j x Hj Hnin. apply HF; [lia|].
      unfold runs_elems. cbn [flat_map]. intros Hin. apply in_app_or in Hin as [Hin|Hin]; [|contradiction].
      apply run_elems_In in Hin. lia.
Qed.

(* from the start of the block: the whole positional walk *)
Corollary segments_block (F : Z -> X -> list X) (L : list X) rs :
  runs_wf 0 rs (Z.of_nat (length L)) ->
  (forall j x, ~ In j (runs_elems rs) -> F j x = [x]) ->
  pieces F L 0 rs ++ skipn (Z.to_nat (runs_end 0 rs)) L = upd_from F 0 L.
Proof.
  intros Hwf HF. rewrite (segments F L rs 0 Hwf ltac:(lia)); [reflexivity|].
  intros j x _. apply HF.
Qed.

End Segments.

(* ---------- the specification splits block by block ---------- *)
Section BySplit.
Context {A : Type}.
Notation block := (block A).
Notation tb := (tb A).
Notation column := (dtype * list A)%type.

(* F may look at the (relative) position and at the addressed positions *)
Fixpoint by_runs (G : list Z -> Z -> column -> list column) (t : tb) (rss : list (list (Z * nat))) : list column :=
  match t, rss with
  | b :: r, rs :: rss' => upd_from (G (runs_elems rs)) 0 (block_columns b) ++ by_runs G r rss'
  | _, _ => []
  end.

(* for updates that only ask WHETHER a position is addressed *)
Lemma upd_flatten_split (H : bool -> column -> list column) (t : tb) : forall ps,
  upd_from (fun i x => H (memz i ps) x) 0 (flatten t) =
  by_runs (fun qs j x => H (memz j qs) x) t (block_runs t ps).
Proof.
  induction t as [|b r IH]; intros ps; [reflexivity|].
  cbn [flatten flat_map block_runs by_runs]. fold (flatten r).
  rewrite upd_from_app. f_equal.
  - apply upd_from_ext. intros j x Hj. f_equal. rewrite runs_elems_eq.
    apply memz_ext. rewrite filter_In. unfold block_columns in Hj. rewrite map_length in Hj.
    unfold width. split; [intros Hin; split; [assumption|lia]|tauto].
  - rewrite <- IH. unfold block_columns at 1. rewrite map_length.
    replace (0 + Z.of_nat (length (b_cols b))) with (width b + 0) by (unfold width; lia).
    rewrite upd_from_shift. apply upd_from_ext. intros j x Hj. f_equal.
    rewrite memz_shift. apply memz_ext. rewrite !in_map_iff. split.
    + intros (p & E & Hp). exists p. split; [assumption|]. apply filter_In. split; [assumption|lia].
    + intros (p & E & Hp). apply filter_In in Hp as [Hp _]. exists p. split; assumption.
Qed.

End BySplit.
