(* C16 -- the csv codec round trip: the reader state machine inverts the QUOTE_MINIMAL writer on every
   record of fields without line breaks, for every delimiter other than the quote character / a line break. *)
Require Import SF.Prelude SF.Value SF.Codec.

(* what the reader does after a completed field [f], looking at the rest of the line *)
Definition after_field (d : ascii) (f : text) (rest : text) : option (list text) :=
  match rest with
  | [] => Some [f]
  | c :: r => if Ascii.eqb c d then option_map (cons f) (rd d StartField [] r) else None
  end.

Lemma eqb_q_d : forall d, delim_ok d = true -> Ascii.eqb d ch_q = false.
Proof.
  intros d H. unfold delim_ok in H. apply andb_true_iff in H as [H _].
  now apply negb_true_iff in H.
Qed.

(* unquoted text: no delimiter inside *)
Lemma rd_infield : forall d f cur rest,
  existsb (fun c => Ascii.eqb c d) f = false ->
  (rest = [] \/ exists r, rest = d :: r) ->
  rd d InField cur (f ++ rest) = after_field d (rev cur ++ f) rest.
Proof.
  intros d f; induction f as [|c f IH]; intros cur rest Hf Hrest.
  - cbn [app]. rewrite app_nil_r. destruct Hrest as [->|[r ->]]; cbn [rd after_field].
    + reflexivity.
    + rewrite Ascii.eqb_refl. reflexivity.
  - cbn in Hf. apply orb_false_iff in Hf as [Hc Hf].
    cbn [app rd]. rewrite Hc. rewrite IH by assumption.
    cbn [rev]. rewrite <- app_assoc. reflexivity.
Qed.

(* quoted text: doubled quotes are undone, the closing quote ends the field *)
Lemma rd_inquoted : forall d f cur rest,
  delim_ok d = true ->
  (rest = [] \/ exists r, rest = d :: r) ->
  rd d InQuoted cur (double_quotes f ++ ch_q :: rest) = after_field d (rev cur ++ f) rest.
Proof.
  intros d f; induction f as [|c f IH]; intros cur rest Hd Hrest.
  - cbn [double_quotes app rd]. rewrite Ascii.eqb_refl. rewrite app_nil_r.
    destruct Hrest as [->|[r ->]]; cbn [rd after_field].
    + reflexivity.
    + rewrite (eqb_q_d d Hd). rewrite Ascii.eqb_refl. reflexivity.
  - cbn [double_quotes]. destruct (Ascii.eqb c ch_q) eqn:Ec.
    + apply Ascii.eqb_eq in Ec. subst c.
      cbn [app rd]. rewrite Ascii.eqb_refl. cbn [rd]. rewrite ?Ascii.eqb_refl.
      rewrite IH by assumption. cbn [rev]. rewrite <- app_assoc. reflexivity.
    + cbn [app rd]. rewrite Ec. rewrite IH by assumption.
      cbn [rev]. rewrite <- app_assoc. reflexivity.
Qed.

Lemma needs_quote_false : forall d s, needs_quote d s = false ->
  existsb (fun c => Ascii.eqb c d) s = false /\ existsb (fun c => Ascii.eqb c ch_q) s = false.
Proof.
  intros d s; induction s as [|c s IH]; cbn; intro H; [split; reflexivity|].
  apply orb_false_iff in H as [H1 H2]. apply orb_false_iff in H1 as [H1 _].
  apply orb_false_iff in H1 as [Hd Hq]. destruct (IH H2) as [A B].
  rewrite Hd, Hq, A, B. split; reflexivity.
Qed.

(* one written field, then either the end of the line or the delimiter.  The only case where the reader
   would not give the field back is the empty unquoted field alone on its line -- which the writer avoids. *)
Lemma rd_written_field : forall d f rest,
  delim_ok d = true ->
  (rest = [] \/ exists r, rest = d :: r) ->
  rd d StartField [] (csv_write_field d f ++ rest) = after_field d f rest.
Proof.
  intros d f rest Hd Hrest. unfold csv_write_field.
  destruct (needs_quote d f) eqn:Hq.
  - cbn [app rd]. rewrite Ascii.eqb_refl. rewrite <- app_assoc. cbn [app].
    rewrite rd_inquoted by assumption. reflexivity.
  - destruct (needs_quote_false _ _ Hq) as [Hnd Hnq].
    destruct f as [|c f].
    + cbn [app]. destruct Hrest as [->|[r ->]]; cbn [rd after_field].
      * reflexivity.
      * rewrite (eqb_q_d d Hd). rewrite Ascii.eqb_refl. reflexivity.
    + cbn in Hnd, Hnq. apply orb_false_iff in Hnd as [Hcd Hnd]. apply orb_false_iff in Hnq as [Hcq _].
      cbn [app rd]. rewrite Hcq, Hcd. rewrite rd_infield by assumption. reflexivity.
Qed.

Lemma rd_written_fields : forall d fs,
  delim_ok d = true -> fs <> [] ->
  rd d StartField [] (join d (map (csv_write_field d) fs)) = Some fs.
Proof.
  intros d fs Hd; induction fs as [|f fs IH]; intro Hne; [congruence|].
  destruct fs as [|g fs].
  - cbn [map join]. rewrite <- (app_nil_r (csv_write_field d f)).
    rewrite rd_written_field; [reflexivity|assumption|left; reflexivity].
  - change (join d (map (csv_write_field d) (f :: g :: fs)))
      with (csv_write_field d f ++ d :: join d (map (csv_write_field d) (g :: fs))).
    rewrite rd_written_field; [|assumption|right; eexists; reflexivity].
    cbn [after_field]. rewrite Ascii.eqb_refl. rewrite IH by discriminate. reflexivity.
Qed.

(* no line break appears in what the writer produces *)
Lemma existsb_app {A} (p : A -> bool) (a b : list A) : existsb p (a ++ b) = existsb p a || existsb p b.
Proof. induction a as [|x a IH]; cbn; [reflexivity|]. rewrite IH. apply orb_assoc. Qed.

Lemma double_quotes_nl : forall s, existsb is_nl s = false -> existsb is_nl (double_quotes s) = false.
Proof.
  induction s as [|c s IH]; cbn; intro H; [reflexivity|].
  apply orb_false_iff in H as [Hc Hs]. destruct (Ascii.eqb c ch_q) eqn:E; cbn.
  - rewrite (IH Hs). reflexivity.
  - rewrite Hc, (IH Hs). reflexivity.
Qed.

Lemma write_field_nl : forall d s, existsb is_nl s = false -> existsb is_nl (csv_write_field d s) = false.
Proof.
  intros d s H. unfold csv_write_field. destruct (needs_quote d s); [|assumption].
  cbn. rewrite existsb_app, double_quotes_nl by assumption. reflexivity.
Qed.

Lemma join_nl : forall d fs, is_nl d = false -> forallb (fun f => negb (existsb is_nl f)) fs = true ->
  existsb is_nl (join d fs) = false.
Proof.
  intros d fs Hd; induction fs as [|f fs IH]; cbn [join forallb]; intro H; [reflexivity|].
  apply andb_true_iff in H as [Hf Hfs]. apply negb_true_iff in Hf.
  destruct fs as [|g fs]; [assumption|].
  rewrite existsb_app. cbn [existsb]. rewrite Hf, Hd, (IH Hfs). reflexivity.
Qed.

Lemma written_row_nl : forall d fs, delim_ok d = true -> forallb no_nl fs = true ->
  existsb is_nl (csv_write_row d fs) = false.
Proof.
  intros d fs Hd H.
  assert (Hd' : is_nl d = false).
  { unfold delim_ok in Hd. apply andb_true_iff in Hd as [_ Hd]. now apply negb_true_iff in Hd. }
  assert (G : existsb is_nl (join d (map (csv_write_field d) fs)) = false).
  { apply join_nl; [assumption|]. rewrite forallb_forall in *. intros x Hx.
    apply in_map_iff in Hx as [y [<- Hy]]. apply negb_true_iff. apply write_field_nl.
    specialize (H y Hy). unfold no_nl in H. now apply negb_true_iff in H. }
  unfold csv_write_row. destruct fs as [|f fs]; [reflexivity|].
  destruct f as [|c f]; [destruct fs as [|g fs]; [reflexivity|exact G]|exact G].
Qed.

Lemma join_nonempty : forall d f g fs, join d (map (csv_write_field d) (f :: g :: fs)) <> [].
Proof. intros. cbn [map join]. intro H. apply app_eq_nil in H as [_ H]. discriminate. Qed.

Lemma write_field_nonempty : forall d c f, csv_write_field d (c :: f) <> [].
Proof. intros d c f. unfold csv_write_field. destruct (needs_quote d (c :: f)); discriminate. Qed.

Lemma read_nonempty : forall d l, l <> [] ->
  match l with [] => Some [] | _ :: _ => rd d StartField [] l end = rd d StartField [] l.
Proof. intros d l H. destruct l; [congruence|reflexivity]. Qed.

(* THE codec round trip: every record (any number of fields, any characters but line breaks, fields that
   hold the delimiter, quotes, spaces, nothing at all) is read back exactly. *)
Theorem csv_read_write : forall d fs,
  delim_ok d = true -> forallb no_nl fs = true ->
  csv_read_line d (csv_write_row d fs) = Some fs.
Proof.
  intros d fs Hd Hnl. unfold csv_read_line. rewrite written_row_nl by assumption.
  destruct fs as [|f fs]; [reflexivity|].
  destruct f as [|c f].
  - destruct fs as [|g fs].
    + (* one empty field: written as "" *)
      vm_compute. reflexivity.
    + unfold csv_write_row. rewrite read_nonempty by apply join_nonempty.
      apply rd_written_fields; [assumption|discriminate].
  - assert (Hne : join d (map (csv_write_field d) ((c :: f) :: fs)) <> []).
    { destruct fs as [|g fs]; [cbn [map join]; apply write_field_nonempty|apply join_nonempty]. }
    unfold csv_write_row. rewrite read_nonempty by exact Hne.
    apply rd_written_fields; [assumption|discriminate].
Qed.

(* non-vacuity: a record with the delimiter, a quote, a space and an empty field *)
Example csv_read_write_example :
  csv_read_line ","%char (csv_write_row ","%char [tx "a,b"; tx "c ""d"""; tx ""; tx " e "])
  = Some [tx "a,b"; tx "c ""d"""; tx ""; tx " e "].
Proof. vm_compute. reflexivity. Qed.
