(* util.slice_to_inclusive_slice (regenerated from source in Gen.Gen_util) equals the typed function
   incl_typed the label-translation model uses; and what the +1 buys: the stop position is selected. *)
Require Import SF.Prelude SF.PySlice SF.Dtype SF.PyDyn SF.Blocks SF.Select Gen.Gen_util Proofs.SliceFacts.

Require Import SF.PyDynTac.
Local Opaque py_slice_indices Z.mul Z.div Z.add Z.sub Z.min Z.max Z.abs Z.opp Z.modulo Z.gtb Z.eqb Z.ltb Z.leb Z.geb adj_bound.

Lemma incl_typed_refines k off :
  slice_to_inclusive_slice (of_slice k) (PInt off) = of_slice (incl_typed k off).
Proof.
  destruct k as [[a|] [b|] [st|]]; unfold slice_to_inclusive_slice, incl_typed, of_slice;
    cbn [s_start s_stop s_step of_oz]; dyn_refine.
Qed.

(* what the +1 is for: on an axis of length n, the slice made inclusive selects exactly the positions
   a .. b, the stop position b included (ascending walk) *)
Require Import Proofs.BlocksSelect Proofs.SelectFacts Proofs.SelectLoc.

Theorem inclusive_slice_includes_stop (a b n : Z) : 0 <= a -> a <= b -> b < n ->
  exists ps, positions (incl_typed (mk_slice (Some a) (Some b) None) 0) n = Some ps /\
             In b ps /\ (forall p, In p ps <-> a <= p <= b).
Proof.
  intros Ha Hab Hb.
  pose proof (inclusive_slice_positions (Some a) (Some b) None n ltac:(lia)
                ltac:(intros x E; injection E as <-; lia) ltac:(intros x E; injection E as <-; lia) I) as H.
  unfold incl_typed. cbn [s_start s_stop s_step].
  replace (a + 0) with a by lia. replace (b + 1 + 0) with (b + 1) by lia.
  destruct (positions (mk_slice (Some a) (Some (b + 1)) None) n) as [ps|]; [|unfold inclusive_range in H; cbn in H; discriminate].
  unfold inclusive_range in H. cbn [Z.eqb Z.gtb Z.compare] in H. injection H as ->.
  eexists. split; [reflexivity|].
  assert (Hmem : forall p, In p (range_list a 1 (Z.to_nat (range_len a (b + 1) 1))) <-> a <= p <= b).
  { intros p. rewrite range_list_In. unfold range_len. cbn [Z.ltb Z.compare].
    replace (a <? b + 1) with true by lia. rewrite Z.div_1_r. split.
    - intros (i & Hi & ->). lia.
    - intros Hp. exists (Z.to_nat (p - a)). split; lia. }
  split; [apply Hmem; lia|exact Hmem].
Qed.
