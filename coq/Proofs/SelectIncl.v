(* util.slice_to_inclusive_slice (regenerated from source in Gen.Gen_util, with the step case of fix c6f9ada)
   equals the typed function incl_typed the label-translation model uses; and what it buys: the stop
   position is selected, walking up and walking down. *)
Require Import SF.Prelude SF.PySlice SF.Dtype SF.PyDyn SF.Blocks SF.Select Gen.Gen_util Proofs.SliceFacts.

Require Import SF.PyDynTac.
Local Opaque py_slice_indices Z.mul Z.div Z.add Z.sub Z.min Z.max Z.abs Z.opp Z.modulo Z.gtb Z.eqb Z.ltb Z.leb Z.geb adj_bound.

Lemma incl_typed_refines k off :
  slice_to_inclusive_slice (of_slice k) (PInt off) = of_slice (incl_typed k off).
Proof.
  destruct k as [[a|] [b|] [st|]]; unfold slice_to_inclusive_slice, incl_typed, incl_stop, step_up, of_slice;
    cbn [s_start s_stop s_step of_oz]; dyn_refine.
Qed.

Require Import Proofs.BlocksSelect Proofs.SelectFacts Proofs.SelectLoc.
Local Transparent Z.add Z.sub Z.mul Z.ltb Z.eqb Z.gtb Z.leb Z.geb Z.opp.

(* on an axis of length n the slice made inclusive selects exactly the positions between a and b, b included:
   a .. b walking up, a down to b walking down (the case the fix repaired) *)
Theorem inclusive_slice_includes_stop (a b n : Z) : 0 <= a < n -> 0 <= b < n ->
  (a <= b -> exists ps, positions (incl_typed (mk_slice (Some a) (Some b) None) 0) n = Some ps /\
                        In b ps /\ (forall p, In p ps <-> a <= p <= b)) /\
  (b <= a -> exists ps, positions (incl_typed (mk_slice (Some a) (Some b) (Some (-1))) 0) n = Some ps /\
                        In b ps /\ (forall p, In p ps <-> b <= p <= a)).
Proof.
  intros Ha Hb.
  assert (Hgen : forall st, positions (incl_typed (mk_slice (Some a) (Some b) st) 0) n =
                            match inclusive_range (Some a) (Some b) st n with Ok ps => Some ps | Err _ => None end).
  { intros st.
    pose proof (inclusive_slice_positions (Some a) (Some b) st n ltac:(lia)
                  ltac:(intros x E; injection E as <-; lia) ltac:(intros x E; injection E as <-; lia)) as H.
    unfold incl_typed. cbn [s_start s_stop s_step]. replace (a + 0) with a by lia.
    destruct (positions (mk_slice (Some a) (incl_stop b st 0) st) n); rewrite <- H; reflexivity. }
  split; intros Hab.
  - rewrite Hgen. unfold inclusive_range. cbn [Z.eqb Z.gtb Z.compare]. eexists. split; [reflexivity|].
    assert (Hmem : forall p, In p (range_list a 1 (Z.to_nat (range_len a (b + 1) 1))) <-> a <= p <= b).
    { intros p. rewrite range_list_In. unfold range_len. cbn [Z.ltb Z.compare].
      replace (a <? b + 1) with true by lia. rewrite Z.div_1_r. split.
      - intros (i & Hi & ->). lia.
      - intros Hp. exists (Z.to_nat (p - a)). split; lia. }
    split; [apply Hmem; lia|exact Hmem].
  - rewrite Hgen. unfold inclusive_range. cbn [Z.eqb Z.gtb Z.compare]. eexists. split; [reflexivity|].
    assert (Hmem : forall p, In p (range_list a (-1) (Z.to_nat (range_len a (b - 1) (-1)))) <-> b <= p <= a).
    { intros p. rewrite range_list_In. unfold range_len. cbn [Z.ltb Z.compare Z.opp].
      replace (b - 1 <? a) with true by lia. rewrite Z.div_1_r. split.
      - intros (i & Hi & ->). lia.
      - intros Hp. exists (Z.to_nat (a - p)). split; lia. }
    split; [apply Hmem; lia|exact Hmem].
Qed.
