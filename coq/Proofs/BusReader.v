(* C17 -- Bus._store_reader batching and laziness of the implementation model. *)
Require Import SF.Prelude SF.PySlice SF.BusSpec SF.Bus Gen.Gen_c17.
Require Import Proofs.BusSpecFacts Proofs.BusResolve Proofs.BusSpecInv Proofs.BusListFacts Proofs.BusRel.

Section Reader.
Variable L : Type.

Notation chunk_aux := (chunk_aux L).
Notation reader_batches := (reader_batches L).
Notation labels_at := (labels_at L).

Lemma chunk_aux_concat k ls : forall cur, concat (chunk_aux k cur ls) = cur ++ ls.
Proof.
  induction ls as [|l r IH]; intro cur; cbn.
  - destruct cur; cbn; [reflexivity | rewrite app_nil_r; reflexivity].
  - destruct (Nat.eqb (length (cur ++ [l])) k); cbn; rewrite IH, <- app_assoc; reflexivity.
Qed.

Lemma chunk_aux_bound k ls : forall cur, (length cur < k)%nat ->
  Forall (fun b => (1 <= length b <= k)%nat) (chunk_aux k cur ls).
Proof.
  induction ls as [|l r IH]; intros cur H; cbn.
  - destruct cur as [|x c]; [constructor|]. constructor; [cbn in *; lia | constructor].
  - destruct (Nat.eqb (length (cur ++ [l])) k) eqn:E.
    + apply Nat.eqb_eq in E. constructor; [lia | apply IH; cbn; lia].
    + apply Nat.eqb_neq in E. apply IH. rewrite app_length in *. cbn in *. lia.
Qed.

(* the reader hands every deferred label to the store exactly once, in order, never more than max_persist at a time *)
Theorem reader_batches_spec mp ls :
  concat (reader_batches mp ls) = ls /\
  (forall k, mp = Some k -> 1 <= k -> Forall (fun b => (1 <= length b)%nat /\ Z.of_nat (length b) <= k) (reader_batches mp ls)).
Proof.
  unfold Bus.reader_batches. split.
  - destruct mp as [k|]; [|cbn; apply app_nil_r].
    destruct (k >? 1); [apply chunk_aux_concat|].
    induction ls as [|l r IH]; cbn; [reflexivity | f_equal; exact IH].
  - intros k -> K. destruct (k >? 1) eqn:G.
    + pose proof (chunk_aux_bound (Z.to_nat k) ls [] ltac:(cbn; lia)) as H.
      eapply Forall_impl; [|exact H]. cbn. intros b Hb. lia.
    + apply Forall_forall. intros b Hb. apply in_map_iff in Hb as (l & <- & _). cbn. lia.
Qed.

Variable F : Type.
Variable leqb : L -> L -> bool.
Hypothesis leqb_spec : forall x y, leqb x y = true <-> x = y.
Notation slot_of := (slot_of L F leqb).

(* LAZY: whatever an update reads from the store is a label the key addresses whose slot was still deferred *)
Theorem update_reads_lazy st (b : mbus L F) single ps e b' log :
  NoDup (mb_labels L F b) -> mb_loaded L F b = map is_some (mb_slots L F b) ->
  (single = true -> exists p, ps = [p]) ->
  m_update L F leqb st b single ps = (e, b', log) ->
  forall l, In l (concat log) ->
    In l (labels_at (mb_labels L F b) ps) /\ slot_of (mb_labels L F b) (mb_slots L F b) l = None.
Proof.
  intros N El Hs. unfold Bus.m_update.
  set (load := if mb_loaded_all L F b then false else negb (forallb (fun p => nth p (mb_loaded L F b) false) ps)).
  destruct (negb load && negb (is_some (mb_mp L F b))); [intro H; injection H as _ _ <-; intros l []|].
  destruct load eqn:Eload; cbn [negb]; [|intro H; injection H as _ _ <-; intros l []].
  set (targets := targets_at L F (mb_labels L F b) (mb_slots L F b) ps).
  destruct (run_loop L F leqb st (mb_labels L F b) (mb_mp L F b) _ targets) as [[e0|] s']; intro H; injection H as _ _ <-;
    [intros l [] |].
  assert (Hdef : forall l, In l (deferred_of L F targets) ->
            In l (labels_at (mb_labels L F b) ps) /\ slot_of (mb_labels L F b) (mb_slots L F b) l = None).
  { intros l I. unfold Bus.deferred_of in I. apply in_flat_map in I as ([l' sl] & It & Il). cbn in Il.
    destruct sl as [f|]; [contradiction|]. destruct Il as [->|[]].
    unfold targets, Bus.targets_at in It. apply in_flat_map in It as (p & Ip & It).
    destruct (nth_error (mb_labels L F b) p) as [x|] eqn:E1; [|contradiction].
    destruct (nth_error (mb_slots L F b) p) as [sx|] eqn:E2; [|contradiction].
    destruct It as [It|[]]. injection It as -> ->.
    split; [apply labels_at_In; exists p; auto|].
    unfold BusRel.slot_of. rewrite (find_idx_nth L leqb leqb_spec _ N p l E1), E2. reflexivity. }
  destruct single.
  - destruct (Hs eq_refl) as [p ->]. intros l I.
    assert (Il : In l (labels_at (mb_labels L F b) [p])).
    { rewrite <- flat_map_concat_map in I. apply in_flat_map in I as (x & Ix & [->|[]]). exact Ix. }
    split; [exact Il|].
    apply labels_at_In in Il as (q & [<-|[]] & E1).
    unfold load in Eload. destruct (mb_loaded_all L F b); [discriminate|]. cbn in Eload. rewrite andb_true_r in Eload.
    apply negb_true_iff in Eload. rewrite El in Eload.
    unfold BusRel.slot_of. rewrite (find_idx_nth L leqb leqb_spec _ N p l E1).
    destruct (nth_error (mb_slots L F b) p) as [[f|]|] eqn:E2; try reflexivity.
    rewrite (nth_error_nth _ _ false (map_nth_error is_some p _ E2)) in Eload. discriminate.
  - intros l I. apply Hdef.
    destruct (deferred_of L F targets) as [|d ds] eqn:Ed; [destruct I|].
    rewrite (proj1 (reader_batches_spec (mb_mp L F b) (d :: ds))) in I. exact I.
Qed.

End Reader.
