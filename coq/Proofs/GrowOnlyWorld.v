(* C09 -- never shared: the separation invariant of the world of frames is kept by every growth call
   and by every conversion that follows the REGENERATED decision tables (Gen/Gen_c09.v); under it a
   growth call on one frame changes what is seen of no other frame. *)
Require Import SF.Prelude SF.Dtype SF.GrowOnly SF.GrowOnlyShare Gen.Gen_c09 SF.GrowOnlyWorld.

(* ---- finite facts about the generated tables (re-checked against the source on every run) *)
Definition action_static (a : idx_action) (value_static : bool) : bool :=
  match a with ASame => value_static | AImmutable => true | ACopy => value_static | AMutable => false end.

(* index_from_optional_constructor and mutable_immutable_index_filter: a grow-only index is never
   handed on as the same object, and the result always has the staticness the target needs *)
Lemma gen_index_filters_safe : forall target_static value_static,
  (value_static = false -> gen_ifoc target_static value_static <> ASame) /\
  action_static (gen_ifoc target_static value_static) value_static = target_static /\
  (value_static = false -> gen_miif target_static value_static <> ASame) /\
  action_static (gen_miif target_static value_static) value_static = target_static.
Proof. intros [|] [|]; cbn; repeat split; intros; try discriminate; reflexivity. Qed.

(* a class builds grow-only columns exactly when it is the grow-only class *)
Lemma gen_columns_static_spec : forall k, gen_columns_static k = negb (cls_go k).
Proof. intros [| |]; reflexivity. Qed.

(* a conversion method may answer `self` only on a static class *)
Lemma gen_conv_self_static : forall src dst, gen_conv_returns_self src dst = true -> cls_go src = false.
Proof. intros [| |] [| |]; cbn; intros; try discriminate; reflexivity. Qed.

Section WorldProofs.
Variable L : Type.
Variable V : Type.
Variable leq : L -> L -> bool.
Variable as_pos : L -> option Z.
Variable cast : dtype -> V -> V.
Variable resolve : dtype -> dtype -> dtype.

Notation world := (world L V).
Notation frm := (frm L).
Notation w_grow := (w_grow L V leq as_pos cast resolve).
Notation w_to_frame := (w_to_frame L V).
Notation w_construct := (w_construct L V).
Notation wstep := (wstep L V leq as_pos cast resolve).
Notation wrun := (wrun L V leq as_pos cast resolve).
Notation w_observe := (w_observe L V).
Notation add_frame := (add_frame L V).

(* ------------------------------------------------------------------ heap facts *)
Lemma nth_upd_same : forall A (l : list A) k v x, nth_error l k = Some x -> nth_error (upd l k v) k = Some v.
Proof.
  induction l as [|y r IH]; intros [|k] v x H; cbn in *; try discriminate; eauto.
Qed.

Lemma nth_upd_other : forall A (l : list A) k j v, j <> k -> nth_error (upd l k v) j = nth_error l j.
Proof.
  induction l as [|y r IH]; intros [|k] [|j] v H; cbn; auto; try congruence.
Qed.

Lemma nth_app_old : forall A (l x : list A) k y, nth_error l k = Some y -> nth_error (l ++ x) k = Some y.
Proof.
  intros A l x k y H. rewrite nth_error_app1; auto. apply nth_error_Some. congruence.
Qed.

Lemma nth_some_lt : forall A (l : list A) k y, nth_error l k = Some y -> (k < length l)%nat.
Proof. intros A l k y H. apply nth_error_Some. congruence. Qed.

Lemma nth_app_new : forall A (l : list A) y, nth_error (l ++ [y]) (length l) = Some y.
Proof. intros. rewrite nth_error_app2 by lia. now rewrite Nat.sub_diag. Qed.

(* ------------------------------------------------------------------ the invariant *)
Definition refs_ok (w : world) (f : frm) : Prop :=
  (exists g, nth_error (w_idx w) (fr_cols f) = Some (negb (cls_go (fr_cls f)), g)) /\
  (exists t, nth_error (w_tbs w) (fr_tb f) = Some t).

(* every frame's references resolve, its columns object has the staticness of its class, and a
   grow-only frame shares neither its columns object nor its TypeBlocks object with any other frame *)
Definition sep (w : world) : Prop :=
  (forall f, In f (w_frames w) -> refs_ok w f) /\
  (forall i j fi fj, i <> j ->
     nth_error (w_frames w) i = Some fi -> nth_error (w_frames w) j = Some fj ->
     cls_go (fr_cls fi) = true -> fr_cols fi <> fr_cols fj /\ fr_tb fi <> fr_tb fj).

Lemma refs_ok_ext : forall (w : world) xi xt f,
  refs_ok w f -> refs_ok (mk_world (w_idx w ++ xi) (w_tbs w ++ xt) (w_frames w)) f.
Proof.
  intros w xi xt f [[g Hg] [t Ht]]. split; cbn.
  - exists g. now apply nth_app_old.
  - exists t. now apply nth_app_old.
Qed.

(* adding a frame whose members are new objects, or objects shared only among static frames *)
Lemma add_frame_sep : forall (w : world) xi xt nf,
  sep w ->
  refs_ok (mk_world (w_idx w ++ xi) (w_tbs w ++ xt) (w_frames w)) nf ->
  (forall f, In f (w_frames w) -> cls_go (fr_cls f) = true \/ cls_go (fr_cls nf) = true ->
             fr_cols f <> fr_cols nf /\ fr_tb f <> fr_tb nf) ->
  sep (add_frame (mk_world (w_idx w ++ xi) (w_tbs w ++ xt) (w_frames w)) nf).
Proof.
  intros w xi xt nf [Hrefs Hsep] Hnf Hnew. split.
  - intros f Hf. cbn in Hf. apply in_app_or in Hf as [Hf|[<-|[]]].
    + apply (refs_ok_ext w xi xt f (Hrefs f Hf)).
    + exact Hnf.
  - intros i j fi fj Hij Hi Hj Hgo. cbn in Hi, Hj.
    destruct (Nat.lt_ge_cases i (length (w_frames w))) as [Li|Li];
    destruct (Nat.lt_ge_cases j (length (w_frames w))) as [Lj|Lj].
    + rewrite nth_error_app1 in Hi, Hj by assumption. eapply Hsep; eauto.
    + rewrite nth_error_app1 in Hi by assumption. rewrite nth_error_app2 in Hj by assumption.
      destruct (j - length (w_frames w))%nat as [|n]; cbn in Hj; [|destruct n; discriminate].
      injection Hj as <-. apply Hnew; [eapply nth_error_In; eauto | now left].
    + rewrite nth_error_app1 in Hj by assumption. rewrite nth_error_app2 in Hi by assumption.
      destruct (i - length (w_frames w))%nat as [|n]; cbn in Hi; [|destruct n; discriminate].
      injection Hi as <-. destruct (Hnew fj); [eapply nth_error_In; eauto | now right |]. split; congruence.
    + rewrite nth_error_app2 in Hi, Hj by assumption.
      destruct (i - length (w_frames w))%nat as [|n] eqn:Ei; cbn in Hi; [|destruct n; discriminate].
      destruct (j - length (w_frames w))%nat as [|m] eqn:Ej; cbn in Hj; [|destruct m; discriminate].
      lia.
Qed.

Lemma sep_ext : forall (w : world) xi xt, sep w -> sep (mk_world (w_idx w ++ xi) (w_tbs w ++ xt) (w_frames w)).
Proof.
  intros w xi xt [Hrefs Hsep]. split; cbn.
  - intros f Hf. apply refs_ok_ext. now apply Hrefs.
  - exact Hsep.
Qed.

(* ------------------------------------------------------------------ growth *)
(* ISOLATION: a growth call on frame i changes what is seen of no other frame *)
Theorem grow_isolated : forall (w : world) i op j, sep w -> j <> i ->
  w_observe (fst (w_grow w i op)) j = w_observe w j.
Proof.
  intros w i op j [Hrefs Hsep] Hji. unfold GrowOnlyWorld.w_grow.
  destruct (nth_error (w_frames w) i) as [fi|] eqn:Ei; [|reflexivity].
  destruct (cls_go (fr_cls fi)) eqn:Ego; [|reflexivity].
  destruct (nth_error (w_idx w) (fr_cols fi)) as [[st g]|] eqn:Ec; [|reflexivity].
  destruct (nth_error (w_tbs w) (fr_tb fi)) as [t|] eqn:Et; [|reflexivity].
  destruct (M_step L V leq as_pos cast resolve (mk_fgo (fr_rows fi) g t) op) as [f' o]. cbn [fst].
  unfold GrowOnlyWorld.w_observe. cbn [w_frames w_idx w_tbs].
  destruct (nth_error (w_frames w) j) as [fj|] eqn:Ej; [|reflexivity].
  destruct (Hsep i j fi fj (not_eq_sym Hji) Ei Ej Ego) as [Hc Ht].
  rewrite !nth_upd_other by congruence. reflexivity.
Qed.

Lemma grow_sep : forall (w : world) i op, sep w -> sep (fst (w_grow w i op)).
Proof.
  intros w i op Hs. pose proof Hs as [Hrefs Hsep]. unfold GrowOnlyWorld.w_grow.
  destruct (nth_error (w_frames w) i) as [fi|] eqn:Ei; [|exact Hs].
  destruct (cls_go (fr_cls fi)) eqn:Ego; [|exact Hs].
  destruct (nth_error (w_idx w) (fr_cols fi)) as [[st g]|] eqn:Ec; [|exact Hs].
  destruct (nth_error (w_tbs w) (fr_tb fi)) as [t|] eqn:Et; [|exact Hs].
  destruct (M_step L V leq as_pos cast resolve (mk_fgo (fr_rows fi) g t) op) as [f' o]. cbn [fst].
  assert (Hst : st = negb (cls_go (fr_cls fi))).
  { destruct (Hrefs fi (nth_error_In _ _ Ei)) as [[g0 Hg0] _]. congruence. }
  split; cbn [w_frames w_idx w_tbs].
  - intros f Hf. destruct (Hrefs f Hf) as [[g1 Hg1] [t1 Ht1]]. split; cbn [w_idx w_tbs].
    + destruct (Nat.eq_dec (fr_cols f) (fr_cols fi)) as [E|E].
      * rewrite E. exists (f_cols f'). rewrite (nth_upd_same _ _ _ _ _ Ec). rewrite E in Hg1. congruence.
      * exists g1. now rewrite nth_upd_other.
    + destruct (Nat.eq_dec (fr_tb f) (fr_tb fi)) as [E|E].
      * rewrite E. exists (f_tb f'). now rewrite (nth_upd_same _ _ _ _ _ Et).
      * exists t1. now rewrite nth_upd_other.
  - exact Hsep.
Qed.

(* ------------------------------------------------------------------ conversions *)
Lemma refs_lt : forall (w : world) f, refs_ok w f ->
  (fr_cols f < length (w_idx w))%nat /\ (fr_tb f < length (w_tbs w))%nat.
Proof. intros w f [[g Hg] [t Ht]]. split; eapply nth_some_lt; eauto. Qed.

(* the frame a conversion adds: its TypeBlocks object is new; its columns object is new, or it is the
   source's and then both classes are static *)
Definition conv_shape (w w' : world) (f : frm) (dst : fcls) : Prop :=
  exists xi xt nf,
    w' = add_frame (mk_world (w_idx w ++ xi) (w_tbs w ++ xt) (w_frames w)) nf /\
    fr_rows nf = fr_rows f /\
    refs_ok (mk_world (w_idx w ++ xi) (w_tbs w ++ xt) (w_frames w)) nf /\
    ((fr_cls nf = dst /\ (length (w_tbs w) <= fr_tb nf)%nat /\
      ((length (w_idx w) <= fr_cols nf)%nat \/ (fr_cols nf = fr_cols f /\ cls_go dst = false /\ cls_go (fr_cls f) = false)))
     \/ (nf = f /\ cls_go (fr_cls f) = false)) /\
    (exists g g' t, nth_error (w_idx w) (fr_cols f) = Some (negb (cls_go (fr_cls f)), g) /\
                    nth_error (w_idx w ++ xi) (fr_cols nf) = Some (negb (cls_go (fr_cls nf)), g') /\ g_lm g' = g_lm g /\
                    nth_error (w_tbs w) (fr_tb f) = Some t /\ nth_error (w_tbs w ++ xt) (fr_tb nf) = Some t).

Lemma conv_shape_sep : forall (w w' : world) f dst, sep w -> In f (w_frames w) -> conv_shape w w' f dst -> sep w'.
Proof.
  intros w w' f dst Hs Hin (xi & xt & nf & -> & _ & Hnf & Hsh & _). pose proof Hs as [Hrefs Hsep].
  apply add_frame_sep; auto.
  intros f0 Hf0 Hgo. destruct (refs_lt w f0 (Hrefs f0 Hf0)) as [Lc Lt].
  destruct Hsh as [(Hcls & Htb & Hcols)|(-> & Hst)].
  - split; [|lia]. destruct Hcols as [Hc|(Hc & Hd & Hsrc)]; [lia|].
    rewrite Hcls, Hd in Hgo. destruct Hgo as [Hgo|Hgo]; [|discriminate].
    (* f0 is grow-only and the new frame takes the columns object of the static source f *)
    rewrite Hc. intros E.
    destruct (In_nth_error _ _ Hf0) as [i0 Hi0]. destruct (In_nth_error _ _ Hin) as [i1 Hi1].
    destruct (Nat.eq_dec i0 i1) as [Ei|Ei].
    + subst i1. rewrite Hi0 in Hi1. injection Hi1 as ->. congruence.
    + destruct (Hsep i0 i1 f0 f Ei Hi0 Hi1 Hgo) as [Hne _]. contradiction.
  - (* the result is the receiver itself, a static frame *)
    destruct Hgo as [Hgo|Hgo]; [|congruence].
    destruct (In_nth_error _ _ Hf0) as [i0 Hi0]. destruct (In_nth_error _ _ Hin) as [i1 Hi1].
    destruct (Nat.eq_dec i0 i1) as [Ei|Ei].
    + subst i1. rewrite Hi0 in Hi1. injection Hi1 as ->. congruence.
    + exact (Hsep i0 i1 f0 f Ei Hi0 Hi1 Hgo).
Qed.

Lemma observe_old : forall (w : world) xi xt nf j, sep w -> (j < length (w_frames w))%nat ->
  w_observe (add_frame (mk_world (w_idx w ++ xi) (w_tbs w ++ xt) (w_frames w)) nf) j = w_observe w j.
Proof.
  intros w xi xt nf j [Hrefs _] Hj. unfold GrowOnlyWorld.w_observe. cbn [GrowOnlyWorld.add_frame w_frames w_idx w_tbs].
  rewrite nth_error_app1 by assumption.
  destruct (nth_error (w_frames w) j) as [fj|] eqn:Ej; [|reflexivity].
  destruct (Hrefs fj (nth_error_In _ _ Ej)) as [[g Hg] [t Ht]].
  now rewrite (nth_app_old _ _ xi _ _ Hg), (nth_app_old _ _ xt _ _ Ht), Hg, Ht.
Qed.

Ltac heap_step :=
  unfold GrowOnlyWorld.init_members, GrowOnlyWorld.copy_tb, GrowOnlyWorld.apply_action, GrowOnlyWorld.idx_static,
         GrowOnlyWorld.alloc_tb, GrowOnlyWorld.alloc_idx;
  cbn [GrowOnlyWorld.copy_tb GrowOnlyWorld.alloc_tb GrowOnlyWorld.alloc_idx GrowOnlyWorld.apply_action
       GrowOnlyWorld.idx_static GrowOnlyWorld.init_members w_idx w_tbs w_frames fst snd andb negb Bool.eqb
       gen_to_frame_blocks_copied gen_to_frame_own_data gen_to_frame_own_columns gen_columns_static gen_ifoc
       gen_init_own_data_takes gen_init_copy_rebuilds gen_init_own_columns_takes gen_init_static_check
       gen_tb_copy_fresh gen_init_frame_data_copies cls_go].

(* the three shapes a conversion can have *)
Ltac shape_self w g t rows cref tref :=
  split; [|reflexivity]; cbn [fst];
  eexists [], [], (mk_frm _ rows cref tref);
  split; [rewrite !app_nil_r; destruct w; reflexivity|];
  split; [reflexivity|];
  split; [split; cbn; rewrite app_nil_r; eauto|];
  split; [right; split; reflexivity|];
  exists g, g, t; cbn; rewrite !app_nil_r; auto.

Ltac shape_own_cols w g t rows cref :=
  split; [|reflexivity]; cbn [fst];
  eexists [], [t], (mk_frm _ rows cref (length (w_tbs w)));
  split; [rewrite !app_nil_r; reflexivity|];
  split; [reflexivity|];
  split; [split; cbn; [rewrite app_nil_r; eauto | exists t; apply nth_app_new]|];
  split; [left; split; [reflexivity|]; split; [cbn; lia|]; right; cbn; auto|];
  exists g, g, t; cbn; rewrite !app_nil_r; repeat split; auto; apply nth_app_new.

Ltac shape_new_cols w g t rows :=
  split; [|reflexivity]; cbn [fst];
  eexists [_], [t], (mk_frm _ rows (length (w_idx w)) (length (w_tbs w)));
  split; [reflexivity|];
  split; [reflexivity|];
  split; [split; cbn; [eexists; apply nth_app_new | exists t; apply nth_app_new]|];
  split; [left; split; [reflexivity|]; split; [cbn; lia|]; left; cbn; lia|];
  exists g, (M_refresh g), t; cbn; repeat split; auto; try apply nth_app_new;
  unfold M_refresh; destruct (g_recache g); reflexivity.

(* every to_frame / to_frame_go / to_frame_he, by the regenerated tables, has the safe shape *)
Lemma to_frame_shape : forall (w : world) i dst f, sep w -> nth_error (w_frames w) i = Some f ->
  conv_shape w (fst (w_to_frame w i dst)) f dst /\ is_ok (snd (w_to_frame w i dst)) = true.
Proof.
  intros w i dst f [Hrefs Hsep] Hi. destruct (Hrefs f (nth_error_In _ _ Hi)) as [[g Hg] [t Ht]].
  unfold GrowOnlyWorld.w_to_frame. rewrite Hi.
  destruct f as [src rows cref tref]. cbn [fr_cls fr_rows fr_cols fr_tb] in *.
  destruct src, dst; cbn [gen_conv_returns_self cls_go negb] in *;
    repeat progress (heap_step; rewrite ?Ht, ?Hg, ?(nth_app_new _ (w_idx w))).
  - shape_self w g t rows cref tref.
  - shape_new_cols w g t rows.
  - shape_own_cols w g t rows cref.
  - shape_new_cols w g t rows.
  - shape_new_cols w g t rows.
  - shape_new_cols w g t rows.
  - shape_own_cols w g t rows cref.
  - shape_new_cols w g t rows.
  - shape_self w g t rows cref tref.
Qed.

(* dst(frame): the constructor given a Frame *)
Lemma construct_shape : forall (w : world) i dst f, sep w -> nth_error (w_frames w) i = Some f ->
  conv_shape w (fst (w_construct w i dst)) f dst /\ is_ok (snd (w_construct w i dst)) = true.
Proof.
  intros w i dst f [Hrefs Hsep] Hi. destruct (Hrefs f (nth_error_In _ _ Hi)) as [[g Hg] [t Ht]].
  unfold GrowOnlyWorld.w_construct. rewrite Hi.
  destruct f as [src rows cref tref]. cbn [fr_cls fr_rows fr_cols fr_tb] in *.
  destruct src, dst; cbn [cls_go negb] in *;
    repeat progress (heap_step; rewrite ?Ht, ?Hg, ?(nth_app_new _ (w_idx w))).
  - shape_own_cols w g t rows cref.
  - shape_new_cols w g t rows.
  - shape_own_cols w g t rows cref.
  - shape_new_cols w g t rows.
  - shape_new_cols w g t rows.
  - shape_new_cols w g t rows.
  - shape_own_cols w g t rows cref.
  - shape_new_cols w g t rows.
  - shape_own_cols w g t rows cref.
Qed.

(* ------------------------------------------------------------------ every history *)
Lemma step_sep : forall (w : world) op, sep w -> sep (fst (wstep w op)).
Proof.
  intros w [i g|i dst|i dst] Hs; cbn [GrowOnlyWorld.wstep].
  - now apply grow_sep.
  - destruct (nth_error (w_frames w) i) as [f|] eqn:Ei.
    + destruct (to_frame_shape w i dst f Hs Ei) as [Hsh _].
      eapply conv_shape_sep; eauto. eapply nth_error_In; eauto.
    + unfold GrowOnlyWorld.w_to_frame. now rewrite Ei.
  - destruct (nth_error (w_frames w) i) as [f|] eqn:Ei.
    + destruct (construct_shape w i dst f Hs Ei) as [Hsh _].
      eapply conv_shape_sep; eauto. eapply nth_error_In; eauto.
    + unfold GrowOnlyWorld.w_construct. now rewrite Ei.
Qed.

(* NEVER SHARED, for every interleaving of growth calls and conversions *)
Theorem world_sep_invariant : forall ops (w : world), sep w -> sep (wrun w ops).
Proof.
  induction ops as [|op r IH]; intros w Hs; cbn; auto. apply IH. now apply step_sep.
Qed.

(* what one step may change of what is seen: a growth call only its own frame; a conversion nothing
   that existed, and the frame it adds shows the labels and columns of its source *)
Definition step_isolated (w : world) (op : wop L V) : Prop :=
  match op with
  | WGrow i _ => forall j, j <> i -> w_observe (fst (wstep w op)) j = w_observe w j
  | WToFrame i dst | WConstruct i dst =>
      (forall j, (j < length (w_frames w))%nat -> w_observe (fst (wstep w op)) j = w_observe w j) /\
      (forall f, nth_error (w_frames w) i = Some f ->
         exists k rows labels cols,
           w_observe w i = Some (fr_cls f, rows, labels, cols) /\
           w_observe (fst (wstep w op)) (length (w_frames w)) = Some (k, rows, labels, cols))
  end.

Lemma conv_shape_isolated : forall (w w' : world) i f dst, sep w -> nth_error (w_frames w) i = Some f ->
  conv_shape w w' f dst ->
  (forall j, (j < length (w_frames w))%nat -> w_observe w' j = w_observe w j) /\
  exists k rows labels cols,
    w_observe w i = Some (fr_cls f, rows, labels, cols) /\
    w_observe w' (length (w_frames w)) = Some (k, rows, labels, cols).
Proof.
  intros w w' i f dst Hs Hi (xi & xt & nf & -> & Hrows & Hnf & _ & (g & g' & t & Hg & Hg' & Hlm & Ht & Ht')).
  split.
  - intros j Hj. now apply observe_old.
  - exists (fr_cls nf), (fr_rows f), (g_lm g), (tb_flat t). split.
    + unfold GrowOnlyWorld.w_observe. now rewrite Hi, Hg, Ht.
    + unfold GrowOnlyWorld.w_observe. cbn [GrowOnlyWorld.add_frame w_frames w_idx w_tbs].
      rewrite nth_app_new, Hg', Ht', Hrows, Hlm. reflexivity.
Qed.

Lemma step_is_isolated : forall (w : world) op, sep w -> step_isolated w op.
Proof.
  intros w [i g|i dst|i dst] Hs; cbn [step_isolated GrowOnlyWorld.wstep].
  - intros j Hj. now apply grow_isolated.
  - destruct (nth_error (w_frames w) i) as [f|] eqn:Ei.
    + destruct (to_frame_shape w i dst f Hs Ei) as [Hsh _].
      destruct (conv_shape_isolated _ _ i f dst Hs Ei Hsh) as [H1 H2]. split; [exact H1|].
      intros f0 Hf0. injection Hf0 as <-. exact H2.
    + unfold GrowOnlyWorld.w_to_frame. rewrite Ei. cbn. split; [reflexivity|]. intros f0 Hf0. discriminate.
  - destruct (nth_error (w_frames w) i) as [f|] eqn:Ei.
    + destruct (construct_shape w i dst f Hs Ei) as [Hsh _].
      destruct (conv_shape_isolated _ _ i f dst Hs Ei Hsh) as [H1 H2]. split; [exact H1|].
      intros f0 Hf0. injection Hf0 as <-. exact H2.
    + unfold GrowOnlyWorld.w_construct. rewrite Ei. cbn. split; [reflexivity|]. intros f0 Hf0. discriminate.
Qed.

Fixpoint all_isolated (w : world) (ops : list (wop L V)) : Prop :=
  match ops with
  | [] => True
  | op :: r => step_isolated w op /\ all_isolated (fst (wstep w op)) r
  end.

Theorem world_isolated : forall ops (w : world), sep w -> all_isolated w ops.
Proof.
  induction ops as [|op r IH]; intros w Hs; cbn; auto. split.
  - now apply step_is_isolated.
  - apply IH. now apply step_sep.
Qed.

End WorldProofs.
