(* C14 -- Series.fillna(Series): with unique labels the label-restricted fill of the code equals the specification, and the
   internal reindex fill value (0 / False / '' / NaT ...) never reaches a cell. *)
Require Import SF.Prelude SF.Value SF.Missing SF.MissingFill.

Lemma map_fst_combine_eq {X Y} (xs : list X) : forall ys : list Y, length xs = length ys -> map fst (combine xs ys) = xs.
Proof.
  induction xs as [|a t IH]; intros [|c ys] H; cbn in *; try discriminate; [reflexivity|]. f_equal. apply IH. lia.
Qed.

Section FillProof.
Context {L A : Type}.
Variable eqb : L -> L -> bool.
Hypothesis eqb_refl : forall a, eqb a a = true.

Lemma mem_g_none (a : L) ks : (forall b, In b ks -> eqb a b = false) -> mem_g eqb a ks = false.
Proof.
  induction ks as [|k t IH]; intros H; [reflexivity|]. cbn [mem_g].
  rewrite (H k (or_introl eq_refl)), IH; [reflexivity|]. intros b Hb. apply H. right. exact Hb.
Qed.

Lemma lookup_mem {X} (k : L) (kv : list (L * X)) : mem_g eqb k (map fst kv) = match lookup_g eqb k kv with Some _ => true | None => false end.
Proof.
  induction kv as [|[k' v] t IH]; [reflexivity|]. cbn [map fst mem_g lookup_g]. destruct (eqb k k'); [reflexivity|exact IH].
Qed.

Lemma In_filter_map_fst (Q : L -> bool) (ps : list (L * option A)) b :
  In b (filter Q (map fst (filter (fun p => is_missing (snd p)) ps))) -> In b (map fst ps).
Proof.
  intros H. apply filter_In in H as [H _]. apply in_map_iff in H as (p & <- & Hp). apply filter_In in Hp as [Hp _].
  apply in_map. exact Hp.
Qed.

(* a label of the receiver is "common" iff ITS OWN cell is missing and the container covers it *)
Lemma mem_common (Q : L -> bool) (ps : list (L * option A)) : uniq eqb (map fst ps) ->
  forall lab c, In (lab, c) ps ->
  mem_g eqb lab (filter Q (map fst (filter (fun p => is_missing (snd p)) ps))) = is_missing c && Q lab.
Proof.
  induction ps as [|[a ca] t IH]; intros Hu lab c Hin; [destruct Hin|].
  cbn [map fst uniq] in Hu. destruct Hu as [Ha Hu]. destruct Hin as [E|Hin].
  - injection E as -> ->. cbn [filter snd].
    assert (Hrest : mem_g eqb lab (filter Q (map fst (filter (fun p => is_missing (snd p)) t))) = false).
    { apply mem_g_none. intros b Hb. apply (Ha b). eapply In_filter_map_fst. exact Hb. }
    destruct (is_missing c); cbn [andb map fst filter].
    + destruct (Q lab); cbn [mem_g]; [rewrite eqb_refl; reflexivity|exact Hrest].
    + exact Hrest.
  - assert (Hne : eqb lab a = false).
    { apply (Ha lab). apply (in_map fst) in Hin. exact Hin. }
    cbn [filter snd]. destruct (is_missing ca); cbn [map fst filter].
    + destruct (Q a); cbn [mem_g]; rewrite ?Hne; apply IH; assumption.
    + apply IH; assumption.
Qed.

Theorem fillna_series_refines (fillv : option A) labels (l : list (option A)) other :
  uniq eqb labels -> length labels = length l ->
  M_fillna_series eqb fillv labels l other = S_fillna_labels_g eqb labels l other.
Proof.
  intros Hu Hlen. unfold M_fillna_series, S_fillna_labels_g.
  set (ps := combine labels l).
  assert (Hfst : map fst ps = labels) by (apply map_fst_combine_eq; exact Hlen).
  set (Q := fun lab => mem_g eqb lab (map fst other)).
  set (common := filter Q (map fst (filter (fun p => is_missing (snd p)) ps))).
  assert (Hmem : forall p, In p ps -> mem_g eqb (fst p) common = is_missing (snd p) && Q (fst p)).
  { intros [lab c] Hp. apply mem_common; [rewrite Hfst; exact Hu|exact Hp]. }
  assert (Hpoint : forall p, In p ps ->
            (if mem_g eqb (fst p) common then match lookup_g eqb (fst p) other with Some c => c | None => fillv end else snd p)
            = match snd p with Some _ => snd p | None => match lookup_g eqb (fst p) other with Some c => c | None => None end end).
  { intros p Hp. rewrite (Hmem p Hp). unfold Q. rewrite lookup_mem. destruct (snd p) as [x|]; cbn [is_missing andb]; [reflexivity|].
    destruct (lookup_g eqb (fst p) other); reflexivity. }
  destruct (existsb (fun p => is_missing (snd p)) ps) eqn:E1; cbn [negb].
  - destruct (existsb (fun p => mem_g eqb (fst p) common) ps) eqn:E2; cbn [negb].
    + apply map_ext_in. exact Hpoint.
    + apply map_ext_in. intros p Hp. rewrite <- (Hpoint p Hp).
      assert (H : mem_g eqb (fst p) common = false).
      { destruct (mem_g eqb (fst p) common) eqn:E; [|reflexivity].
        assert (existsb (fun p => mem_g eqb (fst p) common) ps = true) by (apply existsb_exists; eauto). congruence. }
      rewrite H. reflexivity.
  - apply map_ext_in. intros p Hp.
    assert (H : is_missing (snd p) = false).
    { destruct (is_missing (snd p)) eqn:E; [|reflexivity].
      assert (existsb (fun p => is_missing (snd p)) ps = true) by (apply existsb_exists; eauto). congruence. }
    destruct (snd p); [reflexivity|discriminate].
Qed.

End FillProof.

(* the specification used by the cases (labels = observed values under Python ==) is the generic one at py_val_eq *)
Lemma S_fillna_labels_is_generic {A} labels (l : list (option A)) other :
  S_fillna_labels labels l other = S_fillna_labels_g py_val_eq labels l other.
Proof.
  unfold S_fillna_labels, S_fillna_labels_g. apply map_ext. intros p. destruct (snd p); [reflexivity|].
  assert (H : forall kv, lookup (fst p) kv = @lookup_g val py_val_eq (option A) (fst p) kv).
  { induction kv as [|[k v] t IH]; [reflexivity|]. cbn. rewrite IH. reflexivity. }
  rewrite H. reflexivity.
Qed.
