(* C12 -- the LSD theorem: successive stable sorts, least significant key first, are ONE stable
   sort under the lexicographic order. This is what np.lexsort relies on and what the reversed
   depth/column order in sort_index_for_order / Frame.sort_values has to respect. *)
Require Import SF.Prelude SF.SortCore Proofs.SortStable.

Definition totalb {A} (le : A -> A -> bool) : Prop := forall x y, le x y = true \/ le y x = true.
Definition transb {A} (le : A -> A -> bool) : Prop :=
  forall x y z, le x y = true -> le y z = true -> le x z = true.
Definition preorderb {A} (le : A -> A -> bool) : Prop := totalb le /\ transb le.

Lemma lex2_total {A} (le1 le2 : A -> A -> bool) : totalb le1 -> totalb le2 -> totalb (lex2 le1 le2).
Proof.
  intros T1 T2 x y. unfold lex2.
  destruct (le1 x y) eqn:E1, (le1 y x) eqn:E2; cbn.
  - apply T2.
  - left; reflexivity.
  - right; reflexivity.
  - destruct (T1 x y); congruence.
Qed.

Lemma lex2_trans {A} (le1 le2 : A -> A -> bool) : transb le1 -> transb le2 -> transb (lex2 le1 le2).
Proof.
  intros T1 T2 x y z. unfold lex2. intros H G.
  apply andb_true_iff in H as [H1 H2]. apply andb_true_iff in G as [G1 G2].
  apply andb_true_iff. split; [exact (T1 _ _ _ H1 G1)|].
  destruct (le1 z x) eqn:Ezx; [|reflexivity]. cbn.
  (* z <=1 x: then all three are 1-equivalent and the second keys decide *)
  assert (Ezy : le1 z y = true) by exact (T1 _ _ _ Ezx H1).
  assert (Eyx : le1 y x = true) by exact (T1 _ _ _ G1 Ezx).
  rewrite Ezy in G2. rewrite Eyx in H2. cbn in *. exact (T2 _ _ _ H2 G2).
Qed.

Lemma lex2_preorder {A} (le1 le2 : A -> A -> bool) :
  preorderb le1 -> preorderb le2 -> preorderb (lex2 le1 le2).
Proof. intros [? ?] [? ?]. split; [apply lex2_total|apply lex2_trans]; assumption. Qed.

Lemma eqv_lex2 {A} (le1 le2 : A -> A -> bool) x y :
  eqv (lex2 le1 le2) x y = eqv le1 x y && eqv le2 x y.
Proof.
  unfold eqv, lex2. destruct (le1 x y), (le1 y x), (le2 x y), (le2 y x); reflexivity.
Qed.

Lemma lexs_preorder {A} (les : list (A -> A -> bool)) :
  Forall preorderb les -> preorderb (lexs les).
Proof.
  induction 1 as [|le rest H _ IH]; cbn.
  - split; [intros x y; left; reflexivity|intros x y z _ _; reflexivity].
  - apply lex2_preorder; assumption.
Qed.

Section Two.
  Context {A : Type}.
  Variables le1 le2 : A -> A -> bool.
  Hypothesis P1 : preorderb le1.
  Hypothesis P2 : preorderb le2.

  (* sorted by the primary key and, inside every primary class, by the secondary
     => sorted lexicographically *)
  Lemma lex2_sorted_char : forall l,
    StronglySorted (le le1) l ->
    (forall x, StronglySorted (le le2) (filter (eqv le1 x) l)) ->
    StronglySorted (le (lex2 le1 le2)) l.
  Proof.
    destruct P1 as [T1 R1].
    induction 1 as [|a l Hs IH Hf]; intro Hc; [constructor|].
    constructor.
    - apply IH. intro x. specialize (Hc x). cbn in Hc.
      destruct (eqv le1 x a); [inversion Hc; assumption|exact Hc].
    - apply Forall_forall. intros y Hy. unfold le, lex2.
      rewrite Forall_forall in Hf. pose proof (Hf y Hy) as Hay. unfold le in Hay. rewrite Hay. cbn.
      destruct (le1 y a) eqn:Eya; [|reflexivity]. cbn.
      specialize (Hc a). cbn in Hc. rewrite (eqv_refl le1 T1 a) in Hc.
      inversion Hc as [|? ? _ Hfa]; subst. rewrite Forall_forall in Hfa. apply Hfa.
      apply filter_In. split; [exact Hy|]. unfold eqv. rewrite Hay, Eya. reflexivity.
  Qed.

  (* two passes = one lexicographic pass *)
  Theorem lsd_two : forall l, S_sort le1 (S_sort le2 l) = S_sort (lex2 le1 le2) l.
  Proof.
    destruct P1 as [T1 R1]. destruct P2 as [T2 R2].
    destruct (lex2_preorder le1 le2 P1 P2) as [TL RL].
    intro l. apply (stable_sort_unique (lex2 le1 le2) TL RL).
    - apply lex2_sorted_char.
      + apply (S_sort_sorted le1 T1 R1).
      + intro x. rewrite (S_sort_stable le1 R1). apply StronglySorted_filter.
        apply (S_sort_sorted le2 T2 R2).
    - intro x.
      rewrite (filter_ext _ (fun y => eqv le1 x y && eqv le2 x y)) by (intro; apply eqv_lex2).
      rewrite (filter_ext (eqv (lex2 le1 le2) x) (fun y => eqv le1 x y && eqv le2 x y)) by (intro; apply eqv_lex2).
      rewrite !filter_andb.
      rewrite (S_sort_stable le1 R1).
      rewrite (filter_comm (eqv le2 x) (eqv le1 x) (S_sort le2 l)).
      rewrite (S_sort_stable le2 R2).
      apply filter_comm.
  Qed.
End Two.

Lemma S_sort_trivial {A} (l : list A) : S_sort (fun _ _ => true) l = l.
Proof. induction l as [|x t IH]; cbn; [reflexivity|]. rewrite IH. destruct t; reflexivity. Qed.

(* any number of passes *)
Theorem lsd_sorts_is_lex {A} (les : list (A -> A -> bool)) : Forall preorderb les ->
  forall l, lsd_sorts les l = S_sort (lexs les) l.
Proof.
  induction 1 as [|le rest H Hr IH]; intro l; cbn [lsd_sorts lexs].
  - symmetry. apply S_sort_trivial.
  - rewrite IH. apply lsd_two; [exact H|apply lexs_preorder; exact Hr].
Qed.

Lemma lsd_sorts_app {A} (a b : list (A -> A -> bool)) (l : list A) :
  lsd_sorts (a ++ b) l = lsd_sorts a (lsd_sorts b l).
Proof. induction a as [|le a IH]; cbn; [reflexivity|]. rewrite IH. reflexivity. Qed.

(* the loop form: keys consumed first-to-last, each pass a stable sort of the running arrangement
   (np.lexsort: "the last key in the sequence is used for the primary sort order") *)
Lemma fold_sorts_lsd {A} (les : list (A -> A -> bool)) : forall l,
  fold_left (fun perm le => S_sort le perm) les l = lsd_sorts (rev les) l.
Proof.
  induction les as [|le r IH]; intro l; cbn; [reflexivity|].
  rewrite IH, lsd_sorts_app. reflexivity.
Qed.

Theorem fold_sorts_is_lex {A} (les : list (A -> A -> bool)) : Forall preorderb les ->
  forall l, fold_left (fun perm le => S_sort le perm) les l = S_sort (lexs (rev les)) l.
Proof.
  intros H l. rewrite fold_sorts_lsd. apply lsd_sorts_is_lex. apply Forall_rev. exact H.
Qed.
