(* C02 -- what the acceptance test `tree_ordered` of the specification means: the labels that share
   a proper prefix form one contiguous run of the table ("a tree in the given order"). *)
Require Import SF.Prelude SF.PySlice SF.IndexBij SF.IxTree Proofs.IndexBijFacts Proofs.IxTreeIns Proofs.IxTreeBuild.

Section Order.
  Set Default Proof Using "All".
  Variable C : Type.
  Variable ceqb : C -> C -> bool.
  Hypothesis ceqb_spec : forall x y, ceqb x y = true <-> x = y.

  Notation label := (label C).
  Notation okc := (okc C).

  Lemma tree_ordered_from_split d : forall (labs seen : list label),
    tree_ordered_from ceqb d seen labs = true <->
    (forall pre x post, labs = pre ++ x :: post -> okb ceqb d (seen ++ pre) x = true).
  Proof.
    induction labs as [|y labs IH]; intros seen; cbn [tree_ordered_from].
    - split; [|reflexivity]. intros _ pre x post E. destruct pre; discriminate.
    - rewrite andb_true_iff, IH. split.
      + intros [H0 H] pre x post E. destruct pre as [|z pre]; cbn in E; injection E as -> ->.
        * rewrite app_nil_r. exact H0.
        * specialize (H pre x post eq_refl). rewrite <- app_assoc in H. exact H.
      + intros H. split.
        * specialize (H [] y labs eq_refl). rewrite app_nil_r in H. exact H.
        * intros pre x post E. specialize (H (y :: pre) x post). rewrite <- app_assoc. apply H. rewrite E. reflexivity.
  Qed.

  Definition contiguous (d : nat) (labs : list label) : Prop :=
    forall i j k p li lj lk, (i < j < k)%nat -> (1 <= p < d)%nat ->
      nth_error labs i = Some li -> nth_error labs j = Some lj -> nth_error labs k = Some lk ->
      firstn p li = firstn p lk -> firstn p lj = firstn p li.

  Lemma lastopt_nth {A} (l : list A) x : l <> [] -> (lastopt l = Some x <-> nth_error l (length l - 1) = Some x).
  Proof.
    intros Hne. destruct (lastopt l) as [y|] eqn:E; [|apply lastopt_None in E; contradiction].
    destruct (lastopt_split l y E) as [l0 ->]. rewrite app_length. cbn [length].
    replace (length l0 + 1 - 1)%nat with (length l0) by lia.
    rewrite nth_error_app2 by lia. rewrite Nat.sub_diag. cbn. split; intros H; exact H.
  Qed.

  Lemma split_at {A} (l : list A) k x : nth_error l k = Some x ->
    exists pre post, l = pre ++ x :: post /\ length pre = k.
  Proof.
    intros H. apply nth_error_split in H. destruct H as (pre & post & E & L). exists pre, post. auto.
  Qed.

  Theorem tree_ordered_contiguous d (labs : list label) : Forall (fun x => length x = d) labs ->
    (tree_ordered ceqb d labs = true <-> contiguous d labs).
  Proof.
    intros FL. unfold tree_ordered. rewrite tree_ordered_from_split. cbn [app].
    assert (OKC : forall pre x post, labs = pre ++ x :: post ->
                  (okb ceqb d pre x = true <-> okc x pre)).
    { intros pre x post E. rewrite Forall_forall in FL.
      assert (Lx : length x = d) by (apply FL; rewrite E; apply in_or_app; right; left; reflexivity).
      rewrite <- Lx. apply (okb_okc C ceqb ceqb_spec). }
    split.
    - (* previous-label condition => contiguity, by strong induction on k *)
      intros H i j k. revert i j. induction k as [k IHk] using lt_wf_ind.
      intros i j p li lj lk Hijk Hp Hi Hj Hk Hs.
      destruct (split_at labs k lk Hk) as (pre & post & E & Lp).
      pose proof (proj1 (OKC pre lk post E) (H pre lk post E)) as OK.
      assert (Lk : length lk = d).
      { rewrite Forall_forall in FL. apply FL. eapply nth_error_In. exact Hk. }
      assert (Hpre : forall n, (n < k)%nat -> nth_error pre n = nth_error labs n).
      { intros n Hn. rewrite E. rewrite nth_error_app1; [reflexivity|]. rewrite Lp. exact Hn. }
      destruct (OK p) as (q & Hq & Hfq).
      { lia. }
      { exists li. split; [|exact Hs]. apply nth_error_In with (n := i). rewrite Hpre by lia. exact Hi. }
      assert (Hne : pre <> []) by (destruct pre; [cbn in Lp; lia | discriminate]).
      apply (lastopt_nth pre q Hne) in Hq. rewrite Lp, Hpre in Hq by lia.
      destruct (Nat.eq_dec j (k - 1)) as [->|Hjk].
      + rewrite Hj in Hq. injection Hq as <-. congruence.
      + apply (IHk (k - 1)%nat ltac:(lia) i j p li lj q); try assumption; try lia. congruence.
    - (* contiguity => previous-label condition *)
      intros H pre x post E. apply (OKC pre x post E). intros p Hp (e & He & Hs).
      assert (Lx : length x = d).
      { rewrite Forall_forall in FL. apply FL. rewrite E. apply in_or_app. right. left. reflexivity. }
      apply In_nth_error in He. destruct He as [i Hi].
      assert (Hil : (i < length pre)%nat) by (apply nth_error_Some; congruence).
      assert (Hne : pre <> []) by (destruct pre; [cbn in Hil; lia | discriminate]).
      destruct (lastopt pre) as [q|] eqn:Eq; [|apply lastopt_None in Eq; contradiction].
      exists q. split; [reflexivity|].
      pose proof (proj1 (lastopt_nth pre q Hne) Eq) as Hq.
      assert (Hk : nth_error labs (length pre) = Some x).
      { rewrite E, nth_error_app2 by lia. rewrite Nat.sub_diag. reflexivity. }
      assert (Hi' : nth_error labs i = Some e) by (rewrite E, nth_error_app1 by lia; exact Hi).
      assert (Hq' : nth_error labs (length pre - 1) = Some q) by (rewrite E, nth_error_app1 by lia; exact Hq).
      destruct (Nat.eq_dec i (length pre - 1)) as [->|Hne2].
      + rewrite Hq in Hi. injection Hi as ->. exact Hs.
      + rewrite (H i (length pre - 1)%nat (length pre) p e q x); try assumption; try lia.
  Qed.

End Order.
