(* C20 -- list facts shared by the stack / pivot proofs: first-observed uniq, products, tabulated
   frames and their label-keyed cell maps. *)
Require Import SF.Prelude SF.RelStack.

Lemma filter_all_true {X} (p : X -> bool) (l : list X) : (forall x, In x l -> p x = true) -> filter p l = l.
Proof.
  induction l as [|x l IH]; cbn; intros H; [reflexivity|].
  rewrite (H x) by (left; reflexivity). f_equal. apply IH. intros y Hy. apply H. right. assumption.
Qed.

Lemma filter_filter' {X} (p q : X -> bool) (l : list X) :
  filter p (filter q l) = filter (fun x => p x && q x) l.
Proof.
  induction l as [|x l IH]; cbn; [reflexivity|].
  destruct (q x); cbn; [destruct (p x); cbn; rewrite IH; reflexivity|rewrite andb_false_r; assumption].
Qed.

Lemma filter_all_false' {X} (p : X -> bool) (l : list X) : (forall x, In x l -> p x = false) -> filter p l = [].
Proof.
  induction l as [|x l IH]; cbn; intros H; [reflexivity|].
  rewrite (H x) by (left; reflexivity). apply IH. intros y Hy. apply H. right. assumption.
Qed.

Lemma NoDup_app2 {X} (a b : list X) :
  NoDup a -> NoDup b -> (forall x, In x a -> ~ In x b) -> NoDup (a ++ b).
Proof.
  induction 1 as [|x a Hx Ha IH]; cbn; intros Hb Hd; [assumption|].
  constructor.
  - rewrite in_app_iff. intros [H|H]; [contradiction|]. apply (Hd x); [left; reflexivity|assumption].
  - apply IH; [assumption|]. intros y Hy. apply Hd. right. assumption.
Qed.

Section Uniq.
Context {X : Type}.
Variable eqb : X -> X -> bool.
Hypothesis eqb_spec : forall a b, eqb a b = true <-> a = b.

Lemma eqb_refl' : forall a, eqb a a = true.
Proof. intros. apply eqb_spec. reflexivity. Qed.

Lemma eqb_false' : forall a b, eqb a b = false <-> a <> b.
Proof.
  intros a b. destruct (eqb a b) eqn:E.
  - apply eqb_spec in E. split; [discriminate|contradiction].
  - split; [|reflexivity]. intros _ H. apply eqb_spec in H. congruence.
Qed.

Lemma in_uniq : forall (l : list X) x, In x (uniq eqb l) <-> In x l.
Proof.
  induction l as [|y l IH]; intros x; cbn; [tauto|].
  rewrite filter_In, IH. split.
  - intros [H|[H _]]; auto.
  - intros [H|H]; [auto|]. destruct (eqb y x) eqn:E.
    + apply eqb_spec in E. auto.
    + right. split; [assumption|reflexivity].
Qed.

Lemma NoDup_filter' (p : X -> bool) (l : list X) : NoDup l -> NoDup (filter p l).
Proof.
  induction 1 as [|x l Hx Hl IH]; cbn; [constructor|].
  destruct (p x); [constructor; [rewrite filter_In; tauto|assumption]|assumption].
Qed.

Lemma NoDup_uniq : forall l : list X, NoDup (uniq eqb l).
Proof.
  induction l as [|y l IH]; cbn; constructor.
  - rewrite filter_In. intros [_ H]. rewrite eqb_refl' in H. discriminate.
  - apply NoDup_filter'. assumption.
Qed.

Lemma uniq_NoDup_id : forall l : list X, NoDup l -> uniq eqb l = l.
Proof.
  induction 1 as [|x l Hx Hl IH]; cbn; [reflexivity|]. rewrite IH. f_equal.
  apply filter_all_true. intros y Hy.
  apply negb_true_iff. apply eqb_false'. intros ->. contradiction.
Qed.

Lemma existsb_eqb_In : forall (l : list X) x, existsb (eqb x) l = true <-> In x l.
Proof.
  intros l x. rewrite existsb_exists. split.
  - intros (y & Hy & E). apply eqb_spec in E. subst. assumption.
  - intros H. exists x. split; [assumption|apply eqb_refl'].
Qed.

(* pos_of finds the position of a member; nth gives it back *)
Lemma pos_of_In : forall (l : list X) x, In x l -> exists i, pos_of (eqb x) l = Some i /\ nth_error l i = Some x.
Proof.
  induction l as [|y l IH]; intros x H; [destruct H|]. cbn.
  destruct (eqb x y) eqn:E.
  - apply eqb_spec in E. subst. exists 0%nat. split; reflexivity.
  - destruct H as [->|H]; [rewrite eqb_refl' in E; discriminate|].
    destruct (IH x H) as (i & Hi & Hn). exists (S i). rewrite Hi. split; [reflexivity|exact Hn].
Qed.

Lemma pos_of_notin : forall (l : list X) x, ~ In x l -> pos_of (eqb x) l = None.
Proof.
  induction l as [|y l IH]; intros x H; cbn; [reflexivity|].
  destruct (eqb x y) eqn:E.
  - apply eqb_spec in E. subst. exfalso. apply H. left. reflexivity.
  - rewrite IH; [reflexivity|]. intros H'. apply H. right. assumption.
Qed.

Lemma pos_of_nth_NoDup : forall (l : list X) i x, NoDup l -> nth_error l i = Some x -> pos_of (eqb x) l = Some i.
Proof.
  induction l as [|y l IH]; intros i x ND H; [destruct i; discriminate|].
  inversion ND as [|? ? Hy Hl]; subst. destruct i as [|i]; cbn in *.
  - injection H as ->. rewrite eqb_refl'. reflexivity.
  - destruct (eqb x y) eqn:E.
    + apply eqb_spec in E. subst. exfalso. apply Hy. eapply nth_error_In. eassumption.
    + rewrite (IH i x Hl H). reflexivity.
Qed.

End Uniq.

(* products *)
Lemma in_product {X Y} (xs : list X) (ys : list Y) x y : In (x, y) (product xs ys) <-> In x xs /\ In y ys.
Proof.
  unfold product. rewrite in_flat_map. split.
  - intros (x' & Hx & H). apply in_map_iff in H as (y' & E & Hy). injection E as -> ->. auto.
  - intros [Hx Hy]. exists x. split; [assumption|]. apply in_map. assumption.
Qed.

Lemma NoDup_product {X Y} (xs : list X) (ys : list Y) : NoDup xs -> NoDup ys -> NoDup (product xs ys).
Proof.
  intros HX HY. unfold product. induction HX as [|x xs Hx HX IH]; cbn; [constructor|].
  apply NoDup_app2; [|assumption|].
  - clear - HY. induction HY as [|y ys Hy HY IH]; cbn; constructor; [|assumption].
    rewrite in_map_iff. intros (y' & E & H). injection E as ->. contradiction.
  - intros p Hp Hq. apply in_map_iff in Hp as (y & <- & _). apply in_flat_map in Hq as (x' & Hx' & Hq).
    apply in_map_iff in Hq as (y' & E & _). injection E as -> _. contradiction.
Qed.

(* tabulated frames: the label-keyed cell map of a tabulation is the tabulated function *)
Section Tab.
Context {A RL CL : Type}.
Variable req : RL -> RL -> bool.
Variable ceq : CL -> CL -> bool.
Hypothesis req_spec : forall a b, req a b = true <-> a = b.
Hypothesis ceq_spec : forall a b, ceq a b = true <-> a = b.

Lemma nth_tab_row : forall (rows : list RL) (cols : list CL) (g : RL -> CL -> A) i r,
  nth_error rows i = Some r -> nth i (tab rows cols g) [] = map (g r) cols.
Proof.
  induction rows as [|r0 rows IH]; intros cols g i r H; [destruct i; discriminate|].
  destruct i as [|i]; cbn in *; [injection H as ->; reflexivity|]. apply IH. assumption.
Qed.

Lemma nth_map_some {X Y} (f : X -> Y) (l : list X) j x d : nth_error l j = Some x -> nth j (map f l) d = f x.
Proof.
  revert j. induction l as [|y l IH]; intros [|j] H; cbn in *; try discriminate.
  - injection H as ->. reflexivity.
  - apply IH. assumption.
Qed.

Lemma get_tab : forall (rows : list RL) (cols : list CL) (g : RL -> CL -> A) d r c,
  In r rows -> In c cols ->
  get_of req ceq (mk_sframe rows cols (tab rows cols g)) d r c = g r c.
Proof.
  intros rows cols g d r c Hr Hc. unfold get_of. cbn.
  destruct (pos_of_In req req_spec rows r Hr) as (i & Hi & Hni).
  destruct (pos_of_In ceq ceq_spec cols c Hc) as (j & Hj & Hnj).
  rewrite Hi, Hj. rewrite (nth_tab_row rows cols g i r Hni). apply nth_map_some. assumption.
Qed.

End Tab.
