(* C06 -- Frame.reindex, for every block layout, is a (row label, column label) lookup: the composition of
   the index-correspondence facts (labels -> positions) with the layout independence of resize_blocks. *)
Require Import SF.Prelude SF.Dtype SF.SetAlg SF.LabelAlign SF.FrameAlign
  Proofs.SetAlgFacts Proofs.LabelAlignFacts Proofs.FrameAlignFacts.

Section PosFacts.
Variable A : Type.
Variable eqb : A -> A -> bool.
Hypothesis eqb_spec : forall x y, eqb x y = true <-> x = y.

Notation pos := (pos A eqb).
Notation index_of := (index_of A eqb).
Notation mem := (mem A eqb).
Notation index_of_In := (index_of_In A eqb eqb_spec).
Notation eqb_refl := (eqb_refl A eqb eqb_spec).
Notation eqb_false := (eqb_false A eqb eqb_spec).
Notation mem_In := (mem_In A eqb eqb_spec).

Lemma pos_cons_eq y t : pos (y :: t) y = 0%nat.
Proof. unfold LabelAlignFacts.pos. cbn. rewrite eqb_refl. reflexivity. Qed.

Lemma pos_cons_neq y t k : k <> y -> In k t -> pos (y :: t) k = S (pos t k).
Proof.
  intros Hne Hin. unfold LabelAlignFacts.pos. cbn.
  assert (E : eqb k y = false) by (apply eqb_false; exact Hne). rewrite E.
  destruct (index_of_In k t Hin) as [i Ei]. rewrite Ei. reflexivity.
Qed.

Lemma pos_lt k l : In k l -> (pos l k < length l)%nat.
Proof.
  induction l as [|y t IH]; intros H; [destruct H|].
  destruct (eqb k y) eqn:E.
  - apply eqb_spec in E. subst. rewrite pos_cons_eq. cbn. lia.
  - apply eqb_false in E. destruct H as [H|H]; [congruence|].
    rewrite pos_cons_neq by assumption. cbn. specialize (IH H). lia.
Qed.

Lemma nth_pos_self k l d : In k l -> nth (pos l k) l d = k.
Proof.
  induction l as [|y t IH]; intros H; [destruct H|].
  destruct (eqb k y) eqn:E.
  - apply eqb_spec in E. subst. rewrite pos_cons_eq. reflexivity.
  - apply eqb_false in E. destruct H as [H|H]; [congruence|].
    rewrite pos_cons_neq by assumption. cbn. apply IH. exact H.
Qed.

Lemma pos_nth j l d : NoDup l -> (j < length l)%nat -> pos l (nth j l d) = j.
Proof.
  revert j. induction l as [|y t IH]; intros j Hn Hj; [cbn in Hj; lia|].
  inversion Hn as [|? ? Hy Ht]; subst. destruct j as [|j]; cbn [nth].
  - apply pos_cons_eq.
  - cbn in Hj. assert (Hin : In (nth j t d) t) by (apply nth_In; lia).
    rewrite pos_cons_neq; [f_equal; apply IH; [exact Ht | lia] | | exact Hin].
    intros E. apply Hy. rewrite <- E. exact Hin.
Qed.

Lemma NoDup_map_pos keys l : NoDup keys -> incl keys l -> NoDup (map (pos l) keys).
Proof.
  induction 1 as [|k r Hk Hr IH]; intros Hi; cbn; constructor.
  - intros Hin. apply in_map_iff in Hin as [k' [E Hk']].
    assert (In k l) by (apply Hi; left; reflexivity).
    assert (In k' l) by (apply Hi; right; exact Hk').
    assert (k = k').
    { rewrite <- (nth_pos_self k l k) by assumption. rewrite <- E. apply nth_pos_self. assumption. }
    subst. contradiction.
  - apply IH. intros x Hx. apply Hi. right. exact Hx.
Qed.

Lemma touches_false src dst : (forall x, In x dst -> ~ In x src) -> touches A eqb src dst = false.
Proof.
  intros H. unfold touches. destruct (existsb _ dst) eqn:E; [|reflexivity].
  apply existsb_exists in E as [x [Hx Hm]]. apply mem_In in Hm. exfalso. exact (H x Hx Hm).
Qed.

Lemma touches_true src dst x : In x dst -> In x src -> touches A eqb src dst = true.
Proof.
  intros Hd Hs. unfold touches. apply existsb_exists. exists x. split; [exact Hd | apply mem_In, Hs].
Qed.

Lemma combine_map2 (X Y : Type) (f : A -> X) (g : A -> Y) l :
  combine (map f l) (map g l) = map (fun x => (f x, g x)) l.
Proof. induction l; cbn; congruence. Qed.

(* the dictionary built from the common labels maps the position of a destination label to the position
   of the same label in the source *)
Lemma dict_common src dst cs j d0 acc :
  NoDup dst -> (j < length dst)%nat -> incl cs dst ->
  fold_left (dict_step j) (map (fun x => (pos dst x, pos src x)) cs) acc =
  if mem (nth j dst d0) cs then Some (pos src (nth j dst d0)) else acc.
Proof.
  intros Hd Hj. revert acc. induction cs as [|x r IH]; intros acc Hi; cbn [map fold_left LabelAlignFacts.pos]; [reflexivity|].
  assert (Hx : In x dst) by (apply Hi; left; reflexivity).
  rewrite IH by (intros y Hy; apply Hi; right; exact Hy).
  cbn [SetAlg.mem]. unfold dict_step at 1. cbn [fst snd].
  destruct (eqb (nth j dst d0) x) eqn:E.
  - apply eqb_spec in E. rewrite <- E. rewrite (pos_nth j dst d0 Hd Hj), Nat.eqb_refl. cbn.
    destruct (mem (nth j dst d0) r); reflexivity.
  - apply eqb_false in E. cbn.
    destruct (Nat.eqb j (pos dst x)) eqn:Ej; [|reflexivity].
    exfalso. apply Nat.eqb_eq in Ej. apply E. rewrite Ej. apply nth_pos_self. exact Hx.
Qed.

(* everything resize_blocks needs to know about a correspondence built from the common labels *)
Lemma ic_of_common_props common src dst :
  NoDup src -> NoDup dst -> NoDup common -> (forall x, In x common <-> In x src /\ In x dst) ->
  exists c, ic_of_common A eqb common src dst = Some c /\
    wf_ic c /\ Forall (fun s => (s < length src)%nat) (ic_src c) /\ ic_size c = length dst /\
    ic_has_common c = touches A eqb src dst /\
    ic_is_subset c = covers A eqb src dst && negb (is_nil A dst) /\
    (forall j d0, (j < length dst)%nat ->
       dict_get j (ic_dst c) (ic_src c) =
       if mem (nth j dst d0) src then Some (pos src (nth j dst d0)) else None).
Proof.
  intros Hs Hd Hc Hi. unfold ic_of_common.
  assert (Hcs : incl common src) by (intros x Hx; apply Hi, Hx).
  assert (Hcd : incl common dst) by (intros x Hx; apply Hi, Hx).
  destruct (is_nil A common) eqn:En; cbn [negb].
  - apply (is_nil_spec A) in En. subst common.
    assert (Hno : forall x, In x dst -> ~ In x src) by (intros x Hx Hxs; exact (proj2 (Hi x) (conj Hxs Hx))).
    eexists. split; [reflexivity|]. cbn [ic_has_common ic_is_subset ic_src ic_dst ic_size].
    split; [|split; [constructor | split; [reflexivity | split; [symmetry; apply touches_false, Hno | split]]]].
    + unfold wf_ic. cbn. repeat split; try discriminate; try constructor.
    + destruct dst as [|x r]; [reflexivity|].
      symmetry. apply andb_false_iff. left.
      destruct (covers A eqb src (x :: r)) eqn:Ec; [|reflexivity].
      apply (covers_spec A eqb eqb_spec) in Ec. exfalso. apply (Hno x); [left; reflexivity | apply Ec; left; reflexivity].
    + intros j d0 Hj. unfold dict_get. cbn.
      destruct (mem (nth j dst d0) src) eqn:Em; [|reflexivity].
      apply mem_In in Em. exfalso. apply (Hno (nth j dst d0)); [apply nth_In; exact Hj | exact Em].
  - assert (Hne : common <> []) by (intros ->; discriminate).
    destruct (Z.of_nat (length common) =? Z.of_nat (length dst)) eqn:Elen.
    + assert (Hdc : incl dst common) by (apply NoDup_length_incl; [exact Hc | lia | exact Hcd]).
      assert (Hds : incl dst src) by (intros x Hx; apply Hcs, Hdc, Hx).
      assert (Hdne : dst <> []) by (intros ->; destruct common; [congruence | cbn in Elen; lia]).
      rewrite (locs_incl A eqb eqb_spec src dst Hds). eexists. split; [reflexivity|].
      cbn [ic_has_common ic_is_subset ic_src ic_dst ic_size].
      split; [|split; [|split; [reflexivity | split; [|split]]]].
      * unfold wf_ic. cbn. repeat split; try discriminate.
        -- intros _ E. apply map_eq_nil in E. contradiction.
        -- apply map_length.
        -- apply NoDup_map_pos; assumption.
      * apply Forall_forall. intros s Hin. apply in_map_iff in Hin as [k [<- Hk]]. apply pos_lt, Hds, Hk.
      * symmetry. destruct dst as [|x r]; [congruence|].
        apply (touches_true src (x :: r) x); [left; reflexivity | apply Hds; left; reflexivity].
      * symmetry. apply andb_true_iff. split; [apply (covers_spec A eqb eqb_spec), Hds|].
        destruct dst; [congruence | reflexivity].
      * intros j d0 Hj. rewrite <- (map_length (pos src) dst) at 1.
        rewrite dict_get_seq by (rewrite map_length; exact Hj).
        rewrite (nth_map_default A nat (pos src) dst j d0 0%nat Hj).
        assert (Em : mem (nth j dst d0) src = true) by (apply mem_In, Hds, nth_In, Hj).
        rewrite Em. reflexivity.
    + rewrite (locs_incl A eqb eqb_spec src common Hcs), (locs_incl A eqb eqb_spec dst common Hcd).
      eexists. split; [reflexivity|].
      cbn [ic_has_common ic_is_subset ic_src ic_dst ic_size].
      assert (Hnc : covers A eqb src dst = false).
      { destruct (covers A eqb src dst) eqn:Ec; [|reflexivity]. exfalso.
        apply (covers_spec A eqb eqb_spec) in Ec.
        assert (incl dst common) by (intros x Hx; apply Hi; split; [apply Ec, Hx | exact Hx]).
        pose proof (NoDup_incl_length Hd H). pose proof (NoDup_incl_length Hc Hcd). lia. }
      split; [|split; [|split; [reflexivity | split; [|split]]]].
      * unfold wf_ic. cbn. repeat split; try discriminate.
        -- intros _ E. apply map_eq_nil in E. contradiction.
        -- apply NoDup_map_pos; assumption.
      * apply Forall_forall. intros s Hin. apply in_map_iff in Hin as [k [<- Hk]]. apply pos_lt, Hcs, Hk.
      * symmetry. destruct common as [|x r]; [congruence|].
        apply (touches_true src dst x); [apply Hcd | apply Hcs]; left; reflexivity.
      * rewrite Hnc. reflexivity.
      * intros j d0 Hj. unfold dict_get. rewrite combine_map2.
        rewrite (dict_common src dst common j d0 None Hd Hj Hcd).
        destruct (mem (nth j dst d0) common) eqn:Em.
        -- apply mem_In in Em. apply Hi in Em as [Em _]. apply mem_In in Em. rewrite Em. reflexivity.
        -- destruct (mem (nth j dst d0) src) eqn:Em2; [|reflexivity].
           apply mem_In in Em2. assert (In (nth j dst d0) common) by (apply Hi; split; [exact Em2 | apply nth_In, Hj]).
           apply mem_In in H. congruence.
Qed.

End PosFacts.

Section FrameReindex.
Variable A V : Type.
Variable eqb : A -> A -> bool.
Variable leb : A -> A -> bool.
Variable sortable : list A -> bool.
Hypothesis eqb_spec : forall x y, eqb x y = true <-> x = y.
Variable fill : V.
Variable castf : dtype -> V -> V.
Variable fdt : dtype -> dtype.
Variable fill_dtype : dtype.

Notation col := (col V).
Notation flatten := (flatten V).

Lemma map_seq_nth_gen (X W : Type) (F : X -> W) (l : list X) (d : X) :
  map (fun j => F (nth j l d)) (seq 0 (length l)) = map F l.
Proof.
  rewrite <- (map_map (fun j => nth j l d) F). f_equal.
  induction l as [|x r IH]; [reflexivity|]. cbn [length seq map nth]. f_equal.
  rewrite <- seq_shift, map_map. exact IH.
Qed.

Lemma idx_eq_spec a b : idx_eq A eqb a b = true -> a = b.
Proof. unfold idx_eq. intros H. apply andb_true_iff in H as [_ H]. apply (list_eqb_spec A eqb eqb_spec). exact H. Qed.

(* the correspondence of one axis, with what is known about it *)
Lemma axis_ic_props objpath src dst :
  NoDup src -> (forall d, dst = Some d -> NoDup d) ->
  match reindexes A eqb src dst with
  | None => axis_ic A eqb leb sortable objpath src dst = Some None
  | Some d =>
      exists c, axis_ic A eqb leb sortable objpath src dst = Some (Some c) /\
        wf_ic c /\ Forall (fun s => (s < length src)%nat) (ic_src c) /\ ic_size c = length d /\
        ic_has_common c = touches A eqb src d /\
        ic_is_subset c = covers A eqb src d && negb (is_nil A d) /\
        (forall j d0, (j < length d)%nat ->
           dict_get j (ic_dst c) (ic_src c) =
           if mem A eqb (nth j d d0) src then Some (pos A eqb src (nth j d d0)) else None) /\
        (forall (vals : list V) cast, length vals = length src ->
           M_reindex_values V c vals fill cast = S_reindex A V eqb src vals d fill cast)
  end.
Proof.
  intros Hs Hdn. unfold axis_ic. destruct (reindexes A eqb src dst) as [d|] eqn:Er; [|reflexivity].
  assert (Hd : NoDup d).
  { unfold reindexes in Er. destruct dst as [d'|]; [|discriminate].
    destruct (idx_eq A eqb src d'); [discriminate|]. injection Er as <-. apply Hdn. reflexivity. }
  unfold M_from_correspondence.
  pose proof (M_ufunc_set_spec A eqb leb sortable eqb_spec OpInter true objpath src d (fun _ => conj Hs Hd)) as [Hn Hi].
  cbv zeta in Hn, Hi. cbn in Hi.
  set (common := snd (M_ufunc_set A eqb leb sortable OpInter true objpath src d)) in *.
  destruct (ic_of_common_props A eqb eqb_spec common src d Hs Hd Hn Hi) as [c [Ec [Hwf [Hr [Hsz [Hhc [Hsub Hdict]]]]]]].
  rewrite Ec. exists c. split; [reflexivity|]. split; [exact Hwf|]. split; [exact Hr|]. split; [exact Hsz|].
  split; [exact Hhc|]. split; [exact Hsub|]. split; [exact Hdict|].
  intros vals cast Hl.
  destruct (reindex_with_common A V eqb eqb_spec common src vals d fill cast Hs Hd Hl Hn Hi) as [c' [Ec' Er']].
  rewrite Ec in Ec'. injection Ec' as <-. exact Er'.
Qed.

(* one column through the row correspondence = the labelled specification of that column *)
Lemma S_col_rows_row index ni (c : col) objpath :
  NoDup index -> (forall d, ni = Some d -> NoDup d) -> length (snd c) = length index ->
  match reindexes A eqb index ni with
  | None => True
  | Some d => forall i, axis_ic A eqb leb sortable objpath index ni = Some (Some i) ->
      S_col_rows V fill castf fdt (Some i) c =
      (if covers A eqb index d && negb (is_nil A d) then fst c else fdt (fst c),
       S_reindex A V eqb index (snd c) d fill (castf (fst c)))
  end.
Proof.
  intros Hn Hdn Hl. pose proof (axis_ic_props objpath index ni Hn Hdn) as P.
  destruct (reindexes A eqb index ni) as [d|]; [|exact I].
  destruct P as [i0 [Ei [_ [_ [_ [_ [Hsub [_ Hvals]]]]]]]].
  intros i Ei'. rewrite Ei in Ei'. injection Ei' as <-.
  unfold S_col_rows, rows_dtype, rows_vals. rewrite Hsub, (Hvals (snd c) (castf (fst c)) Hl). reflexivity.
Qed.


Lemma rows_out_after index ni objpath ic :
  NoDup index -> (forall d, ni = Some d -> NoDup d) ->
  axis_ic A eqb leb sortable objpath index ni = Some ic ->
  rows_out (length index) ic = rows_after A eqb index ni.
Proof.
  intros Hn Hdn E. pose proof (axis_ic_props objpath index ni Hn Hdn) as P. unfold rows_after.
  destruct (reindexes A eqb index ni) as [d|].
  - destruct P as [i [Ei [_ [_ [Hsz _]]]]]. rewrite Ei in E. injection E as <-. exact Hsz.
  - rewrite P in E. injection E as <-. reflexivity.
Qed.

Lemma S_col_rows_S_row index ni objpath ic (c : col) :
  NoDup index -> (forall d, ni = Some d -> NoDup d) -> length (snd c) = length index ->
  axis_ic A eqb leb sortable objpath index ni = Some ic ->
  S_col_rows V fill castf fdt ic c = S_row A V eqb fill castf fdt index ni c.
Proof.
  intros Hn Hdn Hl E. pose proof (S_col_rows_row index ni c objpath Hn Hdn Hl) as P.
  pose proof (axis_ic_props objpath index ni Hn Hdn) as Q. unfold S_row.
  destruct (reindexes A eqb index ni) as [d|].
  - destruct Q as [i [Ei _]]. rewrite Ei in E. injection E as <-. apply P. exact Ei.
  - rewrite Q in E. injection E as <-. reflexivity.
Qed.

(* MAIN: Frame.reindex through IndexCorrespondence + resize_blocks, for EVERY block layout, is the
   (row label, column label) lookup of the specification *)
Theorem frame_reindex_label_spec opi opc index columns (t : list (blk V)) ni nc :
  Forall (wf_blk V) t -> NoDup index -> NoDup columns ->
  (forall d, ni = Some d -> NoDup d) -> (forall d, nc = Some d -> NoDup d) ->
  length (flatten t) = length columns ->
  Forall (fun c : col => length (snd c) = length index) (flatten t) ->
  exists t', M_frame_reindex_g A V eqb leb sortable fill castf fdt fill_dtype opi opc index columns t ni nc = Ok t' /\
             flatten t' = S_frame_reindex A V eqb fill castf fdt fill_dtype index columns (flatten t) ni nc.
Proof.
  intros Hwf Hni Hnc Hdi Hdc Hlen Hrows. unfold M_frame_reindex_g.
  pose proof (axis_ic_props opi index ni Hni Hdi) as Pi.
  pose proof (axis_ic_props opc columns nc Hnc Hdc) as Pc.
  assert (Eic : exists ic, axis_ic A eqb leb sortable opi index ni = Some ic).
  { destruct (reindexes A eqb index ni); [destruct Pi as [i [E _]]; eauto | eauto]. }
  assert (Ecc : exists cc, axis_ic A eqb leb sortable opc columns nc = Some cc).
  { destruct (reindexes A eqb columns nc); [destruct Pc as [c [E _]]; eauto | eauto]. }
  destruct Eic as [ic Eic]. destruct Ecc as [cc Ecc]. rewrite Eic, Ecc.
  (* the hypotheses of the layout-independence theorem *)
  assert (Hcc : match cc with
                | Some c => wf_ic c /\ Forall (fun s => (s < length (flatten t))%nat) (ic_src c)
                | None => True end).
  { destruct (reindexes A eqb columns nc).
    - destruct Pc as [c [E [Hw [Hr _]]]]. rewrite E in Ecc. injection Ecc as <-. rewrite Hlen. split; assumption.
    - rewrite Pc in Ecc. injection Ecc as <-. exact I. }
  destruct (resize_blocks_layout_independent V fill castf fdt fill_dtype t (length index) ic cc Hwf Hcc)
    as [t' [EM EF]].
  exists t'. split; [exact EM|]. rewrite EF. clear EM EF Hcc.
  unfold S_resize_cols, S_frame_reindex.
  assert (Hcol : forall c, In c (flatten t) -> S_col_rows V fill castf fdt ic c = S_row A V eqb fill castf fdt index ni c).
  { intros c Hc. apply (S_col_rows_S_row index ni opi ic c Hni Hdi); [|exact Eic].
    apply (proj1 (Forall_forall _ _) Hrows). exact Hc. }
  destruct (reindexes A eqb columns nc) as [dc|].
  - destruct Pc as [c [Ec [_ [_ [Hsz [_ [_ [Hdict _]]]]]]]]. rewrite Ec in Ecc. injection Ecc as <-.
    rewrite Hsz. destruct dc as [|d0 r]; [reflexivity|].
    set (dc := d0 :: r) in *.
    rewrite <- (map_seq_nth_gen A col _ dc d0).
    apply map_ext_in. intros j Hj. apply in_seq in Hj. rewrite (Hdict j d0) by lia.
    destruct (mem A eqb (nth j dc d0) columns) eqn:Em.
    + apply (mem_In A eqb eqb_spec) in Em.
      destruct (get_in A eqb eqb_spec col columns (flatten t) (nth j dc d0) Hlen Em) as [c0 Ec0].
      rewrite Ec0.
      pose proof (nth_pos A eqb eqb_spec col columns (flatten t) (dflt_col V fill_dtype) (nth j dc d0) Hlen Em) as Hn.
      unfold getd in Hn. rewrite Ec0 in Hn. rewrite Hn.
      apply Hcol. rewrite <- Hn. apply nth_In. rewrite Hlen. apply (pos_lt A eqb eqb_spec). exact Em.
    + assert (Hnot : ~ In (nth j dc d0) columns).
      { intros H. apply (mem_In A eqb eqb_spec) in H. congruence. }
      rewrite (get_notin A eqb eqb_spec col columns (flatten t) _ Hnot).
      f_equal. f_equal. apply (rows_out_after index ni opi ic Hni Hdi Eic).
  - rewrite Pc in Ecc. injection Ecc as <-. apply map_ext_in. exact Hcol.
Qed.

End FrameReindex.
