(* C10 -- reflexivity, the option clauses, and the hash contract of the HE variants. *)
Require Import SF.Prelude SF.Dtype SF.Value SF.Equal Proofs.EqualSpec Proofs.EqualLists.
Require Import Btauto.

(* ------------------------------------------------------------------ reflexivity *)
Lemma labels_refl sk l : sk = true -> list_eqb (cell_eq sk) l l = true.
Proof. intro H. apply list_eqb_refl_on. intros x _. apply cell_eq_refl. left. exact H. Qed.

Lemma labels_refl_clean sk l : existsb nanlike l = false -> list_eqb (cell_eq sk) l l = true.
Proof.
  intro H. apply list_eqb_refl_on. intros x Hx. apply cell_eq_refl. right.
  revert H Hx. induction l as [|y ys IH]; cbn; intros H Hx; [contradiction|].
  apply orb_false_iff in H as [H1 H2]. destruct Hx as [->|Hx]; [exact H1 | apply IH; assumption].
Qed.

Definition name_ok (v : val) : bool := negb (nanlike v).

Lemma name_refl v : name_ok v = true -> py_eq v v = true.
Proof. unfold name_ok. intro H. apply negb_true_iff in H. apply py_eq_refl. exact H. Qed.

Lemma S_index_content_refl o a : o_skipna o = true -> name_ok (ei_name a) = true -> S_index_content o a a = true.
Proof.
  intros Hs Hn. unfold S_index_content, labels_eq, opt_req.
  rewrite (labels_refl _ _ Hs), (name_refl _ Hn), dtype_eqb_refl, Z.eqb_refl.
  destruct (o_name o), (o_dtype o), (o_class o); reflexivity.
Qed.

Lemma S_tb_content_refl o a : o_skipna o = true -> S_tb_content o a a = true.
Proof.
  intro Hs. unfold S_tb_content, S_cols_content, opt_req. rewrite !Z.eqb_refl. cbn [andb].
  assert (list_eqb (col_eq (o_skipna o)) (tb_cols a) (tb_cols a) = true) as ->.
  { apply list_eqb_refl_on. intros c _. unfold col_eq. apply labels_refl. exact Hs. }
  assert (list_eqb dtype_eqb (map fst (tb_cols a)) (map fst (tb_cols a)) = true) as ->.
  { apply list_eqb_refl_on. intros d _. apply dtype_eqb_refl. }
  destruct (o_dtype o); reflexivity.
Qed.

Definition flat_axis_ok (a : eaxis) : bool :=
  match a with AFlat i => name_ok (ei_name i) | AHier _ => false end.

Lemma S_axis_content_refl o a : o_skipna o = true -> flat_axis_ok a = true -> S_axis_content o a a = true.
Proof. intros Hs Ha. destruct a as [i|h]; cbn in *; [apply S_index_content_refl; assumption | discriminate]. Qed.

(* with skipna a container equals any container of the same content, itself included *)
Theorem S_series_content_refl o a :
  o_skipna o = true -> name_ok (es_name a) = true -> flat_axis_ok (es_index a) = true -> S_series_content o a a = true.
Proof.
  intros Hs Hn Ha. unfold S_series_content, opt_req.
  rewrite (labels_refl _ _ Hs), (S_axis_content_refl o _ Hs Ha), (name_refl _ Hn), dtype_eqb_refl, Z.eqb_refl.
  destruct (o_name o), (o_dtype o), (o_class o); reflexivity.
Qed.

Theorem S_frame_content_refl o a :
  o_skipna o = true -> name_ok (ef_name a) = true ->
  flat_axis_ok (ef_index a) = true -> flat_axis_ok (ef_columns a) = true -> S_frame_content o a a = true.
Proof.
  intros Hs Hn Hi Hc. unfold S_frame_content, opt_req.
  rewrite (S_tb_content_refl o _ Hs), (S_axis_content_refl o _ Hs Hi), (S_axis_content_refl o _ Hs Hc),
    (name_refl _ Hn), Z.eqb_refl.
  destruct (o_name o), (o_class o); reflexivity.
Qed.

(* without skipna a container holding a missing cell is not content-equal to itself ... *)
Example refl_needs_skipna :
  S_tb_content (mk_eopts false false false false) (mk_etb 1 1 [(DFlt 8, [[VNaN]])]) (mk_etb 2 1 [(DFlt 8, [[VNaN]])]) = false.
Proof. reflexivity. Qed.

(* ... but every container equals itself as an object, for every option setting *)
Theorem S_equals_same_object o :
  (forall a, S_index_equals o a a = true) /\ (forall a, S_hier_equals o a a = true) /\
  (forall a, S_series_equals o a a = true) /\ (forall a, S_tb_equals o a a = true) /\
  (forall a, S_frame_equals o a a = true) /\ (forall a, S_bus_equals o a a = true).
Proof.
  repeat split; intro a;
    [unfold S_index_equals | unfold S_hier_equals | unfold S_series_equals | unfold S_tb_equals
     | unfold S_frame_equals | unfold S_bus_equals]; rewrite Z.eqb_refl; reflexivity.
Qed.

(* ------------------------------------------------------------------ each option adds exactly its clause *)
Definition base_opts (o : eopts) : eopts := mk_eopts false false false (o_skipna o).

Definition axis_clause (f : eindex -> eindex -> bool) (g : ehier -> ehier -> bool) (a b : eaxis) : bool :=
  match a, b with AFlat x, AFlat y => f x y | AHier x, AHier y => g x y | _, _ => true end.

Definition hier_names_eq (a b : ehier) : bool :=
  py_eq (eh_name a) (eh_name b) && list_eqb py_eq (map ei_name (lvl_nodes (eh_tree a))) (map ei_name (lvl_nodes (eh_tree b))).
Definition hier_dtypes_eq (a b : ehier) : bool :=
  list_eqb dtype_eqb (map ei_dtype (lvl_nodes (eh_tree a))) (map ei_dtype (lvl_nodes (eh_tree b))).
Definition hier_classes_eq (a b : ehier) : bool :=
  (eh_cls a =? eh_cls b) && list_eqb Z.eqb (map ei_cls (lvl_nodes (eh_tree a))) (map ei_cls (lvl_nodes (eh_tree b))).

Definition axis_names_eq := axis_clause (fun x y => py_eq (ei_name x) (ei_name y)) hier_names_eq.
Definition axis_dtypes_eq := axis_clause (fun x y => dtype_eqb (ei_dtype x) (ei_dtype y)) hier_dtypes_eq.
Definition axis_classes_eq := axis_clause (fun x y => ei_cls x =? ei_cls y) hier_classes_eq.

Lemma axis_options o a b :
  S_axis_content o a b =
  S_axis_content (base_opts o) a b && opt_req (o_name o) (axis_names_eq a b) &&
  opt_req (o_dtype o) (axis_dtypes_eq a b) && opt_req (o_class o) (axis_classes_eq a b).
Proof.
  unfold opt_req. destruct a as [x|x], b as [y|y]; cbn.
  - unfold S_index_content, opt_req. cbn. destruct (o_name o), (o_dtype o), (o_class o); cbn; btauto.
  - destruct (o_name o), (o_dtype o), (o_class o); reflexivity.
  - destruct (o_name o), (o_dtype o), (o_class o); reflexivity.
  - unfold S_hier_content, opt_req, hier_names_eq, hier_dtypes_eq, hier_classes_eq. cbn.
    destruct (o_name o), (o_dtype o), (o_class o); cbn; btauto.
Qed.

Definition frame_names_eq (a b : eframe) : bool :=
  py_eq (ef_name a) (ef_name b) && axis_names_eq (ef_index a) (ef_index b) && axis_names_eq (ef_columns a) (ef_columns b).
Definition frame_dtypes_eq (a b : eframe) : bool :=
  list_eqb dtype_eqb (tb_dtypes (ef_blocks a)) (tb_dtypes (ef_blocks b)) &&
  axis_dtypes_eq (ef_index a) (ef_index b) && axis_dtypes_eq (ef_columns a) (ef_columns b).
Definition frame_classes_eq (a b : eframe) : bool :=
  (ef_cls a =? ef_cls b) && axis_classes_eq (ef_index a) (ef_index b) && axis_classes_eq (ef_columns a) (ef_columns b).

Theorem frame_options_add_exactly o a b :
  S_frame_content o a b =
  S_frame_content (base_opts o) a b &&
  opt_req (o_name o) (frame_names_eq a b) && opt_req (o_dtype o) (frame_dtypes_eq a b) &&
  opt_req (o_class o) (frame_classes_eq a b).
Proof.
  unfold S_frame_content. rewrite (axis_options o (ef_index a)), (axis_options o (ef_columns a)).
  unfold S_tb_content, S_cols_content, frame_names_eq, frame_dtypes_eq, frame_classes_eq, tb_dtypes, opt_req. cbn.
  destruct (o_name o), (o_dtype o), (o_class o); cbn; btauto.
Qed.

Definition series_names_eq (a b : eseries) : bool := py_eq (es_name a) (es_name b) && axis_names_eq (es_index a) (es_index b).
Definition series_dtypes_eq (a b : eseries) : bool := dtype_eqb (es_dtype a) (es_dtype b) && axis_dtypes_eq (es_index a) (es_index b).
Definition series_classes_eq (a b : eseries) : bool := (es_cls a =? es_cls b) && axis_classes_eq (es_index a) (es_index b).

Theorem series_options_add_exactly o a b :
  S_series_content o a b =
  S_series_content (base_opts o) a b &&
  opt_req (o_name o) (series_names_eq a b) && opt_req (o_dtype o) (series_dtypes_eq a b) &&
  opt_req (o_class o) (series_classes_eq a b).
Proof.
  unfold S_series_content. rewrite (axis_options o (es_index a)).
  unfold series_names_eq, series_dtypes_eq, series_classes_eq, opt_req. cbn.
  destruct (o_name o), (o_dtype o), (o_class o); cbn; btauto.
Qed.

(* the default comparison is exactly: same shape, same labels in order, cells pairwise equal *)
Theorem frame_default_exactly sk a b :
  S_frame_content (mk_eopts false false false sk) a b = true <->
  tb_rows (ef_blocks a) = tb_rows (ef_blocks b) /\
  length (tb_cols (ef_blocks a)) = length (tb_cols (ef_blocks b)) /\
  list_eqb (col_eq sk) (tb_cols (ef_blocks a)) (tb_cols (ef_blocks b)) = true /\
  S_axis_content (mk_eopts false false false sk) (ef_index a) (ef_index b) = true /\
  S_axis_content (mk_eopts false false false sk) (ef_columns a) (ef_columns b) = true.
Proof.
  unfold S_frame_content, S_tb_content, S_cols_content, opt_req. cbn. rewrite !andb_true_r.
  rewrite !andb_true_iff, Z.eqb_eq, Z.eqb_eq, Nat2Z.inj_iff. tauto.
Qed.

(* ------------------------------------------------------------------ hash contract *)
Lemma cell_eq_clean sk x y : nanlike x = false -> cell_eq sk x y = true -> canon x = canon y.
Proof.
  unfold cell_eq. intros Hx H. apply orb_true_iff in H as [H|H].
  - apply py_eq_iff in H. tauto.
  - rewrite Hx in H. rewrite andb_false_r in H. discriminate.
Qed.

Lemma labels_canon sk a b : existsb nanlike a = false -> list_eqb (cell_eq sk) a b = true -> map canon a = map canon b.
Proof.
  revert b. induction a as [|x xs IH]; intros [|y ys] Hc H; cbn in *; try reflexivity; try discriminate.
  apply orb_false_iff in Hc as [H1 H2]. apply andb_true_iff in H as [E1 E2].
  rewrite (cell_eq_clean sk x y H1 E1), (IH ys H2 E2). reflexivity.
Qed.

Lemma tuples_canon sk (a b : list (list val)) :
  existsb (fun v => match v with VTup l => existsb nanlike l | _ => nanlike v end) (map VTup a) = false ->
  list_eqb (tuple_eq sk) a b = true -> map canon (map VTup a) = map canon (map VTup b).
Proof.
  revert b. induction a as [|x xs IH]; intros [|y ys] Hc H; cbn in *; try reflexivity; try discriminate.
  apply orb_false_iff in Hc as [H1 H2]. apply andb_true_iff in H as [E1 E2].
  unfold tuple_eq in E1. rewrite (labels_canon sk x y H1 E1). f_equal. apply IH; assumption.
Qed.

Lemma axis_hash_key o a b :
  axis_clean a = true -> S_axis_content o a b = true -> hash_key_axis a = hash_key_axis b.
Proof.
  unfold axis_clean, hash_key_axis. intros Hc H. apply negb_true_iff in Hc.
  destruct a as [x|x], b as [y|y]; cbn in *; try discriminate.
  - unfold S_index_content, labels_eq in H. repeat (apply andb_true_iff in H as [H ?]).
    apply (labels_canon (o_skipna o)); [|exact H].
    revert Hc. generalize (ei_labels x). intro l. induction l as [|v vs IH]; cbn; [reflexivity|].
    intro Hv. apply orb_false_iff in Hv as [H3 H4]. rewrite (IH H4), orb_false_r.
    destruct v; cbn in *; try reflexivity; discriminate.
  - unfold S_hier_content in H. repeat (apply andb_true_iff in H as [H ?]).
    unfold hier_labels in *. apply (tuples_canon (o_skipna o)); assumption.
Qed.

(* a == b  =>  the two hashes are taken of pairwise ==-equal labels *)
Theorem frame_eq_hash_key o a b :
  axis_clean (ef_index a) = true -> axis_clean (ef_columns a) = true ->
  S_frame_content o a b = true -> S_frame_hash_key a = S_frame_hash_key b.
Proof.
  intros Hi Hc H. unfold S_frame_content in H. repeat (apply andb_true_iff in H as [H ?]).
  unfold S_frame_hash_key. f_equal; eapply axis_hash_key; eauto.
Qed.

Theorem series_eq_hash_key o a b :
  axis_clean (es_index a) = true -> S_series_content o a b = true -> S_series_hash_key a = S_series_hash_key b.
Proof.
  intros Hi H. unfold S_series_content in H. repeat (apply andb_true_iff in H as [H ?]).
  unfold S_series_hash_key. eapply axis_hash_key; eauto.
Qed.

(* the model of __hash__ computes that key: always when the labels themselves are hashed, for flat axes when .values is *)
Lemma M_hash_axis_key uv a : uv = false \/ (exists i, a = AFlat i) -> M_hash_axis uv a = Ok (hash_key_axis a).
Proof.
  intros [->|[i ->]]; [destruct a|]; reflexivity.
Qed.

Theorem M_hash_is_key_frame uv a :
  uv = false \/ ((exists i, ef_index a = AFlat i) /\ (exists c, ef_columns a = AFlat c)) ->
  M_frame_hash_key uv a = Ok (S_frame_hash_key a).
Proof.
  intro H. unfold M_frame_hash_key, S_frame_hash_key.
  rewrite (M_hash_axis_key uv (ef_index a)), (M_hash_axis_key uv (ef_columns a)); [reflexivity | |]; tauto.
Qed.

Theorem M_hash_is_key_series uv a :
  uv = false \/ (exists i, es_index a = AFlat i) -> M_series_hash_key uv a = Ok (S_series_hash_key a).
Proof. intro H. unfold M_series_hash_key, S_series_hash_key. apply M_hash_axis_key. exact H. Qed.
