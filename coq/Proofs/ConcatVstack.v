(* C11 -- the three strategies of TypeBlocks.vstack_blocks_to_blocks (block-compatible, reblock-
   compatible after consolidation, per column) all produce the table the specification S_vstack
   describes column by column -- for every list of inputs and EVERY block layout of each. *)
Require Import SF.Prelude SF.Dtype SF.Blocks SF.Concat.

(* ------------------------------------------------------------------ dtype equality *)
Lemma c11_tunit_eqb_eq a b : tunit_eqb a b = true -> a = b.
Proof. destruct a, b; cbv; intro H; try reflexivity; discriminate. Qed.

Lemma c11_dtype_eqb_eq a b : dtype_eqb a b = true -> a = b.
Proof.
  destruct a, b; cbn; intro H; try discriminate; try reflexivity.
  - apply andb_true_iff in H as [H1 H2]. apply Bool.eqb_prop in H1. apply Z.eqb_eq in H2. congruence.
  - apply Z.eqb_eq in H. congruence.
  - apply Z.eqb_eq in H. congruence.
  - apply Z.eqb_eq in H. congruence.
  - apply Z.eqb_eq in H. congruence.
  - apply c11_tunit_eqb_eq in H. congruence.
  - apply c11_tunit_eqb_eq in H. congruence.
Qed.

(* ------------------------------------------------------------------ transpose *)
Section Transpose.
Context {X : Type}.

Lemma heads_cons_map {Y} (f : Y -> X) (g : Y -> list X) (ps : list Y) :
  heads (map (fun p => f p :: g p) ps) = map f ps.
Proof. induction ps as [|p ps IH]; cbn; [reflexivity|]. unfold heads in IH. rewrite IH. reflexivity. Qed.

Lemma tl_cons_map {Y} (f : Y -> X) (g : Y -> list X) (ps : list Y) :
  map (@tl X) (map (fun p => f p :: g p) ps) = map g ps.
Proof. rewrite map_map. apply map_ext. reflexivity. Qed.

Lemma heads_app (ps : list (list X * list X)) :
  Forall (fun p => fst p <> []) ps ->
  heads (map (fun p => fst p ++ snd p) ps) = heads (map fst ps).
Proof.
  induction 1 as [|p ps Hp _ IH]; [reflexivity|].
  cbn. unfold heads in IH. rewrite IH. destruct p as [[|x a] b]; cbn in *; [congruence|reflexivity].
Qed.

Lemma transpose_app n1 n2 : forall (ps : list (list X * list X)),
  Forall (fun p => length (fst p) = n1) ps ->
  transpose (n1 + n2) (map (fun p => fst p ++ snd p) ps) =
  transpose n1 (map fst ps) ++ transpose n2 (map snd ps).
Proof.
  induction n1 as [|n1 IH]; intros ps H.
  - cbn. f_equal. apply map_ext_in. intros p Hp.
    rewrite Forall_forall in H. specialize (H p Hp). destruct (fst p); [reflexivity|discriminate].
  - cbn. f_equal.
    + apply heads_app. eapply Forall_impl; [|exact H]. intros p Hp E. cbn beta in Hp. rewrite E in Hp. discriminate.
    + assert (HF : Forall (fun p : list X * list X => length (fst p) = n1) (map (fun p => (tl (fst p), snd p)) ps)).
      { rewrite Forall_map. eapply Forall_impl; [|exact H]. intros p Hp. cbn in *.
        destruct (fst p); [discriminate|]. cbn in *. lia. }
      pose proof (IH _ HF) as IH'. rewrite !map_map in IH'. cbn [fst snd] in IH'.
      rewrite !map_map. etransitivity; [|exact IH'].
      f_equal. apply map_ext_in. intros p Hp. rewrite Forall_forall in H. specialize (H p Hp).
      cbn beta in H. destruct (fst p); [discriminate|reflexivity].
Qed.

Lemma heads_length (cs : list (list X)) : Forall (fun c => c <> []) cs -> length (heads cs) = length cs.
Proof.
  induction 1 as [|c cs Hc _ IH]; [reflexivity|].
  cbn. unfold heads in IH. destruct c; [congruence|]. cbn. rewrite IH. reflexivity.
Qed.

Lemma transpose_lengths w : forall (cs : list (list X)),
  Forall (fun c => length c = w) cs -> Forall (fun r => length r = length cs) (transpose w cs).
Proof.
  induction w as [|w IH]; intros cs H; cbn; [constructor|].
  constructor.
  - apply heads_length. eapply Forall_impl; [|exact H]. intros c Hc E. cbn beta in Hc. rewrite E in Hc. discriminate.
  - specialize (IH (map (@tl X) cs)). rewrite map_length in IH. apply IH.
    rewrite Forall_map. eapply Forall_impl; [|exact H]. intros c Hc. destruct c; [discriminate|]. cbn in *. lia.
Qed.

Lemma transpose_length n (cs : list (list X)) : length (transpose n cs) = n.
Proof. revert cs. induction n; intro cs; cbn; [reflexivity|]. rewrite IHn. reflexivity. Qed.

End Transpose.

(* tagging every column with its input's dtype commutes with regrouping by position *)
Lemma transpose_tag {D X} w : forall (dcs : list (D * list X)),
  Forall (fun dc => length (snd dc) = w) dcs ->
  transpose w (map (fun dc => map (pair (fst dc)) (snd dc)) dcs) =
  map (combine (map fst dcs)) (transpose w (map snd dcs)).
Proof.
  induction w as [|w IH]; intros dcs H; cbn; [reflexivity|].
  f_equal.
  - clear IH. induction H as [|dc dcs Hdc _ IH2]; [reflexivity|].
    cbn. unfold heads in IH2. rewrite IH2. destruct dc as [d [|x c]]; cbn in *; [discriminate|reflexivity].
  - assert (HF : Forall (fun dc : D * list X => length (snd dc) = w) (map (fun dc => (fst dc, tl (snd dc))) dcs)).
    { rewrite Forall_map. eapply Forall_impl; [|exact H]. intros [d c] Hc. cbn in *.
      destruct c; [discriminate|]. cbn in *. lia. }
    pose proof (IH _ HF) as IH'. rewrite !map_map in IH'. cbn [fst snd] in IH'.
    rewrite !map_map. etransitivity; [|exact IH'].
    f_equal. apply map_ext. intros [d c]. cbn. destruct c; reflexivity.
Qed.

Section Vstack.
Context {A : Type}.
Variable cast : dtype -> A -> A.
Variable resolve : dtype -> dtype -> dtype.
Hypothesis resolve_obj : forall d, resolve d DObj = DObj.

Notation stack_col_M := (stack_col_with cast (M_resolve_fold resolve)).
Notation S_stack_col := (S_stack_col cast resolve).

(* concat_resolved's early exit at object is unobservable *)
Lemma resolve_fold_eq rest : forall dt, M_resolve_fold resolve dt rest = S_resolve_fold resolve dt rest.
Proof.
  induction rest as [|d r IH]; intro dt; cbn; [reflexivity|].
  destruct (dtype_eqb dt DObj) eqn:E.
  - apply c11_dtype_eqb_eq in E. subst dt. rewrite resolve_obj. apply IH.
  - apply IH.
Qed.

Lemma stack_col_eq parts : stack_col_M parts = S_stack_col parts.
Proof.
  unfold Concat.S_stack_col, stack_col_with, resolve_parts.
  destruct (map fst parts) as [|d r]; [reflexivity|]. rewrite resolve_fold_eq. reflexivity.
Qed.

(* ---- one output block ---- *)
Lemma combine_fst {D X} (ds : list D) (cp : list X) : length cp = length ds -> map fst (combine ds cp) = ds.
Proof. revert cp. induction ds as [|d ds IH]; intros [|c cp] H; cbn in *; try discriminate; [reflexivity|]. f_equal. apply IH. lia. Qed.

Lemma combine_snd_flat {D X Y} (f : X -> list Y) (ds : list D) (cp : list X) : length cp = length ds ->
  flat_map (fun p => f (snd p)) (combine ds cp) = flat_map f cp.
Proof. revert cp. induction ds as [|d ds IH]; intros [|c cp] H; cbn in *; try discriminate; [reflexivity|]. f_equal. apply IH. lia. Qed.

Lemma stack_block_columns (bs : list (block A)) w :
  bs <> [] -> Forall (fun b => bwidth b = w) bs ->
  block_columns (stack_block cast resolve bs) = map stack_col_M (transpose w (map (@block_columns A) bs)).
Proof.
  intros Hne H.
  assert (Hw : match bs with [] => O | b :: _ => bwidth b end = w).
  { destruct bs as [|b bs]; [congruence|]. inversion H. assumption. }
  unfold stack_block, block_columns at 1. cbn [b_dtype b_cols]. rewrite Hw.
  set (d := resolve_parts (M_resolve_fold resolve) (map (@b_dtype A) bs)).
  replace (map (@block_columns A) bs)
    with (map (fun dc : dtype * list (list A) => map (pair (fst dc)) (snd dc)) (map (fun b => (b_dtype b, b_cols b)) bs))
    by (rewrite map_map; reflexivity).
  rewrite transpose_tag.
  2:{ rewrite Forall_map. exact H. }
  rewrite !map_map. cbn [fst snd].
  assert (Hl : Forall (fun r : list (list A) => length r = length bs) (transpose w (map (@b_cols A) bs))).
  { pose proof (transpose_lengths w (map (@b_cols A) bs)) as T. rewrite map_length in T. apply T.
    rewrite Forall_map. exact H. }
  replace (map (fun x : block A => b_cols x) bs) with (map (@b_cols A) bs) by reflexivity.
  apply map_ext_in. intros cp Hcp. rewrite Forall_forall in Hl. specialize (Hl cp Hcp).
  unfold stack_col_with.
  assert (Hd : map (fun x : block A => b_dtype x) bs = map (@b_dtype A) bs) by reflexivity.
  rewrite combine_fst by (rewrite map_length; exact Hl).
  rewrite (combine_snd_flat (fun vs => map (cast (resolve_parts (M_resolve_fold resolve) (map (fun x : block A => b_dtype x) bs))) vs))
    by (rewrite map_length; exact Hl).
  reflexivity.
Qed.

(* ---- the block-wise strategies ---- *)
Lemma flatten_cons (b : block A) (t : tb A) : flatten (b :: t) = block_columns b ++ flatten t.
Proof. reflexivity. Qed.

Lemma block_columns_length (b : block A) : length (block_columns b) = bwidth b.
Proof. unfold block_columns, bwidth. apply map_length. Qed.

Lemma flatten_length (t : tb A) : length (flatten t) = fold_right Nat.add O (widths t).
Proof.
  induction t as [|b t IH]; [reflexivity|].
  rewrite flatten_cons, app_length, block_columns_length. cbn. rewrite IH. reflexivity.
Qed.

(* inputs whose width lists all equal w :: ws split into a head block of width w and a tail *)
Lemma split_heads w ws (protos : list (tb A)) :
  Forall (fun p => widths p = w :: ws) protos ->
  exists ps : list (block A * tb A),
    protos = map (fun q => fst q :: snd q) ps /\
    Forall (fun q => bwidth (fst q) = w) ps /\ Forall (fun q => widths (snd q) = ws) ps.
Proof.
  induction 1 as [|p protos Hp _ (ps & E & H1 & H2)].
  - exists []. repeat split; constructor.
  - destruct p as [|b t]; [discriminate|]. cbn in Hp. injection Hp as Hb Ht.
    exists ((b, t) :: ps). cbn. rewrite <- E. repeat split; constructor; assumption.
Qed.

Lemma blockwise_flatten ws : forall (protos : list (tb A)),
  protos <> [] -> Forall (fun p => widths p = ws) protos ->
  flatten (vstack_blockwise cast resolve (length ws) protos) =
  map stack_col_M (transpose (fold_right Nat.add O ws) (map (@flatten A) protos)).
Proof.
  induction ws as [|w ws IH]; intros protos Hne H; [reflexivity|].
  destruct (split_heads w ws protos H) as (ps & -> & H1 & H2).
  cbn [length vstack_blockwise fold_right].
  rewrite (heads_cons_map fst snd), (tl_cons_map fst snd), flatten_cons.
  assert (Hps : ps <> []) by (intro E; subst ps; apply Hne; reflexivity).
  erewrite (stack_block_columns _ w).
  2:{ destruct ps; [congruence|discriminate]. }
  2:{ rewrite Forall_map. exact H1. }
  rewrite IH.
  2:{ destruct ps; [congruence|discriminate]. }
  2:{ rewrite Forall_map. exact H2. }
  rewrite <- map_app. f_equal.
  rewrite !map_map.
  pose proof (transpose_app w (fold_right Nat.add O ws)
                (map (fun q : block A * tb A => (block_columns (fst q), flatten (snd q))) ps)) as T.
  rewrite !map_map in T. cbn [fst snd] in T.
  symmetry. apply T.
  rewrite Forall_map. eapply Forall_impl; [|exact H1]. intros q Hq. cbn. rewrite block_columns_length. exact Hq.
Qed.

(* ---- consolidation keeps the table and realises the reblock signature ---- *)
Lemma group_columns gd (group : list (block A)) :
  Forall (fun b => b_dtype b = gd) group ->
  map (pair gd) (flat_map (@b_cols A) group) = flatten group.
Proof.
  unfold flatten. induction 1 as [|x l Hx _ IH]; [reflexivity|].
  cbn [flat_map]. rewrite map_app. f_equal; [|exact IH]. unfold block_columns. rewrite Hx. reflexivity.
Qed.

Lemma emit_group_columns gd (group : list (block A)) :
  group <> [] -> Forall (fun b => b_dtype b = gd) group ->
  block_columns (emit_group gd group) = flatten group.
Proof.
  intros Hne H. unfold emit_group.
  destruct group as [|b [|b2 r]]; [congruence| cbn; rewrite app_nil_r; reflexivity |].
  unfold block_columns at 1. cbn [b_dtype b_cols]. apply group_columns. exact H.
Qed.

Lemma emit_group_width gd (group : list (block A)) :
  group <> [] -> bwidth (emit_group gd group) = fold_right Nat.add O (widths group).
Proof.
  intro Hne. unfold emit_group. destruct group as [|b [|b2 r]]; [congruence| cbn; lia |].
  unfold bwidth at 1. cbn [b_cols]. generalize (b :: b2 :: r). intro l.
  induction l as [|x l IH]; [reflexivity|]. cbn [flat_map]. rewrite app_length, IH. reflexivity.
Qed.

Lemma flatten_app (a b : tb A) : flatten (a ++ b) = flatten a ++ flatten b.
Proof. unfold flatten. apply flat_map_app. Qed.

Lemma consolidate_go_flatten (rest : tb A) : forall gd group_rev,
  group_rev <> [] -> Forall (fun b => b_dtype b = gd) group_rev ->
  flatten (consolidate_go gd group_rev rest) = flatten (rev group_rev ++ rest).
Proof.
  induction rest as [|b r IH]; intros gd g Hne Hg.
  - cbn [consolidate_go]. rewrite flatten_cons, app_nil_r. cbn [flatten flat_map]. rewrite app_nil_r.
    apply emit_group_columns.
    + intro E. apply Hne. destruct g; [reflexivity|]. cbn in E. destruct (rev g); discriminate.
    + apply Forall_rev. exact Hg.
  - cbn [consolidate_go]. destruct (dtype_eqb (b_dtype b) gd) eqn:E.
    + apply c11_dtype_eqb_eq in E. rewrite IH; [|discriminate|constructor; assumption].
      cbn [rev]. rewrite <- app_assoc. reflexivity.
    + rewrite flatten_cons. rewrite IH; [|discriminate|repeat constructor].
      rewrite emit_group_columns.
      * cbn [rev app]. rewrite flatten_app. reflexivity.
      * intro E2. apply Hne. destruct g; [reflexivity|]. cbn in E2. destruct (rev g); discriminate.
      * apply Forall_rev. exact Hg.
Qed.

Lemma consolidate_flatten (t : tb A) : flatten (M_consolidate t) = flatten t.
Proof.
  destruct t as [|b r]; [reflexivity|]. unfold M_consolidate.
  rewrite consolidate_go_flatten; [reflexivity|discriminate|repeat constructor].
Qed.

Lemma widths_rev_sum (g : list (block A)) : fold_right Nat.add O (widths (rev g)) = fold_right Nat.add O (widths g).
Proof.
  induction g as [|x g IH]; [reflexivity|]. cbn [rev]. unfold widths in *. rewrite map_app.
  rewrite fold_right_app. cbn. rewrite <- IH.
  generalize (map bwidth (rev g)). intro l. induction l as [|y l IHl]; cbn; [lia|]. rewrite IHl. lia.
Qed.

Lemma consolidate_go_widths (rest : tb A) : forall gd g gc,
  g <> [] -> (1 <= gc)%nat -> gc = fold_right Nat.add O (widths g) ->
  Forall (fun b => (1 <= bwidth b)%nat) rest ->
  widths (consolidate_go gd g rest) = map snd (sig_go gd gc rest).
Proof.
  induction rest as [|b r IH]; intros gd g gc Hne Hgc E Hwf.
  - cbn [consolidate_go sig_go]. destruct (0 <? gc)%nat eqn:Z0; [|apply Nat.ltb_ge in Z0; lia].
    cbn [widths map snd]. f_equal. rewrite emit_group_width.
    + rewrite widths_rev_sum. auto.
    + intro E2. apply Hne. destruct g; [reflexivity|]. cbn in E2. destruct (rev g); discriminate.
  - inversion Hwf as [|? ? Hb Hr]; subst. cbn [consolidate_go sig_go].
    destruct (dtype_eqb (b_dtype b) gd).
    + apply IH; [discriminate|lia| |assumption]. unfold widths. cbn [map fold_right]. lia.
    + cbn [widths map snd]. f_equal.
      * rewrite emit_group_width.
        -- rewrite widths_rev_sum. auto.
        -- intro E2. apply Hne. destruct g; [reflexivity|]. cbn in E2. destruct (rev g); discriminate.
      * apply IH; [discriminate|assumption| |assumption]. unfold widths. cbn [map fold_right]. lia.
Qed.

Lemma consolidate_widths (t : tb A) : Forall (fun b => (1 <= bwidth b)%nat) t ->
  widths (M_consolidate t) = map snd (M_reblock_signature t).
Proof.
  destruct t as [|b r]; [reflexivity|]. intro H. inversion H; subst.
  unfold M_consolidate, M_reblock_signature.
  apply consolidate_go_widths; [discriminate|assumption|cbn; lia|assumption].
Qed.

(* ---- the flags: consecutive agreement is agreement with the first ---- *)
Lemma list_eqb_nat_eq (a b : list nat) : list_eqb Nat.eqb a b = true -> a = b.
Proof. apply list_eqb_eq. intros x y. apply Nat.eqb_eq. Qed.

Lemma all_consecutive_key {K} (key : tb A -> K) (p : tb A -> tb A -> bool) :
  (forall a b, p a b = true -> key a = key b) ->
  forall rest prev, all_consecutive p prev rest = true -> Forall (fun t => key t = key prev) rest.
Proof.
  intros Hp. induction rest as [|t r IH]; intros prev H; [constructor|].
  cbn in H. apply andb_true_iff in H as [H1 H2].
  constructor; [apply Hp; exact H1|].
  eapply Forall_impl; [|apply IH; exact H2]. intros x Hx. rewrite Hx. apply Hp. exact H1.
Qed.

Lemma flag_key {K} (key : tb A -> K) (p : tb A -> tb A -> bool) t0 r :
  (forall a b, p a b = true -> key a = key b) ->
  flag_of p (t0 :: r) = true -> Forall (fun t => key t = key t0) (t0 :: r).
Proof.
  intros Hp H. constructor; [reflexivity|]. eapply all_consecutive_key; eassumption.
Qed.

Lemma columnwise_flatten (l : list (list (@column A))) :
  flatten (map (fun parts => mk_block (fst (stack_col_M parts)) true [snd (stack_col_M parts)]) l) = map S_stack_col l.
Proof.
  induction l as [|parts l IH]; [reflexivity|].
  cbn [map]. rewrite flatten_cons, IH. unfold block_columns. cbn [b_dtype b_cols map app].
  f_equal. rewrite <- stack_col_eq. destruct (stack_col_M parts); reflexivity.
Qed.

Definition wf_widths (t : tb A) : Prop := Forall (fun b => (1 <= bwidth b)%nat) t.

(* THE REFINEMENT: whatever the layouts, whichever strategy the flags select *)
Theorem vstack_refines (ts : list (tb A)) :
  ts <> [] -> Forall wf_widths ts ->
  flatten (M_vstack cast resolve ts) =
  S_vstack cast resolve (total_width (hd [] ts)) (map (@flatten A) ts).
Proof.
  intros Hne Hwf. destruct ts as [|t0 r]; [congruence|]. clear Hne.
  unfold M_vstack, M_vstack_flags, S_vstack. cbn [hd].
  destruct (flag_of M_block_compatible (t0 :: r)) eqn:BC; cbn [orb negb andb].
  - (* block compatible *)
    pose proof (flag_key (@widths A) M_block_compatible t0 r) as K.
    assert (Hk : Forall (fun t => widths t = widths t0) (t0 :: r)).
    { apply K; [|exact BC]. intros a b H. unfold M_block_compatible in H.
      apply andb_true_iff in H as [_ H]. apply list_eqb_nat_eq. exact H. }
    cbn [hd]. replace (length t0) with (length (widths t0)) by (unfold widths; apply map_length).
    rewrite blockwise_flatten; [|discriminate|exact Hk].
    unfold total_width. rewrite flatten_length.
    apply map_ext. intro parts. apply stack_col_eq.
  - destruct (flag_of M_reblock_compatible (t0 :: r)) eqn:RC; cbn [orb negb andb].
    + (* reblock compatible: consolidate first *)
      pose proof (flag_key (fun t => map snd (M_reblock_signature t)) M_reblock_compatible t0 r) as K.
      assert (Hk : Forall (fun t => map snd (M_reblock_signature t) = map snd (M_reblock_signature t0)) (t0 :: r)).
      { apply K; [|exact RC]. intros a b H. unfold M_reblock_compatible in H.
        apply andb_true_iff in H as [_ H]. apply list_eqb_nat_eq. exact H. }
      cbn [map hd].
      replace (length (M_consolidate t0)) with (length (widths (M_consolidate t0))) by (unfold widths; apply map_length).
      change (M_consolidate t0 :: map (@M_consolidate A) r) with (map (@M_consolidate A) (t0 :: r)).
      rewrite blockwise_flatten; [|discriminate|].
      * rewrite map_map.
        rewrite (map_ext (fun x => flatten (M_consolidate x)) (@flatten A)) by (intro; apply consolidate_flatten).
        rewrite <- flatten_length, consolidate_flatten. unfold total_width.
        apply map_ext. intro parts. apply stack_col_eq.
      * rewrite Forall_map. rewrite Forall_forall in Hk, Hwf. apply Forall_forall. intros t Ht.
        rewrite !consolidate_widths; [apply Hk; exact Ht| apply Hwf; left; reflexivity | apply Hwf; exact Ht].
    + (* neither: per column *)
      apply columnwise_flatten.
Qed.

End Vstack.
