(* C15 -- the concrete refinement: the model of TypeBlocks.ufunc_axis_skipna, driven by the table regenerated
   from container.py, equals the per-line specification for every block layout. *)
Require Import SF.Prelude SF.Value SF.Dtype SF.Reduce Gen.Gen_c15_table Proofs.ReduceFold.
From Coq Require Import QArith.
Local Open Scope Z_scope.

(* ------------------------------------------------------------------ S_line as a semigroup fold *)
Lemma present_cons_some : forall q t, present (Some q :: t) = q :: present t.
Proof. reflexivity. Qed.
Lemma present_cons_none : forall t, present (None :: t) = present t.
Proof. reflexivity. Qed.

Lemma fold_skip_present (op : Q -> Q -> Q) : forall l acc,
  fold_left (lift_skip op) l acc =
  match acc with
  | Some a => Some (fold_left op (present l) a)
  | None => match present l with [] => None | q :: t => Some (fold_left op t q) end
  end.
Proof.
  induction l as [|c t IH]; intros acc.
  - destruct acc; reflexivity.
  - cbn [fold_left]. rewrite IH. destruct acc as [a|]; destruct c as [q|];
      rewrite ?present_cons_some, ?present_cons_none; reflexivity.
Qed.

Lemma fold_prop_none {X} (op : X -> X -> X) : forall l, fold_left (lift_prop op) l None = None.
Proof. induction l as [|c t IH]; [reflexivity|]. cbn. exact IH. Qed.

Lemma fold_prop_present (op : Q -> Q -> Q) : forall l a,
  fold_left (lift_prop op) l (Some a) =
  if has_missing l then None else Some (fold_left op (present l) a).
Proof.
  induction l as [|c t IH]; intros a; [reflexivity|].
  destruct c as [q|].
  - cbn [fold_left lift_prop]. rewrite IH. reflexivity.
  - cbn [fold_left lift_prop]. rewrite fold_prop_none. reflexivity.
Qed.

Definition out_of_num (m : option Q) : res out :=
  match m with Some q => Ok (ONum q) | None => Ok ONaN end.

Lemma inj_out_num : forall m, inj_out (out_of_num m) = m.
Proof. intros [q|]; reflexivity. Qed.

Definition lift (skipna : bool) {X} (op : X -> X -> X) := if skipna then lift_skip op else lift_prop op.
Lemma lift_assoc (skipna : bool) {X} (op : X -> X -> X) :
  (forall a b c, op (op a b) c = op a (op b c)) ->
  forall a b c, lift skipna op (lift skipna op a b) c = lift skipna op a (lift skipna op b c).
Proof. destruct skipna; [apply lift_skip_assoc | apply lift_prop_assoc]. Qed.

Lemma S_line_min_fold : forall skipna ddof l, l <> [] ->
  S_line Fmin skipna ddof l = out_of_num (fold1 (lift skipna qminl) None (map (fun c : cell => c) l)).
Proof.
  intros skipna ddof l Hl. rewrite map_id. destruct l as [|c t]; [congruence|].
  unfold S_line, fold1, lift. destruct skipna.
  - rewrite andb_false_r. cbn [is_nil S_present]. rewrite fold_skip_present.
    destruct c as [a|]; rewrite ?present_cons_some, ?present_cons_none.
    + reflexivity.
    + destruct (present t); reflexivity.
  - rewrite andb_true_r. destruct c as [a|].
    + rewrite fold_prop_present. cbn [has_missing existsb is_none orb].
      change (existsb is_none t) with (has_missing t).
      destruct (has_missing t); [reflexivity|]. reflexivity.
    + rewrite fold_prop_none. reflexivity.
Qed.

Lemma S_line_max_fold : forall skipna ddof l, l <> [] ->
  S_line Fmax skipna ddof l = out_of_num (fold1 (lift skipna qmaxl) None (map (fun c : cell => c) l)).
Proof.
  intros skipna ddof l Hl. rewrite map_id. destruct l as [|c t]; [congruence|].
  unfold S_line, fold1, lift. destruct skipna.
  - rewrite andb_false_r. cbn [is_nil S_present]. rewrite fold_skip_present.
    destruct c as [a|]; rewrite ?present_cons_some, ?present_cons_none.
    + reflexivity.
    + destruct (present t); reflexivity.
  - rewrite andb_true_r. destruct c as [a|].
    + rewrite fold_prop_present. cbn [has_missing existsb is_none orb].
      change (existsb is_none t) with (has_missing t).
      destruct (has_missing t); [reflexivity|]. reflexivity.
    + rewrite fold_prop_none. reflexivity.
Qed.

(* logical reductions *)
Lemma qnonzero_qbool : forall b, qnonzero (qbool b) = b.
Proof. intros []; reflexivity. Qed.

Definition g_all_skip (c : cell) : bool := match c with None => true | Some q => qnonzero q end.
Definition g_any_skip (c : cell) : bool := match c with None => false | Some q => qnonzero q end.
Definition out_of_bool (b : bool) : res out := Ok (ONum (qbool b)).
Definition g_logic (c : cell) : option bool := option_map qnonzero c.
Definition out_of_obool (m : option bool) : res out :=
  match m with Some b => Ok (ONum (qbool b)) | None => Err "TypeError" end.

Lemma fold_andb_skip : forall l acc,
  fold_left andb (map g_all_skip l) acc = acc && forallb qnonzero (present l).
Proof.
  induction l as [|c t IH]; intros acc; cbn [map fold_left].
  - cbn. rewrite andb_true_r. reflexivity.
  - rewrite IH. destruct c as [q|]; rewrite ?present_cons_some, ?present_cons_none; cbn [g_all_skip forallb].
    + rewrite andb_assoc. reflexivity.
    + rewrite andb_true_r. reflexivity.
Qed.
Lemma fold_orb_skip : forall l acc,
  fold_left orb (map g_any_skip l) acc = acc || existsb qnonzero (present l).
Proof.
  induction l as [|c t IH]; intros acc; cbn [map fold_left].
  - cbn. rewrite orb_false_r. reflexivity.
  - rewrite IH. destruct c as [q|]; rewrite ?present_cons_some, ?present_cons_none; cbn [g_any_skip existsb].
    + rewrite orb_assoc. reflexivity.
    + rewrite orb_false_r. reflexivity.
Qed.

Lemma S_line_all_skip_fold : forall ddof l, l <> [] ->
  S_line Fall true ddof l = out_of_bool (fold1 andb true (map g_all_skip l)).
Proof.
  intros ddof l Hl. destruct l as [|c t]; [congruence|].
  unfold S_line. rewrite andb_false_r. cbn [S_present map fold1]. rewrite fold_andb_skip.
  unfold out_of_bool. destruct c as [q|]; rewrite ?present_cons_some, ?present_cons_none; reflexivity.
Qed.
Lemma S_line_any_skip_fold : forall ddof l, l <> [] ->
  S_line Fany true ddof l = out_of_bool (fold1 orb false (map g_any_skip l)).
Proof.
  intros ddof l Hl. destruct l as [|c t]; [congruence|].
  unfold S_line. rewrite andb_false_r. cbn [S_present map fold1]. rewrite fold_orb_skip.
  unfold out_of_bool. destruct c as [q|]; rewrite ?present_cons_some, ?present_cons_none; reflexivity.
Qed.

Lemma fold_prop_logic (op : bool -> bool -> bool) : forall l a,
  fold_left (lift_prop op) (map g_logic l) (Some a) =
  if has_missing l then None else Some (fold_left op (map qnonzero (present l)) a).
Proof.
  induction l as [|c t IH]; intros a; [reflexivity|].
  destruct c as [q|]; cbn [map g_logic option_map fold_left lift_prop].
  - rewrite IH. reflexivity.
  - rewrite fold_prop_none. reflexivity.
Qed.
Lemma fold_andb_forallb : forall (l : list bool) a, fold_left andb l a = a && forallb (fun b => b) l.
Proof.
  induction l as [|b t IH]; intros a; cbn; [rewrite andb_true_r; reflexivity|].
  rewrite IH, andb_assoc. reflexivity.
Qed.
Lemma fold_orb_existsb : forall (l : list bool) a, fold_left orb l a = a || existsb (fun b => b) l.
Proof.
  induction l as [|b t IH]; intros a; cbn; [rewrite orb_false_r; reflexivity|].
  rewrite IH, orb_assoc. reflexivity.
Qed.
Lemma forallb_map_id : forall (l : list Q), forallb (fun b => b) (map qnonzero l) = forallb qnonzero l.
Proof. induction l; cbn; congruence. Qed.
Lemma existsb_map_id : forall (l : list Q), existsb (fun b => b) (map qnonzero l) = existsb qnonzero l.
Proof. induction l; cbn; congruence. Qed.

Lemma S_line_all_prop_fold : forall ddof l, l <> [] ->
  S_line Fall false ddof l = out_of_obool (fold1 (lift_prop andb) None (map g_logic l)).
Proof.
  intros ddof l Hl. destruct l as [|c t]; [congruence|].
  unfold S_line. rewrite andb_true_r. cbn [map fold1]. destruct c as [q|]; cbn [g_logic option_map].
  - rewrite fold_prop_logic. cbn [has_missing existsb is_none orb]. change (existsb is_none t) with (has_missing t).
    destruct (has_missing t); [reflexivity|].
    cbn [is_logical S_present out_of_obool]. rewrite present_cons_some, fold_andb_forallb, forallb_map_id. reflexivity.
  - rewrite fold_prop_none. reflexivity.
Qed.
Lemma S_line_any_prop_fold : forall ddof l, l <> [] ->
  S_line Fany false ddof l = out_of_obool (fold1 (lift_prop orb) None (map g_logic l)).
Proof.
  intros ddof l Hl. destruct l as [|c t]; [congruence|].
  unfold S_line. rewrite andb_true_r. cbn [map fold1]. destruct c as [q|]; cbn [g_logic option_map].
  - rewrite fold_prop_logic. cbn [has_missing existsb is_none orb]. change (existsb is_none t) with (has_missing t).
    destruct (has_missing t); [reflexivity|].
    cbn [is_logical S_present out_of_obool]. rewrite present_cons_some, fold_orb_existsb, existsb_map_id. reflexivity.
  - rewrite fold_prop_none. reflexivity.
Qed.

Lemma inj_out_bool : forall b, g_all_skip (inj_out (out_of_bool b)) = b.
Proof. intros []; reflexivity. Qed.
Lemma inj_out_bool_any : forall b, g_any_skip (inj_out (out_of_bool b)) = b.
Proof. intros []; reflexivity. Qed.
Lemma inj_out_obool : forall m, g_logic (inj_out (out_of_obool m)) = m.
Proof. intros [[]|]; reflexivity. Qed.

(* ------------------------------------------------------------------ well-formed block lists *)
Lemma blk_cols_map {A B} (g : A -> B) (b : blk A) : blk_cols (blk_map g b) = map (map g) (blk_cols b).
Proof. destruct b; reflexivity. Qed.

Lemma wf_cols_nonempty : forall r bs, wf_frame r bs = true ->
  Forall (fun b => blk_cols b <> []) (map vblk_cells bs).
Proof.
  intros r bs H. unfold wf_frame in H. rewrite forallb_forall in H.
  apply Forall_forall. intros b Hb. apply in_map_iff in Hb as [vb [<- Hin]].
  specialize (H vb Hin). unfold wf_blk in H. apply andb_true_iff in H as [_ H].
  unfold vblk_cells. rewrite blk_cols_map. destruct (blk_cols (snd vb)); [discriminate|]. discriminate.
Qed.

Lemma wf_single_rows : forall r bs (short : bool), wf_frame r bs = true ->
  Forall (fun b => short = true -> blk_single b <> None -> (r <= 1)%nat) (map vblk_cells bs).
Proof.
  intros r bs short H. unfold wf_frame in H. rewrite forallb_forall in H.
  apply Forall_forall. intros b Hb. apply in_map_iff in Hb as [vb [<- Hin]].
  specialize (H vb Hin). unfold wf_blk in H. apply andb_true_iff in H as [H _].
  rewrite forallb_forall in H. intros _ Hs.
  unfold vblk_cells in Hs. destruct vb as [dt [c|cs]]; cbn in Hs, H.
  - destruct c as [|x [|y c]]; try (exfalso; apply Hs; reflexivity).
    specialize (H [x] (or_introl eq_refl)). apply andb_true_iff in H as [H _].
    apply Nat.eqb_eq in H. cbn in H. lia.
  - destruct cs as [|[|x [|y c]] [|c2 cs]]; try (exfalso; apply Hs; reflexivity).
    specialize (H [x] (or_introl eq_refl)). apply andb_true_iff in H as [H _].
    apply Nat.eqb_eq in H. cbn in H. lia.
Qed.

(* ------------------------------------------------------------------ the composable path, instantiated *)
Lemma prep_geq {Mo} (f : rfunc) (skipna : bool) (g : cell -> Mo) :
  (forall x, g (inj_out (S_line f skipna 0 [x])) = g x) ->
  forall bs : list vblk,
  Forall2 (blk_geq g) (map (fun b : vblk => prep_blk f skipna (is_kb (kind_of (fst b))) (vblk_cells b)) bs)
          (map vblk_cells bs).
Proof.
  intros Hc. induction bs as [|b bs IH]; [constructor|].
  cbn [map]. constructor; [|exact IH].
  unfold prep_blk. destruct (vblk_cells b) as [c|cs]; [|reflexivity].
  destruct (is_logical f && negb (is_kb (kind_of (fst b)))); [|reflexivity].
  cbn. rewrite map_map. apply map_ext. exact Hc.
Qed.

Lemma comp_path {Mo} (f : rfunc) (skipna : bool) (ddof : Z)
      (op : Mo -> Mo -> Mo) (d : Mo) (g : cell -> Mo) (out_of : Mo -> res out) :
  (forall a b c, op (op a b) c = op a (op b c)) ->
  (forall m, g (inj_out (out_of m)) = m) ->
  (forall dd l, l <> [] -> S_line f skipna dd l = out_of (fold1 op d (map g l))) ->
  forall r bs short, wf_frame r bs = true ->
  M_axis1_comp None (S_line f skipna ddof) inj_out short r
    (map (fun b : vblk => prep_blk f skipna (is_kb (kind_of (fst b))) (vblk_cells b)) bs)
  = map (S_line f skipna ddof) (rows_of None r (frame_cells bs)).
Proof.
  intros Hassoc Hinj Hfold r bs short Hwf.
  apply (M_axis1_comp_rows None op Hassoc d g out_of inj_out Hinj (S_line f skipna ddof) (Hfold ddof)).
  - apply prep_geq. intros x. rewrite (Hfold 0 [x]) by discriminate. cbn [map fold1 fold_left]. apply Hinj.
  - eapply wf_cols_nonempty; eassumption.
  - apply wf_single_rows; assumption.
Qed.
