(* C17 -- Bus.values / Bus.items() of the implementation model against the specification. *)
Require Import SF.Prelude SF.PySlice SF.BusSpec SF.Bus Gen.Gen_c17.
Require Import Proofs.BusSpecFacts Proofs.BusResolve Proofs.BusSpecInv Proofs.BusListFacts Proofs.BusCache Proofs.BusRel
               Proofs.BusLoop Proofs.BusUpdate Proofs.BusDerive Proofs.BusSelect.

Section Values.
Variables L F : Type.
Variable leqb : L -> L -> bool.
Hypothesis leqb_spec : forall x y, leqb x y = true <-> x = y.

Notation store := (store L F).
Notation mbus := (mbus L F).
Notation sbus := (sbus L).
Notation mem := (mem L leqb).
Notation find_idx := (find_idx L leqb).
Notation la_touch := (la_touch L leqb).
Notation s_touch := (s_touch L leqb).
Notation s_access_all := (s_access_all L leqb).
Notation eager := (eager L F leqb).
Notation s_coherent := (s_coherent L F).
Notation cache_ok := (cache_ok L).
Notation isld := (isld L leqb).
Notation slot_of := (slot_of L F leqb).
Notation labels_at := (labels_at L).
Notation m_update := (m_update L F leqb).
Notation Rel := (Rel L F leqb).
Notation mode_ok := (mode_ok L F leqb).
Notation store_ok := (store_ok L F).

Lemma slot_of_cons_head x r (s : option F) sr : slot_of (x :: r) (s :: sr) x = s.
Proof. unfold BusRel.slot_of. cbn. rewrite (proj2 (leqb_spec x x) eq_refl). reflexivity. Qed.

Lemma slot_of_cons_tail x r (s : option F) sr y : ~ In x r -> In y r -> slot_of (x :: r) (s :: sr) y = slot_of r sr y.
Proof.
  intros Hx Hy. unfold BusRel.slot_of. cbn.
  destruct (leqb x y) eqn:Q; [apply leqb_spec in Q; subst; contradiction|].
  destruct (BusSpec.find_idx L leqb y r); reflexivity.
Qed.

Lemma slots_as_map labels : forall slots : list (option F), NoDup labels -> length slots = length labels ->
  slots = map (slot_of labels slots) labels.
Proof.
  induction labels as [|x r IH]; intros [|s sr] N H; cbn in *; try lia; try discriminate; [reflexivity|].
  inversion N as [|? ? Hx Nr]; subst.
  rewrite slot_of_cons_head. f_equal.
  rewrite (map_ext_in _ (slot_of r sr)); [apply IH; [exact Nr | lia]|].
  intros y Hy. apply slot_of_cons_tail; assumption.
Qed.

(* when every label is held, the slots are the eager Frames *)
Lemma rel_all_loaded st m s : Rel st m s -> (forall l, In l (mb_labels L F m) -> In l (sb_cache L s)) ->
  mb_slots L F m = map (eager st) (mb_labels L F m).
Proof.
  intros R H. rewrite (slots_as_map _ _ (R_nodup _ _ _ _ _ _ R) (R_len _ _ _ _ _ _ R)) at 1.
  apply map_ext_in. intros l Il.
  destruct (rel_slot_eager L F leqb st m s l R (H l Il)) as (f & E1 & E2). congruence.
Qed.

Lemma access_all_none_In coh ls : forall c c', s_access_all coh None c ls = (true, c') ->
  forall l, In l ls \/ In l c -> In l c'.
Proof.
  induction ls as [|x r IH]; intros c c' E l H; cbn in E.
  - injection E as <-. destruct H as [[]|H]; exact H.
  - destruct (mem x c || coh); [|discriminate].
    apply (IH _ _ E). unfold BusSpec.s_touch, s_trim. rewrite (la_touch_In L leqb leqb_spec).
    destruct H as [[->|H]|H]; auto.
Qed.

(* a cache that can hold every label never drops one *)
Lemma access_all_small_In coh k labels ls : NoDup labels -> incl ls labels -> Z.of_nat (length labels) <= k ->
  forall c c', NoDup c -> incl c labels -> s_access_all coh (Some k) c ls = (true, c') ->
  forall l, In l ls \/ In l c -> In l c'.
Proof.
  intros Nl. revert ls. induction ls as [|x r IH]; intros Il K c c' Nc Ic E l H; cbn [BusSpec.s_access_all] in E.
  - injection E as <-. destruct H as [[]|H]; exact H.
  - destruct (mem x c || coh); [|discriminate].
    assert (Ix : In x labels) by (apply Il; left; reflexivity).
    assert (Etouch : s_touch (Some k) x c = la_touch x c).
    { unfold BusSpec.s_touch, s_trim.
      assert (length (la_touch x c) <= length labels)%nat.
      { apply NoDup_incl_length; [apply (la_touch_NoDup L leqb leqb_spec), Nc|].
        intros y Hy. apply (la_touch_In L leqb leqb_spec) in Hy as [->|Hy]; [exact Ix | apply Ic, Hy]. }
      destruct (Z.of_nat (length (la_touch x c)) >? k) eqn:G; [lia | reflexivity]. }
    rewrite Etouch in E.
    apply (IH (fun y Hy => Il y (or_intror Hy)) K (la_touch x c) c').
    + apply (la_touch_NoDup L leqb leqb_spec), Nc.
    + intros y Hy. apply (la_touch_In L leqb leqb_spec) in Hy as [->|Hy]; [exact Ix | apply Ic, Hy].
    + exact E.
    + rewrite (la_touch_In L leqb leqb_spec). destruct H as [[->|H]|H]; auto.
Qed.

(* for i, label in enumerate(index): self._extract_iloc(i) *)
Lemma each_sim st : store_ok st -> forall ps m s acc log,
  Rel st m s -> Forall (fun p => (p < length (mb_labels L F m))%nat) ps ->
  let r := s_access_all (s_coherent st) (sb_mp L s) (sb_cache L s) (labels_at (mb_labels L F m) ps) in
  exists acc' m' log',
    m_each L F leqb st m ps acc log = ((if fst r then None else Some "StoreFileMutation"%string), acc', m', log') /\
    (fst r = true -> acc' = acc ++ map (eager st) (labels_at (mb_labels L F m) ps)) /\
    Rel st m' (s_with_cache L s (snd r)) /\ mb_labels L F m' = mb_labels L F m /\ mb_mp L F m' = mb_mp L F m.
Proof.
  intro Sok. induction ps as [|p r IH]; intros m s acc log R Fp; cbn [Bus.m_each].
  - unfold BusSpec.labels_at. cbn. eexists _, _, _. split; [reflexivity|].
    split; [intros _; rewrite app_nil_r; reflexivity|]. split; [|auto]. destruct s; exact R.
  - pose proof (Forall_inv Fp) as Hp. cbn beta in Hp. pose proof (Forall_inv_tail Fp) as Fr.
    destruct (nth_error (mb_labels L F m) p) as [l|] eqn:E; [|apply nth_error_None in E; lia].
    assert (Pok : positions_ok (length (mb_labels L F m)) [p]) by (split; [repeat constructor; cbn; tauto | repeat constructor; exact Hp]).
    destruct (update_sim L F leqb leqb_spec st m s true [p] R Sok Pok (fun _ => ex_intro _ p eq_refl) (or_introl eq_refl))
      as (m1 & lg & Eu & R1 & El & Emp).
    rewrite (labels_at_single L _ p l E) in Eu, R1.
    change (labels_at (mb_labels L F m) (p :: r)) with
      ((match nth_error (mb_labels L F m) p with Some l0 => [l0] | None => [] end) ++ labels_at (mb_labels L F m) r).
    rewrite E. cbn [app BusSpec.s_access_all] in *.
    rewrite Eu.
    destruct (mem l (sb_cache L s) || s_coherent st) eqn:Q; cbn [fst snd] in *.
    + (* the element is delivered; go on with the rest *)
      assert (Ic : In l (s_touch (sb_mp L s) l (sb_cache L s)))
        by (apply (s_touch_In_self L leqb leqb_spec), (R_cache_ok _ _ _ _ _ _ R)).
      destruct (rel_slot_eager L F leqb st m1 _ l R1 Ic) as (f & E1 & E2).
      assert (Eslot : slots_at F (mb_slots L F m1) [p] = [eager st l]).
      { rewrite (slots_at_map L F leqb leqb_spec (mb_labels L F m1) (mb_slots L F m1) [p]);
          [| apply (R_nodup _ _ _ _ _ _ R1) | apply (R_len _ _ _ _ _ _ R1) | rewrite El; repeat constructor; exact Hp].
        rewrite El, (labels_at_single L _ p l E). cbn. rewrite <- El, E1, E2. reflexivity. }
      rewrite Eslot.
      assert (Fr1 : Forall (fun p0 => (p0 < length (mb_labels L F m1))%nat) r) by (rewrite El; exact Fr).
      destruct (IH m1 (s_with_cache L s (s_touch (sb_mp L s) l (sb_cache L s))) (acc ++ [eager st l]) (log ++ lg) R1 Fr1)
        as (acc2 & m2 & lg2 & E2' & Hacc & R2 & El2 & Emp2).
      cbn [sb_mp sb_cache s_with_cache] in *. rewrite El in *.
      rewrite E2'.
      eexists _, _, _. split; [reflexivity|]. split; [|split; [exact R2 | split; congruence]].
      intro Ok. rewrite (Hacc Ok), <- app_assoc. reflexivity.
    + eexists _, _, _. split; [reflexivity|]. split; [discriminate|]. split; [exact R1 | auto].
Qed.

Lemma labels_at_seq (labels : list L) : labels_at labels (seq O (length labels)) = labels.
Proof.
  unfold BusSpec.labels_at.
  assert (forall pre, flat_map (fun p => match nth_error (pre ++ labels) p with Some l => [l] | None => [] end)
                        (seq (length pre) (length labels)) = labels) as H.
  { induction labels as [|x r IH]; intro pre; cbn; [reflexivity|].
    rewrite nth_error_app2 by lia. rewrite Nat.sub_diag. cbn. f_equal.
    specialize (IH (pre ++ [x])). rewrite app_length in IH. cbn in IH.
    rewrite Nat.add_1_r, <- app_assoc in IH. exact IH. }
  apply (H []).
Qed.

Lemma seq_lt n : Forall (fun p => (p < n)%nat) (seq O n).
Proof. apply Forall_forall. intros p H. apply in_seq in H. lia. Qed.

(* the array Bus.values / Bus.items() deliver *)
Theorem values_sim st m s :
  Rel st m s -> store_ok st -> mode_ok st (mb_mp L F m) ->
  let '(e, vs, m', _) := m_values L F leqb st m in
  let '(ok, s') := s_all L F leqb st s in
  e = (if ok then None else Some "StoreFileMutation"%string) /\
  (ok = true -> vs = map (eager st) (mb_labels L F m)) /\
  Rel st m' s' /\ mb_labels L F m' = mb_labels L F m /\ mb_mp L F m' = mb_mp L F m /\
  (mb_mp L F m = None -> ok = true -> vs = mb_slots L F m').
Proof.
  intros R Sok Mok. unfold m_values, s_all. rewrite <- (R_labels _ _ _ _ _ _ R).
  destruct (mb_mp L F m) as [k|] eqn:Emp.
  - (* max_persist active: one element at a time *)
    destruct (each_sim st Sok (seq O (length (mb_labels L F m))) m s [] [] R (seq_lt (length (mb_labels L F m)))) as (acc' & m' & lg & E & Hacc & R' & El & Emp').
    rewrite labels_at_seq in *. rewrite E.
    destruct (s_access_all (s_coherent st) (sb_mp L s) (sb_cache L s) (mb_labels L F m)) as [ok c]. cbn [fst snd] in *.
    split; [reflexivity|]. split; [intro H; apply (Hacc H)|]. split; [exact R'|]. split; [exact El|]. split; [congruence|].
    intro H. discriminate.
  - (* all at once *)
    assert (Pok : positions_ok (length (mb_labels L F m)) (seq O (length (mb_labels L F m)))) by (split; [apply seq_NoDup | apply seq_lt]).
    assert (Mok' : false = true \/ mode_ok st (mb_mp L F m)) by (right; rewrite Emp; exact Mok).
    destruct (update_sim L F leqb leqb_spec st m s false (seq O (length (mb_labels L F m))) R Sok Pok ltac:(discriminate) Mok') as (m1 & lg & Eu & R1 & El & Emp1).
    rewrite labels_at_seq in Eu, R1.
    assert (Eall : mb_loaded_all L F m = true -> m_update st m false (seq O (length (mb_labels L F m))) = (None, m, [])).
    { intro H. unfold Bus.m_update. rewrite H, Emp. reflexivity. }
    rewrite <- (R_mp _ _ _ _ _ _ R), Emp in *.
    destruct (s_access_all (s_coherent st) None (sb_cache L s) (mb_labels L F m)) as [ok c] eqn:Ea. cbn [fst snd] in *.
    assert (Hall : ok = true -> mb_slots L F m1 = map (eager st) (mb_labels L F m)).
    { intros ->. rewrite <- El. apply (rel_all_loaded st m1 _ R1). cbn [sb_cache s_with_cache]. rewrite El.
      intros l Il. eapply access_all_none_In; [exact Ea | left; exact Il]. }
    destruct (mb_loaded_all L F m) eqn:La.
    + rewrite (Eall eq_refl) in Eu. injection Eu as Eok <- _.
      destruct ok; [|discriminate].
      split; [reflexivity|]. split; [exact Hall|]. split; [exact R1|]. split; [reflexivity|]. split; [exact Emp|]. auto.
    + rewrite Eu. destruct ok.
      * split; [reflexivity|]. split; [exact Hall|]. split; [exact R1|]. split; [exact El|]. split; [congruence|]. auto.
      * split; [reflexivity|]. split; [discriminate|]. split; [exact R1|]. split; [exact El|]. split; [congruence|]. discriminate.
Qed.

End Values.
