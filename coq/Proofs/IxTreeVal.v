(* C02 -- hierarchical construction theorems at SF.Value.val. *)
Require Import SF.Prelude SF.Dtype SF.Value SF.PySlice SF.IndexBij SF.IndexBijVal SF.IxTree SF.IxTreeVal
  Proofs.IndexBijFacts Proofs.IndexBijVal Proofs.IxTreeIns Proofs.IxTreeBuild Proofs.IxTreeLookup.

Definition v_from_labels_refines := M_from_labels_refines val val_eqb val_eqb_spec.
Definition v_from_labels_bijection := M_from_labels_bijection val val_eqb val_eqb_spec.

(* non-vacuity: an accepted depth-3 table whose inner key "x" re-appears under another parent (the
   shared observed_last list of the code is exercised), and two refused ones *)
Example from_labels_examples :
  let a := VStr "a" in let b := VStr "b" in let x := VStr "x" in let y := VStr "y" in
  S_h_accepts val_eqb [[a; x; VInt 1]; [a; y; VInt 1]; [b; y; VInt 1]; [b; x; VInt 5]] = true /\
  (exists lv, M_from_labels val_eqb [[a; x; VInt 1]; [a; y; VInt 1]; [b; y; VInt 1]; [b; x; VInt 5]] = Ok lv /\
              M_leaf_loc_to_iloc val_eqb lv [b; x; VInt 5] = Ok 3) /\
  M_from_labels val_eqb [[a; x; VInt 1]; [a; y; VInt 1]; [a; x; VInt 2]] = Err "ErrorInitIndex" /\
  M_from_labels val_eqb [[a; VInt 1]; [b; VInt 1]; [a; VInt 2]] = Err "ErrorInitIndex" /\
  M_from_labels val_eqb [[a; VInt 1]; [a; VInt 1]] = Err "ErrorInitIndex".
Proof. cbv zeta. split; [reflexivity|]. split; [eexists; split; vm_compute; reflexivity|]. repeat split; reflexivity. Qed.

Require Import Proofs.IxTreeOrder.
Definition v_tree_ordered_contiguous := tree_ordered_contiguous val val_eqb val_eqb_spec.

Definition v_level_drop1_single_group := level_drop1_single_group val val_eqb val_eqb_spec.
