(* C17 -- derived Buses (Bus._derive -> __init__) stay in the simulation relation. *)
Require Import SF.Prelude SF.PySlice SF.BusSpec SF.Bus Gen.Gen_c17.
Require Import Proofs.BusSpecFacts Proofs.BusResolve Proofs.BusSpecInv Proofs.BusListFacts Proofs.BusCache Proofs.BusRel.

Section Derive.
Variables L F : Type.
Variable leqb : L -> L -> bool.
Hypothesis leqb_spec : forall x y, leqb x y = true <-> x = y.

Notation store := (store L F).
Notation mbus := (mbus L F).
Notation sbus := (sbus L).
Notation mem := (mem L leqb).
Notation find_idx := (find_idx L leqb).
Notation eager := (eager L F leqb).
Notation cache_ok := (cache_ok L).
Notation isld := (isld L leqb).
Notation slot_of := (slot_of L F leqb).
Notation labels_at := (labels_at L).
Notation Rel := (Rel L F leqb).
Notation s_derive := (s_derive L leqb).

Lemma slot_of_map (g : L -> option F) ls l : NoDup ls -> In l ls -> slot_of ls (map g ls) l = g l.
Proof.
  intros N I. unfold BusRel.slot_of.
  destruct (find_idx_In L leqb leqb_spec l ls I) as [i Fi]. rewrite Fi.
  rewrite nth_error_map, (find_idx_Some L leqb leqb_spec l ls i Fi). reflexivity.
Qed.

Lemma slot_of_notin slots ls l : ~ In l ls -> slot_of ls slots l = None.
Proof.
  intro H. unfold BusRel.slot_of. rewrite (proj2 (find_idx_None L leqb leqb_spec l ls) H). reflexivity.
Qed.

Lemma loaded_labels_map (g : L -> option F) ls :
  loaded_labels L F ls (map g ls) = filter (fun l => is_some (g l)) ls.
Proof. induction ls as [|x r IH]; cbn; [reflexivity|]. rewrite IH. reflexivity. Qed.

Lemma slot_of_In labels slots l f : slot_of labels slots l = Some f -> In l labels.
Proof.
  unfold BusRel.slot_of. destruct (find_idx l labels) as [i|] eqn:E; [|discriminate].
  intros _. eapply nth_error_In, (find_idx_Some L leqb leqb_spec), E.
Qed.

Lemma rel_isld_slot st m s l : Rel st m s ->
  isld (mb_labels L F m) (mb_loaded L F m) l = is_some (slot_of (mb_labels L F m) (mb_slots L F m) l).
Proof. intro R. rewrite (R_loaded _ _ _ _ _ _ R). apply isld_slot_of. Qed.

Lemma rel_sbus_ok st m s : Rel st m s -> sbus_ok L s.
Proof.
  intro R. split; [rewrite <- (R_labels _ _ _ _ _ _ R); apply (R_nodup _ _ _ _ _ _ R)|].
  split; [apply (R_cache_ok _ _ _ _ _ _ R)|].
  intros x I. apply (R_cache _ _ _ _ _ _ R) in I. rewrite <- (R_labels _ _ _ _ _ _ R).
  eapply isld_In; [exact leqb_spec | exact I].
Qed.

(* the Bus __init__ builds from the selected labels and their slots *)
Definition derived (m : mbus) (ls : list L) : mbus :=
  let g := slot_of (mb_labels L F m) (mb_slots L F m) in
  let sel := map g ls in
  mk_mbus L F ls sel (map is_some sel) (all_true (map is_some sel))
          (match mb_mp L F m with Some _ => loaded_labels L F ls sel | None => [] end) (mb_mp L F m).

Theorem derive_rel st m s ls :
  Rel st m s -> NoDup ls -> incl ls (mb_labels L F m) ->
  m_init L F ls (map (slot_of (mb_labels L F m) (mb_slots L F m)) ls) (mb_mp L F m) = Ok (derived m ls) /\
  Rel st (derived m ls) (s_derive s ls).
Proof.
  intros R N Inc.
  set (g := slot_of (mb_labels L F m) (mb_slots L F m)).
  assert (Hmem : forall l, mem l (sb_cache L s) = is_some (g l)).
  { intro l. unfold g. rewrite <- (rel_isld_slot st m s l R).
    destruct (isld _ _ l) eqn:Q.
    - apply (mem_In L leqb leqb_spec), (R_cache _ _ _ _ _ _ R), Q.
    - apply (mem_false L leqb leqb_spec). intro I. apply (R_cache _ _ _ _ _ _ R) in I. congruence. }
  assert (Hisld : forall l, isld ls (map is_some (map g ls)) l = (if mem l ls then is_some (g l) else false)).
  { intro l. rewrite (isld_slot_of L F leqb). destruct (mem l ls) eqn:Q.
    - apply (mem_In L leqb leqb_spec) in Q. rewrite (slot_of_map g ls l N Q). reflexivity.
    - apply (mem_false L leqb leqb_spec) in Q. rewrite (slot_of_notin _ ls l Q). reflexivity. }
  pose proof (s_derive_ok L leqb leqb_spec s ls (rel_sbus_ok st m s R) N) as (_ & Ckd & _).
  assert (Ecache : filter (fun l => mem l (sb_cache L s)) ls = filter (fun l => is_some (g l)) ls)
    by (apply filter_ext; exact Hmem).
  assert (Rd : Rel st (derived m ls) (s_derive s ls)).
  { unfold derived. fold g. constructor; cbn [mb_labels mb_slots mb_loaded mb_loaded_all mb_la mb_mp sb_labels sb_cache sb_mp BusSpec.s_derive].
    - reflexivity.
    - apply (R_mp _ _ _ _ _ _ R).
    - exact N.
    - apply map_length.
    - reflexivity.
    - reflexivity.
    - intros l f E. apply (R_eager _ _ _ _ _ _ R).
      destruct (mem l ls) eqn:Q.
      + apply (mem_In L leqb leqb_spec) in Q. rewrite (slot_of_map g ls l N Q) in E. exact E.
      + apply (mem_false L leqb leqb_spec) in Q. rewrite (slot_of_notin _ ls l Q) in E. discriminate.
    - intros l I. apply (R_store _ _ _ _ _ _ R), Inc, I.
    - exact Ckd.
    - intro l. rewrite filter_In, Hisld, Hmem.
      destruct (mem l ls) eqn:Q.
      + apply (mem_In L leqb leqb_spec) in Q. tauto.
      + apply (mem_false L leqb leqb_spec) in Q. split; [tauto | discriminate].
    - intros k E. rewrite E, loaded_labels_map, Ecache.
      assert (Hall : forall l, In l (filter (fun l0 => is_some (g l0)) ls) -> isld ls (map is_some (map g ls)) l = true).
      { intros l I. apply filter_In in I as [I1 I2]. rewrite Hisld, (proj2 (mem_In L leqb leqb_spec l ls) I1). exact I2. }
      split; [apply NoDup_filter, N|]. split; [apply filter_all_true, Hall | exact Hall]. }
  split; [|exact Rd].
  unfold m_init. fold g.
  destruct (mb_mp L F m) as [k|] eqn:Emp; [|unfold derived; fold g; rewrite Emp; reflexivity].
  assert (Hcount : count_true (map is_some (map g ls)) <= k).
  { pose proof (rel_count L F leqb leqb_spec st _ _ Rd) as Ec.
    unfold derived in Ec. fold g in Ec. cbn [mb_loaded sb_cache BusSpec.s_derive] in Ec. rewrite Ec.
    destruct Ckd as [_ B]. cbn [sb_mp BusSpec.s_derive] in B. rewrite <- (R_mp _ _ _ _ _ _ R), Emp in B. apply B. }
  destruct (k <? count_true (map is_some (map g ls))) eqn:G; [lia|].
  unfold derived. fold g. rewrite Emp. reflexivity.
Qed.

(* positional selections are label-wise lookups *)
Lemma slots_at_map labels slots ps : NoDup labels -> length slots = length labels ->
  Forall (fun p => (p < length labels)%nat) ps ->
  slots_at F slots ps = map (slot_of labels slots) (labels_at labels ps).
Proof.
  intros N Hl. unfold Bus.slots_at, BusSpec.labels_at. induction 1 as [|p r Hp Hr IH]; cbn; [reflexivity|].
  rewrite map_app, IH. f_equal.
  destruct (nth_error labels p) as [l|] eqn:E; [|apply nth_error_None in E; lia].
  destruct (nth_error slots p) as [sl|] eqn:E2; [|apply nth_error_None in E2; lia].
  cbn. unfold BusRel.slot_of. rewrite (find_idx_nth L leqb leqb_spec labels N p l E), E2. reflexivity.
Qed.

End Derive.
