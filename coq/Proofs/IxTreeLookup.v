(* C02 -- IndexHierarchy.from_labels, part 3: leaf_loc_to_iloc through the per-level offsets is the
   position of the key in the label table; membership; and the whole-object refinement. *)
Require Import SF.Prelude SF.PySlice SF.IndexBij SF.IxTree Proofs.IndexBijFacts Proofs.IxTreeIns Proofs.IxTreeBuild.

Section Lookup.
  Set Default Proof Using "All".
  Variable C : Type.
  Variable ceqb : C -> C -> bool.
  Hypothesis ceqb_spec : forall x y, ceqb x y = true <-> x = y.

  Notation tree := (tree C).
  Notation level := (level C).
  Notation label := (label C).
  Notation lwf := (lwf C).
  Notation leqb_spec := (leqb_spec C ceqb ceqb_spec).
  Notation lidx := (lindex_of ceqb).

  Lemma lidx_cons x y ys : lidx x (y :: ys) = if leqb ceqb x y then Some 0 else option_map Z.succ (lidx x ys).
  Proof. reflexivity. Qed.

  Lemma lidx_singletons k ls : lidx [k] (map (fun x => [x]) ls) = index_of ceqb k ls.
  Proof.
    induction ls as [|y ls IH]; [reflexivity|]. cbn [map]. rewrite lidx_cons. cbn [index_of].
    unfold leqb. cbn [list_eqb]. rewrite andb_true_r, IH. reflexivity.
  Qed.

  Lemma lidx_singletons_long k r rs ls : lidx (k :: r :: rs) (map (fun x => [x]) ls) = None.
  Proof.
    induction ls as [|y ls IH]; [reflexivity|]. cbn [map]. rewrite lidx_cons.
    unfold leqb. cbn [list_eqb]. rewrite andb_false_r, IH. reflexivity.
  Qed.

  Lemma lidx_absent x L : ~ In x L -> lidx x L = None.
  Proof. intros H. apply (index_of_None label (leqb ceqb) leqb_spec). exact H. Qed.

  Lemma lidx_map_cons k rest F : lidx (k :: rest) (map (cons k) F) = lidx rest F.
  Proof.
    induction F as [|e F IH]; [reflexivity|]. cbn [map]. rewrite !lidx_cons, IH.
    unfold leqb. cbn [list_eqb]. rewrite (ceqb_refl C ceqb ceqb_spec). reflexivity.
  Qed.

  Lemma flatten_list_heads (tg : list level) : forall ls e, In e (flatten_list flatten tg ls) ->
    exists k e', e = k :: e' /\ In k ls.
  Proof.
    induction tg as [|t tg IH]; intros ls e H; [contradiction|].
    destruct ls as [|k ls]; [contradiction|]. cbn [flatten_list] in H. apply in_app_or in H. destruct H as [H|H].
    - apply in_map_iff in H. destruct H as (e' & <- & _). exists k, e'. split; [reflexivity | left; reflexivity].
    - destruct (IH ls e H) as (k' & e' & -> & Hin). exists k', e'. split; [reflexivity | right; exact Hin].
  Qed.

  (* a key (k :: rest) in the table of a node: found in the group of k, shifted by the group's offset *)
  Lemma lidx_node (tg : list level) : forall ls off k rest,
    NoDup ls -> length ls = length tg -> offsets_ok C off tg ->
    Forall (fun t => lv_len t = zlen (flatten t)) tg ->
    lidx (k :: rest) (flatten_list flatten tg ls) =
      match index_of ceqb k ls with
      | None => None
      | Some i => match nth_error tg (Z.to_nat i) with
                  | Some t => option_map (fun j => (lv_offset t - off) + j) (lidx rest (flatten t))
                  | None => None
                  end
      end.
  Proof.
    induction tg as [|t0 tg IH]; intros ls off k rest ND L O F.
    - destruct ls; [reflexivity | discriminate].
    - destruct ls as [|k0 ls]; [discriminate|]. cbn [flatten_list index_of].
      inversion ND as [|? ? Hk0 ND']; subst. inversion F as [|? ? Ht0 F']; subst.
      destruct O as [O0 O']. cbn [length] in L. assert (L' : length ls = length tg) by (injection L; auto).
      destruct (ceqb k k0) eqn:E.
      + apply ceqb_spec in E. subst k0. cbn [Z.to_nat nth_error].
        destruct (lidx rest (flatten t0)) as [j|] eqn:Ej.
        * unfold lidx, lindex_of. rewrite (index_of_app_l label (leqb ceqb) leqb_spec).
          -- fold (lidx (k :: rest) (map (cons k) (flatten t0))). rewrite lidx_map_cons, Ej. cbn. f_equal. lia.
          -- apply in_map_iff. exists rest. split; [reflexivity|].
             apply Decidable.not_not.
             { destruct (memb (leqb ceqb) rest (flatten t0)) eqn:M;
                 [left; apply (memb_In label (leqb ceqb) leqb_spec); exact M
                 | right; apply (memb_false label (leqb ceqb) leqb_spec); exact M]. }
             intros N. apply (index_of_None label (leqb ceqb) leqb_spec) in N. unfold lidx, lindex_of in Ej. congruence.
        * cbn [option_map]. apply lidx_absent. intros Hin. apply in_app_or in Hin. destruct Hin as [Hin|Hin].
          -- apply in_map_iff in Hin. destruct Hin as (e' & He & Hin). injection He as ->.
             apply (index_of_None label (leqb ceqb) leqb_spec) in Ej. contradiction.
          -- apply flatten_list_heads in Hin. destruct Hin as (k' & e' & He & Hin). injection He as <- _. contradiction.
      + assert (Hnk : k <> k0) by (intros ->; rewrite (ceqb_refl C ceqb ceqb_spec) in E; discriminate).
        unfold lidx, lindex_of. rewrite (index_of_app_r label (leqb ceqb) leqb_spec).
        * fold (lidx (k :: rest) (flatten_list flatten tg ls)).
          rewrite (IH ls (off + lv_len t0) k rest ND' L' O' F').
          destruct (index_of ceqb k ls) as [i|] eqn:Ei; [|reflexivity]. cbn [option_map].
          pose proof (index_of_range C ceqb ceqb_spec _ _ _ Ei) as Ri.
          replace (Z.to_nat (Z.succ i)) with (S (Z.to_nat i)) by lia. cbn [nth_error].
          destruct (nth_error tg (Z.to_nat i)) as [t|]; [|reflexivity]. unfold lindex_of.
          destruct (index_of (leqb ceqb) rest (flatten t)) as [j|]; [|reflexivity]. cbn [option_map]. f_equal.
          unfold zlen in *. rewrite map_length. unfold IxTreeSpec.label in *. lia.
        * intros Hin. apply in_map_iff in Hin. destruct Hin as (e' & He & _). congruence.
  Qed.

  Lemma flatten_nonempty d : forall lv, lwf d lv -> ~ In [] (flatten lv).
  Proof.
    destruct d as [|d]; intros lv W; [contradiction|]. destruct lv as [o ls|o ls tg]; cbn [flatten].
    - intros H. apply in_map_iff in H. destruct H as (x & Hx & _). discriminate.
    - intros H. apply flatten_list_heads in H. destruct H as (k & e' & He & _). discriminate.
  Qed.

  (* leaf_loc_to_iloc = position in the label table (KeyError for anything that is not a held label) *)
  Lemma leaf_loc_spec d : forall lv, lwf d lv -> forall key pos,
    leaf_loc ceqb key lv pos =
      match lidx key (flatten lv) with Some i => Ok (pos + i) | None => Err "KeyError" end.
  Proof.
    induction d as [|d IH]; intros lv W key pos; [contradiction|].
    destruct key as [|k rest].
    - rewrite (lidx_absent [] _ (flatten_nonempty (S d) lv W)). destruct lv; reflexivity.
    - destruct lv as [o ls|o ls tg]; cbn [lwf] in W; cbn [leaf_loc flatten].
      + destruct rest as [|r rs].
        * rewrite lidx_singletons. destruct (index_of ceqb k ls); reflexivity.
        * rewrite lidx_singletons_long. destruct (index_of ceqb k ls); reflexivity.
      + destruct W as (Hd & ND & L & F & O).
        assert (Fl : Forall (fun t => lv_len t = zlen (flatten t)) tg).
        { eapply Forall_impl; [|exact F]. intros t Ht. eapply (lv_len_flatten C ceqb ceqb_spec). exact Ht. }
        rewrite (lidx_node tg ls 0 k rest ND L O Fl).
        destruct (index_of ceqb k ls) as [i|]; [|reflexivity].
        destruct (nth_error tg (Z.to_nat i)) as [t|] eqn:En; [|reflexivity].
        assert (Wt : lwf d t). { rewrite Forall_forall in F. apply F. eapply nth_error_In. exact En. }
        rewrite (IH t Wt rest (pos + lv_offset t)).
        destruct (lidx rest (flatten t)) as [j|]; [|reflexivity]. cbn [option_map]. f_equal. lia.
  Qed.

  (* membership as the code computes it agrees with the lookup -- for EVERY key, over-long ones
     included, since fix 248eb88 (gen_hier_contains_checks_exhausted = true is re-read from the source
     on every run; this proof breaks if the check disappears again) *)
  Lemma contains_lookup d : forall lv, lwf d lv -> forall key pos,
    lv_contains ceqb key lv = is_ok (leaf_loc ceqb key lv pos).
  Proof.
    induction d as [|d IH]; intros lv W key pos; [contradiction|].
    destruct key as [|k rest]; [destruct lv; reflexivity|].
    destruct lv as [o ls|o ls tg]; cbn [lwf] in W; cbn [lv_contains leaf_loc].
    - rewrite (index_of_memb C ceqb ceqb_spec).
      destruct (index_of ceqb k ls); destruct rest; reflexivity.
    - destruct W as (Hd & ND & L & F & O).
      destruct (index_of ceqb k ls) as [i|]; [|reflexivity].
      destruct (nth_error tg (Z.to_nat i)) as [t|] eqn:En; [|reflexivity].
      apply IH. rewrite Forall_forall in F. apply F. eapply nth_error_In. exact En.
  Qed.

  Lemma contains_spec d lv key : lwf d lv ->
    M_h_contains ceqb lv key = S_h_contains ceqb (flatten lv) key.
  Proof.
    intros W. unfold M_h_contains, S_h_contains, lmemb.
    rewrite (contains_lookup d lv W key 0), (leaf_loc_spec d lv W key 0).
    rewrite (index_of_memb label (leqb ceqb) leqb_spec). fold (lidx key (flatten lv)).
    destruct (lidx key (flatten lv)); reflexivity.
  Qed.

  (* ---------------------------------------------------------------- the whole object *)
  Lemma lnodupb_NoDup (l : list label) : lnodupb ceqb l = true <-> NoDup l.
  Proof. unfold lnodupb. apply (nodupb_NoDup label (leqb ceqb) leqb_spec). Qed.

  Theorem M_from_labels_refines labs probes :
    M_from_labels_obs ceqb labs probes = S_from_labels ceqb labs probes.
  Proof.
    unfold M_from_labels_obs, S_from_labels, M_from_labels, S_h_accepts.
    destruct labs as [|first rest]; [reflexivity|].
    set (labs := first :: rest) in *. set (d := length first) in *.
    destruct (d <? 2)%nat eqn:Ed; [reflexivity|]. apply Nat.ltb_ge in Ed. cbn [negb andb].
    assert (W0 : twf C d (TNode [])).
    { destruct d as [|d']; [lia|]. cbn. split; [lia|]. split; constructor. }
    assert (R0 : rm_inv C d (TNode []) (repeat None d)) by (destruct d; cbn; exact I).
    pose proof (ins_all_spec C ceqb ceqb_spec d Ed labs (TNode []) (repeat None d) [] W0 R0 eq_refl) as S.
    fold (tree_ordered ceqb d labs) in S.
    destruct (ins_all ceqb d labs (repeat None d) (TNode [])) as [t|e].
    - destruct S as (W & P & Fd & T). cbn [app] in P. rewrite Fd, T. cbn [andb].
      pose proof (build_spec C ceqb ceqb_spec d t 0 W) as B.
      destruct (build ceqb t 0) as [lv|e].
      + destruct B as (Wl & Fl & _ & ND). rewrite P in Fl, ND.
        rewrite (proj2 (lnodupb_NoDup labs) ND). f_equal.
        unfold M_h_observe, S_h_observe. rewrite Fl.
        rewrite (lv_len_flatten C ceqb ceqb_spec d lv Wl), Fl. unfold zlen at 2. rewrite Nat2Z.id. f_equal.
        * apply map_ext. intros key. unfold M_leaf_loc_to_iloc, S_h_lookup.
          rewrite (leaf_loc_spec d lv Wl key 0), Fl. destruct (lidx key labs); reflexivity.
        * apply map_ext. intros key. rewrite <- Fl. apply (contains_spec d). exact Wl.
      + destruct B as [-> N]. rewrite P in N.
        destruct (lnodupb ceqb labs) eqn:E; [apply lnodupb_NoDup in E; contradiction | reflexivity].
    - destruct S as [-> F]. rewrite F. reflexivity.
  Qed.

  (* what an accepted hierarchical index is: the label table in the given order, duplicate-free and
     tree-ordered, with exact lookups *)
  Theorem M_from_labels_bijection labs lv : M_from_labels ceqb labs = Ok lv ->
    flatten lv = labs /\ NoDup labs /\ lv_len lv = zlen labs /\
    (forall i key, nth_error labs i = Some key -> M_leaf_loc_to_iloc ceqb lv key = Ok (Z.of_nat i)) /\
    (forall key z, M_leaf_loc_to_iloc ceqb lv key = Ok z -> 0 <= z /\ nth_error labs (Z.to_nat z) = Some key) /\
    (forall key, ~ In key labs -> M_leaf_loc_to_iloc ceqb lv key = Err "KeyError").
  Proof.
    unfold M_from_labels. destruct labs as [|first rest]; [discriminate|].
    set (labs := first :: rest) in *. set (d := length first) in *.
    destruct (d <? 2)%nat eqn:Ed; [discriminate|]. apply Nat.ltb_ge in Ed.
    assert (W0 : twf C d (TNode [])).
    { destruct d as [|d']; [lia|]. cbn. split; [lia|]. split; constructor. }
    assert (R0 : rm_inv C d (TNode []) (repeat None d)) by (destruct d; cbn; exact I).
    pose proof (ins_all_spec C ceqb ceqb_spec d Ed labs (TNode []) (repeat None d) [] W0 R0 eq_refl) as S.
    destruct (ins_all ceqb d labs (repeat None d) (TNode [])) as [t|e]; [|discriminate].
    destruct S as (W & P & _ & _). cbn [app] in P. intros B.
    pose proof (build_spec C ceqb ceqb_spec d t 0 W) as Bs. rewrite B in Bs.
    destruct Bs as (Wl & Fl & _ & ND). rewrite P in Fl, ND.
    split; [exact Fl|]. split; [exact ND|].
    split; [rewrite (lv_len_flatten C ceqb ceqb_spec d lv Wl), Fl; reflexivity|].
    assert (Q : forall key, M_leaf_loc_to_iloc ceqb lv key =
                 match lidx key labs with Some i => Ok i | None => Err "KeyError"%string end).
    { intros key. unfold M_leaf_loc_to_iloc. rewrite (leaf_loc_spec d lv Wl key 0), Fl.
      destruct (lidx key labs); reflexivity. }
    split; [|split].
    - intros i key H. rewrite Q. unfold lidx, lindex_of.
      rewrite (index_of_NoDup label (leqb ceqb) leqb_spec labs i key ND H). reflexivity.
    - intros key z H. rewrite Q in H. destruct (lidx key labs) as [i|] eqn:E; [|discriminate].
      injection H as <-. unfold lidx, lindex_of in E. split.
      + apply (index_of_range label (leqb ceqb) leqb_spec) in E. lia.
      + apply (index_of_nth label (leqb ceqb) leqb_spec). exact E.
    - intros key H. rewrite Q, (lidx_absent key labs H). reflexivity.
  Qed.

  (* level_drop(1) of an index with ONE outermost group is correct: the promoted level is well formed
     (so, by leaf_loc_spec, an exact bijection for the labels without their first component).  With two
     or more groups the offsets are not re-based: Refuted/C02_level_drop_offsets.v *)
  Theorem level_drop1_single_group d o k (t : level) : lwf d t ->
    match t with LNode _ _ [] => False | _ => True end ->
    exists t', M_level_drop1 ceqb (LNode o [k] [t]) = Ok t' /\ lwf d t' /\ flatten t' = flatten t /\
               (forall key pos, leaf_loc ceqb key t' pos =
                  match lidx key (flatten t) with Some i => Ok (pos + i) | None => Err "KeyError"%string end).
  Proof.
    intros W NE. destruct d as [|d]; [contradiction|].
    assert (R : forall t', lwf (S d) t' -> flatten t' = flatten t ->
              forall key pos, leaf_loc ceqb key t' pos =
                match lidx key (flatten t) with Some i => Ok (pos + i) | None => Err "KeyError"%string end).
    { intros t' W' F key pos. rewrite (leaf_loc_spec (S d) t' W' key pos), F. reflexivity. }
    destruct t as [o' ls|o' ls tg]; cbn [lwf] in W.
    - destruct W as [-> ND]. unfold M_level_drop1. cbn [flat_map lv_labels lv_targets app]. rewrite app_nil_r.
      rewrite (proj2 (nodupb_NoDup C ceqb ceqb_spec ls) ND).
      exists (LLeaf 0 ls). split; [reflexivity|]. assert (W' : lwf 1 (LLeaf 0 ls)) by (cbn; auto).
      split; [exact W'|]. split; [reflexivity|]. apply R; [exact W' | reflexivity].
    - destruct W as (Hd & ND & L & F & O). unfold M_level_drop1. cbn [flat_map lv_labels lv_targets app]. rewrite !app_nil_r.
      rewrite (proj2 (nodupb_NoDup C ceqb ceqb_spec ls) ND).
      destruct tg as [|t0 tg]; [contradiction|].
      exists (LNode 0 ls (t0 :: tg)). split; [reflexivity|].
      assert (W' : lwf (S d) (LNode 0 ls (t0 :: tg))) by (cbn [lwf]; auto).
      split; [exact W'|]. split; [reflexivity|]. apply R; [exact W' | reflexivity].
  Qed.

End Lookup.
