(* C17 -- Bus.__init__ on a Series that already holds Frames (the public constructor, Bus._derive): either refused, or the
   Bus refines the specification started with the held labels in index order. *)
Require Import SF.Prelude SF.PySlice SF.BusSpec SF.Bus Gen.Gen_c17.
Require Import Proofs.BusSpecFacts Proofs.BusResolve Proofs.BusSpecInv Proofs.BusListFacts Proofs.BusCache Proofs.BusRel
               Proofs.BusUpdate Proofs.BusDerive Proofs.BusSelect Proofs.BusValues Proofs.BusRefine.

Section Init.
Variables L F : Type.
Variable leqb : L -> L -> bool.
Variable lleb : L -> L -> bool.
Variable fkey : F -> Z.
Hypothesis leqb_spec : forall x y, leqb x y = true <-> x = y.

Notation isld := (isld L leqb).
Notation slot_of := (slot_of L F leqb).
Notation loaded_labels := (loaded_labels L F).

Lemma count_loaded_labels labels : forall slots : list (option F), length slots = length labels ->
  count_true (map is_some slots) = Z.of_nat (length (loaded_labels labels slots)).
Proof.
  unfold count_true. induction labels as [|x r IH]; intros [|s sr] H; cbn in *; try discriminate; [reflexivity|].
  specialize (IH sr ltac:(lia)). destruct s; cbn in *; lia.
Qed.

Lemma loaded_labels_In labels (slots : list (option F)) l : NoDup labels -> length slots = length labels ->
  (In l (loaded_labels labels slots) <-> isld labels (map is_some slots) l = true).
Proof.
  intros N H. rewrite (isld_slot_of L F leqb).
  pose proof (slots_as_map L F leqb leqb_spec labels slots N H) as E.
  set (g := slot_of labels slots) in *.
  replace (loaded_labels labels slots) with (loaded_labels labels (map g labels)) by (rewrite <- E; reflexivity).
  rewrite (loaded_labels_map L F g labels), filter_In. split; [tauto|].
  intro Hs. split; [|exact Hs]. unfold g in Hs. destruct (slot_of labels slots l) as [f|] eqn:Es; [|discriminate].
  eapply (slot_of_In L F leqb leqb_spec), Es.
Qed.

Lemma loaded_labels_NoDup labels (slots : list (option F)) : NoDup labels -> length slots = length labels ->
  NoDup (loaded_labels labels slots).
Proof.
  intros N H. pose proof (slots_as_map L F leqb leqb_spec labels slots N H) as E.
  rewrite E, (loaded_labels_map L F _ labels). apply NoDup_filter, N.
Qed.

Notation store := (store L F).
Notation Rel := (Rel L F leqb).
Notation eager := (eager L F leqb).
Notation m_run := (m_run L F leqb lleb fkey).
Notation s_run := (s_run L F leqb lleb fkey).

(* Bus.__init__ (bus.py:297-341) for ANY Series of Frames / FrameDeferred whose Frames are the ones the store holds *)
Theorem init_refines (st : store) labels (slots : list (option F)) mp r :
  NoDup labels -> length slots = length labels ->
  (forall l f, slot_of labels slots l = Some f -> eager st l = Some f) ->
  (forall l, In l labels -> exists f fd, assoc L leqb l (st_content L F st) = Some (f, fd)) ->
  st_recorded L F st = Some r -> (forall k, mp = Some k -> 1 <= k) ->
  let held := loaded_labels labels slots in
  if (match mp with Some k => k <? Z.of_nat (length held) | None => false end)
  then m_init L F labels slots mp = Err "ErrorInitBus"
  else exists m0, m_init L F labels slots mp = Ok m0 /\
         forall ops, m_run st m0 ops = s_run st (mk_sbus L labels held mp) ops.
Proof.
  intros N H He Hs Er K held.
  unfold m_init. rewrite (count_loaded_labels labels slots H). fold held.
  destruct (match mp with Some k => k <? Z.of_nat (length held) | None => false end) eqn:Over; [reflexivity|].
  eexists. split; [reflexivity|]. intro ops.
  apply (run_sim L F leqb lleb fkey leqb_spec); [|exists r; exact Er].
  assert (Hheld : forall l, In l held <-> isld labels (map is_some slots) l = true) by (intro l; apply loaded_labels_In; assumption).
  assert (Nh : NoDup held) by (apply loaded_labels_NoDup; assumption).
  constructor; cbn [mb_labels mb_slots mb_loaded mb_loaded_all mb_la mb_mp sb_labels sb_cache sb_mp].
  - reflexivity.
  - reflexivity.
  - exact N.
  - exact H.
  - reflexivity.
  - reflexivity.
  - exact He.
  - exact Hs.
  - split; [exact Nh|]. destruct mp as [k|]; [|exact I]. split; [apply K; reflexivity|].
    apply Z.ltb_ge in Over. exact Over.
  - exact Hheld.
  - intros k E. rewrite E. fold held. split; [exact Nh|]. split.
    + apply filter_all_true. intros l Il. apply Hheld, Il.
    + intros l Il. apply Hheld, Il.
Qed.

End Init.
