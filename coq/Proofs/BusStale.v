(* C17 -- stale files: the regenerated coherence decision, and what the specification does with it. *)
Require Import SF.Prelude SF.PySlice SF.BusSpec SF.Bus Gen.Gen_c17.
Require Import Proofs.BusSpecFacts Proofs.BusResolve Proofs.BusSpecInv Proofs.BusCache Proofs.BusRel.

(* Store._mtime_coherent (regenerated from store.py on every run) lets a read through exactly when the file exists
   and still has the recorded modification time; every read entry point of the zip and sqlite stores runs it first;
   Store.__init__ records the time. *)
Theorem mtime_decision (file : option Z) (r : Z) :
  (mtime_coherent (is_some file) file (Some r) = true <-> file = Some r) /\
  reads_checked = true /\ init_records = true /\ mtime_update true (Some r) = Some r.
Proof.
  split; [|repeat split; reflexivity].
  rewrite mtime_coherent_spec. destruct file as [m|]; [|split; discriminate].
  rewrite Z.eqb_eq. split; [intros ->; reflexivity | intro H; injection H; auto].
Qed.

Section Stale.
Variables L F : Type.
Variable leqb : L -> L -> bool.
Hypothesis leqb_spec : forall x y, leqb x y = true <-> x = y.

Notation mem := (mem L leqb).
Notation la_touch := (la_touch L leqb).
Notation s_touch := (s_touch L leqb).
Notation s_access_all := (s_access_all L leqb).
Notation cache_ok := (cache_ok L).
Notation labels_at := (labels_at L).
Notation resolve := (resolve L leqb).

(* with a stale file the uses succeed exactly when every label is already held, and the set of held labels never changes *)
Lemma s_access_all_stale mp ls : forall c, cache_ok mp c ->
  (fst (s_access_all false mp c ls) = true <-> forall l, In l ls -> In l c) /\
  (forall x, In x (snd (s_access_all false mp c ls)) <-> In x c).
Proof.
  induction ls as [|l r IH]; intros c Ck; cbn.
  - split; [split; [intros _ l [] | reflexivity] | reflexivity].
  - rewrite orb_false_r. destruct (mem l c) eqn:Q.
    + apply (mem_In L leqb leqb_spec) in Q.
      rewrite (s_touch_hit L leqb leqb_spec mp l c Ck Q).
      assert (Ck' : cache_ok mp (la_touch l c)).
      { rewrite <- (s_touch_hit L leqb leqb_spec mp l c Ck Q). apply (s_touch_ok L leqb leqb_spec), Ck. }
      destruct (IH (la_touch l c) Ck') as [I1 I2].
      assert (Hmem : forall x, In x (la_touch l c) <-> In x c).
      { intro x. rewrite (la_touch_In L leqb leqb_spec). split; [intros [->|?]; assumption | auto]. }
      split.
      * rewrite I1. split; [intros H x [<-|Hx]; [exact Q | apply Hmem, H, Hx] | intros H x Hx; apply Hmem, H; right; exact Hx].
      * intro x. rewrite I2. apply Hmem.
    + apply (mem_false L leqb leqb_spec) in Q. cbn. split; [|reflexivity].
      split; [discriminate | intro H; exfalso; apply Q, H; left; reflexivity].
Qed.

(* STALE-FILE SAFETY of the specification: once the file no longer has the recorded mtime (touched, rewritten or removed),
   a selection that needs a Frame which is not in memory raises StoreFileMutation -- no data -- and loads nothing;
   a selection served entirely from memory still answers. *)
Theorem s_stale_select (st : store L F) (b : sbus L) k into single ps r f :
  st_recorded L F st = Some r -> st_file L F st = f -> f <> Some r ->
  cache_ok (sb_mp L b) (sb_cache L b) ->
  resolve (sb_labels L b) k = Ok (single, ps) ->
  let ls := labels_at (sb_labels L b) ps in
  ((exists l, In l ls /\ ~ In l (sb_cache L b)) ->
     fst (s_select L F leqb st b k into) = ObErr L F "StoreFileMutation" /\
     s_flags L leqb (snd (s_select L F leqb st b k into)) = s_flags L leqb b) /\
  ((forall l, In l ls -> In l (sb_cache L b)) ->
     fst (s_select L F leqb st b k into) <> ObErr L F "StoreFileMutation").
Proof.
  intros Er Ef Hf Ck Res ls.
  assert (Stale : s_coherent L F st = false).
  { unfold s_coherent. rewrite Er, Ef. destruct f as [m|]; [|reflexivity].
    apply Z.eqb_neq. intro; subst. apply Hf. reflexivity. }
  unfold s_select. rewrite Res, Stale. fold ls.
  destruct (s_access_all_stale (sb_mp L b) ls (sb_cache L b) Ck) as [H1 H2].
  destruct (s_access_all false (sb_mp L b) (sb_cache L b) ls) as [ok c] eqn:E. cbn [fst snd] in *.
  split.
  - intros (l & Il & Nl). destruct ok.
    + exfalso. apply Nl, (proj1 H1 eq_refl), Il.
    + cbn. split; [reflexivity|]. unfold s_flags. cbn. apply map_ext. intro x.
      destruct (mem x c) eqn:Q1, (mem x (sb_cache L b)) eqn:Q2; try reflexivity.
      * apply (mem_In L leqb leqb_spec), H2 in Q1. apply (mem_false L leqb leqb_spec) in Q2. contradiction.
      * apply (mem_In L leqb leqb_spec), H2 in Q2. apply (mem_false L leqb leqb_spec) in Q1. contradiction.
  - intro Hall. rewrite (proj2 H1 Hall). cbn. destruct single; [discriminate|]. unfold s_bus_result. cbn. discriminate.
Qed.

End Stale.
