(* C13 -- the sort-and-slice path (A) refines the specification; the two paths agree. *)
Require Import SF.Prelude SF.Group Proofs.GroupFacts.

Section Runs.
  (* facts that need only == on keys: the slices cut at "adjacent keys differ" are the runs *)
  Context {R K : Type}.
  Variable key : R -> K.
  Variable keqb : K -> K -> bool.
  Hypothesis keqb_spec : forall a b, keqb a b = true <-> a = b.

  (* v[i] != v[i-1] for i = 1 .. n-1 *)
  Fixpoint adj_neq (v : list K) : list bool :=
    match v with
    | a :: (b :: _) as t => negb (keqb b a) :: adj_neq t
    | _ => []
    end.

  Lemma adj_neq_cons2 a b t : adj_neq (a :: b :: t) = negb (keqb b a) :: adj_neq (b :: t).
  Proof. reflexivity. Qed.

  Lemma flatnonzero_cons i b t :
    flatnonzero_from i (b :: t) = (if b then [i] else []) ++ flatnonzero_from (S i) t.
  Proof. reflexivity. Qed.

  Lemma removelast_cons2 {A} (a b : A) t : removelast (a :: b :: t) = a :: removelast (b :: t).
  Proof. reflexivity. Qed.

  Lemma neq_pairs_removelast : forall v a, neq_pairs keqb v (removelast (a :: v)) = adj_neq (a :: v).
  Proof.
    induction v as [|b v IH]; intro a; [reflexivity|].
    rewrite removelast_cons2, adj_neq_cons2.
    change (neq_pairs keqb (b :: v) (a :: removelast (b :: v)))
      with (negb (keqb b a) :: neq_pairs keqb v (removelast (b :: v))).
    rewrite IH. reflexivity.
  Qed.

  Lemma transitions_unfold a v :
    transitions keqb (a :: v) =
    tl ((if negb (keqb a (last (a :: v) a)) then [0%nat] else []) ++ flatnonzero_from 1 (adj_neq (a :: v))).
  Proof.
    unfold transitions, roll1.
    change (neq_pairs keqb (a :: v) (last (a :: v) a :: removelast (a :: v)))
      with (negb (keqb a (last (a :: v) a)) :: neq_pairs keqb v (removelast (a :: v))).
    rewrite neq_pairs_removelast. reflexivity.
  Qed.

  (* maximal runs of adjacent equal keys *)
  Fixpoint runs (l : list R) : list (K * list R) :=
    match l with
    | [] => []
    | r :: t =>
        match runs t with
        | (k, g) :: rest => if keqb (key r) k then (k, r :: g) :: rest else (key r, [r]) :: (k, g) :: rest
        | [] => [(key r, [r])]
        end
    end.

  Lemma runs_head x t : exists g' rest, runs (x :: t) = (key x, x :: g') :: rest.
  Proof.
    simpl. destruct (runs t) as [|[k g] rest]; [eauto|].
    destruct (keqb (key x) k) eqn:E; [apply keqb_spec in E; subst; eauto | eauto].
  Qed.

  Lemma concat_runs l : concat (map snd (runs l)) = l.
  Proof.
    induction l as [|r t IH]; [reflexivity|]. simpl.
    destruct (runs t) as [|[k g] rest]; simpl in *; [congruence|].
    destruct (keqb (key r) k); simpl; congruence.
  Qed.

  Definition good_run (kg : K * list R) : Prop :=
    exists x g', snd kg = x :: g' /\ fst kg = key x.

  Lemma runs_good l : Forall good_run (runs l).
  Proof.
    induction l as [|r t IH]; [constructor|]. simpl.
    destruct (runs t) as [|[k g] rest].
    - constructor; [|constructor]. exists r, []. auto.
    - inversion IH as [|? ? G1 G2]; subst. destruct (keqb (key r) k) eqn:E.
      + constructor; [|exact G2]. apply keqb_spec in E. exists r, g. simpl. auto.
      + constructor; [exists r, []; auto | exact IH].
  Qed.

  (* cut points between consecutive segments laid out from position s *)
  Fixpoint bounds_of (s : nat) (segs : list (list R)) : list nat :=
    match segs with
    | [] => []
    | g :: rest =>
        match rest with
        | [] => []
        | _ => (s + length g)%nat :: bounds_of (s + length g) rest
        end
    end.

  Lemma bounds_of_cons2 s (g g2 : list R) rest :
    bounds_of s (g :: g2 :: rest) = (s + length g)%nat :: bounds_of (s + length g) (g2 :: rest).
  Proof. reflexivity. Qed.

  Lemma bounds_of_shift s (r : R) g rest : bounds_of s ((r :: g) :: rest) = bounds_of (S s) (g :: rest).
  Proof.
    destruct rest as [|g2 rest]; [reflexivity|]. rewrite !bounds_of_cons2.
    replace (s + length (r :: g))%nat with (S s + length g)%nat by (simpl; lia). reflexivity.
  Qed.

  Lemma slices_loop_cons s t ts : slices_loop s (t :: ts) = (s, Some t) :: slices_loop t ts.
  Proof. reflexivity. Qed.

  Lemma bounds_runs : forall l s,
    flatnonzero_from (S s) (adj_neq (map key l)) = bounds_of s (map snd (runs l)).
  Proof.
    induction l as [|r t IH]; intro s; [reflexivity|].
    destruct t as [|x t']; [reflexivity|].
    destruct (runs_head x t') as (g' & rest & Hr).
    specialize (IH (S s)). rewrite Hr in IH.
    change (map key (r :: x :: t')) with (key r :: key x :: map key t').
    rewrite adj_neq_cons2. change (key x :: map key t') with (map key (x :: t')).
    rewrite flatnonzero_cons. rewrite IH.
    change (runs (r :: x :: t')) with
      (match runs (x :: t') with
       | (k, g) :: rest => if keqb (key r) k then (k, r :: g) :: rest else (key r, [r]) :: (k, g) :: rest
       | [] => [(key r, [r])]
       end).
    rewrite Hr. rewrite (keqb_sym keqb keqb_spec (key x) (key r)).
    destruct (keqb (key r) (key x)); simpl negb; cbv iota.
    - simpl map. change ([] ++ bounds_of (S s) ((x :: g') :: map snd rest)) with (bounds_of (S s) ((x :: g') :: map snd rest)).
      symmetry. apply bounds_of_shift.
    - simpl map. rewrite bounds_of_cons2. simpl length. rewrite Nat.add_1_r. reflexivity.
  Qed.

  (* slicing the whole list at the cut points gives back the segments *)
  Lemma slices_of_segments : forall (segs : list (list R)) (pre : list R) (s : nat) (whole : list R) (d : K),
    s = length pre -> whole = pre ++ concat segs -> segs <> [] -> Forall (fun g => g <> []) segs ->
    map (fun sl => (nth (fst sl) (map key whole) d, extract_slice whole (fst sl) (snd sl)))
        (slices_loop s (bounds_of s segs))
    = map (fun g => (match g with x :: _ => key x | [] => d end, g)) segs.
  Proof.
    induction segs as [|g rest IH]; intros pre s whole d Hs Hw Hne Hall; [congruence|].
    inversion Hall as [|? ? Hg Hrest]; subst.
    destruct g as [|x g']; [congruence|].
    destruct rest as [|g2 rest'].
    - simpl. rewrite app_nil_r. rewrite skipn_length_app. f_equal. f_equal.
      rewrite map_app. rewrite <- (map_length key pre). simpl map. apply nth_length_app.
    - change (bounds_of (length pre) ((x :: g') :: g2 :: rest'))
        with ((length pre + length (x :: g'))%nat :: bounds_of (length pre + length (x :: g')) (g2 :: rest')).
      rewrite slices_loop_cons. rewrite map_cons. rewrite (map_cons _ (x :: g') (g2 :: rest')). f_equal.
      + simpl fst. simpl snd. f_equal.
        * rewrite map_app. rewrite <- (map_length key pre). simpl concat. simpl map. apply nth_length_app.
        * unfold extract_slice. rewrite skipn_length_app.
          replace (length pre + S (length g') - length pre)%nat with (length (x :: g')) by (simpl; lia).
          change (concat ((x :: g') :: g2 :: rest')) with ((x :: g') ++ concat (g2 :: rest')).
          apply firstn_length_app.
      + apply (IH (pre ++ x :: g')); [ rewrite app_length; reflexivity | | discriminate | exact Hrest ].
        change (concat ((x :: g') :: g2 :: rest')) with ((x :: g') ++ concat (g2 :: rest')).
        rewrite app_assoc. reflexivity.
  Qed.
End Runs.

Section Ordered.
  Context {R K : Type}.
  Variable key : R -> K.
  Variable keqb kleb : K -> K -> bool.
  Hypothesis keqb_spec : forall a b, keqb a b = true <-> a = b.
  Hypothesis kleb_total : forall a b, kleb a b = true \/ kleb b a = true.
  Hypothesis kleb_trans : forall a b c, kleb a b = true -> kleb b c = true -> kleb a c = true.
  Hypothesis kleb_antisym : forall a b, kleb a b = true -> kleb b a = true -> a = b.

  Definition ksorted (v : list K) : Prop := StronglySorted (fun a b => kleb a b = true) v.

  Lemma kleb_refl a : kleb a a = true.
  Proof. destruct (kleb_total a a); assumption. Qed.

  (* ---- the stable sort ---- *)
  Lemma map_key_insert r l : map key (insert_row key kleb r l) = insert_key kleb (key r) (map key l).
  Proof.
    induction l as [|x t IH]; [reflexivity|]. simpl.
    destruct (kleb (key r) (key x)); simpl; [reflexivity | rewrite IH; reflexivity].
  Qed.

  Lemma map_key_sort rows : map key (stable_sort key kleb rows) = sort_keys kleb (map key rows).
  Proof. induction rows as [|r t IH]; [reflexivity|]. simpl. rewrite map_key_insert, IH. reflexivity. Qed.

  Lemma insert_key_sorted k l : ksorted l -> ksorted (insert_key kleb k l).
  Proof.
    unfold ksorted. induction l as [|a t IH]; intro H; simpl.
    - constructor; constructor.
    - inversion H as [|? ? Ht Ha]; subst. destruct (kleb k a) eqn:E.
      + constructor; [exact H|]. constructor; [exact E|].
        eapply Forall_impl; [|exact Ha]. intros x Hx. eapply kleb_trans; eauto.
      + constructor; [apply IH; exact Ht|].
        apply Forall_forall. intros x Hx. apply (In_insert_key kleb x k t) in Hx as [->|Hx].
        * destruct (kleb_total a k) as [H1|H1]; [exact H1 | congruence].
        * rewrite Forall_forall in Ha. apply Ha. exact Hx.
  Qed.

  Lemma sort_keys_sorted l : ksorted (sort_keys kleb l).
  Proof. induction l as [|a t IH]; simpl; [constructor | apply insert_key_sorted; exact IH]. Qed.

  (* stability: within one key the original order is kept *)
  Lemma members_insert k r l :
    members key keqb k (insert_row key kleb r l) =
    if keqb (key r) k then r :: members key keqb k l else members key keqb k l.
  Proof.
    induction l as [|a t IH].
    - reflexivity.
    - simpl insert_row. destruct (kleb (key r) (key a)) eqn:E.
      + reflexivity.
      + rewrite members_cons. rewrite IH. rewrite (members_cons key keqb k a t).
        destruct (keqb (key r) k) eqn:E1; destruct (keqb (key a) k) eqn:E2; try reflexivity.
        apply keqb_spec in E1, E2. rewrite E1, E2, kleb_refl in E. discriminate.
  Qed.

  Lemma members_sort k rows : members key keqb k (stable_sort key kleb rows) = members key keqb k rows.
  Proof.
    induction rows as [|r t IH]; [reflexivity|]. simpl stable_sort.
    rewrite members_insert, IH. reflexivity.
  Qed.

  (* ---- the [1:] trick ---- *)
  Lemma sorted_last_max : forall v d x, ksorted v -> In x v -> kleb x (last v d) = true.
  Proof.
    unfold ksorted. induction v as [|a t IH]; intros d x Hs Hx; [contradiction|].
    inversion Hs as [|? ? Ht Ha]; subst. destruct t as [|b t'].
    - destruct Hx as [->|[]]. apply kleb_refl.
    - change (last (a :: b :: t') d) with (last (b :: t') d). destruct Hx as [->|Hx].
      + rewrite Forall_forall in Ha. apply Ha. apply In_last. discriminate.
      + apply IH; assumption.
  Qed.

  Lemma adj_neq_const a : forall v i, Forall (fun x => x = a) v -> flatnonzero_from i (adj_neq keqb (a :: v)) = [].
  Proof.
    induction v as [|b t IH]; intros i H; [reflexivity|].
    inversion H as [|? ? Hb Ht]; subst. rewrite adj_neq_cons2.
    rewrite flatnonzero_cons, (keqb_refl keqb keqb_spec).
    change (flatnonzero_from (S i) (adj_neq keqb (a :: t)) = []). apply IH. exact Ht.
  Qed.

  (* on a sorted array, flatnonzero(v != roll(v,1))[1:] is exactly the set of positions i >= 1
     with v[i] != v[i-1]: if position 0 is not flagged then v[0] == v[-1], so every key is equal
     and there is nothing to drop *)
  Lemma transitions_sorted v : ksorted v ->
    transitions keqb v = flatnonzero_from 1 (adj_neq keqb v).
  Proof.
    intro Hs. destruct v as [|a t]; [reflexivity|].
    rewrite (transitions_unfold keqb). destruct (keqb a (last (a :: t) a)) eqn:E; simpl negb; cbv iota.
    - apply keqb_spec in E.
      assert (Hall : Forall (fun x => x = a) t).
      { apply Forall_forall. intros x Hx.
        assert (H1 : kleb x (last (a :: t) a) = true) by (apply sorted_last_max; [exact Hs | right; exact Hx]).
        rewrite <- E in H1. unfold ksorted in Hs. inversion Hs as [|? ? Ht Ha]; subst.
        rewrite Forall_forall in Ha. apply kleb_antisym; [exact H1 | apply Ha; exact Hx]. }
      rewrite (adj_neq_const a t 1 Hall). reflexivity.
    - reflexivity.
  Qed.

  (* ---- the sliced sorted list = its runs ---- *)
  Lemma M_A_sorted_runs l : ksorted (map key l) -> M_A_sorted key keqb l = runs key keqb l.
  Proof.
    intro Hs. destruct l as [|r0 t]; [reflexivity|].
    unfold M_A_sorted. cbv zeta. rewrite (transitions_sorted _ Hs).
    rewrite (bounds_runs key keqb keqb_spec).
    assert (Hne : map snd (runs key keqb (r0 :: t)) <> []).
    { destruct (runs_head key keqb keqb_spec r0 t) as (g' & rest & Hr). rewrite Hr. discriminate. }
    assert (Hgood := runs_good key keqb keqb_spec (r0 :: t)).
    rewrite (slices_of_segments key keqb keqb_spec (map snd (runs key keqb (r0 :: t))) [] 0 (r0 :: t) (key r0));
      [ | reflexivity | exact (eq_sym (concat_runs key keqb (r0 :: t))) | exact Hne | ].
    - rewrite map_map. rewrite <- (map_id (runs key keqb (r0 :: t))) at 2.
      apply map_ext_in. intros [k g] Hin. rewrite Forall_forall in Hgood.
      destruct (Hgood _ Hin) as (x & g' & E1 & E2). simpl in *. subst. reflexivity.
    - apply Forall_forall. intros g Hg. apply in_map_iff in Hg as ([k g0] & <- & Hin).
      rewrite Forall_forall in Hgood. destruct (Hgood _ Hin) as (x & g' & E1 & _).
      simpl in *. rewrite E1. discriminate.
  Qed.

  (* ---- runs of a sorted list = one group per distinct key ---- *)
  Lemma filter_all_true {A} (p : A -> bool) l : (forall x, In x l -> p x = true) -> filter p l = l.
  Proof.
    induction l as [|a t IH]; intro H; [reflexivity|]. simpl. rewrite (H a (or_introl eq_refl)).
    f_equal. apply IH. intros; apply H; right; assumption.
  Qed.

  Lemma members_none k l : ~ In k (map key l) -> members key keqb k l = [].
  Proof.
    intro H. induction l as [|a t IH]; [reflexivity|]. rewrite members_cons.
    replace (keqb (key a) k) with false.
    - apply IH. intro; apply H; right; assumption.
    - symmetry. apply (keqb_false keqb keqb_spec). intro E. apply H. left. exact E.
  Qed.

  Lemma runs_sorted_groups l : ksorted (map key l) ->
    runs key keqb l = groups_by key keqb (distinct keqb (map key l)) l.
  Proof.
    unfold ksorted. induction l as [|r t IH]; intro Hs; [reflexivity|].
    simpl in Hs. inversion Hs as [|? ? Ht Ha]; subst. specialize (IH Ht).
    change (runs key keqb (r :: t)) with
      (match runs key keqb t with
       | (k, g) :: rest => if keqb (key r) k then (k, r :: g) :: rest else (key r, [r]) :: (k, g) :: rest
       | [] => [(key r, [r])]
       end).
    rewrite IH. clear IH.
    change (distinct keqb (map key (r :: t)))
      with (key r :: filter (fun x => negb (keqb x (key r))) (distinct keqb (map key t))).
    set (D := distinct keqb (map key t)).
    assert (HF : ~ In (key r) (filter (fun x => negb (keqb x (key r))) D)).
    { intro H. apply filter_In in H as [_ H]. rewrite (keqb_refl keqb keqb_spec) in H. discriminate. }
    unfold groups_by at 2. rewrite map_cons. fold (groups_by key keqb (filter (fun x => negb (keqb x (key r))) D) (r :: t)).
    rewrite (groups_by_cons_notin key keqb keqb_spec r t _ HF).
    rewrite members_cons, (keqb_refl keqb keqb_spec).
    destruct t as [|x t'].
    - reflexivity.
    - subst D. change (distinct keqb (map key (x :: t')))
        with (key x :: filter (fun y => negb (keqb y (key x))) (distinct keqb (map key t'))).
      set (F := filter (fun y => negb (keqb y (key x))) (distinct keqb (map key t'))).
      unfold groups_by at 1. rewrite map_cons. fold (groups_by key keqb F (x :: t')).
      cbv beta iota.
      destruct (keqb (key r) (key x)) eqn:E.
      + apply keqb_spec in E. rewrite E.
        simpl filter. rewrite (keqb_refl keqb keqb_spec). simpl negb. cbv iota.
        rewrite filter_all_true; [reflexivity|].
        intros y Hy. subst F. apply filter_In in Hy as [_ Hy]. exact Hy.
      + assert (Hno : ~ In (key r) (map key (x :: t'))).
        { intro Hin. apply (keqb_false keqb keqb_spec) in E. simpl in Hin. destruct Hin as [Hin|Hin]; [congruence|].
          simpl in Ht, Ha. inversion Ht as [|? ? Ht' Hx]; subst. rewrite Forall_forall in Hx, Ha.
          apply E. apply kleb_antisym.
          - apply Ha. left. reflexivity.
          - apply Hx. exact Hin. }
        rewrite (members_none _ _ Hno).
        rewrite filter_all_true.
        * reflexivity.
        * intros y Hy. apply negb_true_iff. apply (keqb_false keqb keqb_spec). intro; subst y.
          apply Hno. apply (In_distinct keqb keqb_spec). exact Hy.
  Qed.

  (* ---- refinement of path A ---- *)
  Definition sorted_keys (rows : list R) : list K := distinct keqb (sort_keys kleb (map key rows)).

  Theorem pathA_spec rows : M_A key keqb kleb rows = groups_by key keqb (sorted_keys rows) rows.
  Proof.
    unfold M_A. assert (Hs : ksorted (map key (stable_sort key kleb rows))).
    { rewrite map_key_sort. apply sort_keys_sorted. }
    rewrite (M_A_sorted_runs _ Hs). rewrite (runs_sorted_groups _ Hs). rewrite map_key_sort.
    unfold sorted_keys, groups_by. apply map_ext. intro k. rewrite members_sort. reflexivity.
  Qed.

  Theorem paths_agree rows : M_A key keqb kleb rows = M_B key keqb kleb rows.
  Proof. rewrite pathA_spec. symmetry. apply (pathB_spec key keqb keqb_spec). Qed.

  Lemma sorted_keys_NoDup rows : NoDup (sorted_keys rows).
  Proof. apply (NoDup_distinct keqb keqb_spec). Qed.

  Lemma sorted_keys_In rows k : In k (sorted_keys rows) <-> In k (map key rows).
  Proof. unfold sorted_keys. rewrite (In_distinct keqb keqb_spec). apply In_sort_keys. Qed.

  (* the groups of the implementation are the groups of the specification, in another order *)
  Theorem pathA_perm_S rows : Permutation (M_A key keqb kleb rows) (S_group key keqb rows).
  Proof.
    rewrite pathA_spec. unfold S_group, groups_by. apply Permutation_map.
    apply NoDup_Permutation; [apply sorted_keys_NoDup | apply (NoDup_distinct keqb keqb_spec) |].
    intro k. rewrite sorted_keys_In. rewrite (In_distinct keqb keqb_spec). tauto.
  Qed.

  (* the partition statement, about the algorithm itself *)
  Theorem pathA_partition rows :
    Permutation (concat (map snd (M_A key keqb kleb rows))) rows /\
    NoDup (map fst (M_A key keqb kleb rows)) /\
    (forall k g, In (k, g) (M_A key keqb kleb rows) ->
       g <> [] /\ Forall (fun r => key r = k) g /\ g = filter (fun r => keqb (key r) k) rows).
  Proof.
    rewrite pathA_spec. split; [|split].
    - apply (groups_by_partition key keqb keqb_spec); [apply sorted_keys_NoDup|].
      intros r Hr. apply sorted_keys_In. apply in_map. exact Hr.
    - rewrite (map_fst_groups_by key keqb). apply sorted_keys_NoDup.
    - intros k g H. split; [|split].
      + eapply (groups_by_nonempty key keqb keqb_spec); [|exact H]. intros k' Hk. apply sorted_keys_In. exact Hk.
      + eapply (groups_by_key_constant key keqb keqb_spec); exact H.
      + eapply groups_by_members; exact H.
  Qed.

  (* apply: one result per group, labelled by its key, labels unique *)
  Theorem apply_one_per_group {V} (f : list R -> V) rows :
    M_apply f (M_A key keqb kleb rows) = S_apply key keqb f rows (sorted_keys rows) /\
    NoDup (fst (M_apply f (M_A key keqb kleb rows))) /\
    length (snd (M_apply f (M_A key keqb kleb rows))) = length (sorted_keys rows).
  Proof.
    rewrite pathA_spec. unfold M_apply, S_apply, groups_by. rewrite !map_map. simpl. rewrite map_id.
    split; [reflexivity|]. split; [apply sorted_keys_NoDup | apply map_length].
  Qed.
End Ordered.
