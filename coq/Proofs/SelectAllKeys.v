(* C04 -- the refinement for EVERY column key, repeated positions included: through the public interface
   a column key that repeats a position raises ErrorInitIndex (column labels are unique), whatever the
   block walk made of the repeated positions -- in the implementation model and in the specification. *)
Require Import SF.Prelude SF.PySlice SF.Dtype SF.Blocks SF.Select
  Proofs.SliceFacts Proofs.BlocksSelect Proofs.SelectFacts Proofs.SelectExtract.

Section AllKeys.
Context {A L : Type}.
Variable leqb : L -> L -> bool.
Variable rdt : list dtype -> dtype.
Hypothesis leqb_refl : forall x, leqb x x = true.

(* ---------- the walk never fails on in-range positions, repeated or not ---------- *)
Lemma cols_to_slice_t_step (l : list Z) :
  s_step (cols_to_slice_t l) = None \/ s_step (cols_to_slice_t l) = Some (-1).
Proof.
  unfold cols_to_slice_t. destruct l as [|a r]; [left; reflexivity|].
  destruct (Z.of_nat (length (a :: r)) =? 1); [left; reflexivity|].
  cbv zeta. destruct (last (a :: r) a >? a); [left; reflexivity|].
  destruct (last (a :: r) a =? 0); right; reflexivity.
Qed.

Lemma slice_list_total {B} (l : list B) (s : slice) : (s_step s = None \/ s_step s = Some (-1)) ->
  exists out, slice_list l s = Some out /\ forall x, In x out -> In x l.
Proof.
  intros Hs. unfold slice_list, positions, slice_indices.
  assert (Hst : (match s_step s with Some v => v | None => 1 end =? 0) = false) by (destruct Hs as [-> | ->]; reflexivity).
  rewrite Hst.
  set (ps := range_list _ _ _).
  assert (Hr : forall p, In p ps -> 0 <= p < Z.of_nat (length l)).
  { intros p Hp. eapply (positions_in_range s (Z.of_nat (length l)) ps p); [lia| |exact Hp].
    unfold positions, slice_indices. rewrite Hst. reflexivity. }
  destruct (take_positions_total l ps Hr) as [out E]. exists out. split; [exact E|].
  intros x Hx. eapply take_positions_In; eassumption.
Qed.

Lemma bundles_fst_in (pairs : list (Z * Z)) p : In p (contiguous_bundles pairs) ->
  snd p <> [] /\ forall j, In j (snd p) -> In (fst p, j) pairs.
Proof.
  intros Hp. pose proof (contiguous_bundles_chain pairs) as Hc. rewrite Forall_forall in Hc.
  destruct (Hc p Hp) as [Hne _]. split; [exact Hne|].
  intros j Hj. rewrite <- (contiguous_bundles_unbundle pairs). unfold unbundle.
  apply in_flat_map. exists p. split; [exact Hp|]. apply in_map. exact Hj.
Qed.

Lemma contiguous_go_nonempty rest : forall lb lc brev, contiguous_go lb lc brev rest <> [].
Proof.
  induction rest as [|[bi col] rest IH]; intros lb lc brev; cbn [contiguous_go]; [discriminate|].
  destruct ((lb =? bi) && (Z.abs (col - lc) =? 1)); [apply IH|discriminate].
Qed.

Lemma contiguous_bundles_nonempty pairs : pairs <> [] -> contiguous_bundles pairs <> [].
Proof. destruct pairs as [|[bi col] rest]; [congruence|]. intros _. apply contiguous_go_nonempty. Qed.

(* slicing any list of (valid block, slice with step None / -1) pairs succeeds; every block that comes out
   is a 1-D block of the source or holds columns of a source block *)
Lemma slice_blocks_total (t : tb A) (bundles : list (Z * list Z)) :
  (forall p, In p bundles -> exists b, nth_z t (fst p) = Some b) ->
  exists t', slice_blocks t (map (fun p => (fst p, cols_to_slice_t (snd p))) bundles) = Some t' /\
             length t' = length bundles /\
             forall b' c, In b' t' -> In c (b_cols b') -> exists b, In b t /\ In c (b_cols b).
Proof.
  induction bundles as [|p bundles IH]; intros Hv.
  - exists []. split; [reflexivity|]. split; [reflexivity|]. intros b' c [].
  - destruct IH as (t' & Et & El & Hc); [intros q Hq; apply Hv; right; exact Hq|].
    destruct (Hv p (or_introl eq_refl)) as [b Hb].
    assert (Hin : In b t).
    { unfold nth_z in Hb. destruct (fst p <? 0); [discriminate|]. eapply nth_error_In; eassumption. }
    unfold slice_blocks in *. cbn [map fst snd opt_all]. rewrite Hb, Et.
    unfold slice_block. destruct (b_1d b) eqn:E1.
    + exists (b :: t'). split; [reflexivity|]. split; [cbn; congruence|].
      intros b' c [<-|Hb'] Hcc; [exists b; split; assumption|exact (Hc b' c Hb' Hcc)].
    + destruct (slice_list_total (b_cols b) (cols_to_slice_t (snd p)) (cols_to_slice_t_step _)) as (out & Eo & Ho).
      rewrite Eo. eexists. split; [reflexivity|]. split; [cbn; congruence|].
      intros b' c [<-|Hb'] Hcc; [|exact (Hc b' c Hb' Hcc)].
      cbn [b_cols] in Hcc. exists b. split; [exact Hin|exact (Ho c Hcc)].
Qed.

Lemma select_list_total (t : tb A) n (l : list Z) cp : wf_tb t ->
  Forall (fun c => Z.of_nat (length (snd c)) = n) (flatten t) ->
  key_positions (CList l) (Z.of_nat (length (flatten t))) = Ok cp ->
  exists t', M_select_columns t (CList l) = Ok t' /\ Forall (block_ok n) t' /\ (cp <> [] -> t' <> []).
Proof.
  intros Hwf Hlen Hk.
  pose proof (key_positions_range (CList l) (Z.of_nat (length (flatten t))) cp ltac:(lia) Hk) as Hr.
  unfold M_select_columns, key_to_block_slices. unfold tb_index at 1. rewrite index_from_length, Hk.
  destruct (nth_z_total (tb_index t) cp) as [pairs Ep]; [unfold tb_index; rewrite index_from_length; exact Hr|].
  assert (Eo : opt_all (map (nth_z (tb_index t)) cp) = Some pairs) by (apply opt_all_Some; exact Ep).
  rewrite Eo. unfold contiguous_pairs.
  destruct (slice_blocks_total t (contiguous_bundles pairs)) as (t' & Et & El & Hc).
  { intros p Hp. destruct (bundles_fst_in pairs p Hp) as [Hne Hj].
    destruct (snd p) as [|j js] eqn:Es; [congruence|].
    specialize (Hj j (or_introl eq_refl)).
    assert (Hin : In (Some (fst p, j)) (map (nth_z (tb_index t)) cp)) by (rewrite Ep; apply in_map; exact Hj).
    apply in_map_iff in Hin as (q & Eq & _).
    destruct (index_from_spec t 0 q (fst p) j ltac:(lia) Eq) as (_ & _ & b & Hb & _).
    rewrite Z.sub_0_r in Hb. exists b. exact Hb. }
  rewrite Et. exists t'. split; [reflexivity|]. split.
  - apply Forall_forall. intros b' Hb'. split.
    + intros H1. pose proof (slice_blocks_1d t _ t' Et b' Hb' H1) as Hin.
      unfold wf_tb in Hwf. rewrite Forall_forall in Hwf. destruct (Hwf b' Hin) as [_ Hone].
      specialize (Hone H1). destruct (b_cols b') as [|c [|? ?]]; try discriminate. eexists; reflexivity.
    + apply Forall_forall. intros c Hcc. destruct (Hc b' c Hb' Hcc) as (b & Hb & Hcb).
      rewrite Forall_forall in Hlen. exact (Hlen _ (in_flatten t b c Hb Hcb)).
  - intros Hne Ht'. subst t'. cbn in El.
    assert (pairs <> []).
    { intro E0. subst pairs. destruct cp; [congruence|discriminate]. }
    apply (contiguous_bundles_nonempty pairs); [assumption|]. destruct (contiguous_bundles pairs); [reflexivity|discriminate].
Qed.

(* repeated positions give repeated labels *)
Lemma nodupb_dup (labels : list L) cp cidx : ~ NoDup cp -> take_positions labels cp = Some cidx ->
  nodupb leqb cidx = false.
Proof.
  revert cidx. induction cp as [|p cp IH]; intros cidx Hnd; [exfalso; apply Hnd; constructor|].
  cbn [take_positions]. destruct (nth_z labels p) as [x|] eqn:Ex; [|discriminate].
  destruct (take_positions labels cp) as [xs|] eqn:Exs; [|discriminate]. intros E. injection E as <-.
  cbn [nodupb]. destruct (in_dec Z.eq_dec p cp) as [Hin|Hnin].
  - (* p occurs again: its label occurs again *)
    assert (Hx : In x xs).
    { clear - Hin Ex Exs. revert xs Exs. induction cp as [|q cp IH]; intros xs Exs; [destruct Hin|].
      cbn [take_positions] in Exs. destruct (nth_z labels q) as [y|] eqn:Ey; [|discriminate].
      destruct (take_positions labels cp) as [ys|]; [|discriminate]. injection Exs as <-.
      destruct Hin as [->|Hin]; [left; congruence|right; exact (IH Hin ys eq_refl)]. }
    assert (existsb (leqb x) xs = true) by (apply existsb_exists; exists x; split; [exact Hx|apply leqb_refl]).
    rewrite H. reflexivity.
  - rewrite (IH xs); [apply Bool.andb_false_r| |reflexivity].
    intros Hn. apply Hnd. constructor; assumption.
Qed.

Notation M_extract := (M_extract leqb rdt).
Notation S_extract := (S_extract leqb rdt).

(* ==================== the refinement without the uniqueness guard ==================== *)
Theorem extract_refines_all_keys (f : mframe A L) (rk ck : ckey) : wf_mframe leqb f ->
  extract_dom (mf_rows f) (Z.of_nat (length (flatten (mf_blocks f)))) rk ck = true ->
  M_extract f rk ck = S_extract (abs_frame f) rk ck.
Proof.
  intros Hwf Hdom.
  set (m := Z.of_nat (length (flatten (mf_blocks f)))) in *.
  (* a key without repeated positions: the guarded theorem *)
  assert (Hguard : key_nodup ck m -> M_extract f rk ck = S_extract (abs_frame f) rk ck)
    by (intros Hnd; apply extract_refines; assumption).
  destruct ck as [|c|sl|l|mk]; try (apply Hguard; exact I).
  destruct (key_positions (CList l) m) as [cp|e] eqn:Ek.
  2: { apply Hguard. intros ps Hps. cbn [key_positions] in Ek. rewrite Hps in Ek. discriminate. }
  destruct (ListDec.NoDup_dec Z.eq_dec cp) as [Hnd|Hdup].
  { apply Hguard. intros ps Hps. cbn [key_positions] in Ek. rewrite Hps in Ek. injection Ek as <-. exact Hnd. }
  (* repeated positions: ErrorInitIndex on both sides (or the row key's own error) *)
  destruct Hwf as (Hwft & Hn & Hlen & Hidx & Hcols & Hndi & Hndc).
  set (t := mf_blocks f) in *. set (n := mf_rows f) in *.
  assert (Hm : Z.of_nat (length (mf_columns f)) = m) by (unfold m; rewrite Hcols; reflexivity).
  assert (Hm0 : 0 <= m) by (unfold m; lia).
  pose proof (key_positions_range (CList l) m cp Hm0 Ek) as Hcr.
  assert (Hcpne : cp <> []) by (intro E0; subst cp; apply Hdup; constructor).
  destruct (select_list_total t n l cp Hwft Hlen Ek) as (t' & EM & Hok & Hne). specialize (Hne Hcpne).
  destruct (take_positions_total (mf_columns f) cp) as [cidx Ecidx]; [intros p Hp; specialize (Hcr p Hp); lia|].
  destruct (take_positions_total (flatten t) cp Hcr) as [cols Ecols].
  pose proof (nodupb_dup (mf_columns f) cp cidx Hdup Ecidx) as Hcdup.
  assert (Hci : axis_extract leqb (mf_columns f) (CList l) = Err "ErrorInitIndex").
  { unfold axis_extract. rewrite Hm, Ek. cbn [res_bind]. rewrite Ecidx. unfold new_index. rewrite Hcdup. reflexivity. }
  unfold Select.S_extract. cbn [abs_frame sf_cols sf_index]. fold t. fold m. rewrite Hidx.
  assert (Ecs : ckey_sel (CList l) m = Ok (SMany cp)) by (unfold ckey_sel; rewrite Ek; reflexivity).
  rewrite Ecs. cbn [res_bind].
  rewrite M_extract_ifs_eq. unfold M_extract_ifs. fold t. fold n.
  rewrite (M_tb_extract_walk t n rk (CList l) eq_refl). unfold walk. rewrite EM.
  destruct (ckey_sel rk n) as [rs|e] eqn:Ers; cbn [res_bind].
  2: { pose proof (ckey_sel_err _ _ _ Ers) as Hrk.
       destruct (single_row_err rk n e Hrk) as [Hsr|[sr Hsr]]; rewrite Hsr; cbn [res_bind]; [reflexivity|].
       destruct t' as [|b t']; [congruence|]. cbn [map res_all]. inversion Hok as [|? ? Hb _]; subst.
       rewrite (row_apply_err rk n e sr b Hb Hrk). reflexivity. }
  pose proof (ckey_sel_positions _ _ _ Ers) as Hrp.
  pose proof (ckey_sel_range _ _ _ Hn Ers) as Hrr.
  rewrite (single_row_spec rk n _ Hn Hrp). cbn [res_bind].
  destruct (rows_apply_all t' rk n (sel_positions rs) Hn Hok Hrp) as (bs & Ebs & _ & Hbl).
  rewrite Ebs. cbn [res_bind].
  destruct (from_blocks_ok bs (length (sel_positions rs)) n Hbl) as (tr & Etr & _).
  rewrite Etr. cbn [res_bind].
  destruct (take_positions_total (mf_index f) (sel_positions rs)) as [ridx Eridx]; [intros p Hp; rewrite Hidx; auto|].
  assert (Hri := axis_extract_spec leqb (mf_index f) rk rs ridx (mf_name f) Hndi ltac:(rewrite Hidx; exact Ers) Eridx).
  rewrite Hri, Hci.
  assert (Hcolslen : Forall (fun c => Z.of_nat (length (snd c)) = n) cols).
  { apply Forall_forall. intros c Hc. rewrite Forall_forall in Hlen. apply Hlen. eapply take_positions_In; eassumption. }
  destruct (take_rows_total (sel_positions rs) cols n Hcolslen Hrr) as [data Edata].
  unfold Select.S_extract_sel. cbn [abs_frame sf_index sf_columns sf_cols sf_name sel_positions]. fold t.
  rewrite Eridx, Ecidx, Ecols, Edata.
  assert (Hnc : new_index leqb cidx = Err "ErrorInitIndex") by (unfold new_index; rewrite Hcdup; reflexivity).
  rewrite Hnc.
  destruct rs as [i|rp]; cbn [res_bind].
  - reflexivity.
  - destruct (new_index leqb ridx); reflexivity.
Qed.

End AllKeys.
