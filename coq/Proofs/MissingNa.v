(* C14 -- isna marks exactly NaN / None / NaT: the per-element behaviour of util.isna_array, driven by the kind constants
   REGENERATED from util.py (Gen.Gen_util), equals Value.isna on every value an array of that kind can hold. *)
Require Import SF.Prelude SF.Value SF.Dtype SF.PyDyn Gen.Gen_util SF.Missing SF.MissingCheck.

Lemma py_val_eq_refl_scalar v : match v with VTup _ => True | VNaN | VNaT => py_val_eq v v = false | _ => py_val_eq v v = true end.
Proof.
  destruct v; cbn; rewrite ?Z.eqb_refl, ?String.eqb_refl, ?Bool.eqb_reflx; try reflexivity; try exact I.
  - unfold tunit_eqb. rewrite !Z.eqb_refl. reflexivity.
  - unfold tunit_eqb. rewrite !Z.eqb_refl. reflexivity.
Qed.

(* scalar cells (tuples as cells are outside the model: NumPy turns them into 2-D arrays) *)
Definition scalar (v : val) : bool := match v with VTup _ => false | _ => true end.

Theorem isna_elem_exact (kind : string) (v : val) :
  kind_holds kind v = true -> scalar v = true -> M_isna_elem kind v = isna v.
Proof.
  unfold M_isna_elem, kind_holds, kind_in, DTYPE_INEXACT_KINDS, DTYPE_NAT_KINDS.
  cbn [existsb pv_eqb orb].
  intros Hh Hs.
  destruct (String.eqb kind "O") eqn:EO.
  - apply String.eqb_eq in EO. subst kind. cbn [String.eqb Ascii.eqb Bool.eqb orb negb andb].
    pose proof (py_val_eq_refl_scalar v) as H. destruct v; cbn [isna scalar] in *; try rewrite H; try reflexivity; discriminate.
  - destruct (String.eqb kind "f") eqn:Ef; [cbn [orb] in *; destruct v; try reflexivity; discriminate|].
    destruct (String.eqb kind "c") eqn:Ec; [cbn [orb] in *; destruct v; try reflexivity; discriminate|].
    cbn [orb] in *.
    destruct (String.eqb kind "M") eqn:EM; [cbn [orb] in *; destruct v; try reflexivity; discriminate|].
    destruct (String.eqb kind "m") eqn:Em; [cbn [orb] in *; destruct v; try reflexivity; discriminate|].
    cbn [orb negb] in *. apply negb_true_iff in Hh. symmetry. exact Hh.
Qed.
