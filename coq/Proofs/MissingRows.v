(* C14 -- axis 1: backward directional fill over rows and frames (guarded for the old decision cf = false, unguarded for the repaired one), and the sided
   (leading / trailing) fills across blocks. *)
Require Import SF.Prelude SF.Value SF.Missing Proofs.MissingSpec Proofs.MissingKernel Proofs.MissingAxis1.

Lemma concat_rev_rev {X} (L : list (list X)) : concat (rev L) = rev (concat (map (@rev X) L)).
Proof.
  induction L as [|a L IH]; [reflexivity|].
  cbn [rev map concat]. rewrite concat_app, IH, rev_app_distr, rev_involutive. cbn [concat]. rewrite app_nil_r. reflexivity.
Qed.

Lemma rev_concat {X} (L : list (list X)) : rev (concat L) = concat (map (@rev X) (rev L)).
Proof.
  induction L as [|a L IH]; [reflexivity|].
  cbn [rev map concat]. rewrite rev_app_distr, IH, map_app, concat_app. cbn [map concat]. rewrite app_nil_r. reflexivity.
Qed.

Lemma forallb_rev {X} (f : X -> bool) (xs : list X) : forallb f (rev xs) = forallb f xs.
Proof.
  induction xs as [|a t IH]; [reflexivity|]. cbn [rev forallb]. rewrite forallb_app, IH. cbn [forallb].
  rewrite andb_true_r. apply andb_comm.
Qed.

Section Rows.
Context {A : Type}.
Variable cf : bool.
Implicit Types (cs : list (option A)) (gs : list (A * nat)) (st : option (bridge A)) (bs : list (rblock A)).

(* ---------------------------------------------------------------- backward directional fill *)
Lemma block_bwd_ok limit st last run b out st' : 0 <= limit ->
  R limit st last run -> rb_ok b = true -> bwd_block_dom cf limit b = true ->
  M_dir_block cf false limit st b = (out, st') ->
  rev out = S_ffill_go limit last run (rev (rb_cells b)) /\
  R limit st' (fst (S_carry last run (rev (rb_cells b)))) (snd (S_carry last run (rev (rb_cells b)))).
Proof.
  intros Hl HR Hok Hdom HM. destruct b as [anyna c|anyna cs].
  - cbn [M_dir_block rb_cells rev app] in *.
    destruct (block1_ok limit st last run anyna c out st' Hl HR Hok HM) as [-> HR']. split; [|exact HR'].
    destruct c; reflexivity.
  - apply (block2_bwd_ok cf limit st last run anyna cs out st' Hl HR Hok Hdom HM).
Qed.

Lemma row_bwd_go limit bs : 0 <= limit -> forall st last run, R limit st last run ->
  row_ok bs = true -> bwd_dom cf limit bs = true ->
  concat (map (@rev (option A)) (M_dir_row_go cf false limit st bs))
  = S_ffill_go limit last run (concat (map (fun b => rev (rb_cells b)) bs)).
Proof.
  intros Hl. induction bs as [|b t IH]; intros st last run HR Hok Hdom; [reflexivity|].
  cbn [row_ok forallb] in Hok. apply andb_true_iff in Hok as [Hb Ht].
  cbn [bwd_dom forallb] in Hdom. apply andb_true_iff in Hdom as [Hd Hdt].
  cbn [M_dir_row_go]. destruct (M_dir_block cf false limit st b) as [o st'] eqn:E.
  destruct (block_bwd_ok _ _ _ _ _ _ _ Hl HR Hb Hd E) as [Ho HR'].
  cbn [map concat]. rewrite S_ffill_go_app, Ho. f_equal. apply IH; assumption.
Qed.

Theorem dir_row_backward limit bs : 0 <= limit -> row_ok bs = true -> bwd_dom cf limit bs = true ->
  M_dir_row cf false limit bs = S_bfill limit (row_cells bs).
Proof.
  intros Hl Hok Hdom. unfold M_dir_row, S_bfill, S_ffill, row_cells.
  rewrite concat_rev_rev. f_equal.
  rewrite (row_bwd_go limit (rev bs) Hl None None 0).
  - f_equal. rewrite rev_concat, <- map_rev, map_map. reflexivity.
  - unfold R. split; [lia|reflexivity].
  - unfold row_ok. rewrite forallb_rev. exact Hok.
  - unfold bwd_dom. rewrite forallb_rev. exact Hdom.
Qed.

Theorem dir_axis1_backward limit nrows (blocks : list (block A)) : 0 <= limit ->
  frame_wf nrows blocks = true -> frame_bwd_dom cf limit nrows blocks = true ->
  M_dir_axis1 cf false limit nrows blocks = map (S_bfill limit) (frame_rows nrows blocks).
Proof.
  intros Hl Hwf Hdom. unfold M_dir_axis1, frame_rows. rewrite map_map. apply map_ext_in. intros i Hi.
  unfold frame_bwd_dom in Hdom. rewrite forallb_forall in Hdom. specialize (Hdom i Hi).
  apply in_seq in Hi. rewrite dir_row_backward, row_cells_at; [reflexivity|assumption| |assumption].
  apply (row_at_ok nrows); [assumption|lia].
Qed.

(* no limit: the backward refinement holds without any guard *)
Lemma bwd_dom_nolimit bs : bwd_dom cf 0 bs = true.
Proof. unfold bwd_dom. apply forallb_forall. intros [anyna c|anyna cs] _; [reflexivity|]. cbn. destruct cf; reflexivity. Qed.

(* the repaired code (count from the first yielded slice) needs no guard at all *)
Lemma bwd_dom_repaired limit bs : cf = true -> bwd_dom cf limit bs = true.
Proof. intros ->. unfold bwd_dom. apply forallb_forall. intros [anyna c|anyna cs] _; reflexivity. Qed.

Theorem dir_row_backward_nolimit bs : row_ok bs = true -> M_dir_row cf false 0 bs = S_bfill 0 (row_cells bs).
Proof. intros Hok. apply dir_row_backward; [lia|assumption|apply bwd_dom_nolimit]. Qed.

End Rows.

Theorem dir_row_backward_repaired {A} limit (bs : list (rblock A)) : 0 <= limit -> row_ok bs = true ->
  M_dir_row true false limit bs = S_bfill limit (row_cells bs).
Proof. intros Hl Hok. apply dir_row_backward; [assumption|assumption|apply bwd_dom_repaired; reflexivity]. Qed.

Theorem decompositions {A} (l : list (option A)) :
  (exists k0 gs, l = nones k0 ++ flat gs) /\ (exists gs kend, l = flatb gs ++ nones kend).
Proof. split; [apply decompose | apply decompose_b]. Qed.

Section Sided.
Context {A : Type}.
Implicit Types (cs : list (option A)) (gs : list (A * nat)) (st : option (bridge A)) (bs : list (rblock A)).

(* ---------------------------------------------------------------- sided fills *)
Definition S_lead_if (active : bool) (v : A) cs : list (option A) := if active then S_leading v cs else cs.

Lemma S_leading_app v cs1 cs2 :
  S_leading v (cs1 ++ cs2) = S_leading v cs1 ++ S_lead_if (forallb is_missing cs1) v cs2.
Proof.
  induction cs1 as [|[x|] t IH]; cbn [app S_leading forallb is_missing andb S_lead_if].
  - destruct cs2 as [|[y|] u]; reflexivity.
  - reflexivity.
  - rewrite IH. reflexivity.
Qed.

Lemma S_lead_if_app active v cs1 cs2 :
  S_lead_if active v (cs1 ++ cs2) = S_lead_if active v cs1 ++ S_lead_if (active && forallb is_missing cs1) v cs2.
Proof. destruct active; cbn [S_lead_if andb]; [apply S_leading_app | reflexivity]. Qed.

Lemma forallb_sel cs : forallb (fun x => x) (map is_missing cs) = forallb is_missing cs.
Proof. induction cs as [|c t IH]; cbn; congruence. Qed.

Lemma assign_leading v k gs : assign_slice 0 (Z.of_nat k) (Some v) (nones k ++ flat gs) = repeat (Some v) k ++ flat gs.
Proof.
  unfold assign_slice. rewrite assign_go_app. unfold nones at 1.
  replace (Z.of_nat k) with (0 + Z.of_nat k) at 1 by lia. rewrite assign_go_repeat by lia.
  rewrite assign_go_after by (zl; lia). replace (k - k)%nat with 0%nat by lia. cbn [repeat]. rewrite app_nil_r. reflexivity.
Qed.

Lemma assign_trailing v gs kend :
  assign_slice (zlen (flatb gs)) (zlen (flatb gs) + Z.of_nat kend) (Some v) (flatb gs ++ nones kend) = flatb gs ++ repeat (Some v) kend.
Proof.
  unfold assign_slice. rewrite assign_go_app, assign_go_before by lia. f_equal. unfold nones.
  pose proof (assign_go_repeat_suffix (@None A) (Some v) kend (0 + zlen (flatb gs)) kend (le_n _)) as H.
  replace (kend - kend)%nat with 0%nat in H by lia. cbn [repeat app] in H.
  replace (0 + zlen (flatb gs) + Z.of_nat 0) with (zlen (flatb gs)) in H by lia.
  replace (0 + zlen (flatb gs) + Z.of_nat kend) with (zlen (flatb gs) + Z.of_nat kend) in H by lia. exact H.
Qed.

Lemma sided_block_leading v prev b out prev' :
  M_sided_block true v prev b = (out, prev') ->
  out = S_lead_if prev v (rb_cells b) /\ prev' = prev && forallb is_missing (rb_cells b).
Proof.
  intros HM. destruct b as [anyna c|anyna cs]; cbn [M_sided_block rb_cells] in *.
  - injection HM as <- <-. destruct c as [x|], prev; cbn; split; reflexivity.
  - injection HM as <- <-. rewrite forallb_sel. split; [|apply andb_comm].
    destruct (decompose cs) as (k & gs & ->). fold (sel_of (nones k ++ flat gs)).
    rewrite hd_sel_block, sided_slice_leading.
    destruct prev; cbn [S_lead_if andb]; rewrite ?andb_false_r; [|reflexivity].
    rewrite S_leading_explicit. destruct (0 <? Z.of_nat k) eqn:Ek.
    + apply assign_leading.
    + assert (k = 0%nat) by lia. subst k. reflexivity.
Qed.

Lemma sided_block_trailing v prev b out prev' : rb_ok b = true ->
  M_sided_block false v prev b = (out, prev') ->
  rev out = S_lead_if prev v (rev (rb_cells b)) /\ prev' = prev && forallb is_missing (rev (rb_cells b)).
Proof.
  intros Hok HM. destruct b as [anyna c|anyna cs]; cbn [M_sided_block rb_cells] in *.
  - injection HM as <- <-. destruct c as [x|], prev; cbn; split; reflexivity.
  - injection HM as <- <-. rewrite forallb_sel.
    assert (Hfa : forallb is_missing (rev cs) = forallb is_missing cs) by apply forallb_rev.
    rewrite Hfa. split; [|apply andb_comm].
    cbn [rb_ok] in Hok. apply andb_true_iff in Hok as [Hne _].
    assert (Hcs : cs <> []) by (destruct cs; [discriminate|congruence]).
    destruct (decompose_b cs) as (gs & kend & ->). fold (sel_of (flatb gs ++ nones kend)).
    rewrite last_sel_block_b by exact Hcs. rewrite sided_slice_trailing.
    rewrite rev_app_distr, rev_nones, rev_flatb.
    destruct prev; cbn [S_lead_if andb]; rewrite ?andb_false_r.
    + rewrite S_leading_explicit. destruct (0 <? Z.of_nat kend) eqn:Ek; cbn [andb].
      * rewrite assign_trailing, rev_app_distr, rev_repeat, rev_flatb. reflexivity.
      * assert (kend = 0%nat) by lia. subst kend. rewrite rev_app_distr, rev_nones, rev_flatb. reflexivity.
    + rewrite rev_app_distr, rev_nones, rev_flatb. reflexivity.
Qed.

Lemma sided_row_leading_go v bs : forall prev,
  concat (M_sided_row_go true v prev bs) = S_lead_if prev v (row_cells bs).
Proof.
  induction bs as [|b t IH]; intros prev; [destruct prev; reflexivity|].
  cbn [M_sided_row_go]. destruct (M_sided_block true v prev b) as [o p'] eqn:E.
  destruct (sided_block_leading v prev b o p' E) as [-> ->].
  unfold row_cells. cbn [map concat]. rewrite S_lead_if_app, IH. reflexivity.
Qed.

Lemma sided_row_trailing_go v bs : row_ok bs = true -> forall prev,
  concat (map (@rev (option A)) (M_sided_row_go false v prev bs))
  = S_lead_if prev v (concat (map (fun b => rev (rb_cells b)) bs)).
Proof.
  intros Hok. induction bs as [|b t IH]; intros prev; [destruct prev; reflexivity|].
  cbn [row_ok forallb] in Hok. apply andb_true_iff in Hok as [Hb Ht].
  cbn [M_sided_row_go]. destruct (M_sided_block false v prev b) as [o p'] eqn:E.
  destruct (sided_block_trailing v prev b o p' Hb E) as [Ho ->].
  cbn [map concat]. rewrite S_lead_if_app, Ho, IH by assumption. reflexivity.
Qed.

Theorem sided_row_any_layout (leading : bool) v bs : row_ok bs = true ->
  M_sided_row leading v bs = (if leading then S_leading v (row_cells bs) else S_trailing v (row_cells bs)).
Proof.
  intros Hok. unfold M_sided_row. destruct leading.
  - apply (sided_row_leading_go v bs true).
  - unfold S_trailing, row_cells. rewrite concat_rev_rev. f_equal.
    rewrite (sided_row_trailing_go v (rev bs)) by (unfold row_ok; rewrite forallb_rev; exact Hok).
    cbn [S_lead_if]. f_equal. rewrite rev_concat, <- map_rev, map_map. reflexivity.
Qed.

Theorem sided_axis1_any_layout (leading : bool) v nrows (blocks : list (block A)) : frame_wf nrows blocks = true ->
  M_sided_axis1 leading v nrows blocks
  = map (fun r => if leading then S_leading v r else S_trailing v r) (frame_rows nrows blocks).
Proof.
  intros Hwf. unfold M_sided_axis1, frame_rows. rewrite map_map. apply map_ext_in. intros i Hi.
  apply in_seq in Hi. rewrite sided_row_any_layout, row_cells_at; [reflexivity|].
  apply (row_at_ok nrows); [assumption|lia].
Qed.

(* 1-D sided fill (Series._fillna_sided, one column of _fillna_sided_axis_0) *)
Theorem M_sided1d_spec (leading : bool) v cs :
  M_sided1d leading v cs = (if leading then S_leading v cs else S_trailing v cs).
Proof.
  unfold M_sided1d. fold (sel_of cs). destruct leading.
  - destruct (decompose cs) as (k & gs & ->). rewrite S_leading_explicit.
    destruct (existsb (fun b => b) (sel_of (nones k ++ flat gs))) eqn:E; cbn [negb].
    + rewrite hd_sel_block, sided_slice_leading. destruct (0 <? Z.of_nat k) eqn:Ek; cbn [negb].
      * apply assign_leading.
      * assert (k = 0%nat) by lia. subst k. reflexivity.
    + destruct (existsb_sel_false _ E k gs eq_refl) as [-> _]. reflexivity.
  - destruct (decompose_b cs) as (gs & kend & ->). unfold S_trailing.
    rewrite rev_app_distr, rev_nones, rev_flatb, S_leading_explicit, rev_app_distr, rev_repeat, rev_flat, rev_involutive.
    destruct (existsb (fun b => b) (sel_of (flatb gs ++ nones kend))) eqn:E; cbn [negb].
    + assert (Hne : flatb gs ++ nones kend <> []).
      { intros H. rewrite H in E. discriminate. }
      rewrite last_sel_block_b by exact Hne. rewrite sided_slice_trailing.
      destruct (0 <? Z.of_nat kend) eqn:Ek; cbn [negb].
      * apply assign_trailing.
      * assert (kend = 0%nat) by lia. subst kend. reflexivity.
    + destruct (existsb_sel_false_b _ E gs kend eq_refl) as [-> _]. reflexivity.
Qed.

End Sided.

(* the guards of the refinement theorems are satisfiable by frames with missing cells, 2-D blocks and a positive limit *)
Example guards_nontrivial :
  let blocks := [B1 [None; Some 1]; B2 [[None; Some 2; None]; [Some 3; None; None]]; B1 [Some 4; None]] in
  frame_wf 2 blocks = true /\ frame_bwd_dom false 2 2 blocks = true /\
  M_dir_axis1 false false 2 2 blocks = [[Some 2; Some 2; Some 2; Some 4; Some 4]; [Some 1; Some 3; None; None; None]] /\
  M_dir_axis1 false true 1 2 blocks = [[None; None; Some 2; Some 2; Some 4]; [Some 1; Some 3; Some 3; None; None]].
Proof. vm_compute. repeat split. Qed.

(* with the old decision (count from the LAST yielded slice) the guard is necessary: rows [NaN | NaN NaN 1 NaN 2] (over-fill)
   and [NaN | NaN 1 NaN NaN 2] (under-fill), limit 2 -- the repaired decision meets the specification on both *)
Example old_decision_needs_guard :
  let r1 := [RB1 true None; RB2 true [None; None; Some 1; None; Some 2]] in
  let r2 := [RB1 true None; RB2 true [None; Some 1; None; None; Some 2]] in
  M_dir_row false false 2 r1 <> S_bfill 2 (row_cells r1) /\ M_dir_row false false 2 r2 <> S_bfill 2 (row_cells r2) /\
  M_dir_row true false 2 r1 = S_bfill 2 (row_cells r1) /\ M_dir_row true false 2 r2 = S_bfill 2 (row_cells r2).
Proof. vm_compute. repeat split; discriminate. Qed.
