(* util.slice_to_ascending_slice (regenerated from source in Gen.Gen_util) equals the typed
   function asc_typed on every well-typed argument. *)
Require Import SF.Prelude SF.PySlice SF.Dtype SF.PyDyn Gen.Gen_util Proofs.SliceFacts.

(* the body of the function for a key with step st < 0 whose start/stop are positions or None *)
Definition asc_tail (k : slice) (st n : Z) : slice :=
  let stop' := match s_start k with None => None | Some a => Some (a + 1) end in
  if st =? -1 then mk_slice (match s_stop k with None => None | Some b => Some (b + 1) end) stop' (Some 1)
  else
    let s := Z.abs st in
    let a := match s_start k with None => n - 1 | Some a => Z.min (n - 1) a end in
    let a' := match s_stop k with None => a - s * (a / s) | Some b => a - s * ((a - b - 1) / s) end in
    mk_slice (Some a') stop' (Some s).

Definition neg_bound (k : slice) : bool :=
  match s_start k with Some a => a <? 0 | None => false end ||
  match s_stop k with Some b => b <? 0 | None => false end.

Definition asc_typed (k : slice) (n : Z) : slice :=
  match s_step k with
  | None => k
  | Some st =>
    if st >? 0 then k else
    if neg_bound k then
      let a := adj_bound (s_start k) n st true in
      let b := adj_bound (s_stop k) n st false in
      if a <? 0 then mk_slice (Some 0) (Some 0) None
      else asc_tail (mk_slice (Some a) (if b <? 0 then None else Some b) (Some st)) st n
    else asc_tail k st n
  end.

Require Import SF.PyDynTac.
Local Opaque py_slice_indices Z.mul Z.div Z.add Z.sub Z.min Z.max Z.abs Z.opp Z.modulo Z.gtb Z.eqb Z.ltb Z.leb Z.geb adj_bound.

Lemma asc_typed_refines k n : s_step k <> Some 0 -> 0 <= n ->
  slice_to_ascending_slice (of_slice k) (PInt n) = of_slice (asc_typed k n).
Proof.
  destruct k as [oa ob [st|]]; intros Hst Hn; cbn in Hst;
    [assert (Hst' : st <> 0) by congruence | destruct oa, ob; reflexivity].
  unfold asc_typed, asc_tail, neg_bound, of_slice.
  cbn [s_step s_start s_stop of_oz].
  unfold slice_to_ascending_slice.
  rewrite !py_slice_indices_ok by assumption.
  destruct oa as [x|], ob as [y|]; cbn [of_oz]; dyn_refine.
Qed.
