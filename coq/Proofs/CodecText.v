(* C16 -- the text pipeline of one record:
     to_delimited: csv.writer;  from_delimited: (csv.reader + TAB.join | raw line) ; genfromtxt: strip, split on TAB.
   For every record that is in none of the loss classes (record_ok) the fields come back. *)
Require Import SF.Prelude SF.Value Gen.Gen_c16 SF.Codec Proofs.CodecCsv Proofs.CodecTable.

Lemma native_not_strip : is_strip native = false.
Proof. vm_compute. reflexivity. Qed.

(* ---- str.split ---- *)
Lemma split_on_field : forall d f cur rest,
  existsb (Ascii.eqb d) f = false ->
  split_on d cur (f ++ rest) = split_on d (rev f ++ cur) rest.
Proof.
  intros d f; induction f as [|c f IH]; intros cur rest H; [reflexivity|].
  cbn in H. apply orb_false_iff in H as [Hc Hf].
  cbn [app split_on]. rewrite Ascii.eqb_sym, Hc. rewrite IH by assumption.
  cbn [rev]. rewrite <- app_assoc. reflexivity.
Qed.

Lemma split_join : forall d fs,
  forallb (fun f => negb (existsb (Ascii.eqb d) f)) fs = true -> fs <> [] ->
  split_on d [] (join d fs) = fs.
Proof.
  intros d fs; induction fs as [|f fs IH]; intros H Hne; [congruence|].
  cbn [forallb] in H. apply andb_true_iff in H as [Hf Hfs]. apply negb_true_iff in Hf.
  destruct fs as [|g fs].
  - cbn [join]. rewrite <- (app_nil_r f) at 1. rewrite split_on_field by assumption.
    cbn [split_on]. rewrite app_nil_r, rev_involutive. reflexivity.
  - change (join d (f :: g :: fs)) with (f ++ d :: join d (g :: fs)).
    rewrite split_on_field by assumption. cbn [split_on]. rewrite Ascii.eqb_refl.
    rewrite app_nil_r, rev_involutive. rewrite IH by (assumption || discriminate). reflexivity.
Qed.

(* ---- strip ---- *)
Lemma lstrip_id : forall l, starts_strip l = false -> lstrip l = l.
Proof. intros [|c l] H; [reflexivity|]. cbn in *. rewrite H. reflexivity. Qed.

Lemma strip_edge_id : forall l,
  starts_strip l = false -> starts_strip (rev l) = false -> strip_edge l = l.
Proof.
  intros l H1 H2. unfold strip_edge, rstrip. rewrite (lstrip_id l H1), (lstrip_id _ H2).
  apply rev_involutive.
Qed.

(* ---- join: first and last character ---- *)
Lemma join_snoc : forall sep l x, l <> [] -> join sep (l ++ [x]) = join sep l ++ sep :: x.
Proof.
  intros sep l x; induction l as [|f l IH]; intro H; [congruence|].
  destruct l as [|g l].
  - reflexivity.
  - change (join sep ((f :: g :: l) ++ [x])) with (f ++ sep :: join sep ((g :: l) ++ [x])).
    rewrite IH by discriminate.
    change (join sep (f :: g :: l)) with (f ++ sep :: join sep (g :: l)).
    rewrite <- app_assoc. reflexivity.
Qed.

Lemma starts_strip_join : forall fs,
  (2 <= length fs)%nat -> starts_strip (hd [] fs) = false -> starts_strip (join native fs) = false.
Proof.
  intros [|f [|g fs]] Hlen H; cbn [length] in Hlen; try lia.
  change (join native (f :: g :: fs)) with (f ++ native :: join native (g :: fs)).
  cbn [hd] in H. destruct f as [|c f]; [cbn; apply native_not_strip|exact H].
Qed.

Lemma starts_strip_rev_join : forall fs,
  (2 <= length fs)%nat -> starts_strip (rev (last fs [])) = false ->
  starts_strip (rev (join native fs)) = false.
Proof.
  intros fs Hlen H.
  assert (Hne : fs <> []) by (destruct fs; cbn in Hlen; [lia|discriminate]).
  rewrite (app_removelast_last [] Hne).
  assert (Hr : removelast fs <> []).
  { destruct fs as [|f [|g fs]]; cbn [length] in Hlen; try lia. cbn. discriminate. }
  rewrite join_snoc by assumption.
  rewrite rev_app_distr. cbn [rev]. rewrite <- app_assoc. cbn [app].
  destruct (rev (last fs [])) as [|c r] eqn:E; [cbn; apply native_not_strip|exact H].
Qed.

Lemma join_two_nonempty : forall sep fs, (2 <= length fs)%nat -> join sep fs <> [].
Proof.
  intros sep [|f [|g fs]] H; cbn [length] in H; try lia.
  change (join sep (f :: g :: fs)) with (f ++ sep :: join sep (g :: fs)).
  intro E. apply app_eq_nil in E as [_ E]. discriminate.
Qed.

Lemma record_ok_parts : forall d fs, record_ok d fs = true ->
  (2 <= length fs)%nat /\ forallb (field_ok d) fs = true /\
  starts_strip (hd [] fs) = false /\ starts_strip (rev (last fs [])) = false.
Proof.
  intros d fs H. unfold record_ok in H.
  apply andb_true_iff in H as [H H4]. apply andb_true_iff in H as [H H3]. apply andb_true_iff in H as [H1 H2].
  apply Nat.leb_le in H1. apply negb_true_iff in H3. apply negb_true_iff in H4. auto.
Qed.

Lemma field_ok_parts : forall d s, field_ok d s = true ->
  no_nl s = true /\ existsb (Ascii.eqb native) s = false /\
  (sf_reader_bypass_native && Ascii.eqb d native = true -> existsb (Ascii.eqb ch_q) s = false).
Proof.
  intros d s H. unfold field_ok in H.
  apply andb_true_iff in H as [H H3]. apply andb_true_iff in H as [H1 H2].
  apply negb_true_iff in H2. repeat split; try assumption.
  intro Hb. rewrite Hb in H3. now apply negb_true_iff in H3.
Qed.

(* genfromtxt's splitter gives the fields of a TAB-joined record back *)
Lemma gen_split_join : forall d fs, record_ok d fs = true -> gen_split (join native fs) = fs.
Proof.
  intros d fs H. destruct (record_ok_parts _ _ H) as (Hlen & Hf & Hs & He).
  unfold gen_split.
  rewrite strip_edge_id by (apply starts_strip_join || apply starts_strip_rev_join; assumption).
  pose proof (join_two_nonempty native fs Hlen) as Hne.
  destruct (join native fs) as [|c l] eqn:E; [congruence|]. rewrite <- E.
  apply split_join.
  - rewrite forallb_forall in *. intros x Hx. apply negb_true_iff.
    destruct (field_ok_parts _ _ (Hf x Hx)) as (_ & Hn & _). exact Hn.
  - destruct fs; cbn in Hlen; [lia|discriminate].
Qed.

(* ---- the writer under the native delimiter writes the fields as they are ---- *)
Lemma existsb_eqb_sym : forall c (s : text), existsb (fun x => Ascii.eqb x c) s = existsb (Ascii.eqb c) s.
Proof. intros c s. induction s as [|x s IH]; cbn; [reflexivity|]. rewrite IH, Ascii.eqb_sym. reflexivity. Qed.

Lemma needs_quote_clean : forall d s,
  existsb is_nl s = false -> existsb (Ascii.eqb d) s = false -> existsb (Ascii.eqb ch_q) s = false ->
  needs_quote d s = false.
Proof.
  intros d s H1 H2 H3. unfold needs_quote. induction s as [|c s IH]; [reflexivity|].
  cbn [existsb] in *. apply orb_false_iff in H1 as [A1 B1]. apply orb_false_iff in H2 as [A2 B2].
  apply orb_false_iff in H3 as [A3 B3].
  rewrite (Ascii.eqb_sym c d), A2, (Ascii.eqb_sym c ch_q), A3, A1. cbn [orb]. apply IH; assumption.
Qed.

Lemma needs_quote_native : forall s,
  no_nl s = true -> existsb (Ascii.eqb native) s = false -> existsb (Ascii.eqb ch_q) s = false ->
  needs_quote native s = false.
Proof.
  intros s H1 H2 H3. unfold no_nl in H1. apply negb_true_iff in H1. apply needs_quote_clean; assumption.
Qed.

(* export then from_delimited's file_like(): the TAB-joined record *)
Lemma import_export_line : forall d fs,
  delim_ok d = true -> record_ok d fs = true ->
  sf_import_line d (sf_export_line d fs) = Ok (join native fs).
Proof.
  intros d fs Hd H. destruct (record_ok_parts _ _ H) as (Hlen & Hf & _ & _).
  unfold sf_import_line, sf_export_line.
  destruct (sf_reader_bypass_native && Ascii.eqb d native) eqn:Hb.
  - (* raw lines: the writer must not have quoted anything *)
    apply andb_true_iff in Hb as [Hb1 Hb2]. apply Ascii.eqb_eq in Hb2. subst d.
    f_equal. unfold csv_write_row.
    assert (E : map (csv_write_field native) fs = fs).
    { apply map_id_in. intros s Hs. rewrite forallb_forall in Hf.
      destruct (field_ok_parts _ _ (Hf s Hs)) as (N1 & N2 & N3).
      unfold csv_write_field. rewrite needs_quote_native; [reflexivity|assumption|assumption|].
      apply N3. rewrite Hb1, Ascii.eqb_refl. reflexivity. }
    destruct fs as [|f [|g fs]]; cbn [length] in Hlen; try lia.
    rewrite E. destruct f; reflexivity.
  - rewrite csv_read_write; [reflexivity|assumption|].
    rewrite forallb_forall in *. intros s Hs. destruct (field_ok_parts _ _ (Hf s Hs)) as (N1 & _). exact N1.
Qed.

(* THE text round trip of one record: writer, then static-frame's reader-or-bypass, then genfromtxt's splitter *)
Theorem import_export_text : forall d fs,
  delim_ok d = true -> record_ok d fs = true ->
  res_map gen_split (sf_import_line d (sf_export_line d fs)) = Ok fs.
Proof.
  intros d fs Hd H. rewrite import_export_line by assumption. cbn [res_map].
  rewrite (gen_split_join d) by assumption. reflexivity.
Qed.
