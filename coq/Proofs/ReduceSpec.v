(* C15 -- facts about the specification, the regenerated table, argmin/argmax and the cumulative functions. *)
Require Import SF.Prelude SF.Value SF.Dtype SF.Reduce Gen.Gen_c15_table Proofs.ReduceFold Proofs.ReduceRefine Proofs.ReduceMain.
From Coq Require Import QArith.
Local Open Scope Z_scope.

(* ------------------------------------------------------------------ the table regenerated from container.py *)
(* only reductions that are folds of an associative operation may take the block-wise (composable) path *)
Theorem table_composable_sound : forall f,
  fl_composable (c15_table f) = true -> In f [Fmin; Fmax; Fall; Fany; Fsum; Fprod].
Proof. intros []; cbn; intros H; try discriminate H; tauto. Qed.

(* size_one_unity may be claimed only where the reduction of a single cell (skipna=False) is that cell *)
Theorem table_unity_sound : forall f ddof,
  fl_unity (c15_table f) = true ->
  S_line f false ddof [None] = Ok ONaN /\
  forall q, exists q', S_line f false ddof [Some q] = Ok (ONum q') /\ (q' == q)%Q.
Proof.
  intros f ddof H. destruct f; cbn in H; try discriminate H; (split; [reflexivity|]); intros q.
  - exists (0 + q)%Q. split; [reflexivity|]. apply Qplus_0_l.
  - exists (1 * q)%Q. split; [reflexivity|]. apply Qmult_1_l.
  - exists q. split; [reflexivity|]. reflexivity.
  - exists q. split; [reflexivity|]. reflexivity.
  - exists ((0 + q) / inject_Z 1)%Q. split; [reflexivity|].
    unfold Qdiv. change (/ inject_Z 1)%Q with 1%Q. rewrite Qmult_1_r. apply Qplus_0_l.
  - exists q. split; [reflexivity|]. reflexivity.
Qed.

(* ------------------------------------------------------------------ skipna semantics of the specification *)
Lemma present_map_some : forall p, present (map Some p) = p.
Proof. induction p as [|q p IH]; [reflexivity|]. cbn [map]. rewrite present_cons_some, IH. reflexivity. Qed.
Lemma has_missing_map_some : forall p, has_missing (map (@Some Q) p) = false.
Proof. induction p as [|q p IH]; [reflexivity|]. exact IH. Qed.

(* with skipna the missing cells are ignored: the answer is that of the line with the missing cells removed *)
Theorem S_skipna_ignores_missing : forall f ddof xs,
  present xs <> [] ->
  S_line f true ddof xs = S_line f true ddof (map Some (present xs)).
Proof.
  intros f ddof xs H. unfold S_line. rewrite !andb_false_r, present_map_some.
  destruct xs as [|x xs]; [cbn in H; congruence|].
  destruct (present (x :: xs)) eqn:E; [congruence|]. reflexivity.
Qed.

(* a line of missing cells only: identity of the operation, or missing *)
Theorem S_skipna_all_missing : forall f ddof xs,
  xs <> [] -> present xs = [] ->
  S_line f true ddof xs =
  match f with
  | Fsum => Ok (ONum 0) | Fprod => Ok (ONum 1) | Fall => Ok (ONum (qbool true)) | Fany => Ok (ONum (qbool false))
  | _ => Ok ONaN
  end.
Proof.
  intros f ddof xs Hx Hp. unfold S_line. rewrite andb_false_r, Hp.
  destruct xs; [congruence|]. destruct f; reflexivity.
Qed.

(* without skipna one missing cell makes the result missing, or the call is rejected (logical reductions):
   it is never treated as a number *)
Theorem S_noskip_propagates_or_rejects : forall f ddof xs,
  has_missing xs = true ->
  S_line f false ddof xs = if is_logical f then Err "TypeError" else Ok ONaN.
Proof. intros f ddof xs H. unfold S_line. rewrite H. reflexivity. Qed.

(* and where nothing is missing skipna makes no difference *)
Theorem S_skipna_irrelevant_without_missing : forall f ddof xs,
  has_missing xs = false -> S_line f false ddof xs = S_line f true ddof xs.
Proof. intros f ddof xs H. unfold S_line. rewrite H. reflexivity. Qed.

(* ------------------------------------------------------------------ Frame.values: consolidation keeps every column *)
Lemma nth_row_at {A} (d : A) : forall i j (cols : list (list A)), (j < length cols)%nat ->
  nth j (row_at d i cols) d = nth i (nth j cols []) d.
Proof.
  intros i j cols H. unfold row_at.
  rewrite nth_indep with (d' := (fun c => nth i c d) []) by (rewrite map_length; exact H).
  apply (map_nth (fun c => nth i c d)).
Qed.

Lemma list_eq_nth {A} (d : A) : forall (l1 l2 : list A), length l1 = length l2 ->
  (forall i, (i < length l1)%nat -> nth i l1 d = nth i l2 d) -> l1 = l2.
Proof.
  induction l1 as [|x l1 IH]; intros [|y l2] Hl Hn; cbn in Hl; try discriminate; [reflexivity|].
  f_equal.
  - apply (Hn 0%nat). cbn. lia.
  - apply IH; [lia|]. intros i Hi. apply (Hn (S i)). cbn. lia.
Qed.

Lemma wf_frame_cells_length : forall r bs, wf_frame r bs = true ->
  Forall (fun c => length c = r) (frame_cells bs).
Proof.
  intros r bs H. unfold wf_frame in H. rewrite forallb_forall in H.
  apply Forall_forall. intros c Hc. unfold frame_cells, flatten in Hc.
  apply in_flat_map in Hc as [b [Hb Hc]]. apply in_map_iff in Hb as [vb [<- Hvb]].
  specialize (H vb Hvb). unfold wf_blk in H. apply andb_true_iff in H as [H _].
  rewrite forallb_forall in H. unfold vblk_cells in Hc. rewrite blk_cols_map in Hc.
  apply in_map_iff in Hc as [c0 [<- Hc0]]. specialize (H c0 Hc0).
  apply andb_true_iff in H as [H _]. apply Nat.eqb_eq in H. rewrite map_length. exact H.
Qed.

(* the columns (axis 0) / rows (axis 1) of Frame.values are the lines of the flattened block columns *)
Theorem values_lines_flatten : forall axis r bs, wf_frame r bs = true ->
  values_lines axis r bs = lines None axis r (frame_cells bs).
Proof.
  intros axis r bs Hwf. unfold values_lines, lines, values_rows.
  assert (Hrows : map (fun i => consolidated_row None i (map vblk_cells bs)) (seq 0 r)
                  = rows_of None r (frame_cells bs)).
  { unfold rows_of. apply map_ext. intros i. apply consolidated_row_flatten. }
  rewrite Hrows. destruct (axis =? 0); [|reflexivity].
  pose proof (wf_frame_cells_length r bs Hwf) as Hlen. unfold ncols.
  set (cols := frame_cells bs) in *. clearbody cols.
  apply (list_eq_nth []).
  - rewrite map_length, seq_length. reflexivity.
  - intros j Hj. rewrite map_length, seq_length in Hj.
    rewrite nth_indep with (d' := (fun j => map (fun row => nth j row None) (rows_of None r cols)) 0%nat)
      by (rewrite map_length, seq_length; exact Hj).
    rewrite (map_nth (fun j => map (fun row => nth j row None) (rows_of None r cols))).
    rewrite seq_nth by exact Hj. cbn [Nat.add].
    rewrite Forall_forall in Hlen.
    assert (Hc : length (nth j cols []) = r) by (apply Hlen, nth_In; exact Hj).
    apply (list_eq_nth None).
    + rewrite map_length. unfold rows_of. rewrite map_length, seq_length. symmetry. exact Hc.
    + intros i Hi. rewrite map_length in Hi. unfold rows_of in *. rewrite map_length, seq_length in Hi.
      rewrite nth_indep with (d' := (fun row => nth j row None) [])
        by (rewrite !map_length, seq_length; exact Hi).
      rewrite (map_nth (fun row => nth j row None)).
      rewrite nth_indep with (d' := (fun i => row_at None i cols) 0%nat)
        by (rewrite map_length, seq_length; exact Hi).
      rewrite (map_nth (fun i => row_at None i cols)).
      rewrite seq_nth by exact Hi. cbn [Nat.add].
      apply nth_row_at. exact Hj.
Qed.

(* ------------------------------------------------------------------ argmin / argmax *)
Lemma res_all_map_ext {A B} (F G : A -> res B) : forall l,
  (forall x, In x l -> F x = G x) -> res_all (map F l) = res_all (map G l).
Proof.
  induction l as [|x l IH]; intros H; [reflexivity|].
  cbn [map res_all]. rewrite (H x (or_introl eq_refl)), IH; [reflexivity|].
  intros y Hy. apply H. right. exact Hy.
Qed.

Lemma res_all_err_uniform {A B} (F : A -> res B) (e : string) : forall l,
  (forall x e', F x = Err e' -> e' = e) -> (exists x, In x l /\ F x = Err e) ->
  res_all (map F l) = Err e.
Proof.
  induction l as [|x l IH]; intros Hu [y [Hy Hf]]; [contradiction|].
  cbn [map res_all]. destruct (F x) as [v|e'] eqn:E.
  - destruct Hy as [->|Hy]; [congruence|]. rewrite IH; [reflexivity|assumption|eauto].
  - f_equal. eapply Hu. exact E.
Qed.

Lemma res_all_ok_const {A B} (v : B) : forall (l : list A),
  res_all (map (fun _ => Ok v) l) = Ok (map (fun _ => v) l).
Proof. induction l as [|x l IH]; [reflexivity|]. cbn [map res_all]. rewrite IH. reflexivity. Qed.

Lemma S_argline_skip : forall ismin skipna l,
  S_argline ismin skipna l =
  if has_missing l && negb skipna then Ok ONaN else S_argline ismin true l.
Proof.
  intros ismin skipna l. unfold S_argline. rewrite andb_false_r.
  destruct (has_missing l && negb skipna); reflexivity.
Qed.

(* the NaN bookkeeping of util._argminmax_2d gives, line by line, the position of the extreme value --
   unless a line has no non-missing cell (np.nanargmin / np.argmin raise) *)
Theorem M_argframe_refines : forall ismin axis skipna r bs,
  wf_frame r bs = true ->
  existsb (fun l : list cell => forallb is_none l) (lines None axis r (frame_cells bs)) = false ->
  M_argframe ismin axis skipna r bs = S_argframe ismin axis skipna r (frame_cells bs).
Proof.
  intros ismin axis skipna r bs Hwf Hg. unfold M_argframe, S_argframe. cbv zeta.
  rewrite (values_lines_flatten axis r bs Hwf).
  remember (lines None axis r (frame_cells bs)) as ls0 eqn:Els. clear Els.
  assert (Hls : exists ls : list (list cell), ls = ls0) by (eexists; reflexivity).
  destruct Hls as [ls <-].
  assert (Enil : existsb is_nil ls = false).
  { destruct (existsb is_nil ls) eqn:E; [|reflexivity].
    apply existsb_exists in E as [l [Hl Hn]].
    assert (existsb (fun l : list cell => forallb is_none l) ls = true).
    { apply existsb_exists. exists l. split; [exact Hl|]. destruct l; [reflexivity|discriminate]. }
    congruence. }
  rewrite Enil.
  match goal with
  | |- context [existsb ?F ls] =>
      match F with
      | (fun l => forallb _ l) => replace (existsb F ls) with false by (symmetry; exact Hg)
      end
  end.
  destruct (forallb (fun b => b) (map has_missing ls) && negb skipna) eqn:Eall.
  - apply andb_true_iff in Eall as [Eall Es]. rewrite <- res_all_ok_const.
    apply res_all_map_ext. intros l Hl. rewrite S_argline_skip.
    rewrite forallb_forall in Eall. rewrite (Eall (has_missing l)) by (apply in_map; exact Hl).
    rewrite Es. reflexivity.
  - destruct (existsb (fun b => b) (map has_missing ls)) eqn:Eany.
    + apply res_all_map_ext. intros l Hl. rewrite (S_argline_skip ismin skipna). reflexivity.
    + apply res_all_map_ext. intros l Hl. rewrite (S_argline_skip ismin skipna).
      assert (Hm : has_missing l = false).
      { destruct (has_missing l) eqn:E; [|reflexivity].
        assert (existsb (fun b => b) (map has_missing ls) = true).
        { apply existsb_exists. exists true. split; [|reflexivity]. rewrite <- E. apply in_map. exact Hl. }
        congruence. }
      rewrite Hm. reflexivity.
Qed.

(* ------------------------------------------------------------------ cumulative sum / product *)
Lemma cum_go_length (op : Q -> Q -> Q) (skipna : bool) : forall xs acc dead,
  length (cum_go op skipna acc dead xs) = length xs.
Proof.
  induction xs as [|c t IH]; intros acc dead; [reflexivity|].
  destruct c as [q|]; cbn [cum_go].
  - cbn [length]. rewrite IH. reflexivity.
  - destruct skipna; cbn [length]; rewrite IH; reflexivity.
Qed.

(* the result has the shape of the input: as many lines, each as long as the line it came from *)
Theorem S_cum_keeps_shape : forall isprod axis skipna r cols,
  length (S_cumframe isprod axis skipna r cols) = length (lines None axis r cols) /\
  Forall2 (fun o l => length o = length l) (S_cumframe isprod axis skipna r cols) (lines None axis r cols).
Proof.
  intros. unfold S_cumframe. split; [apply map_length|].
  induction (lines None axis r cols) as [|l ls IH]; [constructor|].
  cbn [map]. constructor; [|exact IH].
  unfold S_cumline. destruct isprod; apply cum_go_length.
Qed.

Theorem M_cumframe_refines : forall isprod axis skipna r bs, wf_frame r bs = true ->
  M_cumframe isprod axis skipna r bs = S_cumframe isprod axis skipna r (frame_cells bs).
Proof. intros. unfold M_cumframe, S_cumframe. rewrite values_lines_flatten by assumption. reflexivity. Qed.

(* ------------------------------------------------------------------ layout independence *)
Corollary M_frame_layout_independent : forall f axis skipna ddof r bs1 bs2,
  wf_frame r bs1 = true -> wf_frame r bs2 = true -> (axis = 0 \/ axis = 1) ->
  dom c15_table f axis skipna r bs1 = true -> dom c15_table f axis skipna r bs2 = true ->
  frame_cells bs1 = frame_cells bs2 ->
  M_frame c15_table f axis skipna ddof r bs1 = M_frame c15_table f axis skipna ddof r bs2.
Proof.
  intros f axis skipna ddof r bs1 bs2 H1 H2 Hax D1 D2 E.
  rewrite !M_frame_refines by assumption. rewrite E. reflexivity.
Qed.

(* ------------------------------------------------------------------ non-trivial instances of the guards *)
Example dom_instance_multi_block :
  let bs := [(DInt true 8, B1 [VInt 3; VInt (-1)]); (DFlt 8, B2 [[VFlt 3 2; VNaN]; [VNaN; VFlt 1 2]]); (DBool, B1 [VBool true; VBool false])] in
  wf_frame 2 bs = true /\
  forallb (fun f => dom c15_table f 1 false 2 bs && dom c15_table f 1 true 2 bs && dom c15_table f 0 true 2 bs) all_rfuncs = true.
Proof. vm_compute. split; reflexivity. Qed.

Example argminmax_guard_instance :
  let bs := [(DFlt 8, B2 [[VFlt 3 2; VNaN]; [VNaN; VFlt 1 2]])] in
  wf_frame 2 bs = true /\
  existsb (fun l : list cell => forallb is_none l) (lines None 0 2 (frame_cells bs)) = false /\
  S_argframe true 0 true 2 (frame_cells bs) = Ok [ONum (0 # 1); ONum (1 # 1)].
Proof. vm_compute. repeat split; reflexivity. Qed.

(* the two renderings of the regenerated table agree, and the cumulative functions pass no dtype *)
Theorem table_rows_agree :
  (forall f, In (rfunc_name f, c15_table f) c15_rows) /\
  (forall name fl, In (name, fl) c15_rows -> (name = "cumsum" \/ name = "cumprod")%string -> fl_dtypes fl = DsEmpty).
Proof.
  split.
  - intros []; vm_compute; tauto.
  - intros name fl H Hn. vm_compute in H.
    repeat (destruct H as [H|H]; [injection H as <- <-; destruct Hn as [Hn|Hn]; try discriminate Hn; reflexivity|]).
    contradiction.
Qed.

(* ddof reaches NumPy in both the skipna and the non-skipna function of var and std: M runs with the caller's ddof *)
Theorem table_ddof_bound : forall f skipna ddof,
  c15_ddof_bound f skipna = true /\ eff_ddof c15_ddof_bound f skipna ddof = ddof.
Proof. intros [] [] ddof; split; reflexivity. Qed.
