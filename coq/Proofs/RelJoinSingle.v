(* C20 -- the non-composite path of Frame._join (composite_index=False, one-to-one key relation).
   It builds the result BY LABEL.  Proved here: the inner join is exactly the relational definition
   with the left labels; the left join is, PROVIDED no unmatched left row carries a label that also
   exists in the right index (the guard whose necessity Refuted/C20.v witnesses). *)
Require Import SF.Prelude SF.RelJoin Proofs.RelJoinSpec Proofs.RelJoinRefine Proofs.RelStackRefine.

Section Single.
Context {L K A : Type}.
Variable leqb : L -> L -> bool.
Variable keqb : K -> K -> bool.
Hypothesis leqb_spec : forall a b, leqb a b = true <-> a = b.

Notation trow := (trow L K A).
Notation jrow := (jrow L K A).
Notation matches := (@matches L K A keqb).
Notation map_iloc := (@map_iloc L K A keqb).
Notation matched := (@matched L K A keqb).

Definition entry (Rt : list trow) (i : nat) (l : trow) : (nat * trow) * list (nat * trow) :=
  ((i, l), matched (key l) Rt).

Lemma in_map_iloc : forall Lt Rt e, In e (map_iloc Lt Rt) <->
  exists i l, nth_error Lt i = Some l /\ e = entry Rt i l /\ is_nil (matched (key l) Rt) = false.
Proof.
  intros Lt Rt e. unfold RelJoin.map_iloc. rewrite filter_In, in_map_iff. split.
  - intros [([i l] & <- & Hin) Hn]. unfold enumerate in Hin. apply in_enum_nth in Hin as [_ Hin].
    rewrite Nat.sub_0_r in Hin. exists i, l. cbn in *. apply negb_true_iff in Hn. auto.
  - intros (i & l & Hn & -> & Hnil). split.
    + exists (i, l). split; [reflexivity|]. unfold enumerate. apply in_enum_nth. rewrite Nat.sub_0_r. split; [lia|assumption].
    + cbn. rewrite Hnil. reflexivity.
Qed.

Lemma find_mi : forall Lt Rt i l, nth_error Lt i = Some l ->
  find (fun e => Nat.eqb (fst (fst e)) i) (map_iloc Lt Rt) =
  if is_nil (matched (key l) Rt) then None else Some (entry Rt i l).
Proof.
  intros Lt Rt i l Hn.
  destruct (find (fun e => Nat.eqb (fst (fst e)) i) (map_iloc Lt Rt)) as [e|] eqn:E.
  - apply find_some in E as [Hin Hi]. apply Nat.eqb_eq in Hi.
    apply in_map_iloc in Hin as (i' & l' & Hn' & -> & Hnil). cbn in Hi. subst i'.
    rewrite Hn in Hn'. injection Hn' as <-. rewrite Hnil. reflexivity.
  - destruct (is_nil (matched (key l) Rt)) eqn:Hnil; [reflexivity|]. exfalso.
    assert (Hin : In (entry Rt i l) (map_iloc Lt Rt)) by (apply in_map_iloc; eauto).
    pose proof (find_none _ _ E _ Hin) as H. cbn in H. rewrite Nat.eqb_refl in H. discriminate.
Qed.

Lemma find_pos_lab : forall (Lt : list trow) i l, NoDup (map lab Lt) -> nth_error Lt i = Some l ->
  find_pos (fun r => leqb (lab l) (lab r)) Lt = Some i.
Proof.
  induction Lt as [|x Lt IH]; intros i l ND H; [destruct i; discriminate|].
  inversion ND as [|? ? Hx Hl]; subst. destruct i as [|i]; cbn in *.
  - injection H as ->. rewrite (leqb_refl leqb leqb_spec). reflexivity.
  - destruct (leqb (lab l) (lab x)) eqn:E.
    + apply leqb_spec in E. exfalso. apply Hx. rewrite <- E. apply in_map. eapply nth_error_In. eassumption.
    + rewrite (IH i l Hl H). reflexivity.
Qed.

(* not is_many: every left row with a match has exactly one *)
Lemma many_step_false : forall mi seen, fst (fold_left (@many_step L K A) mi (false, seen)) = false ->
  forall e, In e mi -> (length (snd e) <= 1)%nat.
Proof.
  induction mi as [|e0 mi IH]; intros seen H e He; [destruct He|]. cbn in H.
  destruct (snd e0) as [|jr [|jr2 rest]] eqn:Es.
  - destruct He as [<-|He]; [rewrite Es; cbn; lia|]. eapply IH; eassumption.
  - destruct (existsb (Nat.eqb (fst jr)) seen).
    + rewrite many_step_true in H. discriminate.
    + destruct He as [<-|He]; [rewrite Es; cbn; lia|]. eapply IH; eassumption.
  - rewrite many_step_true in H. discriminate.
Qed.

Definition single_row (Rt : list trow) (l : trow) : jrow :=
  match filter (matches l) Rt with r :: _ => JB l r | [] => JL l end.

Definition one_to_one (Lt Rt : list trow) : Prop := is_many false (map_iloc Lt Rt) = false.

Lemma matched_single : forall Lt Rt l, one_to_one Lt Rt -> In l Lt ->
  filter (matches l) Rt = [] \/ exists r, filter (matches l) Rt = [r].
Proof.
  intros Lt Rt l H Hl. destruct (filter (matches l) Rt) as [|r rest] eqn:E; [left; reflexivity|right].
  apply In_nth_error in Hl as (i & Hi).
  assert (Hnil : is_nil (matched (key l) Rt) = false).
  { rewrite (matched_nil keqb). rewrite (existsb_filter_nil (matches l)), E. reflexivity. }
  assert (Hin : In (entry Rt i l) (map_iloc Lt Rt)) by (apply in_map_iloc; eauto).
  pose proof (many_step_false _ _ H _ Hin) as Hlen. cbn in Hlen.
  rewrite <- (map_length snd), (matched_rows keqb) in Hlen. fold (matches l) in Hlen.
  unfold RelJoin.matches in *. rewrite E in Hlen. cbn in Hlen.
  destruct rest; [eauto|cbn in Hlen; lia].
Qed.

(* the right cells the non-composite path shows for the left row l *)
Lemma right_values_of_left : forall (fill : A) rw Lt Rt l,
  NoDup (map lab Lt) -> one_to_one Lt Rt -> In l Lt ->
  (filter (matches l) Rt = [] -> ~ In (lab l) (map lab Rt)) ->
  right_values_single leqb fill rw (map_iloc Lt Rt) Lt Rt (lab l) = rpart fill rw (single_row Rt l).
Proof.
  intros fill rw Lt Rt l ND H11 Hl Hguard. unfold right_values_single, mi_by_label, single_row.
  destruct (In_nth_error _ _ Hl) as (i & Hi).
  rewrite (find_pos_lab Lt i l ND Hi), (find_mi Lt Rt i l Hi).
  rewrite (matched_nil keqb), (existsb_filter_nil (matches l)), negb_involutive.
  destruct (matched_single Lt Rt l H11 Hl) as [E|(r & E)].
  - unfold RelJoin.matches in *. rewrite E. cbn.
    assert (Hno : lookup_cells leqb Rt (lab l) = None).
    { specialize (Hguard E). clear - Hguard leqb_spec. induction Rt as [|x Rt IH]; cbn; [reflexivity|].
      destruct (leqb (lab l) (lab x)) eqn:E'.
      - apply leqb_spec in E'. exfalso. apply Hguard. left. congruence.
      - apply IH. intros H. apply Hguard. right. assumption. }
    rewrite Hno. reflexivity.
  - unfold RelJoin.matches in *. rewrite E. cbn. unfold entry. cbn.
    pose proof (matched_rows keqb (key l) Rt) as MR. rewrite E in MR.
    destruct (matched (key l) Rt) as [|[j r'] rest]; [discriminate|]. cbn in MR. injection MR as -> _. reflexivity.
Qed.

(* the frame the non-composite path builds for the left rows X (X = the matched rows: inner; X = Lt: left) *)
Lemma single_frame : forall (fill : A) lw rw Lt Rt (X : list trow),
  NoDup (map lab Lt) -> one_to_one Lt Rt ->
  Forall (fun l => length (cells l) = lw) Lt ->
  (forall l, In l X -> In l Lt) ->
  (forall l, In l X -> filter (matches l) Rt = [] -> ~ In (lab l) (map lab Rt)) ->
  cols_of lw fill (map (fun x => match lookup_cells leqb Lt x with Some c => c | None => repeat fill lw end) (map lab X)) ++
  cols_of rw fill (map (right_values_single leqb fill rw (map_iloc Lt Rt) Lt Rt) (map lab X))
  = cols_of (lw + rw) fill (map (jcells fill lw rw) (map (single_row Rt) X)).
Proof.
  intros fill lw rw Lt Rt X ND H11 W HX Hguard. rewrite !map_map.
  symmetry. rewrite <- (map_map (single_row Rt) (jcells fill lw rw)), map_map.
  rewrite (cols_of_split fill lw rw (fun l => jcells fill lw rw (single_row Rt l))
             (fun l => match lookup_cells leqb Lt (lab l) with Some c => c | None => repeat fill lw end)
             (fun l => right_values_single leqb fill rw (map_iloc Lt Rt) Lt Rt (lab l)) X); [reflexivity|].
  intros l Hl. rewrite (lookup_cells_in leqb leqb_spec Lt l ND (HX l Hl)).
  rewrite (right_values_of_left fill rw Lt Rt l ND H11 (HX l Hl) (Hguard l Hl)).
  rewrite Forall_forall in W. split; [|apply W; apply HX; assumption].
  unfold single_row. destruct (filter (matches l) Rt); reflexivity.
Qed.

(* ---- left join ---- *)
Theorem join_single_left : forall (fill : A) lt rt lcols rcols (Lt Rt : list trow),
  NoDup (map lab Lt) -> one_to_one Lt Rt ->
  Forall (fun l => length (cells l) = length lcols) Lt ->
  nodupb String.eqb (out_names lt rt lcols rcols) = true ->
  (forall l, In l Lt -> filter (matches l) Rt = [] -> ~ In (lab l) (map lab Rt)) ->
  M_join_single leqb keqb JLeft fill lt rt lcols rcols Lt Rt =
  Ok (mk_jframe (map (fun l => inl (lab l)) Lt) (out_names lt rt lcols rcols)
        (cols_of (length lcols + length rcols) fill (map (jcells fill (length lcols) (length rcols)) (map (single_row Rt) Lt)))).
Proof.
  intros fill lt rt lcols rcols Lt Rt ND H11 W Hn Hguard. unfold M_join_single, name_check. rewrite Hn.
  cbn [final_index_single]. f_equal. f_equal; [rewrite map_map; reflexivity|].
  apply single_frame; auto.
Qed.

(* the rows of the left join, in left order, are the rows of the relational definition *)
Lemma single_rows_perm : forall Lt0 Rt (Lt : list trow), (forall l, In l Lt -> In l Lt0) -> one_to_one Lt0 Rt ->
  Permutation (map (single_row Rt) Lt)
              (flat_map (fun l => map (JB l) (filter (matches l) Rt)) Lt ++
               map (@JL L K A) (filter (fun l => negb (existsb (matches l) Rt)) Lt)).
Proof.
  intros Lt0 Rt Lt. induction Lt as [|l Lt IH]; intros HX H11; cbn; [constructor|].
  assert (IH' := IH (fun x Hx => HX x (or_intror Hx)) H11). clear IH.
  unfold single_row at 1. rewrite (existsb_filter_nil (matches l)).
  destruct (matched_single Lt0 Rt l H11 (HX l (or_introl eq_refl))) as [E|(r & E)];
    unfold RelJoin.matches in *; rewrite E; cbn.
  - apply Permutation_cons_app. exact IH'.
  - constructor. exact IH'.
Qed.

Theorem join_single_left_rows : forall Lt Rt, one_to_one Lt Rt ->
  Permutation (map (single_row Rt) Lt) (S_join keqb JLeft Lt Rt).
Proof.
  intros Lt Rt H. unfold RelJoin.S_join. cbn. rewrite app_nil_r.
  apply (single_rows_perm Lt Rt Lt); auto.
Qed.

(* ---- inner join: no guard ---- *)
Lemma pairs_single : forall Lt0 Rt (Lt : list trow), (forall l, In l Lt -> In l Lt0) -> one_to_one Lt0 Rt ->
  flat_map (fun l => map (JB l) (filter (matches l) Rt)) Lt =
  map (single_row Rt) (filter (fun l => existsb (matches l) Rt) Lt).
Proof.
  intros Lt0 Rt Lt. induction Lt as [|l Lt IH]; intros HX H11; cbn; [reflexivity|].
  rewrite (IH (fun x Hx => HX x (or_intror Hx)) H11). rewrite (existsb_filter_nil (matches l)).
  unfold single_row at 2.
  destruct (matched_single Lt0 Rt l H11 (HX l (or_introl eq_refl))) as [E|(r & E)];
    unfold RelJoin.matches in *; rewrite E; cbn; [reflexivity|].
  unfold single_row, RelJoin.matches. rewrite E. reflexivity.
Qed.

Theorem join_single_inner : forall (fill : A) lt rt lcols rcols (Lt Rt : list trow),
  NoDup (map lab Lt) -> one_to_one Lt Rt ->
  Forall (fun l => length (cells l) = length lcols) Lt ->
  nodupb String.eqb (out_names lt rt lcols rcols) = true ->
  M_join_single leqb keqb JInner fill lt rt lcols rcols Lt Rt =
  Ok (mk_jframe (map (fun x => inl (match x with JB l _ | JL l => lab l | JR r => lab r end)) (S_join keqb JInner Lt Rt))
        (out_names lt rt lcols rcols)
        (cols_of (length lcols + length rcols) fill (map (jcells fill (length lcols) (length rcols)) (S_join keqb JInner Lt Rt)))).
Proof.
  intros fill lt rt lcols rcols Lt Rt ND H11 W Hn. unfold M_join_single, name_check. rewrite Hn.
  cbn [final_index_single]. unfold RelJoin.S_join. cbn [keeps_left keeps_right]. rewrite !app_nil_r.
  unfold RelJoin.S_pairs. rewrite (pairs_single Lt Rt Lt (fun _ H => H) H11).
  set (X := filter (fun l => existsb (matches l) Rt) Lt).
  assert (HX : forall l, In l X -> In l Lt) by (intros l Hl; apply filter_In in Hl; tauto).
  rewrite (left_loc_set_spec keqb Lt Rt). fold X.
  f_equal. f_equal.
  - rewrite !map_map. apply map_ext_in. intros l Hl. unfold single_row.
    destruct (filter (matches l) Rt); reflexivity.
  - apply single_frame; auto. intros l Hl E. exfalso. apply filter_In in Hl as [_ Hl].
    rewrite (existsb_filter_nil (matches l)) in Hl. unfold RelJoin.matches in *. rewrite E in Hl. discriminate.
Qed.


(* composite_index=False: the one-to-one relation goes down the non-composite path, anything else is refused *)
Theorem join_noncomposite_dispatch : forall jt cifv (fill : A) lt rt lcols rcols (Lt Rt : list trow),
  M_join leqb keqb jt false cifv fill lt rt lcols rcols Lt Rt =
  if is_many false (map_iloc Lt Rt) then Err "RuntimeError"
  else M_join_single leqb keqb jt fill lt rt lcols rcols Lt Rt.
Proof. intros. unfold M_join. cbn [negb andb]. destruct (is_many false (map_iloc Lt Rt)); reflexivity. Qed.

End Single.
