(* C04 -- helper facts for the selection proofs: positions of keys, row application on one block. *)
Require Import SF.Prelude SF.PySlice SF.Dtype SF.Blocks SF.Select Proofs.SliceFacts Proofs.BlocksSelect.

(* ---------- positions of a key lie inside the axis (no uniqueness needed) ---------- *)
Lemma key_positions_range k n ps : 0 <= n -> key_positions k n = Ok ps ->
  forall p, In p ps -> 0 <= p < n.
Proof.
  intros Hn. destruct k as [|i|s|l|m]; cbn [key_positions].
  - intros E. injection E as <-. intros p Hp. apply in_map_iff in Hp as (q & <- & Hq). apply in_seq in Hq. lia.
  - destruct (norm_index i n) as [j|] eqn:E; [|discriminate]. intros E'. injection E' as <-.
    intros p [<-|[]]. eapply (opt_all_norm_range [i] n [j]); [cbn; rewrite E; reflexivity|left; reflexivity].
  - destruct (positions s n) as [qs|] eqn:E; [|discriminate]. intros E'. injection E' as <-.
    intros p Hp. eapply positions_in_range; eassumption.
  - destruct (opt_all _) as [qs|] eqn:E; [|discriminate]. intros E'. injection E' as <-.
    eapply opt_all_norm_range; eassumption.
  - destruct (_ =? n) eqn:E; [|discriminate]. intros E'. injection E' as <-.
    intros p Hp. apply mask_positions_spec in Hp. lia.
Qed.

Lemma norm_index_range i n j : norm_index i n = Some j -> 0 <= j < n.
Proof.
  unfold norm_index. destruct ((0 <=? i) && (i <? n)) eqn:?; [intros E; injection E as <-; lia|].
  destruct ((i <? 0) && (0 <=? i + n)) eqn:?; [intros E; injection E as <-; lia|discriminate].
Qed.

Lemma ckey_sel_range k n s : 0 <= n -> ckey_sel k n = Ok s -> forall p, In p (sel_positions s) -> 0 <= p < n.
Proof.
  intros Hn. unfold ckey_sel.
  destruct k as [|i|sl|l|m];
    try (destruct (key_positions _ n) as [ps|e] eqn:E; [|discriminate]; intros E'; injection E' as <-;
         cbn [sel_positions]; eapply key_positions_range; eassumption).
  destruct (norm_index i n) as [j|] eqn:E; [|discriminate]. intros E'. injection E' as <-.
  cbn. intros p [<-|[]]. eapply norm_index_range; eassumption.
Qed.

(* ckey_sel and key_positions agree on the positions *)
Lemma ckey_sel_positions k n s : ckey_sel k n = Ok s -> key_positions k n = Ok (sel_positions s).
Proof.
  unfold ckey_sel. destruct k as [|i|sl|l|m];
    try (destruct (key_positions _ n) as [ps|e]; [|discriminate]; intros E; injection E as <-; reflexivity).
  cbn [key_positions]. destruct (norm_index i n); [|discriminate]. intros E; injection E as <-. reflexivity.
Qed.

Lemma ckey_sel_err k n e : ckey_sel k n = Err e -> key_positions k n = Err e.
Proof.
  unfold ckey_sel. destruct k as [|i|sl|l|m];
    try (destruct (key_positions _ n) as [ps|e']; [discriminate|]; intros E; injection E as <-; reflexivity).
  cbn [key_positions]. destruct (norm_index i n); [discriminate|]. intros E; injection E as <-. reflexivity.
Qed.

Lemma ckey_sel_is_int k n s : ckey_sel k n = Ok s ->
  is_int k = match s with SOne _ => true | SMany _ => false end.
Proof.
  unfold ckey_sel. destruct k as [|i|sl|l|m];
    try (destruct (key_positions _ n); [|discriminate]; intros E; injection E as <-; reflexivity).
  destruct (norm_index i n); [|discriminate]. intros E; injection E as <-. reflexivity.
Qed.

(* ---------- generic list facts ---------- *)
Lemma take_positions_length {B} (l : list B) ps out : take_positions l ps = Some out -> length out = length ps.
Proof.
  revert out. induction ps as [|p ps IH]; intros out; cbn.
  - intros E. injection E as <-. reflexivity.
  - destruct (nth_z l p); [|discriminate]. destruct (take_positions l ps); [|discriminate].
    intros E. injection E as <-. cbn. f_equal. apply IH. reflexivity.
Qed.

Lemma take_positions_In {B} (l : list B) ps out x : take_positions l ps = Some out -> In x out -> In x l.
Proof.
  revert out. induction ps as [|p ps IH]; intros out; cbn.
  - intros E. injection E as <-. intros [].
  - destruct (nth_z l p) as [y|] eqn:En; [|discriminate]. destruct (take_positions l ps) as [ys|]; [|discriminate].
    intros E. injection E as <-. intros [<-|Hin].
    + unfold nth_z in En. destruct (p <? 0); [discriminate|]. eapply nth_error_In; eassumption.
    + eapply IH; [reflexivity|assumption].
Qed.

Lemma opt_all_length {B} (l : list (option B)) out : opt_all l = Some out -> length out = length l.
Proof. intros E. apply opt_all_Some in E. subst. now rewrite map_length. Qed.

Lemma py_nth_norm {B} (l : list B) i : py_nth l i =
  match norm_index i (Z.of_nat (length l)) with Some j => nth_z l j | None => None end.
Proof. reflexivity. Qed.

Lemma nth_z_in_range {B} (l : list B) j : 0 <= j < Z.of_nat (length l) -> exists x, nth_z l j = Some x.
Proof.
  intros H. unfold nth_z. replace (j <? 0) with false by lia.
  destruct (nth_error l (Z.to_nat j)) eqn:E; [eexists; reflexivity|].
  apply nth_error_None in E. lia.
Qed.

Lemma map_singleton_len1 {B} (v : list B) : length v = 1%nat -> map (fun x => [x]) v = [v].
Proof. destruct v as [|x [|y r]]; try discriminate. reflexivity. Qed.

Lemma firstn_1_len1 {B} (v : list B) : length v = 1%nat -> firstn 1 v = v.
Proof. destruct v as [|x [|y r]]; try discriminate. reflexivity. Qed.

Lemma count_true_mask m : forall i, Z.of_nat (length (mask_positions m i)) = count_true m.
Proof.
  induction m as [|[|] m IH]; intros i; cbn [mask_positions count_true length]; [reflexivity| |apply IH].
  rewrite Nat2Z.inj_succ, IH. lia.
Qed.

(* ---------- single_row is "exactly one position" ---------- *)
Lemma single_row_spec rk n rp : 0 <= n -> key_positions rk n = Ok rp ->
  single_row rk n = Ok (Z.of_nat (length rp) =? 1).
Proof.
  intros Hn. destruct rk as [|i|s|l|m]; cbn [key_positions single_row].
  - intros E. injection E as <-. rewrite map_length, seq_length. rewrite Z2Nat.id by lia. reflexivity.
  - destruct (norm_index i n); [|discriminate]. intros E. injection E as <-. reflexivity.
  - unfold positions. destruct (slice_indices s n) as [[[a b] st]|]; [|discriminate].
    intros E. injection E as <-. rewrite range_list_length. f_equal.
    destruct (range_len a b st =? 1) eqn:H1; lia.
  - destruct (opt_all _) as [qs|] eqn:E; [|discriminate]. intros E'. injection E' as <-.
    apply opt_all_length in E. rewrite map_length in E. rewrite E. reflexivity.
  - destruct (_ =? n); [|discriminate]. intros E. injection E as <-.
    rewrite count_true_mask. reflexivity.
Qed.

Lemma single_row_err rk n e : key_positions rk n = Err e ->
  single_row rk n = Err e \/ exists b, single_row rk n = Ok b.
Proof.
  destruct rk as [|i|s|l|m]; cbn [key_positions single_row]; intros E;
    try (right; eexists; reflexivity).
  unfold positions in E. destruct (slice_indices s n) as [[[a b] st]|]; [discriminate|].
  injection E as <-. left. reflexivity.
Qed.

(* ---------- row application on one block ---------- *)
Section RowApply.
Context {A : Type}.

Lemma take_all_col (c : list A) n : Z.of_nat (length c) = n ->
  take_positions c (map Z.of_nat (seq 0 (Z.to_nat n))) = Some c.
Proof. intros <-. rewrite Nat2Z.id. apply take_positions_all. Qed.

Lemma opt_all_take_all (cols : list (list A)) n :
  Forall (fun c => Z.of_nat (length c) = n) cols ->
  opt_all (map (fun c => take_positions c (map Z.of_nat (seq 0 (Z.to_nat n)))) cols) = Some cols.
Proof.
  induction 1 as [|c cols Hc _ IH]; [reflexivity|]. cbn [map opt_all].
  rewrite (take_all_col c n Hc), IH. reflexivity.
Qed.

Lemma opt_all_take_one (cols : list (list A)) j v :
  opt_all (map (fun c => nth_z c j) cols) = Some v ->
  opt_all (map (fun c => take_positions c [j]) cols) = Some (map (fun x => [x]) v).
Proof.
  revert v. induction cols as [|c cols IH]; intros v; cbn [map opt_all].
  - intros E. injection E as <-. reflexivity.
  - destruct (nth_z c j) as [x|] eqn:Ex; [|discriminate].
    destruct (opt_all (map (fun c0 => nth_z c0 j) cols)) as [xs|]; [|discriminate].
    intros E. injection E as <-. rewrite (IH xs eq_refl). cbn [take_positions]. rewrite Ex. reflexivity.
Qed.

Lemma opt_all_nth_total (cols : list (list A)) j n :
  Forall (fun c => Z.of_nat (length c) = n) cols -> 0 <= j < n ->
  exists v, opt_all (map (fun c => nth_z c j) cols) = Some v.
Proof.
  induction 1 as [|c cols Hc _ IH]; intros Hj; [eexists; reflexivity|].
  destruct (IH Hj) as [v Ev]. destruct (nth_z_in_range c j ltac:(lia)) as [x Ex].
  cbn [map opt_all]. rewrite Ex, Ev. eexists; reflexivity.
Qed.

Lemma opt_all_take_total (cols : list (list A)) rp n :
  Forall (fun c => Z.of_nat (length c) = n) cols -> (forall p, In p rp -> 0 <= p < n) ->
  exists cs, opt_all (map (fun c => take_positions c rp) cols) = Some cs.
Proof.
  induction 1 as [|c cols Hc _ IH]; intros Hr; [eexists; reflexivity|].
  destruct (IH Hr) as [cs Ecs].
  destruct (take_positions_total c rp) as [v Ev]; [intros p Hp; specialize (Hr p Hp); lia|].
  cbn [map opt_all]. rewrite Ev, Ecs. eexists; reflexivity.
Qed.

Lemma mat_rows_take (cols : list (list A)) rp cs :
  opt_all (map (fun c => take_positions c rp) cols) = Some cs ->
  cs = [] \/ mat_rows cs = Z.of_nat (length rp).
Proof.
  destruct cols as [|c cols]; cbn [map opt_all].
  - intros E. injection E as <-. left. reflexivity.
  - destruct (take_positions c rp) as [v|] eqn:Ev; [|discriminate].
    destruct (opt_all _) as [vs|]; [|discriminate]. intros E. injection E as <-.
    right. cbn [mat_rows]. f_equal. eapply take_positions_length. eassumption.
Qed.

(* what the block must look like: a 1-D block holds exactly one column; all columns have n cells *)
Definition block_ok (n : Z) (b : block A) : Prop :=
  (b_1d b = true -> exists col, b_cols b = [col]) /\
  Forall (fun c => Z.of_nat (length c) = n) (b_cols b).

(* THE RESHAPING IS RIGHT: whatever the row key and the shape NumPy hands back, the block that goes
   into the new TypeBlocks holds, for every column of the sliced block, exactly the key's rows *)
Lemma row_apply_ok rk n rp (b : block A) : 0 <= n -> block_ok n b ->
  key_positions rk n = Ok rp ->
  exists b', row_apply rk (Z.of_nat (length rp) =? 1) n b = Ok b' /\
             b_dtype b' = b_dtype b /\
             opt_all (map (fun c => take_positions c rp) (b_cols b)) = Some (b_cols b').
Proof.
  intros Hn [H1d Hlen] Hk. unfold row_apply.
  pose proof (key_positions_range rk n rp Hn Hk) as Hr.
  destruct (b_1d b) eqn:E1.
  - (* 1-D block *)
    destruct (H1d eq_refl) as [col Ecol]. rewrite Ecol in *.
    inversion Hlen as [|? ? Hc _]; subst. cbn [map opt_all].
    destruct (take_positions_total col rp) as [v Ev]; [intros p Hp; specialize (Hr p Hp); lia|].
    rewrite Ev. pose proof (take_positions_length _ _ _ Ev) as Hvl.
    destruct rk as [|i|s|l|m]; cbn [np_rows_1d res_bind].
    + (* all rows *)
      cbn [key_positions] in Hk. injection Hk as <-.
      rewrite (take_all_col col _ eq_refl) in Ev. injection Ev as <-.
      cbn [reshape]. destruct (Z.of_nat (length _) =? 1) eqn:H1.
      * eexists. split; [reflexivity|]. split; [reflexivity|]. cbn [reshape to_block b_cols].
        rewrite map_singleton_len1; [reflexivity|]. lia.
      * eexists. split; [reflexivity|]. split; reflexivity.
    + (* integer row: an element, wrapped back into a 1-element array *)
      cbn [key_positions] in Hk. rewrite py_nth_norm.
      destruct (norm_index i (Z.of_nat (length col))) as [j|]; [|discriminate]. injection Hk as <-.
      cbn [take_positions] in Ev. destruct (nth_z col j) as [a|]; [|discriminate]. injection Ev as <-.
      eexists. split; [reflexivity|]. split; reflexivity.
    + rewrite Hk. cbn [res_bind]. rewrite Ev. cbn [reshape].
      destruct (Z.of_nat (length rp) =? 1) eqn:H1.
      * eexists. split; [reflexivity|]. split; [reflexivity|]. cbn [reshape to_block b_cols].
        rewrite map_singleton_len1; [reflexivity|]. lia.
      * eexists. split; [reflexivity|]. split; reflexivity.
    + rewrite Hk. cbn [res_bind]. rewrite Ev. cbn [reshape].
      destruct (Z.of_nat (length rp) =? 1) eqn:H1.
      * eexists. split; [reflexivity|]. split; [reflexivity|]. cbn [reshape to_block b_cols].
        rewrite map_singleton_len1; [reflexivity|]. lia.
      * eexists. split; [reflexivity|]. split; reflexivity.
    + rewrite Hk. cbn [res_bind]. rewrite Ev. cbn [reshape].
      destruct (Z.of_nat (length rp) =? 1) eqn:H1.
      * eexists. split; [reflexivity|]. split; [reflexivity|]. cbn [reshape to_block b_cols].
        rewrite map_singleton_len1; [reflexivity|]. lia.
      * eexists. split; [reflexivity|]. split; reflexivity.
  - (* 2-D block *)
    destruct (opt_all_take_total (b_cols b) rp n Hlen Hr) as [cs Ecs]. rewrite Ecs.
    assert (Hkeep : forall sr, sr = (Z.of_nat (length rp) =? 1) -> reshape sr (SMat cs) = SMat cs).
    { intros sr ->. cbn [reshape]. destruct (mat_rows_take _ _ _ Ecs) as [-> | ->]; [reflexivity|].
      destruct (Z.of_nat (length rp) =? 1); reflexivity. }
    destruct rk as [|i|s|l|m]; cbn [np_rows_2d res_bind].
    + cbn [key_positions] in Hk. injection Hk as <-.
      rewrite (opt_all_take_all (b_cols b) n Hlen) in Ecs. injection Ecs as <-.
      rewrite Hkeep by reflexivity. eexists. split; [reflexivity|]. split; reflexivity.
    + (* integer row: a 1-D array across the columns, rotated into one row *)
      cbn [key_positions] in Hk. destruct (norm_index i n) as [j|] eqn:Ej; [|discriminate]. injection Hk as <-.
      destruct (opt_all_nth_total (b_cols b) j n Hlen (norm_index_range _ _ _ Ej)) as [v Ev].
      rewrite Ev. rewrite (opt_all_take_one _ _ _ Ev) in Ecs. injection Ecs as <-.
      eexists. split; [reflexivity|]. split; reflexivity.
    + rewrite Hk. cbn [res_bind]. rewrite Ecs. cbn [res_bind]. rewrite Hkeep by reflexivity.
      eexists. split; [reflexivity|]. split; reflexivity.
    + rewrite Hk. cbn [res_bind]. rewrite Ecs. cbn [res_bind]. rewrite Hkeep by reflexivity.
      eexists. split; [reflexivity|]. split; reflexivity.
    + rewrite Hk. cbn [res_bind]. rewrite Ecs. cbn [res_bind]. rewrite Hkeep by reflexivity.
      eexists. split; [reflexivity|]. split; reflexivity.
Qed.

(* a malformed row key fails on every block with the key's own error *)
Lemma row_apply_err rk n e sr (b : block A) : block_ok n b ->
  key_positions rk n = Err e -> row_apply rk sr n b = Err e.
Proof.
  intros [H1d Hlen] Hk. unfold row_apply.
  destruct (b_1d b) eqn:E1.
  - destruct (H1d eq_refl) as [col Ecol]. rewrite Ecol in *.
    inversion Hlen as [|? ? Hc _]; subst.
    destruct rk as [|i|s|l|m]; cbn [np_rows_1d res_bind]; try (rewrite Hk; reflexivity).
    + discriminate.
    + cbn [key_positions] in Hk. rewrite py_nth_norm.
      destruct (norm_index i (Z.of_nat (length col))); [discriminate|]. injection Hk as <-. reflexivity.
  - destruct rk as [|i|s|l|m]; cbn [np_rows_2d res_bind]; try (rewrite Hk; reflexivity).
    + discriminate.
    + cbn [key_positions] in Hk. destruct (norm_index i n) eqn:Ei; [discriminate|]. injection Hk as <-.
      reflexivity.
Qed.

End RowApply.
