(* C18 -- zipped stores: multi-worker write / read_many = the serial forms; StoreConfigMap alignment.
   The proofs unfold the decisions REGENERATED from store_zip.py / store.py (Gen/Gen_c18.v). *)
Require Import SF.Prelude SF.Pool SF.PoolStore Gen.Gen_c18 Proofs.PoolExec Proofs.PoolApply.

Definition res_bind' {A B} (h : A -> res B) (r : res A) : res B := match r with Ok a => h a | Err e => Err e end.

(* agreement as far as the property determines it: equal results, or an error on both sides *)
Definition res_agree {X} (a b : res X) : Prop :=
  match a, b with
  | Ok x, Ok y => x = y
  | Err _, Err _ => True
  | _, _ => False
  end.

Section BindFacts.
  Context {A B C : Type}.
  Variable g : A -> res B.
  Variable h : B -> res C.

  Lemma seq_map_bind_ok xs ys : seq_map g xs = Ok ys ->
    seq_map (fun x => match g x with Ok b => h b | Err e => Err e end) xs = seq_map h ys.
  Proof.
    revert ys; induction xs as [|x t IH]; cbn; intros ys H.
    - injection H as <-. reflexivity.
    - destruct (g x) as [b|e]; [|discriminate].
      destruct (seq_map g t) as [r|e]; [|discriminate]. injection H as <-. cbn.
      destruct (h b); [|reflexivity]. rewrite (IH r eq_refl). reflexivity.
  Qed.

  Lemma seq_map_bind_err xs e : seq_map g xs = Err e ->
    exists e', seq_map (fun x => match g x with Ok b => h b | Err e => Err e end) xs = Err e'.
  Proof.
    induction xs as [|x t IH]; cbn; [discriminate|].
    destruct (g x) as [b|e0]; [|eauto].
    destruct (h b); [|eauto].
    destruct (seq_map g t) as [r|e1]; [discriminate|].
    intros H. destruct (IH H) as [e' ->]. eauto.
  Qed.
End BindFacts.

Section ZipFacts.
  Context {L F Y : Type}.
  Variable label_eqb : L -> L -> bool.
  Variable to_bytes : (L * F) -> res Y.
  Variable of_bytes : (L * Y) -> res F.

  Lemma write_decision_workers w : c18_write_multiprocess w = true -> 1 <= pool_size w.
  Proof. unfold c18_write_multiprocess, pool_size. destruct w as [k|]; cbn; [lia|discriminate]. Qed.

  (* store_parallel_eq_serial, write side: any worker setting, any chunk size >= 1, any schedule *)
  Theorem zip_write_parallel_eq_serial workers c pi (items : list (L * F)) :
    1 <= c -> M_zip_write to_bytes workers c pi items = S_zip_write to_bytes items.
  Proof.
    intros Hc. unfold M_zip_write, S_zip_write.
    destruct (c18_write_multiprocess workers) eqn:E; [|reflexivity].
    apply exec_map_eq_seq; [apply write_decision_workers; exact E|intros _; exact Hc].
  Qed.

  (* every member written carries the label of the frame it was made from, in input order *)
  Lemma zip_write_labels workers c pi (items : list (L * F)) z :
    1 <= c -> M_zip_write to_bytes workers c pi items = Ok z -> map fst z = map fst items.
  Proof.
    intros Hc. rewrite zip_write_parallel_eq_serial by assumption. unfold S_zip_write.
    revert z; induction items as [|[l fr] t IH]; cbn; intros z H.
    - injection H as <-. reflexivity.
    - unfold write_job at 1 in H. destruct (to_bytes (l, fr)) as [y|e]; [|discriminate]. cbn [fst] in H.
      destruct (seq_map (write_job to_bytes) t) as [r|e]; [|discriminate].
      injection H as <-. cbn. f_equal. apply IH. reflexivity.
  Qed.

  Definition workers_valid (w : option Z) : Prop := forall k, w = Some k -> 1 <= k.

  Lemma read_pool_size w : workers_valid w -> 1 <= pool_size w.
  Proof. unfold pool_size, default_workers. destruct w as [k|]; intros H; [apply H; reflexivity|lia]. Qed.

  (* read side, all requested labels present: exactly the serial result, including which exception *)
  Theorem zip_read_parallel_eq_serial workers c pi (z : archive) (labels : list L) :
    workers_valid workers -> 1 <= c ->
    (forall l, In l labels -> exists y, zf_read label_eqb l z = Ok y) ->
    M_zip_read_many label_eqb of_bytes workers c pi z labels = S_zip_read_many label_eqb of_bytes z labels.
  Proof.
    intros Hw Hc Hall. unfold M_zip_read_many, S_zip_read_many.
    destruct (c18_read_multiprocess workers); [|reflexivity].
    pose proof (read_pool_size _ Hw) as Hk.
    replace ((pool_size workers <=? 0) || (c <? 1)) with false by lia.
    destruct (seq_map (read_payload label_eqb z) labels) as [ps|e] eqn:E.
    - rewrite exec_map_eq_seq by (try lia; intros _; lia).
      symmetry. apply seq_map_bind_ok. exact E.
    - exfalso. apply seq_map_err_first in E as (pre & l & post & -> & Hl & _).
      destruct (Hall l) as [y Hy]; [apply in_or_app; right; left; reflexivity|].
      unfold read_payload in Hl. rewrite Hy in Hl. discriminate.
  Qed.

  (* read side in general (missing members, corrupt members): same frames, or an error on both sides --
     never a shorter or shifted list.  (Which of two different failures is reported may differ: the
     pool form reads all member bytes before any frame is built.) *)
  Theorem zip_read_parallel_agrees workers c pi (z : archive) (labels : list L) :
    workers_valid workers -> 1 <= c ->
    res_agree (M_zip_read_many label_eqb of_bytes workers c pi z labels)
              (S_zip_read_many label_eqb of_bytes z labels).
  Proof.
    intros Hw Hc. unfold M_zip_read_many, S_zip_read_many.
    destruct (c18_read_multiprocess workers).
    - pose proof (read_pool_size _ Hw) as Hk.
      replace ((pool_size workers <=? 0) || (c <? 1)) with false by lia.
      destruct (seq_map (read_payload label_eqb z) labels) as [ps|e] eqn:E.
      + rewrite exec_map_eq_seq by (try lia; intros _; lia).
        rewrite (seq_map_bind_ok _ of_bytes _ _ E).
        destruct (seq_map of_bytes ps); cbn; auto.
      + destruct (seq_map_bind_err _ of_bytes _ _ E) as [e' ->]. cbn. exact I.
    - destruct (seq_map _ labels); cbn; auto.
  Qed.

  (* ---- write with any pool, read back with any pool: every label gets its own frame back ---- *)
  Hypothesis label_eqb_spec : forall a b, label_eqb a b = true <-> a = b.
  Hypothesis codec : forall l fr y, to_bytes (l, fr) = Ok y -> of_bytes (l, y) = Ok fr.

  Lemma written_member (items : list (L * F)) z : S_zip_write to_bytes items = Ok z ->
    NoDup (map fst items) ->
    forall l fr, In (l, fr) items -> exists y, to_bytes (l, fr) = Ok y /\ zf_read label_eqb l z = Ok y.
  Proof.
    unfold S_zip_write. revert z; induction items as [|[l0 f0] t IH]; cbn; intros z H Hnd l fr Hin; [destruct Hin|].
    unfold write_job at 1 in H. destruct (to_bytes (l0, f0)) as [y0|e] eqn:E0; [|discriminate]. cbn [fst] in H.
    destruct (seq_map (write_job to_bytes) t) as [r|e]; [|discriminate]. injection H as <-.
    inversion Hnd as [|? ? Hnot Hnd']; subst. cbn [zf_read].
    destruct Hin as [E|Hin].
    - injection E as -> ->. exists y0. split; [exact E0|].
      replace (label_eqb l l) with true by (symmetry; apply label_eqb_spec; reflexivity). reflexivity.
    - destruct (label_eqb l l0) eqn:El.
      + apply label_eqb_spec in El. subst. exfalso. apply Hnot.
        change l0 with (fst (l0, fr)). apply in_map. exact Hin.
      + eapply IH; eauto.
  Qed.

  Theorem zip_roundtrip_parallel ww wc wpi rw rc rpi (items sel : list (L * F)) z :
    1 <= wc -> 1 <= rc -> workers_valid rw ->
    NoDup (map fst items) ->
    incl sel items ->
    M_zip_write to_bytes ww wc wpi items = Ok z ->
    M_zip_read_many label_eqb of_bytes rw rc rpi z (map fst sel) = Ok (map snd sel).
  Proof.
    intros Hwc Hrc Hrw Hnd Hincl Hw.
    rewrite zip_write_parallel_eq_serial in Hw by assumption.
    rewrite zip_read_parallel_eq_serial; try assumption.
    - unfold S_zip_read_many. induction sel as [|[l fr] t IH]; [reflexivity|].
      cbn [map seq_map fst snd].
      destruct (written_member _ _ Hw Hnd l fr) as (y & Hy & Hr); [apply Hincl; left; reflexivity|].
      unfold read_payload at 1. rewrite Hr. rewrite (codec _ _ _ Hy).
      rewrite IH; [reflexivity|]. intros p Hp. apply Hincl. right. exact Hp.
    - intros l Hl. apply in_map_iff in Hl as ([l' fr] & <- & Hin).
      destruct (written_member _ _ Hw Hnd l' fr (Hincl _ Hin)) as (y & _ & Hr). eauto.
  Qed.
End ZipFacts.

(* ------------------------------------------------------------------ StoreConfigMap alignment *)
Section ConfigFacts.
  Context {L : Type}.
  Variable eqb : L -> L -> bool.

  Lemma oz_eqb_eq a b : oz_eqb a b = true -> a = b.
  Proof. destruct a, b; cbn; try discriminate; intros H; [f_equal; lia|reflexivity]. Qed.

  (* an aligned config agrees with the default on every attribute the zipped stores hand to their pools *)
  Lemma aligned_pool_settings default cfg : config_aligned default cfg = true ->
    pool_attr_differs c18_read_pool_attrs cfg default = false /\
    pool_attr_differs c18_write_pool_attrs cfg default = false.
  Proof.
    unfold config_aligned, c18_align_with_default_attrs, pool_attr_differs, c18_read_pool_attrs, c18_write_pool_attrs.
    cbn [forallb existsb]. intros H.
    repeat (apply andb_true_iff in H; destruct H as [? H]).
    repeat match goal with H : negb ?x = true |- _ => apply negb_true_iff in H end.
    split; repeat (apply orb_false_iff; split); try reflexivity; assumption.
  Qed.

  Lemma aligned_settings_eq default cfg : config_aligned default cfg = true ->
    w_read_max_workers cfg = w_read_max_workers default /\ w_read_chunksize cfg = w_read_chunksize default /\
    w_write_max_workers cfg = w_write_max_workers default /\ w_write_chunksize cfg = w_write_chunksize default.
  Proof.
    unfold config_aligned, c18_align_with_default_attrs. cbn [forallb]. intros H.
    repeat (apply andb_true_iff in H; destruct H as [? H]).
    repeat match goal with H : negb (attr_differs _ _ _) = true |- _ =>
      apply negb_true_iff in H; cbn in H; apply negb_false_iff in H end.
    repeat split; try (apply oz_eqb_eq; assumption); lia.
  Qed.

  (* A StoreConfigMap that was accepted answers, for EVERY label, with the worker settings of its
     default: the single decision the stores take on config_map.default is the decision every per-label
     config asks for. *)
  Theorem config_map_worker_settings_uniform default (m : list (L * wcfg)) cm l :
    config_map_init default m = Ok cm ->
    w_read_max_workers (cm_get eqb cm l) = w_read_max_workers (cm_default cm) /\
    w_read_chunksize (cm_get eqb cm l) = w_read_chunksize (cm_default cm) /\
    w_write_max_workers (cm_get eqb cm l) = w_write_max_workers (cm_default cm) /\
    w_write_chunksize (cm_get eqb cm l) = w_write_chunksize (cm_default cm).
  Proof.
    unfold config_map_init. destruct (forallb _ m) eqn:E; [|discriminate]. intros H. injection H as <-.
    unfold cm_get. cbn [cm_map cm_default].
    induction m as [|[l' c] t IH]; cbn; [repeat split|].
    cbn in E. apply andb_true_iff in E as [Ec Et].
    destruct (eqb l l'); [apply aligned_settings_eq; exact Ec|apply IH; exact Et].
  Qed.

  Theorem config_map_rejects_misaligned default (m : list (L * wcfg)) l c :
    In (l, c) m -> pool_attr_differs (c18_read_pool_attrs ++ c18_write_pool_attrs) c default = true ->
    config_map_init default m = Err "ErrorInitStoreConfig".
  Proof.
    intros Hin Hd. unfold config_map_init.
    destruct (forallb _ m) eqn:E; [|reflexivity]. exfalso.
    rewrite forallb_forall in E. specialize (E _ Hin). cbn [snd] in E.
    destruct (aligned_pool_settings _ _ E) as [H1 H2].
    unfold pool_attr_differs in *. rewrite existsb_app in Hd. rewrite H1, H2 in Hd. discriminate.
  Qed.
End ConfigFacts.

(* ------------------------------------------------------------------ Batch *_except at the chunksize the source accepts *)
Section BatchExceptGen.
  Context {L F R : Type}.
  Variable f : (L * F) -> res R.
  Variable listed : string -> bool.

  Lemma batch_except_eq_sequential_src k pi (items : list (L * F)) : 1 <= k ->
    M_batch_pool_except f listed c18_except_chunksize k c18_except_chunksize pi items = S_batch_apply_except f listed items.
  Proof. apply batch_pool_except_eq_sequential. Qed.

  Lemma batch_except_skips_exactly_failing_src k pi (items : list (L * F)) : 1 <= k ->
    (forall p e, In p items -> f p = Err e -> listed e = true) ->
    M_batch_pool_except f listed c18_except_chunksize k c18_except_chunksize pi items = Ok (successes f items).
  Proof. apply batch_pool_except_skips_exactly_failing. Qed.

  Lemma batch_except_unlisted_surfaces_src k pi (items : list (L * F)) p e :
    1 <= k -> In p items -> f p = Err e -> listed e = false ->
    exists e', M_batch_pool_except f listed c18_except_chunksize k c18_except_chunksize pi items = Err e' /\ listed e' = false.
  Proof. apply batch_pool_except_unlisted_surfaces. Qed.
End BatchExceptGen.

(* ------------------------------------------------------------------ apply_pool = apply with the argument shapes of the source *)
Section ShapesSrc.
  Context {K V B : Type}.
  Variable f : list (K + V) -> res B.

  (* the pooled form hands the function what arg_gen() yields, the sequential form what apply_iter_items passes: they are the
     same positional arguments for both yield types (checked against the regenerated shapes), hence the same container *)
  Lemma apply_pool_eq_sequential_src (items_form : bool) kind k c pi (items : list (K * V)) :
    1 <= k -> (kind = Procs -> 1 <= c) ->
    M_apply_pool (shape_args (c18_pool_shape items_form)) f kind k c pi items
    = S_apply (shape_args (c18_seq_shape items_form)) f items.
  Proof.
    intros Hk Hc. destruct items_form; exact (apply_pool_eq_sequential _ f kind k c pi items Hk Hc).
  Qed.
End ShapesSrc.
