(* Column selection through the block manager equals selection on the flattened column list,
   for EVERY block layout (C03/C04 core).  *)
Require Import SF.Prelude SF.PySlice SF.Dtype SF.Blocks Proofs.SliceFacts.

Section Select.
Context {A : Type}.
Notation block := (block A).
Notation tb := (tb A).

(* ---------- generic list helpers ---------- *)
Lemma nth_z_Some {B} (l : list B) (i : Z) x : nth_z l i = Some x -> 0 <= i < Z.of_nat (length l).
Proof.
  unfold nth_z. destruct (i <? 0) eqn:Hi; [discriminate|]. intros H.
  assert (Z.to_nat i < length l)%nat by (apply nth_error_Some; congruence). lia.
Qed.

Lemma nth_z_nat {B} (l : list B) (i : nat) : nth_z l (Z.of_nat i) = nth_error l i.
Proof. unfold nth_z. replace (Z.of_nat i <? 0) with false by lia. now rewrite Nat2Z.id. Qed.

Lemma nth_z_app_l {B} (l1 l2 : list B) i : 0 <= i < Z.of_nat (length l1) -> nth_z (l1 ++ l2) i = nth_z l1 i.
Proof. intros H. unfold nth_z. destruct (i <? 0); [reflexivity|]. apply nth_error_app1. lia. Qed.

Lemma nth_z_app_r {B} (l1 l2 : list B) i : Z.of_nat (length l1) <= i ->
  nth_z (l1 ++ l2) i = nth_z l2 (i - Z.of_nat (length l1)).
Proof.
  intros H. unfold nth_z. replace (i <? 0) with false by lia. replace (i - _ <? 0) with false by lia.
  rewrite nth_error_app2 by lia. f_equal. lia.
Qed.

Lemma opt_all_Some {B} (l : list (option B)) (out : list B) :
  opt_all l = Some out <-> l = map Some out.
Proof.
  revert out. induction l as [|[x|] l IH]; intros out; cbn.
  - split; [intros E; injection E as <-; reflexivity | destruct out; [reflexivity|discriminate]].
  - destruct (opt_all l) as [xs|] eqn:E.
    + split.
      * intros H. injection H as <-. cbn. f_equal. apply IH. reflexivity.
      * destruct out as [|y ys]; [discriminate|]. cbn. intros H. injection H as -> H.
        apply IH in H. injection H as ->. reflexivity.
    + split; [discriminate|]. destruct out as [|y ys]; [discriminate|]. cbn. intros H. injection H as -> H.
      apply IH in H. discriminate.
  - split; [discriminate|]. destruct out; discriminate.
Qed.

Lemma take_positions_Some {B} (l : list B) ps out :
  take_positions l ps = Some out <-> map (nth_z l) ps = map Some out.
Proof.
  revert out. induction ps as [|p ps IH]; intros out; cbn.
  - split; [intros E; injection E as <-; reflexivity | destruct out; [reflexivity|discriminate]].
  - destruct (nth_z l p) as [x|]; [|split; [discriminate|destruct out; discriminate]].
    destruct (take_positions l ps) as [xs|].
    + split.
      * intros E. injection E as <-. cbn. f_equal. apply IH. reflexivity.
      * destruct out as [|y ys]; [discriminate|]. cbn. intros E. injection E as -> E.
        apply IH in E. injection E as ->. reflexivity.
    + split; [discriminate|]. destruct out as [|y ys]; [discriminate|]. cbn. intros E. injection E as -> E.
      apply IH in E. discriminate.
Qed.

(* ---------- the directory describes the flattened view ---------- *)
Definition col_at (t : tb) (bi j : Z) : option (dtype * list A) :=
  match nth_z t bi with
  | Some b => match nth_z (b_cols b) j with Some c => Some (b_dtype b, c) | None => None end
  | None => None
  end.

Lemma block_columns_nth (b : block) (j : nat) :
  nth_error (block_columns b) j = match nth_error (b_cols b) j with Some c => Some (b_dtype b, c) | None => None end.
Proof. unfold block_columns. rewrite nth_error_map. destruct (nth_error (b_cols b) j); reflexivity. Qed.

Lemma index_from_length k (t : tb) : length (index_from k t) = length (flatten t).
Proof.
  revert k. induction t as [|b r IH]; intros k; cbn; [reflexivity|].
  rewrite !app_length, map_length, seq_length, IH. unfold block_columns. now rewrite map_length.
Qed.

(* position p of the directory names exactly column p of the flattened view *)
Lemma index_from_spec (t : tb) : forall k p bi j, 0 <= k ->
  nth_z (index_from k t) p = Some (bi, j) ->
  k <= bi /\ nth_z (flatten t) p = col_at t (bi - k) j /\
  (exists b, nth_z t (bi - k) = Some b /\ 0 <= j < width b).
Proof.
  induction t as [|b r IH]; intros k p bi j Hk H; cbn in H.
  - unfold nth_z in H. destruct (p <? 0); [discriminate|]. destruct (Z.to_nat p); discriminate.
  - pose proof (nth_z_Some _ _ _ H) as Hp. rewrite app_length, map_length, seq_length in Hp.
    cbn [flatten flat_map]. fold (flatten r).
    destruct (p <? Z.of_nat (length (b_cols b))) eqn:Hlt.
    + rewrite nth_z_app_l in H by (rewrite map_length, seq_length; lia).
      rewrite nth_z_app_l by (unfold block_columns; rewrite map_length; lia).
      assert (Ep : p = Z.of_nat (Z.to_nat p)) by lia.
      set (pn := Z.to_nat p) in *. clearbody pn. subst p.
      rewrite nth_z_nat in H. rewrite nth_z_nat. rewrite nth_error_map in H.
      destruct (nth_error (seq 0 (length (b_cols b))) pn) as [q|] eqn:Hq; [|discriminate].
      cbn in H. injection H as <- <-.
      assert (Hq' : q = pn).
      { apply nth_error_nth with (d := 0%nat) in Hq. rewrite seq_nth in Hq by lia. lia. }
      subst q. split; [lia|]. replace (k - k) with 0 by lia.
      unfold col_at. cbn [nth_z Z.ltb Z.compare Z.to_nat nth_error].
      rewrite nth_z_nat, block_columns_nth. split; [reflexivity|].
      exists b. split; [reflexivity|]. unfold width. lia.
    + rewrite nth_z_app_r in H by (rewrite map_length, seq_length; lia).
      rewrite nth_z_app_r by (unfold block_columns; rewrite map_length; lia).
      rewrite map_length, seq_length in H. unfold block_columns at 1. rewrite map_length.
      apply IH in H; [|lia]. destruct H as (Hb & Hf & b' & Hb' & Hj).
      split; [lia|]. rewrite Hf. unfold col_at.
      assert (E : nth_z (b :: r) (bi - k) = nth_z r (bi - (k + 1))).
      { unfold nth_z. replace (bi - k <? 0) with false by lia. replace (bi - (k + 1) <? 0) with false by lia.
        replace (Z.to_nat (bi - k)) with (S (Z.to_nat (bi - (k + 1)))) by lia. reflexivity. }
      rewrite E. split; [reflexivity|]. exists b'. split; assumption.
Qed.

(* ---------- bundling ---------- *)
Definition unbundle (bs : list (Z * list Z)) : list (Z * Z) :=
  flat_map (fun p => map (pair (fst p)) (snd p)) bs.

Lemma contiguous_go_unbundle rest : forall lb lc brev,
  unbundle (contiguous_go lb lc brev rest) = map (pair lb) (rev brev) ++ rest.
Proof.
  induction rest as [|[bi col] rest IH]; intros lb lc brev; cbn [contiguous_go].
  - cbn. now rewrite app_nil_r.
  - destruct ((lb =? bi) && (Z.abs (col - lc) =? 1)) eqn:Hc.
    + rewrite IH. cbn [rev]. rewrite map_app, <- app_assoc. cbn.
      apply andb_true_iff in Hc as [Hb _]. apply Z.eqb_eq in Hb. subst. reflexivity.
    + cbn [unbundle flat_map fst snd]. fold (unbundle (contiguous_go bi col [col] rest)).
      rewrite IH. cbn. reflexivity.
Qed.

Lemma contiguous_bundles_unbundle pairs : unbundle (contiguous_bundles pairs) = pairs.
Proof.
  destruct pairs as [|[bi col] rest]; [reflexivity|].
  unfold contiguous_bundles. rewrite contiguous_go_unbundle. reflexivity.
Qed.

(* a chain: neighbours differ by exactly one *)
Fixpoint chain (l : list Z) : Prop :=
  match l with
  | x :: ((y :: _) as r) => Z.abs (y - x) = 1 /\ chain r
  | _ => True
  end.

Lemma chain_snoc l x y : chain (l ++ [x]) -> Z.abs (y - x) = 1 -> chain ((l ++ [x]) ++ [y]).
Proof.
  induction l as [|a l IH]; cbn; intros Hc Hxy.
  - split; [assumption|exact I].
  - destruct (l ++ [x]) as [|b r] eqn:E; [destruct l; discriminate|].
    cbn in *. destruct Hc as [Hab Hr]. split; [assumption|]. apply IH; assumption.
Qed.

Lemma contiguous_go_chain rest : forall lb lc pre,
  chain (pre ++ [lc]) ->
  Forall (fun p => snd p <> [] /\ chain (snd p)) (contiguous_go lb lc (lc :: rev pre) rest).
Proof.
  induction rest as [|[bi col] rest IH]; intros lb lc pre Hc; cbn [contiguous_go].
  - constructor; [|constructor]. cbn [snd rev]. rewrite rev_involutive.
    split; [destruct pre; discriminate|assumption].
  - destruct ((lb =? bi) && (Z.abs (col - lc) =? 1)) eqn:Hcond.
    + apply andb_true_iff in Hcond as [_ Hd]. apply Z.eqb_eq in Hd.
      specialize (IH bi col (pre ++ [lc])). rewrite rev_app_distr in IH. cbn in IH.
      apply IH. apply chain_snoc; assumption.
    + constructor.
      * cbn [snd rev]. rewrite rev_involutive. split; [destruct pre; discriminate|assumption].
      * apply (IH bi col []). cbn. exact I.
Qed.

Lemma contiguous_bundles_chain pairs :
  Forall (fun p => snd p <> [] /\ chain (snd p)) (contiguous_bundles pairs).
Proof.
  destruct pairs as [|[bi col] rest]; [constructor|].
  unfold contiguous_bundles. apply (contiguous_go_chain rest bi col []). cbn. exact I.
Qed.

(* a duplicate-free chain is a monotone run *)
Lemma chain_nodup_run l : l <> [] -> chain l -> NoDup l ->
  exists a d, (d = 1 \/ d = -1) /\ l = range_list a d (length l).
Proof.
  induction l as [|x l IH]; [congruence|]. intros _ Hc Hnd.
  destruct l as [|y r].
  - exists x, 1. split; [left; reflexivity|]. unfold range_list. cbn [length seq map]. f_equal. lia.
  - cbn in Hc. destruct Hc as [Hxy Hc]. inversion Hnd as [|? ? Hnin Hnd']; subst.
    destruct (IH ltac:(discriminate) Hc Hnd') as (a & d & Hd & E).
    assert (Ha : a = y).
    { pose proof E as E'. cbn [length] in E'. rewrite range_list_S in E'. injection E' as E1 _. congruence. }
    destruct r as [|z r'].
    + exists x, (y - x). split; [lia|]. unfold range_list. cbn [length seq map]. f_equal; [lia|]. f_equal. lia.
    + assert (Hz : z = y + d).
      { pose proof E as E'. cbn [length] in E'. rewrite !range_list_S in E'. injection E' as _ Ez _. lia. }
      assert (Hd' : d = y - x).
      { destruct (Z.eq_dec d (y - x)) as [|Hne]; [assumption|]. exfalso.
        apply Hnin. right. left. lia. }
      exists x, d. split; [assumption|].
      change (length (x :: y :: z :: r')) with (S (length (y :: z :: r'))).
      rewrite range_list_S. f_equal. replace (x + d) with a by lia. exact E.
Qed.

(* _cols_to_slice denotes its (monotone, in-range) bundle *)
Lemma range_list_last a d n : last (range_list a d (S n)) a = a + Z.of_nat n * d.
Proof.
  rewrite range_list_snoc, last_last. reflexivity.
Qed.

Lemma cols_to_slice_run a d n w : (d = 1 \/ d = -1) -> (1 <= n)%nat ->
  (forall x, In x (range_list a d n) -> 0 <= x < w) ->
  positions (cols_to_slice_t (range_list a d n)) w = Some (range_list a d n).
Proof.
  intros Hd Hn Hin.
  destruct n as [|n]; [lia|].
  assert (Ha : 0 <= a < w) by (apply Hin; rewrite range_list_S; left; reflexivity).
  assert (Hl : 0 <= a + Z.of_nat n * d < w).
  { apply Hin. rewrite range_list_snoc. apply in_or_app. right. left. reflexivity. }
  pose proof (range_list_length a d (S n)) as Hlen.
  pose proof (range_list_last a d n) as Hlast.
  pose proof (range_list_S a d n) as EL.
  set (L := range_list a d (S n)) in *.
  assert (Ects : cols_to_slice_t L =
    if (Z.of_nat (S n) =? 1) then mk_slice (Some a) (Some (a + 1)) None
    else let stop_idx := a + Z.of_nat n * d in
      if stop_idx >? a then mk_slice (Some a) (Some (stop_idx + 1)) None
      else if stop_idx =? 0 then mk_slice (Some a) None (Some (-1))
      else mk_slice (Some a) (Some (stop_idx - 1)) (Some (-1))).
  { rewrite <- Hlen, <- Hlast. rewrite EL. reflexivity. }
  rewrite Ects. clear Ects EL Hlen Hlast. subst L.
  destruct (Z.of_nat (S n) =? 1) eqn:H1.
  - assert (n = 0%nat) by lia. subst n.
    unfold positions, slice_indices, adj_bound, range_len. cbn [s_step s_start s_stop Z.eqb].
    replace (a <? 0) with false by lia. replace (a >=? w) with false by lia.
    replace (a + 1 <? 0) with false by lia.
    destruct (a + 1 >=? w) eqn:?; cbn [Z.ltb Z.compare];
      [replace (a <? w) with true by lia; replace ((w - a - 1) / 1) with 0 by (rewrite Z.div_1_r; lia)
      |replace (a <? a + 1) with true by lia; replace ((a + 1 - a - 1) / 1) with 0 by (rewrite Z.div_1_r; lia)];
      reflexivity.
  - cbv zeta.
    destruct Hd as [-> | ->].
    + replace (a + Z.of_nat n * 1 >? a) with true by lia.
      unfold positions, slice_indices, adj_bound, range_len. cbn [s_step s_start s_stop Z.eqb].
      replace (a <? 0) with false by lia. replace (a >=? w) with false by lia.
      replace (a + Z.of_nat n * 1 + 1 <? 0) with false by lia.
      cbn [Z.ltb Z.compare].
      destruct (a + Z.of_nat n * 1 + 1 >=? w) eqn:?.
      * replace (a <? w) with true by lia. rewrite Z.div_1_r. f_equal. f_equal. lia.
      * replace (a <? a + Z.of_nat n * 1 + 1) with true by lia. rewrite Z.div_1_r. f_equal. f_equal. lia.
    + replace (a + Z.of_nat n * -1 >? a) with false by lia.
      destruct (a + Z.of_nat n * -1 =? 0) eqn:H0.
      * unfold positions, slice_indices, adj_bound, range_len. cbn [s_step s_start s_stop Z.eqb Z.ltb Z.compare].
        replace (a <? 0) with false by lia. replace (a >=? w) with false by lia.
        replace (-1 <? a) with true by lia. cbn [Z.opp]. rewrite Z.div_1_r. f_equal. f_equal. lia.
      * unfold positions, slice_indices, adj_bound, range_len. cbn [s_step s_start s_stop Z.eqb Z.ltb Z.compare].
        replace (a <? 0) with false by lia. replace (a >=? w) with false by lia.
        replace (a + Z.of_nat n * -1 - 1 <? 0) with false by lia.
        replace (a + Z.of_nat n * -1 - 1 >=? w) with false by lia.
        replace (a + Z.of_nat n * -1 - 1 <? a) with true by lia. cbn [Z.opp]. rewrite Z.div_1_r.
        f_equal. f_equal. lia.
Qed.

(* ---------- one bundle: slicing a block by the bundle's slice gives the bundle's columns ---------- *)
Definition cols_of (b : block) (cols : list Z) : option (list (dtype * list A)) :=
  opt_all (map (fun j => match nth_z (b_cols b) j with Some c => Some (b_dtype b, c) | None => None end) cols).

Lemma NoDup_all_zero (l : list Z) : l <> [] -> NoDup l -> (forall x, In x l -> x = 0) -> l = [0].
Proof.
  destruct l as [|x [|y r]]; intros Hne Hnd Hz; [congruence| |].
  - rewrite (Hz x) by (left; reflexivity). reflexivity.
  - exfalso. inversion Hnd as [|? ? Hnin _]; subst. apply Hnin. left.
    rewrite (Hz x), (Hz y); [reflexivity|right; left; reflexivity|left; reflexivity].
Qed.

Lemma take_positions_cols_of (b : block) cols out :
  take_positions (b_cols b) cols = Some out ->
  cols_of b cols = Some (map (pair (b_dtype b)) out).
Proof.
  unfold cols_of. revert out. induction cols as [|j cols IH]; intros out; cbn.
  - intros E. injection E as <-. reflexivity.
  - destruct (nth_z (b_cols b) j) as [c|]; [|discriminate].
    destruct (take_positions (b_cols b) cols) as [xs|]; [|discriminate].
    intros E. injection E as <-. rewrite (IH xs eq_refl). reflexivity.
Qed.

Lemma take_positions_total {B} (l : list B) ps :
  (forall p, In p ps -> 0 <= p < Z.of_nat (length l)) -> exists out, take_positions l ps = Some out.
Proof.
  induction ps as [|p ps IH]; intros H; cbn; [eexists; reflexivity|].
  destruct IH as [out E]; [intros q Hq; apply H; right; assumption|].
  assert (Hp : 0 <= p < Z.of_nat (length l)) by (apply H; left; reflexivity).
  unfold nth_z. replace (p <? 0) with false by lia.
  destruct (nth_error l (Z.to_nat p)) eqn:En.
  - rewrite E. eexists; reflexivity.
  - apply nth_error_None in En. lia.
Qed.

Lemma slice_block_bundle (b : block) cols : wf_block b ->
  cols <> [] -> chain cols -> NoDup cols -> (forall j, In j cols -> 0 <= j < width b) ->
  exists b', slice_block b (cols_to_slice_t cols) = Some b' /\
             Some (block_columns b') = cols_of b cols.
Proof.
  intros [Hw H1d] Hne Hch Hnd Hin. unfold slice_block.
  destruct (b_1d b) eqn:E1.
  - (* 1-D block: the whole array, and the bundle can only be [0] *)
    specialize (H1d eq_refl).
    assert (cols = [0]).
    { apply NoDup_all_zero; try assumption. intros x Hx. specialize (Hin x Hx). unfold width in Hin. lia. }
    subst cols. exists b. split; [reflexivity|].
    unfold cols_of, block_columns. destruct (b_cols b) as [|c [|? ?]]; try discriminate. reflexivity.
  - destruct (chain_nodup_run cols Hne Hch Hnd) as (a & d & Hd & E).
    unfold slice_list.
    assert (Hn : (1 <= length cols)%nat) by (destruct cols; [congruence|cbn; lia]).
    remember (length cols) as n eqn:En. clear En. subst cols.
    rewrite (cols_to_slice_run a d n (Z.of_nat (length (b_cols b))) Hd Hn) by exact Hin.
    set (cols := range_list a d n) in *.
    destruct (take_positions_total (b_cols b) cols Hin) as [out Eo].
    rewrite Eo. eexists. split; [reflexivity|].
    unfold block_columns. cbn [b_dtype b_cols]. symmetry. apply take_positions_cols_of. assumption.
Qed.

(* ---------- all bundles ---------- *)
Definition good_bundle (t : tb) (p : Z * list Z) : Prop :=
  snd p <> [] /\ chain (snd p) /\ NoDup (snd p) /\
  exists b, nth_z t (fst p) = Some b /\ forall j, In j (snd p) -> 0 <= j < width b.

Lemma opt_all_app {B} (l1 l2 : list (option B)) o1 o2 :
  opt_all l1 = Some o1 -> opt_all l2 = Some o2 -> opt_all (l1 ++ l2) = Some (o1 ++ o2).
Proof.
  intros H1 H2. apply opt_all_Some in H1. apply opt_all_Some in H2. apply opt_all_Some.
  subst. now rewrite map_app.
Qed.

Lemma slice_blocks_bundles (t : tb) bundles : wf_tb t -> Forall (good_bundle t) bundles ->
  exists t', slice_blocks t (map (fun p => (fst p, cols_to_slice_t (snd p))) bundles) = Some t' /\
             Some (flatten t') = opt_all (map (fun p => col_at t (fst p) (snd p)) (unbundle bundles)).
Proof.
  intros Hwf. induction 1 as [|[bi cols] bundles Hg _ IH].
  - exists []. split; reflexivity.
  - destruct IH as (t' & Et & Ef).
    destruct Hg as (Hne & Hch & Hnd & b & Hb & Hin). cbn [fst snd] in *.
    assert (Hwb : wf_block b).
    { unfold wf_tb in Hwf. rewrite Forall_forall in Hwf. apply Hwf.
      unfold nth_z in Hb. destruct (bi <? 0); [discriminate|]. eapply nth_error_In; eassumption. }
    destruct (slice_block_bundle b cols Hwb Hne Hch Hnd Hin) as (b' & Eb & Ec).
    exists (b' :: t'). split.
    + unfold slice_blocks in *. cbn [map fst snd opt_all]. rewrite Hb, Eb, Et. reflexivity.
    + cbn [flatten flat_map unbundle fst snd]. fold (flatten t'). fold (unbundle bundles).
      rewrite map_app. symmetry. apply opt_all_app; [|symmetry; exact Ef].
      rewrite map_map. cbn [fst snd]. unfold col_at. rewrite Hb. symmetry. exact Ec.
Qed.

Lemma NoDup_app_intro {B} (l1 l2 : list B) : NoDup l1 -> NoDup l2 ->
  (forall x, In x l1 -> In x l2 -> False) -> NoDup (l1 ++ l2).
Proof.
  induction l1 as [|a l1 IH]; intros H1 H2 Hd; [assumption|].
  inversion H1; subst. cbn. constructor.
  - intros Hin. apply in_app_or in Hin as [|Hin]; [contradiction|]. apply (Hd a); [left; reflexivity|assumption].
  - apply IH; try assumption. intros x Hx. apply Hd. right. assumption.
Qed.

Lemma NoDup_app_remove_l {B} (l1 l2 : list B) : NoDup (l1 ++ l2) -> NoDup l2.
Proof. induction l1 as [|a l1 IH]; [trivial|]. cbn. intros H. inversion H; subst. apply IH. assumption. Qed.

Lemma NoDup_app_remove_r {B} (l1 l2 : list B) : NoDup (l1 ++ l2) -> NoDup l1.
Proof.
  induction l1 as [|a l1 IH]; [constructor|]. cbn. intros H. inversion H as [|? ? Hn Hr]; subst.
  constructor; [|apply IH; assumption]. intros Hin. apply Hn. apply in_or_app. left. assumption.
Qed.

(* ---------- the directory has no repeated entry ---------- *)
Lemma index_from_fst_ge (t : tb) : forall k q, In q (index_from k t) -> k <= fst q.
Proof.
  induction t as [|b r IH]; intros k q Hq; cbn in Hq; [contradiction|].
  apply in_app_or in Hq as [Hq|Hq].
  - apply in_map_iff in Hq as (j & <- & _). cbn. lia.
  - apply IH in Hq. lia.
Qed.

Lemma index_from_NoDup (t : tb) : forall k, NoDup (index_from k t).
Proof.
  induction t as [|b r IH]; intros k; cbn; [constructor|].
  apply NoDup_app_intro.
  - apply FinFun.Injective_map_NoDup; [|apply seq_NoDup].
    intros i j E. injection E as E. lia.
  - apply IH.
  - intros q H1 H2. apply in_map_iff in H1 as (j & <- & _). apply index_from_fst_ge in H2. cbn in H2. lia.
Qed.

Lemma NoDup_map_nth_z {B} (l : list B) ps vals : NoDup l -> NoDup ps ->
  map (nth_z l) ps = map Some vals -> NoDup vals.
Proof.
  intros Hl. revert vals. induction ps as [|p ps IH]; intros vals Hps E.
  - destruct vals; [constructor|discriminate].
  - destruct vals as [|v vals]; [discriminate|]. cbn in E. injection E as Ev E.
    inversion Hps as [|? ? Hnin Hps']; subst. constructor; [|apply IH; assumption].
    intros Hin. apply Hnin.
    assert (Hmap : In (Some v) (map (nth_z l) ps)) by (rewrite E; apply in_map; assumption).
    apply in_map_iff in Hmap as (q & Eq & Hq).
    assert (p = q); [|subst; assumption].
    pose proof (nth_z_Some _ _ _ Ev) as Hp. pose proof (nth_z_Some _ _ _ Eq) as Hq'.
    unfold nth_z in Ev, Eq. replace (p <? 0) with false in Ev by lia. replace (q <? 0) with false in Eq by lia.
    rewrite NoDup_nth_error in Hl. specialize (Hl (Z.to_nat p) (Z.to_nat q) ltac:(lia) ltac:(congruence)). lia.
Qed.

(* ---------- from a duplicate-free list of directory entries to good bundles ---------- *)
Lemma unbundle_NoDup bundles : NoDup (unbundle bundles) -> Forall (fun p => NoDup (snd p)) bundles.
Proof.
  induction bundles as [|[bi cols] r IH]; intros H; constructor.
  - cbn in *. apply NoDup_app_remove_r in H. eapply NoDup_map_inv. exact H.
  - apply IH. cbn in H. apply NoDup_app_remove_l in H. exact H.
Qed.

Lemma bundles_good (t : tb) pairs : NoDup pairs ->
  (forall q, In q pairs -> exists b, nth_z t (fst q) = Some b /\ 0 <= snd q < width b) ->
  Forall (good_bundle t) (contiguous_bundles pairs).
Proof.
  intros Hnd Hv.
  pose proof (contiguous_bundles_unbundle pairs) as Eu.
  pose proof (contiguous_bundles_chain pairs) as Hch.
  assert (Hnd' : Forall (fun p => NoDup (snd p)) (contiguous_bundles pairs)) by (apply unbundle_NoDup; rewrite Eu; assumption).
  assert (Hsub : forall p, In p (contiguous_bundles pairs) -> forall j, In j (snd p) -> In (fst p, j) pairs).
  { intros p Hp j Hj. rewrite <- Eu. unfold unbundle. apply in_flat_map. exists p. split; [assumption|].
    apply in_map. assumption. }
  rewrite Forall_forall in *. intros p Hp.
  destruct (Hch p Hp) as [Hne Hc]. repeat split; try assumption; [apply Hnd'; assumption|].
  destruct (snd p) as [|j0 js] eqn:Es; [congruence|].
  destruct (Hv (fst p, j0)) as (b & Hb & _); [apply Hsub; [assumption|rewrite Es; left; reflexivity]|].
  exists b. split; [exact Hb|]. intros j Hj.
  destruct (Hv (fst p, j)) as (b2 & Hb2 & Hr); [apply Hsub; [assumption|rewrite Es; assumption]|].
  cbn [fst snd] in *. congruence.
Qed.

(* ---------- positions denoted by a key ---------- *)
Lemma range_list_NoDup a st c : st <> 0 -> NoDup (range_list a st c).
Proof.
  intros Hst. unfold range_list. apply FinFun.Injective_map_NoDup; [|apply seq_NoDup].
  intros i j E. nia.
Qed.

Lemma mask_positions_spec m : forall i x, In x (mask_positions m i) -> i <= x < i + Z.of_nat (length m).
Proof.
  induction m as [|[|] m IH]; intros i x H; cbn in H; [contradiction| |].
  - destruct H as [<-|H]; [cbn; lia|]. apply IH in H. cbn [length]. lia.
  - apply IH in H. cbn [length]. lia.
Qed.

Lemma mask_positions_NoDup m : forall i, NoDup (mask_positions m i).
Proof.
  induction m as [|[|] m IH]; intros i; cbn; [constructor| |apply IH].
  constructor; [|apply IH]. intros H. apply mask_positions_spec in H. lia.
Qed.

Lemma opt_all_norm_range l n ps : opt_all (map (fun i => norm_index i n) l) = Some ps ->
  forall p, In p ps -> 0 <= p < n.
Proof.
  intros E p Hp. apply opt_all_Some in E.
  assert (H : In (Some p) (map (fun i => norm_index i n) l)) by (rewrite E; apply in_map; assumption).
  apply in_map_iff in H as (i & Ei & _). unfold norm_index in Ei.
  destruct ((0 <=? i) && (i <? n)) eqn:?; [injection Ei as <-; lia|].
  destruct ((i <? 0) && (0 <=? i + n)) eqn:?; [injection Ei as <-; lia|discriminate].
Qed.

Definition key_nodup (k : ckey) (n : Z) : Prop :=
  match k with
  | CList l => forall ps, opt_all (map (fun i => norm_index i n) l) = Some ps -> NoDup ps
  | _ => True
  end.

Lemma key_positions_ok k n ps : 0 <= n -> key_nodup k n -> key_positions k n = Ok ps ->
  NoDup ps /\ forall p, In p ps -> 0 <= p < n.
Proof.
  intros Hn Hk. destruct k as [|i|s|l|m]; cbn [key_positions].
  - intros E. injection E as <-. split.
    + apply FinFun.Injective_map_NoDup; [intros x y; lia|apply seq_NoDup].
    + intros p Hp. apply in_map_iff in Hp as (q & <- & Hq). apply in_seq in Hq. lia.
  - destruct (norm_index i n) as [j|] eqn:E; [|discriminate]. intros E'. injection E' as <-.
    split; [repeat constructor; intros []|].
    intros p [<-|[]]. eapply (opt_all_norm_range [i] n [j]); [cbn; rewrite E; reflexivity|left; reflexivity].
  - destruct (positions s n) as [qs|] eqn:E; [|discriminate]. intros E'. injection E' as <-. split.
    + unfold positions, slice_indices in E. destruct (_ =? 0) eqn:Hz; [discriminate|].
      injection E as <-. apply range_list_NoDup. lia.
    + intros p Hp. eapply positions_in_range; eassumption.
  - destruct (opt_all _) as [qs|] eqn:E; [|discriminate]. intros E'. injection E' as <-.
    split; [apply Hk; assumption|]. eapply opt_all_norm_range; eassumption.
  - destruct (_ =? n) eqn:E; [|discriminate]. intros E'. injection E' as <-.
    split; [apply mask_positions_NoDup|]. intros p Hp. apply mask_positions_spec in Hp. lia.
Qed.

(* ---------- whole-frame selection: identity ---------- *)
Lemma take_positions_all_from {B} (l : list B) : forall pre,
  take_positions (pre ++ l) (map Z.of_nat (seq (length pre) (length l))) = Some l.
Proof.
  induction l as [|x l IH]; intros pre; [reflexivity|].
  cbn [length seq map take_positions].
  rewrite nth_z_nat, nth_error_app2 by lia. rewrite Nat.sub_diag. cbn [nth_error].
  specialize (IH (pre ++ [x])). rewrite <- app_assoc, app_length in IH. cbn in IH.
  replace (length pre + 1)%nat with (S (length pre)) in IH by lia. rewrite IH. reflexivity.
Qed.

Lemma take_positions_all {B} (l : list B) : take_positions l (map Z.of_nat (seq 0 (length l))) = Some l.
Proof. exact (take_positions_all_from l []). Qed.

Lemma range_list_0_1 n : range_list 0 1 n = map Z.of_nat (seq 0 n).
Proof. unfold range_list. apply map_ext. intros i. lia. Qed.

Lemma slice_list_all {B} (l : list B) :
  slice_list l (mk_slice (Some 0) (Some (Z.of_nat (length l))) None) = Some l.
Proof.
  unfold slice_list, positions, slice_indices, adj_bound, range_len. cbn [s_step s_start s_stop Z.eqb Z.ltb Z.compare].
  set (n := Z.of_nat (length l)).
  replace (0 >=? n) with (n =? 0) by lia. replace (n <? 0) with false by lia. replace (n >=? n) with true by lia.
  destruct (n =? 0) eqn:E0.
  - assert (length l = 0%nat) by lia. destruct l; [|discriminate]. rewrite Z.ltb_irrefl. reflexivity.
  - replace (0 <? n) with true by lia. rewrite Z.div_1_r.
    replace (Z.to_nat (n - 0 - 1 + 1)) with (length l) by lia.
    rewrite range_list_0_1. apply take_positions_all.
Qed.

Lemma slice_blocks_all_from (t : tb) : wf_tb t -> forall pre,
  exists t', opt_all (map (fun p => match nth_z (pre ++ t) (fst p) with
                                    | Some b => slice_block b (snd p)
                                    | None => None
                                    end)
                          (map (fun kb => (fst kb, mk_slice (Some 0) (Some (width (snd kb))) None))
                               (combine (map Z.of_nat (seq (length pre) (length t))) t))) = Some t'
             /\ flatten t' = flatten t.
Proof.
  induction 1 as [|b t Hb _ IH]; intros pre; [exists []; split; reflexivity|].
  cbn [length seq map combine fst snd opt_all].
  rewrite nth_z_nat, nth_error_app2 by lia. rewrite Nat.sub_diag. cbn [nth_error].
  destruct (IH (pre ++ [b])) as (t' & Et & Ef).
  rewrite <- app_assoc, app_length in Et. cbn [app length] in Et.
  replace (length pre + 1)%nat with (S (length pre)) in Et by lia. rewrite Et.
  unfold slice_block. destruct (b_1d b) eqn:E1.
  - exists (b :: t'). split; [reflexivity|].
    change (flatten (b :: t')) with (block_columns b ++ flatten t'). rewrite Ef. reflexivity.
  - unfold width. rewrite slice_list_all. exists (mk_block (b_dtype b) false (b_cols b) :: t'). split; [reflexivity|].
    change (flatten (mk_block (b_dtype b) false (b_cols b) :: t')) with (block_columns (mk_block (b_dtype b) false (b_cols b)) ++ flatten t').
    rewrite Ef. reflexivity.
Qed.

Lemma nth_z_total {B} (l : list B) ps : (forall p, In p ps -> 0 <= p < Z.of_nat (length l)) ->
  exists vals, map (nth_z l) ps = map Some vals.
Proof.
  intros H. destruct (take_positions_total l ps H) as [out E]. exists out. apply take_positions_Some. exact E.
Qed.

Lemma select_via_positions (t : tb) ps : wf_tb t -> NoDup ps ->
  (forall p, In p ps -> 0 <= p < Z.of_nat (length (flatten t))) ->
  exists pairs t', opt_all (map (nth_z (index_from 0 t)) ps) = Some pairs /\
                   slice_blocks t (contiguous_pairs pairs) = Some t' /\
                   take_positions (flatten t) ps = Some (flatten t').
Proof.
  intros Hwf Hnd Hr.
  destruct (nth_z_total (index_from 0 t) ps) as [pairs Ep]; [rewrite index_from_length; exact Hr|].
  assert (Hpn : NoDup pairs) by (eapply NoDup_map_nth_z; [apply index_from_NoDup|exact Hnd|exact Ep]).
  (* every pair comes from a position, hence names a real column *)
  assert (Hcol : map (nth_z (flatten t)) ps = map (fun q => col_at t (fst q) (snd q)) pairs /\
                 forall q, In q pairs -> exists b, nth_z t (fst q) = Some b /\ 0 <= snd q < width b).
  { clear Hpn Hnd Hr. revert pairs Ep. induction ps as [|p ps IH]; intros pairs Ep.
    - destruct pairs; [|discriminate]. split; [reflexivity|intros q []].
    - destruct pairs as [|[bi j] pairs]; [discriminate|]. cbn in Ep. injection Ep as Ep1 Ep.
      destruct (IH pairs Ep) as [E1 E2].
      destruct (index_from_spec t 0 p bi j ltac:(lia) Ep1) as (_ & Hf & b & Hb & Hj).
      rewrite Z.sub_0_r in *. split.
      + cbn. rewrite Hf, E1. reflexivity.
      + intros q [<-|Hq]; [exists b; split; assumption|apply E2; assumption]. }
  destruct Hcol as [Hmap Hvalid].
  pose proof (bundles_good t pairs Hpn Hvalid) as Hg.
  destruct (slice_blocks_bundles t _ Hwf Hg) as (t' & Et & Ef).
  rewrite contiguous_bundles_unbundle in Ef.
  exists pairs, t'. split; [apply opt_all_Some; exact Ep|]. split; [exact Et|].
  apply take_positions_Some. rewrite Hmap. apply opt_all_Some. symmetry. exact Ef.
Qed.

(* ==================== the refinement: selection through blocks = selection on columns ==================== *)
Theorem select_columns_refines (t : tb) (k : ckey) : wf_tb t ->
  key_nodup k (Z.of_nat (length (flatten t))) ->
  res_map flatten (M_select_columns t k) = S_select_columns (flatten t) k.
Proof.
  intros Hwf Hk. unfold M_select_columns, S_select_columns, key_to_block_slices.
  unfold tb_index. rewrite index_from_length.
  set (n := Z.of_nat (length (flatten t))) in *.
  assert (Hn : 0 <= n) by (unfold n; lia).
  pose proof (key_positions_ok k n) as Hok.
  destruct k as [|i|s|l|m].
  - (* whole frame *)
    destruct (slice_blocks_all_from t Hwf []) as (t' & Et & Ef). cbn [app length] in Et.
    unfold slice_blocks, all_block_slices. rewrite Et. cbn [res_map key_positions]. rewrite Ef.
    unfold n. rewrite Nat2Z.id, take_positions_all. reflexivity.
  - destruct (key_positions (CInt i) n) as [ps|e]; [|reflexivity].
    destruct (Hok ps Hn Hk eq_refl) as [Hnd Hr].
    destruct (select_via_positions t ps Hwf Hnd Hr) as (pairs & t' & E1 & E2 & E3).
    rewrite E1, E2, E3. reflexivity.
  - destruct (key_positions (CSlice s) n) as [ps|e]; [|reflexivity].
    destruct (Hok ps Hn Hk eq_refl) as [Hnd Hr].
    destruct (select_via_positions t ps Hwf Hnd Hr) as (pairs & t' & E1 & E2 & E3).
    rewrite E1, E2, E3. reflexivity.
  - destruct (key_positions (CList l) n) as [ps|e]; [|reflexivity].
    destruct (Hok ps Hn Hk eq_refl) as [Hnd Hr].
    destruct (select_via_positions t ps Hwf Hnd Hr) as (pairs & t' & E1 & E2 & E3).
    rewrite E1, E2, E3. reflexivity.
  - destruct (key_positions (CMask m) n) as [ps|e]; [|reflexivity].
    destruct (Hok ps Hn Hk eq_refl) as [Hnd Hr].
    destruct (select_via_positions t ps Hwf Hnd Hr) as (pairs & t' & E1 & E2 & E3).
    rewrite E1, E2, E3. reflexivity.
Qed.

(* layout independence: two layouts of the same columns answer every column key alike *)
Corollary select_columns_layout_independent (t1 t2 : tb) (k : ckey) : wf_tb t1 -> wf_tb t2 ->
  flatten t1 = flatten t2 -> key_nodup k (Z.of_nat (length (flatten t1))) ->
  res_map flatten (M_select_columns t1 k) = res_map flatten (M_select_columns t2 k).
Proof.
  intros H1 H2 E Hk. rewrite (select_columns_refines t1 k H1 Hk).
  rewrite E in Hk. rewrite (select_columns_refines t2 k H2 Hk). now rewrite E.
Qed.

End Select.
