(* C06 -- TypeBlocks.resize_blocks is independent of the block layout: for EVERY partition of the
   columns into 1-D / 2-D blocks, the re-indexed blocks flatten to a function of the flattened columns
   alone (unconditionally since fix 658b4ce of the both-axes branch). *)
Require Import SF.Prelude SF.Dtype SF.LabelAlign SF.FrameAlign.

(* ---- generic list and dictionary facts (outside any section) ---- *)
Lemma nth_map_default (X Y : Type) (g : X -> Y) (l : list X) s dx dy : (s < length l)%nat ->
  nth s (map g l) dy = g (nth s l dx).
Proof.
  revert s. induction l as [|x r IH]; intros s H; cbn in H; [lia|].
  destruct s; cbn; [reflexivity|]. apply IH. lia.
Qed.

(* ---- the dictionary ---- *)
Lemma dict_fold_In j l acc s :
  fold_left (dict_step j) l acc = Some s -> acc = Some s \/ In s (map snd l).
Proof.
  revert acc. induction l as [|p r IH]; intros acc H; cbn in *; [left; exact H|].
  apply IH in H. destruct H as [H|H]; [|right; right; exact H].
  unfold dict_step in H. destruct (Nat.eqb j (fst p)); [|left; exact H].
  injection H as <-. right. left. reflexivity.
Qed.

Lemma dict_get_In j dst src s : dict_get j dst src = Some s -> In s src.
Proof.
  unfold dict_get. intros H. apply dict_fold_In in H. destruct H as [H|H]; [discriminate|].
  apply in_map_iff in H as [[a b] [E Hin]]. cbn in E. subst b. eapply in_combine_r. exact Hin.
Qed.

Lemma dict_fold_seq j k l acc :
  fold_left (dict_step j) (combine (seq k (length l)) l) acc =
  if ((k <=? j) && (j <? k + length l))%nat then Some (nth (j - k) l 0%nat) else acc.
Proof.
  revert k acc. induction l as [|x r IH]; intros k acc; cbn [length seq combine fold_left].
  - replace ((k <=? j) && (j <? k + 0))%nat with false; [reflexivity|].
    symmetry. apply andb_false_iff. destruct (k <=? j)%nat eqn:E; [right|left; reflexivity].
    apply Nat.leb_le in E. apply Nat.ltb_ge. lia.
  - rewrite IH. unfold dict_step. cbn [fst snd].
    destruct (Nat.eqb j k) eqn:Ejk.
    + apply Nat.eqb_eq in Ejk. subst k.
      replace ((S j <=? j) && (j <? S j + length r))%nat with false
        by (symmetry; apply andb_false_iff; left; apply Nat.leb_gt; lia).
      replace ((j <=? j) && (j <? j + S (length r)))%nat with true
        by (symmetry; apply andb_true_iff; split; [apply Nat.leb_le | apply Nat.ltb_lt]; lia).
      rewrite Nat.sub_diag. reflexivity.
    + apply Nat.eqb_neq in Ejk.
      destruct ((S k <=? j) && (j <? S k + length r))%nat eqn:E1.
      * apply andb_true_iff in E1 as [A1 A2]. apply Nat.leb_le in A1. apply Nat.ltb_lt in A2.
        replace ((k <=? j) && (j <? k + S (length r)))%nat with true
          by (symmetry; apply andb_true_iff; split; [apply Nat.leb_le | apply Nat.ltb_lt]; lia).
        replace (j - k)%nat with (S (j - S k)) by lia. reflexivity.
      * replace ((k <=? j) && (j <? k + S (length r)))%nat with false; [reflexivity|].
        symmetry. apply andb_false_iff. apply andb_false_iff in E1 as [A|A].
        -- apply Nat.leb_gt in A. left. apply Nat.leb_gt. lia.
        -- apply Nat.ltb_ge in A. right. apply Nat.ltb_ge. lia.
Qed.

Lemma dict_get_seq j src : (j < length src)%nat ->
  dict_get j (seq 0 (length src)) src = Some (nth j src 0%nat).
Proof.
  intros H. unfold dict_get. rewrite dict_fold_seq.
  replace ((0 <=? j) && (j <? 0 + length src))%nat with true
    by (symmetry; apply andb_true_iff; split; [apply Nat.leb_le | apply Nat.ltb_lt]; lia).
  rewrite Nat.sub_0_r. reflexivity.
Qed.

(* ---- small list facts ---- *)
Lemma map_seq_nth (W : Type) (F : nat -> W) (l : list nat) :
  map (fun j => F (nth j l 0%nat)) (seq 0 (length l)) = map F l.
Proof.
  rewrite <- (map_map (fun j => nth j l 0%nat) F). f_equal.
  induction l as [|x r IH]; [reflexivity|]. cbn [length seq map nth]. f_equal.
  rewrite <- seq_shift, map_map. exact IH.
Qed.

Lemma map_const_seq (W : Type) (x : W) n k : map (fun _ => x) (seq k n) = repeat x n.
Proof. revert k. induction n; intros k; cbn; [reflexivity|]. f_equal. apply IHn. Qed.

Lemma map_repeat' (X Y : Type) (g : X -> Y) x n : map g (repeat x n) = repeat (g x) n.
Proof. induction n; cbn; congruence. Qed.


Section Facts.
Variable V : Type.
Variable fill : V.
Variable castf : dtype -> V -> V.
Variable fdt : dtype -> dtype.
Variable fill_dtype : dtype.

Notation blk := (blk V).
Notation col := (col V).
Notation flatten := (flatten V).
Notation blk_columns := (blk_columns V).
Notation directory := (directory V).
Notation dir_from := (dir_from V).
Notation column_at := (column_at V fill_dtype).
Notation dflt_col := (dflt_col V fill_dtype).
Notation M_resize := (M_resize_blocks V fill castf fdt fill_dtype).
Notation S_resize := (S_resize_cols V fill castf fdt fill_dtype).
Notation S_col_rows := (S_col_rows V fill castf fdt).
Notation wf_blk := (wf_blk V).

Definition width (b : blk) : nat := length (k_cols V b).

(* what the index correspondences built by from_correspondence satisfy *)
Definition wf_ic (c : icorr) : Prop :=
  (ic_has_common c = false -> ic_dst c = [] /\ ic_src c = []) /\
  (ic_has_common c = true -> ic_src c <> []) /\
  (ic_is_subset c = true -> ic_has_common c = true /\ ic_dst c = seq 0 (ic_size c) /\ length (ic_src c) = ic_size c) /\
  NoDup (ic_src c).

(* ---- the directory finds the flattened column ---- *)
Fixpoint locate (t : list blk) (s : nat) : nat * nat :=
  match t with
  | [] => (0, 0)%nat
  | b :: r => if (s <? width b)%nat then (0%nat, s)
              else let p := locate r (s - width b) in (S (fst p), snd p)
  end.

Lemma flatten_cons b r : flatten (b :: r) = blk_columns b ++ flatten r.
Proof. reflexivity. Qed.

Lemma blk_columns_length b : length (blk_columns b) = width b.
Proof. unfold blk_columns, width. apply map_length. Qed.

Lemma nth_dir_from k t s d : (s < length (flatten t))%nat ->
  nth s (dir_from k t) d = ((k + fst (locate t s))%nat, snd (locate t s)).
Proof.
  revert k s. induction t as [|b r IH]; intros k s Hs; [cbn in Hs; lia|].
  rewrite flatten_cons, app_length, blk_columns_length in Hs. cbn [dir_from locate]. fold (width b).
  destruct (s <? width b)%nat eqn:E.
  - apply Nat.ltb_lt in E. rewrite app_nth1 by (rewrite map_length, seq_length; exact E).
    rewrite (nth_map_default nat (nat * nat) (pair k) (seq 0 (width b)) s 0%nat d) by (rewrite seq_length; exact E).
    rewrite seq_nth by exact E. cbn. f_equal. lia.
  - apply Nat.ltb_ge in E. rewrite app_nth2 by (rewrite map_length, seq_length; exact E).
    rewrite map_length, seq_length. rewrite IH by lia. cbn. f_equal. lia.
Qed.

Lemma nth_blk_columns b s : (s < width b)%nat ->
  nth s (blk_columns b) dflt_col = (k_dtype V b, nth s (k_cols V b) []).
Proof.
  intros H. unfold FrameAlign.blk_columns. apply nth_map_default. exact H.
Qed.

Lemma column_at_locate t s : (s < length (flatten t))%nat ->
  column_at t (locate t s) = nth s (flatten t) dflt_col.
Proof.
  revert s. induction t as [|b r IH]; intros s Hs; [cbn in Hs; lia|].
  rewrite flatten_cons in *. rewrite app_length, blk_columns_length in Hs. cbn [locate].
  destruct (s <? width b)%nat eqn:E.
  - apply Nat.ltb_lt in E. rewrite app_nth1 by (rewrite blk_columns_length; exact E).
    rewrite nth_blk_columns by exact E. reflexivity.
  - apply Nat.ltb_ge in E. rewrite app_nth2 by (rewrite blk_columns_length; exact E).
    rewrite blk_columns_length. rewrite <- IH by lia.
    unfold column_at. cbn. reflexivity.
Qed.

Lemma column_at_directory t s : (s < length (flatten t))%nat ->
  column_at t (nth s (directory t) (0, 0)%nat) = nth s (flatten t) dflt_col.
Proof.
  intros Hs. unfold directory. rewrite nth_dir_from by exact Hs. cbn [Nat.add].
  rewrite <- column_at_locate by exact Hs. destruct (locate t s); reflexivity.
Qed.

Lemma flat_map_single (X : Type) (g : X -> blk) (h : X -> col) (l : list X) :
  (forall x, In x l -> blk_columns (g x) = [h x]) ->
  flatten (map g l) = map h l.
Proof.
  induction l as [|x r IH]; intros H; [reflexivity|].
  cbn [map]. rewrite flatten_cons, (H x) by (left; reflexivity).
  rewrite IH by (intros y Hy; apply H; right; exact Hy). reflexivity.
Qed.

Lemma res_all_ok (X Y : Type) (g : X -> res Y) (h : X -> Y) (l : list X) :
  (forall x, In x l -> g x = Ok (h x)) -> res_all (map g l) = Ok (map h l).
Proof.
  induction l as [|x r IH]; intros H; [reflexivity|].
  cbn [map res_all]. rewrite (H x) by (left; reflexivity).
  rewrite IH by (intros y Hy; apply H; right; exact Hy). reflexivity.
Qed.

Lemma flatten_single b : flatten [b] = blk_columns b.
Proof. unfold FrameAlign.flatten. cbn. apply app_nil_r. Qed.

(* ---- MAIN ---- *)
Theorem resize_blocks_layout_independent (t : list blk) nrows ic cc :
  Forall wf_blk t ->
  match cc with Some c => wf_ic c /\ Forall (fun s => (s < length (flatten t))%nat) (ic_src c) | None => True end ->
  exists t', M_resize t nrows ic cc = Ok t' /\ flatten t' = S_resize (flatten t) nrows ic cc.
Proof.
  intros Hwf Hcc. unfold M_resize_blocks, S_resize_cols.
  destruct cc as [c|]; destruct ic as [i|].
  - (* both axes *)
    destruct Hcc as [[Hnc [Hne [Hsub Hnd]]] Hrange].
    destruct (negb (ic_has_common c) && negb (ic_has_common i)) eqn:Eboth.
    { apply andb_true_iff in Eboth as [E1 E2]. apply negb_true_iff in E1.
      destruct (Hnc E1) as [Hd Hs]. eexists. split; [reflexivity|].
      rewrite flatten_single. unfold FrameAlign.blk_columns. cbn [k_dtype k_cols].
      rewrite map_repeat'. rewrite Hd, Hs. unfold dict_get. cbn [combine fold_left rows_out].
      symmetry. apply map_const_seq. }
    destruct (is_single V t && ic_is_subset i && ic_is_subset c) eqn:Euni.
    { apply andb_true_iff in Euni as [Euni Esc]. apply andb_true_iff in Euni as [Esingle Esi].
      destruct (Hsub Esc) as [Hhc [Hdst Hlen]].
      destruct t as [|b [|b2 r]]; try discriminate.
      - (* no block: impossible, some source column exists *)
        exfalso. destruct (ic_src c) as [|s r] eqn:Es; [apply Hne; [exact Hhc | reflexivity]|].
        inversion Hrange; subst. cbn in H1. lia.
      - inversion Hwf as [|? ? [Hw1 Hw2] _]; subst.
        rewrite flatten_single in *. rewrite blk_columns_length in Hrange.
        rewrite Hdst, <- Hlen.
        destruct (k_1d V b) eqn:E1d.
        + (* 1-D block: its single column, rows taken *)
          eexists. split; [reflexivity|]. rewrite flatten_single.
          specialize (Hw2 eq_refl). fold (width b) in Hw2.
          assert (Hsrc : ic_src c = [0%nat]).
          { destruct (ic_src c) as [|s [|s2 r]] eqn:Es.
            - exfalso. apply Hne; [exact Hhc | reflexivity].
            - inversion Hrange; subst. f_equal. lia.
            - exfalso. inversion Hrange as [|? ? A1 A2]; subst. inversion A2; subst.
              inversion Hnd as [|? ? N1 N2]; subst. apply N1. left. lia. }
          rewrite Hsrc. cbn [length seq map].
          change (dict_get 0 [0%nat] [0%nat]) with (Some 0%nat). cbn [nth].
          unfold FrameAlign.blk_columns at 1. cbn [k_dtype k_cols].
          unfold width in Hw2. destruct (k_cols V b) as [|c0 [|c1 cr]] eqn:Ec; cbn in Hw2; try discriminate.
          unfold FrameAlign.blk_columns. rewrite Ec. cbn [map nth].
          unfold FrameAlign.S_col_rows, rows_dtype, rows_vals, M_reindex_values. cbn [fst snd].
          rewrite Esi. reflexivity.
        + eexists. split; [reflexivity|]. rewrite flatten_single.
          unfold FrameAlign.blk_columns at 1. cbn [k_dtype k_cols].
          unfold take_cols. rewrite !map_map.
          rewrite <- (map_seq_nth col _ (ic_src c)).
          apply map_ext_in. intros j Hj. apply in_seq in Hj.
          rewrite dict_get_seq by lia.
          assert (Hs : (nth j (ic_src c) 0 < width b)%nat).
          { apply (proj1 (Forall_forall _ _) Hrange). apply nth_In. lia. }
          rewrite nth_blk_columns by exact Hs.
          unfold FrameAlign.S_col_rows, rows_dtype, rows_vals, M_reindex_values. cbn [fst snd].
          rewrite Esi. reflexivity. }
    eexists. split; [reflexivity|].
    apply flat_map_single. intros j _.
    destruct (ic_has_common c) eqn:Ehc.
    + destruct (dict_get j (ic_dst c) (ic_src c)) as [s|] eqn:Ed; [|reflexivity].
      assert (Hs : (s < length (flatten t))%nat)
        by (apply (proj1 (Forall_forall _ _) Hrange); eapply dict_get_In; exact Ed).
      pose proof (column_at_directory t s Hs) as Hcol. unfold FrameAlign.column_at in Hcol.
      rewrite <- Hcol. reflexivity.
    + destruct (Hnc eq_refl) as [Hd Hs]. rewrite Hd, Hs. reflexivity.
  - (* columns only *)
    destruct Hcc as [[Hnc [Hne [Hsub Hnd]]] Hrange]. cbn [rows_out].
    destruct (negb (ic_has_common c)) eqn:Ehc.
    { apply negb_true_iff in Ehc. destruct (Hnc Ehc) as [Hd Hs]. eexists. split; [reflexivity|].
      rewrite flatten_single. unfold FrameAlign.blk_columns. cbn [k_dtype k_cols].
      rewrite map_repeat'. rewrite Hd, Hs. unfold dict_get. cbn [combine fold_left].
      symmetry. apply map_const_seq. }
    apply negb_false_iff in Ehc.
    destruct (is_single V t && ic_is_subset c) eqn:Euni.
    { apply andb_true_iff in Euni as [Esingle Esc].
      destruct (Hsub Esc) as [_ [Hdst Hlen]].
      destruct t as [|b [|b2 r]]; try discriminate.
      - exfalso. destruct (ic_src c) as [|s r] eqn:Es; [apply Hne; [exact Ehc | reflexivity]|].
        inversion Hrange; subst. cbn in H1. lia.
      - inversion Hwf as [|? ? [Hw1 Hw2] _]; subst.
        rewrite flatten_single in *. rewrite blk_columns_length in Hrange.
        rewrite Hdst, <- Hlen.
        destruct (k_1d V b) eqn:E1d.
        + eexists. split; [reflexivity|]. rewrite flatten_single.
          specialize (Hw2 eq_refl). fold (width b) in Hw2.
          assert (Hsrc : ic_src c = [0%nat]).
          { destruct (ic_src c) as [|s [|s2 r]] eqn:Es.
            - exfalso. apply Hne; [exact Ehc | reflexivity].
            - inversion Hrange; subst. f_equal. lia.
            - exfalso. inversion Hrange as [|? ? A1 A2]; subst. inversion A2; subst.
              inversion Hnd as [|? ? N1 N2]; subst. apply N1. left. lia. }
          rewrite Hsrc. cbn [length seq map].
          change (dict_get 0 [0%nat] [0%nat]) with (Some 0%nat). cbn [nth].
          unfold width in Hw2. destruct (k_cols V b) as [|c0 [|c1 cr]] eqn:Ec; cbn in Hw2; try discriminate.
          unfold FrameAlign.blk_columns. rewrite Ec. reflexivity.
        + eexists. split; [reflexivity|]. rewrite flatten_single.
          unfold FrameAlign.blk_columns at 1. cbn [k_dtype k_cols].
          unfold take_cols. rewrite !map_map.
          rewrite <- (map_seq_nth col _ (ic_src c)).
          apply map_ext_in. intros j Hj. apply in_seq in Hj.
          rewrite dict_get_seq by lia.
          assert (Hs : (nth j (ic_src c) 0 < width b)%nat).
          { apply (proj1 (Forall_forall _ _) Hrange). apply nth_In. lia. }
          rewrite nth_blk_columns by exact Hs. reflexivity. }
    eexists. split; [reflexivity|].
    apply flat_map_single. intros j _.
    destruct (dict_get j (ic_dst c) (ic_src c)) as [s|] eqn:Ed; [|reflexivity].
    assert (Hs : (s < length (flatten t))%nat)
      by (apply (proj1 (Forall_forall _ _) Hrange); eapply dict_get_In; exact Ed).
    rewrite <- (column_at_directory t s Hs).
    destruct (column_at t (nth s (directory t) (0%nat, 0%nat))); reflexivity.
  - (* index only *)
    eexists. split; [reflexivity|].
    clear. induction t as [|b r IH]; [reflexivity|].
    cbn [map]. rewrite !flatten_cons, map_app, IH. f_equal.
    unfold FrameAlign.blk_columns. cbn [k_dtype k_cols]. rewrite !map_map. reflexivity.
  - (* neither *)
    eexists. split; [reflexivity|]. symmetry. apply map_id.
Qed.

End Facts.
