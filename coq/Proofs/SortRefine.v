(* C12 -- the order on values is a total preorder; what the specified order satisfies; the NumPy
   oracle models meet the specification; the implementation model of static-frame's sort logic
   (parameterised by what the source says, Gen/Gen_c12.v) refines the specification. *)
Require Import SF.Prelude SF.Dtype SF.Value SF.SortCore SF.SortModel Proofs.SortStable Proofs.SortLex.

(* ------------------------------------------------------------------ val_leb is a total preorder *)
Lemma list_leb_total : totalb list_leb.
Proof.
  intro a. induction a as [|x a IH]; intros [|y b]; cbn; auto.
  destruct (IH b) as [H|H]; rewrite H;
    destruct (Z.ltb_spec x y), (Z.ltb_spec y x), (Z.eqb_spec x y), (Z.eqb_spec y x); cbn; auto; lia.
Qed.

Lemma list_leb_trans : transb list_leb.
Proof.
  intro a. induction a as [|x a IH]; intros [|y b] [|z c]; cbn; intros H G; try reflexivity; try discriminate.
  apply orb_true_iff in H. apply orb_true_iff in G. apply orb_true_iff.
  rewrite andb_true_iff in *. rewrite Z.ltb_lt, Z.eqb_eq in *.
  destruct H as [H|[H H']]; destruct G as [G|[G G']]; try (left; lia).
  right. split; [lia|]. eapply IH; eassumption.
Qed.

Lemma val_num_pos : forall v, 0 < snd (val_num v).
Proof. destruct v; cbn; lia. Qed.

Lemma rank_leb_preorder : preorderb rank_leb.
Proof.
  split.
  - intros x y. unfold rank_leb. destruct (Z.leb_spec (val_rank x) (val_rank y)); [left; reflexivity|right].
    apply Z.leb_le. lia.
  - intros x y z. unfold rank_leb. rewrite !Z.leb_le. lia.
Qed.

Lemma num_leb_preorder : preorderb num_leb.
Proof.
  split.
  - intros x y. unfold num_leb. rewrite !Z.leb_le. lia.
  - intros x y z. unfold num_leb. rewrite !Z.leb_le.
    pose proof (val_num_pos x). pose proof (val_num_pos y). pose proof (val_num_pos z).
    destruct (val_num x) as [n1 d1], (val_num y) as [n2 d2], (val_num z) as [n3 d3]. cbn in *.
    intros L1 L2.
    assert (A : n1 * d3 * d2 <= n3 * d1 * d2).
    { apply Z.le_trans with (n2 * d1 * d3).
      - replace (n1 * d3 * d2) with (n1 * d2 * d3) by ring. apply Z.mul_le_mono_nonneg_r; lia.
      - replace (n2 * d1 * d3) with (n2 * d3 * d1) by ring.
        replace (n3 * d1 * d2) with (n3 * d2 * d1) by ring. apply Z.mul_le_mono_nonneg_r; lia. }
    apply Z.mul_le_mono_pos_r in A; lia.
Qed.

Lemma str_leb_preorder : preorderb str_leb.
Proof.
  split.
  - intros x y. apply list_leb_total.
  - intros x y z. apply list_leb_trans.
Qed.

Theorem val_leb_preorder : preorderb val_leb.
Proof.
  unfold val_leb. apply lexs_preorder.
  constructor; [apply rank_leb_preorder|].
  constructor; [apply num_leb_preorder|].
  constructor; [apply str_leb_preorder|constructor].
Qed.

Lemma key_leb_preorder : forall k, preorderb (key_leb k).
Proof.
  intro k. destruct val_leb_preorder as [T R]. split.
  - intros i j. apply T.
  - intros i j l. apply R.
Qed.

Definition keys_le (keys : list (list val)) : nat -> nat -> bool := lexs (map key_leb keys).

Lemma keys_le_preorder : forall keys, preorderb (keys_le keys).
Proof.
  intro keys. apply lexs_preorder. apply Forall_forall. intros le Hle.
  apply in_map_iff in Hle as (k & <- & _). apply key_leb_preorder.
Qed.

(* ------------------------------------------------------------------ the specified order *)
Lemma seq_lt_sorted : forall n a, StronglySorted lt (seq a n).
Proof.
  induction n as [|n IH]; intro a; cbn; constructor; [apply IH|].
  apply Forall_forall. intros x Hx. apply in_seq in Hx. lia.
Qed.

Lemma split_in_seq_lt : forall n m1 i m2 j m3, seq 0 n = m1 ++ i :: m2 ++ j :: m3 -> (i < j)%nat.
Proof.
  intros n m1 i m2 j m3 E. pose proof (seq_lt_sorted n 0) as S. rewrite E in S.
  apply StronglySorted_mid in S. rewrite Forall_forall in S. apply S.
  apply in_or_app. right. left. reflexivity.
Qed.

Section Order.
  Variable keys : list (list val).
  Variable n : nat.
  Let P := keys_le_preorder keys.

  Theorem S_order_perm : forall asc, Permutation (S_order keys n asc) (seq 0 n).
  Proof.
    destruct P as [T R]. intros [|]; unfold S_order.
    - apply (S_sort_perm (keys_le keys)).
    - rewrite <- Permutation_rev. apply (S_sort_perm (keys_le keys)).
  Qed.

  Theorem S_order_sorted : StronglySorted (fun i j => keys_le keys i j = true) (S_order keys n true).
  Proof. destruct P as [T R]. apply (S_sort_sorted (keys_le keys) T R). Qed.

  Theorem S_order_desc_sorted : StronglySorted (fun i j => keys_le keys j i = true) (S_order keys n false).
  Proof. destruct P as [T R]. apply (rev_sorted_desc (keys_le keys) T R). Qed.

  Theorem S_order_stable : forall x,
    filter (eqv (keys_le keys) x) (S_order keys n true) = filter (eqv (keys_le keys) x) (seq 0 n).
  Proof. destruct P as [T R]. intro x. apply (S_sort_stable (keys_le keys) R). Qed.

  (* equal keys: the earlier input row comes first *)
  Theorem S_order_ties : forall l1 i l2 j l3,
    S_order keys n true = l1 ++ i :: l2 ++ j :: l3 -> eqv (keys_le keys) i j = true -> (i < j)%nat.
  Proof.
    destruct P as [T R]. intros l1 i l2 j l3 E Hij.
    destruct (S_sort_ties_keep_order (keys_le keys) T R _ _ _ _ _ _ E Hij) as (m1 & m2 & m3 & Es).
    eapply split_in_seq_lt. exact Es.
  Qed.

  (* descending: equal keys in reverse input order (the price of "exactly the reverse") *)
  Theorem S_order_desc_ties : forall l1 i l2 j l3,
    S_order keys n false = l1 ++ i :: l2 ++ j :: l3 -> eqv (keys_le keys) i j = true -> (j < i)%nat.
  Proof.
    intros l1 i l2 j l3 E Hij. unfold S_order in E.
    apply (f_equal (@rev nat)) in E. rewrite rev_involutive in E.
    assert (R : rev (l1 ++ i :: l2 ++ j :: l3) = rev l3 ++ j :: rev l2 ++ i :: rev l1).
    { rewrite rev_app_distr. cbn [rev]. rewrite rev_app_distr. cbn [rev].
      rewrite <- !app_assoc. cbn [app]. reflexivity. }
    rewrite R in E.
    apply (S_order_ties (rev l3) j (rev l2) i (rev l1)).
    - exact E.
    - unfold eqv in *. rewrite andb_comm. exact Hij.
  Qed.

  (* the exact arrangement is determined: any sorted arrangement of 0..n-1 keeping ties in input order is it *)
  Theorem S_order_unique : forall o,
    StronglySorted (fun i j => keys_le keys i j = true) o ->
    (forall x, filter (eqv (keys_le keys) x) o = filter (eqv (keys_le keys) x) (seq 0 n)) ->
    o = S_order keys n true.
  Proof. destruct P as [T R]. intros o Hs Hf. apply (stable_sort_unique (keys_le keys) T R); assumption. Qed.

  Lemma S_order_lt : forall asc, Forall (fun i => (i < n)%nat) (S_order keys n asc).
  Proof.
    intro asc. apply Forall_forall. intros i Hi.
    apply (Permutation_in _ (S_order_perm asc)) in Hi. apply in_seq in Hi. lia.
  Qed.

  Lemma S_order_length : forall asc, length (S_order keys n asc) = n.
  Proof. intro asc. rewrite (Permutation_length (S_order_perm asc)). apply seq_length. Qed.
End Order.

(* ------------------------------------------------------------------ whole rows travel *)
Lemma map_nth_seq {X} (l : list X) (d : X) : map (fun i => nth i l d) (seq 0 (length l)) = l.
Proof.
  induction l as [|a l IH]; [reflexivity|]. cbn [length seq map nth]. f_equal.
  rewrite <- seq_shift, map_map. exact IH.
Qed.

Lemma nth_take {X} (d : X) (order : list nat) (l : list X) (i : nat) :
  (i < length order)%nat -> nth i (take d order l) d = nth (nth i order O) l d.
Proof.
  intro H. unfold take.
  rewrite (nth_indep _ d (nth O l d)) by (rewrite map_length; exact H).
  apply (map_nth (fun j => nth j l d)).
Qed.

Lemma via_order {Y} (g : nat -> Y) (h : nat -> Y) (order : list nat) :
  (forall i, (i < length order)%nat -> h i = g (nth i order O)) ->
  map h (seq 0 (length order)) = map g order.
Proof.
  intro H. rewrite <- (map_nth_seq order O) at 2. rewrite map_map.
  apply map_ext_in. intros i Hi. apply in_seq in Hi. apply H. lia.
Qed.

Theorem rows_travel_whole : forall (f : oframe) (order : list nat),
  frame_rows (reorder_rows order f) = map (frame_row f) order.
Proof.
  intros f order. unfold frame_rows. cbn [reorder_rows of_index].
  unfold take at 1. rewrite map_length. apply via_order. intros i Hi.
  unfold frame_row. cbn [reorder_rows of_index of_cols]. f_equal.
  - apply nth_take. exact Hi.
  - rewrite map_map. apply map_ext. intro c. cbn [snd]. apply nth_take. exact Hi.
Qed.

Theorem cols_travel_whole : forall (f : oframe) (order : list nat),
  frame_cols (reorder_cols order f) = map (frame_col f) order.
Proof.
  intros f order. unfold frame_cols. cbn [reorder_cols of_columns].
  unfold take at 1. rewrite map_length. apply via_order. intros i Hi.
  unfold frame_col. cbn [reorder_cols of_columns of_cols]. f_equal; apply nth_take; exact Hi.
Qed.

Theorem series_items_travel_whole : forall (s : oseries) (order : list nat),
  series_items (reorder_series order s) = map (series_item s) order.
Proof.
  intros s order. unfold series_items. cbn [reorder_series os_index].
  unfold take at 1. rewrite map_length. apply via_order. intros i Hi.
  unfold series_item. cbn [reorder_series os_index os_values]. f_equal; apply nth_take; exact Hi.
Qed.

(* the sorted Frame: same (label,row) associations; columns, dtypes and name untouched *)
Theorem S_frame_sort_rows_spec : forall f keys asc,
  let r := S_frame_sort 1 f keys asc in
  Permutation (frame_rows r) (frame_rows f) /\
  frame_rows r = map (frame_row f) (S_order keys (length (of_index f)) asc) /\
  of_columns r = of_columns f /\ map fst (of_cols r) = map fst (of_cols f) /\ of_name r = of_name f.
Proof.
  intros f keys asc r. subst r. unfold S_frame_sort. change (1 =? 1) with true. cbv iota. rewrite rows_travel_whole.
  repeat split.
  - unfold frame_rows. apply Permutation_map. apply S_order_perm.
  - cbn. rewrite map_map. reflexivity.
Qed.

Theorem S_frame_sort_cols_spec : forall f keys asc,
  let r := S_frame_sort 0 f keys asc in
  Permutation (frame_cols r) (frame_cols f) /\
  frame_cols r = map (frame_col f) (S_order keys (length (of_columns f)) asc) /\
  of_index r = of_index f /\ of_name r = of_name f.
Proof.
  intros f keys asc r. subst r. unfold S_frame_sort. change (0 =? 1) with false. cbv iota. rewrite cols_travel_whole.
  repeat split. unfold frame_cols. apply Permutation_map. apply S_order_perm.
Qed.

Theorem S_series_sort_spec : forall s keys asc,
  let r := S_series_sort s keys asc in
  Permutation (series_items r) (series_items s) /\
  series_items r = map (series_item s) (S_order keys (length (os_index s)) asc) /\
  os_dtype r = os_dtype s /\ os_name r = os_name s.
Proof.
  intros s keys asc r. subst r. unfold S_series_sort. rewrite series_items_travel_whole.
  repeat split. unfold series_items. apply Permutation_map. apply S_order_perm.
Qed.

(* ------------------------------------------------------------------ NumPy oracle models meet the specification *)
Lemma S_order_single : forall v n, S_sort (key_leb v) (seq 0 n) = S_order [v] n true.
Proof.
  intros v n. unfold S_order. cbn [map].
  rewrite <- (lsd_sorts_is_lex [key_leb v]); [reflexivity|].
  constructor; [apply key_leb_preorder|constructor].
Qed.

Lemma np_argsort_spec : forall v, np_argsort v = S_order [v] (length v) true.
Proof.
  intro v. unfold np_argsort. destruct (key_leb_preorder v) as [T R].
  rewrite (M_msort_is_S_sort (key_leb v) T R). apply S_order_single.
Qed.

Lemma fold_msort : forall keys l,
  fold_left (fun perm k => M_msort (key_leb k) perm) keys l =
  fold_left (fun perm le => S_sort le perm) (map key_leb keys) l.
Proof.
  induction keys as [|k keys IH]; intro l; cbn; [reflexivity|].
  destruct (key_leb_preorder k) as [T R]. rewrite (M_msort_is_S_sort (key_leb k) T R). apply IH.
Qed.

Lemma np_lexsort_spec : forall keys n, keys <> [] -> Forall (fun k => length k = n) keys ->
  np_lexsort keys = S_order (rev keys) n true.
Proof.
  intros keys n Hne Hl. unfold np_lexsort, S_order.
  assert (E : length (hd [] keys) = n).
  { destruct keys as [|k ks]; [congruence|]. inversion Hl; subst. reflexivity. }
  rewrite E, fold_msort, map_rev. apply fold_sorts_is_lex.
  apply Forall_forall. intros le Hle. apply in_map_iff in Hle as (k & <- & _). apply key_leb_preorder.
Qed.

(* ------------------------------------------------------------------ refinement: the order *)
Lemma finish_S_order : forall keys n asc, finish true asc (S_order keys n true) = S_order keys n asc.
Proof. intros keys n [|]; reflexivity. Qed.

Lemma forallb_lengths : forall n (vs : list (list val)),
  forallb (fun v => (length v =? n)%nat) vs = true -> Forall (fun k => length k = n) vs.
Proof.
  intros n vs H. apply Forall_forall. intros v Hv. rewrite forallb_forall in H.
  apply Nat.eqb_eq. apply H. exact Hv.
Qed.

Lemma lexsort_down : forall vs n, vs <> [] -> forallb (fun v => (length v =? n)%nat) vs = true ->
  np_lexsort (dir_apply RangeDown vs) = S_order vs n true.
Proof.
  intros vs n Hne Hl. cbn [dir_apply]. rewrite (np_lexsort_spec (rev vs) n).
  - rewrite rev_involutive. reflexivity.
  - intro E. apply (f_equal (@rev _)) in E. rewrite rev_involutive in E. cbn in E. congruence.
  - apply Forall_rev. apply forallb_lengths. exact Hl.
Qed.

(* container_util.sort_index_for_order, with the directions the source states *)
Theorem sifo_refines : forall n c checked asc, sifo_dom n c = true ->
  M_sifo good_params n c checked asc = Ok (S_order (cfs_keys c) n asc).
Proof.
  intros n c checked asc H. unfold sifo_dom, vecs_len_ok in H.
  apply andb_true_iff in H as [H Hc]. apply andb_true_iff in H as [Hn Hl].
  unfold M_sifo. rewrite Hn. cbn [negb]. rewrite !andb_false_r. cbn [good_params p_sifo_thr p_sifo_desc p_sifo_arr p_sifo_idx].
  destruct c as [v|m vs|v|m vs|v|m vs]; try discriminate Hc; cbn [cfs_keys cfs_len] in *.
  - cbn. rewrite np_argsort_spec. apply Nat.eqb_eq in Hn. rewrite Hn. rewrite finish_S_order. reflexivity.
  - apply Nat.leb_le in Hc.
    assert (G : (Z.of_nat (length vs) >? 1) = true) by (apply Z.gtb_lt; lia). rewrite G.
    rewrite (lexsort_down vs n); [rewrite finish_S_order; reflexivity| |exact Hl].
    intro E. rewrite E in Hc. cbn in Hc. lia.
  - cbn. rewrite np_argsort_spec. apply Nat.eqb_eq in Hn. rewrite Hn. rewrite finish_S_order. reflexivity.
  - apply Nat.leb_le in Hc.
    assert (G : (Z.of_nat (length vs) >? 1) = true) by (apply Z.gtb_lt; lia). rewrite G.
    rewrite (lexsort_down vs n); [rewrite finish_S_order; reflexivity| |exact Hl].
    intro E. rewrite E in Hc. cbn in Hc. lia.
Qed.

Lemma index_cfs_dom : forall depth labels, sifo_dom (length labels) (index_cfs depth labels) = true.
Proof.
  intros depth labels. unfold index_cfs, sifo_dom, vecs_len_ok.
  destruct (depth <=? 1)%nat eqn:E; cbn [cfs_len cfs_keys forallb].
  - rewrite Nat.eqb_refl. reflexivity.
  - rewrite Nat.eqb_refl. cbn [andb]. apply andb_true_iff. split.
    + apply forallb_forall. intros v Hv. apply in_map_iff in Hv as (d & <- & _).
      unfold depth_vec. rewrite map_length. apply Nat.eqb_refl.
    + rewrite map_length, seq_length. apply Nat.leb_gt in E. apply Nat.leb_le. lia.
Qed.

Lemma index_cfs_keys : forall depth labels, cfs_keys (index_cfs depth labels) = index_keys depth labels.
Proof. intros. unfold index_cfs, index_keys. destruct (depth <=? 1)%nat; reflexivity. Qed.

(* without a key function: for EVERY flat or hierarchical index *)
Theorem sifo_index_refines : forall depth labels asc,
  M_sifo_top good_params depth labels None asc = Ok (S_order (index_keys depth labels) (length labels) asc).
Proof.
  intros. unfold M_sifo_top. rewrite sifo_refines by apply index_cfs_dom. rewrite index_cfs_keys. reflexivity.
Qed.

Theorem sifo_key_refines : forall depth labels c asc, sifo_dom (length labels) c = true ->
  M_sifo_top good_params depth labels (Some c) asc = Ok (S_order (cfs_keys c) (length labels) asc).
Proof. intros. unfold M_sifo_top. apply sifo_refines. assumption. Qed.

(* Frame.sort_values: container for sort -> order *)
Theorem fsv_order_refines : forall n c checked asc, fsv_dom n c = true ->
  M_fsv_order RangeDown RangeDown true true n c checked asc = Ok (S_order (cfs_keys c) n asc).
Proof.
  intros n c checked asc H. unfold fsv_dom, vecs_len_ok in H.
  apply andb_true_iff in H as [H Hc]. apply andb_true_iff in H as [Hn Hl].
  unfold M_fsv_order. rewrite Hn. cbn [negb]. rewrite !andb_false_r.
  destruct c as [v|m vs|v|m vs|v|m vs]; try discriminate Hc; cbn [cfs_keys cfs_len] in *.
  - rewrite np_argsort_spec. apply Nat.eqb_eq in Hn. rewrite Hn, finish_S_order. reflexivity.
  - destruct vs as [|v1 [|v2 vs]]; [discriminate Hc| |].
    + cbn in Hl. rewrite andb_true_r in Hl. apply Nat.eqb_eq in Hl.
      rewrite np_argsort_spec, Hl, finish_S_order. reflexivity.
    + rewrite (lexsort_down (v1 :: v2 :: vs) n); [rewrite finish_S_order; reflexivity|discriminate|exact Hl].
  - rewrite np_argsort_spec. apply Nat.eqb_eq in Hn. rewrite Hn, finish_S_order. reflexivity.
  - destruct vs as [|v1 [|v2 vs]]; [discriminate Hc| |].
    + cbn in Hl. rewrite andb_true_r in Hl. apply Nat.eqb_eq in Hl.
      rewrite np_argsort_spec, Hl, finish_S_order. reflexivity.
    + rewrite (lexsort_down (v1 :: v2 :: vs) n); [rewrite finish_S_order; reflexivity|discriminate|exact Hl].
Qed.

(* ------------------------------------------------------------------ refinement: the containers *)
Lemma reorder_index_ok : forall depth labels order,
  Forall (fun i => (i < length labels)%nat) order -> hier_ok depth labels order = true ->
  reorder_index depth labels order = Ok (take VNone order labels).
Proof.
  intros depth labels order Hlt Hh. unfold reorder_index.
  assert (E : existsb (fun i => (length labels <=? i)%nat) order = false).
  { apply not_true_is_false. intro C. apply existsb_exists in C as (i & Hi & Hle).
    rewrite Forall_forall in Hlt. apply Hlt in Hi. apply Nat.leb_le in Hle. lia. }
  rewrite E. unfold hier_ok in Hh.
  destruct (2 <=? depth)%nat; cbn in *; [rewrite Hh|]; reflexivity.
Qed.

Theorem frame_sort_values_refines : forall axis f sel single keyres asc,
  (axis = 1 \/ axis = 0) ->
  let c := fsv_cfs axis (sf_obs f) sel single keyres in
  let n := fsv_n axis (sf_obs f) in
  fsv_dom n c = true ->
  fsv_zero_ok axis (sf_obs f) keyres = true ->
  fsv_hier_ok axis f (S_order (cfs_keys c) n asc) = true ->
  M_frame_sort_values good_params axis f sel single keyres asc =
  Ok (S_frame_sort axis (sf_obs f) (cfs_keys c) asc).
Proof.
  intros axis f sel single keyres asc Hax c n Hd Hz Hh.
  unfold M_frame_sort_values. cbn [good_params p_fsv1_arr p_fsv1_frame p_fsv0_arr p_fsv0_frame p_fsv_desc p_fsv0_len_check p_fsv1_len_check].
  assert (Ec : (match keyres with
                | Some c0 => (c0, true)
                | None => (fsv_default_cfs axis (sf_obs f) sel single, false)
                end) = (c, match keyres with Some _ => true | None => false end)).
  { unfold c, fsv_cfs. destruct keyres; reflexivity. }
  rewrite Ec. clear Ec. unfold S_frame_sort, fsv_hier_ok, fsv_n, fsv_zero_ok in *.
  destruct Hax as [-> | ->]; cbn [Z.eqb Pos.eqb] in *.
  - rewrite (fsv_order_refines _ _ _ _ Hd). cbn [res_bind]. unfold M_apply_rows.
    rewrite reorder_index_ok; [reflexivity|apply S_order_lt|exact Hh].
  - assert (G : negb (match keyres with Some _ => true | None => false end) &&
                (length (of_cols (sf_obs f)) =? 0)%nat = false).
    { destruct keyres; [reflexivity|]. cbn [andb negb] in *. apply negb_true_iff in Hz. exact Hz. }
    rewrite G. rewrite (fsv_order_refines _ _ _ _ Hd). cbn [res_bind]. unfold M_apply_cols.
    rewrite reorder_index_ok; [reflexivity|apply S_order_lt|exact Hh].
Qed.

Theorem frame_sort_index_refines : forall f asc,
  let keys := index_keys (sf_idepth f) (of_index (sf_obs f)) in
  hier_ok (sf_idepth f) (of_index (sf_obs f)) (S_order keys (length (of_index (sf_obs f))) asc) = true ->
  M_frame_sort_index good_params f None asc = Ok (S_frame_sort 1 (sf_obs f) keys asc).
Proof.
  intros f asc keys Hh. unfold M_frame_sort_index. rewrite sifo_index_refines. cbn [order2d_to_typeerror res_bind].
  unfold M_apply_rows. rewrite reorder_index_ok; [reflexivity|apply S_order_lt|exact Hh].
Qed.

Theorem frame_sort_columns_refines : forall f asc,
  let keys := index_keys (sf_cdepth f) (of_columns (sf_obs f)) in
  hier_ok (sf_cdepth f) (of_columns (sf_obs f)) (S_order keys (length (of_columns (sf_obs f))) asc) = true ->
  M_frame_sort_columns good_params f None asc = Ok (S_frame_sort 0 (sf_obs f) keys asc).
Proof.
  intros f asc keys Hh. unfold M_frame_sort_columns. rewrite sifo_index_refines. cbn [order2d_to_typeerror res_bind].
  unfold M_apply_cols. rewrite reorder_index_ok; [reflexivity|apply S_order_lt|exact Hh].
Qed.

Theorem series_sort_index_refines : forall s asc,
  let keys := index_keys (ss_idepth s) (os_index (ss_obs s)) in
  hier_ok (ss_idepth s) (os_index (ss_obs s)) (S_order keys (length (os_index (ss_obs s))) asc) = true ->
  M_series_sort_index good_params s None asc = Ok (S_series_sort (ss_obs s) keys asc).
Proof.
  intros s asc keys Hh. unfold M_series_sort_index. rewrite sifo_index_refines. cbn [order2d_to_typeerror res_bind].
  unfold M_apply_series. rewrite reorder_index_ok; [reflexivity|apply S_order_lt|exact Hh].
Qed.

(* Series.sort_values, for EVERY key result: sorted by it when it has the Series' length, RuntimeError otherwise.
   (first hypothesis: the Series itself is well formed -- as many values as labels) *)
Theorem series_sort_values_refines : forall s keyres asc,
  length (os_values (ss_obs s)) = length (os_index (ss_obs s)) ->
  let v := match keyres with Some c => hd [] (cfs_keys c) | None => os_values (ss_obs s) end in
  hier_ok (ss_idepth s) (os_index (ss_obs s)) (S_order [v] (length (os_index (ss_obs s))) asc) = true ->
  M_series_sort_values good_params s keyres asc =
  if (length v =? length (os_index (ss_obs s)))%nat then Ok (S_series_sort (ss_obs s) [v] asc)
  else Err "RuntimeError".
Proof.
  intros s keyres asc Hwf v Hh. unfold M_series_sort_values. cbn [good_params p_ssv_desc p_ssv_len_check].
  assert (G : forall w, length w = length (os_index (ss_obs s)) ->
              hier_ok (ss_idepth s) (os_index (ss_obs s)) (S_order [w] (length (os_index (ss_obs s))) asc) = true ->
              M_apply_series s (finish true asc (np_argsort w)) = Ok (S_series_sort (ss_obs s) [w] asc)).
  { intros w Hl Hw. rewrite np_argsort_spec, Hl, finish_S_order. unfold M_apply_series.
    rewrite reorder_index_ok; [reflexivity|apply S_order_lt|exact Hw]. }
  destruct keyres as [c|]; subst v; cbn [andb].
  - rewrite Hwf. destruct (length (hd [] (cfs_keys c)) =? length (os_index (ss_obs s)))%nat eqn:E; cbn [negb].
    + apply G; [apply Nat.eqb_eq; exact E|exact Hh].
    + reflexivity.
  - rewrite <- Hwf at 1. rewrite Nat.eqb_refl. apply G; [exact Hwf|exact Hh].
Qed.

Theorem index_sort_refines : forall depth labels asc,
  let keys := index_keys depth labels in
  hier_ok depth labels (S_order keys (length labels) asc) = true ->
  M_index_sort good_params depth labels None asc = Ok (S_index_sort labels keys asc).
Proof.
  intros depth labels asc keys Hh. unfold M_index_sort. rewrite sifo_index_refines. cbn [order2d_to_typeerror res_bind].
  rewrite reorder_index_ok; [reflexivity|apply S_order_lt|exact Hh].
Qed.

(* ------------------------------------------------------------------ malformed key results are always rejected *)
(* whatever the key function returns (any class, any content): a result whose extent along the sorted axis is
   not the axis length never produces a sorted container -- the call raises RuntimeError *)
Theorem sifo_rejects_wrong_length : forall depth labels c asc, cfs_len c <> length labels ->
  M_sifo_top good_params depth labels (Some c) asc = Err "RuntimeError".
Proof.
  intros depth labels c asc H. unfold M_sifo_top, M_sifo. cbn [good_params p_sifo_len_check andb].
  apply Nat.eqb_neq in H. rewrite H. reflexivity.
Qed.

Theorem frame_sort_values_rejects_wrong_length : forall axis f sel single c asc, (axis = 1 \/ axis = 0) ->
  cfs_len c <> fsv_n axis (sf_obs f) ->
  M_frame_sort_values good_params axis f sel single (Some c) asc = Err "RuntimeError".
Proof.
  intros axis f sel single c asc Hax H. unfold M_frame_sort_values, fsv_n in *.
  cbn [good_params p_fsv0_len_check p_fsv1_len_check p_fsv1_arr p_fsv1_frame p_fsv0_arr p_fsv0_frame p_fsv_desc].
  destruct Hax as [-> | ->]; cbn [Z.eqb Pos.eqb negb andb] in *;
    unfold M_fsv_order; cbn [andb]; apply Nat.eqb_neq in H; rewrite H; reflexivity.
Qed.

Theorem sort_index_family_rejects_wrong_length : forall c asc,
  (forall f, cfs_len c <> length (of_index (sf_obs f)) -> M_frame_sort_index good_params f (Some c) asc = Err "RuntimeError") /\
  (forall f, cfs_len c <> length (of_columns (sf_obs f)) -> M_frame_sort_columns good_params f (Some c) asc = Err "RuntimeError") /\
  (forall s, cfs_len c <> length (os_index (ss_obs s)) -> M_series_sort_index good_params s (Some c) asc = Err "RuntimeError") /\
  (forall depth labels, cfs_len c <> length labels -> M_index_sort good_params depth labels (Some c) asc = Err "RuntimeError").
Proof.
  intros c asc. repeat split; intros;
    unfold M_frame_sort_index, M_frame_sort_columns, M_series_sort_index, M_index_sort;
    rewrite sifo_rejects_wrong_length by assumption; reflexivity.
Qed.
