(* C08 -- from a column key to the targets of the ascending walks: under the guard walk_dom the key made
   ascending (slice_to_ascending_slice -- the REGENERATED kernel via Proofs.AscSlice --, sorted(), masks, ints,
   the null slice) denotes the same positions, strictly increasing, and the targets handed to the walk are the
   per-block runs of those positions. *)
Require Import SF.Prelude SF.PySlice SF.Dtype SF.PyDyn SF.Blocks SF.UpdateSpec SF.BlocksUpdate.
Require Import Gen.Gen_util Proofs.SliceFacts Proofs.AscSliceRefine Proofs.AscSlice.
Require Import Proofs.BlocksSelect Proofs.UpdateLists Proofs.BlocksWalk.

(* the typed ascending slice of the models is the one proved equal to the regenerated kernel *)
Lemma asc_slice_t_eq k n : asc_slice_t k n = asc_typed k n.
Proof. reflexivity. Qed.

Lemma asc_slice_t_kernel k n : s_step k <> Some 0 -> 0 <= n ->
  slice_to_ascending_slice (of_slice k) (PInt n) = of_slice (asc_slice_t k n).
Proof. intros. rewrite asc_slice_t_eq. apply asc_typed_refines; assumption. Qed.

Lemma asc_slice_t_positions k n ps : 0 <= n -> positions k n = Some ps ->
  exists ps', positions (asc_slice_t k n) n = Some ps' /\ increasing ps' /\ (forall x, In x ps' <-> In x ps).
Proof.
  intros Hn Hps. rewrite asc_slice_t_eq.
  assert (Hst : s_step k <> Some 0).
  { intros E. unfold positions, slice_indices in Hps. rewrite E in Hps. discriminate. }
  pose proof (asc_typed_positions k n ps Hn Hps) as Hp.
  exists (if step_negative k then rev ps else ps). split; [assumption|]. split.
  - pose proof (asc_typed_step_pos k n Hst) as Hpos.
    revert Hp. unfold positions, slice_indices.
    destruct (s_step (asc_typed k n)) as [st|].
    + destruct (st =? 0); [discriminate|]. intros E. injection E as <-. apply range_list_increasing. assumption.
    + cbn [Z.eqb]. intros E. injection E as <-. apply range_list_increasing. lia.
  - intros x. destruct (step_negative k); [symmetry; apply in_rev|reflexivity].
Qed.

(* ---------- sorted() on duplicate-free non-negative positions ---------- *)
Lemma insert_sorted_In x l y : In y (insert_sorted x l) <-> y = x \/ In y l.
Proof.
  induction l as [|z l IH]; cbn.
  - split; [intros [<-|[]]; left; reflexivity|intros [->|[]]; left; reflexivity].
  - destruct (x <=? z); cbn; [split; intros [H|H]; auto|].
    rewrite IH. split; intros H; tauto.
Qed.

Lemma sort_z_In l y : In y (sort_z l) <-> In y l.
Proof.
  induction l as [|x l IH]; cbn; [reflexivity|]. rewrite insert_sorted_In, IH. split; intros [H|H]; auto.
Qed.

Lemma insert_sorted_increasing x l : increasing l -> ~ In x l -> increasing (insert_sorted x l).
Proof.
  induction l as [|z l IH]; intros Hinc Hnin; cbn.
  - constructor; constructor.
  - apply increasing_cons in Hinc as [Hinc Hlt]. destruct (x <=? z) eqn:E.
    + assert (x < z) by (assert (x <> z) by (intros ->; apply Hnin; left; reflexivity); lia).
      constructor; [constructor; [assumption|apply Forall_forall; assumption]|].
      apply Forall_forall. intros y [<-|Hy]; [assumption|]. specialize (Hlt y Hy). lia.
    + constructor; [apply IH; [assumption|intros H; apply Hnin; right; assumption]|].
      apply Forall_forall. intros y Hy. apply insert_sorted_In in Hy as [->|Hy]; [lia|apply Hlt; assumption].
Qed.

Lemma nodupb_NoDup l : nodupb l = true -> NoDup l.
Proof.
  induction l as [|x l IH]; cbn; [constructor|]. intros H. apply andb_true_iff in H as [H1 H2].
  constructor; [|apply IH; assumption]. intros Hin. apply negb_true_iff in H1.
  assert (existsb (Z.eqb x) l = true); [|congruence].
  apply existsb_exists. exists x. split; [assumption|apply Z.eqb_refl].
Qed.

Lemma sort_z_increasing l : NoDup l -> increasing (sort_z l).
Proof.
  induction 1 as [|x l Hnin _ IH]; cbn; [constructor|].
  apply insert_sorted_increasing; [assumption|]. rewrite sort_z_In. assumption.
Qed.

(* Python list indexing and the normalisation of negative positions agree wherever the index is valid *)
Lemma norm_index_norm_pos x n y : norm_index x n = Some y -> y = norm_pos n x /\ 0 <= y < n.
Proof.
  unfold norm_index, norm_pos. destruct ((0 <=? x) && (x <? n)) eqn:E1.
  - intros E. injection E as <-. replace ((- n <=? x) && (x <? 0)) with false by lia. lia.
  - destruct ((x <? 0) && (0 <=? x + n)) eqn:E2; [|discriminate]. intros E. injection E as <-.
    replace ((- n <=? x) && (x <? 0)) with true by lia. lia.
Qed.

Lemma norm_index_of_norm_pos x n : norm_index x n = None -> norm_index (norm_pos n x) n = None.
Proof.
  unfold norm_index, norm_pos. destruct ((0 <=? x) && (x <? n)) eqn:E1; [discriminate|].
  destruct ((x <? 0) && (0 <=? x + n)) eqn:E2; [discriminate|]. intros _.
  replace ((- n <=? x) && (x <? 0)) with false by lia. rewrite E1, E2. reflexivity.
Qed.

Lemma norm_all_map l n ps : opt_all (map (fun i => norm_index i n) l) = Some ps ->
  ps = map (norm_pos n) l /\ forall x, In x ps -> 0 <= x < n.
Proof.
  revert ps. induction l as [|x l IH]; intros ps E; cbn in *.
  - injection E as <-. split; [reflexivity|intros x []].
  - destruct (norm_index x n) as [y|] eqn:Ex; [|discriminate].
    destruct (opt_all _) as [qs|] eqn:Eq; [|discriminate]. injection E as <-.
    destruct (IH qs eq_refl) as [-> Hr]. destruct (norm_index_norm_pos x n y Ex) as [-> Hy].
    split; [reflexivity|]. intros z [<-|Hz]; [assumption|apply Hr; assumption].
Qed.

Lemma norm_all_none l n : opt_all (map (fun i => norm_index i n) l) = None ->
  opt_all (map (fun i => norm_index i n) (sort_z (map (norm_pos n) l))) = None.
Proof.
  intros E. destruct (opt_all (map (fun i => norm_index i n) (sort_z (map (norm_pos n) l)))) as [qs|] eqn:E2; [|reflexivity].
  exfalso. apply opt_all_Some in E2.
  assert (Hall : forall x, In x l -> exists y, norm_index x n = Some y).
  { intros x Hx. destruct (norm_index x n) as [y|] eqn:Ex; [exists y; reflexivity|]. exfalso.
    apply norm_index_of_norm_pos in Ex.
    assert (Hin : In (norm_pos n x) (sort_z (map (norm_pos n) l))) by (apply sort_z_In, in_map; assumption).
    apply (in_map (fun i => norm_index i n)) in Hin. rewrite E2 in Hin.
    apply in_map_iff in Hin as (y & Hy & _). congruence. }
  clear - E Hall. revert E. induction l as [|x l IHl]; cbn; [discriminate|].
  destruct (Hall x (or_introl eq_refl)) as [y ->].
  destruct (opt_all (map (fun i => norm_index i n) l)) eqn:E; [discriminate|].
  intros _. apply IHl; [intros z Hz; apply Hall; right; assumption|reflexivity].
Qed.

Lemma norm_all_in_range l n : (forall x, In x l -> 0 <= x < n) ->
  opt_all (map (fun i => norm_index i n) l) = Some l.
Proof.
  induction l as [|x l IH]; intros H; cbn; [reflexivity|].
  assert (0 <= x < n) by (apply H; left; reflexivity).
  unfold norm_index at 1. replace ((0 <=? x) && (x <? n)) with true by lia.
  rewrite IH by (intros y Hy; apply H; right; assumption). reflexivity.
Qed.

(* ---------- the key made ascending ---------- *)
Lemma mask_positions_increasing m : forall i, increasing (mask_positions m i).
Proof.
  induction m as [|[|] m IH]; intros i; cbn; [constructor| |apply IH].
  constructor; [apply IH|]. apply Forall_forall. intros x Hx. apply mask_positions_spec in Hx. lia.
Qed.

Lemma seq_increasing a n : increasing (map Z.of_nat (seq a n)).
Proof.
  revert a. induction n as [|n IH]; intros a; cbn; [constructor|].
  constructor; [apply IH|]. apply Forall_forall. intros x Hx. apply in_map_iff in Hx as (y & <- & Hy).
  apply in_seq in Hy. lia.
Qed.

Lemma asc_key_positions (k : ckey) n ps : 0 <= n -> walk_dom k n = true -> key_positions k n = Ok ps ->
  exists ps', key_positions (asc_key_with true k n) n = Ok ps' /\ increasing ps' /\
              (forall x, In x ps' <-> In x ps) /\ (forall x, In x ps' -> 0 <= x < n).
Proof.
  intros Hn Hdom Hk.
  assert (Hrange : forall x, In x ps -> 0 <= x < n).
  { destruct (key_positions_ok k n ps Hn) as [_ H]; [|assumption|exact H].
    destruct k; cbn; try exact I. intros qs Eq. cbn in Hdom.
    destruct (norm_all_map l n qs Eq) as [-> _]. apply nodupb_NoDup. assumption. }
  destruct k as [|i|s|l|m]; cbn [asc_key_with].
  - exists ps. split; [assumption|]. cbn in Hk. injection Hk as <-.
    split; [apply seq_increasing|]. split; [tauto|apply Hrange].
  - exists ps. split; [assumption|]. cbn in Hk. destruct (norm_index i n); [|discriminate]. injection Hk as <-.
    split; [repeat constructor|]. split; [tauto|apply Hrange].
  - cbn in Hk. destruct (positions s n) as [qs|] eqn:Eq; [|discriminate]. injection Hk as <-.
    destruct (asc_slice_t_positions s n qs Hn Eq) as (ps' & E1 & E2 & E3).
    exists ps'. cbn [key_positions]. rewrite E1. split; [reflexivity|]. split; [assumption|]. split; [assumption|].
    intros x Hx. apply Hrange. apply E3. assumption.
  - cbn in Hdom.
    cbn in Hk. destruct (opt_all _) as [qs|] eqn:Eq; [|discriminate]. injection Hk as <-.
    destruct (norm_all_map l n qs Eq) as [-> _].
    exists (sort_z (map (norm_pos n) l)). cbn [key_positions].
    rewrite norm_all_in_range by (intros x Hx; apply Hrange; apply sort_z_In; assumption).
    split; [reflexivity|]. split; [apply sort_z_increasing, nodupb_NoDup; assumption|].
    split; [intros x; apply sort_z_In|].
    intros x Hx. apply Hrange. apply sort_z_In. assumption.
  - exists ps. split; [assumption|]. cbn in Hk. destruct (_ =? n); [|discriminate]. injection Hk as <-.
    split; [apply mask_positions_increasing|]. split; [tauto|apply Hrange].
Qed.

(* an invalid key stays invalid (same exception class) when it is made ascending *)
Lemma asc_key_positions_err (k : ckey) n e : walk_dom k n = true -> key_positions k n = Err e ->
  key_positions (asc_key_with true k n) n = Err e.
Proof.
  intros Hdom Hk. destruct k as [|i|s|l|m]; cbn [asc_key_with]; try assumption.
  - cbn in Hk. destruct (positions s n) as [qs|] eqn:Eq; [discriminate|].
    exfalso. unfold positions, slice_indices in Eq. cbn in Hdom.
    destruct (s_step s) as [st|]; cbn in Eq; [|discriminate]. destruct (st =? 0); discriminate.
  - cbn in Hk |- *. destruct (opt_all (map (fun i => norm_index i n) l)) as [qs|] eqn:Eq; [discriminate|].
    rewrite (norm_all_none l n Eq). assumption.
Qed.

(* the REGENERATED decisions: both conversions normalise negative positions and leave Boolean arrays alone
   (reverting fix c80a0ec or dc30af2 in the source flips a constant of Gen_c08 and breaks these two lemmas) *)
Lemma asc_key_normalises k n : asc_key k n = asc_key_with true k n.
Proof. reflexivity. Qed.

Lemma ascending_key_normalises k n as_array : ascending_key k n as_array = asc_key_with true k n.
Proof. destruct k, as_array; reflexivity. Qed.

(* ---------- the whole-frame key ---------- *)
Lemma runs_go_seq k : forall a m s, Z.of_nat s = a + Z.of_nat m ->
  runs_go a m (map Z.of_nat (seq s k)) = [(a, (m + k)%nat)].
Proof.
  induction k as [|k IH]; intros a m s Hs; cbn [seq map runs_go].
  - rewrite Nat.add_0_r. reflexivity.
  - replace (Z.of_nat s =? a + Z.of_nat m) with true by lia.
    rewrite IH by lia. f_equal. f_equal. lia.
Qed.

Lemma filter_all_true {B} (f : B -> bool) l : (forall x, In x l -> f x = true) -> filter f l = l.
Proof.
  induction l as [|x l IH]; intros H; cbn; [reflexivity|].
  rewrite H by (left; reflexivity). f_equal. apply IH. intros y Hy. apply H. right. assumption.
Qed.

Lemma filter_all_false {B} (f : B -> bool) l : (forall x, In x l -> f x = false) -> filter f l = [].
Proof.
  induction l as [|x l IH]; intros H; cbn; [reflexivity|].
  rewrite H by (left; reflexivity). apply IH. intros y Hy. apply H. right. assumption.
Qed.

Lemma filter_seq_lt w n : filter (fun p => p <? Z.of_nat w) (map Z.of_nat (seq 0 (w + n))) = map Z.of_nat (seq 0 w).
Proof.
  rewrite seq_app, map_app, filter_app. cbn [plus].
  rewrite filter_all_true, filter_all_false, app_nil_r; [reflexivity| |];
    intros x Hx; apply in_map_iff in Hx as (y & <- & Hy); apply in_seq in Hy; lia.
Qed.

Lemma map_sub_seq w n : forall a,
  map (fun x => Z.of_nat x - Z.of_nat w) (seq (w + a) n) = map Z.of_nat (seq a n).
Proof.
  induction n as [|n IH]; intros a; [reflexivity|].
  cbn [seq map]. f_equal; [lia|]. replace (S (w + a)) with (w + S a)%nat by lia. apply IH.
Qed.

Lemma filter_seq_ge w n :
  map (fun p => p - Z.of_nat w) (filter (fun p => Z.of_nat w <=? p) (map Z.of_nat (seq 0 (w + n)))) = map Z.of_nat (seq 0 n).
Proof.
  rewrite seq_app, map_app, filter_app. cbn [plus].
  rewrite filter_all_false, filter_all_true; cbn [app];
    [| intros x Hx; apply in_map_iff in Hx as (y & <- & Hy); apply in_seq in Hy; lia
     | intros x Hx; apply in_map_iff in Hx as (y & <- & Hy); apply in_seq in Hy; lia].
  rewrite map_map. rewrite <- (map_sub_seq w n 0). rewrite Nat.add_0_r. reflexivity.
Qed.

Lemma block_runs_all {A} (t : tb A) : wf_tb t ->
  block_runs t (map Z.of_nat (seq 0 (length (flatten t)))) = map (fun b => [(0, length (b_cols b))]) t.
Proof.
  induction 1 as [|b r [Hw _] _ IH]; [reflexivity|].
  cbn [block_runs map flatten flat_map]. rewrite app_length. unfold block_columns at 1 3. rewrite map_length.
  unfold width. rewrite filter_seq_lt, filter_seq_ge. fold (flatten r). rewrite IH. f_equal.
  destruct (length (b_cols b)) as [|w] eqn:E; [lia|].
  cbn [seq map runs]. rewrite <- seq_shift, map_map.
  rewrite <- (map_map S Z.of_nat), seq_shift.
  rewrite runs_go_seq by (cbn; lia). reflexivity.
Qed.

(* ---------- from the key to the targets of the ascending walk ---------- *)
Theorem block_slices_asc_runs {A} (t : tb A) (k : ckey) ps : wf_tb t ->
  walk_dom k (Z.of_nat (length (flatten t))) = true ->
  key_positions k (Z.of_nat (length (flatten t))) = Ok ps ->
  exists ps', increasing ps' /\ (forall x, In x ps' <-> In x ps) /\
              (forall x, In x ps' -> 0 <= x < Z.of_nat (length (flatten t))) /\
              block_slices_asc t k = Ok (map target_of (bundles_of 0 (block_runs t ps'))).
Proof.
  intros Hwf Hdom Hk.
  set (n := Z.of_nat (length (flatten t))) in *.
  assert (Hn : 0 <= n) by (unfold n; lia).
  destruct (asc_key_positions k n ps Hn Hdom Hk) as (ps' & E & Hinc & Hsame & Hrange).
  exists ps'. split; [assumption|]. split; [assumption|]. split; [assumption|].
  unfold block_slices_asc, ncols, tb_index. rewrite index_from_length. fold n. rewrite asc_key_normalises.
  destruct k as [|i|s|l|m].
  - (* null slice: one target per block *)
    cbn [asc_key_with key_to_block_slices]. cbn in E. injection E as <-.
    unfold all_block_slices. rewrite (all_block_slices_from t Hwf 0). unfold n. rewrite Nat2Z.id.
    rewrite block_runs_all by assumption. reflexivity.
  - unfold key_to_block_slices. cbn [asc_key_with] in *. unfold tb_index. rewrite index_from_length. fold n. rewrite E.
    destruct (bundles_of_positions t 0 ps' Hinc Hrange) as (pairs & Ep & Eb & _).
    rewrite Ep. unfold contiguous_pairs. rewrite Eb. reflexivity.
  - unfold key_to_block_slices. cbn [asc_key_with] in *. unfold tb_index. rewrite index_from_length. fold n. rewrite E.
    destruct (bundles_of_positions t 0 ps' Hinc Hrange) as (pairs & Ep & Eb & _).
    rewrite Ep. unfold contiguous_pairs. rewrite Eb. reflexivity.
  - unfold key_to_block_slices. cbn [asc_key_with] in *. unfold tb_index. rewrite index_from_length. fold n. rewrite E.
    destruct (bundles_of_positions t 0 ps' Hinc Hrange) as (pairs & Ep & Eb & _).
    rewrite Ep. unfold contiguous_pairs. rewrite Eb. reflexivity.
  - unfold key_to_block_slices. cbn [asc_key_with] in *. unfold tb_index. rewrite index_from_length. fold n. rewrite E.
    destruct (bundles_of_positions t 0 ps' Hinc Hrange) as (pairs & Ep & Eb & _).
    rewrite Ep. unfold contiguous_pairs. rewrite Eb. reflexivity.
Qed.

Lemma block_slices_asc_err {A} (t : tb A) (k : ckey) e :
  walk_dom k (Z.of_nat (length (flatten t))) = true ->
  key_positions k (Z.of_nat (length (flatten t))) = Err e -> block_slices_asc t k = Err e.
Proof.
  intros Hdom Hk. pose proof (asc_key_positions_err k _ e Hdom Hk) as E.
  unfold block_slices_asc, ncols, tb_index. rewrite index_from_length, asc_key_normalises.
  destruct k as [|i|s|l|m]; try (cbn in Hk; discriminate);
    unfold key_to_block_slices; cbn [asc_key_with] in *; unfold tb_index; rewrite index_from_length, E; reflexivity.
Qed.
