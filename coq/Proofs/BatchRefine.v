(* C19 -- Batch: the chain of lazy generators computes, label by label, the composition of the operations. *)
Require Import SF.Prelude SF.Value SF.BatchView.

Section BatchFacts.
  Variable L : Type.
  Notation stage := (stage L).

  Lemma S_items_nil (items : list (L * cont)) e : S_items [] items e = (items, e).
  Proof.
    induction items as [|[l c] r IH]; [reflexivity|]. cbn [S_items thread]. rewrite IH. reflexivity.
  Qed.

  (* one more generator wrapped around a stream that already is the label-wise result *)
  Lemma run_then_S (st : stage) (rest : list stage) : forall items e,
    S_items rest (fst (run_items L st items e)) (snd (run_items L st items e)) = S_items (st :: rest) items e.
  Proof.
    induction items as [|[l c] r IH]; intros e; [reflexivity|].
    cbn [run_items S_items thread]. destruct (stage_fn L st l c) as [x|err].
    - specialize (IH e). destruct (run_items L st r e) as [ys e'] eqn:E. cbn [fst snd] in *.
      cbn [S_items]. destruct (thread rest l (normalize_container x)); [rewrite IH; reflexivity | exact IH | reflexivity].
    - destruct (stage_catches L st err); [apply IH | reflexivity].
  Qed.

  Lemma fold_is_S : forall (stages : list stage) items e,
    fold_left (fun s st => run_stage st s) stages (items, e) = S_items stages items e.
  Proof.
    induction stages as [|st rest IH]; intros items e.
    - cbn [fold_left]. symmetry. apply S_items_nil.
    - cbn [fold_left]. unfold run_stage at 2. cbn [fst snd].
      destruct (run_items L st items e) as [ys e'] eqn:E. rewrite IH.
      pose proof (run_then_S st rest items e) as H. rewrite E in H. exact H.
  Qed.

  (* BATCH-POINTWISE: for every chain of operations (plain or exception-silencing, of any depth) and every
     Batch, what the generators yield -- and the exception they end with, if any -- is what applying the
     whole chain to each label's Frame in turn gives *)
  Theorem batch_pointwise : forall (stages : list stage) (items : list (L * cont)),
    M_batch stages items = S_batch stages items.
  Proof. intros. apply fold_is_S. Qed.

  (* ---- the pool path: same results; when some label fails, an exception (possibly another label's) ---- *)
  Lemma run_items_sticky (st : stage) items e : snd (run_items L st items (Some e)) <> None.
  Proof.
    induction items as [|[l c] r IH]; cbn [run_items]; [discriminate|].
    destruct (stage_fn L st l c) as [x|err].
    - destruct (run_items L st r (Some e)) as [ys e'] eqn:E. cbn [snd] in *. exact IH.
    - destruct (stage_catches L st err); [exact IH | discriminate].
  Qed.

  Lemma fold_lazy_sticky : forall (stages : list stage) (s : stream L),
    snd s <> None -> snd (fold_left (fun s st => run_stage st s) stages s) <> None.
  Proof.
    induction stages as [|st rest IH]; intros s H; [exact H|]. cbn [fold_left]. apply IH.
    unfold run_stage. destruct (snd s) as [e|] eqn:E; [apply run_items_sticky | congruence].
  Qed.

  Lemma fold_pool_sticky : forall (stages : list stage) (s : stream L),
    snd s <> None -> snd (fold_left (fun s st => run_stage_pool st s) stages s) <> None.
  Proof.
    induction stages as [|st rest IH]; intros s H; [exact H|]. cbn [fold_left]. apply IH.
    unfold run_stage_pool. destruct (snd s) as [e|] eqn:E; [discriminate | congruence].
  Qed.

  Lemma collect_err (s : stream L) : snd s <> None -> ok_part (collect s) = None.
  Proof. unfold collect. destruct (snd s); [reflexivity | congruence]. Qed.

  Lemma pool_vs_lazy : forall (stages : list stage) (s : stream L),
    ok_part (collect (fold_left (fun s st => run_stage_pool st s) stages s)) =
    ok_part (collect (fold_left (fun s st => run_stage st s) stages s)).
  Proof.
    induction stages as [|st rest IH]; intros s; [reflexivity|]. cbn [fold_left].
    destruct (snd s) as [e|] eqn:E.
    - rewrite !collect_err; [reflexivity | | ].
      + apply fold_lazy_sticky. unfold run_stage. rewrite E. apply run_items_sticky.
      + apply fold_pool_sticky. unfold run_stage_pool. rewrite E. discriminate.
    - unfold run_stage_pool at 2. unfold run_stage at 2. rewrite E. apply IH.
  Qed.

  (* BATCH-POOL: with max_workers set the Batch yields the same label-wise results; it raises iff some label's
     chain raises (the exception then is that of the earliest failing operation, not of the earliest label) *)
  Theorem batch_pool_pointwise : forall (stages : list stage) (items : list (L * cont)),
    ok_part (collect (M_batch_pool stages items)) = ok_part (collect (S_batch stages items)).
  Proof. intros. unfold M_batch_pool. rewrite pool_vs_lazy. fold (M_batch stages items). rewrite batch_pointwise. reflexivity. Qed.

  (* when nothing raises, the Batch is the pointwise map *)
  Fixpoint compose (fs : list (L -> cont -> res raw)) (l : L) (c : cont) : option cont :=
    match fs with
    | [] => Some c
    | f :: r => match f l c with Ok x => compose r l (normalize_container x) | Err _ => None end
    end.

  Lemma thread_total (fs : list (L -> cont -> res raw)) l c c' :
    compose fs l c = Some c' -> thread (map (@SApply L) fs) l c = Keep c'.
  Proof.
    revert c; induction fs as [|f r IH]; intros c H; cbn in *.
    - congruence.
    - destruct (f l c); [apply IH; exact H | discriminate].
  Qed.

  Theorem batch_pointwise_total : forall (fs : list (L -> cont -> res raw)) (items : list (L * cont)) (outs : list cont),
    Forall2 (fun lc c' => compose fs (fst lc) (snd lc) = Some c') items outs ->
    collect (M_batch (map (@SApply L) fs) items) = Ok (combine (map fst items) outs).
  Proof.
    intros fs items outs H. rewrite batch_pointwise. unfold S_batch, collect.
    assert (E : S_items (map (@SApply L) fs) items None = (combine (map fst items) outs, None)).
    { induction H as [|[l c] c' items outs Hx _ IH]; [reflexivity|]. cbn [S_items map fst combine].
      cbn [fst snd] in Hx. rewrite (thread_total fs l c c' Hx), IH. reflexivity. }
    rewrite E. reflexivity.
  Qed.
End BatchFacts.

(* BATCH-EXPORT: to_frame of the Batch is the concatenation of exactly the label-wise results (whenever no
   two-dimensional result is empty along the export axis) *)
Lemma to_frame_of_strict axis name its :
  (forallb (fun c => negb (cont_is_series c)) (map snd its) && existsb (empty_along axis) (map snd its)) = false ->
  to_frame_of true axis name its = to_frame_of false axis name its.
Proof.
  intros H. unfold to_frame_of. destruct (forallb cont_is_series (map snd its)); [reflexivity|].
  destruct (forallb (fun c => negb (cont_is_series c)) (map snd its)); [|reflexivity].
  cbn [andb] in H. rewrite H. reflexivity.
Qed.

Theorem batch_export : forall axis name (stages : list (stage val)) (items : list (val * cont)),
  dom_export axis stages items = true ->
  M_to_frame axis name stages items = S_to_frame axis name stages items.
Proof.
  intros axis name stages items H. unfold M_to_frame, S_to_frame, dom_export in *. rewrite batch_pointwise.
  destruct (collect (S_batch stages items)) as [its|e]; cbn [res_bind]; [|reflexivity].
  apply to_frame_of_strict. apply negb_true_iff in H. exact H.
Qed.
