(* C03: non-trivial instances of the hypotheses of the refinement theorems (so that none of them is vacuous),
   evaluated by vm_compute on a concrete mixed layout. *)
Require Import SF.Prelude SF.PySlice SF.Dtype SF.Value SF.Blocks SF.BlocksOps SF.BlocksOpsVal.

Local Open Scope string_scope.

(* int64 2-D block of two columns | float64 1-D block | int64 1-D block; 2 rows *)
Definition ex_tb : tb val :=
  [mk_block (DInt true 8) false [[VInt 10; VInt 11]; [VInt 20; VInt 21]];
   mk_block (DFlt 8) true [[VFlt 3 2; VNaN]];
   mk_block (DInt true 8) true [[VInt 40; VInt 41]]].
(* the same columns, every column a block of its own *)
Definition ex_tb_flat : tb val :=
  [mk_block (DInt true 8) true [[VInt 10; VInt 11]]; mk_block (DInt true 8) true [[VInt 20; VInt 21]];
   mk_block (DFlt 8) true [[VFlt 3 2; VNaN]]; mk_block (DInt true 8) true [[VInt 40; VInt 41]]].

Example ex_wf : wf_tb ex_tb /\ wf_tb ex_tb_flat /\ real_dtypes ex_tb /\ flatten ex_tb = flatten ex_tb_flat.
Proof. repeat split; repeat constructor; cbn; try lia; try reflexivity; try discriminate. Qed.

(* rolling by one column starts INSIDE the 2-D block of the rolled-by-three frame: the block is split *)
Example ex_roll_splits_block :
  M_roll ex_tb 2 4 0 3 (roll_list 0)
  = Ok [mk_block (DInt true 8) false [[VInt 20; VInt 21]]; mk_block (DFlt 8) true [[VFlt 3 2; VNaN]];
        mk_block (DInt true 8) true [[VInt 40; VInt 41]]; mk_block (DInt true 8) false [[VInt 10; VInt 11]]].
Proof. vm_compute. reflexivity. Qed.

Example ex_roll_layouts_agree :
  res_map (@flatten val) (M_roll ex_tb 2 4 1 3 (roll_list 1)) = res_map (@flatten val) (M_roll ex_tb_flat 2 4 1 3 (roll_list 1)).
Proof. vm_compute. reflexivity. Qed.

(* consolidation: the two layouts give the same three groups (int64 x2, float64, int64) *)
Example ex_consolidate :
  map block_sig (consolidate_blocks ex_tb_flat) = map block_sig (consolidate_blocks ex_tb) /\
  length (consolidate_blocks ex_tb_flat) = 3%nat.
Proof. vm_compute. split; reflexivity. Qed.

(* row dtype int64 + float64 = float64; values converts the integer cells; transpose has one column per row *)
Example ex_values :
  M_values_v ex_tb = Some (DFlt 8, [[VFlt 10 1; VFlt 11 1]; [VFlt 20 1; VFlt 21 1]; [VFlt 3 2; VNaN]; [VFlt 40 1; VFlt 41 1]]) /\
  M_transpose_v ex_tb 2 = Ok [mk_block (DFlt 8) false [[VFlt 10 1; VFlt 20 1; VFlt 3 2; VFlt 40 1]; [VFlt 11 1; VFlt 21 1; VNaN; VFlt 41 1]]].
Proof. vm_compute. split; reflexivity. Qed.

(* element / column reads through the directory, negative positions included *)
Example ex_readers :
  M_element ex_tb 1 1 = Ok (DInt true 8, VInt 21) /\ M_element ex_tb (-1) (-2) = Ok (DFlt 8, VNaN) /\
  M_element ex_tb 0 4 = Err "IndexError" /\ tb_index ex_tb = [(0, 0); (0, 1); (1, 0); (2, 0)].
Proof. vm_compute. repeat split; reflexivity. Qed.

(* selection of a descending, strided, cross-block key *)
Example ex_select :
  res_map (@flatten val) (M_select_columns ex_tb (CSlice (mk_slice None None (Some (-1)))))
  = Ok [(DInt true 8, [VInt 40; VInt 41]); (DFlt 8, [VFlt 3 2; VNaN]); (DInt true 8, [VInt 20; VInt 21]); (DInt true 8, [VInt 10; VInt 11])].
Proof. vm_compute. reflexivity. Qed.

(* fillna with a value that fits every block (0 into int64 / float64 blocks): the guard of C03_fillna_refines_when_fits holds *)
Example ex_fill_fits : fill_fits resolve_dtype_t (DInt true 8) ex_tb.
Proof. repeat constructor. Qed.

(* clip with Frame bounds: receiver [2-D x2 | 1-D | 1-D], lower bound stored as [1-D | 2-D x3]: the request of width 2
   pops the 1-D array, then splits the 3-wide array UNEVENLY (1 used, 2 pushed back) *)
Example ex_clip_straddle :
  M_clip_v ex_tb (Some [[[VInt 15; VInt 15]]; [[VInt 0; VInt 21]; [VFlt 2 1; VFlt 2 1]; [VInt 50; VInt 0]]]) None
  = Ok [mk_block (DInt true 8) false [[VInt 15; VInt 15]; [VInt 20; VInt 21]];
        mk_block (DFlt 8) true [[VFlt 2 1; VNaN]]; mk_block (DInt true 8) true [[VInt 50; VInt 41]]]
  /\ take_cols [[1; 2]; [3; 4; 5]; [6]]%Z 3 = Some ([1; 2; 3]%Z, [[4; 5]; [6]]%Z).
Proof. vm_compute. split; reflexivity. Qed.
